import LanceModel.C33.Model
/-
C01 model: every commit is atomic; versions form a dense, monotone history.

The table is an object store `path → object`.  A write operation is a straight-line PROGRAM of storage calls taken from
the real code:

    write data files* ; write deletion files* ; write index files* ; put _transactions/<uuid>.txn ;
    CommitHandler.commit(manifest v)            [ ; the same again for operations that commit twice (compaction) ]

(rust/lance/src/dataset/write.rs `write_fragments_internal`, rust/lance/src/io/commit.rs `write_transaction_file`,
`do_commit_new_dataset`, `commit_transaction`, `do_commit_detached_transaction`, rust/lance/src/dataset.rs
`write_manifest_file`, rust/lance-table/src/io/commit.rs `ConditionalPutCommitHandler::commit`,
`RenameCommitHandler::commit`, `impl CommitHandler for T: CommitLock`).  A crash stops the program after k calls; an
injected failure stops it at call k without (fail-before) or with (lost response) the effect of that call — the real
code issues no further mutating call after an error (checked by the correspondence run).

Names under `_versions/` are the strings of `LanceModel.C33` (`manifestName`, staging name `<manifest name>-<uuid>`), so
`versions` and `latest` are C33's `versions` / `currentManifestPath` over the listing of the store.

Import-free apart from the (import-free) C33 model, so the driver links natively.
-/
namespace LanceModel.C01
open LanceModel.C33 (Name Scheme manifestName isDetached dec)

abbrev Cell := Option Int
abbrev Row := List Cell

/-- classes of files below the table root other than `_versions/` -/
inductive Cls where
  | data   -- data/<uuid>.lance
  | del    -- _deletions/<frag>-<version>-<id>.arrow
  | idx    -- _indices/<uuid>/<file>
  | txn    -- _transactions/<read version>-<uuid>.txn
  deriving DecidableEq, Repr

/-- a path below the table root.  `file c id sub`: the `sub`-th file of the object named by the fresh identifier `id`
    (a uuid in the real code); `ver name`: `_versions/<name>` -/
inductive Path where
  | file (c : Cls) (id : Nat) (sub : Nat)
  | ver (name : Name)
  deriving DecidableEq, Repr

structure DataFile where
  id : Nat
  /-- field ids stored in the file -/
  fields : List Nat
  deriving DecidableEq, Repr

/-- format/fragment.rs `Fragment`: id, data files, deletion file, physical rows -/
structure Frag where
  id : Nat
  files : List DataFile
  del : Option Nat
  phys : Nat
  deriving DecidableEq, Repr

/-- format/index.rs `IndexMetadata`: uuid, files of the index directory, fragment bitmap -/
structure Index where
  id : Nat
  nfiles : Nat
  frags : List Nat
  deriving DecidableEq, Repr

/-- format/manifest.rs `Manifest`: the fields `Transaction::build_manifest` touches -/
structure Manifest where
  version : Nat
  /-- schema: live field ids in column order -/
  fields : List Nat
  nextField : Nat
  frags : List Frag
  /-- `max_fragment_id + 1` (0 when there never was a fragment) -/
  nextFrag : Nat
  indices : List Index
  /-- value of config key `k` -/
  cfg : Option Nat
  /-- `transaction_file` -/
  txn : Nat
  deriving DecidableEq, Repr

inductive Obj where
  /-- data file: field id ↦ column values -/
  | cols (c : List (Nat × List Cell))
  /-- deletion file: deleted row offsets -/
  | dels (offs : List Nat)
  /-- index / transaction file (content not interpreted) -/
  | blob
  | man (m : Manifest)
  deriving DecidableEq, Repr

/-- every file a manifest names: data files, deletion files, index files, the transaction file -/
def Frag.refs (f : Frag) : List Path :=
  f.files.map (fun d => Path.file .data d.id 0) ++
    (match f.del with
     | some d => [Path.file .del d 0]
     | none => [])

def Index.refs (i : Index) : List Path := (List.range i.nfiles).map (fun k => Path.file .idx i.id k)

def Manifest.refs (m : Manifest) : List Path :=
  m.frags.flatMap Frag.refs ++ m.indices.flatMap Index.refs ++ [Path.file .txn m.txn 0]

/-! ### the object store -/

abbrev Store := List (Path × Obj)

def get : Store → Path → Option Obj
  | [], _ => none
  | (q, o) :: t, p => if q = p then some o else get t p

def erase (s : Store) (p : Path) : Store := s.filter (fun e => decide (e.1 ≠ p))

/-- `put` (overwrite) -/
def put (s : Store) (p : Path) (o : Obj) : Store := (p, o) :: erase s p

def present (s : Store) (p : Path) : Bool := (get s p).isSome

def verName : Path → Option Name
  | .ver n => some n
  | _ => none

/-- listing of `_versions/` (file names, in store order) -/
def names (s : Store) : List Name := s.filterMap (fun e => verName e.1)

/-- published (attached) versions: `Dataset::versions()` = `list_manifest_locations` -/
def versions (s : Store) : List Nat := C33.versions (names s)

/-- `CommitHandler::resolve_latest_location` = `current_manifest_path` (full scan; by `C33.latest_order_independent` the
    answer is the same on a store with a lexically ordered listing) -/
def latest (s : Store) : C33.Res := C33.currentManifestPath false (names s)

/-- the version number of the latest manifest, 0 when the table does not exist -/
def latestN (s : Store) : Nat :=
  match latest s with
  | .ok v _ _ => v
  | _ => 0

/-- commit.rs `default_resolve_version`: detached → the `d` name; otherwise V2 name if it exists, else V1 name -/
def resolveVersion (s : Store) (v : Nat) : Path :=
  if isDetached v then .ver (manifestName .V2 v)
  else if present s (.ver (manifestName .V2 v)) then .ver (manifestName .V2 v)
  else .ver (manifestName .V1 v)

/-- `checkout_version(v)`: load the manifest of version `v` -/
def manifestAt (s : Store) (v : Nat) : Option Manifest :=
  match get s (resolveVersion s v) with
  | some (.man m) => some m
  | _ => none

/-! ### what a reader sees of one version -/

structure View where
  k : Nat
  rows : List Row
  nIdx : Nat
  cfg : Option Nat
  deriving DecidableEq, Repr

def lookupObj : List (Path × Option Obj) → Path → Option Obj
  | [], _ => none
  | (q, o) :: t, p => if q = p then o else lookupObj t p

/-- the column of field `f` of a fragment: taken from the first data file that stores it, NULLs when no file does -/
def fragColumn (objs : List (Path × Option Obj)) (fr : Frag) (f : Nat) : List Cell :=
  match fr.files.find? (fun d => d.fields.contains f) with
  | none => List.replicate fr.phys none
  | some d =>
    match lookupObj objs (.file .data d.id 0) with
    | some (.cols c) =>
      match c.find? (fun e => e.1 == f) with
      | some e => e.2
      | none => List.replicate fr.phys none
    | _ => List.replicate fr.phys none

def rowAt (cols : List (List Cell)) (i : Nat) : Row := cols.map (fun c => (c[i]?).join)

def fragDeleted (objs : List (Path × Option Obj)) (fr : Frag) : List Nat :=
  match fr.del with
  | none => []
  | some d =>
    match lookupObj objs (.file .del d 0) with
    | some (.dels l) => l
    | _ => []

/-- live rows of a fragment in physical order, each with its offset -/
def fragRowsOff (objs : List (Path × Option Obj)) (fields : List Nat) (fr : Frag) : List (Nat × Row) :=
  ((List.range fr.phys).filter (fun i => !(fragDeleted objs fr).contains i)).map
    (fun i => (i, rowAt (fields.map (fragColumn objs fr)) i))

def fragRows (objs : List (Path × Option Obj)) (fields : List Nat) (fr : Frag) : List Row :=
  (fragRowsOff objs fields fr).map (·.2)

/-- the scan of a version, given the objects its manifest names -/
def view (m : Manifest) (objs : List (Path × Option Obj)) : View :=
  { k := m.fields.length, rows := m.frags.flatMap (fragRows objs m.fields), nIdx := m.indices.length, cfg := m.cfg }

def derefs (s : Store) (m : Manifest) : List (Path × Option Obj) := m.refs.map (fun p => (p, get s p))

/-- `read store v`: resolve the manifest of `v` and dereference every file it names; `none` when the manifest or one of
    the files is missing -/
def read (s : Store) (v : Nat) : Option View :=
  match manifestAt s v with
  | none => none
  | some m => if (derefs s m).all (fun e => e.2.isSome) then some (view m (derefs s m)) else none

/-! ### storage calls -/

inductive Handler where
  | cond     -- ConditionalPutCommitHandler
  | rename   -- RenameCommitHandler
  | lock     -- impl CommitHandler for T: CommitLock
  deriving DecidableEq, Repr

structure Cfg where
  sch : Scheme
  handler : Handler
  deriving DecidableEq, Repr

/-- `ManifestNamingScheme::manifest_path` (detached versions always use the `d` name) -/
def finalPath (sch : Scheme) (v : Nat) : Path := .ver (manifestName sch v)

/-- `make_staging_manifest_path`: `<manifest path>-<uuid>`; the uuid is rendered as the decimal of a fresh number -/
def stagePath (sch : Scheme) (v u : Nat) : Path := .ver (manifestName sch v ++ '-' :: dec u)

inductive Call where
  /-- `ObjectWriter::shutdown` / `object_store.put` of a new data / deletion / index / transaction file -/
  | put (p : Path) (o : Obj)
  /-- `object_store.copy` (index remap copies the unchanged index file) -/
  | copy (src dst : Path)
  /-- RenameCommitHandler: write the manifest to the staging path -/
  | stage (base v u : Nat) (m : Manifest)
  /-- ConditionalPutCommitHandler: `put_opts(final, PutMode::Create)` -/
  | pubCreate (base v : Nat) (m : Manifest)
  /-- CommitLock: `head(final)` must be NotFound, then the manifest is written to the final path, under the lock -/
  | pubLocked (base v : Nat) (m : Manifest)
  /-- RenameCommitHandler: `rename_if_not_exists(staging, final)` -/
  | pubRename (base v u : Nat) (m : Manifest)
  deriving Repr

/-- effect of a call; `none` = the call answers with an error and has no effect (`AlreadyExists`, source missing) -/
def exec (cfg : Cfg) (s : Store) : Call → Option Store
  | .put p o => some (put s p o)
  | .copy src dst =>
    match get s src with
    | some o => some (put s dst o)
    | none => none
  | .stage _ v u m => some (put s (stagePath cfg.sch v u) (.man m))
  | .pubCreate _ v m => if present s (finalPath cfg.sch v) then none else some (put s (finalPath cfg.sch v) (.man m))
  | .pubLocked _ v m => if present s (finalPath cfg.sch v) then none else some (put s (finalPath cfg.sch v) (.man m))
  | .pubRename _ v u _ =>
    match get s (stagePath cfg.sch v u) with
    | some o =>
      if present s (finalPath cfg.sch v) then none
      else some (put (erase s (stagePath cfg.sch v u)) (finalPath cfg.sch v) o)
    | none => none

/-- a call that creates a final manifest path (the commit point of its transaction) -/
def Call.isPub : Call → Bool
  | .pubCreate .. => true
  | .pubLocked .. => true
  | .pubRename .. => true
  | _ => false

/-- the new (non-manifest) file a call creates -/
def Call.target : Call → List Path
  | .put p _ => [p]
  | .copy _ dst => [dst]
  | _ => []

/-! ### what the structure of the real code guarantees about a call (preconditions of the model)

`uid0`: identifiers below it were handed out before this operation started; `bound`: how many the operation may use;
`W`: the files this operation has written so far. -/

def freshFile (uid0 bound : Nat) (W : List Path) : Path → Bool
  | .file c id sub => decide (uid0 ≤ id) && decide (id < uid0 + bound) && !W.contains (.file c id sub)
  | .ver _ => false

/-- `target_version = dataset.manifest.version + 1` with the detached-range refusal (commit_transaction); a detached
    commit uses any 64-bit number with the top bit set (do_commit_detached_transaction) -/
def targetOk (s : Store) (v : Nat) : Bool :=
  if isDetached v then decide (v < 2 ^ 64) else decide (v = latestN s + 1) && decide (v < 2 ^ 63)

/-- the manifest to publish names only files of the version it was built from (`base`; nothing for a new table) and files
    this operation wrote before (`Transaction::build_manifest` / `restore_old_manifest` + `write_fragments_internal`) -/
def refsOk (s : Store) (W : List Path) (base : Nat) (m : Manifest) : Bool :=
  decide (base < 2 ^ 64) && m.refs.all (fun p => W.contains p ||
    (match manifestAt s base with
     | some mb => mb.refs.contains p
     | none => false))

def guard (cfg : Cfg) (uid0 bound : Nat) (W : List Path) (s : Store) : Call → Bool
  | .put p _ => freshFile uid0 bound W p
  | .copy _ dst => freshFile uid0 bound W dst
  | .stage base v _ m => targetOk s v && refsOk s W base m
  | .pubCreate base v m => targetOk s v && decide (m.version = v) && refsOk s W base m
  | .pubLocked base v m => targetOk s v && decide (m.version = v) && refsOk s W base m
  | .pubRename _ v u m =>
    targetOk s v && decide (m.version = v) && decide (get s (stagePath cfg.sch v u) = some (.man m))

/-! ### running a program with a crash / fault -/

inductive Fault where
  | crash        -- the process stops before the call
  | failBefore   -- the call is not executed and answers with an error
  | lost         -- the call is executed and answers with an error
  deriving DecidableEq, Repr

inductive Outcome where
  | done
  | crashed
  | failed
  /-- a commit call found the final path taken -/
  | conflict
  /-- a precondition of the model is violated (never for the programs of `Ops`) -/
  | invalid
  deriving DecidableEq, Repr

/-- run `calls` from `s`; `f = some (k, fault)`: `fault` hits the k-th call -/
def runCalls (cfg : Cfg) (uid0 bound : Nat) : List Path → Store → List Call → Option (Nat × Fault) → Store × Outcome
  | _, s, [], _ => (s, .done)
  | W, s, c :: cs, f =>
    if guard cfg uid0 bound W s c = false then (s, .invalid)
    else
      match f with
      | some (0, .crash) => (s, .crashed)
      | some (0, .failBefore) => (s, .failed)
      | some (0, .lost) => ((exec cfg s c).getD s, .failed)
      | some (k + 1, fl) =>
        match exec cfg s c with
        | none => (s, .conflict)
        | some s' => runCalls cfg uid0 bound (W ++ c.target) s' cs (some (k, fl))
      | none =>
        match exec cfg s c with
        | none => (s, .conflict)
        | some s' => runCalls cfg uid0 bound (W ++ c.target) s' cs none

/-- table state: the store and the ghost counter of identifiers handed out so far -/
structure St where
  store : Store
  uid : Nat

/-- one operation = one program; it reserves the identifiers `uid .. uid + ids` whether it completes or not -/
structure Prog where
  calls : List Call
  ids : Nat
  fault : Option (Nat × Fault)

def stepOp (cfg : Cfg) (st : St) (p : Prog) : St × Outcome :=
  (⟨(runCalls cfg st.uid p.ids [] st.store p.calls p.fault).1, st.uid + p.ids⟩,
   (runCalls cfg st.uid p.ids [] st.store p.calls p.fault).2)

/-- a history: programs with optional faults -/
def runHist (cfg : Cfg) : St → List Prog → St
  | st, [] => st
  | st, p :: rest => runHist cfg (stepOp cfg st p).1 rest

def St.empty : St := ⟨[], 0⟩

/-- the calls of `CommitHandler::commit` for version `v` with manifest `m` built from version `base`; `u`: staging uuid -/
def commitCalls (cfg : Cfg) (base v u : Nat) (m : Manifest) : List Call :=
  match cfg.handler with
  | .cond => [.pubCreate base v m]
  | .lock => [.pubLocked base v m]
  | .rename => [.stage base v u m, .pubRename base v u m]

end LanceModel.C01
