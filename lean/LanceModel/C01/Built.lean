import LanceModel.C01.BuiltLemmas
/-
C01 — `build_valid`: the programs `Ops.build` produces pass every guard.
-/
namespace LanceModel.C01
open LanceModel.C33 (Name Scheme manifestName isDetached dec cand)

theorem zipIdx_map_snd {α β : Type} (h : Nat → β) : ∀ (l : List α) (n : Nat),
    (l.zipIdx n).map (fun e => h e.2) = (List.range' n l.length).map h := by
  intro l
  induction l with
  | nil => intro n; simp
  | cons a t ih => intro n; simp [List.zipIdx_cons, List.range'_succ, ih]

theorem nodup_idx {α : Type} (l : List α) (c : Cls) (u : Nat) :
    ((l.zipIdx).map (fun e => Path.file c (u + e.2) 0)).Nodup := by
  rw [zipIdx_map_snd (fun i => Path.file c (u + i) 0)]
  have hr : (List.range' 0 l.length).Nodup := List.nodup_range'
  exact List.Pairwise.map _ (fun a b hab e => hab (by injection e with _ h _; omega)) hr

theorem mem_idx {α : Type} (l : List α) (c : Cls) (u : Nat) (p : Path)
    (hp : p ∈ (l.zipIdx).map (fun e => Path.file c (u + e.2) 0)) : ∃ i, i < l.length ∧ p = Path.file c (u + i) 0 := by
  rw [zipIdx_map_snd (fun i => Path.file c (u + i) 0)] at hp
  simp only [List.mem_map, List.mem_range'_1] at hp
  obtain ⟨i, hi, rfl⟩ := hp
  exact ⟨i, by omega, rfl⟩

theorem targetOk_next (s : Store) (h : latestN s + 1 < 2 ^ 63) : targetOk s (latestN s + 1) = true := by
  simp [targetOk, C33.Names.isDetached_false _ h, h]

theorem J_of_inv {cfg : Cfg} {st : St} (hI : Inv cfg st) (ids : Nat) : J cfg st.uid ids [] st.store :=
  ⟨hI.fresh, hI.wpres, (fun q hq => by cases hq), hI.closed, hI.wf, hI.dense, hI.typed⟩

/-- one transaction: new files, then transaction file and commit -/
theorem guardsOk_txn {cfg : Cfg} {uid0 bound : Nat} {s : Store} (hJ : J cfg uid0 bound [] s) (l : List (Path × Obj))
    (base v tx u : Nat) (m : Manifest)
    (hl : ∀ e ∈ l, InRange uid0 bound e.1) (hnd : (l.map (·.1)).Nodup)
    (ht : targetOk s v = true) (hb : base < 2 ^ 64) (htx : uid0 ≤ tx ∧ tx < uid0 + bound)
    (htxl : Path.file .txn tx 0 ∉ l.map (·.1))
    (hrefs : ∀ p ∈ m.frags.flatMap Frag.refs ++ m.indices.flatMap Index.refs,
      p ∈ l.map (·.1) ∨ ∃ mb, manifestAt s base = some mb ∧ p ∈ mb.refs) :
    GuardsOk cfg uid0 bound [] s (putCalls l ++ commitTxn cfg base v tx u m) := by
  obtain ⟨hgo, s', hrun, hfo⟩ := runOk_puts cfg uid0 bound l [] s hl (fun _ _ h => by cases h) hnd
  refine guardsOk_append cfg uid0 bound _ _ [] s hgo (fun r hr => ?_)
  rw [hrun] at hr
  simp only [Option.some.injEq] at hr; subst hr
  simp only [List.nil_append]
  have hJ' : J cfg uid0 bound ([] ++ l.map (·.1)) s' := runOk_J cfg uid0 bound _ [] s _ hJ hrun
  simp only [List.nil_append] at hJ'
  refine guardsOk_commitTxn hJ' base v tx u m (by rw [targetOk_filesOnly hfo]; exact ht) hb htx htxl ?_
  intro p hp
  rcases hrefs p hp with h1 | ⟨mb, hm, hin⟩
  · exact Or.inl h1
  · exact Or.inr ⟨mb, by rw [hfo.manifestAt_eq]; exact hm, hin⟩

theorem sub_refs (m : Manifest) (p : Path) (hp : p ∈ m.frags.flatMap Frag.refs ++ m.indices.flatMap Index.refs) :
    p ∈ m.refs := by
  unfold Manifest.refs; simp only [List.mem_append] at hp ⊢; exact Or.inl hp

theorem frags_refs (m : Manifest) (p : Path) (hp : p ∈ m.frags.flatMap Frag.refs) : p ∈ m.refs := by
  unfold Manifest.refs; simp only [List.mem_append]; exact Or.inl (Or.inl hp)

theorem idx_refs (m : Manifest) (p : Path) (hp : p ∈ m.indices.flatMap Index.refs) : p ∈ m.refs := by
  unfold Manifest.refs; simp only [List.mem_append]; exact Or.inl (Or.inr hp)

/-! ### new fragments -/

def nfPuts (fields : List Nat) (f u : Nat) (rows : List Row) : List (Path × Obj) :=
  ((chunks f rows.length rows).zipIdx).map (fun e => (Path.file .data (u + e.2) 0, dataObj fields e.1))

theorem newFrags_calls (fields : List Nat) (f u fid : Nat) (rows : List Row) :
    (newFrags fields f u fid rows).map (·.2) = putCalls (nfPuts fields f u rows) := by
  simp [newFrags, nfPuts, putCalls, List.map_map, Function.comp_def]

theorem newFrags_length (fields : List Nat) (f u fid : Nat) (rows : List Row) :
    (newFrags fields f u fid rows).length = (chunks f rows.length rows).length := by
  simp [newFrags]

theorem nfPuts_paths (fields : List Nat) (f u : Nat) (rows : List Row) :
    (nfPuts fields f u rows).map (·.1) =
      ((chunks f rows.length rows).zipIdx).map (fun e => Path.file .data (u + e.2) 0) := by
  simp [nfPuts, List.map_map, Function.comp_def]

theorem newFrags_refs (fields : List Nat) (f u fid : Nat) (rows : List Row) (p : Path)
    (hp : p ∈ ((newFrags fields f u fid rows).map (·.1)).flatMap Frag.refs) :
    p ∈ (nfPuts fields f u rows).map (·.1) := by
  rw [nfPuts_paths]
  simp only [newFrags, List.map_map, List.mem_flatMap, List.mem_map, Function.comp_def] at hp ⊢
  obtain ⟨fr, ⟨e, he, rfl⟩, hpf⟩ := hp
  simp only [Frag.refs, List.map_cons, List.map_nil, List.append_nil, List.mem_singleton] at hpf
  exact ⟨e, he, hpf.symm⟩

theorem nfPuts_spec (fields : List Nat) (f u : Nat) (rows : List Row) (uid0 bound : Nat)
    (hu : uid0 ≤ u) (hb : u + (chunks f rows.length rows).length ≤ uid0 + bound) :
    (∀ e ∈ nfPuts fields f u rows, InRange uid0 bound e.1) ∧ ((nfPuts fields f u rows).map (·.1)).Nodup ∧
      ∀ tx, Path.file .txn tx 0 ∉ (nfPuts fields f u rows).map (·.1) := by
  refine ⟨fun e he => ?_, by rw [nfPuts_paths]; exact nodup_idx _ _ _, fun tx hin => ?_⟩
  · have : e.1 ∈ (nfPuts fields f u rows).map (·.1) := List.mem_map_of_mem he
    rw [nfPuts_paths] at this
    obtain ⟨i, hi, hp⟩ := mem_idx _ _ _ _ this
    exact ⟨_, _, _, hp, by omega, by omega⟩
  · rw [nfPuts_paths] at hin
    obtain ⟨i, _, hp⟩ := mem_idx _ _ _ _ hin
    cases hp

theorem built_config (oc : OCfg) (st : St) (hI : Inv oc.cfg st) (hN : latestN st.store + 2 < 2 ^ 63) (c : Nat) (plan : Plan)
    (h : build oc st (.config c) = .ok plan) : GuardsOk oc.cfg st.uid plan.ids [] st.store plan.calls := by
  simp only [build, buildCalls] at h
  cases hm : manifestAt st.store (latestN st.store) with
  | none => simp [hm] at h
  | some m =>
    simp only [hm] at h
    cases h
    refine guardsOk_txn (J_of_inv hI _) [] _ _ _ _ _ (by simp) (by simp) (targetOk_next _ ?_) ?_
      ⟨?_, ?_⟩ (by simp) (fun p hp => Or.inr ⟨m, hm, sub_refs m p hp⟩) <;> first | omega | (dsimp only; omega)

theorem built_dropcol (oc : OCfg) (st : St) (hI : Inv oc.cfg st) (hN : latestN st.store + 2 < 2 ^ 63) (plan : Plan)
    (h : build oc st .dropcol = .ok plan) : GuardsOk oc.cfg st.uid plan.ids [] st.store plan.calls := by
  simp only [build, buildCalls] at h
  cases hm : manifestAt st.store (latestN st.store) with
  | none => simp [hm] at h
  | some m =>
    simp only [hm] at h
    by_cases hk : m.fields.length < 2
    · simp [hk] at h
    · simp only [hk, if_false] at h
      cases h
      refine guardsOk_txn (J_of_inv hI _) [] _ _ _ _ _ (by simp) (by simp) (targetOk_next _ ?_) ?_
        ⟨?_, ?_⟩ (by simp) (fun p hp => Or.inr ⟨m, hm, sub_refs m p hp⟩) <;> first | omega | (dsimp only; omega)

theorem built_restore (oc : OCfg) (st : St) (hI : Inv oc.cfg st) (hN : latestN st.store + 2 < 2 ^ 63) (rv : Nat) (plan : Plan)
    (h : build oc st (.restore rv) = .ok plan) : GuardsOk oc.cfg st.uid plan.ids [] st.store plan.calls := by
  simp only [build, buildCalls] at h
  cases hm : manifestAt st.store (latestN st.store) with
  | none => simp [hm] at h
  | some m =>
    simp only [hm] at h
    by_cases hin : (versions st.store).contains rv = true
    · cases hold : manifestAt st.store rv with
      | none => simp [hin, hold] at h
      | some old =>
        simp only [hin, hold, Bool.not_true, Bool.false_eq_true, if_false] at h
        cases h
        have hrv : rv < 2 ^ 63 := by
          have : rv ∈ versions st.store := by simpa using hin
          exact ((mem_versions (J_of_inv hI 0) rv).1 this).1
        refine guardsOk_txn (J_of_inv hI _) [] _ _ _ _ _ (by simp) (by simp) (targetOk_next _ ?_) ?_
          ⟨?_, ?_⟩ (by simp) (fun p hp => Or.inr ⟨old, hold, sub_refs _ p hp⟩) <;> first | omega | (dsimp only; omega)
    · have hf : rv ∉ versions st.store := by simpa using hin
      simp [hf] at h

theorem built_index (oc : OCfg) (st : St) (hI : Inv oc.cfg st) (hN : latestN st.store + 2 < 2 ^ 63) (plan : Plan)
    (h : build oc st .index = .ok plan) : GuardsOk oc.cfg st.uid plan.ids [] st.store plan.calls := by
  simp only [build, buildCalls] at h
  cases hm : manifestAt st.store (latestN st.store) with
  | none => simp [hm] at h
  | some m =>
    simp only [hm] at h
    cases h
    refine guardsOk_txn (J_of_inv hI _) [(.file .idx st.uid 0, .blob), (.file .idx st.uid 1, .blob)] _ _ _ _ _ ?_ (by simp)
      (targetOk_next _ ?_) ?_ ⟨?_, ?_⟩ (by simp) ?_
    · intro e he
      simp only [List.mem_cons, List.mem_nil_iff, or_false] at he
      rcases he with rfl | rfl
      · exact ⟨_, _, _, rfl, Nat.le_refl _, by dsimp only; simp only [List.length_append, List.length_cons]; omega⟩
      · exact ⟨_, _, _, rfl, Nat.le_refl _, by dsimp only; simp only [List.length_append, List.length_cons]; omega⟩
    · omega
    · omega
    · omega
    · dsimp only; simp only [List.length_append, List.length_cons]; omega
    · intro p hp
      simp only [List.mem_append] at hp
      rcases hp with hp | hp
      · exact Or.inr ⟨m, hm, frags_refs m p hp⟩
      · left
        simp [Index.refs, List.range_succ] at hp
        simpa using hp
theorem built_append (oc : OCfg) (st : St) (hI : Inv oc.cfg st) (hN : latestN st.store + 2 < 2 ^ 63) (f : Nat) (rows : List Row)
    (plan : Plan) (h : build oc st (.append f rows) = .ok plan) :
    GuardsOk oc.cfg st.uid plan.ids [] st.store plan.calls := by
  simp only [build, buildCalls] at h
  cases hm : manifestAt st.store (latestN st.store) with
  | none => simp [hm] at h
  | some m =>
    simp only [hm] at h
    by_cases hw : rowWidthOk m.fields.length rows = true
    · simp only [hw, Bool.not_true, Bool.false_eq_true, if_false] at h
      cases h
      dsimp only
      rw [newFrags_calls]
      have hlen := newFrags_length m.fields f st.uid m.nextFrag rows
      have hcl : (putCalls (nfPuts m.fields f st.uid rows)).length = (chunks f rows.length rows).length := by
        simp [putCalls, nfPuts]
      obtain ⟨h1, h2, h3⟩ := nfPuts_spec m.fields f st.uid rows st.uid
        ((putCalls (nfPuts m.fields f st.uid rows) ++ commitTxn oc.cfg (latestN st.store) (latestN st.store + 1)
          (st.uid + (newFrags m.fields f st.uid m.nextFrag rows).length)
          (st.uid + (newFrags m.fields f st.uid m.nextFrag rows).length + 1)
          { m with frags := m.frags ++ (newFrags m.fields f st.uid m.nextFrag rows).map (·.1),
                   nextFrag := m.nextFrag + (newFrags m.fields f st.uid m.nextFrag rows).length }).length +
          (m.frags.length + m.indices.length) + 8) (Nat.le_refl _)
        (by simp only [List.length_append, hcl]; omega)
      refine guardsOk_txn (J_of_inv hI _) (nfPuts m.fields f st.uid rows) _ _ _ _ _ h1 h2 (targetOk_next _ ?_) ?_
        ⟨?_, ?_⟩ (h3 _) ?_
      · omega
      · omega
      · omega
      · simp only [List.length_append, hcl, hlen]; omega
      · intro p hp
        simp only [List.flatMap_append, List.mem_append] at hp
        rcases hp with (hp | hp) | hp
        · exact Or.inr ⟨m, hm, frags_refs m p hp⟩
        · exact Or.inl (newFrags_refs _ _ _ _ _ p hp)
        · exact Or.inr ⟨m, hm, idx_refs m p hp⟩
    · have : rowWidthOk m.fields.length rows = false := by cases hx : rowWidthOk m.fields.length rows <;> simp_all
      simp [this] at h

/-- new fragments, then one commit: the shape of create / append / overwrite / detached append -/
theorem nf_core {cfg : Cfg} {st : St} (hI : Inv cfg st) (fields : List Nat) (f fid : Nat) (rows : List Row)
    (base v : Nat) (m' : Manifest) (extra : Nat) (ht : targetOk st.store v = true) (hb : base < 2 ^ 64)
    (hrefs : ∀ p ∈ m'.frags.flatMap Frag.refs ++ m'.indices.flatMap Index.refs,
      p ∈ (nfPuts fields f st.uid rows).map (·.1) ∨ ∃ mb, manifestAt st.store base = some mb ∧ p ∈ mb.refs) :
    GuardsOk cfg st.uid
      (((newFrags fields f st.uid fid rows).map (·.2) ++ commitTxn cfg base v
          (st.uid + (newFrags fields f st.uid fid rows).length) (st.uid + (newFrags fields f st.uid fid rows).length + 1)
          m').length + extra + 8) [] st.store
      ((newFrags fields f st.uid fid rows).map (·.2) ++ commitTxn cfg base v
          (st.uid + (newFrags fields f st.uid fid rows).length) (st.uid + (newFrags fields f st.uid fid rows).length + 1)
          m') := by
  rw [newFrags_calls]
  have hlen := newFrags_length fields f st.uid fid rows
  have hcl : (putCalls (nfPuts fields f st.uid rows)).length = (chunks f rows.length rows).length := by
    simp [putCalls, nfPuts]
  obtain ⟨h1, h2, h3⟩ := nfPuts_spec fields f st.uid rows st.uid
    ((putCalls (nfPuts fields f st.uid rows) ++ commitTxn cfg base v
      (st.uid + (newFrags fields f st.uid fid rows).length) (st.uid + (newFrags fields f st.uid fid rows).length + 1)
      m').length + extra + 8) (Nat.le_refl _) (by simp only [List.length_append, hcl]; omega)
  refine guardsOk_txn (J_of_inv hI _) (nfPuts fields f st.uid rows) _ _ _ _ _ h1 h2 ht hb ⟨?_, ?_⟩ (h3 _) hrefs
  · omega
  · simp only [List.length_append, hcl, hlen]; omega

theorem built_overwrite (oc : OCfg) (st : St) (hI : Inv oc.cfg st) (hN : latestN st.store + 2 < 2 ^ 63) (f : Nat) (rows : List Row)
    (plan : Plan) (h : build oc st (.overwrite f rows) = .ok plan) :
    GuardsOk oc.cfg st.uid plan.ids [] st.store plan.calls := by
  simp only [build, buildCalls] at h
  cases hm : manifestAt st.store (latestN st.store) with
  | none => simp [hm] at h
  | some m =>
    cases rows with
    | nil =>
      simp only [hm] at h
      split at h
      · cases h
      · rename_i p hp
        split at hp
        · cases hp
        · cases hp
          cases h
          refine nf_core hI _ f _ _ _ _ _ _ (targetOk_next _ (by omega)) (by omega) ?_
          intro p hp
          simp only [List.flatMap_nil, List.append_nil] at hp
          exact Or.inl (newFrags_refs _ _ _ _ _ p hp)
    | cons r t =>
      simp only [hm] at h
      split at h
      · cases h
      · rename_i p hp
        split at hp
        · cases hp
        · cases hp
          cases h
          refine nf_core hI _ f _ _ _ _ _ _ (targetOk_next _ (by omega)) (by omega) ?_
          intro p hp
          simp only [List.flatMap_nil, List.append_nil] at hp
          exact Or.inl (newFrags_refs _ _ _ _ _ p hp)

theorem built_create (oc : OCfg) (st : St) (hI : Inv oc.cfg st) (hN : latestN st.store + 2 < 2 ^ 63) (f : Nat) (rows : List Row)
    (plan : Plan) (h : build oc st (.create f rows) = .ok plan) :
    GuardsOk oc.cfg st.uid plan.ids [] st.store plan.calls := by
  simp only [build, buildCalls] at h
  cases rows with
  | nil =>
    simp only [] at h
    split at h
    · cases h
    · rename_i p hp
      split at hp
      · cases hp
      · rename_i hn
        split at hp
        · cases hp
        · cases hp
          have hn0 : latestN st.store = 0 := by simpa using hn
          have ht : targetOk st.store 1 = true := by
            have := targetOk_next st.store (by omega); rw [hn0] at this; exact this
          cases h
          refine nf_core hI _ f _ _ 0 1 _ _ ht (by omega) ?_
          intro p hp
          simp only [List.flatMap_nil, List.append_nil] at hp
          exact Or.inl (newFrags_refs _ _ _ _ _ p hp)
  | cons r t =>
    simp only [] at h
    split at h
    · cases h
    · rename_i p hp
      split at hp
      · cases hp
      · rename_i hn
        split at hp
        · cases hp
        · cases hp
          have hn0 : latestN st.store = 0 := by simpa using hn
          have ht : targetOk st.store 1 = true := by
            have := targetOk_next st.store (by omega); rw [hn0] at this; exact this
          cases h
          refine nf_core hI _ f _ _ 0 1 _ _ ht (by omega) ?_
          intro p hp
          simp only [List.flatMap_nil, List.append_nil] at hp
          exact Or.inl (newFrags_refs _ _ _ _ _ p hp)

theorem targetOk_detached (s : Store) (v : Nat) (h1 : 2 ^ 63 ≤ v) (h2 : v < 2 ^ 64) : targetOk s v = true := by
  simp [targetOk, C33.Names.isDetached_true _ h1 h2, h2]

theorem built_dappend (oc : OCfg) (st : St) (hI : Inv oc.cfg st) (hN : latestN st.store + 2 < 2 ^ 63) (hU : st.uid < 2 ^ 63)
    (f : Nat) (rows : List Row) (plan : Plan) (h : build oc st (.dappend f rows) = .ok plan) :
    GuardsOk oc.cfg st.uid plan.ids [] st.store plan.calls := by
  simp only [build, buildCalls] at h
  cases hm : manifestAt st.store (latestN st.store) with
  | none => simp [hm] at h
  | some m =>
    simp only [hm] at h
    split at h
    · cases h
    · rename_i p hp
      split at hp
      · cases hp
      · split at hp
        · cases hp
          cases h
          dsimp only
          rw [newFrags_calls]
          have hcl : (putCalls (nfPuts m.fields f st.uid rows)).length = (chunks f rows.length rows).length := by
            simp [putCalls, nfPuts]
          obtain ⟨h1, h2, _⟩ := nfPuts_spec m.fields f st.uid rows st.uid
            ((putCalls (nfPuts m.fields f st.uid rows)).length + (m.frags.length + m.indices.length) + 8)
            (Nat.le_refl _) (by rw [hcl]; omega)
          exact (runOk_puts oc.cfg st.uid _ (nfPuts m.fields f st.uid rows) [] st.store h1 (fun _ _ hh => by cases hh) h2).1
        · cases hp
          cases h
          refine nf_core hI _ f _ _ _ _ _ _ (targetOk_detached _ _ (by omega) (by omega)) (by omega) ?_
          intro p hp
          simp only [List.flatMap_append, List.mem_append] at hp
          rcases hp with (hp | hp) | hp
          · exact Or.inr ⟨m, hm, frags_refs m p hp⟩
          · exact Or.inl (newFrags_refs _ _ _ _ _ p hp)
          · exact Or.inr ⟨m, hm, idx_refs m p hp⟩

def asPut : Call → Option (Path × Obj)
  | .put p o => some (p, o)
  | _ => none

def IsPuts (cs : List Call) : Prop := ∀ c ∈ cs, ∃ p o, c = Call.put p o

theorem isPuts_eq : ∀ (cs : List Call), IsPuts cs →
    cs = putCalls (cs.filterMap asPut) ∧ (cs.filterMap asPut).map (·.1) = cs.flatMap Call.target := by
  intro cs
  induction cs with
  | nil => intro _; exact ⟨rfl, rfl⟩
  | cons c t ih =>
    intro h
    obtain ⟨p, o, rfl⟩ := h c (by simp)
    obtain ⟨h1, h2⟩ := ih (fun x hx => h x (by simp [hx]))
    constructor
    · simp only [List.filterMap_cons, asPut, putCalls, List.map_cons]
      congr 1
    · simp only [List.filterMap_cons, asPut, List.map_cons, List.flatMap_cons, Call.target, h2]
      rfl

/-- one transaction whose write phase is any list of `put` calls -/
theorem guardsOk_txn' {cfg : Cfg} {uid0 bound : Nat} {s : Store} (hJ : J cfg uid0 bound [] s) (wr : List Call)
    (hp : IsPuts wr) (base v tx u : Nat) (m : Manifest)
    (hl : ∀ p ∈ wr.flatMap Call.target, InRange uid0 bound p) (hnd : (wr.flatMap Call.target).Nodup)
    (ht : targetOk s v = true) (hb : base < 2 ^ 64) (htx : uid0 ≤ tx ∧ tx < uid0 + bound)
    (htxl : Path.file .txn tx 0 ∉ wr.flatMap Call.target)
    (hrefs : ∀ p ∈ m.frags.flatMap Frag.refs ++ m.indices.flatMap Index.refs,
      p ∈ wr.flatMap Call.target ∨ ∃ mb, manifestAt s base = some mb ∧ p ∈ mb.refs) :
    GuardsOk cfg uid0 bound [] s (wr ++ commitTxn cfg base v tx u m) := by
  obtain ⟨h1, h2⟩ := isPuts_eq wr hp
  rw [h1]
  rw [← h2] at hl hnd htxl hrefs
  exact guardsOk_txn hJ _ base v tx u m (fun e he => hl _ (List.mem_map_of_mem he)) hnd ht hb htx htxl hrefs

theorem df_cases (objs : List (Path × Option Obj)) (fields : List Nat) (hit : Row → Bool) (did : Nat) (fr : Frag) :
    deleteFrom objs fields hit did fr = (some fr, []) ∨ deleteFrom objs fields hit did fr = (none, []) ∨
      ∃ o, deleteFrom objs fields hit did fr = (some { fr with del := some did }, [Call.put (.file .del did 0) o]) := by
  unfold deleteFrom
  dsimp only
  split
  · exact Or.inl rfl
  · split
    · exact Or.inr (Or.inl rfl)
    · exact Or.inr (Or.inr ⟨_, rfl⟩)

/-- the results of `deleteFrom` over indexed fragments -/
def delRes (objs : List (Path × Option Obj)) (fields : List Nat) (hit : Row → Bool) (u : Nat) (l : List (Frag × Nat)) :
    List (Option Frag × List Call) := l.map (fun e => deleteFrom objs fields hit (u + e.2) e.1)

theorem delRes_spec (objs : List (Path × Option Obj)) (fields : List Nat) (hit : Row → Bool) (u : Nat) :
    ∀ (l : List (Frag × Nat)),
      IsPuts ((delRes objs fields hit u l).flatMap (·.2)) ∧
      (((delRes objs fields hit u l).flatMap (·.2)).flatMap Call.target).Sublist
        (l.map (fun e => Path.file .del (u + e.2) 0)) ∧
      ∀ p ∈ ((delRes objs fields hit u l).filterMap (·.1)).flatMap Frag.refs,
        p ∈ (l.map (·.1)).flatMap Frag.refs ∨ p ∈ ((delRes objs fields hit u l).flatMap (·.2)).flatMap Call.target := by
  intro l
  induction l with
  | nil => exact ⟨(fun c hc => by cases hc), List.Sublist.slnil, (fun p hp => by cases hp)⟩
  | cons e t ih =>
    obtain ⟨i1, i2, i3⟩ := ih
    simp only [delRes, List.map_cons, List.flatMap_cons, List.filterMap_cons] at i1 i2 i3 ⊢
    rcases df_cases objs fields hit (u + e.2) e.1 with h | h | ⟨o, h⟩
    · rw [h]
      refine ⟨by simpa using i1, by simpa using i2.cons _, fun p hp => ?_⟩
      simp only [List.flatMap_cons, List.mem_append, List.nil_append] at hp ⊢
      rcases hp with hp | hp
      · exact Or.inl (Or.inl hp)
      · rcases i3 p hp with a | a
        · exact Or.inl (Or.inr a)
        · exact Or.inr a
    · rw [h]
      refine ⟨by simpa using i1, by simpa using i2.cons _, fun p hp => ?_⟩
      simp only [List.flatMap_cons, List.mem_append, List.nil_append] at hp ⊢
      rcases i3 p hp with a | a
      · exact Or.inl (Or.inr a)
      · exact Or.inr a
    · rw [h]
      refine ⟨?_, ?_, fun p hp => ?_⟩
      · intro c hc
        simp only [List.cons_append, List.nil_append, List.mem_cons] at hc
        rcases hc with rfl | hc
        · exact ⟨_, _, rfl⟩
        · exact i1 c hc
      · simpa [Call.target] using i2.cons₂ (Path.file Cls.del (u + e.2) 0)
      · simp only [List.flatMap_cons, List.mem_append, List.cons_append, List.nil_append, Call.target,
          List.mem_cons] at hp ⊢
        rcases hp with hp | hp
        · simp only [Frag.refs, List.mem_append, List.mem_singleton] at hp
          rcases hp with hp | hp
          · exact Or.inl (Or.inl (by simp [Frag.refs, hp]))
          · exact Or.inr (Or.inl hp)
        · rcases i3 p hp with a | a
          · exact Or.inl (Or.inr a)
          · exact Or.inr (Or.inr a)

theorem zipIdx_map_fst {α : Type} : ∀ (l : List α) (n : Nat), (l.zipIdx n).map (·.1) = l := by
  intro l
  induction l with
  | nil => intro n; rfl
  | cons a t ih => intro n; simp [List.zipIdx_cons, ih]

theorem deleteAll_eq (objs : List (Path × Option Obj)) (fields : List Nat) (hit : Row → Bool) (u : Nat) (frags : List Frag) :
    deleteAll objs fields hit u frags =
      ((delRes objs fields hit u frags.zipIdx).filterMap (·.1), (delRes objs fields hit u frags.zipIdx).flatMap (·.2)) := rfl

/-- `deleteAll`: only `put`s of distinct deletion files numbered by fragment position; every surviving fragment names
    files of the old fragments or one of those deletion files -/
theorem deleteAll_spec (objs : List (Path × Option Obj)) (fields : List Nat) (hit : Row → Bool) (u : Nat) (frags : List Frag) :
    IsPuts (deleteAll objs fields hit u frags).2 ∧
    ((deleteAll objs fields hit u frags).2.flatMap Call.target).Nodup ∧
    (∀ p ∈ (deleteAll objs fields hit u frags).2.flatMap Call.target, ∃ i, i < frags.length ∧ p = Path.file .del (u + i) 0) ∧
    ∀ p ∈ (deleteAll objs fields hit u frags).1.flatMap Frag.refs,
      p ∈ frags.flatMap Frag.refs ∨ p ∈ (deleteAll objs fields hit u frags).2.flatMap Call.target := by
  rw [deleteAll_eq]
  obtain ⟨a, b, c⟩ := delRes_spec objs fields hit u frags.zipIdx
  refine ⟨a, b.nodup (nodup_idx frags .del u), fun p hp => mem_idx frags .del u p (b.subset hp), fun p hp => ?_⟩
  have := c p hp
  rw [zipIdx_map_fst] at this
  exact this

theorem arith1 (u i w x A : Nat) (hi : i ≤ w) : u + i < u + (A + (w + x) + 8) := by omega

theorem built_delete (oc : OCfg) (st : St) (hI : Inv oc.cfg st) (hN : latestN st.store + 2 < 2 ^ 63) (x : Int)
    (plan : Plan) (h : build oc st (.delete x) = .ok plan) :
    GuardsOk oc.cfg st.uid plan.ids [] st.store plan.calls := by
  simp only [build, buildCalls] at h
  cases hm : manifestAt st.store (latestN st.store) with
  | none => simp [hm] at h
  | some m =>
    simp only [hm] at h
    cases h
    dsimp only
    obtain ⟨a, b, c, d⟩ := deleteAll_spec (derefs st.store m) m.fields (geMatch x) st.uid m.frags
    refine guardsOk_txn' (J_of_inv hI _) _ a _ _ _ _ _ ?_ b (targetOk_next _ ?_) ?_ ⟨?_, ?_⟩ ?_ ?_
    · intro p hp
      obtain ⟨i, hi, rfl⟩ := c p hp
      exact ⟨_, _, _, rfl, by omega, arith1 _ _ _ _ _ (by omega)⟩
    · omega
    · omega
    · omega
    · exact arith1 _ _ _ _ _ (Nat.le_refl _)
    · intro hin
      obtain ⟨i, _, e⟩ := c _ hin
      cases e
    · intro p hp
      simp only [List.mem_append] at hp
      rcases hp with hp | hp
      · rcases d p hp with h1 | h1
        · exact Or.inr ⟨m, hm, frags_refs m p h1⟩
        · exact Or.inl h1
      · exact Or.inr ⟨m, hm, idx_refs m p hp⟩

/-- what the new-fragment part of update / merge_insert provides -/
structure NfOk (u : Nat) (nf : List (Frag × Call)) : Prop where
  puts : IsPuts (nf.map (·.2))
  nodup : ((nf.map (·.2)).flatMap Call.target).Nodup
  mem : ∀ p ∈ (nf.map (·.2)).flatMap Call.target, ∃ i, i < nf.length ∧ p = Path.file .data (u + i) 0
  refs : ∀ p ∈ (nf.map (·.1)).flatMap Frag.refs, p ∈ (nf.map (·.2)).flatMap Call.target

theorem nfOk_nil (u : Nat) : NfOk u [] := ⟨(fun c hc => by cases hc), List.nodup_nil, (fun p hp => by cases hp), (fun p hp => by cases hp)⟩

theorem putCalls_targets (l : List (Path × Obj)) : (putCalls l).flatMap Call.target = l.map (·.1) := by
  induction l with
  | nil => rfl
  | cons e t ih => simp only [putCalls, List.map_cons, List.flatMap_cons, Call.target] at ih ⊢; rw [ih]; rfl

theorem nfOk_new (fields : List Nat) (f u fid : Nat) (rows : List Row) : NfOk u (newFrags fields f u fid rows) := by
  have hl := newFrags_length fields f u fid rows
  refine ⟨?_, ?_, ?_, ?_⟩
  · rw [newFrags_calls]; intro c hc
    simp only [putCalls, List.mem_map] at hc
    obtain ⟨e, _, rfl⟩ := hc; exact ⟨_, _, rfl⟩
  · rw [newFrags_calls, putCalls_targets, nfPuts_paths]; exact nodup_idx _ _ _
  · intro p hp
    rw [newFrags_calls, putCalls_targets, nfPuts_paths] at hp
    obtain ⟨i, hi, e⟩ := mem_idx _ _ _ _ hp
    exact ⟨i, by omega, e⟩
  · intro p hp
    rw [newFrags_calls, putCalls_targets]
    exact newFrags_refs _ _ _ _ _ p hp

theorem arith2 (u i a b c w x : Nat) (hi : i < a) : u + i < u + (a + b + c + (w + x) + 8) := by omega
theorem arith3 (u i a b c w x : Nat) (hi : i ≤ w) : u + 1 + i < u + (a + b + c + (w + x) + 8) := by omega

/-- new fragment(s), deletion files, one commit: the shape of update / merge_insert -/
theorem upd_core {cfg : Cfg} {st : St} (hI : Inv cfg st) (hN : latestN st.store + 2 < 2 ^ 63) (m : Manifest)
    (hm : manifestAt st.store (latestN st.store) = some m) (nf : List (Frag × Call)) (hnf : NfOk st.uid nf)
    (objs : List (Path × Option Obj)) (hit : Row → Bool) (nextFrag : Nat) :
    GuardsOk cfg st.uid
      ((nf.map (·.2) ++ (deleteAll objs m.fields hit (st.uid + 1) m.frags).2 ++
          commitTxn cfg (latestN st.store) (latestN st.store + 1) (st.uid + m.frags.length + 1)
            (st.uid + m.frags.length + 2)
            { m with frags := (deleteAll objs m.fields hit (st.uid + 1) m.frags).1 ++ nf.map (·.1),
                     nextFrag := nextFrag }).length + (m.frags.length + m.indices.length) + 8) [] st.store
      (nf.map (·.2) ++ (deleteAll objs m.fields hit (st.uid + 1) m.frags).2 ++
          commitTxn cfg (latestN st.store) (latestN st.store + 1) (st.uid + m.frags.length + 1)
            (st.uid + m.frags.length + 2)
            { m with frags := (deleteAll objs m.fields hit (st.uid + 1) m.frags).1 ++ nf.map (·.1),
                     nextFrag := nextFrag }) := by
  obtain ⟨a, b, c, d⟩ := deleteAll_spec objs m.fields hit (st.uid + 1) m.frags
  have hputs : IsPuts (nf.map (·.2) ++ (deleteAll objs m.fields hit (st.uid + 1) m.frags).2) := by
    intro x hx
    simp only [List.mem_append] at hx
    rcases hx with hx | hx
    · exact hnf.puts x hx
    · exact a x hx
  refine guardsOk_txn' (J_of_inv hI _) _ hputs _ _ _ _ _ ?_ ?_ (targetOk_next _ (by omega)) (by omega) ⟨by omega, ?_⟩ ?_ ?_
  · intro p hp
    simp only [List.flatMap_append, List.mem_append] at hp
    rcases hp with hp | hp
    · obtain ⟨i, hi, rfl⟩ := hnf.mem p hp
      refine ⟨_, _, _, rfl, by omega, ?_⟩
      simp only [List.length_append, List.length_map]
      exact arith2 _ _ _ _ _ _ _ hi
    · obtain ⟨i, hi, rfl⟩ := c p hp
      refine ⟨_, _, _, rfl, by omega, ?_⟩
      simp only [List.length_append, List.length_map]
      exact arith3 _ _ _ _ _ _ _ (by omega)
  · simp only [List.flatMap_append]
    rw [List.nodup_append]
    refine ⟨hnf.nodup, b, fun x hx y hy e => ?_⟩
    obtain ⟨i, _, rfl⟩ := hnf.mem x hx
    obtain ⟨j, _, rfl⟩ := c y hy
    cases e
  · simp only [List.length_append, List.length_map]
    have := arith3 st.uid m.frags.length nf.length (deleteAll objs m.fields hit (st.uid + 1) m.frags).2.length
      (commitTxn cfg (latestN st.store) (latestN st.store + 1) (st.uid + m.frags.length + 1)
            (st.uid + m.frags.length + 2)
            { m with frags := (deleteAll objs m.fields hit (st.uid + 1) m.frags).1 ++ nf.map (·.1),
                     nextFrag := nextFrag }).length m.frags.length m.indices.length (Nat.le_refl _)
    omega
  · intro hin
    simp only [List.flatMap_append, List.mem_append] at hin
    rcases hin with hin | hin
    · obtain ⟨i, _, e⟩ := hnf.mem _ hin; cases e
    · obtain ⟨i, _, e⟩ := c _ hin; cases e
  · intro p hp
    simp only [List.flatMap_append, List.mem_append] at hp ⊢
    rcases hp with (hp | hp) | hp
    · rcases d p hp with h1 | h1
      · exact Or.inr ⟨m, hm, frags_refs m p h1⟩
      · exact Or.inl (Or.inr h1)
    · exact Or.inl (Or.inl (hnf.refs p hp))
    · exact Or.inr ⟨m, hm, idx_refs m p hp⟩

theorem nfOk_ite (c : Prop) [Decidable c] (fields : List Nat) (f u fid : Nat) (rows : List Row) :
    NfOk u (if c then [] else newFrags fields f u fid rows) := by
  split
  · exact nfOk_nil u
  · exact nfOk_new fields f u fid rows

theorem built_update (oc : OCfg) (st : St) (hI : Inv oc.cfg st) (hN : latestN st.store + 2 < 2 ^ 63) (x y : Int)
    (plan : Plan) (h : build oc st (.update x y) = .ok plan) :
    GuardsOk oc.cfg st.uid plan.ids [] st.store plan.calls := by
  simp only [build, buildCalls] at h
  cases hm : manifestAt st.store (latestN st.store) with
  | none => simp [hm] at h
  | some m =>
    simp only [hm] at h
    split at h
    · cases h
    · rename_i p hp
      split at hp
      · cases hp
      · cases hp
        cases h
        exact upd_core hI hN m hm _ (nfOk_ite _ _ _ _ _ _) _ _ _

theorem built_upsert (oc : OCfg) (st : St) (hI : Inv oc.cfg st) (hN : latestN st.store + 2 < 2 ^ 63) (rows : List Row)
    (plan : Plan) (h : build oc st (.upsert rows) = .ok plan) :
    GuardsOk oc.cfg st.uid plan.ids [] st.store plan.calls := by
  simp only [build, buildCalls] at h
  cases hm : manifestAt st.store (latestN st.store) with
  | none => simp [hm] at h
  | some m =>
    simp only [hm] at h
    split at h
    · cases h
    · rename_i p hp
      split at hp
      · cases hp
      · split at hp
        · cases hp
        · cases hp
          cases h
          exact upd_core hI hN m hm _ (nfOk_ite _ _ _ _ _ _) _ _ _

/-- the operations for which `build_valid` is proved -/
def Covered : Op → Bool
  | .create .. => true
  | .append .. => true
  | .overwrite .. => true
  | .dappend .. => true
  | .delete _ => true
  | .update .. => true
  | .upsert _ => true
  | .index => true
  | .dropcol => true
  | .config _ => true
  | .restore _ => true
  | _ => false

/-- **build_valid** (operations of `Covered`).  On every table state satisfying the invariant (every state reachable by
    `runHist`, `inv_runHist`) with fewer than 2^63 - 2 versions and fewer than 2^63 identifiers handed out, every call of
    the program `Ops.build` returns, executed in order, passes its `guard`: new files get fresh names, the commit targets
    `latest + 1` (a detached commit: a number with the top bit), and the manifest names only files of the version it was
    built from and files written earlier by the same program. -/
theorem build_valid (oc : OCfg) (st : St) (hI : Inv oc.cfg st) (hN : latestN st.store + 2 < 2 ^ 63) (hU : st.uid < 2 ^ 63)
    (op : Op) (hc : Covered op = true) (plan : Plan) (h : build oc st op = .ok plan) :
    GuardsOk oc.cfg st.uid plan.ids [] st.store plan.calls := by
  cases op with
  | create f rows => exact built_create oc st hI hN f rows plan h
  | append f rows => exact built_append oc st hI hN f rows plan h
  | overwrite f rows => exact built_overwrite oc st hI hN f rows plan h
  | dappend f rows => exact built_dappend oc st hI hN hU f rows plan h
  | index => exact built_index oc st hI hN plan h
  | dropcol => exact built_dropcol oc st hI hN plan h
  | config c => exact built_config oc st hI hN c plan h
  | restore v => exact built_restore oc st hI hN v plan h
  | delete x => exact built_delete oc st hI hN x plan h
  | update x y => exact built_update oc st hI hN x y plan h
  | upsert rows => exact built_upsert oc st hI hN rows plan h
  | compact => cases hc
  | addcol => cases hc

/-- a built program never takes the "precondition of the model violated" exit, whatever fault hits it -/
theorem built_programs_never_invalid (oc : OCfg) (st : St) (hI : Inv oc.cfg st) (hN : latestN st.store + 2 < 2 ^ 63) (hU : st.uid < 2 ^ 63)
    (op : Op) (hc : Covered op = true) (plan : Plan) (h : build oc st op = .ok plan) (f : Option (Nat × Fault)) :
    (stepOp oc.cfg st ⟨plan.calls, plan.ids, f⟩).2 ≠ .invalid :=
  guardsOk_never_invalid oc.cfg st.uid plan.ids plan.calls [] st.store f (build_valid oc st hI hN hU op hc plan h)

/-- atomicity, monotonicity and the invariant for a built program, without the `invalid` escape: under any fault the
    program ends as done / crashed / failed / conflict; what is visible afterwards is what an unfaulted prefix ending at
    one of its commit calls leaves; no version disappears or changes; the versions stay 1..N (`Inv`, hence `dense`). -/
theorem built_op_atomic (oc : OCfg) (st : St) (hI : Inv oc.cfg st) (hN : latestN st.store + 2 < 2 ^ 63) (hU : st.uid < 2 ^ 63)
    (op : Op) (hc : Covered op = true) (plan : Plan) (h : build oc st op = .ok plan) (f : Option (Nat × Fault)) :
    (stepOp oc.cfg st ⟨plan.calls, plan.ids, f⟩).2 ≠ .invalid ∧
    Inv oc.cfg (stepOp oc.cfg st ⟨plan.calls, plan.ids, f⟩).1 ∧
    (∃ j, j ≤ plan.calls.length ∧ (j = 0 ∨ ∃ c, plan.calls[j - 1]? = some c ∧ c.isPub = true) ∧
      SameObs (stepOp oc.cfg st ⟨plan.calls.take j, plan.ids, none⟩).1.store
        (stepOp oc.cfg st ⟨plan.calls, plan.ids, f⟩).1.store) ∧
    (latestN st.store ≤ latestN (stepOp oc.cfg st ⟨plan.calls, plan.ids, f⟩).1.store ∧
      ∀ v, v ∈ versions st.store → v ∈ versions (stepOp oc.cfg st ⟨plan.calls, plan.ids, f⟩).1.store ∧
        (v < 2 ^ 64 → read (stepOp oc.cfg st ⟨plan.calls, plan.ids, f⟩).1.store v = read st.store v)) :=
  ⟨built_programs_never_invalid oc st hI hN hU op hc plan h f, inv_stepOp oc.cfg st _ hI,
   visible_prefix_op oc.cfg st hI ⟨plan.calls, plan.ids, f⟩, monotone oc.cfg st hI ⟨plan.calls, plan.ids, f⟩⟩

end LanceModel.C01
