import LanceModel.C01.StoreLemmas
/-
C01 — the invariant `J` of a running operation and its preservation by every storage call.
-/
namespace LanceModel.C01
open LanceModel.C33 (Name Scheme manifestName isDetached dec cand)
open LanceModel.C33.Latest (IsAttached Noise WF IsLatest)

def manOf : Option Obj → Option Manifest
  | some (.man m) => some m
  | _ => none

/-- The invariant while an operation runs.  `uid0`: identifiers below it were handed out before the operation started;
    `W`: the files the operation has written so far. -/
structure J (cfg : Cfg) (uid0 bound : Nat) (W : List Path) (s : Store) : Prop where
  /-- every file of the store was written by an earlier operation or by this one -/
  fresh : ∀ c id sub, present s (.file c id sub) = true → id < uid0 ∨ Path.file c id sub ∈ W
  wpres : ∀ p ∈ W, present s p = true
  wbound : ∀ p ∈ W, ∃ c id sub, p = Path.file c id sub ∧ id < uid0 + bound
  /-- every manifest object under `_versions/` (published, detached or staged) names only files that exist -/
  closed : ∀ n m, get s (.ver n) = some (.man m) → ∀ p ∈ m.refs, present s p = true
  /-- `_versions/` holds attached manifests of the table's naming scheme and names without a version -/
  wf : ∀ n, present s (.ver n) = true → IsAttached cfg.sch n ∨ Noise n
  /-- the attached versions are exactly 1..N -/
  dense : ∃ N, N < 2 ^ 63 ∧ ∀ v, v < 2 ^ 63 → (present s (finalPath cfg.sch v) = true ↔ 1 ≤ v ∧ v ≤ N)
  /-- slot `v` holds a manifest whose version field is `v` -/
  typed : ∀ v o, v < 2 ^ 63 → get s (finalPath cfg.sch v) = some o → ∃ m, o = .man m ∧ m.version = v

/-- the invariant between operations -/
def Inv (cfg : Cfg) (st : St) : Prop := J cfg st.uid 0 [] st.store

theorem present_iff (s : Store) (p : Path) : present s p = true ↔ ∃ o, get s p = some o := by
  simp only [present]
  cases get s p <;> simp

theorem wf_names {cfg : Cfg} {uid0 bound : Nat} {W : List Path} {s : Store} (h : J cfg uid0 bound W s) :
    WF cfg.sch (names s) := fun n hn => h.wf n ((mem_names s n).1 hn)

/-- `latest` is the N of the dense range -/
theorem latest_of_dense {cfg : Cfg} {uid0 bound : Nat} {W : List Path} {s : Store} (h : J cfg uid0 bound W s)
    {N : Nat} (hN : N < 2 ^ 63) (hd : ∀ v, v < 2 ^ 63 → (present s (finalPath cfg.sch v) = true ↔ 1 ≤ v ∧ v ≤ N)) :
    latestN s = N ∧ (latest s = .notFound ∧ N = 0 ∨ latest s = .ok N (manifestName cfg.sch N) cfg.sch ∧ 1 ≤ N) := by
  have hl : IsLatest cfg.sch (names s) (latest s) :=
    C33.latest_is_max cfg.sch (names s) false (wf_names h) (by intro hh; cases hh)
  rcases hl with ⟨v, hv, hin, hmax, hr⟩ | ⟨hnone, hr⟩
  · have hp : present s (finalPath cfg.sch v) = true := (mem_names s _).1 hin
    have h1 := (hd v hv).1 hp
    have hvN : v = N := by
      have hpN : present s (finalPath cfg.sch N) = true := (hd N hN).2 ⟨by omega, Nat.le_refl _⟩
      have := hmax N hN ((mem_names s _).2 hpN)
      omega
    subst hvN
    refine ⟨by simp [latestN, hr], Or.inr ⟨hr, h1.1⟩⟩
  · have : N = 0 := by
      cases Nat.eq_zero_or_pos N with
      | inl h0 => exact h0
      | inr hpos =>
        have hpN : present s (finalPath cfg.sch N) = true := (hd N hN).2 ⟨hpos, Nat.le_refl _⟩
        exact absurd ((mem_names s _).2 hpN) (hnone N hN)
    subst this
    exact ⟨by simp [latestN, hr], Or.inl ⟨hr, rfl⟩⟩

/-- a name that is attached in one scheme is not present under the other scheme's spelling -/
theorem other_scheme_absent {cfg : Cfg} {uid0 bound : Nat} {W : List Path} {s : Store} (h : J cfg uid0 bound W s)
    (sch : Scheme) (hne : sch ≠ cfg.sch) (v : Nat) (hv : v < 2 ^ 63) : present s (.ver (manifestName sch v)) = false := by
  cases hp : present s (.ver (manifestName sch v)) with
  | false => rfl
  | true =>
    rcases h.wf _ hp with ⟨w, hw, e⟩ | hn
    · exact absurd (attached_scheme sch cfg.sch v w hv hw e) hne
    · rw [Noise, attached_cand sch v hv] at hn; cases hn

/-- `default_resolve_version` + load on a well-formed table: the manifest stored at the slot of the table's scheme -/
theorem manifestAt_eq {cfg : Cfg} {uid0 bound : Nat} {W : List Path} {s : Store} (h : J cfg uid0 bound W s)
    (v : Nat) (hv : v < 2 ^ 64) : manifestAt s v = manOf (get s (finalPath cfg.sch v)) := by
  have key : get s (resolveVersion s v) = get s (finalPath cfg.sch v) := by
    unfold resolveVersion finalPath
    by_cases hd : isDetached v = true
    · have h63 := (C33.Names.isDetached_iff v hv).1 hd
      simp only [hd, if_true]
      rw [C33.Names.name_detached .V2 v h63 hv, C33.Names.name_detached cfg.sch v h63 hv]
    · have hd' : isDetached v = false := by cases hx : isDetached v <;> simp_all
      have h63 : v < 2 ^ 63 := by
        by_cases hh : v < 2 ^ 63
        · exact hh
        · have := C33.Names.isDetached_true v (by omega) hv; rw [hd'] at this; cases this
      simp only [hd', Bool.false_eq_true, if_false]
      cases hs : cfg.sch with
      | V2 =>
        by_cases hp : present s (.ver (manifestName .V2 v)) = true
        · simp [hp]
        · have hp' : present s (.ver (manifestName .V2 v)) = false := by
            cases hx : present s (.ver (manifestName .V2 v)) <;> simp_all
          simp only [hp', Bool.false_eq_true, if_false]
          have h1 : present s (.ver (manifestName .V1 v)) = false :=
            other_scheme_absent h .V1 (by rw [hs]; intro e; cases e) v h63
          have g1 : get s (.ver (manifestName .V1 v)) = none := by
            simp only [present] at h1; cases hg : get s (.ver (manifestName .V1 v)) <;> simp_all
          have g2 : get s (.ver (manifestName .V2 v)) = none := by
            simp only [present] at hp'; cases hg : get s (.ver (manifestName .V2 v)) <;> simp_all
          rw [g1, g2]
      | V1 =>
        have h2 : present s (.ver (manifestName .V2 v)) = false :=
          other_scheme_absent h .V2 (by rw [hs]; intro e; cases e) v h63
        simp [h2]
  unfold manifestAt
  rw [key]
  cases get s (finalPath cfg.sch v) with
  | none => rfl
  | some o => cases o <;> rfl

/-! ### facts about the guards -/

theorem freshFile_spec {uid0 bound : Nat} {W : List Path} {p : Path} (h : freshFile uid0 bound W p = true) :
    ∃ c id sub, p = .file c id sub ∧ uid0 ≤ id ∧ id < uid0 + bound ∧ p ∉ W := by
  cases p with
  | ver n => simp [freshFile] at h
  | file c id sub =>
    simp only [freshFile, Bool.and_eq_true, decide_eq_true_eq, Bool.not_eq_true', List.contains_eq_mem,
      decide_eq_false_iff_not] at h
    exact ⟨c, id, sub, rfl, h.1.1, h.1.2, h.2⟩

theorem fresh_absent {cfg : Cfg} {uid0 bound : Nat} {W : List Path} {s : Store} (h : J cfg uid0 bound W s)
    {p : Path} (hf : freshFile uid0 bound W p = true) : present s p = false := by
  obtain ⟨c, id, sub, rfl, h1, _, h3⟩ := freshFile_spec hf
  cases hp : present s (.file c id sub) with
  | false => rfl
  | true =>
    rcases h.fresh c id sub hp with hlt | hin
    · omega
    · exact absurd hin h3

theorem refsOk_present {cfg : Cfg} {uid0 bound : Nat} {W : List Path} {s : Store} (h : J cfg uid0 bound W s)
    {base : Nat} {m : Manifest} (hr : refsOk s W base m = true) : ∀ p ∈ m.refs, present s p = true := by
  simp only [refsOk, Bool.and_eq_true, decide_eq_true_eq, List.all_eq_true, Bool.or_eq_true, List.contains_eq_mem] at hr
  intro p hp
  rcases hr.2 p hp with hw | hb
  · exact h.wpres p hw
  · cases hm : manifestAt s base with
    | none => rw [hm] at hb; cases hb
    | some mb =>
      rw [hm] at hb
      have hin : p ∈ mb.refs := by simpa using hb
      rw [manifestAt_eq h base hr.1] at hm
      unfold finalPath at hm
      cases hg : get s (.ver (manifestName cfg.sch base)) with
      | none => rw [hg] at hm; cases hm
      | some o =>
        rw [hg] at hm
        cases o with
        | man m' =>
          simp only [manOf, Option.some.injEq] at hm; subst hm
          exact h.closed _ _ hg p hin
        | cols _ => cases hm
        | dels _ => cases hm
        | blob => cases hm

theorem targetOk_spec {cfg : Cfg} {uid0 bound : Nat} {W : List Path} {s : Store} (h : J cfg uid0 bound W s)
    {v : Nat} (ht : targetOk s v = true) :
    (isDetached v = true ∧ v < 2 ^ 64) ∨
      (isDetached v = false ∧ v < 2 ^ 63 ∧ ∀ N, N < 2 ^ 63 →
        (∀ w, w < 2 ^ 63 → (present s (finalPath cfg.sch w) = true ↔ 1 ≤ w ∧ w ≤ N)) → v = N + 1) := by
  unfold targetOk at ht
  by_cases hd : isDetached v = true
  · simp only [hd, if_true, decide_eq_true_eq] at ht
    exact Or.inl ⟨hd, ht⟩
  · have hd' : isDetached v = false := by cases hx : isDetached v <;> simp_all
    simp only [hd', Bool.false_eq_true, if_false, Bool.and_eq_true, decide_eq_true_eq] at ht
    refine Or.inr ⟨hd', ht.2, ?_⟩
    intro N hN hdn
    rw [(latest_of_dense h hN hdn).1] at ht
    exact ht.1

/-! ### preservation of `J` -/

theorem J_put_file {cfg : Cfg} {uid0 bound : Nat} {W : List Path} {s : Store} (h : J cfg uid0 bound W s)
    {p : Path} (o : Obj) (hf : freshFile uid0 bound W p = true) : J cfg uid0 bound (W ++ [p]) (put s p o) := by
  obtain ⟨c, id, sub, rfl, h1, h2, h3⟩ := freshFile_spec hf
  have hver : ∀ n, get (put s (.file c id sub) o) (.ver n) = get s (.ver n) := by
    intro n; rw [get_put]; simp
  have hpver : ∀ n, present (put s (.file c id sub) o) (.ver n) = present s (.ver n) := by
    intro n; simp [present, hver]
  have hmono : ∀ q, present s q = true → present (put s (.file c id sub) o) q = true := by
    intro q hq; rw [present_put, hq]; simp
  refine ⟨?_, ?_, ?_, ?_, ?_, ?_, ?_⟩
  · intro c' id' sub' hp
    rw [present_put] at hp
    simp only [Bool.or_eq_true, decide_eq_true_eq] at hp
    rcases hp with e | hp
    · right; rw [← e]; simp
    · rcases h.fresh c' id' sub' hp with hl | hw
      · exact Or.inl hl
      · right; simp [hw]
  · intro q hq
    simp only [List.mem_append, List.mem_singleton] at hq
    rcases hq with hq | rfl
    · exact hmono q (h.wpres q hq)
    · rw [present_put]; simp
  · intro q hq
    simp only [List.mem_append, List.mem_singleton] at hq
    rcases hq with hq | rfl
    · exact h.wbound q hq
    · exact ⟨c, id, sub, rfl, h2⟩
  · intro n m hg q hq
    rw [hver] at hg
    exact hmono q (h.closed n m hg q hq)
  · intro n hp; rw [hpver] at hp; exact h.wf n hp
  · obtain ⟨N, hN, hd⟩ := h.dense
    exact ⟨N, hN, fun v hv => by unfold finalPath; rw [hpver]; exact hd v hv⟩
  · intro v o' hv hg
    unfold finalPath at hg; rw [hver] at hg
    exact h.typed v o' hv hg

/-- writing a `_versions/` entry whose name carries no version and is no manifest name -/
theorem J_put_noise {cfg : Cfg} {uid0 bound : Nat} {W : List Path} {s : Store} (h : J cfg uid0 bound W s)
    (n : Name) (m : Manifest) (hnoise : cand n = none) (hne : ∀ v, v < 2 ^ 63 → n ≠ manifestName cfg.sch v)
    (hrefs : ∀ p ∈ m.refs, present s p = true) : J cfg uid0 bound W (put s (.ver n) (.man m)) := by
  have hfile : ∀ c id sub, present (put s (.ver n) (.man m)) (.file c id sub) = present s (.file c id sub) := by
    intro c id sub; rw [present_put]; simp
  have hmono : ∀ q, present s q = true → present (put s (.ver n) (.man m)) q = true := by
    intro q hq; rw [present_put, hq]; simp
  have hfinal : ∀ v, v < 2 ^ 63 → get (put s (.ver n) (.man m)) (finalPath cfg.sch v) = get s (finalPath cfg.sch v) := by
    intro v hv; unfold finalPath; rw [get_put]
    have : ¬ (Path.ver n = Path.ver (manifestName cfg.sch v)) := fun e => hne v hv (Path.ver.inj e)
    simp [this]
  refine ⟨?_, ?_, h.wbound, ?_, ?_, ?_, ?_⟩
  · intro c id sub hp; rw [hfile] at hp; exact h.fresh c id sub hp
  · intro q hq; exact hmono q (h.wpres q hq)
  · intro n' m' hg q hq
    rw [get_put] at hg
    by_cases e : Path.ver n = Path.ver n'
    · simp only [e, if_true, Option.some.injEq, Obj.man.injEq] at hg; subst hg
      exact hmono q (hrefs q hq)
    · simp only [e, if_false] at hg
      exact hmono q (h.closed n' m' hg q hq)
  · intro n' hp
    rw [present_put] at hp
    simp only [Bool.or_eq_true, decide_eq_true_eq] at hp
    rcases hp with e | hp
    · cases e; exact Or.inr hnoise
    · exact h.wf n' hp
  · obtain ⟨N, hN, hd⟩ := h.dense
    refine ⟨N, hN, fun v hv => ?_⟩
    have : present (put s (.ver n) (.man m)) (finalPath cfg.sch v) = present s (finalPath cfg.sch v) := by
      simp only [present, hfinal v hv]
    rw [this]; exact hd v hv
  · intro v o hv hg; rw [hfinal v hv] at hg; exact h.typed v o hv hg

/-- removing a `_versions/` entry that is no attached manifest of the table -/
theorem J_erase_noise {cfg : Cfg} {uid0 bound : Nat} {W : List Path} {s : Store} (h : J cfg uid0 bound W s)
    (n : Name) (hne : ∀ v, v < 2 ^ 63 → n ≠ manifestName cfg.sch v) : J cfg uid0 bound W (erase s (.ver n)) := by
  have hfile : ∀ c id sub, present (erase s (.ver n)) (.file c id sub) = present s (.file c id sub) := by
    intro c id sub; rw [present_erase]; simp
  have hfinal : ∀ v, v < 2 ^ 63 → get (erase s (.ver n)) (finalPath cfg.sch v) = get s (finalPath cfg.sch v) := by
    intro v hv; unfold finalPath; rw [get_erase]
    have : ¬ (Path.ver n = Path.ver (manifestName cfg.sch v)) := fun e => hne v hv (Path.ver.inj e)
    simp [this]
  have hrefs_file : ∀ (m : Manifest) q, q ∈ m.refs → ∃ c id sub, q = Path.file c id sub := by
    intro m q hq
    simp only [Manifest.refs, List.mem_append, List.mem_flatMap, List.mem_singleton] at hq
    rcases hq with (⟨f, _, hf⟩ | ⟨i, _, hi⟩) | rfl
    · simp only [Frag.refs, List.mem_append, List.mem_map] at hf
      rcases hf with ⟨d, _, rfl⟩ | hf
      · exact ⟨_, _, _, rfl⟩
      · cases hdel : f.del with
        | none => rw [hdel] at hf; cases hf
        | some d => rw [hdel] at hf; simp only [List.mem_singleton] at hf; exact ⟨_, _, _, hf⟩
    · simp only [Index.refs, List.mem_map] at hi
      obtain ⟨k, _, rfl⟩ := hi
      exact ⟨_, _, _, rfl⟩
    · exact ⟨_, _, _, rfl⟩
  refine ⟨?_, ?_, h.wbound, ?_, ?_, ?_, ?_⟩
  · intro c id sub hp; rw [hfile] at hp; exact h.fresh c id sub hp
  · intro q hq
    obtain ⟨c, id, sub, rfl, _⟩ := h.wbound q hq
    rw [hfile]; exact h.wpres _ hq
  · intro n' m' hg q hq
    rw [get_erase] at hg
    by_cases e : Path.ver n = Path.ver n'
    · simp [e] at hg
    · simp only [e, if_false] at hg
      obtain ⟨c, id, sub, rfl⟩ := hrefs_file m' q hq
      rw [hfile]; exact h.closed n' m' hg _ hq
  · intro n' hp
    rw [present_erase] at hp
    simp only [Bool.and_eq_true] at hp
    exact h.wf n' hp.2
  · obtain ⟨N, hN, hd⟩ := h.dense
    refine ⟨N, hN, fun v hv => ?_⟩
    have : present (erase s (.ver n)) (finalPath cfg.sch v) = present s (finalPath cfg.sch v) := by
      simp only [present, hfinal v hv]
    rw [this]; exact hd v hv
  · intro v o hv hg; rw [hfinal v hv] at hg; exact h.typed v o hv hg

/-- the commit point: the manifest of version `v` appears at its final path -/
theorem J_publish {cfg : Cfg} {uid0 bound : Nat} {W : List Path} {s : Store} (h : J cfg uid0 bound W s)
    (v : Nat) (m : Manifest) (hver : m.version = v)
    (ht : (isDetached v = true ∧ v < 2 ^ 64) ∨ (isDetached v = false ∧ v < 2 ^ 63 ∧ ∀ N, N < 2 ^ 63 →
        (∀ w, w < 2 ^ 63 → (present s (finalPath cfg.sch w) = true ↔ 1 ≤ w ∧ w ≤ N)) → v = N + 1))
    (hrefs : ∀ p ∈ m.refs, present s p = true) :
    J cfg uid0 bound W (put s (finalPath cfg.sch v) (.man m)) := by
  rcases ht with ⟨hd, h64⟩ | ⟨hd, h63, hnext⟩
  · -- detached: a name without a version
    have h63 := (C33.Names.isDetached_iff v h64).1 hd
    refine J_put_noise h _ m (detached_noise cfg.sch v hd h64) ?_ hrefs
    intro w hw e
    have := manifestName_inj cfg.sch v w h64 hw e
    omega
  · have hfile : ∀ c id sub, present (put s (finalPath cfg.sch v) (.man m)) (.file c id sub) = present s (.file c id sub) := by
      intro c id sub; unfold finalPath; rw [present_put]; simp
    have hmono : ∀ q, present s q = true → present (put s (finalPath cfg.sch v) (.man m)) q = true := by
      intro q hq; rw [present_put, hq]; simp
    have hother : ∀ w, w < 2 ^ 63 → w ≠ v →
        get (put s (finalPath cfg.sch v) (.man m)) (finalPath cfg.sch w) = get s (finalPath cfg.sch w) := by
      intro w hw hne; unfold finalPath; rw [get_put]
      have : ¬ (Path.ver (manifestName cfg.sch v) = Path.ver (manifestName cfg.sch w)) := by
        intro e
        exact hne (C33.Names.name_inj cfg.sch v w h63 hw (Path.ver.inj e)).symm
      simp [this]
    obtain ⟨N, hN, hdn⟩ := h.dense
    have hvN : v = N + 1 := hnext N hN hdn
    refine ⟨?_, ?_, h.wbound, ?_, ?_, ?_, ?_⟩
    · intro c id sub hp; rw [hfile] at hp; exact h.fresh c id sub hp
    · intro q hq; exact hmono q (h.wpres q hq)
    · intro n' m' hg q hq
      unfold finalPath at hg
      rw [get_put] at hg
      by_cases e : Path.ver (manifestName cfg.sch v) = Path.ver n'
      · simp only [e, if_true, Option.some.injEq, Obj.man.injEq] at hg; subst hg
        exact hmono q (hrefs q hq)
      · simp only [e, if_false] at hg
        exact hmono q (h.closed n' m' hg q hq)
    · intro n' hp
      unfold finalPath at hp
      rw [present_put] at hp
      simp only [Bool.or_eq_true, decide_eq_true_eq] at hp
      rcases hp with e | hp
      · cases e; exact Or.inl ⟨v, h63, rfl⟩
      · exact h.wf n' hp
    · refine ⟨N + 1, by omega, fun w hw => ?_⟩
      by_cases e : w = v
      · subst e
        have : present (put s (finalPath cfg.sch w) (.man m)) (finalPath cfg.sch w) = true := by
          rw [present_put]; simp
        rw [this]; simp; omega
      · have : present (put s (finalPath cfg.sch v) (.man m)) (finalPath cfg.sch w) = present s (finalPath cfg.sch w) := by
          simp only [present, hother w hw e]
        rw [this, hdn w hw]; omega
    · intro w o hw hg
      by_cases e : w = v
      · subst e
        rw [get_put] at hg
        simp only [if_true, Option.some.injEq] at hg
        exact ⟨m, hg.symm, hver⟩
      · rw [hother w hw e] at hg; exact h.typed w o hw hg

/-- every guarded call that succeeds preserves the invariant -/
theorem J_exec {cfg : Cfg} {uid0 bound : Nat} {W : List Path} {s s' : Store} (h : J cfg uid0 bound W s)
    {c : Call} (hg : guard cfg uid0 bound W s c = true) (he : exec cfg s c = some s') :
    J cfg uid0 bound (W ++ c.target) s' := by
  cases c with
  | put p o =>
    simp only [exec, Option.some.injEq] at he; subst he
    exact J_put_file h o hg
  | copy src dst =>
    simp only [exec] at he
    cases hs : get s src with
    | none => rw [hs] at he; cases he
    | some o =>
      rw [hs] at he; simp only [Option.some.injEq] at he; subst he
      exact J_put_file h o hg
  | stage base v u m =>
    simp only [exec, Option.some.injEq] at he; subst he
    simp only [guard, Bool.and_eq_true] at hg
    simp only [Call.target, List.append_nil]
    have hv64 : v < 2 ^ 64 := by
      rcases targetOk_spec h hg.1 with ⟨_, h64⟩ | ⟨_, h63, _⟩
      · exact h64
      · omega
    exact J_put_noise h _ m (stage_noise cfg.sch v u hv64)
      (fun w hw => stage_ne_manifest cfg.sch cfg.sch v w u (by omega)) (refsOk_present h hg.2)
  | pubCreate base v m =>
    simp only [guard, Bool.and_eq_true, decide_eq_true_eq] at hg
    simp only [exec] at he
    split at he
    · cases he
    · simp only [Option.some.injEq] at he; subst he
      simp only [Call.target, List.append_nil]
      exact J_publish h v m hg.1.2 (targetOk_spec h hg.1.1) (refsOk_present h hg.2)
  | pubLocked base v m =>
    simp only [guard, Bool.and_eq_true, decide_eq_true_eq] at hg
    simp only [exec] at he
    split at he
    · cases he
    · simp only [Option.some.injEq] at he; subst he
      simp only [Call.target, List.append_nil]
      exact J_publish h v m hg.1.2 (targetOk_spec h hg.1.1) (refsOk_present h hg.2)
  | pubRename base v u m =>
    simp only [guard, Bool.and_eq_true, decide_eq_true_eq] at hg
    simp only [exec, hg.2] at he
    split at he
    · cases he
    · simp only [Option.some.injEq] at he; subst he
      simp only [Call.target, List.append_nil]
      have hst : ∀ w, w < 2 ^ 63 → manifestName cfg.sch v ++ '-' :: dec u ≠ manifestName cfg.sch w :=
        fun w hw => stage_ne_manifest cfg.sch cfg.sch v w u (by omega)
      have hJ' := J_erase_noise h (manifestName cfg.sch v ++ '-' :: dec u) hst
      have hpres : ∀ w, w < 2 ^ 63 → present (erase s (stagePath cfg.sch v u)) (finalPath cfg.sch w) =
          present s (finalPath cfg.sch w) := by
        intro w hw
        unfold stagePath finalPath
        rw [present_erase]
        have : ¬ (Path.ver (manifestName cfg.sch v ++ '-' :: dec u) = Path.ver (manifestName cfg.sch w)) := by
          intro e; exact hst w hw (Path.ver.inj e)
        simp [this]
      have ht : (isDetached v = true ∧ v < 2 ^ 64) ∨ (isDetached v = false ∧ v < 2 ^ 63 ∧ ∀ N, N < 2 ^ 63 →
          (∀ w, w < 2 ^ 63 → (present (erase s (stagePath cfg.sch v u)) (finalPath cfg.sch w) = true ↔ 1 ≤ w ∧ w ≤ N)) →
            v = N + 1) := by
        rcases targetOk_spec h hg.1.1 with a | ⟨a, b, c⟩
        · exact Or.inl a
        · refine Or.inr ⟨a, b, fun N hN hd => c N hN (fun w hw => ?_)⟩
          rw [← hpres w hw]; exact hd w hw
      have hrefs : ∀ p ∈ m.refs, present (erase s (stagePath cfg.sch v u)) p = true := by
        intro p hp
        have := h.closed _ m hg.2 p hp
        unfold stagePath
        rw [present_erase, this]
        have hfile : ∃ c id sub, p = Path.file c id sub := by
          simp only [Manifest.refs, List.mem_append, List.mem_flatMap, List.mem_singleton] at hp
          rcases hp with (⟨f, _, hf⟩ | ⟨i, _, hi⟩) | rfl
          · simp only [Frag.refs, List.mem_append, List.mem_map] at hf
            rcases hf with ⟨d, _, rfl⟩ | hf
            · exact ⟨_, _, _, rfl⟩
            · cases hdel : f.del with
              | none => rw [hdel] at hf; cases hf
              | some d => rw [hdel] at hf; simp only [List.mem_singleton] at hf; exact ⟨_, _, _, hf⟩
          · simp only [Index.refs, List.mem_map] at hi
            obtain ⟨k, _, rfl⟩ := hi
            exact ⟨_, _, _, rfl⟩
          · exact ⟨_, _, _, rfl⟩
        obtain ⟨c, id, sub, rfl⟩ := hfile
        simp
      exact J_publish hJ' v m hg.1.2 ht hrefs

/-- the invariant holds after every (partial, faulted or complete) run of a program -/
theorem J_runCalls (cfg : Cfg) (uid0 bound : Nat) (calls : List Call) :
    ∀ (W : List Path) (s : Store) (f : Option (Nat × Fault)), J cfg uid0 bound W s →
      ∃ W', J cfg uid0 bound W' (runCalls cfg uid0 bound W s calls f).1 := by
  induction calls with
  | nil => intro W s f h; exact ⟨W, by simpa [runCalls] using h⟩
  | cons c cs ih =>
    intro W s f h
    unfold runCalls
    by_cases hg : guard cfg uid0 bound W s c = true
    · simp only [hg, Bool.true_eq_false, if_false]
      match f with
      | some (0, .crash) => exact ⟨W, h⟩
      | some (0, .failBefore) => exact ⟨W, h⟩
      | some (0, .lost) =>
        cases he : exec cfg s c with
        | none => exact ⟨W, by simpa [he] using h⟩
        | some s' => exact ⟨_, by simpa [he] using J_exec h hg he⟩
      | some (k + 1, fl) =>
        cases he : exec cfg s c with
        | none => exact ⟨W, h⟩
        | some s' => exact ih _ _ _ (J_exec h hg he)
      | none =>
        cases he : exec cfg s c with
        | none => exact ⟨W, h⟩
        | some s' => exact ih _ _ _ (J_exec h hg he)
    · have : guard cfg uid0 bound W s c = false := by cases hx : guard cfg uid0 bound W s c <;> simp_all
      simp only [this, if_true]
      exact ⟨W, h⟩

theorem inv_empty (cfg : Cfg) : Inv cfg St.empty := by
  refine ⟨?_, ?_, ?_, ?_, ?_, ⟨0, by decide, ?_⟩, ?_⟩ <;> simp [St.empty, present, get]
  intro v _ h1 h2; omega

theorem inv_stepOp (cfg : Cfg) (st : St) (p : Prog) (h : Inv cfg st) : Inv cfg (stepOp cfg st p).1 := by
  have h0 : J cfg st.uid p.ids [] st.store :=
    ⟨h.fresh, h.wpres, (fun q hq => by cases hq), h.closed, h.wf, h.dense, h.typed⟩
  obtain ⟨W', hJ⟩ := J_runCalls cfg st.uid p.ids p.calls [] st.store p.fault h0
  refine ⟨?_, (fun q hq => by cases hq), (fun q hq => by cases hq), hJ.closed, hJ.wf, hJ.dense, hJ.typed⟩
  intro c id sub hp
  left
  simp only [stepOp] at hp ⊢
  rcases hJ.fresh c id sub hp with hl | hw
  · omega
  · obtain ⟨c', id', sub', e, hb⟩ := hJ.wbound _ hw
    cases e; omega

theorem inv_runHist (cfg : Cfg) (ops : List Prog) : ∀ st, Inv cfg st → Inv cfg (runHist cfg st ops) := by
  induction ops with
  | nil => intro st h; exact h
  | cons p rest ih => intro st h; exact ih _ (inv_stepOp cfg st p h)

end LanceModel.C01
