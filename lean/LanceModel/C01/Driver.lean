import LanceModel.Util
import LanceModel.Table.Basic
import LanceModel.C01.Ops
/-
C01 driver.  One output line per op line (same grammar as harness/src/bin/c01.rs):

  cfg h=<cond|rename|lock> v2=<0|1> s=<0|1>
  <op> [@ <crash|fb|lr> <i>]           the fault hits the i-th mutating storage call of the operation

Output: `<result> <trace> | L=<latest> V=<versions> | <version views> | D=<detached views> | files=…`.
-/
namespace LanceModel.C01.Driver
open LanceModel.Util LanceModel.C01
open LanceModel.Table (parseRows parseI64 parseUsize showRows)
open LanceModel.C33 (Scheme)

structure DSt where
  oc : Option OCfg
  st : St

def init : DSt := ⟨none, St.empty⟩

def parseCfg (toks : List String) : Option OCfg :=
  match toks with
  | ["cfg", h, v2, s] =>
    let hd := match h with
      | "h=cond" => some Handler.cond
      | "h=rename" => some Handler.rename
      | "h=lock" => some Handler.lock
      | _ => none
    let sch := match v2 with
      | "v2=0" => some Scheme.V1
      | "v2=1" => some Scheme.V2
      | _ => none
    let st := match s with
      | "s=0" => some false
      | "s=1" => some true
      | _ => none
    match hd, sch, st with
    | some hd, some sch, some st => some ⟨⟨sch, hd⟩, st⟩
    | _, _, _ => none
  | _ => none

def parseNatTok (s : String) : Option Nat :=
  if s.length > 18 then none else parseUsize s

def parseF (s : String) : Option Nat :=
  if s.startsWith "f=" then
    match parseNatTok (s.drop 2).toString with
    | some f => if f = 0 ∨ f > 1000 then none else some f
    | none => none
  else none

def parseOp (toks : List String) : Option Op :=
  match toks with
  | ["create", f, r] => (parseF f).bind (fun f => (parseRows r).map (Op.create f))
  | ["append", f, r] => (parseF f).bind (fun f => (parseRows r).map (Op.append f))
  | ["overwrite", f, r] => (parseF f).bind (fun f => (parseRows r).map (Op.overwrite f))
  | ["dappend", f, r] => (parseF f).bind (fun f => (parseRows r).map (Op.dappend f))
  | ["delete", x] => (parseI64 x).map Op.delete
  | ["update", x, y] => (parseI64 x).bind (fun x => (parseI64 y).map (Op.update x))
  | ["upsert", r] => (parseRows r).map Op.upsert
  | ["compact"] => some .compact
  | ["index"] => some .index
  | ["addcol"] => some .addcol
  | ["dropcol"] => some .dropcol
  | ["config", n] => (parseNatTok n).map Op.config
  | ["restore", v] => (parseNatTok v).map Op.restore
  | _ => none

def parseFault (toks : List String) : Option (Option (Nat × Fault)) :=
  match toks with
  | [] => some none
  | ["@", f, i] =>
    let fl := match f with
      | "crash" => some Fault.crash
      | "fb" => some Fault.failBefore
      | "lr" => some Fault.lost
      | _ => none
    match fl, parseNatTok i with
    | some fl, some i => some (some (i, fl))
    | _, _ => none
  | _ => none

/-! ### output -/

def clsLetter : Path → Char
  | .file .data _ _ => 'd'
  | .file .del _ _ => 'x'
  | .file .idx _ _ => 'i'
  | .file .txn _ _ => 't'
  | .ver n => if ".manifest".toList.isSuffixOf n then 'm' else 's'

def callToken (_cfg : Cfg) : Call → String
  | .put p _ => "put:" ++ String.singleton (clsLetter p)
  | .copy a b => "copy:" ++ String.singleton (clsLetter a) ++ String.singleton (clsLetter b)
  | .stage .. => "put:s"
  | .pubCreate .. => "putc:m"
  | .pubLocked .. => "put:m"
  | .pubRename .. => "rine:sm"

def faultToken : Fault → String
  | .crash => "crash"
  | .failBefore => "fb"
  | .lost => "lr"

/-- tokens of the calls released: all of them, or up to and including the faulted one -/
def traceOf (cfg : Cfg) (calls : List Call) (f : Option (Nat × Fault)) : List String :=
  match f with
  | none => calls.map (callToken cfg)
  | some (i, fl) =>
    if i < calls.length then
      (calls.take i).map (callToken cfg) ++ ((calls.drop i).take 1).map (fun c => callToken cfg c ++ "!" ++ faultToken fl)
    else calls.map (callToken cfg)

def showTrace (t : List String) : String := "[" ++ ",".intercalate t ++ "]"

def cellLe : Cell → Cell → Bool
  | none, _ => true
  | some _, none => false
  | some a, some b => decide (a ≤ b)

def cellEq : Cell → Cell → Bool
  | none, none => true
  | some a, some b => decide (a = b)
  | _, _ => false

/-- Rust `Vec<Option<i64>>` order (None first, lexicographic, a prefix is smaller) -/
def rowLe : Row → Row → Bool
  | [], _ => true
  | _ :: _, [] => false
  | a :: as, b :: bs => if cellEq a b then rowLe as bs else cellLe a b

def insertRow (r : Row) : List Row → List Row
  | [] => [r]
  | x :: t => if rowLe r x then r :: x :: t else x :: insertRow r t

def sortRows (l : List Row) : List Row := l.foldr insertRow []

def showView (vw : View) : String :=
  toString vw.k ++ ":" ++ showRows (sortRows vw.rows) ++ ":" ++ toString vw.nIdx ++ ":" ++
    (match vw.cfg with
     | some c => toString c
     | none => "n")

def insertStr (x : String) : List String → List String
  | [] => [x]
  | y :: t => if x ≤ y then x :: y :: t else y :: insertStr x t

def showList (l : List String) : String := if l.isEmpty then "-" else " ".intercalate l

def startsD : List Char → Bool
  | 'd' :: _ => true
  | _ => false

def countCls (s : Store) (c : Char) : Nat := (s.filter (fun e => clsLetter e.1 == c)).length

def showObs (s : Store) : String :=
  let vs := sortNat (versions s)
  let views := vs.map (fun v =>
    match read s v with
    | some vw => toString v ++ ":" ++ showView vw
    | none => toString v ++ ":UNREADABLE")
  let det := s.filterMap (fun e =>
    match e.1, e.2 with
    | .ver n, .man m =>
      if startsD n && ".manifest".toList.isSuffixOf n then
        some (if (derefs s m).all (fun x => x.2.isSome) then showView (view m (derefs s m)) else "UNREADABLE")
      else none
    | _, _ => none)
  let l := match latest s with
    | .ok v _ _ => toString v
    | .notFound => "none"
    | .errInternal => "error"
  "L=" ++ l ++ " V=" ++ showNatList vs ++ " | " ++ showList views ++ " | D=" ++ showList (det.foldr insertStr []) ++
    " | files=" ++ ",".intercalate ("dxitms".toList.map (fun c => String.singleton c ++ toString (countCls s c)))

def errStr : Err → String
  | .alreadyExists => "already_exists"
  | .notFound => "not_found"
  | .invalidInput => "invalid_input"
  | .other => "other"
  | .width => "width"
  | .multiBin => "multi_bin"

def step (d : DSt) (line : String) : DSt × String :=
  let toks := splitTokens line
  match toks with
  | "cfg" :: _ =>
    match parseCfg toks with
    | some oc => (⟨some oc, St.empty⟩, "cfg ok")
    | none => (d, "err parse")
  | _ =>
    let (opToks, fToks) := toks.span (· ≠ "@")
    match parseOp opToks, parseFault fToks with
    | some op, some f =>
      match d.oc with
      | none => (d, "err no_cfg")
      | some oc =>
        match build oc d.st op with
        | .error e => (d, "err " ++ errStr e ++ " [] | " ++ showObs d.st.store)
        | .ok plan =>
          let r := stepOp oc.cfg d.st ⟨plan.calls, plan.ids, f⟩
          let st' := r.1
          let res := match r.2 with
            | .done =>
              (match plan.after with
               | some e => "err " ++ errStr e
               | none => if plan.detached then "ok D" else "ok " ++ toString (latestN st'.store))
            | .crashed => "crashed"
            | .failed => "err other"
            | .conflict => "err conflict"
            | .invalid => "invalid"
          (⟨d.oc, st'⟩, res ++ " " ++ showTrace (traceOf oc.cfg plan.calls f) ++ " | " ++ showObs st'.store)
    | _, _ => (d, "err parse")

end LanceModel.C01.Driver
