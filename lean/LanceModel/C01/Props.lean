import LanceModel.C01.ObsLemmas
import LanceModel.C01.Ops
/-
C01 — Every commit is atomic and versions form a dense, monotone history.

  "A successful write makes exactly one new table version, numbered one above the latest version it was committed on, and
   all of its data, deletions and index changes become visible together. A write that fails or crashes before its commit
   point leaves every reader (including a later open of the table) seeing exactly the previous versions, with nothing
   partial. Until cleanup removes old versions, the published versions of a branch are exactly 1..N, and detached
   commits never become the latest version."

Vocabulary (Model.lean).  A write operation is a PROGRAM: a list of storage calls (`Call`); the calls `pubCreate`,
`pubLocked`, `pubRename` (`Call.isPub`) create a final manifest path — they are the commit points; every other call
writes a new data / deletion / index / transaction file or a staging manifest.  A fault `(k, crash | failBefore | lost)`
stops the program at its k-th call.  `guard` states what the structure of the real code guarantees about a call: new
files get fresh names, the target version is `latest + 1` (or any number with the detached bit), the manifest names only
files of the version it was built from and files the operation wrote BEFORE.  A call whose guard fails ends the program
with `Outcome.invalid` and no effect, so every theorem below holds for arbitrary programs.  The observations of a reader
are `versions`, `latest` and `read store v` (`none` when the manifest of `v` or a file it names is missing).

`Inv cfg st` is the invariant between operations (`InvLemmas.lean`); it holds for the empty store and is preserved by
every program under every fault (`inv_runHist`).  Version numbers are 64-bit (`v < 2^64`) throughout.
-/
namespace LanceModel.C01
open LanceModel.C33 (Name Scheme manifestName isDetached dec cand)
open LanceModel.C33.Latest (IsAttached Noise WF IsLatest)

/-- a reader cannot tell `s'` from `s` -/
def SameObs (s s' : Store) : Prop :=
  versions s' = versions s ∧ latest s' = latest s ∧ ∀ v, v < 2 ^ 64 → read s' v = read s v

theorem SameObs.refl (s : Store) : SameObs s s := ⟨rfl, rfl, fun _ _ => rfl⟩

theorem SameObs.trans {a b c : Store} (h1 : SameObs a b) (h2 : SameObs b c) : SameObs a c :=
  ⟨h2.1.trans h1.1, h2.2.1.trans h1.2.1, fun v hv => (h2.2.2 v hv).trans (h1.2.2 v hv)⟩

theorem SameObs.symm {a b : Store} (h : SameObs a b) : SameObs b a :=
  ⟨h.1.symm, h.2.1.symm, fun v hv => (h.2.2 v hv).symm⟩

/-! ## (i) the commit point -/

/-- only commit calls change the table: any other (guarded, successful) call of a running operation leaves the version
    list, the latest version and the content of every version exactly as they were -/
theorem only_commit_calls_are_visible {cfg : Cfg} {uid0 bound : Nat} {W : List Path} {s s' : Store}
    (h : J cfg uid0 bound W s) {c : Call} (hq : c.isPub = false) (hg : guard cfg uid0 bound W s c = true)
    (he : exec cfg s c = some s') : SameObs s s' := quiet_obs h hq hg he

/-- running calls none of which is a commit call, under any fault, changes nothing a reader can see -/
theorem quiet_run (cfg : Cfg) (uid0 bound : Nat) (calls : List Call) (hq : ∀ c ∈ calls, c.isPub = false) :
    ∀ (W : List Path) (s : Store) (f : Option (Nat × Fault)), J cfg uid0 bound W s →
      SameObs s (runCalls cfg uid0 bound W s calls f).1 := by
  induction calls with
  | nil => intro W s f _; simp only [runCalls]; exact SameObs.refl s
  | cons c cs ih =>
    intro W s f h
    have hc : c.isPub = false := hq c (by simp)
    have hcs : ∀ x ∈ cs, x.isPub = false := fun x hx => hq x (by simp [hx])
    unfold runCalls
    by_cases hg : guard cfg uid0 bound W s c = true
    · simp only [hg, Bool.true_eq_false, if_false]
      match f with
      | some (0, .crash) => exact SameObs.refl s
      | some (0, .failBefore) => exact SameObs.refl s
      | some (0, .lost) =>
        cases he : exec cfg s c with
        | none => exact SameObs.refl s
        | some s' => exact only_commit_calls_are_visible h hc hg he
      | some (k + 1, fl) =>
        cases he : exec cfg s c with
        | none => exact SameObs.refl s
        | some s' => exact SameObs.trans (only_commit_calls_are_visible h hc hg he) (ih hcs _ _ _ (J_exec h hg he))
      | none =>
        cases he : exec cfg s c with
        | none => exact SameObs.refl s
        | some s' => exact SameObs.trans (only_commit_calls_are_visible h hc hg he) (ih hcs _ _ _ (J_exec h hg he))
    · have : guard cfg uid0 bound W s c = false := by cases hx : guard cfg uid0 bound W s c <;> simp_all
      simp only [this, if_true]
      exact SameObs.refl s

/-- **commit_point.**  For every program, every fault that stops it at or before its first commit call (a crash or a
    failed call there; a lost response strictly before it): the published versions, the latest version and what every
    version reads as are unchanged. -/
theorem commit_point_run (cfg : Cfg) (uid0 bound : Nat) (calls : List Call) :
    ∀ (W : List Path) (s : Store) (k : Nat) (fl : Fault), J cfg uid0 bound W s →
      (∀ c ∈ calls.take k, c.isPub = false) →
      (fl = .lost → ∀ c ∈ (calls.drop k).take 1, c.isPub = false) →
      SameObs s (runCalls cfg uid0 bound W s calls (some (k, fl))).1 := by
  induction calls with
  | nil => intro W s k fl _ _ _; simp only [runCalls]; exact SameObs.refl s
  | cons c cs ih =>
    intro W s k fl h hq hl
    unfold runCalls
    by_cases hg : guard cfg uid0 bound W s c = true
    · simp only [hg, Bool.true_eq_false, if_false]
      cases k with
      | zero =>
        cases fl with
        | crash => exact SameObs.refl s
        | failBefore => exact SameObs.refl s
        | lost =>
          have hc : c.isPub = false := hl rfl c (by simp)
          cases he : exec cfg s c with
          | none => exact SameObs.refl s
          | some s' => exact only_commit_calls_are_visible h hc hg he
      | succ k =>
        have hc : c.isPub = false := hq c (by simp)
        cases he : exec cfg s c with
        | none => exact SameObs.refl s
        | some s' =>
          refine SameObs.trans (only_commit_calls_are_visible h hc hg he) (ih _ _ k fl (J_exec h hg he) ?_ ?_)
          · intro x hx; exact hq x (by simp [hx])
          · intro e x hx; exact hl e x (by simpa using hx)
    · have : guard cfg uid0 bound W s c = false := by cases hx : guard cfg uid0 bound W s c <;> simp_all
      simp only [this, if_true]
      exact SameObs.refl s

/-- `commit_point` for one operation of a history -/
theorem commit_point (cfg : Cfg) (st : St) (hI : Inv cfg st) (calls : List Call) (ids k : Nat) (fl : Fault)
    (hq : ∀ c ∈ calls.take k, c.isPub = false)
    (hl : fl = .lost → ∀ c ∈ (calls.drop k).take 1, c.isPub = false) :
    SameObs st.store (stepOp cfg st ⟨calls, ids, some (k, fl)⟩).1.store := by
  have h0 : J cfg st.uid ids [] st.store :=
    ⟨hI.fresh, hI.wpres, (fun q hq => by cases hq), hI.closed, hI.wf, hI.dense, hI.typed⟩
  exact commit_point_run cfg st.uid ids calls [] st.store k fl h0 hq hl

/-- **all or nothing.**  A program with ONE commit call, under any fault whatsoever, leaves the table either exactly as
    it was or exactly as the unfaulted program leaves it. -/
theorem atomic_run (cfg : Cfg) (uid0 bound : Nat) (c : Call) (post : List Call) (hc : c.isPub = true)
    (hpost : ∀ x ∈ post, x.isPub = false) (pre : List Call) (hpre : ∀ x ∈ pre, x.isPub = false) :
    ∀ (W : List Path) (s : Store) (f : Option (Nat × Fault)), J cfg uid0 bound W s →
      SameObs s (runCalls cfg uid0 bound W s (pre ++ c :: post) f).1 ∨
      SameObs (runCalls cfg uid0 bound W s (pre ++ c :: post) none).1 (runCalls cfg uid0 bound W s (pre ++ c :: post) f).1 := by
  induction pre with
  | nil =>
    intro W s f h
    simp only [List.nil_append]
    by_cases hg : guard cfg uid0 bound W s c = true
    · cases he : exec cfg s c with
      | none =>
        left
        unfold runCalls
        simp only [hg, Bool.true_eq_false, if_false, he]
        match f with
        | some (0, .crash) => exact SameObs.refl s
        | some (0, .failBefore) => exact SameObs.refl s
        | some (0, .lost) => exact SameObs.refl s
        | some (k + 1, fl) => exact SameObs.refl s
        | none => exact SameObs.refl s
      | some s1 =>
        have h1 := J_exec h hg he
        have hfull : (runCalls cfg uid0 bound W s (c :: post) none).1 =
            (runCalls cfg uid0 bound (W ++ c.target) s1 post none).1 := by
          conv => lhs; unfold runCalls
          simp only [hg, Bool.true_eq_false, if_false, he]
        have hq := quiet_run cfg uid0 bound post hpost (W ++ c.target) s1
        match f with
        | some (0, .crash) => left; unfold runCalls; simp only [hg, Bool.true_eq_false, if_false]; exact SameObs.refl s
        | some (0, .failBefore) =>
          left; unfold runCalls; simp only [hg, Bool.true_eq_false, if_false]; exact SameObs.refl s
        | some (0, .lost) =>
          right
          rw [hfull]
          have : (runCalls cfg uid0 bound W s (c :: post) (some (0, .lost))).1 = s1 := by
            unfold runCalls; simp [hg, he]
          rw [this]
          exact (hq none h1).symm
        | some (k + 1, fl) =>
          right
          rw [hfull]
          have : (runCalls cfg uid0 bound W s (c :: post) (some (k + 1, fl))).1 =
              (runCalls cfg uid0 bound (W ++ c.target) s1 post (some (k, fl))).1 := by
            conv => lhs; unfold runCalls
            simp only [hg, Bool.true_eq_false, if_false, he]
          rw [this]
          exact (hq none h1).symm.trans (hq _ h1)
        | none => right; exact SameObs.refl _
    · have hg' : guard cfg uid0 bound W s c = false := by cases hx : guard cfg uid0 bound W s c <;> simp_all
      left; unfold runCalls; simp only [hg', if_true]; exact SameObs.refl s
  | cons a pre' ih =>
    intro W s f h
    have ha : a.isPub = false := hpre a (by simp)
    have hpre' : ∀ x ∈ pre', x.isPub = false := fun x hx => hpre x (by simp [hx])
    simp only [List.cons_append]
    by_cases hg : guard cfg uid0 bound W s a = true
    · cases he : exec cfg s a with
      | none =>
        left
        unfold runCalls
        simp only [hg, Bool.true_eq_false, if_false, he]
        match f with
        | some (0, .crash) => exact SameObs.refl s
        | some (0, .failBefore) => exact SameObs.refl s
        | some (0, .lost) => exact SameObs.refl s
        | some (k + 1, fl) => exact SameObs.refl s
        | none => exact SameObs.refl s
      | some s1 =>
        have h1 := J_exec h hg he
        have hs1 : SameObs s s1 := only_commit_calls_are_visible h ha hg he
        have hfull : (runCalls cfg uid0 bound W s (a :: (pre' ++ c :: post)) none).1 =
            (runCalls cfg uid0 bound (W ++ a.target) s1 (pre' ++ c :: post) none).1 := by
          conv => lhs; unfold runCalls
          simp only [hg, Bool.true_eq_false, if_false, he]
        match f with
        | some (0, .crash) => left; unfold runCalls; simp only [hg, Bool.true_eq_false, if_false]; exact SameObs.refl s
        | some (0, .failBefore) =>
          left; unfold runCalls; simp only [hg, Bool.true_eq_false, if_false]; exact SameObs.refl s
        | some (0, .lost) =>
          left
          have : (runCalls cfg uid0 bound W s (a :: (pre' ++ c :: post)) (some (0, .lost))).1 = s1 := by
            unfold runCalls; simp [hg, he]
          rw [this]; exact hs1
        | some (k + 1, fl) =>
          have : (runCalls cfg uid0 bound W s (a :: (pre' ++ c :: post)) (some (k + 1, fl))).1 =
              (runCalls cfg uid0 bound (W ++ a.target) s1 (pre' ++ c :: post) (some (k, fl))).1 := by
            conv => lhs; unfold runCalls
            simp only [hg, Bool.true_eq_false, if_false, he]
          rw [this, hfull]
          rcases ih hpre' _ s1 (some (k, fl)) h1 with l | r
          · exact Or.inl (hs1.trans l)
          · exact Or.inr r
        | none => right; exact SameObs.refl _
    · have hg' : guard cfg uid0 bound W s a = false := by cases hx : guard cfg uid0 bound W s a <;> simp_all
      left; unfold runCalls; simp only [hg', if_true]; exact SameObs.refl s

/-! ## what a commit call does -/

theorem dec_inj (a b : Nat) (h : dec a = dec b) : a = b := by
  have hl : C33.numDigits a = C33.numDigits b := by
    rw [← C33.Dec.dec_length a, ← C33.Dec.dec_length b, h]
  unfold C33.dec at h
  rw [hl] at h
  have hinj : ∀ (l l' : List Nat), (∀ d ∈ l, d < 10) → (∀ d ∈ l', d < 10) →
      l.map C33.digitChar = l'.map C33.digitChar → l = l' := by
    intro l
    induction l with
    | nil => intro l' _ _ e; cases l' <;> simp_all
    | cons x t ih =>
      intro l' hx hy e
      cases l' with
      | nil => simp at e
      | cons y t' =>
        simp only [List.map_cons, List.cons.injEq] at e
        have hx10 : x < 10 := hx x (by simp)
        have hy10 : y < 10 := hy y (by simp)
        have : x = y := by
          have a1 := C33.Dec.digitChar_toNat x hx10
          have a2 := C33.Dec.digitChar_toNat y hy10
          rw [e.1] at a1; omega
        subst this
        rw [ih t' (fun d hd => hx d (by simp [hd])) (fun d hd => hy d (by simp [hd])) e.2]
  have := hinj _ _ (C33.Dec.digitsW_lt_ten _ a) (C33.Dec.digitsW_lt_ten _ b) h
  have ha := C33.Dec.lt_pow_numDigits a
  have hb := C33.Dec.lt_pow_numDigits b
  rw [hl] at ha
  exact C33.Dec.digitsW_inj _ a b ha hb this

/-- distinct 64-bit versions have distinct manifest paths -/
theorem finalPath_inj (sch : Scheme) (v w : Nat) (hv : v < 2 ^ 64) (hw : w < 2 ^ 64)
    (h : finalPath sch v = finalPath sch w) : v = w := by
  have h := Path.ver.inj h
  by_cases a : v < 2 ^ 63
  · exact (manifestName_inj sch w v hw a h.symm).symm
  · by_cases b : w < 2 ^ 63
    · exact manifestName_inj sch v w hv b h
    · rw [C33.Names.name_detached sch v (by omega) hv, C33.Names.name_detached sch w (by omega) hw] at h
      simp only [List.cons.injEq, true_and] at h
      exact dec_inj v w (List.append_cancel_right h)

/-- **one new version, one above the latest, visible as a whole.**  A successful commit call of a non-detached
    transaction adds exactly version `latest + 1`; that version reads as the scan of the new manifest with every file it
    names present; every other version reads as before. -/
theorem publish_next {cfg : Cfg} {uid0 bound : Nat} {W : List Path} {s s' : Store} (h : J cfg uid0 bound W s)
    {c : Call} (hp : c.isPub = true) (hg : guard cfg uid0 bound W s c = true) (he : exec cfg s c = some s') :
    ∃ v m, m.version = v ∧ present s (finalPath cfg.sch v) = false ∧ manifestAt s' v = some m ∧
      read s' v = some (view m (derefs s' m)) ∧
      (∀ w, w < 2 ^ 64 → w ≠ v → read s' w = read s w) ∧
      ((isDetached v = false ∧ v = latestN s + 1 ∧ latestN s' = v ∧ ∀ w, w ∈ versions s' ↔ w ∈ versions s ∨ w = v) ∨
       (isDetached v = true ∧ latestN s' = latestN s ∧ ∀ w, w ∈ versions s' ↔ w ∈ versions s)) := by
  have h' := J_exec h hg he
  obtain ⟨v, m, ht, hver, hget, habs, hother, hfiles⟩ := pub_effect h hp hg he
  have hv64 : v < 2 ^ 64 := by
    rcases targetOk_spec h ht with ⟨_, a⟩ | ⟨_, a, _⟩
    · exact a
    · omega
  have hm : manifestAt s' v = some m := by rw [manifestAt_eq h' v hv64, hget]; rfl
  refine ⟨v, m, hver, habs, hm, ?_, ?_, ?_⟩
  · unfold read
    rw [hm]
    have : (derefs s' m).all (fun e => e.2.isSome) = true := by
      simp only [derefs, List.all_map, List.all_eq_true]
      intro p hp'
      exact h'.closed _ m hget p hp'
    simp only [this, if_true]
  · intro w hw hne
    apply read_stable h h' w hw
    · exact hother w hw (fun e => hne (finalPath_inj cfg.sch w v hw hv64 e))
    · intro c id sub _; exact hfiles c id sub
  · obtain ⟨N, hN, hd⟩ := h.dense
    obtain ⟨N', hN', hd'⟩ := h'.dense
    have hl := (latest_of_dense h hN hd).1
    have hl' := (latest_of_dense h' hN' hd').1
    have hslots : ∀ w, w < 2 ^ 63 → w ≠ v →
        present s' (finalPath cfg.sch w) = present s (finalPath cfg.sch w) := by
      intro w hw hne
      simp only [present]
      rw [hother w (by omega) (fun e => hne (finalPath_inj cfg.sch w v (by omega) hv64 e))]
    rcases targetOk_spec h ht with ⟨hdet, _⟩ | ⟨hdet, h63, hnext⟩
    · right
      have h63 := (C33.Names.isDetached_iff v hv64).1 hdet
      have hNN : N' = N := by
        have e1 : ∀ w, w < 2 ^ 63 → (1 ≤ w ∧ w ≤ N' ↔ 1 ≤ w ∧ w ≤ N) := by
          intro w hw
          rw [← hd' w hw, ← hd w hw, hslots w hw (by omega)]
        have a := e1 N hN
        have b := e1 N' hN'
        omega
      refine ⟨hdet, by rw [hl, hl', hNN], fun w => ?_⟩
      rw [mem_versions h' w, mem_versions h w]
      constructor
      · rintro ⟨hw, hp'⟩; exact ⟨hw, by rw [← hslots w hw (by omega)]; exact hp'⟩
      · rintro ⟨hw, hp'⟩; exact ⟨hw, by rw [hslots w hw (by omega)]; exact hp'⟩
    · left
      have hvN : v = N + 1 := hnext N hN hd
      have hpv : present s' (finalPath cfg.sch v) = true := by simp [present, hget]
      have hN'eq : N' = N + 1 := by
        have a1 := (hd' v h63).1 hpv
        have a2 : N' = v ∨ N' ≤ N := by
          by_cases e : N' = v
          · exact Or.inl e
          · by_cases z : N' = 0
            · exact Or.inr (by omega)
            · have hp1 := (hd' N' hN').2 ⟨by omega, Nat.le_refl _⟩
              rw [hslots N' hN' e] at hp1
              have := (hd N' hN').1 hp1
              exact Or.inr this.2
        omega
      refine ⟨hdet, by rw [hl]; exact hvN, by rw [hl', hN'eq, hvN], fun w => ?_⟩
      rw [mem_versions h' w, mem_versions h w]
      constructor
      · rintro ⟨hw, hp'⟩
        by_cases e : w = v
        · exact Or.inr e
        · exact Or.inl ⟨hw, by rw [← hslots w hw e]; exact hp'⟩
      · rintro (⟨hw, hp'⟩ | e)
        · have : w ≠ v := by
            intro e; subst e; rw [habs] at hp'; cases hp'
          exact ⟨hw, by rw [hslots w hw this]; exact hp'⟩
        · subst e; exact ⟨h63, hpv⟩

/-- a commit of `latest + 1` never finds its slot taken when nobody else writes (the handlers' conflict branch is for
    concurrent writers: C02) -/
theorem no_conflict {cfg : Cfg} {uid0 bound : Nat} {W : List Path} {s : Store} (h : J cfg uid0 bound W s)
    {v : Nat} (ht : targetOk s v = true) (hd : isDetached v = false) : present s (finalPath cfg.sch v) = false := by
  rcases targetOk_spec h ht with ⟨a, _⟩ | ⟨_, h63, hnext⟩
  · rw [hd] at a; cases a
  · obtain ⟨N, hN, hdn⟩ := h.dense
    have := hnext N hN hdn
    cases hp : present s (finalPath cfg.sch v) with
    | false => rfl
    | true => have := (hdn v h63).1 hp; omega

/-! ## (ii) published manifests are closed, (iii) versions are dense — over arbitrary histories with faults -/

/-- **published_closed.**  After any history of programs, each under any fault (or none), every file named by the
    manifest of any version that can be resolved — attached or detached — exists; so every published version can be
    read. -/
theorem published_closed (cfg : Cfg) (ops : List Prog) (v : Nat) (hv : v < 2 ^ 64) (m : Manifest)
    (hm : manifestAt (runHist cfg St.empty ops).store v = some m) :
    (∀ p ∈ m.refs, present (runHist cfg St.empty ops).store p = true) ∧
      read (runHist cfg St.empty ops).store v = some (view m (derefs (runHist cfg St.empty ops).store m)) := by
  have hI := inv_runHist cfg ops St.empty (inv_empty cfg)
  have hm' := hm
  rw [manifestAt_eq hI v hv] at hm'
  unfold finalPath at hm'
  have hcl : ∀ p ∈ m.refs, present (runHist cfg St.empty ops).store p = true := by
    cases hg : get (runHist cfg St.empty ops).store (.ver (manifestName cfg.sch v)) with
    | none => rw [hg] at hm'; cases hm'
    | some o =>
      rw [hg] at hm'
      cases o with
      | man m' => simp only [manOf, Option.some.injEq] at hm'; subst hm'; exact hI.closed _ _ hg
      | cols _ => cases hm'
      | dels _ => cases hm'
      | blob => cases hm'
  refine ⟨hcl, ?_⟩
  unfold read
  rw [hm]
  have : (derefs (runHist cfg St.empty ops).store m).all (fun e => e.2.isSome) = true := by
    simp only [derefs, List.all_map, List.all_eq_true]
    intro p hp; exact hcl p hp
  simp only [this, if_true]

/-- **dense.**  Without cleanup, after any history of programs under any faults, the published versions are exactly
    1..N, N is what latest-resolution answers, and each of them holds a manifest carrying its own number. -/
theorem dense (cfg : Cfg) (ops : List Prog) :
    ∃ N, N < 2 ^ 63 ∧ latestN (runHist cfg St.empty ops).store = N ∧
      (∀ v, v ∈ versions (runHist cfg St.empty ops).store ↔ 1 ≤ v ∧ v ≤ N) ∧
      (∀ v, 1 ≤ v → v ≤ N → ∃ m, manifestAt (runHist cfg St.empty ops).store v = some m ∧ m.version = v) := by
  have hI := inv_runHist cfg ops St.empty (inv_empty cfg)
  obtain ⟨N, hN, hd⟩ := hI.dense
  refine ⟨N, hN, (latest_of_dense hI hN hd).1, fun v => ?_, fun v h1 h2 => ?_⟩
  · rw [mem_versions hI v]
    constructor
    · rintro ⟨hv, hp⟩; exact (hd v hv).1 hp
    · rintro ⟨h1, h2⟩; exact ⟨by omega, (hd v (by omega)).2 ⟨h1, h2⟩⟩
  · have hv : v < 2 ^ 63 := by omega
    have hp := (hd v hv).2 ⟨h1, h2⟩
    obtain ⟨o, ho⟩ := (present_iff _ _).1 hp
    obtain ⟨m, rfl, hmv⟩ := hI.typed v o hv ho
    exact ⟨m, by rw [manifestAt_eq hI v (by omega), ho]; rfl, hmv⟩

/-- the same for one more operation on any table that satisfies the invariant: it ends with the versions 1..N' for
    N' ≥ N (monotone), whatever fault hits it -/
theorem monotone (cfg : Cfg) (st : St) (hI : Inv cfg st) (p : Prog) :
    latestN st.store ≤ latestN (stepOp cfg st p).1.store ∧
      ∀ v, v ∈ versions st.store → v ∈ versions (stepOp cfg st p).1.store ∧
        (v < 2 ^ 64 → read (stepOp cfg st p).1.store v = read st.store v) := by
  have h0 : J cfg st.uid p.ids [] st.store :=
    ⟨hI.fresh, hI.wpres, (fun q hq => by cases hq), hI.closed, hI.wf, hI.dense, hI.typed⟩
  -- generalised over the run
  have key : ∀ (calls : List Call) (W : List Path) (s : Store) (f : Option (Nat × Fault)), J cfg st.uid p.ids W s →
      latestN s ≤ latestN (runCalls cfg st.uid p.ids W s calls f).1 ∧
        ∀ v, v ∈ versions s → v ∈ versions (runCalls cfg st.uid p.ids W s calls f).1 ∧
          (v < 2 ^ 64 → read (runCalls cfg st.uid p.ids W s calls f).1 v = read s v) := by
    intro calls
    induction calls with
    | nil => intro W s f _; exact ⟨Nat.le_refl _, fun v hv => ⟨hv, fun _ => rfl⟩⟩
    | cons c cs ih =>
      intro W s f h
      have stay : latestN s ≤ latestN s ∧ ∀ v, v ∈ versions s → v ∈ versions s ∧ (v < 2 ^ 64 → read s v = read s v) :=
        ⟨Nat.le_refl _, fun v hv => ⟨hv, fun _ => rfl⟩⟩
      have one : ∀ s', exec cfg s c = some s' → guard cfg st.uid p.ids W s c = true →
          latestN s ≤ latestN s' ∧ ∀ v, v ∈ versions s → v ∈ versions s' ∧ (v < 2 ^ 64 → read s' v = read s v) := by
        intro s' he hg
        cases hpub : c.isPub with
        | false =>
          have q := quiet_obs h hpub hg he
          refine ⟨by simp [latestN, q.2.1], fun v hv => ⟨by rw [q.1]; exact hv, fun hv64 => q.2.2 v hv64⟩⟩
        | true =>
          obtain ⟨v0, m, _, habs, _, _, hothers, hcase⟩ := publish_next h hpub hg he
          have hnot : ∀ v, v ∈ versions s → v ≠ v0 := by
            intro v hv e
            subst e
            have := ((mem_versions h v).1 hv).2
            rw [habs] at this; cases this
          rcases hcase with ⟨_, h1, h2, h3⟩ | ⟨_, h2, h3⟩
          · refine ⟨by omega, fun v hv => ⟨(h3 v).2 (Or.inl hv), fun hv64 => hothers v hv64 (hnot v hv)⟩⟩
          · refine ⟨by omega, fun v hv => ⟨(h3 v).2 hv, fun hv64 => hothers v hv64 (hnot v hv)⟩⟩
      have chain : ∀ s' W' f', exec cfg s c = some s' → guard cfg st.uid p.ids W s c = true →
          J cfg st.uid p.ids W' s' →
          latestN s ≤ latestN (runCalls cfg st.uid p.ids W' s' cs f').1 ∧
            ∀ v, v ∈ versions s → v ∈ versions (runCalls cfg st.uid p.ids W' s' cs f').1 ∧
              (v < 2 ^ 64 → read (runCalls cfg st.uid p.ids W' s' cs f').1 v = read s v) := by
        intro s' W' f' he hg hJ'
        have a := one s' he hg
        have b := ih W' s' f' hJ'
        refine ⟨Nat.le_trans a.1 b.1, fun v hv => ?_⟩
        have a2 := a.2 v hv
        have b2 := b.2 v a2.1
        exact ⟨b2.1, fun hv64 => (b2.2 hv64).trans (a2.2 hv64)⟩
      unfold runCalls
      by_cases hg : guard cfg st.uid p.ids W s c = true
      · simp only [hg, Bool.true_eq_false, if_false]
        match f with
        | some (0, .crash) => exact stay
        | some (0, .failBefore) => exact stay
        | some (0, .lost) =>
          cases he : exec cfg s c with
          | none => exact stay
          | some s' => exact one s' he hg
        | some (k + 1, fl) =>
          cases he : exec cfg s c with
          | none => exact stay
          | some s' => exact chain s' _ _ he hg (J_exec h hg he)
        | none =>
          cases he : exec cfg s c with
          | none => exact stay
          | some s' => exact chain s' _ _ he hg (J_exec h hg he)
      · have : guard cfg st.uid p.ids W s c = false := by cases hx : guard cfg st.uid p.ids W s c <;> simp_all
        rw [if_pos this]
        exact stay
  exact key p.calls [] st.store p.fault h0

/-! ## (iv) detached commits never become the latest version -/

theorem scanLoop_mem (first : Scheme) : ∀ (cs : List C33.Cand) (cur : Nat) (cn : Name) (v : Nat) (n : Name) (s : Scheme),
    C33.scanLoop first cur cn cs = .ok v n s → (v = cur ∧ n = cn) ∨ ∃ c ∈ cs, c.version = v ∧ c.name = n := by
  intro cs
  induction cs with
  | nil => intro cur cn v n s h; simp only [C33.scanLoop] at h; cases h; exact Or.inl ⟨rfl, rfl⟩
  | cons c t ih =>
    intro cur cn v n s h
    simp only [C33.scanLoop] at h
    split at h
    · cases h
    · split at h
      · rcases ih _ _ _ _ _ h with ⟨a, b⟩ | ⟨c', hc', hh⟩
        · exact Or.inr ⟨c, by simp, a.symm, b.symm⟩
        · exact Or.inr ⟨c', by simp [hc'], hh⟩
      · rcases ih _ _ _ _ _ h with a | ⟨c', hc', hh⟩
        · exact Or.inl a
        · exact Or.inr ⟨c', by simp [hc'], hh⟩

/-- whatever `current_manifest_path` answers is a listed name that parses to the answered version -/
theorem path_answer_is_candidate (lex : Bool) (L : List Name) (v : Nat) (n : Name) (s : Scheme)
    (h : C33.currentManifestPath lex L = .ok v n s) : n ∈ L ∧ ∃ s', cand n = some ⟨s', v, n⟩ := by
  have key : ∃ c ∈ C33.valid L, c.version = v ∧ c.name = n := by
    unfold C33.currentManifestPath at h
    cases hv : C33.valid L with
    | nil => rw [hv] at h; cases h
    | cons c rest =>
      rw [hv] at h
      simp only at h
      split at h
      · cases h; exact ⟨c, by simp, rfl, rfl⟩
      · rcases scanLoop_mem _ _ _ _ _ _ _ h with ⟨a, b⟩ | ⟨c', hc', hh⟩
        · exact ⟨c, by simp, a.symm, b.symm⟩
        · exact ⟨c', by simp [hc'], hh⟩
  obtain ⟨c, hc, hcv, hcn⟩ := key
  obtain ⟨n', hn', hcand⟩ := C33.Latest.mem_valid.1 hc
  have := C33.Latest.cand_name hcand
  rw [hcn] at this; subst this
  refine ⟨hn', c.scheme, ?_⟩
  rw [hcand]; cases c; simp_all

/-- **detached_never_latest** (listing path of `resolve_latest_location`, every store that is not a local directory).
    For ANY content of `_versions/`, in any listing order: the answer is never a detached manifest — its name does not
    start with `d`, it is the name of no detached version under either scheme — and it is never a staging file. -/
theorem detached_never_latest (lex : Bool) (L : List Name) (v : Nat) (n : Name) (s : Scheme)
    (h : C33.currentManifestPath lex L = .ok v n s) :
    n ∈ L ∧ C33.startsWithD n = false ∧
      (∀ s' w, 2 ^ 63 ≤ w → w < 2 ^ 64 → n ≠ manifestName s' w) ∧
      (∀ s' w u, w < 2 ^ 64 → n ≠ manifestName s' w ++ '-' :: dec u) := by
  obtain ⟨hin, s0, hc⟩ := path_answer_is_candidate lex L v n s h
  refine ⟨hin, ?_, ?_, ?_⟩
  · cases hd : C33.startsWithD n with
    | false => rfl
    | true =>
      cases n with
      | nil => simp [C33.startsWithD] at hd
      | cons a t =>
        have : a = 'd' := by
          simp only [C33.startsWithD] at hd
          split at hd <;> simp_all
        subst this
        have := C33.noise_d t
        rw [Noise, hc] at this; cases this
  · intro s' w h1 h2 e
    have := C33.noise_detached s' w h1 h2
    rw [Noise, ← e, hc] at this; cases this
  · intro s' w u hw e
    have := stage_noise s' w u hw
    rw [← e, hc] at this; cases this

/-- if the directory was written by lance — every name is a manifest name of some 64-bit version (attached or detached,
    either scheme) or carries no version at all (staging, temporary, foreign files) — the answered VERSION NUMBER never
    has the detached bit -/
theorem latest_version_attached (lex : Bool) (L : List Name) (v : Nat) (n : Name) (s : Scheme)
    (hL : ∀ x ∈ L, (∃ s' w, w < 2 ^ 64 ∧ x = manifestName s' w) ∨ cand x = none)
    (h : C33.currentManifestPath lex L = .ok v n s) : v < 2 ^ 63 ∧ isDetached v = false := by
  obtain ⟨hin, s0, hc⟩ := path_answer_is_candidate lex L v n s h
  rcases hL n hin with ⟨s', w, hw, rfl⟩ | hn
  · by_cases h63 : w < 2 ^ 63
    · rw [attached_cand s' w h63] at hc
      injection hc with hc
      injection hc with _ hv _
      subst hv
      exact ⟨h63, C33.Names.isDetached_false _ h63⟩
    · have := C33.noise_detached s' w (by omega) hw
      rw [Noise, hc] at this; cases this
  · rw [hn] at hc; cases hc

/-- the same for the tables of this model: after any history with detached commits, crashes and failures, `latest` is
    an attached version (the N of `dense`) -/
theorem latest_attached_hist (cfg : Cfg) (ops : List Prog) (v : Nat) (n : Name) (s : Scheme)
    (h : latest (runHist cfg St.empty ops).store = .ok v n s) : v < 2 ^ 63 ∧ isDetached v = false := by
  have hI := inv_runHist cfg ops St.empty (inv_empty cfg)
  refine latest_version_attached false (names (runHist cfg St.empty ops).store) v n s ?_ h
  intro x hx
  rcases hI.wf x ((mem_names _ x).1 hx) with ⟨w, hw, rfl⟩ | hn
  · exact Or.inl ⟨cfg.sch, w, by omega, rfl⟩
  · exact Or.inr hn

/-- "for any directory content" cannot be strengthened to the version NUMBER: a foreign file `9223372036854775808.manifest`
    (never written by lance: detached manifests are named `d<version>.manifest`) parses as V1 version 2^63.  This is
    outside the property (the directory is not a lance table). -/
theorem foreign_name_counterexample :
    C33.currentManifestPath false ["9223372036854775808.manifest".toList] =
      .ok (2 ^ 63) "9223372036854775808.manifest".toList .V1 := by decide

/-! ## non-vacuity: concrete programs -/

def exCfg : Cfg := ⟨.V2, .rename⟩

def exManifest : Manifest :=
  { version := 1, fields := [0], nextField := 1, frags := [⟨0, [⟨0, [0]⟩], none, 2⟩], nextFrag := 1, indices := [],
    cfg := none, txn := 1 }

/-- `create` of a one-fragment table through the rename handler: data file, transaction file, staging manifest, rename -/
def exCreate : List Call :=
  [.put (.file .data 0 0) (.cols [(0, [some 1, some 2])]), .put (.file .txn 1 0) .blob,
   .stage 0 1 2 exManifest, .pubRename 0 1 2 exManifest]

-- the unfaulted program publishes version 1, and version 1 reads as the two rows
example : (runCalls exCfg 0 9 [] [] exCreate none).2 = .done := by decide
example : versions (runCalls exCfg 0 9 [] [] exCreate none).1 = [1] := by decide
example : (read (runCalls exCfg 0 9 [] [] exCreate none).1 1).map (·.rows) = some [[some 1], [some 2]] := by decide
-- a crash at the rename (call 3) leaves the staging file and nothing visible; the hypotheses of `commit_point` hold
example : ∀ c ∈ exCreate.take 3, c.isPub = false := by decide
example : versions (runCalls exCfg 0 9 [] [] exCreate (some (3, .crash))).1 = [] := by decide
example : latest (runCalls exCfg 0 9 [] [] exCreate (some (3, .crash))).1 = .notFound := by decide
-- a lost response AT the commit call publishes: the commit point has passed
example : versions (runCalls exCfg 0 9 [] [] exCreate (some (3, .lost))).1 = [1] := by decide
-- `atomic_run` applies: one commit call, preceded and followed by quiet calls only
example : exCreate = [exCreate[0], exCreate[1], exCreate[2]] ++ exCreate[3] :: [] := rfl
example : (exCreate[3]).isPub = true := by decide
-- a manifest that names a file the program did not write is rejected by the model's precondition, not silently accepted
example : (runCalls exCfg 0 9 [] [] (exCreate.drop 1) none).2 = .invalid := by decide

end LanceModel.C01
