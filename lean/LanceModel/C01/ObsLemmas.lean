import LanceModel.C01.InvLemmas
/-
C01 — what a reader observes (`versions`, `latest`, `read`) before and after one storage call.
-/
namespace LanceModel.C01
open LanceModel.C33 (Name Scheme manifestName isDetached dec cand)
open LanceModel.C33.Latest (IsAttached Noise WF IsLatest)

theorem refs_file (m : Manifest) (q : Path) (hq : q ∈ m.refs) : ∃ c id sub, q = Path.file c id sub := by
  simp only [Manifest.refs, List.mem_append, List.mem_flatMap, List.mem_singleton] at hq
  rcases hq with (⟨f, _, hf⟩ | ⟨i, _, hi⟩) | rfl
  · simp only [Frag.refs, List.mem_append, List.mem_map] at hf
    rcases hf with ⟨d, _, rfl⟩ | hf
    · exact ⟨_, _, _, rfl⟩
    · cases hdel : f.del with
      | none => rw [hdel] at hf; cases hf
      | some d => rw [hdel] at hf; simp only [List.mem_singleton] at hf; exact ⟨_, _, _, hf⟩
  · simp only [Index.refs, List.mem_map] at hi
    obtain ⟨k, _, rfl⟩ := hi
    exact ⟨_, _, _, rfl⟩
  · exact ⟨_, _, _, rfl⟩

/-- the published versions are the occupied slots -/
theorem mem_versions {cfg : Cfg} {uid0 bound : Nat} {W : List Path} {s : Store} (h : J cfg uid0 bound W s) (v : Nat) :
    v ∈ versions s ↔ v < 2 ^ 63 ∧ present s (finalPath cfg.sch v) = true := by
  simp only [versions, C33.versions, List.mem_map]
  constructor
  · rintro ⟨c, hc, rfl⟩
    obtain ⟨w, hw, rfl, hin⟩ := C33.Latest.valid_wf (wf_names h) hc
    exact ⟨hw, (mem_names s _).1 hin⟩
  · rintro ⟨hv, hp⟩
    exact ⟨_, C33.Latest.attached_mem_valid hv ((mem_names s _).2 hp), rfl⟩

/-- `read` depends on the store only through the manifest of the version and the files that manifest names -/
theorem read_congr (s s' : Store) (v : Nat) (hm : manifestAt s' v = manifestAt s v)
    (hr : ∀ m, manifestAt s v = some m → ∀ p ∈ m.refs, get s' p = get s p) : read s' v = read s v := by
  unfold read
  rw [hm]
  cases hmm : manifestAt s v with
  | none => rfl
  | some m =>
    have : derefs s' m = derefs s m := by
      unfold derefs
      exact List.map_congr_left (fun p hp => by rw [hr m hmm p hp])
    simp only [this]

/-- reading a version whose slot and files are untouched -/
theorem read_stable {cfg : Cfg} {uid0 bound : Nat} {W W' : List Path} {s s' : Store} (h : J cfg uid0 bound W s)
    (h' : J cfg uid0 bound W' s') (v : Nat) (hv : v < 2 ^ 64)
    (hslot : get s' (finalPath cfg.sch v) = get s (finalPath cfg.sch v))
    (hfiles : ∀ c id sub, present s (.file c id sub) = true → get s' (.file c id sub) = get s (.file c id sub)) :
    read s' v = read s v := by
  apply read_congr
  · rw [manifestAt_eq h v hv, manifestAt_eq h' v hv, hslot]
  · intro m hm p hp
    rw [manifestAt_eq h v hv] at hm
    cases hg : get s (finalPath cfg.sch v) with
    | none => rw [hg] at hm; cases hm
    | some o =>
      rw [hg] at hm
      cases o with
      | man m' =>
        simp only [manOf, Option.some.injEq] at hm; subst hm
        obtain ⟨c, id, sub, rfl⟩ := refs_file m' p hp
        exact hfiles c id sub (h.closed _ m' hg _ hp)
      | cols _ => cases hm
      | dels _ => cases hm
      | blob => cases hm

/-- a call that is not a commit point changes nothing a reader can see -/
theorem quiet_obs {cfg : Cfg} {uid0 bound : Nat} {W : List Path} {s s' : Store} (h : J cfg uid0 bound W s)
    {c : Call} (hq : c.isPub = false) (hg : guard cfg uid0 bound W s c = true) (he : exec cfg s c = some s') :
    versions s' = versions s ∧ latest s' = latest s ∧ ∀ v, v < 2 ^ 64 → read s' v = read s v := by
  have h' := J_exec h hg he
  have putFile : ∀ (p : Path) (o : Obj), freshFile uid0 bound W p = true → J cfg uid0 bound (W ++ [p]) (put s p o) →
      versions (put s p o) = versions s ∧ latest (put s p o) = latest s ∧
        ∀ v, v < 2 ^ 64 → read (put s p o) v = read s v := by
    intro p o hf hJ
    have habs := fresh_absent h hf
    obtain ⟨c, id, sub, rfl, _⟩ := freshFile_spec hf
    refine ⟨versions_put_file s c id sub o, latest_put_file s c id sub o, fun v hv => ?_⟩
    apply read_stable h hJ v hv
    · unfold finalPath; rw [get_put]; simp
    · intro c' id' sub' hp
      rw [get_put]
      by_cases e : Path.file c id sub = Path.file c' id' sub'
      · rw [← e, habs] at hp; cases hp
      · simp [e]
  cases c with
  | put p o =>
    simp only [exec, Option.some.injEq] at he; subst he
    exact putFile p o hg h'
  | copy src dst =>
    simp only [exec] at he
    cases hs : get s src with
    | none => rw [hs] at he; cases he
    | some o =>
      rw [hs] at he; simp only [Option.some.injEq] at he; subst he
      exact putFile dst o hg h'
  | stage base v u m =>
    simp only [exec, Option.some.injEq] at he; subst he
    simp only [guard, Bool.and_eq_true] at hg
    have hv64 : v < 2 ^ 64 := by
      rcases targetOk_spec h hg.1 with ⟨_, h64⟩ | ⟨_, h63, _⟩
      · exact h64
      · omega
    have hn := stage_noise cfg.sch v u hv64
    refine ⟨versions_put_noise s _ _ hn, latest_put_noise s _ _ hn, fun w hw => ?_⟩
    simp only [Call.target, List.append_nil] at h'
    apply read_stable h h' w hw
    · unfold finalPath stagePath; rw [get_put]
      have : ¬ (Path.ver (manifestName cfg.sch v ++ '-' :: dec u) = Path.ver (manifestName cfg.sch w)) :=
        fun e => stage_ne_manifest cfg.sch cfg.sch v w u hw (Path.ver.inj e)
      simp [this]
    · intro c' id' sub' _
      unfold stagePath; rw [get_put]; simp
  | pubCreate _ _ _ => cases hq
  | pubLocked _ _ _ => cases hq
  | pubRename _ _ _ _ => cases hq

/-- the store after a successful commit call, as far as `_versions/` slots and files are concerned -/
theorem pub_effect {cfg : Cfg} {uid0 bound : Nat} {W : List Path} {s s' : Store} (h : J cfg uid0 bound W s)
    {c : Call} (hp : c.isPub = true) (hg : guard cfg uid0 bound W s c = true) (he : exec cfg s c = some s') :
    ∃ v m, targetOk s v = true ∧ m.version = v ∧ get s' (finalPath cfg.sch v) = some (.man m) ∧
      present s (finalPath cfg.sch v) = false ∧
      (∀ w, w < 2 ^ 64 → finalPath cfg.sch w ≠ finalPath cfg.sch v →
        get s' (finalPath cfg.sch w) = get s (finalPath cfg.sch w)) ∧
      (∀ c id sub, get s' (.file c id sub) = get s (.file c id sub)) := by
  have plain : ∀ v m, present s (finalPath cfg.sch v) = false →
      (∀ w, w < 2 ^ 64 → finalPath cfg.sch w ≠ finalPath cfg.sch v →
        get (put s (finalPath cfg.sch v) (.man m)) (finalPath cfg.sch w) = get s (finalPath cfg.sch w)) ∧
      (∀ c id sub, get (put s (finalPath cfg.sch v) (.man m)) (.file c id sub) = get s (.file c id sub)) := by
    intro v m _
    refine ⟨fun w _ hne => ?_, fun c id sub => ?_⟩
    · rw [get_put]; simp [hne.symm]
    · unfold finalPath; rw [get_put]; simp
  cases c with
  | put _ _ => cases hp
  | copy _ _ => cases hp
  | stage _ _ _ _ => cases hp
  | pubCreate base v m =>
    simp only [guard, Bool.and_eq_true, decide_eq_true_eq] at hg
    simp only [exec] at he
    split at he
    · cases he
    · rename_i hab
      simp only [Option.some.injEq] at he; subst he
      have hab' : present s (finalPath cfg.sch v) = false := by
        cases hx : present s (finalPath cfg.sch v) <;> simp_all
      exact ⟨v, m, hg.1.1, hg.1.2, by rw [get_put]; simp, hab', (plain v m hab').1, (plain v m hab').2⟩
  | pubLocked base v m =>
    simp only [guard, Bool.and_eq_true, decide_eq_true_eq] at hg
    simp only [exec] at he
    split at he
    · cases he
    · rename_i hab
      simp only [Option.some.injEq] at he; subst he
      have hab' : present s (finalPath cfg.sch v) = false := by
        cases hx : present s (finalPath cfg.sch v) <;> simp_all
      exact ⟨v, m, hg.1.1, hg.1.2, by rw [get_put]; simp, hab', (plain v m hab').1, (plain v m hab').2⟩
  | pubRename base v u m =>
    simp only [guard, Bool.and_eq_true, decide_eq_true_eq] at hg
    simp only [exec, hg.2] at he
    split at he
    · cases he
    · rename_i hab
      simp only [Option.some.injEq] at he; subst he
      have hab' : present s (finalPath cfg.sch v) = false := by
        cases hx : present s (finalPath cfg.sch v) <;> simp_all
      refine ⟨v, m, hg.1.1, hg.1.2, by rw [get_put]; simp, hab', fun w hw hne => ?_, fun c id sub => ?_⟩
      · rw [get_put]
        simp only [hne.symm, if_false]
        unfold stagePath finalPath
        rw [get_erase]
        have : ¬ (Path.ver (manifestName cfg.sch v ++ '-' :: dec u) = Path.ver (manifestName cfg.sch w)) :=
          fun e => stage_ne_manifest cfg.sch cfg.sch v w u hw (Path.ver.inj e)
        simp [this]
      · unfold finalPath stagePath
        rw [get_put]
        simp only [reduceCtorEq, if_false]
        rw [get_erase]; simp

end LanceModel.C01
