import LanceModel.C01.Driver
def main : IO Unit := LanceModel.Util.runDriver LanceModel.C01.Driver.step LanceModel.C01.Driver.init
