import LanceModel.C07.StepLemmas
/-
C07: the two high-water marks never go down from one published version to the next
(docs/src/format/table/row_id_lineage.md: "a monotonically increasing `next_row_id` counter stored in the manifest").
-/
namespace LanceModel.C07
open LanceModel.Table

/-- mark `a` is at most mark `b` (`None` below everything, as `Option<u32>` orders) -/
def hwLe (a b : Option Nat) : Prop := ∀ i, fragBound a i → fragBound b i

theorem hwLe_refl (a : Option Nat) : hwLe a a := fun _ h => h

theorem hwLe_trans {a b c : Option Nat} (h1 : hwLe a b) (h2 : hwLe b c) : hwLe a c := fun i h => h2 i (h1 i h)

/-- a successful step publishes a manifest whose marks are at least the previous latest's -/
theorem step_marks_mono {h h' : Hist} {op : Op} (hst : (stepG true (some h) op).1 = some h') :
    h' = h ∨ (h'.older = h.versions ∧ h.latest.nextRowId ≤ h'.latest.nextRowId ∧
              hwLe h.latest.maxFragId h'.latest.maxFragId) := by
  cases op with
  | create stable f k rows =>
    simp only [stepG] at hst; cases hst; exact Or.inl rfl
  | append f rows =>
    simp only [stepG] at hst
    split at hst
    · cases hst; exact Or.inl rfl
    · split at hst
      · cases hst; exact Or.inl rfl
      · cases hst
        exact Or.inr ⟨rfl, by simp only [Hist.push]; exact next_le_bumpNext _ _ _, fun i hb => updateMax_mono hb⟩
  | overwrite f k rows =>
    simp only [stepG] at hst
    split at hst
    · cases hst; exact Or.inl rfl
    · cases hst
      exact Or.inr ⟨rfl, by simp only [Hist.push]; exact next_le_bumpNext _ _ _, fun i hb => updateMax_mono hb⟩
  | delete p =>
    simp only [stepG] at hst
    cases hst
    exact Or.inr ⟨rfl, Nat.le_refl _, fun i hb => updateMax_mono hb⟩
  | restore v =>
    simp only [stepG] at hst
    split at hst
    · cases hst; exact Or.inl rfl
    · cases hst
      refine Or.inr ⟨rfl, ?_, ?_⟩
      · simp only [Hist.push, restored, if_true]; omega
      · intro i hb; simp only [Hist.push, restored, if_true]; exact optMax_right hb
  | restoreAt hv v =>
    simp only [stepG] at hst
    split at hst
    · cases hst; exact Or.inl rfl
    · split at hst
      · cases hst; exact Or.inl rfl
      · cases hst
        refine Or.inr ⟨rfl, ?_, ?_⟩
        · simp only [Hist.push, restored, if_true]; omega
        · intro i hb; simp only [Hist.push, restored, if_true]; exact optMax_right hb

/-- newest first, every manifest's marks are at least those of every older one -/
def Mono (h : Hist) : Prop :=
  h.versions.Pairwise (fun newer older => older.nextRowId ≤ newer.nextRowId ∧ hwLe older.maxFragId newer.maxFragId)

theorem mono_step {h h' : Hist} {op : Op} (hm : Mono h) (hst : (stepG true (some h) op).1 = some h') : Mono h' := by
  rcases step_marks_mono hst with rfl | ⟨ho, hn, hf⟩
  · exact hm
  · unfold Mono at hm ⊢
    have hv : h'.versions = h'.latest :: h.versions := by simp [Hist.versions, ho]
    rw [hv, List.pairwise_cons]
    refine ⟨?_, hm⟩
    intro m hmem
    simp only [Hist.versions, List.mem_cons] at hmem
    rcases hmem with rfl | hmem
    · exact ⟨hn, hf⟩
    · simp only [Hist.versions, List.pairwise_cons] at hm
      have := hm.1 m hmem
      exact ⟨by omega, hwLe_trans this.2 hf⟩

theorem mono_runG (ops : List Op) {s : Option Hist} (hs : ∀ h, s = some h → Mono h) :
    ∀ h, runG true s ops = some h → Mono h := by
  induction ops generalizing s with
  | nil => exact hs
  | cons op ops ih =>
    refine ih ?_
    intro h' hst
    cases s with
    | none =>
      cases op with
      | create stable f k rows =>
        by_cases hf : f = 0
        · simp [stepG, hf] at hst
        · simp only [stepG, hf, if_false] at hst
          cases hst
          simp [Mono, Hist.versions]
      | append f rows => simp [stepG] at hst
      | overwrite f k rows => simp [stepG] at hst
      | delete p => simp [stepG] at hst
      | restore v => simp [stepG] at hst
      | restoreAt hv v => simp [stepG] at hst
    | some h => exact mono_step (hs h rfl) hst

end LanceModel.C07
