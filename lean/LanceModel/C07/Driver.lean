import LanceModel.Util
import LanceModel.Table.Basic
import LanceModel.C07.Model
/-
C07 driver.  Op lines (grammar: top of harness/src/bin/c07.rs)

  create s=<0|1> f=<nat> k=<K> <rows> | append f=<nat> <rows> | overwrite f=<nat> k=<K> <rows>
  delete lt <int> | delete ge <int> | delete in <int,…> | delete all | restore <v> | restore@<h> <v>

→ `ok v=<version> k=<K> nrid=<next_row_id> mfid=<max_fragment_id|none> frags=<id:rows:dels,…> scan=<rows with _rowid>`,
`err <kind>` or `err parse`.  The state is the model history of the case.
-/
namespace LanceModel.C07.Driver
open LanceModel.Util LanceModel.Table LanceModel.C07

abbrev St := Option Hist

/-- `parse_nat` of the harness: 1–19 ASCII digits -/
def parseNat (s : String) : Option Nat :=
  if s.length > 19 then none else parseNatChars s.toList

def tokVal (key tok : String) : Option String :=
  if tok.startsWith (key ++ "=") then some (String.ofList (tok.toList.drop (key.length + 1))) else none

def parseK (s : String) : Option Nat :=
  match parseNat s with
  | some k => if 1 ≤ k ∧ k ≤ 4 then some k else none
  | none => none

/-- rows of one width: the given one, else that of the first row -/
def rowsOfWidth (s : String) (k : Option Nat) : Option (List Row) :=
  match parseRows s with
  | none => none
  | some rows =>
    match k with
    | some k => if rows.all (fun r => r.length == k) then some rows else none
    | none =>
      match rows with
      | [] => some []
      | r :: _ => if rows.all (fun x => x.length == r.length) then some rows else none

def parseInt (s : String) : Option Int :=
  match parseCell s with
  | some (some v) => some v
  | _ => none

def parseOp (line : String) : Option Op :=
  match splitTokens line with
  | ["create", s, f, k, rows] => do
    let sv ← tokVal "s" s
    let stable ← (if sv = "0" then some false else if sv = "1" then some true else none)
    let f ← (tokVal "f" f) >>= parseNat
    let k ← (tokVal "k" k) >>= parseK
    let rows ← rowsOfWidth rows (some k)
    some (.create stable f k rows)
  | ["append", f, rows] => do
    let f ← (tokVal "f" f) >>= parseNat
    let rows ← rowsOfWidth rows none
    some (.append f rows)
  | ["overwrite", f, k, rows] => do
    let f ← (tokVal "f" f) >>= parseNat
    let k ← (tokVal "k" k) >>= parseK
    let rows ← rowsOfWidth rows (some k)
    some (.overwrite f k rows)
  | ["delete", "all"] => some (.delete .all)
  | ["delete", "lt", x] => (parseInt x).map fun v => .delete (.lt v)
  | ["delete", "ge", x] => (parseInt x).map fun v => .delete (.ge v)
  | ["delete", "in", xs] => ((xs.splitOn ",").mapM parseInt).map fun vs => .delete (.isIn vs)
  | ["restore", v] => (parseNat v).map .restore
  | [r, v] =>
    if r.startsWith "restore@" then do
      let hv ← parseNat (String.ofList (r.toList.drop 8))
      let v ← parseNat v
      some (.restoreAt hv v)
    else none
  | _ => none

def showHist (h : Hist) : String :=
  "ok v=" ++ toString h.latest.version ++ " k=" ++ toString h.latest.k ++ " nrid=" ++ toString h.latest.nextRowId
    ++ " mfid=" ++ (match h.latest.maxFragId with | none => "none" | some m => toString m)
    ++ " frags=" ++ showFrags (fragInfo h.latest) ++ " scan=" ++ showRows (scan h.stable h.latest)

def step (s : St) (line : String) : St × String :=
  match parseOp line with
  | none => (s, "err parse")
  | some op =>
    match LanceModel.C07.step s op with
    | (s', .ok) =>
      match s' with
      | some h => (s', showHist h)
      | none => (s', "err model")
    | (s', .err k) => (s', "err " ++ k)

end LanceModel.C07.Driver
