import LanceModel.C07.StepLemmas
/-
C07: in every reachable history every version lists its fragments with strictly increasing ids.  This is why the
model may omit build_manifest's final `final_fragments.sort_by_key(|frag| frag.id)`: it is the identity here.
-/
namespace LanceModel.C07
open LanceModel.Table

def SortedIds (frags : List Frag) : Prop := (frags.map (·.id)).Pairwise (· < ·)

theorem assignFragIds_sorted (start : Nat) (files : List (List PRow)) : SortedIds (assignFragIds start files) := by
  induction files generalizing start with
  | nil => simp [SortedIds, assignFragIds]
  | cons x xs ih =>
    simp only [SortedIds, assignFragIds, List.map_cons, List.pairwise_cons]
    refine ⟨?_, ih (start + 1)⟩
    intro i hi
    obtain ⟨g, hg, rfl⟩ := List.mem_map.mp hi
    have := (mem_assignFragIds hg).1
    omega

theorem deleteFrags_ids_sublist (p : Pred) (frags : List Frag) :
    ((deleteFrags p frags).map (·.id)).Sublist (frags.map (·.id)) := by
  unfold deleteFrags
  split
  · simp
  · induction frags with
    | nil => simp
    | cons f fs ih =>
      simp only [List.filterMap_cons]
      split
      · exact List.Sublist.trans ih (by simp)
      · rename_i g hg
        have := (deleteFrag_ids hg).1
        simp only [List.map_cons, this]
        exact List.Sublist.cons_cons _ ih

structure SInv (h : Hist) : Prop where
  sorted : ∀ m ∈ h.versions, SortedIds m.frags

theorem sinv_push {h : Hist} {m' : Manifest} (hi : SInv h) (hs : SortedIds m'.frags) : SInv (h.push m') := by
  refine ⟨?_⟩
  intro m hm
  rw [versions_push, List.mem_cons] at hm
  rcases hm with rfl | hm
  · exact hs
  · exact hi.sorted m hm

theorem sinv_step {h h' : Hist} {op : Op} (hi : SInv h) (hf : FInv h)
    (hst : (stepG true (some h) op).1 = some h') : SInv h' := by
  cases op with
  | create stable f k rows =>
    simp only [stepG] at hst; cases hst; exact hi
  | append f rows =>
    simp only [stepG] at hst
    split at hst
    · cases hst; exact hi
    · split at hst
      · cases hst; exact hi
      · cases hst
        refine sinv_push hi ?_
        simp only [SortedIds, List.map_append, List.pairwise_append]
        refine ⟨hi.sorted h.latest (latest_mem h), assignFragIds_sorted _ _, ?_⟩
        intro a ha b hb
        obtain ⟨f1, hf1, rfl⟩ := List.mem_map.mp ha
        obtain ⟨g, hg, rfl⟩ := List.mem_map.mp hb
        obtain ⟨hw, hhw, hle⟩ := hf.fbound h.latest (latest_mem h) f1 hf1
        have := (mem_assignFragIds hg).1
        rw [hhw] at this
        simp only [startId] at this
        omega
  | overwrite f k rows =>
    simp only [stepG] at hst
    split at hst
    · cases hst; exact hi
    · cases hst
      exact sinv_push hi (assignFragIds_sorted _ _)
  | delete p =>
    simp only [stepG] at hst
    cases hst
    refine sinv_push hi ?_
    exact List.Pairwise.sublist (deleteFrags_ids_sublist p h.latest.frags) (hi.sorted h.latest (latest_mem h))
  | restore v =>
    simp only [stepG] at hst
    split at hst
    · cases hst; exact hi
    · rename_i old hl
      cases hst
      exact sinv_push hi (hi.sorted old (lookup_mem hl).1)
  | restoreAt hv v =>
    simp only [stepG] at hst
    split at hst
    · cases hst; exact hi
    · split at hst
      · cases hst; exact hi
      · rename_i old hl
        cases hst
        exact sinv_push hi (hi.sorted old (lookup_mem hl).1)

theorem sinv_runG (ops : List Op) {s : Option Hist} (hg : Good s) (hs : ∀ h, s = some h → SInv h) :
    ∀ h, runG true s ops = some h → SInv h := by
  induction ops generalizing s with
  | nil => exact hs
  | cons op ops ih =>
    refine ih (good_step op hg) ?_
    intro h' hst
    cases s with
    | none =>
      cases op with
      | create stable f k rows =>
        by_cases hf : f = 0
        · simp [stepG, hf] at hst
        · simp only [stepG, hf, if_false] at hst
          cases hst
          refine ⟨?_⟩
          intro m hm
          simp only [Hist.versions, List.mem_singleton] at hm
          subst hm
          exact assignFragIds_sorted _ _
      | append f rows => simp [stepG] at hst
      | overwrite f k rows => simp [stepG] at hst
      | delete p => simp [stepG] at hst
      | restore v => simp [stepG] at hst
      | restoreAt hv v => simp [stepG] at hst
    | some h => exact sinv_step (hs h rfl) (hg h rfl).2.1 hst

end LanceModel.C07
