import LanceModel.C07.StepLemmas
import LanceModel.C07.RowsLemmas
import LanceModel.C07.SortLemmas
import LanceModel.C07.MonoLemmas
/-
C07 — "After restoring version v, the new latest version has exactly v's schema, rows, deletions and indices.  Stable
row ids handed out after a restore are never ones that some earlier version already used."

Quantifier: histories = every list of create / append / overwrite / delete / restore / restore-through-a-stale-handle
(`restoreAt hv v`: the Restore transaction read version `hv` and commits on whatever is latest by then) operations from
"no table" (`run ops`), with stable row ids on or off (`Hist.stable`).  Every theorem below that quantifies over `ops`
covers histories with stale-handle restores.  The model is the code as it is now (fix 0b56cc4 in the
Restore arm); `runG false` is the pinned commit and is refuted by `rowids_fresh_pinned_counterexample`.
Indices are not modelled (level_note).
-/
namespace LanceModel.C07
open LanceModel.Table

/-! ## Restore reproduces the old version -/

/-- Restoring any published version `v` of ANY history state publishes one new version, numbered latest + 1, with
    exactly v's schema, fragments (ids, physical rows, row ids, deletion marks) — hence v's rows, v's ordered scan with
    `_rowid`, v's per-fragment deletion counts — and leaves every earlier version in place. -/
theorem restore_rows (h : Hist) (v : Nat) (old : Manifest) (hl : h.lookup v = some old) :
    ∃ h', step (some h) (.restore v) = (some h', .ok) ∧
      h'.latest.version = h.latest.version + 1 ∧ h'.older = h.versions ∧ h'.stable = h.stable ∧
      h'.latest.k = old.k ∧ h'.latest.frags = old.frags ∧
      liveCells h'.latest = liveCells old ∧ scan h'.stable h'.latest = scan h.stable old ∧
      fragInfo h'.latest = fragInfo old := by
  refine ⟨h.push (restored true h.latest old), ?_, rfl, rfl, rfl, rfl, rfl, rfl, rfl, rfl⟩
  simp [step, stepG, hl]

/-- The same for a Restore transaction that was built on a stale handle (read version `hv` ≤ latest) and commits after
    other writers published newer versions: it still publishes latest + 1 with exactly v's schema / fragments / rows,
    and its `next_row_id` / `max_fragment_id` are at least those of the LATEST manifest at commit time (not merely of the
    manifest the transaction had read). -/
theorem restore_at_rows (h : Hist) (hv v : Nat) (hm old : Manifest) (hh : h.lookup hv = some hm)
    (hl : h.lookup v = some old) :
    ∃ h', step (some h) (.restoreAt hv v) = (some h', .ok) ∧
      h'.latest.version = h.latest.version + 1 ∧ h'.older = h.versions ∧ h'.stable = h.stable ∧
      h'.latest.k = old.k ∧ h'.latest.frags = old.frags ∧
      liveCells h'.latest = liveCells old ∧ scan h'.stable h'.latest = scan h.stable old ∧
      fragInfo h'.latest = fragInfo old ∧
      h.latest.nextRowId ≤ h'.latest.nextRowId ∧
      (∀ i, fragBound h.latest.maxFragId i → fragBound h'.latest.maxFragId i) := by
  refine ⟨h.push (restored true h.latest old), ?_, rfl, rfl, rfl, rfl, rfl, rfl, rfl, rfl, ?_, ?_⟩
  · simp [step, stepG, hh, hl]
  · simp only [Hist.push, restored, if_true]; omega
  · intro i hb; simp only [Hist.push, restored, if_true]; exact optMax_right hb

/-- a version that was never published cannot be restored; the table is untouched -/
theorem restore_missing (h : Hist) (v : Nat) (hl : h.lookup v = none) :
    step (some h) (.restore v) = (some h, .err "not_found") := by
  simp [step, stepG, hl]

/-- in a reachable history the published versions are numbered n, n-1, …, 1, so `restore v` succeeds exactly for
    1 ≤ v ≤ latest and `lookup` finds the unique manifest with that number -/
theorem versions_dense (ops : List Op) (h : Hist) (hr : run ops = some h) :
    h.versions.map (·.version) = countdown h.versions.length ∧ h.latest.version = h.versions.length :=
  have hd := (good_run ops h hr).2.2
  ⟨hd, dense_latest hd⟩

theorem mem_countdown {n v : Nat} : v ∈ countdown n ↔ 1 ≤ v ∧ v ≤ n := by
  induction n with
  | zero => simp [countdown]; omega
  | succ k ih => simp only [countdown, List.mem_cons, ih]; omega

theorem restore_defined_iff (ops : List Op) (h : Hist) (hr : run ops = some h) (v : Nat) :
    (h.lookup v).isSome ↔ 1 ≤ v ∧ v ≤ h.latest.version := by
  obtain ⟨hd, hlat⟩ := versions_dense ops h hr
  rw [hlat, ← mem_countdown, ← hd]
  unfold Hist.lookup
  rw [List.find?_isSome]
  constructor
  · rintro ⟨m, hm, hv⟩
    exact List.mem_map.mpr ⟨m, hm, by simpa using hv⟩
  · intro hv
    obtain ⟨m, hm, rfl⟩ := List.mem_map.mp hv
    exact ⟨m, hm, by simp⟩

/-- time travel is append-only: whatever the operation, every published version stays in the history unchanged
    (an operation either fails and changes nothing, or publishes exactly one new manifest numbered latest + 1) -/
theorem history_append_only (h : Hist) (op : Op) :
    (step (some h) op).1 = some h ∨
    ∃ m, (step (some h) op).1 = some (h.push m) ∧ m.version = h.latest.version + 1 := by
  rcases stepG_shape true (some h) op with he | ⟨g, m, hg1, hg2, hv⟩ | ⟨hn, _⟩
  · exact Or.inl he
  · cases hg1; exact Or.inr ⟨m, hg2, hv⟩
  · cases hn

/-! ## What the other operations do to the rows (so that "v's rows" means what the user wrote) -/

theorem create_rows (stable : Bool) (f k : Nat) (rows : List Row) (hf : 0 < f) :
    ∃ h, step none (.create stable f k rows) = (some h, .ok) ∧ liveCells h.latest = rows ∧ h.latest.k = k ∧
      h.latest.version = 1 := by
  have hf0 : f ≠ 0 := by omega
  simp only [step, stepG, hf0, if_false]
  refine ⟨_, rfl, ?_, rfl, rfl⟩
  rw [liveCells_eq]
  simp only [liveOf_newFrags, chunks_flatten f hf]

theorem append_rows (h : Hist) (f : Nat) (rows : List Row) (hf : 0 < f)
    (hw : rows.any (fun r => r.length != h.latest.k) = false) :
    ∃ h', step (some h) (.append f rows) = (some h', .ok) ∧
      liveCells h'.latest = liveCells h.latest ++ rows ∧ h'.latest.k = h.latest.k := by
  have hf0 : f ≠ 0 := by omega
  simp only [step, stepG, hw, hf0, if_false, Bool.false_eq_true]
  refine ⟨_, rfl, ?_, rfl⟩
  simp only [liveCells_eq, Hist.push, liveOf_append, liveOf_newFrags, chunks_flatten f hf]

theorem overwrite_rows (h : Hist) (f k : Nat) (rows : List Row) (hf : 0 < f) :
    ∃ h', step (some h) (.overwrite f k rows) = (some h', .ok) ∧ liveCells h'.latest = rows ∧ h'.latest.k = k := by
  have hf0 : f ≠ 0 := by omega
  simp only [step, stepG, hf0, if_false]
  refine ⟨_, rfl, ?_, rfl⟩
  simp only [liveCells_eq, Hist.push, liveOf_newFrags, chunks_flatten f hf]

/-- delete is the SQL filter on `c0` (NULL never matches a comparison) -/
theorem delete_rows (h : Hist) (p : Pred) :
    ∃ h', step (some h) (.delete p) = (some h', .ok) ∧
      liveCells h'.latest = (liveCells h.latest).filter (fun r => !p.matches (cellAt r 0)) ∧ h'.latest.k = h.latest.k := by
  refine ⟨_, rfl, ?_, rfl⟩
  simp only [liveCells_eq, Hist.push]
  exact liveOf_deleteFrags p h.latest.frags

/-! ## Row identities stay unique -/

/-- every (row id, cells) pair of every physical row of every version ever published -/
def histIds (h : Hist) : List (Nat × Row) := (h.versions.map ids).flatten

/-- the relation row id → row contents is a function -/
def Functional (l : List (Nat × Row)) : Prop := ∀ p1 ∈ l, ∀ p2 ∈ l, p1.1 = p2.1 → p1.2 = p2.2

instance (l : List (Nat × Row)) : Decidable (Functional l) := by unfold Functional; infer_instance

/-- FULL STATEMENT.  In every history on a table with stable row ids, over all versions ever published (restored,
    overwritten and deleted rows included) a row id never names two different rows: an id handed out at version w is
    not the id of a different row in any other version. -/
theorem rowids_fresh (ops : List Op) (h : Hist) (hr : run ops = some h) (hs : h.stable = true) :
    Functional (histIds h) := by
  have hi := (good_run ops h hr).1 hs
  intro p1 hp1 p2 hp2 he
  simp only [histIds, List.mem_flatten, List.mem_map] at hp1 hp2
  obtain ⟨_, ⟨m1, hm1, rfl⟩, h1⟩ := hp1
  obtain ⟨_, ⟨m2, hm2, rfl⟩, h2⟩ := hp2
  exact hi.func m1 hm1 m2 hm2 p1 h1 p2 h2 he

/-- inside one version no row id occurs twice (physical rows, deleted ones included) -/
theorem rowids_unique_in_version (ops : List Op) (h : Hist) (hr : run ops = some h) (hs : h.stable = true) :
    ∀ m ∈ h.versions, ((ids m).map (·.1)).Nodup :=
  ((good_run ops h hr).1 hs).nodup

/-- the sharp form: the ids a write hands out (append or overwrite, after any history — restores included) are larger
    than every id any version of the history ever used, and `next_row_id` stays above all of them -/
theorem new_rowids_above_history (ops : List Op) (h : Hist) (hr : run ops = some h) (hs : h.stable = true)
    (fragStart f : Nat) (rows : List Row) :
    ∀ p ∈ idsOf (newFrags true fragStart h.latest.nextRowId (chunks f rows)),
      ∀ m ∈ h.versions, ∀ q ∈ ids m, q.1 < p.1 := by
  intro p hp m hm q hq
  have h1 := ((good_run ops h hr).1 hs).bound m hm q hq
  have h2 := (newFrags_bounds hp).1
  omega

theorem next_row_id_above_history (ops : List Op) (h : Hist) (hr : run ops = some h) (hs : h.stable = true) :
    ∀ m ∈ h.versions, ∀ q ∈ ids m, q.1 < h.latest.nextRowId :=
  ((good_run ops h hr).1 hs).bound

/-- fragment ids: every fragment id any version ever used lies at or below the latest `max_fragment_id`, so the
    fragments an append creates (ids from `max_fragment_id + 1`) get ids no version of the history ever used -/
theorem append_fragids_fresh (ops : List Op) (h : Hist) (hr : run ops = some h) (files : List (List PRow)) :
    ∀ g ∈ assignFragIds (startId h.latest.maxFragId) files, ∀ m ∈ h.versions, ∀ f ∈ m.frags, f.id < g.id := by
  intro g hg m hm f hf
  obtain ⟨hw, hhw, hle⟩ := (good_run ops h hr).2.1.fbound m hm f hf
  have := (mem_assignFragIds hg).1
  rw [hhw] at this
  simp only [startId] at this
  omega

/-- every version of every history lists its fragments with strictly increasing ids (build_manifest's final
    `sort_by_key(fragment id)`, which the model omits, is the identity on these histories) -/
theorem fragids_sorted (ops : List Op) (h : Hist) (hr : run ops = some h) :
    ∀ m ∈ h.versions, (m.frags.map (·.id)).Pairwise (· < ·) :=
  (sinv_runG ops (s := none) (by intro h hh; cases hh) (by intro h hh; cases hh) h hr).sorted

/-- the two identifier counters are monotone along every history, restores included (row_id_lineage.md: "a
    monotonically increasing `next_row_id` counter"): newest first, each version's `next_row_id` and `max_fragment_id`
    are at least those of every older version -/
theorem marks_monotone (ops : List Op) (h : Hist) (hr : run ops = some h) :
    h.versions.Pairwise (fun newer older =>
      older.nextRowId ≤ newer.nextRowId ∧ ∀ i, fragBound older.maxFragId i → fragBound newer.maxFragId i) :=
  mono_runG ops (s := none) (by intro h hh; cases hh) h hr

/-! ### the pinned commit did not satisfy it (why fix 0b56cc4 exists) -/

/-- create 3 rows, append 3, restore version 1, append 2 -/
def witness : List Op :=
  [.create true 1000 1 [[some 10], [some 11], [some 12]],
   .append 1000 [[some 20], [some 21], [some 22]],
   .restore 1,
   .append 1000 [[some 30], [some 31]]]

/-- with the pinned commit's restore (old `next_row_id` re-published) row id 3 names row 20 in version 2 and row 30 in
    version 4 -/
theorem rowids_fresh_pinned_counterexample :
    ¬ (∀ ops h, runG false none ops = some h → h.stable = true → Functional (histIds h)) := by
  intro hall
  have hrun : ∃ h, runG false none witness = some h ∧ h.stable = true ∧ ¬ Functional (histIds h) := by
    refine ⟨_, rfl, rfl, ?_⟩
    decide
  obtain ⟨h, h1, h2, h3⟩ := hrun
  exact h3 (hall witness h h1 h2)

/-- … and the same append re-used fragment id 1 of version 2 -/
theorem fragids_pinned_counterexample :
    ∃ h, runG false none witness = some h ∧
      (∃ m ∈ h.older, ∃ f ∈ m.frags, ∃ g ∈ h.latest.frags, f.id = g.id ∧ f.rows ≠ g.rows) := by
  refine ⟨_, rfl, ?_⟩
  decide

/-! ### the marks must come from the latest manifest at commit time, not from the transaction's read version -/

/-- create 3 rows, append 3 (v2), [handle at v2 prepares `restore 1`], append 3 (v3), the restore commits (v4), append 2 -/
def staleWitness : List Op :=
  [.create true 1000 1 [[some 10], [some 11], [some 12]],
   .append 1000 [[some 20], [some 21], [some 22]],
   .append 1000 [[some 30], [some 31], [some 32]],
   .restoreAt 2 1,
   .append 1000 [[some 40], [some 41]]]

/-- a commit loop that takes the restore's marks from the manifest at its read version (v2: next_row_id 6) instead of
    the latest one (v3: next_row_id 9) hands out row ids 6, 7 again, which version 3 used for rows 30, 31 -/
theorem stale_marks_counterexample :
    ∃ h, runStaleMarks none staleWitness = some h ∧ h.stable = true ∧ ¬ Functional (histIds h) := by
  refine ⟨_, rfl, rfl, ?_⟩
  decide

/-- … while under the code as modelled the same history keeps every identity unique and the restored version carries
    the latest marks -/
example : ∃ h, run staleWitness = some h ∧ h.stable = true ∧ h.latest.version = 5 ∧ h.latest.nextRowId = 11 ∧
    h.latest.maxFragId = some 3 ∧ Functional (histIds h) := by
  refine ⟨_, rfl, rfl, rfl, rfl, rfl, ?_⟩
  decide

/-- `restore_at_rows` has instances with a genuinely stale handle (read version 2, latest 3) -/
example : ∃ h hm old, run (staleWitness.take 3) = some h ∧ h.latest.version = 3 ∧ h.lookup 2 = some hm ∧
    h.lookup 1 = some old ∧ hm.nextRowId < h.latest.nextRowId :=
  ⟨_, _, _, rfl, rfl, rfl, rfl, by decide⟩

/-! ## non-vacuity -/

/-- the witness history runs (all four operations succeed) under the current code, on a table with stable row ids,
    and the restored version re-appears with the marks of the latest version -/
example : ∃ h, run witness = some h ∧ h.stable = true ∧ h.latest.version = 4 ∧ h.latest.nextRowId = 8 ∧
    h.latest.maxFragId = some 2 ∧ Functional (histIds h) := by
  refine ⟨_, rfl, rfl, rfl, rfl, rfl, ?_⟩
  decide

/-- `restore_rows` has instances: version 1 of the witness history can be looked up after three operations -/
example : ∃ h old, run (witness.take 2) = some h ∧ h.lookup 1 = some old ∧ liveCells old = [[some 10], [some 11], [some 12]] :=
  ⟨_, _, rfl, rfl, rfl⟩

/-- `new_rowids_above_history` / `append_fragids_fresh` are about non-empty sets: the append after the restore creates a
    fragment and two row ids -/
example : ∃ h, run (witness.take 3) = some h ∧
    idsOf (newFrags true (startId h.latest.maxFragId) h.latest.nextRowId (chunks 1000 [[some 30], [some 31]]))
      = [(6, [some 30]), (7, [some 31])] :=
  ⟨_, rfl, by decide⟩

/-- `delete_rows` on a real predicate: NULL survives `c0 < 3` -/
example : (([[some 1], [none], [some 5]] : List Row).filter (fun r => !(Pred.lt 3).matches (cellAt r 0))) = [[none], [some 5]] := by
  decide

end LanceModel.C07
