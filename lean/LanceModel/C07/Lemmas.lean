import LanceModel.C07.Model
/-
C07 lemmas: the row-id invariant (every id ever used lies below the latest `next_row_id`; the relation id → cells over
all versions is functional; no version lists an id twice) and the fragment-id invariant (every fragment id ever used
lies at or below the latest `max_fragment_id`), each preserved by every operation of `stepG true`.
-/
namespace LanceModel.C07
open LanceModel.Table

/-! ### numbering of new rows -/

theorem mem_numberRows {next : Nat} {rows : List Row} {r : PRow} (h : r ∈ numberRows next rows) :
    next ≤ r.rid ∧ r.rid < next + rows.length := by
  induction rows generalizing next with
  | nil => simp [numberRows] at h
  | cons x xs ih =>
    simp only [numberRows, List.mem_cons] at h
    rcases h with h | h
    · subst h; simp
    · have := ih h; simp only [List.length_cons]; omega

theorem numberRows_nodup (next : Nat) (rows : List Row) : ((numberRows next rows).map (·.rid)).Nodup := by
  induction rows generalizing next with
  | nil => simp [numberRows]
  | cons x xs ih =>
    simp only [numberRows, List.map_cons, List.nodup_cons]
    refine ⟨?_, ih (next + 1)⟩
    intro hm
    obtain ⟨r, hr, he⟩ := List.mem_map.mp hm
    have := mem_numberRows hr
    omega

theorem mem_assignRowIds {next : Nat} {files : List (List Row)} {fl : List PRow} {r : PRow}
    (hf : fl ∈ assignRowIds next files) (hr : r ∈ fl) :
    next ≤ r.rid ∧ r.rid < next + natSum (files.map List.length) := by
  induction files generalizing next with
  | nil => simp [assignRowIds] at hf
  | cons x xs ih =>
    simp only [assignRowIds, List.mem_cons] at hf
    simp only [List.map_cons, natSum]
    rcases hf with hf | hf
    · subst hf; have := mem_numberRows hr; omega
    · have := ih hf; omega

theorem assignRowIds_nodup (next : Nat) (files : List (List Row)) :
    (((assignRowIds next files).flatten).map (·.rid)).Nodup := by
  induction files generalizing next with
  | nil => simp [assignRowIds]
  | cons x xs ih =>
    simp only [assignRowIds, List.flatten_cons, List.map_append]
    rw [List.nodup_append]
    refine ⟨numberRows_nodup next x, ih _, ?_⟩
    intro a ha b hb
    obtain ⟨r, hr, rfl⟩ := List.mem_map.mp ha
    obtain ⟨q, hq, rfl⟩ := List.mem_map.mp hb
    obtain ⟨fl, hfl, hqf⟩ := List.mem_flatten.mp hq
    have h1 := mem_numberRows hr
    have h2 := mem_assignRowIds hfl hqf
    omega

/-! ### ids of fragment lists -/

theorem idsOf_append (a b : List Frag) : idsOf (a ++ b) = idsOf a ++ idsOf b := by
  simp [idsOf]

theorem idsOf_assignFragIds (start : Nat) (files : List (List PRow)) :
    idsOf (assignFragIds start files) = (files.flatten).map (fun r => (r.rid, r.cells)) := by
  induction files generalizing start with
  | nil => simp [assignFragIds, idsOf]
  | cons x xs ih =>
    have := ih (start + 1)
    simp only [idsOf] at this
    simp [assignFragIds, idsOf, this]

theorem idsOf_fst (frags : List Frag) :
    (idsOf frags).map (·.1) = ((frags.map (·.rows)).flatten).map (·.rid) := by
  induction frags with
  | nil => simp [idsOf]
  | cons f fs ih =>
    simp only [idsOf] at ih
    simp [idsOf, ih]

/-- the new fragments of a write on a table with stable row ids: ids in `[next, bumpNext)`, pairwise different -/
theorem newFrags_bounds {fragStart next : Nat} {files : List (List Row)} {p : Nat × Row}
    (hp : p ∈ idsOf (newFrags true fragStart next files)) :
    next ≤ p.1 ∧ p.1 < bumpNext true next files := by
  simp only [newFrags, if_true, idsOf_assignFragIds, List.mem_map] at hp
  obtain ⟨r, hr, rfl⟩ := hp
  obtain ⟨fl, hfl, hrf⟩ := List.mem_flatten.mp hr
  have := mem_assignRowIds hfl hrf
  simpa [bumpNext] using this

theorem newFrags_nodup (fragStart next : Nat) (files : List (List Row)) :
    ((idsOf (newFrags true fragStart next files)).map (·.1)).Nodup := by
  have := assignRowIds_nodup next files
  simpa [newFrags, idsOf_assignFragIds, List.map_map, Function.comp_def] using this

theorem next_le_bumpNext (stable : Bool) (next : Nat) (files : List (List Row)) : next ≤ bumpNext stable next files := by
  unfold bumpNext; split <;> omega

/-! ### delete keeps a sub-list of the (id, cells) pairs -/

theorem markRow_pair (p : Pred) (r : PRow) : ((markRow p r).rid, (markRow p r).cells) = (r.rid, r.cells) := by
  unfold markRow; split <;> rfl

theorem deleteFrag_ids {p : Pred} {f g : Frag} (h : deleteFrag p f = some g) :
    g.id = f.id ∧ g.rows.map (fun r => (r.rid, r.cells)) = f.rows.map (fun r => (r.rid, r.cells)) := by
  unfold deleteFrag at h
  split at h
  · split at h
    · cases h
    · cases h
      refine ⟨rfl, ?_⟩
      simp only [List.map_map]
      apply List.map_congr_left
      intro r _
      exact markRow_pair p r
  · cases h; exact ⟨rfl, rfl⟩

theorem idsOf_filterMap_sublist (p : Pred) (frags : List Frag) :
    (idsOf (frags.filterMap (deleteFrag p))).Sublist (idsOf frags) := by
  induction frags with
  | nil => simp [idsOf]
  | cons f fs ih =>
    simp only [idsOf] at ih
    simp only [List.filterMap_cons]
    split
    · simp only [idsOf, List.map_cons, List.flatten_cons]
      exact List.Sublist.trans ih (List.sublist_append_right _ _)
    · rename_i g hg
      have := (deleteFrag_ids hg).2
      simp only [idsOf, List.map_cons, List.flatten_cons, this]
      exact List.Sublist.append (List.Sublist.refl _) ih

theorem idsOf_deleteFrags_sublist (p : Pred) (frags : List Frag) :
    (idsOf (deleteFrags p frags)).Sublist (idsOf frags) := by
  unfold deleteFrags
  split
  · simp [idsOf]
  · exact idsOf_filterMap_sublist p frags

theorem deleteFrags_id_mem {p : Pred} {frags : List Frag} {g : Frag} (h : g ∈ deleteFrags p frags) :
    ∃ f ∈ frags, g.id = f.id := by
  unfold deleteFrags at h
  split at h
  · simp at h
  · obtain ⟨f, hf, hg⟩ := List.mem_filterMap.mp h
    exact ⟨f, hf, (deleteFrag_ids hg).1⟩

/-! ### the row-id invariant -/

structure Inv (h : Hist) : Prop where
  bound : ∀ m ∈ h.versions, ∀ p ∈ ids m, p.1 < h.latest.nextRowId
  func : ∀ m1 ∈ h.versions, ∀ m2 ∈ h.versions, ∀ p1 ∈ ids m1, ∀ p2 ∈ ids m2, p1.1 = p2.1 → p1.2 = p2.2
  nodup : ∀ m ∈ h.versions, ((ids m).map (·.1)).Nodup

theorem eq_of_nodup_fst {l : List (Nat × Row)} (hn : (l.map (·.1)).Nodup) {p q : Nat × Row}
    (hp : p ∈ l) (hq : q ∈ l) (he : p.1 = q.1) : p.2 = q.2 := by
  induction l with
  | nil => simp at hp
  | cons x xs ih =>
    simp only [List.map_cons, List.nodup_cons] at hn
    simp only [List.mem_cons] at hp hq
    rcases hp with rfl | hp <;> rcases hq with rfl | hq
    · rfl
    · exact absurd (List.mem_map.mpr ⟨q, hq, he.symm⟩) hn.1
    · exact absurd (List.mem_map.mpr ⟨p, hp, he⟩) hn.1
    · exact ih hn.2 hp hq

theorem versions_push (h : Hist) (m : Manifest) : (h.push m).versions = m :: h.versions := rfl

/-- publishing a manifest whose (id, cells) pairs are a sub-list `A` of an existing version's followed by pairs `B`
    with fresh, pairwise different ids keeps the invariant -/
theorem inv_push {h : Hist} {m' m0 : Manifest} {A B : List (Nat × Row)} (hi : Inv h)
    (hm0 : m0 ∈ h.versions) (hids : ids m' = A ++ B) (hA : A.Sublist (ids m0))
    (hB1 : ∀ p ∈ B, h.latest.nextRowId ≤ p.1 ∧ p.1 < m'.nextRowId)
    (hB2 : (B.map (·.1)).Nodup) (hnext : h.latest.nextRowId ≤ m'.nextRowId) : Inv (h.push m') := by
  have hlat : (h.push m').latest = m' := rfl
  -- every pair of the new manifest is either known (below the old mark) or new (at or above it)
  have hnew : ∀ p ∈ ids m', (p ∈ ids m0) ∨ (p ∈ B) := by
    intro p hp
    rw [hids, List.mem_append] at hp
    rcases hp with hp | hp
    · exact Or.inl (hA.subset hp)
    · exact Or.inr hp
  refine ⟨?_, ?_, ?_⟩
  · intro m hm p hp
    rw [hlat]
    rw [versions_push, List.mem_cons] at hm
    rcases hm with rfl | hm
    · rcases hnew p hp with h1 | h1
      · have := hi.bound m0 hm0 p h1; omega
      · exact (hB1 p h1).2
    · have := hi.bound m hm p hp; omega
  · intro m1 hm1 m2 hm2 p1 hp1 p2 hp2 he
    rw [versions_push, List.mem_cons] at hm1 hm2
    -- classify both pairs
    have c1 : (∃ m ∈ h.versions, p1 ∈ ids m) ∨ p1 ∈ B := by
      rcases hm1 with rfl | hm1
      · rcases hnew p1 hp1 with h1 | h1
        · exact Or.inl ⟨m0, hm0, h1⟩
        · exact Or.inr h1
      · exact Or.inl ⟨m1, hm1, hp1⟩
    have c2 : (∃ m ∈ h.versions, p2 ∈ ids m) ∨ p2 ∈ B := by
      rcases hm2 with rfl | hm2
      · rcases hnew p2 hp2 with h1 | h1
        · exact Or.inl ⟨m0, hm0, h1⟩
        · exact Or.inr h1
      · exact Or.inl ⟨m2, hm2, hp2⟩
    rcases c1 with ⟨a, ha, hpa⟩ | hb1 <;> rcases c2 with ⟨b, hb, hpb⟩ | hb2
    · exact hi.func a ha b hb p1 hpa p2 hpb he
    · have := hi.bound a ha p1 hpa; have := (hB1 p2 hb2).1; omega
    · have := hi.bound b hb p2 hpb; have := (hB1 p1 hb1).1; omega
    · exact eq_of_nodup_fst hB2 hb1 hb2 he
  · intro m hm
    rw [versions_push, List.mem_cons] at hm
    rcases hm with rfl | hm
    · rw [hids, List.map_append, List.nodup_append]
      refine ⟨(hi.nodup m0 hm0).sublist (hA.map _), hB2, ?_⟩
      intro a ha b hb
      obtain ⟨p, hp, rfl⟩ := List.mem_map.mp ha
      obtain ⟨q, hq, rfl⟩ := List.mem_map.mp hb
      have := hi.bound m0 hm0 p (hA.subset hp)
      have := (hB1 q hq).1
      omega
    · exact hi.nodup m hm

/-! ### the fragment-id invariant -/

/-- `i` lies at or below the high-water mark -/
def fragBound (hw : Option Nat) (i : Nat) : Prop := ∃ h, hw = some h ∧ i ≤ h

structure FInv (h : Hist) : Prop where
  fbound : ∀ m ∈ h.versions, ∀ f ∈ m.frags, fragBound h.latest.maxFragId f.id

theorem maxIdOf_mem {frags : List Frag} {f : Frag} (hf : f ∈ frags) : ∃ m, maxIdOf frags = some m ∧ f.id ≤ m := by
  induction frags with
  | nil => simp at hf
  | cons x xs ih =>
    simp only [List.mem_cons] at hf
    simp only [maxIdOf]
    rcases hf with rfl | hf
    · split
      · exact ⟨_, rfl, Nat.le_refl _⟩
      · exact ⟨_, rfl, Nat.le_max_left _ _⟩
    · obtain ⟨m, hm, hle⟩ := ih hf
      rw [hm]
      exact ⟨_, rfl, by omega⟩

theorem updateMax_mem {hw : Option Nat} {frags : List Frag} {f : Frag} (hf : f ∈ frags) :
    fragBound (updateMax hw frags) f.id := by
  obtain ⟨m, hm, hle⟩ := maxIdOf_mem hf
  unfold updateMax fragBound
  rw [hm]
  cases hw with
  | none => exact ⟨m, rfl, hle⟩
  | some h =>
    by_cases hgt : m > h
    · simp only [hgt, if_true]; exact ⟨m, rfl, hle⟩
    · simp only [hgt, if_false]; exact ⟨h, rfl, by omega⟩

theorem updateMax_mono {hw : Option Nat} {frags : List Frag} {i : Nat} (hb : fragBound hw i) :
    fragBound (updateMax hw frags) i := by
  obtain ⟨h, rfl, hle⟩ := hb
  unfold updateMax fragBound
  split
  · exact ⟨h, rfl, hle⟩
  · rename_i m _
    by_cases hgt : m > h
    · simp only [hgt, if_true]; exact ⟨m, rfl, by omega⟩
    · simp only [hgt, if_false]; exact ⟨h, rfl, hle⟩

theorem optMax_right {a b : Option Nat} {i : Nat} (hb : fragBound b i) : fragBound (optMax a b) i := by
  obtain ⟨h, rfl, hle⟩ := hb
  cases a with
  | none => exact ⟨h, rfl, hle⟩
  | some x => exact ⟨max x h, rfl, by omega⟩

theorem finv_push {h : Hist} {m' : Manifest} (hi : FInv h)
    (hnew : ∀ f ∈ m'.frags, fragBound m'.maxFragId f.id)
    (hmono : ∀ i, fragBound h.latest.maxFragId i → fragBound m'.maxFragId i) : FInv (h.push m') := by
  refine ⟨?_⟩
  intro m hm f hf
  have hlat : (h.push m').latest = m' := rfl
  rw [hlat]
  rw [versions_push, List.mem_cons] at hm
  rcases hm with rfl | hm
  · exact hnew f hf
  · exact hmono _ (hi.fbound m hm f hf)

theorem mem_assignFragIds {start : Nat} {files : List (List PRow)} {f : Frag} (hf : f ∈ assignFragIds start files) :
    start ≤ f.id ∧ f.id < start + files.length := by
  induction files generalizing start with
  | nil => simp [assignFragIds] at hf
  | cons x xs ih =>
    simp only [assignFragIds, List.mem_cons] at hf
    simp only [List.length_cons]
    rcases hf with rfl | hf
    · simp
    · have := ih hf; omega

end LanceModel.C07
