import LanceModel.C07.Lemmas
/-
C07: every operation of the current code (`stepG true`) preserves the row-id invariant (tables with stable row ids),
the fragment-id invariant and the version numbering; the three are then carried through any history by induction.
-/
namespace LanceModel.C07
open LanceModel.Table

theorem lookup_mem {h : Hist} {v : Nat} {m : Manifest} (hl : h.lookup v = some m) : m ∈ h.versions ∧ m.version = v := by
  unfold Hist.lookup at hl
  have h1 := List.mem_of_find?_eq_some hl
  have h2 := List.find?_some hl
  exact ⟨h1, by simpa using h2⟩

theorem latest_mem (h : Hist) : h.latest ∈ h.versions := by simp [Hist.versions]

/-- the state after a successful step is the old history with exactly one manifest pushed, or a fresh table -/
theorem stepG_shape (keep : Bool) (s : Option Hist) (op : Op) :
    (stepG keep s op).1 = s ∨
    (∃ h m, s = some h ∧ (stepG keep s op).1 = some (h.push m) ∧ m.version = h.latest.version + 1) ∨
    (s = none ∧ ∃ h, (stepG keep s op).1 = some h ∧ h.older = [] ∧ h.latest.version = 1) := by
  cases s with
  | none =>
    cases op with
    | create stable f k rows =>
      by_cases hf : f = 0
      · left; simp [stepG, hf]
      · right; right; simp [stepG, hf]
    | append f rows => left; simp [stepG]
    | overwrite f k rows => left; simp [stepG]
    | delete p => left; simp [stepG]
    | restore v => left; simp [stepG]
    | restoreAt hv v => left; simp [stepG]
  | some h =>
    cases op with
    | create stable f k rows => left; simp [stepG]
    | append f rows =>
      simp only [stepG]
      split
      · left; rfl
      · split
        · left; rfl
        · right; left; exact ⟨h, _, rfl, rfl, rfl⟩
    | overwrite f k rows =>
      simp only [stepG]
      split
      · left; rfl
      · right; left; exact ⟨h, _, rfl, rfl, rfl⟩
    | delete p => right; left; exact ⟨h, _, rfl, rfl, rfl⟩
    | restore v =>
      simp only [stepG]
      split
      · left; rfl
      · right; left; exact ⟨h, _, rfl, rfl, rfl⟩
    | restoreAt hv v =>
      simp only [stepG]
      split
      · left; rfl
      · split
        · left; rfl
        · right; left; exact ⟨h, _, rfl, rfl, rfl⟩

/-! ### row ids -/

theorem inv_create (f k : Nat) (rows : List Row) :
    Inv { stable := true
          latest := { version := 1, k := k, frags := newFrags true 0 0 (chunks f rows)
                      nextRowId := bumpNext true 0 (chunks f rows)
                      maxFragId := updateMax none (newFrags true 0 0 (chunks f rows)) }
          older := [] } := by
  refine ⟨?_, ?_, ?_⟩
  · intro m hm p hp
    simp only [Hist.versions, List.mem_singleton] at hm
    subst hm
    exact (newFrags_bounds hp).2
  · intro m1 hm1 m2 hm2 p1 hp1 p2 hp2 he
    simp only [Hist.versions, List.mem_singleton] at hm1 hm2
    subst hm1; subst hm2
    exact eq_of_nodup_fst (newFrags_nodup 0 0 (chunks f rows)) hp1 hp2 he
  · intro m hm
    simp only [Hist.versions, List.mem_singleton] at hm
    subst hm
    exact newFrags_nodup 0 0 (chunks f rows)

theorem inv_step {h h' : Hist} {op : Op} (hs : h.stable = true) (hi : Inv h)
    (hst : (stepG true (some h) op).1 = some h') : Inv h' ∧ h'.stable = true := by
  cases op with
  | create stable f k rows =>
    simp only [stepG] at hst; cases hst; exact ⟨hi, hs⟩
  | append f rows =>
    simp only [stepG] at hst
    split at hst
    · cases hst; exact ⟨hi, hs⟩
    · split at hst
      · cases hst; exact ⟨hi, hs⟩
      · cases hst
        refine ⟨?_, hs⟩
        rw [hs]
        refine inv_push (m0 := h.latest) (A := ids h.latest)
          (B := idsOf (newFrags true (startId h.latest.maxFragId) h.latest.nextRowId (chunks f rows)))
          hi (latest_mem h) ?_ (List.Sublist.refl _) ?_ (newFrags_nodup _ _ _) (by simp only; exact next_le_bumpNext _ _ _)
        · simp only [ids, idsOf_append]
        · intro p hp; exact newFrags_bounds hp
  | overwrite f k rows =>
    simp only [stepG] at hst
    split at hst
    · cases hst; exact ⟨hi, hs⟩
    · cases hst
      refine ⟨?_, hs⟩
      rw [hs]
      refine inv_push (m0 := h.latest) (A := [])
        (B := idsOf (newFrags true 0 h.latest.nextRowId (chunks f rows)))
        hi (latest_mem h) ?_ (List.nil_sublist _) ?_ (newFrags_nodup _ _ _) (by simp only; exact next_le_bumpNext _ _ _)
      · simp only [ids, List.nil_append]
      · intro p hp; exact newFrags_bounds hp
  | delete p =>
    simp only [stepG] at hst
    cases hst
    refine ⟨?_, hs⟩
    refine inv_push (m0 := h.latest) (A := idsOf (deleteFrags p h.latest.frags)) (B := [])
      hi (latest_mem h) ?_ (idsOf_deleteFrags_sublist p h.latest.frags) ?_ (by simp) (Nat.le_refl _)
    · simp only [ids, List.append_nil]
    · intro q hq; simp at hq
  | restore v =>
    simp only [stepG] at hst
    split at hst
    · cases hst; exact ⟨hi, hs⟩
    · rename_i old hl
      cases hst
      refine ⟨?_, hs⟩
      refine inv_push (m0 := old) (A := ids old) (B := [])
        hi (lookup_mem hl).1 ?_ (List.Sublist.refl _) ?_ (by simp) ?_
      · simp only [ids, restored, List.append_nil]
      · intro q hq; simp at hq
      · simp only [restored, if_true]; omega
  | restoreAt hv v =>
    simp only [stepG] at hst
    split at hst
    · cases hst; exact ⟨hi, hs⟩
    · split at hst
      · cases hst; exact ⟨hi, hs⟩
      · rename_i old hl
        cases hst
        refine ⟨?_, hs⟩
        refine inv_push (m0 := old) (A := ids old) (B := [])
          hi (lookup_mem hl).1 ?_ (List.Sublist.refl _) ?_ (by simp) ?_
        · simp only [ids, restored, List.append_nil]
        · intro q hq; simp at hq
        · simp only [restored, if_true]; omega

/-! ### fragment ids -/

theorem finv_create (stable : Bool) (f k : Nat) (rows : List Row) :
    FInv { stable := stable
           latest := { version := 1, k := k, frags := newFrags stable 0 0 (chunks f rows)
                       nextRowId := bumpNext stable 0 (chunks f rows)
                       maxFragId := updateMax none (newFrags stable 0 0 (chunks f rows)) }
           older := [] } := by
  refine ⟨?_⟩
  intro m hm g hg
  simp only [Hist.versions, List.mem_singleton] at hm
  subst hm
  exact updateMax_mem hg

theorem finv_step {h h' : Hist} {op : Op} (hi : FInv h) (hst : (stepG true (some h) op).1 = some h') : FInv h' := by
  cases op with
  | create stable f k rows =>
    simp only [stepG] at hst; cases hst; exact hi
  | append f rows =>
    simp only [stepG] at hst
    split at hst
    · cases hst; exact hi
    · split at hst
      · cases hst; exact hi
      · cases hst
        exact finv_push hi (fun g hg => updateMax_mem hg) (fun i hb => updateMax_mono hb)
  | overwrite f k rows =>
    simp only [stepG] at hst
    split at hst
    · cases hst; exact hi
    · cases hst
      exact finv_push hi (fun g hg => updateMax_mem hg) (fun i hb => updateMax_mono hb)
  | delete p =>
    simp only [stepG] at hst
    cases hst
    exact finv_push hi (fun g hg => updateMax_mem hg) (fun i hb => updateMax_mono hb)
  | restore v =>
    simp only [stepG] at hst
    split at hst
    · cases hst; exact hi
    · rename_i old hl
      cases hst
      refine finv_push hi ?_ ?_
      · intro g hg
        simp only [restored, if_true]
        exact optMax_right (hi.fbound old (lookup_mem hl).1 g hg)
      · intro i hb
        simp only [restored, if_true]
        exact optMax_right hb
  | restoreAt hv v =>
    simp only [stepG] at hst
    split at hst
    · cases hst; exact hi
    · split at hst
      · cases hst; exact hi
      · rename_i old hl
        cases hst
        refine finv_push hi ?_ ?_
        · intro g hg
          simp only [restored, if_true]
          exact optMax_right (hi.fbound old (lookup_mem hl).1 g hg)
        · intro i hb
          simp only [restored, if_true]
          exact optMax_right hb

/-! ### version numbers -/

def countdown : Nat → List Nat
  | 0 => []
  | n + 1 => (n + 1) :: countdown n

/-- versions are numbered `n, n-1, …, 1` -/
def Dense (h : Hist) : Prop := h.versions.map (·.version) = countdown h.versions.length

theorem dense_latest {h : Hist} (hd : Dense h) : h.latest.version = h.versions.length := by
  unfold Dense at hd
  simp only [Hist.versions, List.map_cons, List.length_cons, countdown] at hd ⊢
  exact (List.cons.inj hd).1

theorem dense_push {h : Hist} {m : Manifest} (hd : Dense h) (hv : m.version = h.latest.version + 1) : Dense (h.push m) := by
  have hl := dense_latest hd
  unfold Dense at hd ⊢
  rw [versions_push]
  simp only [List.map_cons, List.length_cons, countdown]
  rw [hd, hv, hl]

/-! ### reachable states -/

/-- what holds of every state a history can reach -/
def Good (s : Option Hist) : Prop :=
  ∀ h, s = some h → (h.stable = true → Inv h) ∧ FInv h ∧ Dense h

theorem good_step {s : Option Hist} (op : Op) (hg : Good s) : Good (stepG true s op).1 := by
  intro h' hst
  cases s with
  | none =>
    cases op with
    | create stable f k rows =>
      by_cases hf : f = 0
      · simp [stepG, hf] at hst
      · simp only [stepG, hf, if_false] at hst
        cases hst
        refine ⟨?_, finv_create stable f k rows, ?_⟩
        · intro hs; simp only at hs; subst hs; exact inv_create f k rows
        · simp [Dense, Hist.versions, countdown]
    | append f rows => simp [stepG] at hst
    | overwrite f k rows => simp [stepG] at hst
    | delete p => simp [stepG] at hst
    | restore v => simp [stepG] at hst
    | restoreAt hv v => simp [stepG] at hst
  | some h =>
    obtain ⟨h1, h2, h3⟩ := hg h rfl
    refine ⟨?_, finv_step h2 hst, ?_⟩
    · intro hs'
      by_cases hs : h.stable = true
      · exact (inv_step hs (h1 hs) hst).1
      · -- the flag never changes
        exfalso
        rcases stepG_shape true (some h) op with he | ⟨g, m, hg1, hg2, _⟩ | ⟨hn, _⟩
        · rw [he] at hst; cases hst; exact hs hs'
        · cases hg1; rw [hg2] at hst; cases hst; exact hs hs'
        · cases hn
    · rcases stepG_shape true (some h) op with he | ⟨g, m, hg1, hg2, hv⟩ | ⟨hn, _⟩
      · rw [he] at hst; cases hst; exact h3
      · cases hg1; rw [hg2] at hst; cases hst; exact dense_push h3 hv
      · cases hn

theorem good_runG (ops : List Op) {s : Option Hist} (hg : Good s) : Good (runG true s ops) := by
  induction ops generalizing s with
  | nil => exact hg
  | cons op ops ih => exact ih (good_step op hg)

theorem good_run (ops : List Op) : Good (run ops) :=
  good_runG ops (by intro h hh; cases hh)

end LanceModel.C07
