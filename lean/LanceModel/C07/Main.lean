import LanceModel.C07.Driver
def main : IO Unit := LanceModel.Util.runDriver LanceModel.C07.Driver.step none
