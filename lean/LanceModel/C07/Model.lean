import LanceModel.Table.Basic
/-
C07 model: a table history at the manifest level — create / append / overwrite / delete / restore with and without
stable row ids.

Mirrors (pinned commit + fix 0b56cc4):
  rust/lance/src/dataset/transaction.rs   Transaction::build_manifest (Append / Overwrite / Delete arms: fragment ids from
                                          `max_fragment_id + 1` (0 for Overwrite), `next_row_id` threading, the final
                                          `update_max_fragment_id`), fragments_with_ids, assign_row_ids,
                                          Transaction::restore_old_manifest (the old manifest re-published; since the fix
                                          with `next_row_id` / `max_fragment_id` raised to the latest manifest's marks)
  rust/lance/src/io/commit.rs             commit_transaction: `manifest.version = latest + 1`, Restore arm
  rust/lance-table/src/format/manifest.rs Manifest::new_from_previous (keeps max_fragment_id / next_row_id),
                                          update_max_fragment_id, max_fragment_id
  rust/lance/src/dataset/write/delete.rs  DeleteJob::execute_impl, apply_deletions
  rust/lance/src/dataset/fragment.rs      FileFragment::extend_deletions / write_deletions (a fully deleted fragment is removed)
  rust/lance/src/dataset.rs               Dataset::restore, Dataset::checkout_version (a missing version is `not_found`)
  rust/lance/src/dataset/write.rs         do_write_fragments for ONE input batch and the default (2.x) storage version:
                                          files of `max_rows_per_file` rows, the last one shorter (C11 proves the general splitter)

A data file is the list of rows written to it (file encodings: C25–C27).  `keep` selects the restore behaviour:
`true` = the code as it is now (marks raised), `false` = the pinned commit (old marks re-published) — kept only to state
the counterexample that motivated the fix.
-/
namespace LanceModel.C07
open LanceModel.Table

/-- a physical row of a data file, its stable row id (entry of the fragment's `row_id_meta` sequence; 0 when the table
    has no stable row ids) and whether the fragment's deletion vector covers it -/
structure PRow where
  cells : Row
  rid : Nat
  deleted : Bool
  deriving DecidableEq, Repr

structure Frag where
  id : Nat
  rows : List PRow
  deriving DecidableEq, Repr

/-- the fields of `Manifest` this property talks about -/
structure Manifest where
  version : Nat
  /-- the schema: `k` Int64 columns -/
  k : Nat
  frags : List Frag
  nextRowId : Nat
  /-- `Manifest::max_fragment_id` (`Option<u32>`) -/
  maxFragId : Option Nat
  deriving DecidableEq, Repr

/-- every manifest ever published, newest first; `stable` = FLAG_STABLE_ROW_IDS (fixed at creation: a write through a
    handle takes `use_stable_row_ids` from the handle's manifest, write/commit.rs) -/
structure Hist where
  stable : Bool
  latest : Manifest
  older : List Manifest
  deriving DecidableEq, Repr

def Hist.versions (h : Hist) : List Manifest := h.latest :: h.older

/-- `resolve_version_location` + `read_manifest` -/
def Hist.lookup (h : Hist) (v : Nat) : Option Manifest := h.versions.find? (fun m => m.version == v)

inductive Pred where
  | lt (x : Int)
  | ge (x : Int)
  | isIn (xs : List Int)
  | all
  deriving DecidableEq, Repr

inductive Op where
  | create (stable : Bool) (f k : Nat) (rows : List Row)
  | append (f : Nat) (rows : List Row)
  | overwrite (f k : Nat) (rows : List Row)
  | delete (p : Pred)
  | restore (v : Nat)
  /-- a Restore transaction built on a handle at version `hv` (its read version) and committed later, possibly after
      other writers published newer versions: `CommitBuilder::new(handle@hv).execute(Transaction::new(hv, Restore{v}))`.
      `Dataset::restore()` is the case `hv` = latest. -/
  | restoreAt (hv v : Nat)
  deriving DecidableEq, Repr

inductive Res where
  | ok
  | err (kind : String)
  deriving DecidableEq, Repr

/-! ## writing -/

/-- write.rs `do_write_fragments` on one batch: consecutive files of `f` rows (`f ≥ 1`; fuel = number of rows) -/
def chunksFuel {α : Type} (f : Nat) : Nat → List α → List (List α)
  | 0, _ => []
  | fuel + 1, xs => if xs.isEmpty then [] else xs.take f :: chunksFuel f fuel (xs.drop f)

def chunks {α : Type} (f : Nat) (xs : List α) : List (List α) := chunksFuel f xs.length xs

/-- one fragment's `RowIdSequence::from(next .. next + physical_rows)` -/
def numberRows (next : Nat) : List Row → List PRow
  | [] => []
  | r :: rs => { cells := r, rid := next, deleted := false } :: numberRows (next + 1) rs

/-- transaction.rs `assign_row_ids`: fragment after fragment, `next_row_id += physical_rows` -/
def assignRowIds (next : Nat) : List (List Row) → List (List PRow)
  | [] => []
  | f :: fs => numberRows next f :: assignRowIds (next + f.length) fs

/-- no stable row ids: fragments carry no `row_id_meta` -/
def plainRows (files : List (List Row)) : List (List PRow) :=
  files.map (List.map fun r => { cells := r, rid := 0, deleted := false })

/-- transaction.rs `fragments_with_ids` -/
def assignFragIds (start : Nat) : List (List PRow) → List Frag
  | [] => []
  | f :: fs => { id := start, rows := f } :: assignFragIds (start + 1) fs

/-- the new fragments of a write: ids from `fragStart`, row ids from `next` when the table has stable row ids -/
def newFrags (stable : Bool) (fragStart next : Nat) (files : List (List Row)) : List Frag :=
  assignFragIds fragStart (if stable then assignRowIds next files else plainRows files)

/-- `*next_row_id += physical_rows` summed over the new fragments; untouched without stable row ids -/
def bumpNext (stable : Bool) (next : Nat) (files : List (List Row)) : Nat :=
  if stable then next + natSum (files.map List.length) else next

def maxIdOf : List Frag → Option Nat
  | [] => none
  | f :: fs =>
    match maxIdOf fs with
    | none => some f.id
    | some m => some (max f.id m)

/-- manifest.rs `update_max_fragment_id`: nothing for an empty fragment list; else the mark is only ever raised -/
def updateMax (hw : Option Nat) (frags : List Frag) : Option Nat :=
  match maxIdOf frags with
  | none => hw
  | some m =>
    match hw with
    | none => some m
    | some h => if m > h then some m else some h

/-- build_manifest: `current_manifest.and_then(|m| m.max_fragment_id()).map(|id| id + 1).unwrap_or(0)` -/
def startId (hw : Option Nat) : Nat :=
  match hw with
  | none => 0
  | some h => h + 1

/-! ## delete -/

/-- SQL three-valued logic on `c0`: NULL never matches a comparison; `true` matches everything -/
def Pred.matches (p : Pred) (c0 : Cell) : Bool :=
  match p, c0 with
  | .all, _ => true
  | _, none => false
  | .lt x, some v => decide (v < x)
  | .ge x, some v => decide (x ≤ v)
  | .isIn xs, some v => xs.contains v

def hit (p : Pred) (r : PRow) : Bool := !r.deleted && p.matches (cellAt r.cells 0)

def markRow (p : Pred) (r : PRow) : PRow := if hit p r then { r with deleted := true } else r

/-- delete.rs `apply_deletions` for one fragment: untouched when no live row matches (`Unchanged`), removed when the
    extended deletion vector covers every physical row (`write_deletions` → `None`), otherwise `Modified` -/
def deleteFrag (p : Pred) (f : Frag) : Option Frag :=
  if f.rows.any (hit p) then
    (if (f.rows.map (markRow p)).all (·.deleted) then none else some { f with rows := f.rows.map (markRow p) })
  else some f

/-- build_manifest, Delete arm.  The literal `true` predicate removes every fragment (`deleted_fragment_ids` = all). -/
def deleteFrags (p : Pred) (frags : List Frag) : List Frag :=
  if p = .all then [] else frags.filterMap (deleteFrag p)

/-! ## restore -/

/-- `Option<u32>::max` -/
def optMax : Option Nat → Option Nat → Option Nat
  | none, b => b
  | a, none => a
  | some a, some b => some (max a b)

/-- restore_old_manifest + `manifest.version = latest + 1`: the old manifest with a new version number; with `keep`
    (fix 0b56cc4) the two high-water marks are raised to the latest manifest's, without it they are the old ones -/
def restored (keep : Bool) (latest old : Manifest) : Manifest :=
  { old with
    version := latest.version + 1
    nextRowId := if keep then max old.nextRowId latest.nextRowId else old.nextRowId
    maxFragId := if keep then optMax old.maxFragId latest.maxFragId else old.maxFragId }

/-! ## one operation -/

def Hist.push (h : Hist) (m : Manifest) : Hist := { h with latest := m, older := h.latest :: h.older }

/-- one public call on the table; `none` = no table yet.  Errors leave the state unchanged. -/
def stepG (keep : Bool) (s : Option Hist) (op : Op) : Option Hist × Res :=
  match s, op with
  | none, .create stable f k rows =>
    if f = 0 then (none, .err "invalid_input")
    else
      (some { stable := stable
              latest := { version := 1, k := k
                          frags := newFrags stable 0 0 (chunks f rows)
                          nextRowId := bumpNext stable 0 (chunks f rows)
                          maxFragId := updateMax none (newFrags stable 0 0 (chunks f rows)) }
              older := [] }, .ok)
  | none, _ => (none, .err "no_table")
  | some h, .create _ _ _ _ => (some h, .err "already_exists")
  | some h, .append f rows =>
    if rows.any (fun r => r.length != h.latest.k) then (some h, .err "width")
    else if f = 0 then (some h, .err "invalid_input")
    else
      (some (h.push
        { version := h.latest.version + 1, k := h.latest.k
          frags := h.latest.frags ++ newFrags h.stable (startId h.latest.maxFragId) h.latest.nextRowId (chunks f rows)
          nextRowId := bumpNext h.stable h.latest.nextRowId (chunks f rows)
          maxFragId := updateMax h.latest.maxFragId
            (h.latest.frags ++ newFrags h.stable (startId h.latest.maxFragId) h.latest.nextRowId (chunks f rows)) }), .ok)
  | some h, .overwrite f k rows =>
    if f = 0 then (some h, .err "invalid_input")
    else
      (some (h.push
        { version := h.latest.version + 1, k := k
          frags := newFrags h.stable 0 h.latest.nextRowId (chunks f rows)
          nextRowId := bumpNext h.stable h.latest.nextRowId (chunks f rows)
          maxFragId := updateMax h.latest.maxFragId (newFrags h.stable 0 h.latest.nextRowId (chunks f rows)) }), .ok)
  | some h, .delete p =>
    (some (h.push
      { h.latest with
        version := h.latest.version + 1
        frags := deleteFrags p h.latest.frags
        maxFragId := updateMax h.latest.maxFragId (deleteFrags p h.latest.frags) }), .ok)
  | some h, .restore v =>
    match h.lookup v with
    | none => (some h, .err "not_found")
    | some old => (some (h.push (restored keep h.latest old)), .ok)
  | some h, .restoreAt hv v =>
    -- commit_transaction: the handle's version must exist (`checkout_version(read_version)`); the loop then loads the
    -- LATEST dataset (`load_and_sort_new_transactions`; Restore is compatible with every concurrent operation,
    -- `check_restore_txn`) and builds the manifest inside the loop: version and high-water marks come from the latest
    -- manifest at commit time, schema and fragments from the target version
    match h.lookup hv with
    | none => (some h, .err "not_found")
    | some _ =>
      match h.lookup v with
      | none => (some h, .err "other")  -- read_manifest of a missing file: an IO error, not `NotFound`
      | some old => (some (h.push (restored keep h.latest old)), .ok)

/-- the code as it is now -/
def step (s : Option Hist) (op : Op) : Option Hist × Res := stepG true s op

def runG (keep : Bool) (s : Option Hist) : List Op → Option Hist
  | [] => s
  | op :: ops => runG keep (stepG keep s op).1 ops

/-- NOT the code: a commit loop that builds the Restore manifest once, before loading the concurrent transactions, takes
    the marks from the manifest at the transaction's READ version.  Kept only to state `stale_marks_counterexample`. -/
def stepStaleMarks (s : Option Hist) (op : Op) : Option Hist × Res :=
  match s, op with
  | some h, .restoreAt hv v =>
    match h.lookup hv with
    | none => (some h, .err "not_found")
    | some hm =>
      match h.lookup v with
      | none => (some h, .err "other")
      | some old => (some (h.push { restored true hm old with version := h.latest.version + 1 }), .ok)
  | s, op => stepG true s op

def runStaleMarks (s : Option Hist) : List Op → Option Hist
  | [] => s
  | op :: ops => runStaleMarks (stepStaleMarks s op).1 ops

/-- a history: any list of operations from "no table" -/
def run (ops : List Op) : Option Hist := runG true none ops

/-! ## observations -/

def rowAddr (fragId off : Nat) : Nat := fragId * 4294967296 + off

/-- the rows a scan of one fragment yields, each followed by its `_rowid` (the stable id, else the row address) -/
def scanRows (stable : Bool) (fragId : Nat) : Nat → List PRow → List Row
  | _, [] => []
  | off, r :: rs =>
    if r.deleted then scanRows stable fragId (off + 1) rs
    else (r.cells ++ [some (Int.ofNat (if stable then r.rid else rowAddr fragId off))]) :: scanRows stable fragId (off + 1) rs

/-- ordered scan with `_rowid` -/
def scan (stable : Bool) (m : Manifest) : List Row := (m.frags.map fun f => scanRows stable f.id 0 f.rows).flatten

/-- the table contents: live rows in fragment order -/
def liveCells (m : Manifest) : List Row :=
  (m.frags.map fun f => (f.rows.filter (fun r => !r.deleted)).map (·.cells)).flatten

/-- per fragment (id, physical rows, deleted rows) -/
def fragInfo (m : Manifest) : List (Nat × Nat × Nat) :=
  m.frags.map fun f => (f.id, f.rows.length, (f.rows.filter (·.deleted)).length)

/-- every physical row (deleted ones included) of a fragment list as (row id, cells) -/
def idsOf (frags : List Frag) : List (Nat × Row) := (frags.map fun f => f.rows.map fun r => (r.rid, r.cells)).flatten

/-- every physical row of a version as (row id, cells) -/
def ids (m : Manifest) : List (Nat × Row) := idsOf m.frags

end LanceModel.C07
