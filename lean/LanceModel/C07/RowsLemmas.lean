import LanceModel.C07.Model
/-
C07: what the operations do to the table contents (`liveCells`): a write stores exactly its rows, in order; a delete
is the SQL filter.
-/
namespace LanceModel.C07
open LanceModel.Table

def liveRows (rows : List PRow) : List Row := (rows.filter (fun r => !r.deleted)).map (·.cells)

def liveOf (frags : List Frag) : List Row := (frags.map fun f => liveRows f.rows).flatten

theorem liveCells_eq (m : Manifest) : liveCells m = liveOf m.frags := rfl

theorem liveOf_append (a b : List Frag) : liveOf (a ++ b) = liveOf a ++ liveOf b := by simp [liveOf]

/-! ### chunks -/

theorem chunksFuel_flatten {α : Type} (f : Nat) (hf : 0 < f) (fuel : Nat) (xs : List α) (hx : xs.length ≤ fuel) :
    (chunksFuel f fuel xs).flatten = xs := by
  induction fuel generalizing xs with
  | zero =>
    have : xs = [] := List.eq_nil_of_length_eq_zero (by omega)
    subst this; simp [chunksFuel]
  | succ n ih =>
    simp only [chunksFuel]
    split
    · rename_i he; simp only [List.isEmpty_iff] at he; subst he; simp
    · rename_i he
      have hne : xs ≠ [] := by simpa using he
      have hpos : 0 < xs.length := List.length_pos_iff.mpr hne
      simp only [List.flatten_cons]
      rw [ih (xs.drop f) (by simp only [List.length_drop]; omega)]
      exact List.take_append_drop f xs

theorem chunks_flatten {α : Type} (f : Nat) (hf : 0 < f) (xs : List α) : (chunks f xs).flatten = xs :=
  chunksFuel_flatten f hf xs.length xs (Nat.le_refl _)

theorem chunksFuel_nonempty {α : Type} (f : Nat) (hf : 0 < f) (fuel : Nat) (xs : List α) :
    ∀ c ∈ chunksFuel f fuel xs, c ≠ [] ∧ c.length ≤ f := by
  induction fuel generalizing xs with
  | zero => simp [chunksFuel]
  | succ n ih =>
    intro c hc
    simp only [chunksFuel] at hc
    split at hc
    · simp at hc
    · rename_i he
      have hne : xs ≠ [] := by simpa using he
      have hpos : 0 < xs.length := List.length_pos_iff.mpr hne
      simp only [List.mem_cons] at hc
      rcases hc with rfl | hc
      · refine ⟨?_, by simp [List.length_take]; omega⟩
        intro h0
        have : (xs.take f).length = 0 := by rw [h0]; rfl
        simp only [List.length_take] at this
        omega
      · exact ih _ c hc

/-! ### new fragments hold exactly the written rows -/

theorem liveRows_numberRows (next : Nat) (rows : List Row) : liveRows (numberRows next rows) = rows := by
  induction rows generalizing next with
  | nil => rfl
  | cons r rs ih =>
    have := ih (next + 1)
    simp only [liveRows] at this
    simp [numberRows, liveRows, this]

theorem liveOf_assign_stable (start next : Nat) (files : List (List Row)) :
    liveOf (assignFragIds start (assignRowIds next files)) = files.flatten := by
  induction files generalizing start next with
  | nil => rfl
  | cons x xs ih =>
    have := ih (start + 1) (next + x.length)
    simp only [liveOf] at this
    simp [assignRowIds, assignFragIds, liveOf, liveRows_numberRows, this]

theorem liveRows_plain (rows : List Row) :
    liveRows (rows.map fun r => ({ cells := r, rid := 0, deleted := false } : PRow)) = rows := by
  induction rows with
  | nil => rfl
  | cons r rs ih =>
    simp only [liveRows] at ih
    simp [liveRows, ih]

theorem liveOf_assign_plain (start : Nat) (files : List (List Row)) :
    liveOf (assignFragIds start (plainRows files)) = files.flatten := by
  induction files generalizing start with
  | nil => rfl
  | cons x xs ih =>
    have := ih (start + 1)
    simp only [liveOf, plainRows] at this
    simp [plainRows, assignFragIds, liveOf, liveRows_plain, this]

theorem liveOf_newFrags (stable : Bool) (start next : Nat) (files : List (List Row)) :
    liveOf (newFrags stable start next files) = files.flatten := by
  unfold newFrags
  cases stable
  · simpa using liveOf_assign_plain start files
  · simpa using liveOf_assign_stable start next files

/-! ### delete = filter -/

def keeps (p : Pred) (r : Row) : Bool := !p.matches (cellAt r 0)

theorem liveRows_mark (p : Pred) (rows : List PRow) :
    liveRows (rows.map (markRow p)) = (liveRows rows).filter (keeps p) := by
  induction rows with
  | nil => rfl
  | cons r rs ih =>
    simp only [liveRows] at ih
    cases hd : r.deleted
    · cases hm : p.matches (cellAt r.cells 0)
      · have hmr : markRow p r = r := by simp [markRow, hit, hd, hm]
        simp [liveRows, hmr, hd, keeps, hm, ih]
      · have hmr : (markRow p r).deleted = true := by simp [markRow, hit, hd, hm]
        simp [liveRows, hmr, hd, keeps, hm, ih]
    · have hmr : markRow p r = r := by simp [markRow, hit, hd]
      simp [liveRows, hmr, hd, ih]

theorem map_mark_of_no_hit (p : Pred) (rows : List PRow) (hn : rows.any (hit p) = false) :
    rows.map (markRow p) = rows := by
  induction rows with
  | nil => rfl
  | cons r rs ih =>
    simp only [List.any_cons, Bool.or_eq_false_iff] at hn
    simp [markRow, hn.1, ih hn.2]

theorem liveRows_all_deleted (rows : List PRow) (ha : rows.all (·.deleted) = true) : liveRows rows = [] := by
  induction rows with
  | nil => rfl
  | cons r rs ih =>
    simp only [List.all_cons, Bool.and_eq_true] at ha
    simp only [liveRows] at ih
    simp [liveRows, ha.1, ih ha.2]

def liveOpt : Option Frag → List Row
  | none => []
  | some g => liveRows g.rows

theorem liveOpt_deleteFrag (p : Pred) (f : Frag) : liveOpt (deleteFrag p f) = (liveRows f.rows).filter (keeps p) := by
  unfold deleteFrag
  by_cases h1 : f.rows.any (hit p) = true
  · simp only [h1, if_true]
    by_cases h2 : (f.rows.map (markRow p)).all (·.deleted) = true
    · simp only [h2, if_true, liveOpt]
      rw [← liveRows_mark, liveRows_all_deleted _ h2]
    · simp only [h2, liveOpt]
      exact liveRows_mark p f.rows
  · have h1' : f.rows.any (hit p) = false := by simpa using h1
    simp only [h1', liveOpt]
    have := liveRows_mark p f.rows
    rw [map_mark_of_no_hit p f.rows h1'] at this
    simpa using this

theorem liveOf_filterMap (p : Pred) (frags : List Frag) :
    liveOf (frags.filterMap (deleteFrag p)) = (liveOf frags).filter (keeps p) := by
  induction frags with
  | nil => rfl
  | cons f fs ih =>
    have hf := liveOpt_deleteFrag p f
    simp only [liveOf] at ih
    simp only [List.filterMap_cons]
    split
    · rename_i hn
      rw [hn] at hf
      simp only [liveOpt] at hf
      simp [liveOf, ih, ← hf]
    · rename_i g hg
      rw [hg] at hf
      simp only [liveOpt] at hf
      simp [liveOf, ih, ← hf]

theorem liveOf_deleteFrags (p : Pred) (frags : List Frag) :
    liveOf (deleteFrags p frags) = (liveOf frags).filter (keeps p) := by
  unfold deleteFrags
  split
  · rename_i hp; subst hp
    simp [liveOf, keeps, Pred.matches]
  · exact liveOf_filterMap p frags

end LanceModel.C07
