/-
C37 model: feature flags (rust/lance-table/src/feature_flags.rs), storage version names and numbers
(rust/lance-encoding/src/version.rs), `Fragment::try_infer_version`
(rust/lance-table/src/format/fragment.rs), `DataStorageFormat::{new, lance_file_version}`
(rust/lance-table/src/format/manifest.rs) and `check_storage_version` (rust/lance/src/io/commit.rs).

Import-free (core only) so that the driver links natively.

Modelling choices
* `u64` flag words are `Nat` (the only arithmetic is `|` of constants, `&` with a constant and `<`;
  none of them can overflow); `u32` version numbers are `Nat`.
* Strings are `List Char` (`Str`), because the kernel can evaluate list functions on literals but not
  the byte-array implementation of `String`; the driver converts.  `str::to_lowercase` is modelled by
  the ASCII map `Char.toLower` (see `lower`): on every string that contains no non-ASCII character both
  agree; a non-ASCII character never lowercases to one of the ASCII letters that occur in a version
  name except U+212A KELVIN SIGN ↦ `k`, and no version name contains `k` — the correspondence run
  feeds such strings to the real parser.
* The match tables are *data* (`…Table`); the functions look their argument up in the table, first
  match wins, exactly like a Rust `match` with literal patterns.  `Gen.lean` (regenerated from the
  Rust source on every run) is proved equal to the rendering of these tables in `Props.lean`.
* The manifest is the handful of fields the modelled functions read or write.
-/
namespace LanceModel.C37

abbrev Str := List Char

/-! ## Feature flags — rust/lance-table/src/feature_flags.rs -/

def FLAG_DELETION_FILES : Nat := 1
def FLAG_STABLE_ROW_IDS : Nat := 2
def FLAG_USE_V2_FORMAT_DEPRECATED : Nat := 4
def FLAG_TABLE_CONFIG : Nat := 8
def FLAG_BASE_PATHS : Nat := 16
def FLAG_DISABLE_TRANSACTION_FILE : Nat := 32
/-- "The first bit that is unknown as a feature flag" -/
def FLAG_UNKNOWN : Nat := 64

/-- the constants by name, in source order (tied to `Gen.flags`) -/
def flagTable : List (String × Nat) :=
  [("FLAG_DELETION_FILES", FLAG_DELETION_FILES), ("FLAG_STABLE_ROW_IDS", FLAG_STABLE_ROW_IDS),
   ("FLAG_USE_V2_FORMAT_DEPRECATED", FLAG_USE_V2_FORMAT_DEPRECATED), ("FLAG_TABLE_CONFIG", FLAG_TABLE_CONFIG),
   ("FLAG_BASE_PATHS", FLAG_BASE_PATHS), ("FLAG_DISABLE_TRANSACTION_FILE", FLAG_DISABLE_TRANSACTION_FILE),
   ("FLAG_UNKNOWN", FLAG_UNKNOWN)]

/-- feature_flags.rs: `can_read_dataset(reader_flags) = reader_flags < FLAG_UNKNOWN` -/
def canReadDataset (readerFlags : Nat) : Bool := decide (readerFlags < FLAG_UNKNOWN)

/-- feature_flags.rs: `can_write_dataset(writer_flags) = writer_flags < FLAG_UNKNOWN` -/
def canWriteDataset (writerFlags : Nat) : Bool := decide (writerFlags < FLAG_UNKNOWN)

/-- feature_flags.rs: `has_deprecated_v2_feature_flag` -/
def hasDeprecatedV2FeatureFlag (writerFlags : Nat) : Bool :=
  writerFlags &&& FLAG_USE_V2_FORMAT_DEPRECATED != 0

/-- fragment.rs `DataFile`: only the two version numbers -/
structure DataFile where
  major : Nat
  minor : Nat
deriving Repr, DecidableEq

/-- fragment.rs `Fragment`: data files, `deletion_file.is_some()`, `row_id_meta.is_some()` -/
structure Frag where
  files : List DataFile
  hasDeletionFile : Bool
  hasRowIdMeta : Bool
deriving Repr, DecidableEq

/-- manifest.rs `Manifest`: fragments, config (keys only; values never matter), base path ids,
the two flag words, `data_storage_format.version` -/
structure Manifest where
  fragments : List Frag
  config : List Nat
  basePaths : List Nat
  readerFlags : Nat
  writerFlags : Nat
  storageVersion : Str
deriving Repr, DecidableEq

/-- `if c { w |= f }` -/
def orIf (c : Bool) (w f : Nat) : Nat := if c then w ||| f else w

/-- the reader word `apply_feature_flags` builds, statement by statement, from the three conditions -/
def readerWord (hasDel stable hasBase : Bool) : Nat :=
  orIf hasBase (orIf stable (orIf hasDel 0 FLAG_DELETION_FILES) FLAG_STABLE_ROW_IDS) FLAG_BASE_PATHS

/-- the writer word `apply_feature_flags` builds from the five conditions -/
def writerWord (hasDel stable hasConfig hasBase disableTxn : Bool) : Nat :=
  orIf disableTxn
    (orIf hasBase
      (orIf hasConfig (orIf stable (orIf hasDel 0 FLAG_DELETION_FILES) FLAG_STABLE_ROW_IDS) FLAG_TABLE_CONFIG)
      FLAG_BASE_PATHS)
    FLAG_DISABLE_TRANSACTION_FILE

def Manifest.hasDeletionFiles (m : Manifest) : Bool := m.fragments.any (·.hasDeletionFile)
def Manifest.hasRowIds (m : Manifest) : Bool := m.fragments.any (·.hasRowIdMeta)
def Manifest.allRowIds (m : Manifest) : Bool := m.fragments.all (·.hasRowIdMeta)

/-- feature_flags.rs: `apply_feature_flags(&mut manifest, enable_stable_row_id, disable_transaction_file)`.
Returns the manifest as the call leaves it and whether the call returned `Ok`.  On the
"All fragments must have row ids" error the flags have already been reset and the deletion bit set. -/
def applyFeatureFlags (m : Manifest) (enableStable disableTxn : Bool) : Manifest × Bool :=
  if (m.hasRowIds || enableStable) && !m.allRowIds then
    ({ m with readerFlags := readerWord m.hasDeletionFiles false false,
              writerFlags := writerWord m.hasDeletionFiles false false false false }, false)
  else
    ({ m with readerFlags := readerWord m.hasDeletionFiles (m.hasRowIds || enableStable) (!m.basePaths.isEmpty),
              writerFlags := writerWord m.hasDeletionFiles (m.hasRowIds || enableStable) (!m.config.isEmpty)
                               (!m.basePaths.isEmpty) disableTxn }, true)

/-! ## Storage versions — rust/lance-encoding/src/version.rs -/

/-- `enum LanceFileVersion`, in declaration order -/
inductive Ver where
  | legacy | v2_0 | stable | v2_1 | next | v2_2
deriving Repr, DecidableEq, Inhabited

namespace Ver

/-- declaration order; the derived `Ord` compares positions in this list (tied to `Gen.variants`) -/
def all : List Ver := [legacy, v2_0, stable, v2_1, next, v2_2]

/-- Rust identifier of the variant -/
def name : Ver → String
  | legacy => "Legacy" | v2_0 => "V2_0" | stable => "Stable" | v2_1 => "V2_1" | next => "Next" | v2_2 => "V2_2"

/-- position in the declaration = the derived `Ord` -/
def rank : Ver → Nat
  | legacy => 0 | v2_0 => 1 | stable => 2 | v2_1 => 3 | next => 4 | v2_2 => 5

/-- `#[default]` -/
def default : Ver := v2_0

/-- explicit arms of `resolve` (wildcard: `*self`) -/
def resolveTable : List (Ver × Ver) := [(stable, v2_0), (next, v2_1)]

/-- version.rs: `LanceFileVersion::resolve` -/
def resolve (v : Ver) : Ver :=
  match resolveTable.lookup v with
  | some r => r
  | none => v

/-- version.rs: `is_unstable`: `self >= &Self::Next` -/
def isUnstable (v : Ver) : Bool := decide (v.rank ≥ next.rank)

/-- arms of `try_from_major_minor` (wildcard: `Err(InvalidInput)`) -/
def majorMinorTable : List ((Nat × Nat) × Ver) :=
  [((0, 0), legacy), ((0, 1), legacy), ((0, 2), legacy), ((0, 3), v2_0), ((2, 0), v2_0), ((2, 1), v2_1), ((2, 2), v2_2)]

/-- version.rs: `try_from_major_minor`; `none` = `Err(InvalidInput)` -/
def tryFromMajorMinor (major minor : Nat) : Option Ver := majorMinorTable.lookup (major, minor)

/-- arms of `to_numbers`; `none` = `self.resolve().to_numbers()` -/
def numbersTable : List (Ver × Option (Nat × Nat)) :=
  [(legacy, some (0, 2)), (v2_0, some (2, 0)), (v2_1, some (2, 1)), (v2_2, some (2, 2)), (stable, none), (next, none)]

/-- one level of `to_numbers` on a version whose arm is literal (`(0, 0)` is never produced: every
variant has an arm and every resolved variant has a literal arm, see `Props.numbers_total`) -/
def literalNumbers (v : Ver) : Option (Nat × Nat) :=
  match numbersTable.lookup v with
  | some (some p) => some p
  | _ => none

/-- version.rs: `to_numbers`; `none` would mean a missing arm or a `resolve` cycle (never happens) -/
def toNumbers? (v : Ver) : Option (Nat × Nat) :=
  match numbersTable.lookup v with
  | some (some p) => some p
  | some none => literalNumbers (resolve v)
  | none => none

/-- arms of `Display::fmt` -/
def displayTable : List (Ver × Str) :=
  [(legacy, "0.1".toList), (v2_0, "2.0".toList), (v2_1, "2.1".toList), (v2_2, "2.2".toList),
   (stable, "stable".toList), (next, "next".toList)]

/-- version.rs: `Display::fmt`; `none` would mean a missing arm (never happens) -/
def display? (v : Ver) : Option Str := displayTable.lookup v

/-- arms of `from_str`, in order (wildcard: `Err(InvalidInput)`) -/
def fromStrTable : List (Str × Ver) :=
  [("0.1".toList, legacy), ("2.0".toList, v2_0), ("2.1".toList, v2_1), ("2.2".toList, v2_2),
   ("stable".toList, stable), ("legacy".toList, legacy), ("next".toList, next), ("0.3".toList, v2_0)]

end Ver

/-- `str::to_lowercase`, ASCII part -/
def lower (s : Str) : Str := s.map Char.toLower

/-- version.rs: `FromStr::from_str`: `match value.to_lowercase().as_str()`; `none` = `Err(InvalidInput)` -/
def Ver.fromStr (s : Str) : Option Ver := Ver.fromStrTable.lookup (lower s)

/-- total wrappers used by the rest of the model; the fallbacks are unreachable
(`Props.display_total`, `Props.numbers_total`) -/
def Ver.display (v : Ver) : Str :=
  match v.display? with
  | some s => s
  | none => []

def Ver.toNumbers (v : Ver) : Nat × Nat :=
  match v.toNumbers? with
  | some p => p
  | none => (0, 0)

/-- manifest.rs: `DataStorageFormat::new(version).version = version.resolve().to_string()` -/
def dataStorageFormatNew (v : Ver) : Str := v.resolve.display

/-! ## try_infer_version / check_storage_version -/

/-- the error kinds that can come out of the modelled functions -/
inductive Err where
  | invalidInput   -- `Error::InvalidInput`
  | internal       -- `Error::Internal`
deriving Repr, DecidableEq

def Err.name : Err → String
  | .invalidInput => "invalid_input"
  | .internal => "internal"

def DataFile.version (f : DataFile) : Option Ver := Ver.tryFromMajorMinor f.major f.minor

/-- all data files in fragment order -/
def allFiles (frags : List Frag) : List DataFile := frags.flatMap (·.files)

/-- fragment.rs: `Fragment::try_infer_version`.  The sample file is the first file of the first
fragment that has one = the head of `allFiles`; an unknown number pair and a mixture both give
`Error::InvalidInput`. -/
def tryInferVersion (frags : List Frag) : Except Err (Option Ver) :=
  match allFiles frags with
  | [] => .ok none
  | f0 :: rest =>
    match f0.version with
    | none => .error .invalidInput
    | some v => if rest.all (fun f => f.version == some v) then .ok (some v) else .error .invalidInput

/-- rust/lance/src/io/commit.rs: `check_storage_version(&mut manifest)`.  The label is resolved
(`stable` ↦ 2.0, `next` ↦ 2.1) before it is compared with the file versions. -/
def checkStorageVersion (m : Manifest) : Except Err Manifest :=
  match Ver.fromStr m.storageVersion with
  | none => .error .invalidInput
  | some label =>
    if label.resolve = Ver.legacy then
      match tryInferVersion m.fragments with
      | .error _ => .error .internal
      | .ok none => .ok m
      | .ok (some actual) =>
        if actual.rank > label.resolve.rank then .ok { m with storageVersion := dataStorageFormatNew actual }
        else .ok m
    else
      match tryInferVersion m.fragments with
      | .error e => .error e
      | .ok none => .ok m
      | .ok (some actual) => if actual ≠ label.resolve then .error .internal else .ok m

/-! ## The commit gate and histories

`commit_transaction` / `commit_detached_transaction` (rust/lance/src/io/commit.rs) run
`check_storage_version` on the candidate manifest and then `write_manifest_file`
(rust/lance/src/dataset.rs) runs `apply_feature_flags` (with `auto_set_feature_flags`, the default)
before the manifest is published.  `commitGate` is that composition; the candidate manifest is
arbitrary (whatever `build_manifest` produced). -/

def commitGate (cand : Manifest) (enableStable disableTxn : Bool) : Option Manifest :=
  match checkStorageVersion cand with
  | .error _ => none
  | .ok m =>
    match applyFeatureFlags m enableStable disableTxn with
    | (m', true) => some m'
    | (_, false) => none

/-- one step of a history: an arbitrary function proposes the next manifest from the current one -/
structure Proposal where
  build : Manifest → Manifest
  enableStable : Bool
  disableTxn : Bool

/-- the published manifests of a history, newest first; a refused proposal leaves the table unchanged -/
def runHistory (cur : Manifest) (published : List Manifest) : List Proposal → List Manifest
  | [] => published
  | p :: ps =>
    match commitGate (p.build cur) p.enableStable p.disableTxn with
    | some m => runHistory m (m :: published) ps
    | none => runHistory cur published ps

/-! ## A small table model for the history part of the correspondence run

One `write` produces one fragment whose rows carry consecutive integer ids; `delete lo hi` removes the
ids in `[lo, hi)`.  A fragment that loses some rows gets a deletion file, a fragment that loses all of
its rows is dropped (`Transaction::build_manifest`, `Operation::Delete`).  Config keys are upserted /
deleted.  This is deliberately coarse: it predicts exactly the manifest fields `apply_feature_flags`
and `check_storage_version` read. -/

structure HFrag where
  live : List Nat
  hasDel : Bool
  ver : Ver
deriving Repr, DecidableEq

structure HState where
  frags : List HFrag
  stable : Bool
  config : List Nat
  ver : Ver
  nextId : Nat
  basePaths : List Nat
deriving Repr, DecidableEq

def rangeFrom (lo : Nat) : Nat → List Nat
  | 0 => []
  | n + 1 => lo :: rangeFrom (lo + 1) n

def HState.create (rows : Nat) (v : Ver) (stable : Bool) : HState :=
  { frags := [⟨rangeFrom 0 rows, false, v.resolve⟩], stable := stable, config := [], ver := v.resolve,
    nextId := rows, basePaths := [] }

def HState.append (s : HState) (rows : Nat) : HState :=
  { s with frags := s.frags ++ [⟨rangeFrom s.nextId rows, false, s.ver⟩], nextId := s.nextId + rows }

def HState.overwrite (s : HState) (rows : Nat) (v : Ver) : HState :=
  { s with frags := [⟨rangeFrom s.nextId rows, false, v.resolve⟩], ver := v.resolve, nextId := s.nextId + rows }

def HFrag.delete (f : HFrag) (lo hi : Nat) : Option HFrag :=
  if f.live.all (fun x => !(decide (lo ≤ x) && decide (x < hi))) then some f
  else if f.live.all (fun x => decide (lo ≤ x) && decide (x < hi)) then none
  else some { f with live := f.live.filter (fun x => !(decide (lo ≤ x) && decide (x < hi))), hasDel := true }

def HState.delete (s : HState) (lo hi : Nat) : HState :=
  { s with frags := s.frags.filterMap (fun f => f.delete lo hi) }

def HState.setConfig (s : HState) (k : Nat) : HState :=
  if s.config.contains k then s else { s with config := s.config ++ [k] }

def HState.unsetConfig (s : HState) (k : Nat) : HState :=
  { s with config := s.config.filter (· != k) }

/-- `Dataset::add_bases` with one new base path; registering the same one again is refused -/
def HState.addBase (s : HState) (k : Nat) : HState :=
  if s.basePaths.contains k then s else { s with basePaths := s.basePaths ++ [k] }

/-- the manifest of a table state, flags as the commit path writes them -/
def HState.manifest (s : HState) : Manifest × Bool :=
  applyFeatureFlags
    { fragments := s.frags.map (fun f =>
        { files := [⟨f.ver.toNumbers.1, f.ver.toNumbers.2⟩], hasDeletionFile := f.hasDel, hasRowIdMeta := s.stable }),
      config := s.config, basePaths := s.basePaths, readerFlags := 0, writerFlags := 0,
      storageVersion := dataStorageFormatNew s.ver }
    s.stable false

end LanceModel.C37
