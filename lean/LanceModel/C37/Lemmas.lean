import LanceModel.C37.Model
/-!
C37 helper lemmas: bit facts about the two flag words, list facts about `try_infer_version`.
-/
namespace LanceModel.C37

/-! ## flag words -/

theorem readerWord_bits (a b c : Bool) :
    (readerWord a b c &&& FLAG_DELETION_FILES ≠ 0 ↔ a = true) ∧
    (readerWord a b c &&& FLAG_STABLE_ROW_IDS ≠ 0 ↔ b = true) ∧
    (readerWord a b c &&& FLAG_BASE_PATHS ≠ 0 ↔ c = true) ∧
    readerWord a b c &&& FLAG_USE_V2_FORMAT_DEPRECATED = 0 ∧
    readerWord a b c &&& FLAG_TABLE_CONFIG = 0 ∧
    readerWord a b c &&& FLAG_DISABLE_TRANSACTION_FILE = 0 ∧
    readerWord a b c < FLAG_UNKNOWN := by
  cases a <;> cases b <;> cases c <;> decide

theorem writerWord_bits (a b c d e : Bool) :
    (writerWord a b c d e &&& FLAG_DELETION_FILES ≠ 0 ↔ a = true) ∧
    (writerWord a b c d e &&& FLAG_STABLE_ROW_IDS ≠ 0 ↔ b = true) ∧
    (writerWord a b c d e &&& FLAG_TABLE_CONFIG ≠ 0 ↔ c = true) ∧
    (writerWord a b c d e &&& FLAG_BASE_PATHS ≠ 0 ↔ d = true) ∧
    (writerWord a b c d e &&& FLAG_DISABLE_TRANSACTION_FILE ≠ 0 ↔ e = true) ∧
    writerWord a b c d e &&& FLAG_USE_V2_FORMAT_DEPRECATED = 0 ∧
    writerWord a b c d e < FLAG_UNKNOWN := by
  cases a <;> cases b <;> cases c <;> cases d <;> cases e <;> decide

/-- every reader-required bit is also writer-required -/
theorem reader_sub_writer (a b c d e : Bool) :
    readerWord a b d &&& writerWord a b c d e = readerWord a b d := by
  cases a <;> cases b <;> cases c <;> cases d <;> cases e <;> decide

theorem lt_unknown_iff_testBit (w : Nat) : w < FLAG_UNKNOWN ↔ ∀ i, i ≥ 6 → w.testBit i = false := by
  constructor
  · intro h i hi
    exact Nat.testBit_lt_two_pow
      (Nat.lt_of_lt_of_le h (Nat.pow_le_pow_right (by decide : 2 > 0) hi))
  · intro h
    exact Nat.lt_pow_two_of_testBit w h

theorem any_eq_true_iff {α} (l : List α) (p : α → Bool) : l.any p = true ↔ ∃ x ∈ l, p x = true := by
  simp [List.any_eq_true]

theorem all_eq_true_iff {α} (l : List α) (p : α → Bool) : l.all p = true ↔ ∀ x ∈ l, p x = true := by
  simp [List.all_eq_true]

/-! ## lookup -/

theorem lookup_mem {α β} [BEq α] [LawfulBEq α] (k : α) (v : β) :
    ∀ t : List (α × β), t.lookup k = some v → (k, v) ∈ t
  | [], h => by simp [List.lookup] at h
  | (k', v') :: t, h => by
    by_cases hk : k == k'
    · have : k = k' := by simpa using hk
      subst this
      simp [List.lookup] at h
      subst h
      exact List.mem_cons_self
    · simp [List.lookup, hk] at h
      exact List.mem_cons_of_mem _ (lookup_mem k v t h)

/-! ## try_infer_version -/

theorem mem_allFiles (frags : List Frag) (f : DataFile) :
    f ∈ allFiles frags ↔ ∃ fr ∈ frags, f ∈ fr.files := by
  simp [allFiles, List.mem_flatMap]

theorem tryInfer_none (frags : List Frag) (h : tryInferVersion frags = .ok none) : allFiles frags = [] := by
  unfold tryInferVersion at h
  split at h
  · assumption
  · split at h
    · cases h
    · split at h <;> cases h

theorem tryInfer_some (frags : List Frag) (v : Ver) (h : tryInferVersion frags = .ok (some v)) :
    allFiles frags ≠ [] ∧ ∀ f ∈ allFiles frags, f.version = some v := by
  unfold tryInferVersion at h
  split at h
  · cases h
  · rename_i f0 rest heq
    split at h
    · cases h
    · rename_i v0 hv0
      split at h
      · rename_i hall
        cases h
        rw [heq]
        refine ⟨by simp, ?_⟩
        intro f hf
        cases hf with
        | head => exact hv0
        | tail _ hr =>
          have := (all_eq_true_iff rest _).1 hall f hr
          simpa using this
      · cases h

/-- completeness: a non-empty uniform file list is inferred -/
theorem tryInfer_uniform (frags : List Frag) (v : Ver) (hne : allFiles frags ≠ [])
    (h : ∀ f ∈ allFiles frags, f.version = some v) : tryInferVersion frags = .ok (some v) := by
  unfold tryInferVersion
  split
  · rename_i heq; exact absurd heq hne
  · rename_i f0 rest heq
    rw [heq] at h
    have h0 := h f0 List.mem_cons_self
    rw [h0]
    have : rest.all (fun f => f.version == some v) = true := by
      rw [all_eq_true_iff]
      intro f hf
      have := h f (List.mem_cons_of_mem _ hf)
      simp [this]
    simp [this]

/-- what `try_from_major_minor` returns is never an alias -/
theorem mm_concrete (a b : Nat) (v : Ver) (h : Ver.tryFromMajorMinor a b = some v) :
    v.resolve = v ∧ v ≠ .stable ∧ v ≠ .next := by
  have hm := lookup_mem (a, b) v _ h
  simp only [Ver.majorMinorTable, List.mem_cons, Prod.mk.injEq, List.mem_nil_iff, or_false] at hm
  rcases hm with h | h | h | h | h | h | h <;> (obtain ⟨_, rfl⟩ := h; decide)

end LanceModel.C37
