import LanceModel.C37.Driver
def main : IO Unit := LanceModel.Util.runDriver LanceModel.C37.Driver.step none
