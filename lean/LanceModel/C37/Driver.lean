import LanceModel.Util
import LanceModel.C37.Model
/-
C37 driver.  One output line per input line.

  consts                                   constants, default variant, iter_non_legacy
  canrw <w>                                can_read_dataset / can_write_dataset / has_deprecated_v2_feature_flag
  parse <codepoints>                       LanceFileVersion::from_str on the string with these code points
  mm <major> <minor>                       try_from_major_minor
  ver <Variant>                            resolve / Display / to_numbers / is_unstable / both round trips / DataStorageFormat::new
  apply <frags> <cfg> <base> <en> <dis> <rf0> <wf0>     apply_feature_flags on a manifest with these contents
  infer <frags>                            Fragment::try_infer_version
  check <codepoints> <frags>               check_storage_version
  commit <codepoints> <frags> <cfg> <base> <en> <dis>   check_storage_version, then apply_feature_flags
  hcreate <rows> <Variant> <stable> | happend <rows> | hdelete <lo> <hi> | hconfig <k> | hunconfig <k> | hbase <k> |
  hoverwrite <rows> <Variant>              table history; prints the manifest summary after the operation

<frags>: `-` or `;`-separated fragments `<d><r>(/<major>.<minor>)*` with d = has deletion file, r = has row id meta.
<cfg>, <base>, <codepoints>: `-` or comma separated naturals.
-/
namespace LanceModel.C37.Driver
open LanceModel.Util LanceModel.C37

def bad : String := "bad-op"

def parseBool (s : String) : Option Bool :=
  if s = "1" then some true else if s = "0" then some false else none

def parseStr (s : String) : Option Str :=
  (parseNatList s).map (fun l => l.map Char.ofNat)

def parseFile (s : String) : Option DataFile :=
  match s.splitOn "." with
  | [a, b] =>
    match a.toNat?, b.toNat? with
    | some a, some b => some ⟨a, b⟩
    | _, _ => none
  | _ => none

def parseFrag (s : String) : Option Frag :=
  match s.splitOn "/" with
  | hd :: files =>
    match hd.toList with
    | [d, r] =>
      match parseBool (String.singleton d), parseBool (String.singleton r), files.mapM parseFile with
      | some d, some r, some fs => some ⟨fs, d, r⟩
      | _, _, _ => none
    | _ => none
  | [] => none

def parseFrags (s : String) : Option (List Frag) :=
  if s = "-" then some [] else (s.splitOn ";").mapM parseFrag

def parseVer (s : String) : Option Ver := Ver.all.find? (fun v => v.name == s)

def showStr (s : Str) : String := String.ofList s

def showNums (p : Nat × Nat) : String := toString p.1 ++ "." ++ toString p.2

def showOptVer : Option Ver → String
  | some v => "ok " ++ v.name
  | none => "err invalid_input"

def describe (v : Ver) : String :=
  v.name ++ " resolve=" ++ v.resolve.name ++ " disp=" ++ showStr v.display ++ " nums=" ++ showNums v.toNumbers ++
    " unstable=" ++ showBool v.isUnstable

def showFlags (m : Manifest) : String := "rf=" ++ toString m.readerFlags ++ " wf=" ++ toString m.writerFlags

/-- manifest summary printed after each history operation -/
def showH (s : HState) : String :=
  let (m, ok) := s.manifest
  let files := (allFiles m.fragments).map (fun f => f.major * 1000 + f.minor)
  let distinct := (sortNat files).eraseDups
  let rowids :=
    if m.fragments.isEmpty then "empty"
    else if m.fragments.all (·.hasRowIdMeta) then "all"
    else if m.fragments.any (·.hasRowIdMeta) then "mixed" else "none"
  (if ok then "" else "flags-refused ") ++ showFlags m ++ " ver=" ++ showStr m.storageVersion ++
    " nfrag=" ++ toString m.fragments.length ++
    " ndel=" ++ toString (m.fragments.filter (·.hasDeletionFile)).length ++
    " rowids=" ++ rowids ++
    " files=" ++ (if distinct.isEmpty then "-" else ",".intercalate (distinct.map (fun x => showNums (x / 1000, x % 1000)))) ++
    " cfg=" ++ toString m.config.length ++ " base=" ++ toString m.basePaths.length ++
    " rows=" ++ toString (s.frags.foldl (fun a f => a + f.live.length) 0)

abbrev St := Option HState

def mkManifest (frags : List Frag) (cfg base : List Nat) (rf wf : Nat) (ver : Str) : Manifest :=
  { fragments := frags, config := cfg, basePaths := base, readerFlags := rf, writerFlags := wf, storageVersion := ver }

def step (st : St) (line : String) : St × String :=
  match splitTokens line with
  | ["consts"] =>
    (st, " ".intercalate (flagTable.map (fun p => p.1 ++ "=" ++ toString p.2)) ++ " default=" ++ Ver.default.name ++
      " nonlegacy=" ++ ",".intercalate
        ((Ver.all.filter (fun v => v != .stable && v != .next && v != .legacy)).map Ver.name))
  | ["canrw", w] =>
    match w.toNat? with
    | some w => (st, "r=" ++ showBool (canReadDataset w) ++ " w=" ++ showBool (canWriteDataset w) ++
        " dep=" ++ showBool (hasDeprecatedV2FeatureFlag w))
    | none => (st, bad)
  | ["parse", cps] =>
    match parseStr cps with
    | some s =>
      match Ver.fromStr s with
      | some v => (st, "ok " ++ describe v)
      | none => (st, "err invalid_input")
    | none => (st, bad)
  | ["mm", a, b] =>
    match a.toNat?, b.toNat? with
    | some a, some b =>
      match Ver.tryFromMajorMinor a b with
      | some v => (st, "ok " ++ describe v)
      | none => (st, "err invalid_input")
    | _, _ => (st, bad)
  | ["ver", name] =>
    match parseVer name with
    | some v =>
      (st, describe v ++ " reparse=" ++ showOptVer (Ver.fromStr v.display) ++
        " renum=" ++ showOptVer (Ver.tryFromMajorMinor v.toNumbers.1 v.toNumbers.2) ++
        " dsf=" ++ showStr (dataStorageFormatNew v) ++
        " dsfparse=" ++ showOptVer (Ver.fromStr (dataStorageFormatNew v)))
    | none => (st, bad)
  | ["apply", frags, cfg, base, en, dis, rf, wf] =>
    match parseFrags frags, parseNatList cfg, parseNatList base, parseBool en, parseBool dis, rf.toNat?, wf.toNat? with
    | some frags, some cfg, some base, some en, some dis, some rf, some wf =>
      let (m, ok) := applyFeatureFlags (mkManifest frags cfg base rf wf []) en dis
      (st, (if ok then "ok " else "err invalid_input ") ++ showFlags m)
    | _, _, _, _, _, _, _ => (st, bad)
  | ["infer", frags] =>
    match parseFrags frags with
    | some frags =>
      match tryInferVersion frags with
      | .ok none => (st, "ok none")
      | .ok (some v) => (st, "ok " ++ v.name)
      | .error e => (st, "err " ++ e.name)
    | none => (st, bad)
  | ["check", cps, frags] =>
    match parseStr cps, parseFrags frags with
    | some ver, some frags =>
      match checkStorageVersion (mkManifest frags [] [] 0 0 ver) with
      | .ok m => (st, "ok ver=" ++ showStr m.storageVersion)
      | .error e => (st, "err " ++ e.name)
    | _, _ => (st, bad)
  | ["commit", cps, frags, cfg, base, en, dis] =>
    match parseStr cps, parseFrags frags, parseNatList cfg, parseNatList base, parseBool en, parseBool dis with
    | some ver, some frags, some cfg, some base, some en, some dis =>
      match checkStorageVersion (mkManifest frags cfg base 0 0 ver) with
      | .error e => (st, "refused check:" ++ e.name)
      | .ok m =>
        match applyFeatureFlags m en dis with
        | (_, false) => (st, "refused flags:invalid_input")
        | (m', true) =>
          (st, "ok ver=" ++ showStr m'.storageVersion ++ " " ++ showFlags m' ++
            " canr=" ++ showBool (canReadDataset m'.readerFlags) ++ " canw=" ++ showBool (canWriteDataset m'.writerFlags))
    | _, _, _, _, _, _ => (st, bad)
  | ["hcreate", rows, v, stable] =>
    match rows.toNat?, parseVer v, parseBool stable with
    | some rows, some v, some stable =>
      let s := HState.create rows v stable
      (some s, showH s)
    | _, _, _ => (st, bad)
  | ["happend", rows] =>
    match st, rows.toNat? with
    | some s, some rows => let s' := s.append rows; (some s', showH s')
    | _, _ => (st, bad)
  | ["hoverwrite", rows, v] =>
    match st, rows.toNat?, parseVer v with
    | some s, some rows, some v => let s' := s.overwrite rows v; (some s', showH s')
    | _, _, _ => (st, bad)
  | ["hdelete", lo, hi] =>
    match st, lo.toNat?, hi.toNat? with
    | some s, some lo, some hi => let s' := s.delete lo hi; (some s', showH s')
    | _, _, _ => (st, bad)
  | ["hconfig", k] =>
    match st, k.toNat? with
    | some s, some k => let s' := s.setConfig k; (some s', showH s')
    | _, _ => (st, bad)
  | ["hbase", k] =>
    match st, k.toNat? with
    | some s, some k => let s' := s.addBase k; (some s', showH s')
    | _, _ => (st, bad)
  | ["hunconfig", k] =>
    match st, k.toNat? with
    | some s, some k => let s' := s.unsetConfig k; (some s', showH s')
    | _, _ => (st, bad)
  | _ => (st, bad)

end LanceModel.C37.Driver
