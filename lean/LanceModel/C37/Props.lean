import LanceModel.C37.Lemmas
import LanceModel.C37.Gen
/-!
# C37 — property theorems

"Readers refuse any table whose reader flags include a bit they do not know and writers refuse unknown
writer flags; the flags written always reflect the table contents (deletion files, stable row ids,
base paths, config). Storage version names and numbers convert to each other consistently, aliases
resolve to the documented concrete versions, and a table's files all carry the table's storage
version."

The theorems are about the hand-written model (`Model.lean`).  The model is tied to the code twice:
* Part 0 proves that the tables and constants the translator (`tools/xlate_c37.py`) extracts from the
  Rust source on every run (`Gen.lean`) are the model's tables — editing a `FLAG_*` constant, the
  comparison in `can_read_dataset`, a match arm of `resolve` / `try_from_major_minor` / `to_numbers` /
  `from_str` / `Display`, or the order of the enum variants breaks one of these equations;
* the correspondence run of `./check C37` executes the model side by side with the real functions.
-/
namespace LanceModel.C37

/-! ## Part 0: the translator tie (`Gen = Model`) -/

/-- the `FLAG_*` constants -/
theorem gen_flags : Gen.flags = flagTable := by decide

/-- `can_read_dataset(w) = w < FLAG_UNKNOWN`, same for `can_write_dataset`;
`has_deprecated_v2_feature_flag(w) = w & FLAG_USE_V2_FORMAT_DEPRECATED != 0` -/
theorem gen_can_read_write :
    Gen.canRead = ("cmp", "<", "FLAG_UNKNOWN") ∧ Gen.canWrite = ("cmp", "<", "FLAG_UNKNOWN") ∧
    Gen.hasDeprecatedV2 = ("mask", "!=", "FLAG_USE_V2_FORMAT_DEPRECATED") := by decide

/-- OR of the constants the source ORs into one side's word (all conditions true) -/
def genWord (side : String) : Nat :=
  (Gen.applyUpdates.filter (fun u => u.1 == side)).foldl
    (fun w u => match flagTable.lookup u.2 with
      | some f => w ||| f
      | none => w) 0

/-- the statements of `apply_feature_flags` that touch a flag word: both words are reset first, and the
constants ORed into each side are exactly the ones the model's words can contain, in the same order -/
theorem gen_apply_updates :
    Gen.applyUpdates =
      [("reader", "reset"), ("writer", "reset"),
       ("reader", "FLAG_DELETION_FILES"), ("writer", "FLAG_DELETION_FILES"),
       ("reader", "FLAG_STABLE_ROW_IDS"), ("writer", "FLAG_STABLE_ROW_IDS"),
       ("writer", "FLAG_TABLE_CONFIG"),
       ("reader", "FLAG_BASE_PATHS"), ("writer", "FLAG_BASE_PATHS"),
       ("writer", "FLAG_DISABLE_TRANSACTION_FILE")] ∧
    genWord "reader" = readerWord true true true ∧
    genWord "writer" = writerWord true true true true true ∧
    Gen.applyParams = ["manifest:&mutManifest", "enable_stable_row_id:bool", "disable_transaction_file:bool"] := by
  decide

/-- variant names are distinct, so equal renderings mean equal tables -/
theorem name_injective (a b : Ver) (h : a.name = b.name) : a = b := by
  cases a <;> cases b <;> first | rfl | (revert h; decide)

/-- the enum: variants in declaration order (the derived `Ord`), the default variant -/
theorem gen_enum :
    Gen.variants = Ver.all.map Ver.name ∧ Gen.defaultVariant = Ver.default.name ∧
    (∀ v : Ver, Ver.all[v.rank]? = some v) ∧
    Gen.isUnstable = (">=", Ver.next.name) := by
  refine ⟨by decide, by decide, ?_, by decide⟩
  intro v; cases v <;> rfl

theorem gen_resolve :
    Gen.resolveArms = Ver.resolveTable.map (fun p => (p.1.name, p.2.name)) ∧
    Gen.resolveHasWildcardSelf = true := by decide

theorem gen_try_from_major_minor :
    Gen.tryFromMajorMinorArms = Ver.majorMinorTable.map (fun p => (p.1, p.2.name)) := by decide

theorem gen_to_numbers :
    Gen.toNumbersArms = Ver.numbersTable.map (fun p => (p.1.name, p.2)) := by decide

theorem gen_display :
    Gen.displayArms.map (fun p => (p.1, p.2.toList)) = Ver.displayTable.map (fun p => (p.1.name, p.2)) := by
  decide

theorem gen_from_str :
    Gen.fromStrArms.map (fun p => (p.1.toList, p.2)) = Ver.fromStrTable.map (fun p => (p.1, p.2.name)) ∧
    Gen.fromStrLowercases = true := by decide

/-! ## Part 1: unknown bits are refused -/

/-- `FLAG_UNKNOWN` is a single bit, the known flags are exactly the bits below it (no gap), and the
mask of all known flags is `FLAG_UNKNOWN - 1` -/
theorem known_flags_layout :
    FLAG_UNKNOWN = 2 ^ 6 ∧
    flagTable.map (·.2) = (List.range 7).map (2 ^ ·) ∧
    FLAG_DELETION_FILES ||| FLAG_STABLE_ROW_IDS ||| FLAG_USE_V2_FORMAT_DEPRECATED ||| FLAG_TABLE_CONFIG |||
      FLAG_BASE_PATHS ||| FLAG_DISABLE_TRANSACTION_FILE = FLAG_UNKNOWN - 1 := by decide

/-- Readers refuse any word with a bit at or above `FLAG_UNKNOWN` set and accept every word without
such a bit; the same for writers.  For *all* words (`Nat` ⊇ `u64`). -/
theorem unknown_bit_refused (w : Nat) :
    (canReadDataset w = true ↔ ∀ i, i ≥ 6 → w.testBit i = false) ∧
    (canWriteDataset w = true ↔ ∀ i, i ≥ 6 → w.testBit i = false) := by
  simp only [canReadDataset, canWriteDataset, decide_eq_true_eq]
  exact ⟨lt_unknown_iff_testBit w, lt_unknown_iff_testBit w⟩

/-- the same, read as a refusal: one unknown bit is enough -/
theorem unknown_bit_refused' (w i : Nat) (hi : FLAG_UNKNOWN ≤ 2 ^ i) (hb : w.testBit i = true) :
    canReadDataset w = false ∧ canWriteDataset w = false := by
  have h6 : i ≥ 6 := by
    have : (2 : Nat) ^ 6 ≤ 2 ^ i := hi
    exact (Nat.pow_le_pow_iff_right (by decide : 1 < 2)).1 this
  have hr := (unknown_bit_refused w).1
  have hw := (unknown_bit_refused w).2
  constructor
  · cases hc : canReadDataset w with
    | false => rfl
    | true => have := hr.1 hc i h6; rw [hb] at this; cases this
  · cases hc : canWriteDataset w with
    | false => rfl
    | true => have := hw.1 hc i h6; rw [hb] at this; cases this

/-- accepted words are exactly the words over the known flags -/
theorem accepted_iff_known_bits_only (w : Nat) :
    canReadDataset w = true ↔ w &&& (FLAG_UNKNOWN - 1) = w := by
  simp only [canReadDataset, decide_eq_true_eq]
  have h : w &&& (2 ^ 6 - 1) = w % 2 ^ 6 := Nat.and_two_pow_sub_one_eq_mod w 6
  have e : FLAG_UNKNOWN = 2 ^ 6 := by decide
  rw [e, h]
  constructor
  · intro hlt; exact Nat.mod_eq_of_lt hlt
  · intro hm; rw [← hm]; exact Nat.mod_lt _ (by decide)

example : canReadDataset 63 = true ∧ canReadDataset 64 = false ∧ canWriteDataset (2 ^ 63) = false ∧
    canReadDataset (64 + 1) = false ∧ canWriteDataset 0 = true := by decide

/-! ## Part 2: the written flags reflect the contents -/

/-- what "the flags reflect the contents" means for a manifest -/
structure FlagsReflect (m : Manifest) (enableStable disableTxn : Bool) : Prop where
  del_r : m.readerFlags &&& FLAG_DELETION_FILES ≠ 0 ↔ ∃ f ∈ m.fragments, f.hasDeletionFile = true
  del_w : m.writerFlags &&& FLAG_DELETION_FILES ≠ 0 ↔ ∃ f ∈ m.fragments, f.hasDeletionFile = true
  row_r : m.readerFlags &&& FLAG_STABLE_ROW_IDS ≠ 0 ↔
            (enableStable = true ∨ ∃ f ∈ m.fragments, f.hasRowIdMeta = true)
  row_w : m.writerFlags &&& FLAG_STABLE_ROW_IDS ≠ 0 ↔
            (enableStable = true ∨ ∃ f ∈ m.fragments, f.hasRowIdMeta = true)
  /-- "If any fragment has row ids, they must all have row ids" -/
  row_all : m.readerFlags &&& FLAG_STABLE_ROW_IDS ≠ 0 → ∀ f ∈ m.fragments, f.hasRowIdMeta = true
  cfg_w : m.writerFlags &&& FLAG_TABLE_CONFIG ≠ 0 ↔ m.config ≠ []
  cfg_r : m.readerFlags &&& FLAG_TABLE_CONFIG = 0
  base_r : m.readerFlags &&& FLAG_BASE_PATHS ≠ 0 ↔ m.basePaths ≠ []
  base_w : m.writerFlags &&& FLAG_BASE_PATHS ≠ 0 ↔ m.basePaths ≠ []
  txn_w : m.writerFlags &&& FLAG_DISABLE_TRANSACTION_FILE ≠ 0 ↔ disableTxn = true
  txn_r : m.readerFlags &&& FLAG_DISABLE_TRANSACTION_FILE = 0
  v2_unused : m.readerFlags &&& FLAG_USE_V2_FORMAT_DEPRECATED = 0 ∧ m.writerFlags &&& FLAG_USE_V2_FORMAT_DEPRECATED = 0
  /-- this version of the library can open what it wrote -/
  self_readable : canReadDataset m.readerFlags = true ∧ canWriteDataset m.writerFlags = true
  /-- a reader-required feature is also writer-required -/
  reader_sub_writer : m.readerFlags &&& m.writerFlags = m.readerFlags

theorem isEmpty_not_iff {α} (l : List α) : (!l.isEmpty) = true ↔ l ≠ [] := by
  cases l <;> simp

/-- `apply_feature_flags` succeeds unless stable row ids are on and some fragment lacks them -/
theorem apply_ok_iff (m : Manifest) (en dis : Bool) :
    (applyFeatureFlags m en dis).2 = false ↔
      ((en = true ∨ ∃ f ∈ m.fragments, f.hasRowIdMeta = true) ∧ ∃ f ∈ m.fragments, f.hasRowIdMeta = false) := by
  unfold applyFeatureFlags
  split
  · rename_i h
    simp only [Bool.and_eq_true, Bool.or_eq_true, Bool.not_eq_true', Manifest.hasRowIds, Manifest.allRowIds,
      any_eq_true_iff] at h
    obtain ⟨h1, h2⟩ := h
    have h3 : ∃ f ∈ m.fragments, f.hasRowIdMeta = false := by
      have : ¬ (m.fragments.all (·.hasRowIdMeta) = true) := by simp [h2]
      rw [all_eq_true_iff] at this
      simpa using this
    simp only [true_iff]
    exact ⟨h1.symm.symm.elim (fun a => Or.inr a) (fun a => Or.inl a), h3⟩
  · rename_i h
    simp only [Bool.and_eq_true, Bool.or_eq_true, Bool.not_eq_true', Manifest.hasRowIds, Manifest.allRowIds,
      any_eq_true_iff, not_and] at h
    simp only [Bool.true_eq_false, false_iff, not_and]
    intro h1 ⟨f, hf, hff⟩
    have h2 := h (h1.elim (fun a => Or.inr a) (fun a => Or.inl a))
    have h3 : m.fragments.all (·.hasRowIdMeta) = true := by simpa using h2
    have := (all_eq_true_iff _ _).1 h3 f hf
    rw [hff] at this; cases this

/-- **flags_reflect_contents.** For every manifest and both switches, if `apply_feature_flags`
returns `Ok`, every flag bit of the result is set iff the manifest has the corresponding content, no
other bit is set, and nothing but the two flag words changed.  The previous flag words are irrelevant. -/
theorem flags_reflect_contents (m : Manifest) (en dis : Bool) (hok : (applyFeatureFlags m en dis).2 = true) :
    FlagsReflect (applyFeatureFlags m en dis).1 en dis ∧
    (applyFeatureFlags m en dis).1.fragments = m.fragments ∧
    (applyFeatureFlags m en dis).1.config = m.config ∧
    (applyFeatureFlags m en dis).1.basePaths = m.basePaths ∧
    (applyFeatureFlags m en dis).1.storageVersion = m.storageVersion := by
  unfold applyFeatureFlags at hok ⊢
  split at hok
  · cases hok
  · rename_i hc
    rw [if_neg hc]
    refine ⟨?_, rfl, rfl, rfl, rfl⟩
    have R := readerWord_bits m.hasDeletionFiles (m.hasRowIds || en) (!m.basePaths.isEmpty)
    have W := writerWord_bits m.hasDeletionFiles (m.hasRowIds || en) (!m.config.isEmpty) (!m.basePaths.isEmpty) dis
    have S := reader_sub_writer m.hasDeletionFiles (m.hasRowIds || en) (!m.config.isEmpty) (!m.basePaths.isEmpty) dis
    obtain ⟨r1, r2, r3, r4, r5, r6, r7⟩ := R
    obtain ⟨w1, w2, w3, w4, w5, w6, w7⟩ := W
    have hdel : m.hasDeletionFiles = true ↔ ∃ f ∈ m.fragments, f.hasDeletionFile = true := by
      simp [Manifest.hasDeletionFiles]
    have hrow : (m.hasRowIds || en) = true ↔ (en = true ∨ ∃ f ∈ m.fragments, f.hasRowIdMeta = true) := by
      simp only [Bool.or_eq_true, Manifest.hasRowIds, any_eq_true_iff]
      exact Or.comm
    have hall : (m.hasRowIds || en) = true → ∀ f ∈ m.fragments, f.hasRowIdMeta = true := by
      intro h
      have : ¬ (m.allRowIds = false) := by
        intro h'
        apply hc
        simp [h, h']
      have h3 : m.fragments.all (·.hasRowIdMeta) = true := by
        simpa [Manifest.allRowIds] using this
      exact (all_eq_true_iff _ _).1 h3
    exact {
      del_r := r1.trans hdel, del_w := w1.trans hdel,
      row_r := r2.trans hrow, row_w := w2.trans hrow,
      row_all := fun h => hall (r2.1 h),
      cfg_w := w3.trans (isEmpty_not_iff _), cfg_r := r5,
      base_r := r3.trans (isEmpty_not_iff _), base_w := w4.trans (isEmpty_not_iff _),
      txn_w := w5, txn_r := r6, v2_unused := ⟨r4, w6⟩,
      self_readable := by simp [canReadDataset, canWriteDataset, r7, w7],
      reader_sub_writer := S }

/-- the words written do not depend on the words that were there -/
theorem flags_ignore_previous (m : Manifest) (a b : Nat) (en dis : Bool) :
    applyFeatureFlags { m with readerFlags := a, writerFlags := b } en dis = applyFeatureFlags m en dis := by
  simp [applyFeatureFlags, Manifest.hasRowIds, Manifest.allRowIds, Manifest.hasDeletionFiles]

/-- non-vacuity: a manifest with a deletion file, row ids everywhere, config and a base path gets
reader 1|2|16 and writer 1|2|8|16|32; a manifest with mixed row ids is refused -/
example :
    let m : Manifest := { fragments := [⟨[⟨2, 0⟩], true, true⟩, ⟨[], false, true⟩], config := [7], basePaths := [1],
                          readerFlags := 999, writerFlags := 64, storageVersion := "2.0".toList }
    (applyFeatureFlags m false true).2 = true ∧ (applyFeatureFlags m false true).1.readerFlags = 19 ∧
    (applyFeatureFlags m false true).1.writerFlags = 59 := by decide

example :
    (applyFeatureFlags { fragments := [⟨[], false, true⟩, ⟨[], false, false⟩], config := [], basePaths := [],
                         readerFlags := 0, writerFlags := 0, storageVersion := [] } false false).2 = false := by decide

/-! ## Part 3: version names and numbers -/

/-- the tables are total: `Display` and `to_numbers` have an arm for every variant (the model's
fallbacks `[]` / `(0, 0)` are unreachable) -/
theorem display_total (v : Ver) : v.display? = some v.display ∧ v.display ≠ [] := by
  cases v <;> decide

theorem numbers_total (v : Ver) : v.toNumbers? = some v.toNumbers := by
  cases v <;> decide

/-- `resolve` maps the aliases to concrete versions and is the identity on concrete versions -/
theorem resolve_concrete (v : Ver) :
    v.resolve.resolve = v.resolve ∧ v.resolve ≠ .stable ∧ v.resolve ≠ .next ∧
    (v ≠ .stable → v ≠ .next → v.resolve = v) := by
  cases v <;> decide

/-- **version_roundtrip (names).** `v.to_string().parse() = Ok(v)` for every version, and what
`DataStorageFormat::new(v)` stores parses back to `v.resolve()` -/
theorem version_string_roundtrip (v : Ver) :
    Ver.fromStr v.display = some v ∧ Ver.fromStr (dataStorageFormatNew v) = some v.resolve := by
  cases v <;> decide

/-- **version_roundtrip (numbers).** `try_from_major_minor(v.to_numbers()) = Ok(v.resolve())` -/
theorem version_numbers_roundtrip (v : Ver) :
    Ver.tryFromMajorMinor v.toNumbers.1 v.toNumbers.2 = some v.resolve ∧ v.toNumbers = v.resolve.toNumbers := by
  cases v <;> decide

/-- numbers → version → numbers: a recognised pair maps to a concrete version whose canonical
numbers are the pair itself, except for the three documented legacy pairs -/
theorem numbers_version_numbers (a b : Nat) (v : Ver) (h : Ver.tryFromMajorMinor a b = some v) :
    v.resolve = v ∧
    (v.toNumbers = (a, b) ∨ ((a, b), v) ∈ [((0, 0), Ver.legacy), ((0, 1), Ver.legacy), ((0, 3), Ver.v2_0)]) := by
  refine ⟨(mm_concrete a b v h).1, ?_⟩
  have hm := lookup_mem (a, b) v _ h
  simp only [Ver.majorMinorTable, List.mem_cons, Prod.mk.injEq, List.mem_nil_iff, or_false] at hm
  rcases hm with h | h | h | h | h | h | h <;> (obtain ⟨⟨rfl, rfl⟩, rfl⟩ := h; decide)

/-- names → version: for *every* string, if it parses, then its lower-cased form is the canonical
name of the result or one of the two documented extra spellings -/
theorem from_str_sound (s : Str) (v : Ver) (h : Ver.fromStr s = some v) :
    lower s = v.display ∨ (lower s, v) ∈ [("legacy".toList, Ver.legacy), ("0.3".toList, Ver.v2_0)] := by
  have hm := lookup_mem (lower s) v _ h
  simp only [Ver.fromStrTable, List.mem_cons, Prod.mk.injEq, List.mem_nil_iff, or_false] at hm
  rcases hm with h | h | h | h | h | h | h | h <;> (obtain ⟨h1, rfl⟩ := h; rw [h1]; decide)

/-- parsing ignores ASCII case -/
theorem lower_idem (s : Str) : lower (lower s) = lower s := by
  unfold lower
  rw [List.map_map]
  apply List.map_congr_left
  intro c _
  simp only [Function.comp]
  unfold Char.toLower
  split
  · rename_i h
    split
    · rename_i h2
      exfalso
      obtain ⟨h2a, h2b⟩ := h2
      obtain ⟨ha, hb⟩ := h
      simp only [ge_iff_le, UInt32.le_iff_toNat_le] at ha hb h2a h2b
      have e : ('a'.val - 'A'.val) = (32 : UInt32) := by decide
      rw [e] at h2b
      have hA : 'A'.val.toNat = 65 := by decide
      have hZ : 'Z'.val.toNat = 90 := by decide
      rw [hA] at ha; rw [hZ] at hb h2b
      have hadd : (c.val + 32).toNat = c.val.toNat + 32 := by
        rw [UInt32.toNat_add]
        have : (32 : UInt32).toNat = 32 := by decide
        rw [this]
        apply Nat.mod_eq_of_lt
        have : UInt32.size = 4294967296 := by decide
        omega
      omega
    · rfl
  · rfl

theorem from_str_case_insensitive (s : Str) : Ver.fromStr (lower s) = Ver.fromStr s := by
  unfold Ver.fromStr
  rw [lower_idem]

/-- **aliases.** As documented in docs/src/format/file/versioning.md: `legacy` is 0.1, `stable` is the
latest stable version (2.0), `next` is the latest unstable version (2.1); `0.3` is a spelling of 2.0;
unknown names are rejected -/
theorem aliases :
    (Ver.fromStr "legacy".toList).map (fun v => v.resolve.display) = some "0.1".toList ∧
    (Ver.fromStr "stable".toList).map (fun v => v.resolve.display) = some "2.0".toList ∧
    (Ver.fromStr "next".toList).map (fun v => v.resolve.display) = some "2.1".toList ∧
    (Ver.fromStr "0.3".toList).map (fun v => v.resolve.display) = some "2.0".toList ∧
    (Ver.fromStr "STABLE".toList) = some Ver.stable ∧
    Ver.fromStr "2.3".toList = none ∧ Ver.fromStr [] = none ∧ Ver.fromStr "v2.0".toList = none ∧
    Ver.stable.toNumbers = (2, 0) ∧ Ver.next.toNumbers = (2, 1) ∧ Ver.legacy.toNumbers = (0, 2) ∧
    Ver.default.resolve = Ver.stable.resolve := by decide

/-- stability: `stable` names a stable version, `next` an unstable one; a version is unstable iff it is
at or after `Next` in declaration order -/
theorem stability (v : Ver) :
    (v.isUnstable = true ↔ v = .next ∨ v = .v2_2) ∧
    Ver.stable.resolve.isUnstable = false ∧ Ver.default.isUnstable = false := by
  cases v <;> decide

/-! ## Part 4: a table's files all carry the table's storage version -/

/-- every data file of the manifest has the version the manifest's storage version label stands for -/
def FilesMatch (m : Manifest) : Prop :=
  ∃ label, Ver.fromStr m.storageVersion = some label ∧ ∀ f ∈ allFiles m.fragments, f.version = some label.resolve

/-- **files_match_storage_version.** If `check_storage_version` returns `Ok`, then in the manifest it
leaves behind every data file carries exactly the storage version of the table; the check changes
nothing but (for a legacy table whose files are all of one newer version) the storage version. -/
theorem files_match_storage_version (m m' : Manifest) (h : checkStorageVersion m = .ok m') :
    FilesMatch m' ∧ m'.fragments = m.fragments ∧ m'.config = m.config ∧ m'.basePaths = m.basePaths ∧
    m'.readerFlags = m.readerFlags ∧ m'.writerFlags = m.writerFlags := by
  unfold checkStorageVersion at h
  split at h
  · cases h
  · rename_i label hlabel
    split at h
    · rename_i hleg
      split at h
      · cases h
      · rename_i hinf
        cases h
        refine ⟨⟨label, hlabel, ?_⟩, rfl, rfl, rfl, rfl, rfl⟩
        intro f hf
        rw [tryInfer_none _ hinf] at hf
        cases hf
      · rename_i actual hinf
        obtain ⟨hne, hall⟩ := tryInfer_some _ _ hinf
        have hconc : actual.resolve = actual := by
          cases hfl : allFiles m.fragments with
          | nil => exact absurd hfl hne
          | cons f0 _ =>
            have := hall f0 (by rw [hfl]; exact List.mem_cons_self)
            exact (mm_concrete _ _ _ this).1
        split at h
        · cases h
          refine ⟨⟨actual, ?_, ?_⟩, rfl, rfl, rfl, rfl, rfl⟩
          · have := (version_string_roundtrip actual).2
            rw [hconc] at this
            exact this
          · rw [hconc]; exact hall
        · rename_i hnot
          cases h
          refine ⟨⟨label, hlabel, ?_⟩, rfl, rfl, rfl, rfl, rfl⟩
          have : actual = label.resolve := by
            rw [hleg] at hnot ⊢
            have : actual.rank = 0 := by
              have e : Ver.legacy.rank = 0 := rfl
              rw [e] at hnot
              omega
            cases actual <;> simp_all [Ver.rank]
          rw [← this]
          exact hall
    · split at h
      · cases h
      · rename_i hinf
        cases h
        refine ⟨⟨label, hlabel, ?_⟩, rfl, rfl, rfl, rfl, rfl⟩
        intro f hf
        rw [tryInfer_none _ hinf] at hf
        cases hf
      · rename_i actual hinf
        obtain ⟨_, hall⟩ := tryInfer_some _ _ hinf
        split at h
        · cases h
        · rename_i heq
          cases h
          have : actual = label.resolve := Decidable.of_not_not heq
          rw [this] at hall
          exact ⟨⟨label, hlabel, hall⟩, rfl, rfl, rfl, rfl, rfl⟩

/-- a manifest with the given fragments and storage version label, nothing else -/
def mkManifest (frags : List Frag) (ver : String) : Manifest :=
  { fragments := frags, config := [], basePaths := [], readerFlags := 0, writerFlags := 0,
    storageVersion := ver.toList }

/-- non-vacuity: a 2.1 table with 2.1 files passes; a legacy-labelled table whose files are all 2.0 is
relabelled 2.0 (the 0.16 repair); mixtures and mismatches are refused; an alias label is accepted
with files of the version it stands for and keeps its spelling -/
example :
    (checkStorageVersion (mkManifest [⟨[⟨2, 1⟩, ⟨2, 1⟩], false, false⟩] "2.1")).toOption =
      some (mkManifest [⟨[⟨2, 1⟩, ⟨2, 1⟩], false, false⟩] "2.1") ∧
    (checkStorageVersion (mkManifest [⟨[⟨2, 0⟩], false, false⟩, ⟨[⟨0, 3⟩], false, false⟩] "legacy")).toOption =
      some (mkManifest [⟨[⟨2, 0⟩], false, false⟩, ⟨[⟨0, 3⟩], false, false⟩] "2.0") ∧
    (checkStorageVersion (mkManifest [⟨[⟨2, 0⟩], false, false⟩, ⟨[⟨2, 1⟩], false, false⟩] "2.0")).toOption = none ∧
    (checkStorageVersion (mkManifest [⟨[⟨2, 0⟩], false, false⟩] "2.1")).toOption = none ∧
    (checkStorageVersion (mkManifest [⟨[⟨2, 0⟩], false, false⟩] "Stable")).toOption =
      some (mkManifest [⟨[⟨2, 0⟩], false, false⟩] "Stable") ∧
    (checkStorageVersion (mkManifest [⟨[⟨2, 0⟩], false, false⟩] "next")).toOption = none := by
  decide

/-- a consistent table: the label parses and every file carries the version the label stands for -/
def Consistent (m : Manifest) : Prop :=
  ∃ w, Ver.fromStr m.storageVersion = some w ∧ ∀ f ∈ allFiles m.fragments, f.version = some w.resolve

/-- **check_accepts_consistent.** The converse: the check never refuses (or changes) a consistent
table — including tables whose label is an alias.  (Before /repo commit ab32f28 this failed for the
labels `stable` and `next`; the witness is kept in corpus/C37.) -/
theorem check_accepts_consistent (m : Manifest) (hc : Consistent m) : checkStorageVersion m = .ok m := by
  obtain ⟨w, hw, hall⟩ := hc
  unfold checkStorageVersion
  rw [hw]
  simp only
  cases hfl : allFiles m.fragments with
  | nil =>
    have : tryInferVersion m.fragments = .ok none := by
      unfold tryInferVersion; rw [hfl]
    rw [this]
    split <;> rfl
  | cons f0 rest =>
    have hne : allFiles m.fragments ≠ [] := by rw [hfl]; simp
    rw [tryInfer_uniform m.fragments w.resolve hne hall]
    split
    · simp only
      split
      · omega
      · rfl
    · simp

/-- `FilesMatch` and `Consistent` are the same predicate: the check accepts exactly … -/
theorem check_ok_iff_consistent_unchanged (m : Manifest) :
    checkStorageVersion m = .ok m ↔ Consistent m := by
  constructor
  · intro h; exact (files_match_storage_version m m h).1
  · exact check_accepts_consistent m

/-! ## Part 5: histories -/

/-- what holds of every published manifest -/
structure Published (m : Manifest) : Prop where
  flags : ∃ en dis, FlagsReflect m en dis
  files : FilesMatch m

/-- the commit gate (`check_storage_version` then `apply_feature_flags`) lets through only manifests
whose flags reflect their contents, that this library can read and write, and whose files all carry
the storage version — whatever candidate the transaction built -/
theorem commit_gate_sound (cand m : Manifest) (en dis : Bool) (h : commitGate cand en dis = some m) :
    Published m := by
  unfold commitGate at h
  split at h
  · cases h
  · rename_i m1 hck
    have hf := (files_match_storage_version cand m1 hck).1
    cases hap : applyFeatureFlags m1 en dis with
    | mk m2 ok =>
      rw [hap] at h
      cases ok with
      | false => simp at h
      | true =>
        simp only [Option.some.injEq] at h
        subst h
        have hok : (applyFeatureFlags m1 en dis).2 = true := by rw [hap]
        have := flags_reflect_contents m1 en dis hok
        rw [hap] at this
        obtain ⟨fr, hfr, _, _, hsv⟩ := this
        refine ⟨⟨en, dis, fr⟩, ?_⟩
        obtain ⟨dsv, h1, h2⟩ := hf
        refine ⟨dsv, ?_, ?_⟩
        · simp only at hsv; rw [hsv]; exact h1
        · simp only at hfr; rw [hfr]; exact h2

/-- **histories.** Along every history of proposals — each an arbitrary function of the current
manifest — every manifest that gets published satisfies `Published`; refused proposals leave the
table unchanged. No bound on the length of the history or the size of the manifests. -/
theorem history_invariant (ps : List Proposal) (cur : Manifest) (pub : List Manifest)
    (hpub : ∀ m ∈ pub, Published m) : ∀ m ∈ runHistory cur pub ps, Published m := by
  induction ps generalizing cur pub with
  | nil => exact hpub
  | cons p ps ih =>
    unfold runHistory
    split
    · rename_i m hg
      apply ih
      intro x hx
      cases hx with
      | head => exact commit_gate_sound _ _ _ _ hg
      | tail _ hx => exact hpub x hx
    · exact ih cur pub hpub

/-- non-vacuity: a history that creates a 2.0 fragment, adds a deletion file, then proposes a 2.1 file
(refused), publishes exactly two manifests, with flags 0/0 and 1/1 -/
example :
    let m0 : Manifest := { fragments := [], config := [], basePaths := [], readerFlags := 0, writerFlags := 0,
                           storageVersion := "2.0".toList }
    let ps : List Proposal :=
      [⟨fun m => { m with fragments := [⟨[⟨2, 0⟩], false, false⟩] }, false, false⟩,
       ⟨fun m => { m with fragments := m.fragments.map (fun f => { f with hasDeletionFile := true }) }, false, false⟩,
       ⟨fun m => { m with fragments := m.fragments ++ [⟨[⟨2, 1⟩], false, false⟩] }, false, false⟩]
    (runHistory m0 [] ps).map (fun m => (m.readerFlags, m.writerFlags, m.fragments.length)) = [(1, 1, 1), (0, 0, 1)] := by
  decide

/-- the small table model used by the correspondence run never produces a manifest that
`apply_feature_flags` refuses -/
theorem hstate_manifest_ok (s : HState) : s.manifest.2 = true := by
  unfold HState.manifest
  cases hh : (applyFeatureFlags _ s.stable false).2 with
  | true => rfl
  | false =>
    rw [apply_ok_iff] at hh
    obtain ⟨h1, f, hf, hff⟩ := hh
    simp only [List.mem_map] at hf h1
    obtain ⟨g, _, rfl⟩ := hf
    simp only at hff
    rcases h1 with h1 | ⟨f', ⟨g', _, rfl⟩, h1⟩
    · rw [h1] at hff; cases hff
    · simp only at h1; rw [h1] at hff; cases hff

end LanceModel.C37
