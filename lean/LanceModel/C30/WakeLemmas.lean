import LanceModel.C30.Wake
/-
C30 (b) — no lost wake-up.
-/
namespace LanceModel.C30

theorem notifyOne_not_asleep (w : W) : asleep (notifyOne w) = false := by
  unfold notifyOne asleep
  cases h : w.loop <;> simp

/-- invariant: while the loop sleeps with no wake-up pending, `next_task` may still return `None` in the CURRENT state -/
def WInv (w : W) : Prop := asleep w = true → (step w.g .nextNone).isSome = true

theorem winv_step (w w' : W) (e : WEv) (h : WInv w) (hs : wstep (fun _ => true) w e = some w') : WInv w' := by
  cases e with
  | queue e =>
    have : asleep w' = false := by
      cases e with
      | push t =>
        simp only [wstep] at hs
        cases hst : step w.g (.push t) with
        | none => simp [hst] at hs
        | some g' => simp only [hst, ↓reduceIte, Option.some.injEq] at hs; subst hs; exact notifyOne_not_asleep _
      | iopDone t =>
        simp only [wstep, Option.map_eq_some_iff] at hs
        obtain ⟨g', _, rfl⟩ := hs; exact notifyOne_not_asleep _
      | consumed t =>
        simp only [wstep, Option.map_eq_some_iff] at hs
        obtain ⟨g', _, rfl⟩ := hs; exact notifyOne_not_asleep _
      | close =>
        simp only [wstep, Option.map_eq_some_iff] at hs
        obtain ⟨g', _, rfl⟩ := hs; exact notifyOne_not_asleep _
      | next t => simp [wstep] at hs
      | nextNone => simp [wstep] at hs
    intro ha; rw [this] at ha; cases ha
  | loopNext t =>
    simp only [wstep] at hs
    split at hs
    · rename_i hl
      simp only [Option.map_eq_some_iff] at hs
      obtain ⟨g', _, rfl⟩ := hs
      intro ha; simp [asleep, hl] at ha
    · simp at hs
  | loopNone =>
    simp only [wstep] at hs
    split at hs
    · simp only [Option.map_eq_some_iff] at hs
      obtain ⟨g', hg, rfl⟩ := hs
      intro _
      -- `nextNone` does not change the state, so it is still enabled
      have hgg : g' = w.g := by
        simp only [step] at hg
        split at hg
        · simp only [Option.some.injEq] at hg; exact hg.symm
        · simp at hg
      simp only [hgg]
      rw [hgg] at hg
      simp [hg]
    · simp at hs
  | loopAwait =>
    simp only [wstep] at hs
    split at hs
    · rename_i hl
      simp only [Option.some.injEq] at hs
      by_cases hp : w.permit = true
      · simp only [hp, ↓reduceIte] at hs; subst hs
        intro ha; simp [asleep] at ha
      · simp only [hp, Bool.false_eq_true, ↓reduceIte] at hs; subst hs
        intro _
        apply h
        simp [asleep, hl, hp]
    · simp at hs

theorem winv_reachable (cap buf : Nat) (w : W) (h : WReachable (fun _ => true) cap buf w) : WInv w := by
  induction h with
  | init => intro ha; simp [asleep, W.new] at ha
  | step e _ hs ih => exact winv_step _ _ e ih hs

theorem wreachable_wrunAll (pn : G → Bool) (cap buf : Nat) : ∀ (es : List WEv) (w w' : W), WReachable pn cap buf w →
    wrunAll pn w es = some w' → WReachable pn cap buf w'
  | [], w, w', h, hr => by simp only [wrunAll, Option.some.injEq] at hr; subst hr; exact h
  | e :: es, w, w', h, hr => by
    simp only [wrunAll] at hr
    cases hs : wstep pn w e with
    | none => simp [hs] at hr
    | some w1 =>
      simp only [hs, Option.bind_some] at hr
      exact wreachable_wrunAll pn cap buf es w1 w' (.step e h hs) hr

end LanceModel.C30
