import LanceModel.C30.Model
/-
C30 (a) — lemmas behind `response_exact`: slices, the copy-back loop, the piece cursor, coalescing and splitting.
-/
namespace LanceModel.C30

/-! ### slices of the file -/

theorem slice_length (f : Nat → Nat) (a b : Nat) : (slice f a b).length = b - a := by
  simp [slice]

theorem slice_empty (f : Nat → Nat) (a b : Nat) (h : b ≤ a) : slice f a b = [] := by
  have : b - a = 0 := by omega
  simp [slice, this]

theorem slice_append (f : Nat → Nat) (a b c : Nat) (h1 : a ≤ b) (h2 : b ≤ c) :
    slice f a b ++ slice f b c = slice f a c := by
  obtain ⟨m, rfl⟩ := Nat.exists_eq_add_of_le h1
  obtain ⟨n, rfl⟩ := Nat.exists_eq_add_of_le h2
  unfold slice
  rw [← List.map_append]
  congr 1
  have e1 : a + m - a = m := by omega
  have e2 : a + m + n - (a + m) = n := by omega
  have e3 : a + m + n - a = m + n := by omega
  rw [e1, e2, e3, List.range'_append_1]

theorem slice_drop (f : Nat → Nat) (a b k : Nat) : (slice f a b).drop k = slice f (a + k) b := by
  unfold slice
  rw [← List.map_drop, List.drop_range']
  have : b - a - k = b - (a + k) := by omega
  simp [this]

theorem slice_take (f : Nat → Nat) (a b k : Nat) : (slice f a b).take k = slice f a (min b (a + k)) := by
  unfold slice
  rw [← List.map_take]
  congr 1
  by_cases h : b - a ≤ k
  · rw [List.take_range'_of_length_le h]
    have : min b (a + k) - a = b - a := by omega
    rw [this]
  · have h' : b - a ≥ k := by omega
    rw [List.take_range'_of_length_ge h']
    have : min b (a + k) - a = k := by omega
    rw [this]

/-- `bytes_vec[i].slice(x - u.s .. y - u.s)` is the file slice `x..y` when `u.s ≤ x ≤ y ≤ u.e` -/
theorem bslice_fetch (f : Nat → Nat) (u : Rng) (x y : Nat) (h1 : u.s ≤ x) (h2 : x ≤ y) (h3 : y ≤ u.e) :
    bslice (fetch f u) (x - u.s) (y - u.s) = slice f x y := by
  unfold bslice fetch
  rw [slice_drop, slice_take]
  have e1 : u.s + (x - u.s) = x := by omega
  have e2 : min u.e (x + (y - u.s - (x - u.s))) = y := by omega
  rw [e1, e2]

theorem bslice_fetch_zero (f : Nat → Nat) (v : Rng) (k : Nat) (h : v.s + k ≤ v.e) :
    bslice (fetch f v) 0 k = slice f v.s (v.s + k) := by
  have := bslice_fetch f v v.s (v.s + k) (Nat.le_refl _) (by omega) h
  simpa using this

/-! ### coverage predicates -/

/-- pieces continue contiguously from position `a` until they reach `e` -/
def Cont : List Rng → Nat → Nat → Prop
  | [], _, _ => False
  | v :: vs, a, e => v.s = a ∧ a ≤ v.e ∧ (e ≤ v.e ∨ Cont vs v.e e)

/-- the piece list (cursor) can serve the non-empty range `o`: after skipping pieces that end at or before `o.s`, a piece
    contains `o.s` and the pieces from there on are contiguous up to `o.e` -/
def Served : List Rng → Rng → Prop
  | [], _ => False
  | u :: us, o => (u.s ≤ o.s ∧ o.s < u.e ∧ (o.e ≤ u.e ∨ Cont us u.e o.e)) ∨ (u.e ≤ o.s ∧ Served us o)

/-- the same one level up, on merged intervals: a merged interval contains `o`, earlier ones end at or before `o.s` -/
def ServedM : List Rng → Rng → Prop
  | [], _ => False
  | m :: ms, o => (m.s ≤ o.s ∧ o.e ≤ m.e) ∨ (m.e ≤ o.s ∧ ServedM ms o)

/-- `L` is a contiguous chain of pieces from `a` to `b` -/
def Contig : Nat → Nat → List Rng → Prop
  | a, b, [] => a = b
  | a, b, u :: t => u.s = a ∧ a ≤ u.e ∧ Contig u.e b t

theorem Contig.le : ∀ {L : List Rng} {a b : Nat}, Contig a b L → a ≤ b
  | [], a, b, h => by simp [Contig] at h; omega
  | u :: t, a, b, h => by
    obtain ⟨_, h2, h3⟩ := h
    have := Contig.le h3
    omega

theorem Contig.ends_le : ∀ {L : List Rng} {a b : Nat}, Contig a b L → ∀ u ∈ L, u.e ≤ b
  | [], _, _, _ => by simp
  | u :: t, a, b, h => by
    obtain ⟨_, _, h3⟩ := h
    intro x hx
    rcases List.mem_cons.mp hx with rfl | hx
    · exact Contig.le h3
    · exact Contig.ends_le h3 x hx

theorem cont_of_contig : ∀ (t rest : List Rng) (c b e : Nat), Contig c b t → c < e → e ≤ b → Cont (t ++ rest) c e
  | [], rest, c, b, e, h, h1, h2 => by simp [Contig] at h; omega
  | v :: t, rest, c, b, e, h, h1, h2 => by
    obtain ⟨hs, hle, ht⟩ := h
    refine ⟨hs, hle, ?_⟩
    by_cases hv : e ≤ v.e
    · exact Or.inl hv
    · exact Or.inr (cont_of_contig t rest v.e b e ht (by omega) h2)

theorem served_of_contig : ∀ (L rest : List Rng) (a b : Nat) (o : Rng),
    Contig a b L → a ≤ o.s → o.s < o.e → o.e ≤ b → Served (L ++ rest) o
  | [], rest, a, b, o, h, h1, h2, h3 => by simp [Contig] at h; omega
  | u :: t, rest, a, b, o, h, h1, h2, h3 => by
    obtain ⟨hs, hle, ht⟩ := h
    by_cases hu : o.s < u.e
    · refine Or.inl ⟨by omega, hu, ?_⟩
      by_cases hv : o.e ≤ u.e
      · exact Or.inl hv
      · exact Or.inr (cont_of_contig t rest u.e b o.e ht (by omega) h3)
    · exact Or.inr ⟨by omega, served_of_contig t rest u.e b o ht (by omega) h2 h3⟩

theorem served_skip : ∀ (L rest : List Rng) (o : Rng), (∀ u ∈ L, u.e ≤ o.s) → Served rest o → Served (L ++ rest) o
  | [], _, _, _, h => h
  | u :: t, rest, o, hall, h => by
    refine Or.inr ⟨hall u (by simp), served_skip t rest o (fun x hx => hall x (by simp [hx])) h⟩

/-! ### splitting a merged interval -/

theorem splitGo_contig : ∀ (k start e bpr : Nat), start + k * bpr ≤ e → Contig start e (splitGo start e bpr (k + 1))
  | 0, start, e, bpr, h => by
    simp only [Nat.zero_mul, Nat.add_zero] at h
    simp [splitGo, Contig, h]
  | k + 1, start, e, bpr, h => by
    simp only [splitGo, Contig]
    refine ⟨trivial, Nat.le_add_right _ _, ?_⟩
    apply splitGo_contig k (start + bpr) e bpr
    have : (k + 1) * bpr = k * bpr + bpr := by rw [Nat.add_mul]; omega
    omega

theorem divCeil_pos (a b : Nat) (ha : 0 < a) (_hb : 0 < b) : 0 < divCeil a b := by
  unfold divCeil
  by_cases h : a % b = 0
  · simp only [h, ↓reduceIte, Nat.add_zero]
    have := Nat.div_add_mod a b
    rcases Nat.eq_zero_or_pos (a / b) with h0 | h0
    · rw [h0, h] at this; omega
    · exact h0
  · simp [h]

theorem splitOne_contig (maxSz : Nat) (m : Rng) (hm : m.s < m.e) (hmax : 0 < maxSz) :
    Contig m.s m.e (splitOne maxSz m) := by
  unfold splitOne
  have hne : m.isEmpty = false := by simp [Rng.isEmpty, hm]
  simp only [hne, Bool.false_eq_true, ↓reduceIte]
  have hpos := divCeil_pos (m.e - m.s) maxSz (by omega) hmax
  obtain ⟨k, hk⟩ : ∃ k, divCeil (m.e - m.s) maxSz = k + 1 := ⟨divCeil (m.e - m.s) maxSz - 1, by omega⟩
  rw [hk]
  apply splitGo_contig
  have h1 : k * ((m.e - m.s) / (k + 1)) ≤ (k + 1) * ((m.e - m.s) / (k + 1)) :=
    Nat.mul_le_mul_right _ (by omega)
  have h2 : (k + 1) * ((m.e - m.s) / (k + 1)) ≤ m.e - m.s := Nat.mul_div_le _ _
  omega

theorem splitOne_ends_le (maxSz : Nat) (m : Rng) (hmax : 0 < maxSz) :
    ∀ u ∈ splitOne maxSz m, u.e ≤ m.e := by
  by_cases h : m.s < m.e
  · exact Contig.ends_le (splitOne_contig maxSz m h hmax)
  · intro u hu
    have hne : m.isEmpty = true := by simp [Rng.isEmpty, h]
    simp only [splitOne, hne, ↓reduceIte, List.mem_singleton] at hu
    subst hu
    exact Nat.le_refl _

theorem served_splitAll (maxSz : Nat) (hmax : 0 < maxSz) : ∀ (M : List Rng) (o : Rng),
    o.s < o.e → ServedM M o → Served (splitAll maxSz M) o
  | [], _, _, h => by simp [ServedM] at h
  | m :: ms, o, ho, h => by
    simp only [splitAll]
    rcases h with ⟨h1, h2⟩ | ⟨h1, h2⟩
    · have hm : m.s < m.e := by omega
      exact served_of_contig _ _ m.s m.e o (splitOne_contig maxSz m hm hmax) h1 ho h2
    · apply served_skip
      · intro u hu
        have := splitOne_ends_le maxSz m hmax u hu
        omega
      · exact served_splitAll maxSz hmax ms o ho h2

/-! ### coalescing (needs the non-empty ranges ordered by start) -/

def ByStart (rs : List Rng) : Prop := rs.Pairwise (fun a b => a.s ≤ b.s)

/-- (i) anything inside `cur` and (ii) every later range is inside one merged interval, with all earlier merged intervals
    ending at or before its start -/
theorem coalesceGo_served (bs : Nat) : ∀ (rest : List Rng) (cur : Rng),
    (∀ r ∈ rest, cur.s ≤ r.s) → ByStart rest →
    (∀ o : Rng, cur.s ≤ o.s → o.e ≤ cur.e → ServedM (coalesceGo bs cur rest) o) ∧
    (∀ o ∈ rest, ServedM (coalesceGo bs cur rest) o)
  | [], cur, _, _ => by
    refine ⟨fun o h1 h2 => Or.inl ⟨h1, h2⟩, by simp⟩
  | r :: rest, cur, hs, hsorted => by
    have hsorted' := List.pairwise_cons.mp hsorted
    simp only [coalesceGo]
    split
    · -- close together: the current interval grows
      have ih := coalesceGo_served bs rest ⟨cur.s, max cur.e r.e⟩
        (fun x hx => hs x (by simp [hx])) hsorted'.2
      refine ⟨fun o h1 h2 => ih.1 o h1 (by simp only; omega), ?_⟩
      intro o ho
      rcases List.mem_cons.mp ho with rfl | ho
      · exact ih.1 o (hs o (by simp)) (by simp only; omega)
      · exact ih.2 o ho
    · -- not close: `cur` is emitted, `r` becomes the current interval
      rename_i hclose
      have hfar : cur.e + bs < r.s := by
        simp only [closeTogether, decide_eq_true_eq] at hclose; omega
      have ih := coalesceGo_served bs rest r (fun x hx => hsorted'.1 x hx) hsorted'.2
      refine ⟨fun o h1 h2 => Or.inl ⟨h1, h2⟩, ?_⟩
      intro o ho
      rcases List.mem_cons.mp ho with rfl | ho
      · exact Or.inr ⟨by omega, ih.1 o (Nat.le_refl _) (Nat.le_refl _)⟩
      · have := hsorted'.1 o ho
        exact Or.inr ⟨by omega, ih.2 o ho⟩

theorem coalesceNE_served (bs : Nat) (rs : List Rng) (h : ByStart rs) : ∀ o ∈ rs, ServedM (coalesceNE bs rs) o := by
  cases rs with
  | nil => simp
  | cons r rest =>
    have h' := List.pairwise_cons.mp h
    have := coalesceGo_served bs rest r h'.1 h'.2
    intro o ho
    rcases List.mem_cons.mp ho with rfl | ho
    · exact this.1 o (Nat.le_refl _) (Nat.le_refl _)
    · exact this.2 o ho

end LanceModel.C30
