import LanceModel.C30.QueueLemmas
/-
C30 (b) — draining: completing every running task and then consuming every delivered task is always possible.
-/
namespace LanceModel.C30

/-- run a list of events, all of which must be enabled -/
def runAll (g : G) : List Ev → Option G
  | [] => some g
  | e :: es => (step g e).bind (fun g' => runAll g' es)

theorem reachable_runAll (cap buf : Nat) : ∀ (es : List Ev) (g g' : G), Reachable cap buf g → runAll g es = some g' →
    Reachable cap buf g'
  | [], g, g', h, hr => by simp only [runAll, Option.some.injEq] at hr; subst hr; exact h
  | e :: es, g, g', h, hr => by
    simp only [runAll] at hr
    cases hs : step g e with
    | none => simp [hs] at hr
    | some g1 =>
      simp only [hs, Option.bind_some] at hr
      exact reachable_runAll cap buf es g1 g' (.step e h hs) hr

theorem runAll_append (g : G) (es1 es2 : List Ev) (g1 : G) (h : runAll g es1 = some g1) :
    runAll g (es1 ++ es2) = runAll g1 es2 := by
  induction es1 generalizing g with
  | nil => simp only [runAll, Option.some.injEq] at h; subst h; rfl
  | cons e es ih =>
    simp only [runAll, List.cons_append] at h ⊢
    cases hs : step g e with
    | none => simp [hs] at h
    | some g' =>
      simp only [hs, Option.bind_some] at h ⊢
      exact ih g' h

/-- completing the running tasks one after the other empties `running` and touches nothing else the consumer sees -/
theorem complete_all : ∀ (n : Nat) (g : G), g.running.length = n →
    ∃ g', runAll g (g.running.map .iopDone) = some g' ∧ g'.running = [] ∧ g'.delivered = g.delivered ∧
      g'.q.pending = g.q.pending
  | 0, g, h => by
    have : g.running = [] := List.eq_nil_of_length_eq_zero h
    exact ⟨g, by simp [this, runAll], this, rfl, rfl⟩
  | n + 1, g, h => by
    cases hr : g.running with
    | nil => simp [hr] at h
    | cons t rest =>
      have hlen : rest.length = n := by simp [hr] at h; exact h
      let g1 : G := { g with q := qIopComplete g.q, running := rest }
      have hs : step g (.iopDone t) = some g1 := by
        simp [step, hr, g1]
      obtain ⟨g', h1, h2, h3, h4⟩ := complete_all n g1 hlen
      refine ⟨g', ?_, h2, h3, h4⟩
      simp only [List.map_cons, runAll, hs, Option.bind_some]
      exact h1

/-- with nothing running, consuming the delivered tasks one after the other empties `delivered` -/
theorem consume_all : ∀ (n : Nat) (g : G), g.delivered.length = n → g.running = [] →
    ∃ g', runAll g (g.delivered.map .consumed) = some g' ∧ g'.running = [] ∧ g'.delivered = [] ∧
      g'.q.pending = g.q.pending
  | 0, g, h, hrun => by
    have : g.delivered = [] := List.eq_nil_of_length_eq_zero h
    exact ⟨g, by simp [this, runAll], hrun, this, rfl⟩
  | n + 1, g, h, hrun => by
    cases hd : g.delivered with
    | nil => simp [hd] at h
    | cons t rest =>
      have hlen : rest.length = n := by simp [hd] at h; exact h
      let g1 : G := { g with q := qBytesConsumed g.q t.bytes t.prio 1, delivered := rest, consumed := g.consumed + 1 }
      have hs : step g (.consumed t) = some g1 := by
        simp [step, hd, hrun, g1]
      obtain ⟨g', h1, h2, h3, h4⟩ := consume_all n g1 hlen hrun
      refine ⟨g', ?_, h2, h3, h4⟩
      simp only [List.map_cons, runAll, hs, Option.bind_some]
      exact h1

end LanceModel.C30
