import LanceModel.C30.LoopLemmas
/-
C30 (a) — `LanceEncodingsIo::submit_request`: chunk split and reassembly.
-/
namespace LanceModel.C30

theorem contig_flatten (f : Nat → Nat) : ∀ (L : List Rng) (a b : Nat), Contig a b L →
    (L.map (fun u => slice f u.s u.e)).flatten = slice f a b
  | [], a, b, h => by
    simp only [Contig] at h
    subst h
    simp [slice_empty f a a (Nat.le_refl _)]
  | u :: t, a, b, h => by
    obtain ⟨hs, hle, ht⟩ := h
    simp only [List.map_cons, List.flatten_cons, contig_flatten f t u.e b ht, hs]
    exact slice_append f a u.e b hle (Contig.le ht)

theorem contig_wf : ∀ (L : List Rng) (a b : Nat), Contig a b L → ∀ u ∈ L, u.s ≤ u.e
  | [], _, _, _ => by simp
  | u :: t, a, b, h => by
    obtain ⟨hs, hle, ht⟩ := h
    intro x hx
    rcases List.mem_cons.mp hx with rfl | hx
    · omega
    · exact contig_wf t u.e b ht x hx

/-- a range is either left alone or cut into a contiguous chain of at least two chunks -/
theorem chunkOne_cases (chunk : Nat) (hc : 0 < chunk) (r : Rng) :
    chunkOne chunk r = [r] ∨ (Contig r.s r.e (chunkOne chunk r) ∧ 2 ≤ (chunkOne chunk r).length) := by
  unfold chunkOne
  by_cases h : r.e - r.s > chunk
  · right
    simp only [h, ↓reduceIte]
    have hpos := divCeil_pos (r.e - r.s) chunk (by omega) hc
    have h2 : 2 ≤ divCeil (r.e - r.s) chunk := by
      unfold divCeil
      have hd : 1 ≤ (r.e - r.s) / chunk := (Nat.one_le_div_iff hc).mpr (by omega)
      by_cases hm : (r.e - r.s) % chunk = 0
      · simp only [hm, ↓reduceIte, Nat.add_zero]
        rcases Nat.lt_or_ge ((r.e - r.s) / chunk) 2 with hlt | hge
        · have h1 : (r.e - r.s) / chunk = 1 := by omega
          have := Nat.div_add_mod (r.e - r.s) chunk
          rw [h1, hm] at this
          omega
        · exact hge
      · simp only [hm, ↓reduceIte]; omega
    obtain ⟨k, hk⟩ : ∃ k, divCeil (r.e - r.s) chunk = k + 1 := ⟨divCeil (r.e - r.s) chunk - 1, by omega⟩
    rw [hk]
    constructor
    · apply splitGo_contig
      have h1 : k * ((r.e - r.s) / (k + 1)) ≤ (k + 1) * ((r.e - r.s) / (k + 1)) :=
        Nat.mul_le_mul_right _ (by omega)
      have h2' : (k + 1) * ((r.e - r.s) / (k + 1)) ≤ r.e - r.s := Nat.mul_div_le _ _
      omega
    · have hlen : ∀ (n s e b : Nat), (splitGo s e b n).length = n := by
        intro n
        induction n using Nat.strongRecOn with
        | _ n ih =>
          intro s e b
          match n with
          | 0 => simp [splitGo]
          | 1 => simp [splitGo]
          | m + 2 => simp [splitGo, ih (m + 1) (by omega)]
      rw [hlen]; omega
  · left; simp [h]

theorem chunkOne_flatten (f : Nat → Nat) (chunk : Nat) (hc : 0 < chunk) (r : Rng) :
    ((chunkOne chunk r).map (fun u => slice f u.s u.e)).flatten = slice f r.s r.e := by
  rcases chunkOne_cases chunk hc r with h | ⟨h, _⟩
  · simp [h]
  · exact contig_flatten f _ r.s r.e h

theorem chunkOne_wf (chunk : Nat) (hc : 0 < chunk) (r : Rng) (hr : r.s ≤ r.e) : ∀ u ∈ chunkOne chunk r, u.s ≤ u.e := by
  rcases chunkOne_cases chunk hc r with h | ⟨h, _⟩
  · intro u hu; rw [h] at hu; simp only [List.mem_singleton] at hu; subst hu; exact hr
  · exact contig_wf _ r.s r.e h

theorem chunkAll_wf (chunk : Nat) (hc : 0 < chunk) : ∀ rs : List Rng, (∀ r ∈ rs, r.s ≤ r.e) →
    ∀ u ∈ chunkAll chunk rs, u.s ≤ u.e
  | [], _ => by simp [chunkAll]
  | r :: rs, h => by
    intro u hu
    simp only [chunkAll, List.mem_append] at hu
    rcases hu with hu | hu
    · exact chunkOne_wf chunk hc r (h r (by simp)) u hu
    · exact chunkAll_wf chunk hc rs (fun x hx => h x (by simp [hx])) u hu

theorem chunkOne_length_pos (chunk : Nat) (hc : 0 < chunk) (r : Rng) : 1 ≤ (chunkOne chunk r).length := by
  rcases chunkOne_cases chunk hc r with h | ⟨_, h⟩
  · simp [h]
  · omega

theorem chunkAll_length_ge (chunk : Nat) (hc : 0 < chunk) : ∀ rs : List Rng, rs.length ≤ (chunkAll chunk rs).length
  | [] => by simp [chunkAll]
  | r :: rs => by
    have := chunkOne_length_pos chunk hc r
    have := chunkAll_length_ge chunk hc rs
    simp only [chunkAll, List.length_append, List.length_cons]; omega

/-- fast path: the lengths agree only if nothing was split -/
theorem chunkAll_eq_of_length (chunk : Nat) (hc : 0 < chunk) : ∀ rs : List Rng,
    (chunkAll chunk rs).length = rs.length → chunkAll chunk rs = rs
  | [], _ => by simp [chunkAll]
  | r :: rs, h => by
    have h1 := chunkOne_length_pos chunk hc r
    have h2 := chunkAll_length_ge chunk hc rs
    simp only [chunkAll, List.length_append, List.length_cons] at h
    have hlen1 : (chunkOne chunk r).length = 1 := by omega
    have hrest : (chunkAll chunk rs).length = rs.length := by omega
    have hr : chunkOne chunk r = [r] := by
      rcases chunkOne_cases chunk hc r with h' | ⟨_, h'⟩
      · exact h'
      · omega
    simp only [chunkAll, hr, chunkAll_eq_of_length chunk hc rs hrest, List.singleton_append]

/-- slow path: regrouping the chunk buffers gives one buffer per original range -/
theorem regroup_ok (f : Nat → Nat) (chunk : Nat) (hc : 0 < chunk) : ∀ rs : List Rng,
    regroup (rs.map (fun r => (chunkOne chunk r).length)) ((chunkAll chunk rs).map (fun u => slice f u.s u.e)) =
      rs.map (fun r => slice f r.s r.e)
  | [] => by simp [regroup]
  | r :: rs => by
    simp only [List.map_cons, regroup, chunkAll, List.map_append]
    have hl : ((chunkOne chunk r).map (fun u => slice f u.s u.e)).length = (chunkOne chunk r).length := by simp
    rw [List.take_left' hl, List.drop_left' hl, chunkOne_flatten f chunk hc r, regroup_ok f chunk hc rs]

end LanceModel.C30
