import LanceModel.C30.RangeLemmas
/-
C30 (a) — the un-coalesce loop: copy-back loop, piece cursor, and the main induction.
-/
namespace LanceModel.C30

/-- the copy-back loop assembles `o` when the following pieces continue contiguously from `c` up to `o.e` -/
theorem copyLoop_ok (f : Nat → Nat) (o : Rng) : ∀ (rest : List Rng) (c : Nat), o.s ≤ c → c ≤ o.e →
    (c < o.e → Cont rest c o.e) → copyLoop f (o.e - o.s) (slice f o.s c) rest = some (slice f o.s o.e)
  | [], c, h1, h2, h3 => by
    by_cases hc : c < o.e
    · exact (h3 hc).elim
    · have : c = o.e := by omega
      subst this
      simp [copyLoop, slice_length]
  | v :: rest, c, h1, h2, h3 => by
    by_cases hc : c < o.e
    · obtain ⟨hs, hle, hor⟩ := h3 hc
      have hlt : (slice f o.s c).length < o.e - o.s := by rw [slice_length]; omega
      simp only [copyLoop, hlt, ↓reduceIte]
      have hk : v.s + min (o.e - o.s - (slice f o.s c).length) (v.e - v.s) ≤ v.e := by omega
      rw [bslice_fetch_zero f v _ hk, slice_length, hs]
      rw [slice_append f o.s c _ h1 (by omega)]
      apply copyLoop_ok f o rest
      · omega
      · omega
      · intro hlt2
        rcases hor with h | h
        · omega
        · have : c + min (o.e - o.s - (c - o.s)) (v.e - c) = v.e := by omega
          rw [this]; exact h
    · have : c = o.e := by omega
      subst this
      simp [copyLoop, slice_length]

/-- the cursor piece `u` overlaps `o` and the piece list serves `o`: the pushed buffer is the file slice -/
theorem serve_ok (f : Nat → Nat) (u : Rng) (us : List Rng) (o : Rng) (ho : o.s < o.e)
    (hov : overlapping u o = true) (h : Served (u :: us) o) : serve f u us o = some (slice f o.s o.e) := by
  simp only [overlapping, Bool.and_eq_true, decide_eq_true_eq] at hov
  rcases h with ⟨h1, h2, h3⟩ | ⟨h1, _⟩
  · unfold serve
    have : ¬ o.s < u.s := by omega
    simp only [this, ↓reduceIte]
    by_cases he : o.e ≤ u.e
    · simp only [he, ↓reduceIte]
      rw [bslice_fetch f u o.s o.e h1 (by omega) he]
    · simp only [he, ↓reduceIte]
      have hc : Cont us u.e o.e := by
        rcases h3 with h | h
        · omega
        · exact h
      unfold fetch
      rw [slice_drop]
      have : u.s + (o.s - u.s) = o.s := by omega
      rw [this]
      exact copyLoop_ok f o us u.e (by omega) (by omega) (fun _ => hc)
  · omega

/-- skipping: from a cursor that serves `o` the skip loop stops on an overlapping piece that still serves `o` and every
    range that starts at or after `o.s` -/
theorem skipTo_spec (o : Rng) (ho : o.s < o.e) : ∀ (us : List Rng), Served us o →
    ∃ u us', skipTo o us = u :: us' ∧ overlapping u o = true ∧ Served (u :: us') o ∧
      (∀ o' : Rng, o.s ≤ o'.s → Served us o' → Served (u :: us') o')
  | [], h => by simp [Served] at h
  | u :: us, h => by
    by_cases hov : overlapping u o = true
    · exact ⟨u, us, by simp [skipTo, hov], hov, h, fun _ _ h' => h'⟩
    · have hov' := hov
      simp only [overlapping, Bool.and_eq_true, decide_eq_true_eq, not_and] at hov'
      rcases h with ⟨h1, h2, _⟩ | ⟨h1, h2⟩
      · exact absurd h2 (hov' (by omega))
      · obtain ⟨u', us', e1, e2, e3, e4⟩ := skipTo_spec o ho us h2
        refine ⟨u', us', by simp [skipTo, hov, e1], e2, e3, ?_⟩
        intro o' ho' hs'
        apply e4 o' ho'
        rcases hs' with ⟨_, g2, _⟩ | ⟨_, g2⟩
        · omega
        · exact g2

/-- main induction: if the cursor serves every non-empty range still to be answered and those are ordered by start,
    the loop answers each range with its file slice -/
theorem uncoalesce_ok (f : Nat → Nat) : ∀ (rs us : List Rng),
    (∀ o ∈ rs, o.s < o.e → Served us o) → ByStart (rs.filter (fun r => !r.isEmpty)) →
    uncoalesce f us rs = some (rs.map (fun r => slice f r.s r.e))
  | [], us, _, _ => by simp [uncoalesce]
  | o :: rs, us, hserved, hsorted => by
    by_cases ho : o.s < o.e
    · have hne : o.isEmpty = false := by simp [Rng.isEmpty, ho]
      simp only [List.filter, hne, Bool.not_false] at hsorted
      have hs := List.pairwise_cons.mp hsorted
      obtain ⟨u, us', e1, e2, e3, e4⟩ := skipTo_spec o ho us (hserved o (by simp) ho)
      simp only [uncoalesce, hne, Bool.false_eq_true, ↓reduceIte, e1]
      rw [serve_ok f u us' o ho e2 e3]
      simp only
      rw [uncoalesce_ok f rs (u :: us') ?_ hs.2]
      · simp
      · intro o' ho' hne'
        apply e4 o' ?_ (hserved o' (by simp [ho']) hne')
        apply hs.1 o'
        simp [List.mem_filter, ho', Rng.isEmpty, hne']
    · have hne : o.isEmpty = true := by simp [Rng.isEmpty, ho]
      simp only [List.filter, hne, Bool.not_true] at hsorted
      simp only [uncoalesce, hne, ↓reduceIte]
      rw [uncoalesce_ok f rs us (fun o' ho' => hserved o' (by simp [ho'])) hsorted]
      have : slice f o.s o.e = [] := slice_empty f o.s o.e (by omega)
      simp [this]

end LanceModel.C30
