/-
C30 (b) — model of `IoQueueState` / `IoQueue` (rust/lance-io/src/scheduler.rs) as a labelled transition system.
`QState` mirrors the fields of `IoQueueState`; `G` adds ghost bookkeeping (capacity, byte budget, which tasks were handed
out and not yet completed / consumed) that the theorems are stated about.  The `BinaryHeap` is a bag: `next_task` may hand
out ANY pending task of minimal priority (the heap's tie-break is unspecified), so the event `next id` names the task and
its guard says "a minimal-priority pending task that `can_deliver`".
Not modelled: tokio `Notify` wake-ups, the process-wide `IOPS_QUOTA` semaphore, u32/i64 overflow.
Import-free.
-/
namespace LanceModel.C30

/-- `IoTask`: `id` = start of `to_read` (unique within a case), `prio` = `priority`, `bytes` = `num_bytes()` -/
structure Task where
  id : Nat
  prio : Nat
  bytes : Nat
deriving DecidableEq, Repr

/-- `IoQueueState` -/
structure QState where
  iopsAvail : Nat
  bytesAvail : Int
  pending : List Task
  inFlight : List Nat
  done : Bool

/-- `IoQueueState::new` -/
def QState.new (cap buf : Nat) : QState := ⟨cap, buf, [], [], false⟩

/-- `PrioritiesInFlight::push` (binary-search insert keeps the vector sorted) -/
def insertSorted (x : Nat) : List Nat → List Nat
  | [] => [x]
  | y :: t => if x ≤ y then x :: y :: t else y :: insertSorted x t

/-- `task.priority <= self.priorities_in_flight.min_in_flight()`; an empty vector means `u128::MAX` -/
def leMinInFlight (p : Nat) : List Nat → Bool
  | [] => true
  | m :: _ => decide (p ≤ m)

/-- `IoQueueState::can_deliver` -/
def canDeliver (s : QState) (t : Task) : Bool :=
  if s.iopsAvail = 0 then false
  else if leMinInFlight t.prio s.inFlight then true
  else if (t.bytes : Int) > s.bytesAvail then false
  else true

/-- `t` is what `pending_requests.peek()` may return: a pending task of minimal priority -/
def isMin (s : QState) (t : Task) : Bool := s.pending.contains t && s.pending.all (fun t' => decide (t.prio ≤ t'.prio))

/-- the `Some` arm of `IoQueueState::next_task` for the peeked task `t` -/
def deliver (s : QState) (t : Task) : QState :=
  { s with inFlight := insertSorted t.prio s.inFlight, iopsAvail := s.iopsAvail - 1,
           bytesAvail := s.bytesAvail - t.bytes, pending := s.pending.erase t }

/-- `IoQueue::push` -/
def qPush (s : QState) (t : Task) : QState := { s with pending := t :: s.pending }

/-- `IoQueue::on_iop_complete` -/
def qIopComplete (s : QState) : QState := { s with iopsAvail := s.iopsAvail + 1 }

/-- `for _ in 0..num_reqs { priorities_in_flight.remove(priority) }` -/
def removeN (p : Nat) : Nat → List Nat → List Nat
  | 0, l => l
  | n + 1, l => removeN p n (l.erase p)

/-- `IoQueue::on_bytes_consumed(bytes, priority, num_reqs)` -/
def qBytesConsumed (s : QState) (bytes prio reqs : Nat) : QState :=
  { s with bytesAvail := s.bytesAvail + bytes, inFlight := removeN prio reqs s.inFlight }

/-- `IoQueue::close`: the taken `pending_requests` are cancelled by the caller -/
def qClose (s : QState) : QState := { s with done := true, pending := [] }

/-- queue plus ghost bookkeeping -/
structure G where
  q : QState
  cap : Nat
  buf : Nat
  /-- handed out by `next_task`, IOP not yet complete -/
  running : List Task
  /-- handed out, bytes not yet consumed (a superset of `running`) -/
  delivered : List Task
  cancelled : List Task
  pushed : Nat
  consumed : Nat

def G.new (cap buf : Nat) : G := ⟨QState.new cap buf, cap, buf, [], [], [], 0, 0⟩

inductive Ev where
  | push (t : Task)
  /-- `next_task` returned the task `t` -/
  | next (t : Task)
  /-- `next_task` returned `None` -/
  | nextNone
  /-- the IOP of the running task `t` finished (`on_iop_complete`) -/
  | iopDone (t : Task)
  /-- the consumer took the bytes of the completed task `t` (`on_bytes_consumed(bytes, prio, 1)`) -/
  | consumed (t : Task)
  | close

/-- one transition; `none` = the event is not enabled in this state -/
def step (g : G) : Ev → Option G
  | .push t => some { g with q := qPush g.q t, pushed := g.pushed + 1 }
  | .next t =>
    if isMin g.q t && canDeliver g.q t then
      some { g with q := deliver g.q t, running := t :: g.running, delivered := t :: g.delivered }
    else none
  | .nextNone =>
    if g.q.pending.isEmpty || g.q.pending.any (fun t => isMin g.q t && !canDeliver g.q t) then some g else none
  | .iopDone t =>
    if g.running.contains t then some { g with q := qIopComplete g.q, running := g.running.erase t } else none
  | .consumed t =>
    if g.delivered.contains t && !g.running.contains t then
      some { g with q := qBytesConsumed g.q t.bytes t.prio 1, delivered := g.delivered.erase t,
                    consumed := g.consumed + 1 }
    else none
  | .close => some { g with q := qClose g.q, cancelled := g.q.pending ++ g.cancelled }

/-- the states reachable from `G.new cap buf` -/
inductive Reachable (cap buf : Nat) : G → Prop where
  | init : Reachable cap buf (G.new cap buf)
  | step {g g' : G} (e : Ev) : Reachable cap buf g → step g e = some g' → Reachable cap buf g'

def sumBytes : List Task → Int
  | [] => 0
  | t :: ts => (t.bytes : Int) + sumBytes ts

end LanceModel.C30
