import LanceModel.C30.LoopLemmas
import LanceModel.C30.EncLemmas
import LanceModel.C30.QueueLemmas
import LanceModel.C30.DrainLemmas
import LanceModel.C30.WakeLemmas
/-
C30 — The I/O scheduler returns exactly the requested bytes and always completes.

(a) `FileScheduler::submit_request` (coalesce / split by max_iop_size / un-coalesce), model in Model.lean.
(b) `IoQueueState` / `IoQueue` as an LTS, model in Queue.lean.
-/
namespace LanceModel.C30

/-! ## (a) one buffer per requested range, in request order, holding the file's bytes -/

/-- what the property demands of a response -/
def Expected (file : Nat → Nat) (rs : List Rng) : List Buf := rs.map (fun r => slice file r.s r.e)

/-- ranges are `start..end` with `start ≤ end` (the model does not cover reversed ranges) -/
def WellFormed (rs : List Rng) : Prop := ∀ r ∈ rs, r.s ≤ r.e

/-- the non-empty ranges are ordered by start (empty ranges may sit anywhere) -/
def NonEmptyByStart (rs : List Rng) : Prop := ByStart (rs.filter (fun r => !r.isEmpty))

instance (rs : List Rng) : Decidable (NonEmptyByStart rs) := by unfold NonEmptyByStart ByStart; infer_instance
instance (rs : List Rng) : Decidable (WellFormed rs) := by unfold WellFormed; infer_instance

/-- The property at full strength: for ANY list of byte ranges (empty, overlapping, contained, adjacent or far apart, in any
    order), any block size and any maximum request size the response is exactly `Expected`. -/
def C30_response_exact_full : Prop :=
  ∀ (file : Nat → Nat) (bs maxSz : Nat) (rs : List Rng), 0 < maxSz → WellFormed rs →
    respond file bs maxSz rs = some (Expected file rs)

/-- What the code satisfies: the full conclusion for every list whose NON-EMPTY ranges are ordered by start — empty ranges
    anywhere, equal starts, nested, overlapping, adjacent, within-block or far-apart ranges, any block size, any max size. -/
theorem response_exact_partial (file : Nat → Nat) (bs maxSz : Nat) (rs : List Rng) (hmax : 0 < maxSz)
    (_hwf : WellFormed rs) (hsorted : NonEmptyByStart rs) :
    respond file bs maxSz rs = some (Expected file rs) := by
  unfold respond Expected
  apply uncoalesce_ok file rs _ _ hsorted
  intro o ho hne
  apply served_splitAll maxSz hmax _ o hne
  apply coalesceNE_served bs _ hsorted o
  simp [List.mem_filter, ho, Rng.isEmpty, hne]

/-- one buffer per range (corollary) -/
theorem response_one_buffer_per_range (file : Nat → Nat) (bs maxSz : Nat) (rs : List Rng) (hmax : 0 < maxSz)
    (hwf : WellFormed rs) (hsorted : NonEmptyByStart rs) :
    ∃ bufs, respond file bs maxSz rs = some bufs ∧ bufs.length = rs.length ∧
      ∀ i (h : i < rs.length) (h' : i < bufs.length), bufs[i] = slice file rs[i].s rs[i].e := by
  refine ⟨Expected file rs, response_exact_partial file bs maxSz rs hmax hwf hsorted, by simp [Expected], ?_⟩
  intro i h h'
  simp [Expected]

/-- The code does NOT meet the full property: a later non-empty range that starts before an earlier one is absorbed by the
    coalescing (which only ever extends the end of the current interval) and gets no buffer.
    Witness replayed on the implementation: corpus/C30/defects-2026-09.case `unsorted`. -/
theorem response_exact_counterexample : ¬ C30_response_exact_full := by
  intro h
  have := h (fun i => i) 100 100 [⟨10, 12⟩, ⟨0, 2⟩] (by decide) (by decide)
  revert this
  decide

-- non-vacuity: a list with nested, overlapping, equal-start, empty (anywhere) and split ranges satisfies the hypotheses …
example : WellFormed [⟨0, 100⟩, ⟨10, 20⟩, ⟨300, 300⟩, ⟨40, 60⟩, ⟨40, 45⟩, ⟨2, 2⟩, ⟨160, 170⟩] ∧
    NonEmptyByStart [⟨0, 100⟩, ⟨10, 20⟩, ⟨300, 300⟩, ⟨40, 60⟩, ⟨40, 45⟩, ⟨2, 2⟩, ⟨160, 170⟩] := by decide
-- … and the model really splits and coalesces on it (3 IOPs for 5 non-empty ranges with max size 50, block 4)
example : numIops 4 50 [⟨0, 100⟩, ⟨10, 20⟩, ⟨300, 300⟩, ⟨40, 60⟩, ⟨40, 45⟩, ⟨2, 2⟩, ⟨160, 170⟩] = 3 := by decide
example : (respond (fun i => i) 4 50 [⟨0, 100⟩, ⟨10, 20⟩, ⟨300, 300⟩, ⟨40, 60⟩]).map (·.map List.length) =
    some [100, 10, 0, 20] := by decide
-- the unsorted witness returns ONE buffer for two ranges
example : (respond (fun i => i) 100 100 [⟨10, 12⟩, ⟨0, 2⟩]) = some [[10, 11]] := by decide
-- and an unsorted overlap panics (`orig_range.start - byte_offset` underflows)
example : (respond (fun i => i) 100 100 [⟨50, 60⟩, ⟨40, 70⟩]) = none := by decide

/-! ### chunking large ranges and reassembling (`LanceEncodingsIo::submit_request`) -/

/-- full statement for the encodings I/O layer: any ranges, any read chunk size -/
def C30_encodings_io_exact_full : Prop :=
  ∀ (file : Nat → Nat) (chunk bs maxSz : Nat) (rs : List Rng), 0 < chunk → 0 < maxSz → WellFormed rs →
    encRespond file chunk bs maxSz rs = some (Expected file rs)

/-- What the code satisfies: exact response whenever the CHUNKED list still has its non-empty ranges ordered by start
    (e.g. ranges ordered by start where no range starts before the last chunk of its predecessor). -/
theorem encodings_io_exact_partial (file : Nat → Nat) (chunk bs maxSz : Nat) (rs : List Rng) (hc : 0 < chunk)
    (hmax : 0 < maxSz) (hwf : WellFormed rs) (hsorted : NonEmptyByStart (chunkAll chunk rs)) :
    encRespond file chunk bs maxSz rs = some (Expected file rs) := by
  unfold encRespond
  rw [response_exact_partial file bs maxSz (chunkAll chunk rs) hmax (chunkAll_wf chunk hc rs hwf) hsorted]
  simp only [Expected, List.length_map]
  split
  · rename_i hlen
    rw [chunkAll_eq_of_length chunk hc rs hlen]
  · rw [regroup_ok file chunk hc rs]

/-- ordered-by-start input is not enough: the chunks of a large range start after a range nested in it -/
theorem encodings_io_counterexample : ¬ C30_encodings_io_exact_full := by
  intro h
  have := h (fun i => i) 30 0 25 [⟨0, 100⟩, ⟨10, 20⟩] (by decide) (by decide) (by decide)
  revert this
  decide

-- non-vacuity: a large range cut into four chunks followed by ranges that start in / after its last chunk
example : WellFormed [⟨0, 100⟩, ⟨80, 120⟩, ⟨125, 125⟩, ⟨300, 310⟩] ∧
    NonEmptyByStart (chunkAll 30 [⟨0, 100⟩, ⟨80, 120⟩, ⟨125, 125⟩, ⟨300, 310⟩]) ∧
    (chunkAll 30 [⟨0, 100⟩, ⟨80, 120⟩, ⟨125, 125⟩, ⟨300, 310⟩]).length = 8 := by decide
-- the witness (input ordered by start): the second range comes back EMPTY
example : (encRespond (fun i => i) 30 0 25 [⟨0, 100⟩, ⟨10, 20⟩]).map (·.map List.length) = some [100, 0] := by decide

/-! ## (b) the queue: accounting, no stuck state, close cancels -/

/-- `accounting`: in every reachable state the IOP credit and the byte credit are conserved, the priorities-in-flight vector
    is sorted and is exactly the multiset of priorities of the delivered-unconsumed tasks. -/
theorem accounting (cap buf : Nat) (g : G) (h : Reachable cap buf g) :
    g.q.iopsAvail + g.running.length = cap ∧
    g.q.bytesAvail + sumBytes g.delivered = buf ∧
    g.q.inFlight.Perm (g.delivered.map (·.prio)) ∧ g.q.inFlight.Pairwise (· ≤ ·) := by
  obtain ⟨hi, hc, hb⟩ := inv_reachable cap buf g h
  exact ⟨hc ▸ hi.iops, hb ▸ hi.bytes, hi.perm, hi.sorted⟩

/-- `no_stuck_state`: in every reachable state with a pending task (and capacity ≥ 1) there is a minimal-priority pending
    task `t` such that either `next_task` hands it out, or an IOP is still running (its completion is enabled and returns an
    IOP credit), or a delivered-unconsumed task of strictly smaller priority value exists (consuming it is what the
    back-pressure waits for). -/
theorem no_stuck_state (cap buf : Nat) (g : G) (h : Reachable cap buf g) (hcap : 0 < cap)
    (hp : g.q.pending ≠ []) :
    ∃ t, isMin g.q t = true ∧
      ((step g (.next t)).isSome ∨ g.running ≠ [] ∨ ∃ d ∈ g.delivered, d.prio < t.prio) := by
  obtain ⟨hi, hc, _⟩ := inv_reachable cap buf g h
  obtain ⟨t, ht, hall⟩ := exists_min g.q.pending hp
  have hmin : isMin g.q t = true := by
    simp only [isMin, Bool.and_eq_true, List.contains_iff_mem, List.all_eq_true, decide_eq_true_eq]
    exact ⟨ht, hall⟩
  refine ⟨t, hmin, ?_⟩
  by_cases hcan : canDeliver g.q t = true
  · left; simp [step, hmin, hcan]
  · right
    by_cases h0 : g.q.iopsAvail = 0
    · left
      have := hi.iops
      intro hr
      rw [hr] at this
      simp only [List.length_nil] at this
      omega
    · right
      -- iops are available, so the refusal came from the byte budget with a smaller priority in flight
      unfold canDeliver at hcan
      simp only [h0, ↓reduceIte] at hcan
      cases hfl : g.q.inFlight with
      | nil => simp [hfl, leMinInFlight] at hcan
      | cons m rest =>
        have hlt : m < t.prio := by
          by_cases hle : t.prio ≤ m
          · simp [hfl, leMinInFlight, hle] at hcan
          · omega
        have hm : m ∈ g.delivered.map (·.prio) := hi.perm.mem_iff.mp (by simp [hfl])
        obtain ⟨d, hd, hdp⟩ := List.mem_map.mp hm
        exact ⟨d, hd, by omega⟩

/-- once every handed-out task has completed and been consumed, `next_task` hands out a pending task whatever its size
    and whatever the byte budget (so back-pressure alone never blocks the queue for good) -/
theorem drained_queue_delivers (cap buf : Nat) (g : G) (h : Reachable cap buf g) (hcap : 0 < cap)
    (hr : g.running = []) (hd : g.delivered = []) (hp : g.q.pending ≠ []) :
    ∃ t, (step g (.next t)).isSome := by
  obtain ⟨hi, hc, _⟩ := inv_reachable cap buf g h
  obtain ⟨t, ht, hall⟩ := exists_min g.q.pending hp
  have hmin : isMin g.q t = true := by
    simp only [isMin, Bool.and_eq_true, List.contains_iff_mem, List.all_eq_true, decide_eq_true_eq]
    exact ⟨ht, hall⟩
  have hfl : g.q.inFlight = [] := by
    have := hi.perm
    rw [hd] at this
    exact List.Perm.eq_nil this
  have hio : g.q.iopsAvail ≠ 0 := by
    have := hi.iops
    rw [hr] at this
    simp only [List.length_nil] at this
    omega
  refine ⟨t, ?_⟩
  simp [step, hmin, canDeliver, hio, hfl, leMinInFlight]

/-- `always_completes` (liveness of the queue): from EVERY reachable state with a pending task there is a finite sequence of
    enabled events — the running IOPs complete, then the consumer takes the delivered buffers — after which `next_task` hands out
    a pending task.  No deadlock: the events of that sequence need nothing from the queue itself. -/
theorem always_completes (cap buf : Nat) (g : G) (h : Reachable cap buf g) (hcap : 0 < cap) (hp : g.q.pending ≠ []) :
    ∃ (es : List Ev) (g' : G), runAll g es = some g' ∧ Reachable cap buf g' ∧ g'.q.pending = g.q.pending ∧
      ∃ t, (step g' (.next t)).isSome := by
  obtain ⟨g1, r1, hrun1, hdel1, hpend1⟩ := complete_all g.running.length g rfl
  obtain ⟨g2, r2, hrun2, hdel2, hpend2⟩ := consume_all g1.delivered.length g1 rfl hrun1
  have hall : runAll g (g.running.map .iopDone ++ g1.delivered.map .consumed) = some g2 := by
    rw [runAll_append g _ _ g1 r1]; exact r2
  have hreach := reachable_runAll cap buf _ g g2 h hall
  have hp2 : g2.q.pending ≠ [] := by rw [hpend2, hpend1]; exact hp
  exact ⟨_, g2, hall, hreach, by rw [hpend2, hpend1],
    drained_queue_delivers cap buf g2 hreach hcap hrun2 hdel2 hp2⟩

/-- completing a running task and consuming a completed task are always enabled -/
theorem completion_enabled (g : G) (t : Task) :
    (t ∈ g.running → (step g (.iopDone t)).isSome) ∧
    (t ∈ g.delivered → t ∉ g.running → (step g (.consumed t)).isSome) := by
  constructor
  · intro h; simp [step, h]
  · intro h h'; simp [step, h, h']

/-- `none_lost`: every pushed task is pending, handed out and unconsumed, consumed, or cancelled -/
theorem none_lost (cap buf : Nat) (g : G) (h : Reachable cap buf g) :
    g.pushed = g.q.pending.length + g.delivered.length + g.consumed + g.cancelled.length :=
  (inv_reachable cap buf g h).1.count

/-- `close_cancels`: closing empties the pending queue into `cancelled` (every pending task is cancelled, none is lost), sets
    `done_scheduling`, and afterwards `next_task` returning `None` (which ends the I/O loop) is enabled. -/
theorem close_cancels (cap buf : Nat) (g : G) (h : Reachable cap buf g) :
    ∃ g', step g .close = some g' ∧ g'.q.pending = [] ∧ g'.q.done = true ∧
      (∀ t ∈ g.q.pending, t ∈ g'.cancelled) ∧ (∀ t ∈ g.cancelled, t ∈ g'.cancelled) ∧
      g'.running = g.running ∧ g'.delivered = g.delivered ∧
      g'.pushed = g'.delivered.length + g'.consumed + g'.cancelled.length ∧
      (step g' .nextNone).isSome := by
  refine ⟨_, rfl, rfl, rfl, ?_, ?_, rfl, rfl, ?_, ?_⟩
  · intro t ht; simp [ht]
  · intro t ht; simp [ht]
  · have := none_lost cap buf g h
    simp only [List.length_append]; omega
  · simp [step, qClose]

/-- a batched `on_bytes_consumed(b1 + b2, p, n + 1)` is `n + 1` single-task consumptions -/
theorem batch_consume (s : QState) (b1 b2 p n : Nat) :
    qBytesConsumed s (b1 + b2) p (n + 1) = qBytesConsumed (qBytesConsumed s b1 p 1) b2 p n := by
  simp only [qBytesConsumed, removeN, Int.natCast_add, Int.add_assoc]

/-! ### the I/O loop and its wake-ups (Wake.lean) -/

/-- `no_lost_wakeup`: with the code's notify sites (push, on_iop_complete, on_bytes_consumed, close each call `notify_one`
    after the state change) — in every reachable state of queue + I/O loop, if the loop is parked (or about to park with no
    permit stored) then `next_task` may return `None` in the current state; equivalently: whenever a task is pending and every
    task `next_task` could peek is deliverable, the loop is awake or has a wake-up pending. -/
theorem no_lost_wakeup (cap buf : Nat) (w : W) (h : WReachable (fun _ => true) cap buf w) :
    (asleep w = true → (step w.g .nextNone).isSome = true) ∧
    (w.g.q.pending ≠ [] → (∀ t, isMin w.g.q t = true → canDeliver w.g.q t = true) → asleep w = false) := by
  have hinv := winv_reachable cap buf w h
  refine ⟨hinv, ?_⟩
  intro hp hall
  cases ha : asleep w with
  | false => rfl
  | true =>
    have hn := hinv ha
    simp only [step] at hn
    split at hn
    · rename_i hc
      simp only [Bool.or_eq_true, List.isEmpty_iff, List.any_eq_true, Bool.and_eq_true,
        Bool.not_eq_eq_eq_not, Bool.not_true] at hc
      rcases hc with hc | ⟨t, _, hmin, hcan⟩
      · exact absurd hc hp
      · rw [hall t hmin] at hcan; cases hcan
    · simp at hn

/-- the seeded shape: A (prio 5, 10 bytes = the whole budget) is read and not consumed, the loop parks; B (prio 7) is pushed,
    is throttled, the loop parks again; C (prio 1) is pushed -/
def seededTrace : List WEv :=
  [.queue (.push ⟨0, 5, 10⟩), .loopNext ⟨0, 5, 10⟩, .queue (.iopDone ⟨0, 5, 10⟩), .loopNone, .loopAwait, .loopNone, .loopAwait,
   .queue (.push ⟨100, 7, 10⟩), .loopNone, .loopAwait, .queue (.push ⟨200, 1, 10⟩)]

/-- the notify in `push` is needed even when the queue is not empty: if `push` only notified an idle (empty) queue, the loop
    would stay parked although the newly pushed, more urgent task is deliverable through the priority bypass.
    (Shape: A prio 5 delivered and unconsumed uses the budget; B prio 7 throttled, loop parks; C prio 1 pushed.) -/
theorem lost_wakeup_if_push_notifies_only_idle_queue :
    ∃ w, WReachable (fun g => g.q.pending.isEmpty) 2 10 w ∧ asleep w = true ∧
      w.g.q.pending ≠ [] ∧ (∀ t, isMin w.g.q t = true → canDeliver w.g.q t = true) := by
  have hobs : (wrunAll (fun g => g.q.pending.isEmpty) (W.new 2 10) seededTrace).map
      (fun w => (asleep w, w.g.q.pending.isEmpty,
        w.g.q.pending.all (fun t => !isMin w.g.q t || canDeliver w.g.q t))) = some (true, false, true) := by decide
  cases hw : wrunAll (fun g => g.q.pending.isEmpty) (W.new 2 10) seededTrace with
  | none => simp [hw] at hobs
  | some w =>
    simp only [hw, Option.map_some, Option.some.injEq, Prod.mk.injEq] at hobs
    obtain ⟨h1, h2, h3⟩ := hobs
    refine ⟨w, wreachable_wrunAll _ 2 10 seededTrace _ w .init hw, h1, ?_, ?_⟩
    · intro he; simp [he] at h2
    · intro t ht
      have hmem : t ∈ w.g.q.pending := isMin_mem _ t ht
      have := List.all_eq_true.mp h3 t hmem
      simpa [ht] using this

-- with the code's notify sites the same events leave the loop awake (the last push wakes it)
example : (wrunAll (fun _ => true) (W.new 2 10) seededTrace).map asleep = some false := by decide

-- non-vacuity: a reachable state in which `next_task` is refused by the byte budget while a smaller priority is in flight
def exG : G :=
  ((step (G.new 2 10) (.push ⟨0, 1, 8⟩)).bind (step · (.push ⟨1, 2, 8⟩))).bind (step · (.next ⟨0, 1, 8⟩)) |>.getD (G.new 2 10)
example : exG.q.pending = [⟨1, 2, 8⟩] ∧ exG.q.iopsAvail = 1 ∧ exG.q.bytesAvail = 2 ∧ exG.q.inFlight = [1] := by decide
example : (step exG (.next ⟨1, 2, 8⟩)).isNone ∧ (step exG .nextNone).isSome := by decide
theorem exG_reachable : Reachable 2 10 exG :=
  .step (.next ⟨0, 1, 8⟩) (.step (.push ⟨1, 2, 8⟩) (.step (.push ⟨0, 1, 8⟩) .init rfl) rfl) rfl
-- … from which completing task 0 and consuming it re-enables `next_task` for the refused task (instance of always_completes)
example : (runAll exG [.iopDone ⟨0, 1, 8⟩, .consumed ⟨0, 1, 8⟩]).map (fun g => (step g (.next ⟨1, 2, 8⟩)).isSome) = some true := by
  decide
example : exG.q.pending ≠ [] := by decide

end LanceModel.C30
