/-
C30 (a) — model of the pure range logic of `FileScheduler::submit_request`
(rust/lance-io/src/scheduler.rs) as it stands in /repo (after the C30 `fix:` commit: empty requested ranges take no part in
coalescing and get an empty buffer without consulting the piece cursor; the copy-back loop no longer moves the piece cursor).

Not modelled: u64 overflow of `range.end + block_size`; ranges with start > end (`IoTask::num_bytes` underflows on them);
`max_iop_size = 0` (division by zero in the code).  The reader is the assumption
"`get_range(s..e)` returns exactly the file's bytes s..e" (`fetch`).
Import-free (core only) so that the driver links natively.
-/
namespace LanceModel.C30

/-- `std::ops::Range<u64>` -/
structure Rng where
  s : Nat
  e : Nat
deriving DecidableEq, Repr

abbrev Buf := List Nat

/-- scheduler.rs: `is_close_together(range1, range2, block_size)` -/
def closeTogether (r1 r2 : Rng) (bs : Nat) : Bool := decide (r2.s ≤ r1.e + bs)

/-- scheduler.rs: `is_overlapping(range1, range2)` -/
def overlapping (r1 r2 : Rng) : Bool := decide (r1.s < r2.e) && decide (r2.s < r1.e)

/-- `Range::is_empty` : `!(start < end)` -/
def Rng.isEmpty (r : Rng) : Bool := !decide (r.s < r.e)

/-- scheduler.rs `FileScheduler::submit_request`, first loop (`for req in request.iter().skip(1)`), `cur` = `curr_interval` -/
def coalesceGo (bs : Nat) (cur : Rng) : List Rng → List Rng
  | [] => [cur]
  | r :: rest =>
    if closeTogether cur r bs then coalesceGo bs ⟨cur.s, max cur.e r.e⟩ rest
    else cur :: coalesceGo bs r rest

/-- `merged_requests` of `FileScheduler::submit_request` given the iterator `non_empty` -/
def coalesceNE (bs : Nat) : List Rng → List Rng
  | [] => []
  | r :: rest => coalesceGo bs r rest

/-- `merged_requests`: `request.iter().filter(|req| !req.is_empty())` is coalesced -/
def coalesce (bs : Nat) (rs : List Rng) : List Rng := coalesceNE bs (rs.filter (fun r => !r.isEmpty))

/-- `u64::div_ceil` -/
def divCeil (a b : Nat) : Nat := a / b + (if a % b = 0 then 0 else 1)

/-- the `for i in 0..num_requests` loop: `k` = pieces still to emit, `start` = `req.start + i * bytes_per_request`;
    the last piece ends at `req.end` -/
def splitGo (start e bpr : Nat) : Nat → List Rng
  | 0 => []
  | 1 => [⟨start, e⟩]
  | k + 2 => ⟨start, start + bpr⟩ :: splitGo (start + bpr) e bpr (k + 1)

/-- body of `for req in merged_requests` (split by `max_iop_size`) -/
def splitOne (maxSz : Nat) (r : Rng) : List Rng :=
  if r.isEmpty then [r]
  else splitGo r.s r.e ((r.e - r.s) / divCeil (r.e - r.s) maxSz) (divCeil (r.e - r.s) maxSz)

/-- `updated_requests` -/
def splitAll (maxSz : Nat) : List Rng → List Rng
  | [] => []
  | r :: rest => splitOne maxSz r ++ splitAll maxSz rest

/-- bytes `s..e` of the file -/
def slice (file : Nat → Nat) (s e : Nat) : Buf := (List.range' s (e - s)).map file

/-- `IoTask::run` under the reader assumption: `bytes_vec[i]` for the piece `u` -/
def fetch (file : Nat → Nat) (u : Rng) : Buf := slice file u.s u.e

/-- `Bytes::slice(a..b)` -/
def bslice (b : Buf) (a z : Nat) : Buf := (b.drop a).take (z - a)

/-- the inner `while copy_offset < orig_size` loop; `acc` = `merged_bytes`, the list = the pieces after the current one.
    `none` = index out of bounds (panic). -/
def copyLoop (file : Nat → Nat) (origSize : Nat) : Buf → List Rng → Option Buf
  | acc, [] => if acc.length < origSize then none else some acc
  | acc, v :: rest =>
    if acc.length < origSize then
      copyLoop file origSize (acc ++ bslice (fetch file v) 0 (min (origSize - acc.length) (v.e - v.s))) rest
    else some acc

/-- the `else { updated_index += 1 }` arm, iterated: drop pieces that do not overlap `o` -/
def skipTo (o : Rng) : List Rng → List Rng
  | [] => []
  | u :: us => if overlapping u o then u :: us else skipTo o us

/-- what is pushed to `final_bytes` for `o` when the cursor piece `u` overlaps it (`us` = the pieces after `u`);
    `none` = panic (usize underflow of `orig_range.start - byte_offset`, or running off the piece list) -/
def serve (file : Nat → Nat) (u : Rng) (us : List Rng) (o : Rng) : Option Buf :=
  if o.s < u.s then none
  else if o.e ≤ u.e then some (bslice (fetch file u) (o.s - u.s) (o.e - u.s))
  else copyLoop file (o.e - o.s) ((fetch file u).drop (o.s - u.s)) us

/-- the un-coalesce loop `while orig_index < request.len()`;
    first argument = `updated_requests[updated_index..]`, second = `request[orig_index..]`.
    An empty range is answered with `Bytes::new()`; running out of pieces (`break`) returns the buffers collected so far. -/
def uncoalesce (file : Nat → Nat) : List Rng → List Rng → Option (List Buf)
  | _, [] => some []
  | us, o :: rs =>
    if o.isEmpty then (uncoalesce file us rs).map ([] :: ·)
    else
      match skipTo o us with
      | [] => some []
      | u :: us' =>
        match serve file u us' o with
        | none => none
        | some b => (uncoalesce file (u :: us') rs).map (b :: ·)

/-- `FileScheduler::submit_request` end to end: `none` = panic, `some bufs` = `Ok(final_bytes)` -/
def respond (file : Nat → Nat) (bs maxSz : Nat) (rs : List Rng) : Option (List Buf) :=
  uncoalesce file (splitAll maxSz (coalesce bs rs)) rs

/-- number of IOPs issued (`updated_requests.len()`, visible as `ScanStats::iops`) -/
def numIops (bs maxSz : Nat) (rs : List Rng) : Nat := (splitAll maxSz (coalesce bs rs)).length

/-! ### `LanceEncodingsIo::submit_request` (rust/lance-file/src/io.rs) on top of the file scheduler -/

/-- the chunk split of one range: `if range_size > read_chunk_size { num_chunks = div_ceil; chunk_size = size / num_chunks; … }` -/
def chunkOne (chunk : Nat) (r : Rng) : List Rng :=
  if r.e - r.s > chunk then
    splitGo r.s r.e ((r.e - r.s) / divCeil (r.e - r.s) chunk) (divCeil (r.e - r.s) chunk)
  else [r]

/-- `split_ranges` -/
def chunkAll (chunk : Nat) : List Rng → List Rng
  | [] => []
  | r :: rest => chunkOne chunk r ++ chunkAll chunk rest

/-- the slow-path reassembly: `results[orig_idx].push(..)` over `zip(split_results, split_indices)`, then per range the single
    chunk or the concatenation; the first argument is the number of chunks of each range -/
def regroup : List Nat → List Buf → List Buf
  | [], _ => []
  | n :: ns, bufs => (bufs.take n).flatten :: regroup ns (bufs.drop n)

/-- `LanceEncodingsIo::submit_request`: fast path when no splitting occurred (`split_results.len() == ranges.len()`) -/
def encRespond (file : Nat → Nat) (chunk bs maxSz : Nat) (rs : List Rng) : Option (List Buf) :=
  match respond file bs maxSz (chunkAll chunk rs) with
  | none => none
  | some res =>
    if res.length = rs.length then some res
    else some (regroup (rs.map (fun r => (chunkOne chunk r).length)) res)

end LanceModel.C30
