import LanceModel.Util
import LanceModel.C30.Model
import LanceModel.C30.Queue
/-
C30 driver.  One output line per op line (protocol documented in harness/src/bin/c30.rs).
-/
namespace LanceModel.C30.Driver
open LanceModel.Util LanceModel.C30

/-- content of the harness file: byte i -/
def fileByte (i : Nat) : Nat := (i * i + 7 * i + 3) % 251

def hashBuf (b : Buf) : Nat := b.foldl (fun h x => (h * 31 + x + 1) % 1000003) 0

def parseRange (t : String) : Option Rng :=
  match t.splitOn "-" with
  | [a, b] => match a.toNat?, b.toNat? with
    | some a, some b => some ⟨a, b⟩
    | _, _ => none
  | _ => none

def parseRanges (s : String) : Option (List Rng) :=
  if s = "-" then some [] else (s.splitOn ",").mapM parseRange

def kv (tok key : String) : Option Nat :=
  match tok.splitOn "=" with
  | [k, v] => if k = key then v.toNat? else none
  | _ => none

def showBufs (bufs : List Buf) : String :=
  if bufs.isEmpty then "-" else ";".intercalate (bufs.map (fun b => toString b.length ++ ":" ++ toString (hashBuf b)))

def showResp (iops : Option Nat) : Option (List Buf) → String
  | none => "panic"
  | some bufs =>
    "ok n=" ++ toString bufs.length ++
      (match iops with | some i => " iops=" ++ toString i | none => "") ++ " " ++ showBufs bufs

structure St where
  g : Option G := none
  tasks : List Task := []

def insertBy (lt : Task → Task → Bool) (x : Task) : List Task → List Task
  | [] => [x]
  | y :: t => if lt x y then x :: y :: t else y :: insertBy lt x t

def sortTasks (l : List Task) : List Task :=
  l.foldr (insertBy (fun a b => a.prio < b.prio || (a.prio == b.prio && a.id ≤ b.id))) []

def showQ (q : QState) : String :=
  let pend := sortTasks q.pending
  "iops=" ++ toString q.iopsAvail ++ " bytes=" ++ toString q.bytesAvail ++
  " pend=" ++ (if pend.isEmpty then "-" else ",".intercalate (pend.map (fun t => toString t.prio ++ ":" ++ toString t.id))) ++
  " fl=" ++ showNatList q.inFlight ++ " done=" ++ showBool q.done

def bad : String := "bad-op"
def notEnabled : String := "not-enabled"

def stepQ (s : St) (toks : List String) : St × String :=
  match toks with
  | ["new", c, b] =>
    match kv c "cap", kv b "buf" with
    | some c, some b => let g := G.new c b; ({ g := some g, tasks := [] }, showQ g.q)
    | _, _ => (s, bad)
  | ["push", i, p, n] =>
    match s.g, kv i "id", kv p "prio", kv n "bytes" with
    | some g, some i, some p, some n =>
      let t : Task := ⟨i, p, n⟩
      match step g (.push t) with
      | some g' => ({ g := some g', tasks := t :: s.tasks }, showQ g'.q)
      | none => (s, notEnabled)
    | _, _, _, _ => (s, bad)
  | ["next", "none"] =>
    match s.g with
    | some g =>
      match step g .nextNone with
      | some g' => ({ s with g := some g' }, "popped=none " ++ showQ g'.q)
      | none => (s, notEnabled)
    | none => (s, bad)
  | ["next", i] =>
    match s.g, i.toNat? with
    | some g, some i =>
      match s.tasks.find? (fun t => t.id == i) with
      | some t =>
        match step g (.next t) with
        | some g' => ({ s with g := some g' }, "popped=" ++ toString i ++ " " ++ showQ g'.q)
        | none => (s, notEnabled)
      | none => (s, bad)
    | _, _ => (s, bad)
  | ["iop_done", i] =>
    match s.g, i.toNat? with
    | some g, some i =>
      match s.tasks.find? (fun t => t.id == i) with
      | some t =>
        match step g (.iopDone t) with
        | some g' => ({ s with g := some g' }, showQ g'.q)
        | none => (s, notEnabled)
      | none => (s, bad)
    | _, _ => (s, bad)
  | ["consumed", ids] =>
    match s.g, parseNatList ids with
    | some g, some ids =>
      -- one batched on_bytes_consumed = the single-task consumptions in turn (Props.batch_consume)
      let r := ids.foldl (fun (acc : Option G) i =>
        match acc with
        | none => none
        | some g => match s.tasks.find? (fun t => t.id == i) with
          | some t => step g (.consumed t)
          | none => none) (some g)
      match r with
      | some g' => ({ s with g := some g' }, showQ g'.q)
      | none => (s, notEnabled)
    | _, _ => (s, bad)
  | ["close"] =>
    match s.g with
    | some g =>
      match step g .close with
      | some g' => ({ s with g := some g' },
          "cancelled=" ++ showNatList (sortNat (g.q.pending.map (·.id))) ++ " " ++ showQ g'.q)
      | none => (s, notEnabled)
    | none => (s, bad)
  | _ => (s, bad)

/-- `conc … | prio:ranges | …` : every request is answered as if it were alone (mode join/seq) or cancelled (mode drop) -/
def concLine (bs maxSz : Nat) (drop : Bool) (reqs : List String) : String :=
  let outs := reqs.map (fun r =>
    match r.splitOn ":" with
    | [_, rs] =>
      match parseRanges rs with
      | some rs =>
        if drop && rs.any (fun r => !r.isEmpty) then "err"
        else showResp none (respond fileByte bs maxSz rs)
      | none => bad
    | _ => bad)
  " | ".intercalate outs

/-- a read fails iff a non-empty range reaches past the end of the 4096-byte harness file -/
def failsRead (rs : List Rng) : Bool := rs.any (fun r => !r.isEmpty && r.e > 4096)

/-- `scen …`: scripted black-box scenario.  Awaited before the drop a request is answered as if it were alone (`err` if one of
    its reads fails); after the drop it merely resolves (`done`).  `run` has no observable output. -/
def scenLine (bs maxSz : Nat) (steps : List String) : String :=
  let rec go (steps : List String) (reqs : List (String × List Rng)) (dropped : Bool) (outs : List String) : Option (List String) :=
    match steps with
    | [] => some outs.reverse
    | st :: rest =>
      match st.splitOn ":" with
      | ["sub", name, _prio, rs] =>
        match parseRanges rs with
        | some rs => if dropped then none else go rest ((name, rs) :: reqs) dropped outs
        | none => none
      | ["run"] => go rest reqs dropped outs
      | ["await", name] =>
        match reqs.lookup name with
        | some rs =>
          let o := if dropped then "done"
                   else if failsRead rs then "err"
                   else showResp none (respond fileByte bs maxSz rs)
          go rest (reqs.filter (fun x => x.1 != name)) dropped ((name ++ ": " ++ o) :: outs)
        | none => none
      | ["drop"] => if dropped then none else go rest reqs true ("drop: ok" :: outs)
      | _ => none
  match go steps [] false [] with
  | some [] => "-"
  | some outs => " ; ".intercalate outs
  | none => bad

def step (s : St) (line : String) : St × String :=
  match splitTokens line with
  | ["req", b, m, rs] =>
    match kv b "bs", kv m "max", parseRanges rs with
    | some bs, some mx, some rs =>
      if mx = 0 then (s, bad) else (s, showResp (some (numIops bs mx rs)) (respond fileByte bs mx rs))
    | _, _, _ => (s, bad)
  | ["ereq", c, b, m, rs] =>
    match kv c "chunk", kv b "bs", kv m "max", parseRanges rs with
    | some ch, some bs, some mx, some rs =>
      if mx = 0 || ch = 0 then (s, bad)
      else (s, showResp (some (numIops bs mx (chunkAll ch rs))) (encRespond fileByte ch bs mx rs))
    | _, _, _, _ => (s, bad)
  | "q" :: rest => stepQ s rest
  | "scen" :: c :: _b :: b :: m :: st :: steps =>
    match kv c "cap", kv b "bs", kv m "max" with
    | some cap, some bs, some mx =>
      if mx = 0 || cap = 0 then (s, bad) else (s, scenLine bs mx (st :: steps))
    | _, _, _ => (s, bad)
  | "conc" :: _c :: _b :: b :: m :: mode :: "|" :: rest =>
    match kv b "bs", kv m "max" with
    | some bs, some mx =>
      if mx = 0 then (s, bad)
      else (s, concLine bs mx (mode == "mode=drop") ((" ".intercalate rest).splitOn " | "))
    | _, _ => (s, bad)
  | _ => (s, bad)

end LanceModel.C30.Driver
