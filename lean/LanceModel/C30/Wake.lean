import LanceModel.C30.Queue
/-
C30 (b) — the I/O loop (`run_io_loop` / `IoQueue::pop`) on top of the queue LTS, with tokio `Notify` semantics:
`notify_one()` wakes a parked waiter or else stores ONE permit; `notified().await` consumes a stored permit or else parks.
Notify sites of the code: `IoQueue::push`, `on_iop_complete`, `on_bytes_consumed`, `close` — each mutates the state under
the lock, releases it and then calls `self.notify.notify_one()`.
`pushNotifies` abstracts the one site a seeded change may weaken (the code: always).
Import-free.
-/
namespace LanceModel.C30

/-- where the I/O loop is: about to call `next_task` / `next_task` returned `None`, lock released, about to call
    `notified().await` / parked inside `notified()` / returned (`done_scheduling`) -/
inductive Loop where
  | running | waiting | parked | exited
deriving DecidableEq, Repr

structure W where
  g : G
  loop : Loop
  permit : Bool

def W.new (cap buf : Nat) : W := ⟨G.new cap buf, .running, false⟩

/-- `Notify::notify_one` -/
def notifyOne (w : W) : W :=
  match w.loop with
  | .parked => { w with loop := .running }
  | _ => { w with permit := true }

inductive WEv where
  /-- another thread: `push` / `iopDone` (`on_iop_complete`) / `consumed` (`on_bytes_consumed`) / `close` -/
  | queue (e : Ev)
  /-- the loop: `next_task` returned `Some(t)`; the task is spawned and the loop goes round -/
  | loopNext (t : Task)
  /-- the loop: `next_task` returned `None` -/
  | loopNone
  /-- the loop: `self.notify.notified().await` -/
  | loopAwait

/-- one transition of the system; `pushNotifies g` = does `IoQueue::push` call `notify_one` when pushing onto state `g` -/
def wstep (pushNotifies : G → Bool) (w : W) : WEv → Option W
  | .queue (.push t) =>
    match step w.g (.push t) with
    | some g' => some (if pushNotifies w.g then notifyOne { w with g := g' } else { w with g := g' })
    | none => none
  | .queue (.iopDone t) => (step w.g (.iopDone t)).map (fun g' => notifyOne { w with g := g' })
  | .queue (.consumed t) => (step w.g (.consumed t)).map (fun g' => notifyOne { w with g := g' })
  | .queue .close => (step w.g .close).map (fun g' => notifyOne { w with g := g' })
  | .queue (.next _) => none
  | .queue .nextNone => none
  | .loopNext t =>
    if w.loop = .running then (step w.g (.next t)).map (fun g' => { w with g := g' }) else none
  | .loopNone =>
    if w.loop = .running then
      (step w.g .nextNone).map (fun g' => { w with g := g', loop := if g'.q.done then .exited else .waiting })
    else none
  | .loopAwait =>
    if w.loop = .waiting then
      some (if w.permit then { w with loop := .running, permit := false } else { w with loop := .parked })
    else none

inductive WReachable (pn : G → Bool) (cap buf : Nat) : W → Prop where
  | init : WReachable pn cap buf (W.new cap buf)
  | step {w w' : W} (e : WEv) : WReachable pn cap buf w → wstep pn w e = some w' → WReachable pn cap buf w'

/-- the loop sleeps and nothing will wake it: parked, or about to park with no permit stored -/
def asleep (w : W) : Bool := w.loop == .parked || (w.loop == .waiting && !w.permit)

/-- run events, all of which must be enabled -/
def wrunAll (pn : G → Bool) (w : W) : List WEv → Option W
  | [] => some w
  | e :: es => (wstep pn w e).bind (fun w' => wrunAll pn w' es)

end LanceModel.C30
