import LanceModel.C30.Driver
def main : IO Unit := LanceModel.Util.runDriver LanceModel.C30.Driver.step {}
