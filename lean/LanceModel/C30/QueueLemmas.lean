import LanceModel.C30.Queue
/-
C30 (b) — invariant of the queue LTS, one lemma per transition.
-/
namespace LanceModel.C30

theorem insertSorted_perm (x : Nat) : ∀ l : List Nat, (insertSorted x l).Perm (x :: l)
  | [] => List.Perm.refl _
  | y :: t => by
    simp only [insertSorted]
    split
    · exact List.Perm.refl _
    · exact ((insertSorted_perm x t).cons y).trans (List.Perm.swap x y t)

theorem insertSorted_sorted (x : Nat) : ∀ l : List Nat, l.Pairwise (· ≤ ·) → (insertSorted x l).Pairwise (· ≤ ·)
  | [], _ => by simp [insertSorted]
  | y :: t, h => by
    have h' := List.pairwise_cons.mp h
    simp only [insertSorted]
    split
    · rename_i hxy
      refine List.pairwise_cons.mpr ⟨?_, h⟩
      intro z hz
      rcases List.mem_cons.mp hz with rfl | hz
      · exact hxy
      · exact Nat.le_trans hxy (h'.1 z hz)
    · rename_i hxy
      refine List.pairwise_cons.mpr ⟨?_, insertSorted_sorted x t h'.2⟩
      intro z hz
      rcases List.mem_cons.mp ((insertSorted_perm x t).mem_iff.mp hz) with rfl | hz
      · omega
      · exact h'.1 z hz

theorem sumBytes_erase (t : Task) : ∀ l : List Task, t ∈ l → sumBytes (l.erase t) = sumBytes l - t.bytes
  | [], h => by simp at h
  | a :: l, h => by
    by_cases hat : a = t
    · subst hat; simp [sumBytes]; omega
    · have hm : t ∈ l := by
        rcases List.mem_cons.mp h with rfl | hm
        · exact absurd rfl hat
        · exact hm
      have : (a == t) = false := by simp [hat]
      simp only [List.erase_cons, this, sumBytes]
      simp only [Bool.false_eq_true, ↓reduceIte, sumBytes, sumBytes_erase t l hm]
      omega

theorem map_prio_erase_perm (t : Task) : ∀ l : List Task, t ∈ l →
    ((l.map (·.prio)).erase t.prio).Perm ((l.erase t).map (·.prio))
  | [], h => by simp at h
  | a :: l, h => by
    by_cases hat : a = t
    · subst hat; simp
    · have hm : t ∈ l := by
        rcases List.mem_cons.mp h with rfl | hm
        · exact absurd rfl hat
        · exact hm
      have e1 : (a == t) = false := by simp [hat]
      simp only [List.map_cons, List.erase_cons, e1, Bool.false_eq_true, ↓reduceIte]
      by_cases hp : a.prio = t.prio
      · -- same priority, different task: erasing the priority at the head is a permutation of erasing it further on
        simp only [hp, BEq.rfl, ↓reduceIte]
        have hmem : t.prio ∈ l.map (·.prio) := List.mem_map_of_mem hm
        have h1 := List.perm_cons_erase hmem
        have h2 := (map_prio_erase_perm t l hm).cons t.prio
        exact h1.trans h2
      · have e2 : (a.prio == t.prio) = false := by simp [hp]
        simp only [e2, Bool.false_eq_true, ↓reduceIte]
        exact (map_prio_erase_perm t l hm).cons a.prio

/-- the invariant of the queue -/
structure Inv (g : G) : Prop where
  iops : g.q.iopsAvail + g.running.length = g.cap
  bytes : g.q.bytesAvail + sumBytes g.delivered = g.buf
  perm : g.q.inFlight.Perm (g.delivered.map (·.prio))
  sorted : g.q.inFlight.Pairwise (· ≤ ·)
  count : g.pushed = g.q.pending.length + g.delivered.length + g.consumed + g.cancelled.length

theorem inv_init (cap buf : Nat) : Inv (G.new cap buf) := by
  refine ⟨?_, ?_, ?_, ?_, ?_⟩ <;> simp [G.new, QState.new, sumBytes]

theorem canDeliver_iops (s : QState) (t : Task) (h : canDeliver s t = true) : 0 < s.iopsAvail := by
  unfold canDeliver at h
  by_cases h0 : s.iopsAvail = 0
  · simp [h0] at h
  · omega

theorem isMin_mem (s : QState) (t : Task) (h : isMin s t = true) : t ∈ s.pending := by
  simp only [isMin, Bool.and_eq_true, List.contains_iff_mem] at h
  exact h.1

theorem inv_next (g : G) (t : Task) (h : Inv g) (hmin : isMin g.q t = true) (hcan : canDeliver g.q t = true) :
    Inv { g with q := deliver g.q t, running := t :: g.running, delivered := t :: g.delivered } := by
  obtain ⟨h1, h2, h3, h4, h5⟩ := h
  have hpos := canDeliver_iops g.q t hcan
  have hmem := isMin_mem g.q t hmin
  refine ⟨?_, ?_, ?_, ?_, ?_⟩
  · simp only [deliver, List.length_cons]; omega
  · simp only [deliver, sumBytes]; omega
  · simp only [deliver, List.map_cons]
    exact (insertSorted_perm t.prio g.q.inFlight).trans (h3.cons t.prio)
  · exact insertSorted_sorted t.prio g.q.inFlight h4
  · have hl := List.length_erase_of_mem hmem
    have hp : 0 < g.q.pending.length := List.length_pos_of_mem hmem
    simp only [deliver, List.length_cons, hl]; omega

theorem inv_iopDone (g : G) (t : Task) (h : Inv g) (hmem : t ∈ g.running) :
    Inv { g with q := qIopComplete g.q, running := g.running.erase t } := by
  obtain ⟨h1, h2, h3, h4, h5⟩ := h
  have hl := List.length_erase_of_mem hmem
  have hp : 0 < g.running.length := List.length_pos_of_mem hmem
  refine ⟨?_, h2, h3, h4, h5⟩
  simp only [qIopComplete, hl]; omega

theorem inv_consumed (g : G) (t : Task) (h : Inv g) (hmem : t ∈ g.delivered) :
    Inv { g with q := qBytesConsumed g.q t.bytes t.prio 1, delivered := g.delivered.erase t,
                 consumed := g.consumed + 1 } := by
  obtain ⟨h1, h2, h3, h4, h5⟩ := h
  have hl := List.length_erase_of_mem hmem
  have hp : 0 < g.delivered.length := List.length_pos_of_mem hmem
  refine ⟨h1, ?_, ?_, ?_, ?_⟩
  · simp only [qBytesConsumed, sumBytes_erase t g.delivered hmem]; omega
  · simp only [qBytesConsumed, removeN]
    exact (h3.erase t.prio).trans (map_prio_erase_perm t g.delivered hmem)
  · simp only [qBytesConsumed, removeN]
    exact h4.sublist List.erase_sublist
  · simp only [qBytesConsumed, hl]; omega

theorem inv_step (g g' : G) (e : Ev) (h : Inv g) (hs : step g e = some g') : Inv g' := by
  cases e with
  | push t =>
    simp only [step, Option.some.injEq] at hs
    subst hs
    obtain ⟨h1, h2, h3, h4, h5⟩ := h
    exact ⟨h1, h2, h3, h4, by simp only [qPush, List.length_cons]; omega⟩
  | next t =>
    simp only [step] at hs
    split at hs
    · rename_i hc
      simp only [Bool.and_eq_true] at hc
      simp only [Option.some.injEq] at hs
      subst hs
      exact inv_next g t h hc.1 hc.2
    · simp at hs
  | nextNone =>
    simp only [step] at hs
    split at hs
    · simp only [Option.some.injEq] at hs; subst hs; exact h
    · simp at hs
  | iopDone t =>
    simp only [step] at hs
    split at hs
    · rename_i hc
      simp only [Option.some.injEq] at hs
      subst hs
      exact inv_iopDone g t h (List.contains_iff_mem.mp hc)
    · simp at hs
  | consumed t =>
    simp only [step] at hs
    split at hs
    · rename_i hc
      simp only [Bool.and_eq_true] at hc
      simp only [Option.some.injEq] at hs
      subst hs
      exact inv_consumed g t h (List.contains_iff_mem.mp hc.1)
    · simp at hs
  | close =>
    simp only [step, Option.some.injEq] at hs
    subst hs
    obtain ⟨h1, h2, h3, h4, h5⟩ := h
    exact ⟨h1, h2, h3, h4, by simp only [qClose, List.length_append, List.length_nil]; omega⟩

theorem inv_reachable (cap buf : Nat) (g : G) (h : Reachable cap buf g) : Inv g ∧ g.cap = cap ∧ g.buf = buf := by
  induction h with
  | init => exact ⟨inv_init cap buf, rfl, rfl⟩
  | step e _ hs ih =>
    refine ⟨inv_step _ _ e ih.1 hs, ?_, ?_⟩
    · rw [← ih.2.1]; cases e <;> simp only [step] at hs <;> (try split at hs) <;> simp at hs <;> subst hs <;> rfl
    · rw [← ih.2.2]; cases e <;> simp only [step] at hs <;> (try split at hs) <;> simp at hs <;> subst hs <;> rfl

theorem exists_min : ∀ l : List Task, l ≠ [] → ∃ t ∈ l, ∀ t' ∈ l, t.prio ≤ t'.prio
  | [], h => absurd rfl h
  | [a], _ => ⟨a, by simp, by simp⟩
  | a :: b :: l, _ => by
    obtain ⟨m, hm, hall⟩ := exists_min (b :: l) (by simp)
    by_cases hle : a.prio ≤ m.prio
    · refine ⟨a, by simp, ?_⟩
      intro t' ht'
      rcases List.mem_cons.mp ht' with rfl | ht'
      · exact Nat.le_refl _
      · exact Nat.le_trans hle (hall t' ht')
    · refine ⟨m, List.mem_cons_of_mem _ hm, ?_⟩
      intro t' ht'
      rcases List.mem_cons.mp ht' with rfl | ht'
      · omega
      · exact hall t' ht'

end LanceModel.C30
