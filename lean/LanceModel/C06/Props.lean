import LanceModel.C06.HistLemmas
/-
C06 — Time travel is immutable.

  "Checking out version v returns the same schema, rows (values and order), deletions, configuration and index list every
   time, no matter which operations (including restore, overwrite, compaction, tag/branch changes and cleanup of other
   versions) happen afterwards, as long as v itself has not been removed."

Vocabulary (Model.lean).  The table is C01's object store; a history is a list of `Step`s: `prog p` — ANY program of
storage calls under ANY fault (C01's model of append, delete, update, merge_insert, overwrite, compaction, index creation /
removal, schema evolution, config changes, restore, detached commits, failed and crashed writes; a call whose guard — fresh
names, target = latest + 1 or detached, manifest names only files of its base version and files written earlier — fails ends
the program without effect, so the theorems hold for arbitrary programs); `cleanup pol dsv` — `cleanup_old_versions` with an
arbitrary policy through a handle at version `dsv`; `tag` / `untag`; `foreign` — an operation on another branch or clone.
`checkout s v` = schema, ORDERED rows, per-fragment deletions, config, index list of version `v`; `read s v` is C01's view.
`Inv cfg x` is the invariant between operations; it holds for the empty table and is preserved by every step (`inv_run`).

Which earlier theorem gives which part: C01 `monotone` / `visible_prefix` (one operation keeps every listed version and
what it reads as; needs the dense history 1..N, so it stops at the first cleanup) is re-proved here for the weaker invariant
`K` as `stepOp_ext`; C08 `cleanup_safe` / `tagged_survive` / `latest_survives` (cleanup keeps the manifests of its working
set and every object they name) is the model-level `cleanup_keeps`; C09 `write_isolated` / `history_isolated` /
`tag_untouched` justify `Step.foreign` / `Step.tag` leaving this lineage's store alone; C07 `restore_rows` and C13
`rewrite_rows` say what restore / compaction publish — here they are programs like any other.
-/
namespace LanceModel.C06
open LanceModel.C01
open LanceModel.C33 (Name Scheme manifestName isDetached dec cand)

theorem inv_run (cfg : Cfg) (steps : List Step) (x : TT) (h : Inv cfg x) : Inv cfg (run cfg x steps) :=
  (run_hist cfg steps x h).1

/-! ### concrete histories for the non-vacuity examples and the counterexample -/

def exCfg : Cfg := ⟨.V2, .cond⟩

def exM1 : Manifest :=
  { version := 1, fields := [0], nextField := 1, frags := [⟨0, [⟨0, [0]⟩], none, 2⟩], nextFrag := 1, indices := [],
    cfg := none, txn := 1 }
/-- detached append on version 1 -/
def exMd : Manifest :=
  { exM1 with version := 2 ^ 63, frags := exM1.frags ++ [⟨1, [⟨3, [0]⟩], none, 1⟩], nextFrag := 2, txn := 4 }
/-- append on version 1 -/
def exM2 : Manifest :=
  { exM1 with version := 2, frags := exM1.frags ++ [⟨1, [⟨6, [0]⟩], none, 1⟩], nextFrag := 2, txn := 7 }

def exCreate : Prog :=
  ⟨[.put (.file .data 0 0) (.cols [(0, [some 1, some 2])]), .put (.file .txn 1 0) .blob, .pubCreate 0 1 exM1], 3, none⟩
def exDetached : Prog :=
  ⟨[.put (.file .data 3 0) (.cols [(0, [some 3])]), .put (.file .txn 4 0) .blob, .pubCreate 1 (2 ^ 63) exMd], 3, none⟩
def exAppend : Prog :=
  ⟨[.put (.file .data 6 0) (.cols [(0, [some 4])]), .put (.file .txn 7 0) .blob, .pubCreate 1 2 exM2], 3, none⟩
/-- append on version 2 -/
def exM3 : Manifest :=
  { exM2 with version := 3, frags := exM2.frags ++ [⟨2, [⟨9, [0]⟩], none, 1⟩], nextFrag := 3, txn := 10 }
/-- an append that crashes before its commit call: the data file stays, nothing is published -/
def exCrashed : Prog :=
  ⟨[.put (.file .data 9 0) (.cols [(0, [some 5])]), .put (.file .txn 10 0) .blob, .pubCreate 2 3 exM3], 3, some (1, .crash)⟩

def exAll : Policy := { old := fun _ => true, unv := true, errTagged := false }

/-- create, detached append, append: versions 1, 2 and the detached version 2^63 -/
def exTable : TT := run exCfg TT.empty [.prog exCreate, .prog exDetached, .prog exAppend]

theorem exTable_inv : Inv exCfg exTable := inv_run exCfg _ _ (inv_empty exCfg)

/-! ## read_stable -/

/-- **read_stable.**  For every history of steps from any reachable table and every version `v` listed before and still
    listed afterwards: checking out `v` gives exactly what it gave before — schema, ordered rows, deletions, config,
    index list (`checkout`), and C01's view (`read`). -/
theorem read_stable (cfg : Cfg) (steps : List Step) (x : TT) (hI : Inv cfg x) (v : Nat)
    (h0 : v ∈ versions x.st.store) (h1 : v ∈ versions (run cfg x steps).st.store) :
    checkout (run cfg x steps).st.store v = checkout x.st.store v ∧
      read (run cfg x steps).st.store v = read x.st.store v := by
  obtain ⟨k, hist⟩ := run_hist cfg steps x hI
  obtain ⟨a, b⟩ := (mem_versions hI v).1 h0
  obtain ⟨_, b'⟩ := (mem_versions k v).1 h1
  have hs := hist.att v a b b'
  exact ⟨checkout_same hs, read_same hs⟩

/-- the same from the empty table: `pre` is the history up to any point at which `v` is listed, `post` what happens later -/
theorem read_stable_hist (cfg : Cfg) (pre post : List Step) (v : Nat)
    (h0 : v ∈ versions (run cfg TT.empty pre).st.store) (h1 : v ∈ versions (run cfg TT.empty (pre ++ post)).st.store) :
    checkout (run cfg TT.empty (pre ++ post)).st.store v = checkout (run cfg TT.empty pre).st.store v ∧
      read (run cfg TT.empty (pre ++ post)).st.store v = read (run cfg TT.empty pre).st.store v := by
  rw [run_append] at h1 ⊢
  exact read_stable cfg post _ (inv_run cfg pre _ (inv_empty cfg)) v h0 h1

-- version 1 is tagged, a crashed write leaves an orphan file, everything old is cleaned: 1 (tagged) and 2 (latest) stay
example : versions (run exCfg exTable [.tag "t" 1, .prog exCrashed, .cleanup exAll 2]).st.store = [2, 1] := by decide
example : (checkout exTable.st.store 1).map (·.rows) = some [[some 1], [some 2]] := by decide
-- without the tag version 1 goes: the hypothesis "still listed" is what separates the two
example : versions (run exCfg exTable [.cleanup exAll 2]).st.store = [2] := by decide

/-- **checkout_eq_snapshot.**  Version `v` is published by the operation `p` (it was not listed before it, it is
    afterwards); whatever happens later, as long as `v` is listed, checking it out returns exactly the snapshot taken right
    after that commit. -/
theorem checkout_eq_snapshot (cfg : Cfg) (pre post : List Step) (p : Prog) (v : Nat)
    (_hnew : v ∉ versions (run cfg TT.empty pre).st.store)
    (hpub : v ∈ versions (step cfg (run cfg TT.empty pre) (.prog p)).st.store)
    (hlater : v ∈ versions (run cfg TT.empty (pre ++ .prog p :: post)).st.store) :
    checkout (run cfg TT.empty (pre ++ .prog p :: post)).st.store v =
      checkout (step cfg (run cfg TT.empty pre) (.prog p)).st.store v := by
  rw [run_append] at hlater ⊢
  simp only [run] at hlater ⊢
  have hI := (step_hist cfg _ (.prog p) (inv_run cfg pre _ (inv_empty cfg))).1
  exact (read_stable cfg post _ hI v hpub hlater).1

/-- a version an operation adds is numbered above everything that was ever latest -/
theorem new_version_above (cfg : Cfg) (x : TT) (hI : Inv cfg x) (a : Step) (v : Nat)
    (hnew : v ∉ versions x.st.store) (hpub : v ∈ versions (step cfg x a).st.store) : latestN x.st.store < v := by
  obtain ⟨k, hist⟩ := step_hist cfg x a hI
  obtain ⟨a1, b1⟩ := (mem_versions k v).1 hpub
  rcases hist.back v a1 b1 with hp | hl
  · exact absurd ((mem_versions hI v).2 ⟨a1, hp⟩) hnew
  · exact hl

example : 3 ∉ versions exTable.st.store ∧ 3 ∈ versions (step exCfg exTable (.prog { exCrashed with fault := none })).st.store := by
  decide

/-! ## version numbers are never reused -/

theorem latest_monotone (cfg : Cfg) (steps : List Step) (x : TT) (hI : Inv cfg x) :
    latestN x.st.store ≤ latestN (run cfg x steps).st.store := (run_hist cfg steps x hI).2.mono

/-- **never_reappears.**  A version number at or below the latest version that is not listed (it was removed by a cleanup,
    or never used) is not listed after any history: a checkout of `v` can never silently become a different table state. -/
theorem never_reappears (cfg : Cfg) (steps : List Step) (x : TT) (hI : Inv cfg x) (v : Nat)
    (hgone : v ∉ versions x.st.store) (hle : v ≤ latestN x.st.store) : v ∉ versions (run cfg x steps).st.store := by
  obtain ⟨k, hist⟩ := run_hist cfg steps x hI
  intro h1
  obtain ⟨a1, b1⟩ := (mem_versions k v).1 h1
  rcases hist.back v a1 b1 with hp | hl
  · exact hgone ((mem_versions hI v).2 ⟨a1, hp⟩)
  · omega

/-- a version listed before and after a history is listed at every point in between -/
theorem listed_throughout (cfg : Cfg) (a b : List Step) (x : TT) (hI : Inv cfg x) (v : Nat)
    (h0 : v ∈ versions x.st.store) (h1 : v ∈ versions (run cfg x (a ++ b)).st.store) :
    v ∈ versions (run cfg x a).st.store := by
  rw [run_append] at h1
  have hIa := inv_run cfg a x hI
  have hv : v ≤ latestN (run cfg x a).st.store :=
    Nat.le_trans (listed_le_latest hI h0) (latest_monotone cfg a x hI)
  cases hd : decide (v ∈ versions (run cfg x a).st.store) with
  | true => exact of_decide_eq_true hd
  | false => exact absurd h1 (never_reappears cfg b _ hIa v (of_decide_eq_false hd) hv)

example : 1 ∉ versions (run exCfg exTable [.cleanup exAll 2]).st.store ∧
    1 ≤ latestN (run exCfg exTable [.cleanup exAll 2]).st.store := by decide

/-! ## cleanup within its retention policy; tags pin -/

/-- **cleanup_retained.**  One cleanup run, any policy, any handle version: every listed version of its working set
    (at or above the handle's version, or tagged, or not selected by the policy) stays listed and checks out the same. -/
theorem cleanup_retained (cfg : Cfg) (x : TT) (hI : Inv cfg x) (pol : Policy) (dsv : Nat) (v : Nat)
    (h0 : v ∈ versions x.st.store) (hws : inWorkingSet pol dsv (tagged x) v = true) :
    v ∈ versions (step cfg x (.cleanup pol dsv)).st.store ∧
      checkout (step cfg x (.cleanup pol dsv)).st.store v = checkout x.st.store v := by
  obtain ⟨a, b⟩ := (mem_versions hI v).1 h0
  rcases step_store_cleanup cfg x pol dsv with e | ⟨_, _, e⟩
  · rw [e]; exact ⟨h0, rfl⟩
  · rw [e]
    obtain ⟨hs, hp⟩ := cleanup_keeps hI pol dsv (tagged x) v a hws
    exact ⟨(mem_versions (K_cleanup hI pol dsv (tagged x)) v).2 ⟨a, by simpa only [hp] using b⟩, checkout_same hs⟩

/-- **cleanup_only_policy.**  A listed version a cleanup removes is older than the handle's version, selected by the policy
    and not tagged. -/
theorem cleanup_only_policy (cfg : Cfg) (x : TT) (hI : Inv cfg x) (pol : Policy) (dsv : Nat) (v : Nat)
    (h0 : v ∈ versions x.st.store) (hgone : v ∉ versions (step cfg x (.cleanup pol dsv)).st.store) :
    v < dsv ∧ pol.old v = true ∧ v ∉ tagged x := by
  cases hws : inWorkingSet pol dsv (tagged x) v with
  | true => exact absurd (cleanup_retained cfg x hI pol dsv v h0 hws).1 hgone
  | false =>
    simp only [inWorkingSet, Bool.or_eq_false_iff, decide_eq_false_iff_not, Nat.not_le, Bool.not_eq_false',
      List.contains_eq_mem, decide_eq_false_iff_not] at hws
    exact ⟨hws.1.1, hws.1.2, hws.2⟩

/-- **tags_pin.**  A tagged version is never removed by cleanup, whatever the policy, and checks out the same afterwards
    (cleanup.rs `process_manifest_file`: `is_tagged` puts the manifest into the working set; C08 `tagged_survive`, C09
    `cleanup_keeps_retained`). -/
theorem tags_pin (cfg : Cfg) (x : TT) (hI : Inv cfg x) (pol : Policy) (dsv : Nat) (t : String) (v : Nat)
    (ht : (t, v) ∈ x.tags) (h0 : v ∈ versions x.st.store) :
    v ∈ versions (step cfg x (.cleanup pol dsv)).st.store ∧
      checkout (step cfg x (.cleanup pol dsv)).st.store v = checkout x.st.store v := by
  apply cleanup_retained cfg x hI pol dsv v h0
  have : v ∈ tagged x := List.mem_map.2 ⟨(t, v), ht, rfl⟩
  simp [inWorkingSet, this]

def Step.untags (t : String) : Step → Bool
  | .untag t' => t' == t
  | _ => false

theorem tag_kept (cfg : Cfg) (x : TT) (a : Step) (t : String) (v : Nat) (ht : (t, v) ∈ x.tags)
    (hu : a.untags t = false) : (t, v) ∈ (step cfg x a).tags := by
  cases a with
  | prog p => exact ht
  | cleanup pol dsv =>
    simp only [step]
    split <;> exact ht
  | tag t' v' =>
    simp only [step]
    split
    · exact ht
    · exact List.mem_cons_of_mem _ ht
  | untag t' =>
    simp only [step, List.mem_filter]
    refine ⟨ht, ?_⟩
    simp only [Step.untags] at hu
    simp only [bne, Bool.not_eq_true', beq_eq_false_iff_ne, ne_eq]
    intro e; subst e; simp at hu
  | foreign => exact ht

/-- **tags_pin_hist.**  While its tag is not deleted, a tagged version stays listed through every history — writes,
    restores, overwrites, any number of cleanups with any policies — and checks out the same. -/
theorem tags_pin_hist (cfg : Cfg) (steps : List Step) : ∀ (x : TT), Inv cfg x → ∀ (t : String) (v : Nat),
    (t, v) ∈ x.tags → v ∈ versions x.st.store → (∀ a ∈ steps, a.untags t = false) →
    v ∈ versions (run cfg x steps).st.store ∧ checkout (run cfg x steps).st.store v = checkout x.st.store v := by
  induction steps with
  | nil => intro x _ t v _ h0 _; exact ⟨h0, rfl⟩
  | cons a rest ih =>
    intro x hI t v ht h0 hu
    obtain ⟨k1, h1⟩ := step_hist cfg x a hI
    have hstay : v ∈ versions (step cfg x a).st.store := by
      cases a with
      | cleanup pol dsv => exact (tags_pin cfg x hI pol dsv t v ht h0).1
      | prog p =>
        obtain ⟨a1, b1⟩ := (mem_versions hI v).1 h0
        exact (mem_versions k1 v).2 ⟨a1, ((stepOp_ext cfg x.st p hI).2.same v (by omega) b1).2⟩
      | tag t' v' =>
        simp only [step]
        split <;> exact h0
      | untag t' => exact h0
      | foreign => exact h0
    obtain ⟨r1, r2⟩ := ih _ k1 t v (tag_kept cfg x a t v ht (hu a (by simp))) hstay (fun b hb => hu b (by simp [hb]))
    refine ⟨r1, r2.trans ?_⟩
    obtain ⟨a1, b1⟩ := (mem_versions hI v).1 h0
    obtain ⟨_, b2⟩ := (mem_versions k1 v).1 hstay
    exact checkout_same (h1.att v a1 b1 b2)

example : ("t", 1) ∈ (step exCfg exTable (.tag "t" 1)).tags ∧ 1 ∈ versions exTable.st.store := by decide

/-- `Tags::get_version` / `checkout_version("<tag>")`: the version a tag name resolves to -/
def tagVersion (x : TT) (t : String) : Option Nat := (x.tags.find? (fun e => e.1 == t)).map (·.2)

theorem hasTag_of_tagVersion {x : TT} {t : String} {v : Nat} (h : tagVersion x t = some v) : hasTag x t = true := by
  unfold tagVersion at h
  cases hf : x.tags.find? (fun e => e.1 == t) with
  | none => rw [hf] at h; cases h
  | some e =>
    simp only [hasTag, List.any_eq_true]
    exact ⟨e, List.mem_of_find?_eq_some hf, by have := List.find?_some hf; simpa using this⟩

theorem find_filter_ne (l : List (String × Nat)) (t t' : String) (hne : (t' == t) = false) :
    (l.filter (fun e => e.1 != t')).find? (fun e => e.1 == t) = l.find? (fun e => e.1 == t) := by
  induction l with
  | nil => rfl
  | cons a rest ih =>
    by_cases ha : (a.1 == t) = true
    · have hk : (a.1 != t') = true := by
        have e1 : a.1 = t := by simpa using ha
        simp only [bne, Bool.not_eq_true', beq_eq_false_iff_ne, ne_eq]
        intro e2; rw [e1] at e2; subst e2; simp at hne
      simp [hk, ha]
    · have ha' : (a.1 == t) = false := by cases hx : a.1 == t <;> simp_all
      by_cases hk : (a.1 != t') = true
      · simp only [List.filter_cons, hk, if_true, List.find?_cons, ha']; exact ih
      · have hk' : (a.1 != t') = false := by cases hx : a.1 != t' <;> simp_all
        simp only [List.filter_cons, hk', Bool.false_eq_true, if_false, List.find?_cons, ha']; exact ih

/-- **tag_lookup_stable.**  A tag name keeps resolving to the same version until that tag is deleted: `Tags::create`
    refuses an existing name, nothing else writes tag files (refs.rs; C09 `tag_untouched`).  With `tags_pin_hist`: a checkout
    BY TAG returns the same table state through every history. -/
theorem tag_lookup_stable (cfg : Cfg) (steps : List Step) : ∀ (x : TT) (t : String) (v : Nat),
    tagVersion x t = some v → (∀ a ∈ steps, a.untags t = false) → tagVersion (run cfg x steps) t = some v := by
  induction steps with
  | nil => intro x t v h _; exact h
  | cons a rest ih =>
    intro x t v h hu
    refine ih _ t v ?_ (fun b hb => hu b (by simp [hb]))
    have hua := hu a (by simp)
    cases a with
    | prog p => exact h
    | cleanup pol dsv =>
      simp only [step]
      split <;> exact h
    | tag t' v' =>
      simp only [step]
      split
      · exact h
      · rename_i hc
        have hc' : hasTag x t' = false := by
          cases hx : hasTag x t' <;> simp_all
        have hne : (t' == t) = false := by
          cases hx : t' == t with
          | false => rfl
          | true =>
            have : t' = t := by simpa using hx
            subst this
            rw [hasTag_of_tagVersion h] at hc'; cases hc'
        unfold tagVersion at h ⊢
        simp only [List.find?_cons, hne]
        exact h
    | untag t' =>
      simp only [Step.untags] at hua
      unfold tagVersion at h ⊢
      simp only [step]
      rw [find_filter_ne x.tags t t' hua]
      exact h
    | foreign => exact h

example : tagVersion (run exCfg exTable [.tag "t" 1, .tag "t" 2, .cleanup exAll 2, .untag "u"]) "t" = some 1 := by decide

/-! ## the property at full strength, the defective region, the counterexample -/

/-- C06 for EVERY version that can be checked out — attached or detached — "as long as v itself has not been removed"
    read as: its manifest is still there. -/
def C06_full : Prop :=
  ∀ (cfg : Cfg) (steps : List Step) (x : TT), Inv cfg x → ∀ v, v < 2 ^ 64 →
    present x.st.store (finalPath cfg.sch v) = true →
    present (run cfg x steps).st.store (finalPath cfg.sch v) = true →
    checkout (run cfg x steps).st.store v = checkout x.st.store v

/-- the region the code covers: attached versions in every history; detached versions in histories without cleanup
    (cleanup's working set holds attached manifests only, a detached manifest's name protects the manifest itself but not
    the files only it names: C08 `C08_counterexample`) -/
theorem C06_partial (cfg : Cfg) (steps : List Step) (x : TT) (hI : Inv cfg x) (v : Nat) (hv : v < 2 ^ 64)
    (hreg : isDetached v = false ∨ ∀ a ∈ steps, a.isCleanup = false)
    (h0 : present x.st.store (finalPath cfg.sch v) = true)
    (h1 : present (run cfg x steps).st.store (finalPath cfg.sch v) = true) :
    checkout (run cfg x steps).st.store v = checkout x.st.store v := by
  rcases hreg with hd | hc
  · have h63 : v < 2 ^ 63 := by
      by_cases hh : v < 2 ^ 63
      · exact hh
      · have := C33.Names.isDetached_true v (by omega) hv; rw [hd] at this; cases this
    exact checkout_same ((run_hist cfg steps x hI).2.att v h63 h0 h1)
  · exact checkout_same (((run_ext cfg steps x hI hc).same v hv h0).1)

/-- a detached manifest itself is never removed or replaced, by any history -/
theorem detached_manifest_stays (cfg : Cfg) (steps : List Step) (x : TT) (hI : Inv cfg x) (v : Nat)
    (h1 : 2 ^ 63 ≤ v) (h2 : v < 2 ^ 64) (h0 : present x.st.store (finalPath cfg.sch v) = true) :
    manifestAt (run cfg x steps).st.store v = manifestAt x.st.store v ∧
      present (run cfg x steps).st.store (finalPath cfg.sch v) = true :=
  (run_hist cfg steps x hI).2.det v h1 h2 h0

/-- the witness: create, detached append, append, then a cleanup with `delete_unverified` through a handle on version 2:
    the detached manifest stays, the data file only it names goes, the checkout of the detached version breaks -/
theorem C06_counterexample : ¬ C06_full := by
  intro hfull
  have h := hfull exCfg [.cleanup exAll 2] exTable exTable_inv (2 ^ 63) (by decide) (by decide) (by decide)
  revert h
  decide

example : isDetached (2 ^ 63) = true ∧ ([Step.cleanup exAll 2].all Step.isCleanup) = true := by decide
-- without `delete_unverified` the same cleanup spares the file (it is named by no old manifest): the region is exact
example : checkout (run exCfg exTable [.cleanup { exAll with unv := false } 2]).st.store (2 ^ 63) =
    checkout exTable.st.store (2 ^ 63) := by decide

/-! ## deletion files get fresh names -/

/-- `deletion_file_path`: for one fragment and one read version, different ids give different file names — a rebase that
    rewrites a deletion file (`write_deletion_file` with a new random id) never writes over the file an older version names -/
theorem delName_inj (frag rv id id' : Nat) (b : Bool) (h : delName frag rv id b = delName frag rv id' b) : id = id' := by
  unfold delName at h
  have h1 := List.append_cancel_left h
  simp only [List.cons.injEq, true_and] at h1
  have h2 := List.append_cancel_left h1
  simp only [List.cons.injEq, true_and] at h2
  exact dec_inj id id' (List.append_cancel_right h2)

example : delName 3 7 12345 false = "3-7-12345.arrow".toList := by decide

/-- a delete on version 2 whose commit is rebased over a concurrent delete: the deletion file it wrote first (id 9) is
    superseded by a NEW one (id 10) holding the merged vector, and the manifest names the new one -/
def exM3d : Manifest :=
  { exM2 with version := 3, frags := [⟨0, [⟨0, [0]⟩], some 10, 2⟩, ⟨1, [⟨6, [0]⟩], none, 1⟩], txn := 11 }
def exRebased : Prog :=
  ⟨[.put (.file .del 9 0) (.dels [0]), .put (.file .del 10 0) (.dels [0, 1]), .put (.file .txn 11 0) .blob,
    .pubCreate 2 3 exM3d], 4, none⟩
/-- the rebase as it must NOT be written: the merged vector goes into the deletion file version 3 already names -/
def exInPlace : Prog :=
  ⟨[.put (.file .del 10 0) (.dels [0, 1, 2]), .put (.file .txn 14 0) .blob, .pubCreate 3 4 { exM3d with version := 4, txn := 14 }],
    4, none⟩

-- the rebased delete is an ordinary program: it publishes version 3 (one live row left), versions 1 and 2 read as before
example : (stepOp exCfg exTable.st exRebased).2 = .done := by decide
example : (checkout (step exCfg exTable (.prog exRebased)).st.store 3).map (·.rows) = some [[some 4]] := by decide
example : checkout (step exCfg exTable (.prog exRebased)).st.store 2 = checkout exTable.st.store 2 := by decide
-- writing over an existing deletion file is outside the model's precondition (fresh names): rejected, no effect — this is
-- the structural fact about `write_deletion_file` the correspondence run checks on the real rebase (`sdelete`)
example : (stepOp exCfg (step exCfg exTable (.prog exRebased)).st exInPlace).2 = .invalid := by decide

end LanceModel.C06
