import LanceModel.Util
import LanceModel.Table.Basic
import LanceModel.C01.Driver
import LanceModel.C06.Model
/-
C06 driver.  One output line per op line (same grammar as harness/src/bin/c06.rs):

  cfg v2=<0|1> s=<0|1>
  create | append | overwrite | dappend | orphan  f=<n> <rows>
  delete <x> | sdelete <x> <y> | update <x> <y> | upsert <rows> | compact | index | dropindex | addcol | dropcol | config <n> | restore <ver>
  tag <name> <ver> | untag <name> | cleanup <ver> <unv> <errtag> | branch <name> <ver> | bdelete <name> <x> | delbranch <name>

`<ver>` is `<n>` or `~<j>` (latest - j).  Output: `<result> | L=<latest> V=<versions> | <version views> | D=<detached views> | T=<tags>`.
The table operations are C01's programs (`C01.build`), run through `C06.step`.
-/
namespace LanceModel.C06.Driver
open LanceModel.Util LanceModel.C01 LanceModel.C06
open LanceModel.Table (parseRows parseI64 parseUsize showRows)
open LanceModel.C33 (Scheme)

structure DSt where
  oc : Option OCfg
  x : TT
  /-- branches created from this table: name, already written to -/
  branches : List (String × Bool)

def init : DSt := ⟨none, TT.empty, []⟩

def parseCfg (toks : List String) : Option OCfg :=
  match toks with
  | ["cfg", v2, s] =>
    let sch := match v2 with
      | "v2=0" => some Scheme.V1
      | "v2=1" => some Scheme.V2
      | _ => none
    let st := match s with
      | "s=0" => some false
      | "s=1" => some true
      | _ => none
    match sch, st with
    | some sch, some st => some ⟨⟨sch, .cond⟩, st⟩
    | _, _ => none
  | _ => none

/-- `<n>` or `~<j>` -/
def parseVRef (s : String) : Option (Nat → Nat) :=
  if s.startsWith "~" then (C01.Driver.parseNatTok (s.drop 1).toString).map (fun j => fun latest => latest - j)
  else (C01.Driver.parseNatTok s).map (fun n => fun _ => n)

def parseName (s : String) : Option String :=
  if s.isEmpty ∨ s.length > 8 ∨ !(s.toList.all (fun c => c.isLower || c.isDigit)) then none else some s

def parseBit (s : String) : Option Bool :=
  match s with
  | "0" => some false
  | "1" => some true
  | _ => none

inductive XOp where
  | base (op : Op)
  | restore (r : Nat → Nat)
  /-- two concurrent deletes (`c0 >= y`; stale `c0 >= x AND c0 < y`, rebased): same versions as delete y ; delete x -/
  | sdelete (x y : Int)
  | orphan (f : Nat) (rows : List Row)
  | dropindex
  | tag (t : String) (r : Nat → Nat)
  | untag (t : String)
  | cleanup (r : Nat → Nat) (unv errtag : Bool)
  | branch (b : String) (r : Nat → Nat)
  | bdelete (b : String)
  | delbranch (b : String)

def parseXOp (toks : List String) : Option XOp :=
  match toks with
  | ["restore", v] => (parseVRef v).map XOp.restore
  | ["sdelete", x, y] =>
    (parseI64 x).bind (fun x => (parseI64 y).bind (fun y => if x < y then some (XOp.sdelete x y) else none))
  | ["orphan", f, r] => (C01.Driver.parseF f).bind (fun f => (parseRows r).map (XOp.orphan f))
  | ["dropindex"] => some .dropindex
  | ["tag", t, v] => (parseName t).bind (fun t => (parseVRef v).map (XOp.tag t))
  | ["untag", t] => (parseName t).map XOp.untag
  | ["cleanup", v, u, e] =>
    (parseVRef v).bind (fun r => (parseBit u).bind (fun u => (parseBit e).map (fun e => XOp.cleanup r u e)))
  | ["branch", b, v] => (parseName b).bind (fun b => (parseVRef v).map (XOp.branch b))
  | ["bdelete", b, x] => (parseName b).bind (fun b => (parseI64 x).map (fun _ => XOp.bdelete b))
  | ["delbranch", b] => (parseName b).map XOp.delbranch
  | _ => (C01.Driver.parseOp toks).map XOp.base

/-! ### output -/

def insertTag (x : String × Nat) : List (String × Nat) → List (String × Nat)
  | [] => [x]
  | y :: t => if x.1 ≤ y.1 then x :: y :: t else y :: insertTag x t

def showTags (tags : List (String × Nat)) : String :=
  if tags.isEmpty then "-"
  else ",".intercalate ((tags.foldr insertTag []).map (fun e => e.1 ++ ":" ++ toString e.2))

def showObs (x : TT) : String :=
  let s := x.st.store
  let vs := sortNat (versions s)
  let views := vs.map (fun v =>
    match read s v with
    | some vw => toString v ++ ":" ++ C01.Driver.showView vw
    | none => toString v ++ ":UNREADABLE")
  let det := s.filterMap (fun e =>
    match e.1, e.2 with
    | .ver n, .man m =>
      if C01.Driver.startsD n && ".manifest".toList.isSuffixOf n then
        some (if (derefs s m).all (fun x => x.2.isSome) then C01.Driver.showView (view m (derefs s m)) else "UNREADABLE")
      else none
    | _, _ => none)
  let l := match latest s with
    | .ok v _ _ => toString v
    | .notFound => "none"
    | .errInternal => "error"
  "L=" ++ l ++ " V=" ++ showNatList vs ++ " | " ++ C01.Driver.showList views ++ " | D=" ++
    C01.Driver.showList (det.foldr C01.Driver.insertStr []) ++ " | T=" ++ showTags x.tags

/-- run the program of a plan through `C06.step` -/
def runPlan (oc : OCfg) (d : DSt) (plan : Plan) (f : Option (Nat × Fault)) : DSt × String :=
  let r := stepOp oc.cfg d.x.st ⟨plan.calls, plan.ids, f⟩
  let x' := step oc.cfg d.x (.prog ⟨plan.calls, plan.ids, f⟩)
  let res := match r.2 with
    | .done =>
      (match plan.after with
       | some e => "err " ++ C01.Driver.errStr e
       | none => if plan.detached then "ok D" else "ok " ++ toString (latestN x'.st.store))
    | .crashed => "ok"
    | .failed => "err other"
    | .conflict => "err conflict"
    | .invalid => "invalid"
  ({ d with x := x' }, res)

def exec (oc : OCfg) (d : DSt) (op : XOp) : DSt × String :=
  let s := d.x.st.store
  let n := latestN s
  let viaBuild := fun (op : Op) (f : Plan → Option (Nat × Fault)) =>
    match build oc d.x.st op with
    | .error e => (d, "err " ++ C01.Driver.errStr e)
    | .ok plan => runPlan oc d plan (f plan)
  match op with
  | .base op => viaBuild op (fun _ => none)
  | .restore r => viaBuild (.restore (r n)) (fun _ => none)
  | .sdelete x y =>
    match build oc d.x.st (.delete y) with
    | .error e => (d, "err " ++ C01.Driver.errStr e)
    | .ok plan =>
      let d1 := (runPlan oc d plan none).1
      match build oc d1.x.st (.delete x) with
      | .error e => (d1, "err " ++ C01.Driver.errStr e)
      | .ok plan2 => runPlan oc d1 plan2 none
  | .orphan f rows =>
    -- `execute_uncommitted` without the commit: the append stops before it writes its transaction file
    viaBuild (.append f rows) (fun plan => some (plan.calls.length - 2, .crash))
  | .dropindex =>
    match dropIndexCalls oc.cfg d.x.st with
    | .error e => (d, "err " ++ C01.Driver.errStr e)
    | .ok plan => runPlan oc d plan none
  | .tag t r =>
    if n = 0 then (d, "err not_found")
    else if hasTag d.x t then (d, "err conflict_incompatible")
    else if !(versions s).contains (r n) then (d, "err not_found")
    else ({ d with x := step oc.cfg d.x (.tag t (r n)) }, "ok")
  | .untag t =>
    if n = 0 then (d, "err not_found")
    else if !hasTag d.x t then (d, "err not_found")
    else ({ d with x := step oc.cfg d.x (.untag t) }, "ok")
  | .cleanup r unv errtag =>
    let b := r n
    let pol : Policy := { old := fun v => decide (v < b), unv := unv, errTagged := errtag }
    match cleanup pol n (tagged d.x) s with
    | .invalid => (d, "err not_found")
    | .errTagged => (d, "err other")
    | .ok _ removed => ({ d with x := step oc.cfg d.x (.cleanup pol n) }, "ok removed=" ++ toString removed)
  | .branch b r =>
    if n = 0 then (d, "err not_found")
    else if d.branches.any (fun e => e.1 == b) then (d, "err branch_exists")
    else if !(versions s).contains (r n) then (d, "err not_found")
    else ({ d with x := step oc.cfg d.x .foreign, branches := (b, false) :: d.branches }, "ok")
  | .bdelete b =>
    if n = 0 then (d, "err not_found")
    else if !d.branches.any (fun e => e.1 == b) then (d, "err no_branch")
    else ({ d with x := step oc.cfg d.x .foreign }, "done")
  | .delbranch b =>
    if n = 0 then (d, "err not_found")
    else if !d.branches.any (fun e => e.1 == b) then (d, "err no_branch")
    else ({ d with x := step oc.cfg d.x .foreign, branches := d.branches.filter (fun e => e.1 != b) }, "ok")

def step (d : DSt) (line : String) : DSt × String :=
  let toks := splitTokens line
  match toks with
  | "cfg" :: _ =>
    match parseCfg toks with
    | some oc => (⟨some oc, TT.empty, []⟩, "cfg ok")
    | none => (d, "err parse")
  | _ =>
    match parseXOp toks with
    | none => (d, "err parse")
    | some op =>
      match d.oc with
      | none => (d, "err no_cfg")
      | some oc =>
        let r := exec oc d op
        (r.1, r.2 ++ " | " ++ showObs r.1.x)

end LanceModel.C06.Driver
