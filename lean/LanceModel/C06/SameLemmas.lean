import LanceModel.C06.InvLemmas
/-
C06 — what one storage call, one program, one operation leaves of a version that was there before.
-/
namespace LanceModel.C06
open LanceModel.C01
open LanceModel.C33 (Name Scheme manifestName isDetached dec cand)
open LanceModel.C33.Latest (IsAttached Noise WF IsLatest)

/-- reading version `v` cannot tell `s'` from `s`: the same manifest, and every file it names holds the same object (or
    is missing in both) -/
def Same (s s' : Store) (v : Nat) : Prop :=
  manifestAt s' v = manifestAt s v ∧ ∀ m, manifestAt s v = some m → ∀ p ∈ m.refs, get s' p = get s p

theorem Same.refl (s : Store) (v : Nat) : Same s s v := ⟨rfl, fun _ _ _ _ => rfl⟩

theorem Same.trans {a b c : Store} {v : Nat} (h1 : Same a b v) (h2 : Same b c v) : Same a c v :=
  ⟨h2.1.trans h1.1, fun m hm p hp => (h2.2 m (h1.1.trans hm) p hp).trans (h1.2 m hm p hp)⟩

theorem derefs_same {s s' : Store} {v : Nat} (h : Same s s' v) {m : Manifest} (hm : manifestAt s v = some m) :
    derefs s' m = derefs s m := by
  unfold derefs
  exact List.map_congr_left (fun p hp => by rw [h.2 m hm p hp])

theorem checkout_same {s s' : Store} {v : Nat} (h : Same s s' v) : checkout s' v = checkout s v := by
  unfold checkout
  rw [h.1]
  cases hm : manifestAt s v with
  | none => rfl
  | some m => simp only [derefs_same h hm]

theorem read_same {s s' : Store} {v : Nat} (h : Same s s' v) : read s' v = read s v :=
  read_congr s s' v h.1 h.2

/-- two stores that agree on every file and on every `_versions/` entry outside `L` -/
theorem obs_of_agree {cfg : Cfg} {u b u' b' : Nat} {W W' : List Path} {s s' : Store} (h : K cfg u b W s)
    (h' : K cfg u' b' W' s') (L : List Name)
    (hfile : ∀ c id sub, get s' (.file c id sub) = get s (.file c id sub))
    (hver : ∀ n, n ∉ L → get s' (.ver n) = get s (.ver n)) (v : Nat) (hv : v < 2 ^ 64)
    (hn : manifestName cfg.sch v ∉ L) :
    Same s s' v ∧ present s' (finalPath cfg.sch v) = present s (finalPath cfg.sch v) := by
  have hslot : get s' (finalPath cfg.sch v) = get s (finalPath cfg.sch v) := hver _ hn
  refine ⟨⟨?_, ?_⟩, by simp only [present, hslot]⟩
  · rw [manifestAt_eq h v hv, manifestAt_eq h' v hv, hslot]
  · intro m _ p hp
    obtain ⟨c, id, sub, rfl⟩ := refs_file m p hp
    exact hfile c id sub

/-- the observations of C06 along one step of a history in which nothing is removed -/
structure Ext (cfg : Cfg) (s s' : Store) : Prop where
  /-- every resolvable version (attached or detached) stays and reads the same -/
  same : ∀ v, v < 2 ^ 64 → present s (finalPath cfg.sch v) = true →
    Same s s' v ∧ present s' (finalPath cfg.sch v) = true
  /-- a version that is listed afterwards was listed before or is newer than everything that was -/
  back : ∀ w, w < 2 ^ 63 → present s' (finalPath cfg.sch w) = true →
    present s (finalPath cfg.sch w) = true ∨ latestN s < w

theorem Ext.refl (cfg : Cfg) (s : Store) : Ext cfg s s :=
  ⟨fun v _ hp => ⟨Same.refl s v, hp⟩, fun _ _ hp => Or.inl hp⟩

/-- the latest version never goes back -/
theorem latestN_mono {cfg : Cfg} {u b u' b' : Nat} {W W' : List Path} {s s' : Store} (h : K cfg u b W s)
    (h' : K cfg u' b' W' s')
    (keep : latestN s ≠ 0 → present s (finalPath cfg.sch (latestN s)) = true →
      present s' (finalPath cfg.sch (latestN s)) = true) : latestN s ≤ latestN s' := by
  rcases (latestN_spec h).2 with z | ⟨a, b⟩
  · omega
  · by_cases z : latestN s = 0
    · omega
    · exact (latestN_spec h').1 _ a (keep z b)

theorem Ext.mono {cfg : Cfg} {u b u' b' : Nat} {W W' : List Path} {s s' : Store} (h : K cfg u b W s)
    (h' : K cfg u' b' W' s') (e : Ext cfg s s') : latestN s ≤ latestN s' :=
  latestN_mono h h' (fun _ hp => (e.same _ (by
    rcases (latestN_spec h).2 with z | ⟨a, _⟩
    · omega
    · omega) hp).2)

theorem Ext.trans {cfg : Cfg} {u b u' b' : Nat} {W W' : List Path} {a m c : Store} (ha : K cfg u b W a)
    (hm : K cfg u' b' W' m) (h1 : Ext cfg a m) (h2 : Ext cfg m c) : Ext cfg a c := by
  refine ⟨fun v hv hp => ?_, fun w hw hp => ?_⟩
  · obtain ⟨s1, p1⟩ := h1.same v hv hp
    obtain ⟨s2, p2⟩ := h2.same v hv p1
    exact ⟨s1.trans s2, p2⟩
  · rcases h2.back w hw hp with hp' | hl
    · exact h1.back w hw hp'
    · right
      have := h1.mono ha hm
      omega

/-- one guarded storage call that succeeds -/
theorem exec_ext {cfg : Cfg} {uid0 bound : Nat} {W : List Path} {s s' : Store} (h : K cfg uid0 bound W s)
    {c : Call} (hg : C01.guard cfg uid0 bound W s c = true) (he : exec cfg s c = some s') : Ext cfg s s' := by
  have h' := K_exec h hg he
  -- a new file with a fresh name
  have putFile : ∀ (p : Path) (o : Obj), freshFile uid0 bound W p = true → K cfg uid0 bound (W ++ [p]) (put s p o) →
      Ext cfg s (put s p o) := by
    intro p o hf hK
    obtain ⟨c, id, sub, rfl, h1, _, h3⟩ := freshFile_spec hf
    have hver : ∀ n, get (put s (.file c id sub) o) (.ver n) = get s (.ver n) := by
      intro n; rw [get_put]; simp
    refine ⟨fun v hv hp => ?_, fun w _ hp => ?_⟩
    · have hslot : get (put s (.file c id sub) o) (finalPath cfg.sch v) = get s (finalPath cfg.sch v) := hver _
      refine ⟨⟨by rw [manifestAt_eq h v hv, manifestAt_eq hK v hv, hslot], ?_⟩, by simpa only [present, hslot] using hp⟩
      intro m hm q hq
      obtain ⟨n, hn⟩ := manifestAt_ver hm
      obtain ⟨c', id', sub', rfl, hb⟩ := h.rb n m hn q hq
      rw [get_put]
      by_cases e : Path.file c id sub = Path.file c' id' sub'
      · injection e with e1 e2 e3
        subst e1; subst e2; subst e3
        rcases hb with hb | hb
        · omega
        · exact absurd hb h3
      · simp [e]
    · left
      have : present (put s (.file c id sub) o) (finalPath cfg.sch w) = present s (finalPath cfg.sch w) := by
        simp only [present, finalPath, hver]
      rw [← this]; exact hp
  -- a `_versions/` entry appears (and possibly a staging entry disappears)
  have verOnly : ∀ (L : List Name),
      (∀ c id sub, get s' (.file c id sub) = get s (.file c id sub)) →
      (∀ n, n ∉ L → get s' (.ver n) = get s (.ver n)) →
      (∀ v, v < 2 ^ 64 → present s (finalPath cfg.sch v) = true → manifestName cfg.sch v ∉ L) →
      (∀ w, w < 2 ^ 63 → manifestName cfg.sch w ∈ L → latestN s < w) → Ext cfg s s' := by
    intro L hfile hver hold hnew
    refine ⟨fun v hv hp => ?_, fun w hw hp => ?_⟩
    · obtain ⟨a, b⟩ := obs_of_agree h h' L hfile hver v hv (hold v hv hp)
      exact ⟨a, by rw [b]; exact hp⟩
    · by_cases hin : manifestName cfg.sch w ∈ L
      · exact Or.inr (hnew w hw hin)
      · left
        obtain ⟨_, b⟩ := obs_of_agree h h' L hfile hver w (by omega) hin
        rw [← b]; exact hp
  have pubAt : ∀ (v0 : Nat), targetOk s v0 = true → present s (finalPath cfg.sch v0) = false →
      (∀ v, v < 2 ^ 64 → present s (finalPath cfg.sch v) = true → manifestName cfg.sch v ≠ manifestName cfg.sch v0) ∧
      (∀ w, w < 2 ^ 63 → manifestName cfg.sch w = manifestName cfg.sch v0 → latestN s < w) := by
    intro v0 ht habs
    refine ⟨fun v _ hp e => ?_, fun w hw e => ?_⟩
    · unfold finalPath at hp habs
      rw [e, habs] at hp; cases hp
    · have hv0 := target_lt ht
      have : v0 = w := manifestName_inj cfg.sch v0 w hv0 hw e.symm
      subst this
      rcases targetOk_cases ht with ⟨hd, h64⟩ | ⟨_, _, e1⟩
      · have := (C33.Names.isDetached_iff v0 h64).1 hd; omega
      · omega
  cases c with
  | put p o =>
    simp only [exec, Option.some.injEq] at he; subst he
    exact putFile p o hg h'
  | copy src dst =>
    simp only [exec] at he
    cases hs : get s src with
    | none => rw [hs] at he; cases he
    | some o =>
      rw [hs] at he; simp only [Option.some.injEq] at he; subst he
      exact putFile dst o hg h'
  | stage base v0 u m =>
    simp only [exec, Option.some.injEq] at he; subst he
    simp only [C01.guard, Bool.and_eq_true] at hg
    refine verOnly [manifestName cfg.sch v0 ++ '-' :: dec u] ?_ ?_ ?_ ?_
    · intro c id sub; unfold stagePath; rw [get_put]; simp
    · intro n hn
      unfold stagePath; rw [get_put]
      have : ¬ (Path.ver (manifestName cfg.sch v0 ++ '-' :: dec u) = Path.ver n) := by
        intro e; injection e with e; exact hn (by simp [e])
      simp [this]
    · intro v hv _ hin
      simp only [List.mem_singleton] at hin
      exact stage_ne_manifest cfg.sch cfg.sch v0 v u hv hin.symm
    · intro w hw hin
      simp only [List.mem_singleton] at hin
      exact absurd hin.symm (stage_ne_manifest cfg.sch cfg.sch v0 w u (by omega))
  | pubCreate base v0 m =>
    simp only [C01.guard, Bool.and_eq_true, decide_eq_true_eq] at hg
    simp only [exec] at he
    split at he
    · cases he
    · rename_i hab
      simp only [Option.some.injEq] at he; subst he
      have hab' : present s (finalPath cfg.sch v0) = false := by
        cases hx : present s (finalPath cfg.sch v0) <;> simp_all
      obtain ⟨p1, p2⟩ := pubAt v0 hg.1.1 hab'
      refine verOnly [manifestName cfg.sch v0] ?_ ?_ ?_ ?_
      · intro c id sub; unfold finalPath; rw [get_put]; simp
      · intro n hn
        unfold finalPath; rw [get_put]
        have : ¬ (Path.ver (manifestName cfg.sch v0) = Path.ver n) := by
          intro e; injection e with e; exact hn (by simp [e])
        simp [this]
      · intro v hv hp hin
        simp only [List.mem_singleton] at hin
        exact p1 v hv hp hin
      · intro w hw hin
        simp only [List.mem_singleton] at hin
        exact p2 w hw hin
  | pubLocked base v0 m =>
    simp only [C01.guard, Bool.and_eq_true, decide_eq_true_eq] at hg
    simp only [exec] at he
    split at he
    · cases he
    · rename_i hab
      simp only [Option.some.injEq] at he; subst he
      have hab' : present s (finalPath cfg.sch v0) = false := by
        cases hx : present s (finalPath cfg.sch v0) <;> simp_all
      obtain ⟨p1, p2⟩ := pubAt v0 hg.1.1 hab'
      refine verOnly [manifestName cfg.sch v0] ?_ ?_ ?_ ?_
      · intro c id sub; unfold finalPath; rw [get_put]; simp
      · intro n hn
        unfold finalPath; rw [get_put]
        have : ¬ (Path.ver (manifestName cfg.sch v0) = Path.ver n) := by
          intro e; injection e with e; exact hn (by simp [e])
        simp [this]
      · intro v hv hp hin
        simp only [List.mem_singleton] at hin
        exact p1 v hv hp hin
      · intro w hw hin
        simp only [List.mem_singleton] at hin
        exact p2 w hw hin
  | pubRename base v0 u m =>
    simp only [C01.guard, Bool.and_eq_true, decide_eq_true_eq] at hg
    simp only [exec, hg.2] at he
    split at he
    · cases he
    · rename_i hab
      simp only [Option.some.injEq] at he; subst he
      have hab' : present s (finalPath cfg.sch v0) = false := by
        cases hx : present s (finalPath cfg.sch v0) <;> simp_all
      obtain ⟨p1, p2⟩ := pubAt v0 hg.1.1 hab'
      refine verOnly [manifestName cfg.sch v0 ++ '-' :: dec u, manifestName cfg.sch v0] ?_ ?_ ?_ ?_
      · intro c id sub; unfold finalPath stagePath; rw [get_put]
        simp only [reduceCtorEq, if_false]
        rw [get_erase]; simp
      · intro n hn
        simp only [List.mem_cons, List.not_mem_nil, or_false, not_or] at hn
        unfold finalPath stagePath; rw [get_put]
        have e1 : ¬ (Path.ver (manifestName cfg.sch v0) = Path.ver n) := by
          intro e; injection e with e; exact hn.2 e.symm
        have e2 : ¬ (Path.ver (manifestName cfg.sch v0 ++ '-' :: dec u) = Path.ver n) := by
          intro e; injection e with e; exact hn.1 e.symm
        simp only [e1, if_false]
        rw [get_erase]; simp [e2]
      · intro v hv hp hin
        simp only [List.mem_cons, List.not_mem_nil, or_false] at hin
        rcases hin with hin | hin
        · exact stage_ne_manifest cfg.sch cfg.sch v0 v u hv hin.symm
        · exact p1 v hv hp hin
      · intro w hw hin
        simp only [List.mem_cons, List.not_mem_nil, or_false] at hin
        rcases hin with hin | hin
        · exact absurd hin.symm (stage_ne_manifest cfg.sch cfg.sch v0 w u (by omega))
        · exact p2 w hw hin

/-- a whole program under any fault -/
theorem runCalls_ext (cfg : Cfg) (uid0 bound : Nat) (calls : List Call) :
    ∀ (W : List Path) (s : Store) (f : Option (Nat × Fault)), K cfg uid0 bound W s →
      (∃ W', K cfg uid0 bound W' (runCalls cfg uid0 bound W s calls f).1) ∧
        Ext cfg s (runCalls cfg uid0 bound W s calls f).1 := by
  induction calls with
  | nil => intro W s f h; simp only [runCalls]; exact ⟨⟨W, h⟩, Ext.refl cfg s⟩
  | cons c cs ih =>
    intro W s f h
    have stay : (∃ W', K cfg uid0 bound W' s) ∧ Ext cfg s s := ⟨⟨W, h⟩, Ext.refl cfg s⟩
    unfold runCalls
    by_cases hg : C01.guard cfg uid0 bound W s c = true
    · simp only [hg, Bool.true_eq_false, if_false]
      match f with
      | some (0, .crash) => exact stay
      | some (0, .failBefore) => exact stay
      | some (0, .lost) =>
        cases he : exec cfg s c with
        | none => exact stay
        | some s' => exact ⟨⟨_, K_exec h hg he⟩, exec_ext h hg he⟩
      | some (k + 1, fl) =>
        cases he : exec cfg s c with
        | none => exact stay
        | some s' =>
          obtain ⟨a, b⟩ := ih _ s' (some (k, fl)) (K_exec h hg he)
          exact ⟨a, Ext.trans h (K_exec h hg he) (exec_ext h hg he) b⟩
      | none =>
        cases he : exec cfg s c with
        | none => exact stay
        | some s' =>
          obtain ⟨a, b⟩ := ih _ s' none (K_exec h hg he)
          exact ⟨a, Ext.trans h (K_exec h hg he) (exec_ext h hg he) b⟩
    · have : C01.guard cfg uid0 bound W s c = false := by cases hx : C01.guard cfg uid0 bound W s c <;> simp_all
      simp only [this, if_true]
      exact stay

/-- one operation of a history -/
theorem stepOp_ext (cfg : Cfg) (st : St) (p : Prog) (h : K cfg st.uid 0 [] st.store) :
    K cfg (stepOp cfg st p).1.uid 0 [] (stepOp cfg st p).1.store ∧ Ext cfg st.store (stepOp cfg st p).1.store := by
  have h0 : K cfg st.uid p.ids [] st.store := ⟨h.fresh, (fun q hq => by cases hq), h.rb, h.wf⟩
  obtain ⟨⟨W', hK⟩, e⟩ := runCalls_ext cfg st.uid p.ids p.calls [] st.store p.fault h0
  refine ⟨⟨?_, (fun q hq => by cases hq), ?_, hK.wf⟩, e⟩
  · intro c id sub hp
    left
    simp only [stepOp] at hp ⊢
    rcases hK.fresh c id sub hp with hl | hw
    · omega
    · obtain ⟨c', id', sub', e', hb⟩ := hK.wbound _ hw
      cases e'; omega
  · intro n m hg q hq
    simp only [stepOp] at hg ⊢
    obtain ⟨c, id, sub, rfl, hb⟩ := hK.rb n m hg q hq
    refine ⟨c, id, sub, rfl, Or.inl ?_⟩
    rcases hb with hb | hb
    · omega
    · obtain ⟨c', id', sub', e', hb'⟩ := hK.wbound _ hb
      cases e'; omega

end LanceModel.C06
