import LanceModel.C06.SameLemmas
/-
C06 — cleanup keeps what its working set needs; the observations of C06 along arbitrary histories.
-/
namespace LanceModel.C06
open LanceModel.C01
open LanceModel.C33 (Name Scheme manifestName isDetached dec cand)
open LanceModel.C33.Latest (IsAttached Noise WF IsLatest)

theorem get_mem {s : Store} {p : Path} {o : Obj} (h : get s p = some o) : (p, o) ∈ s := by
  induction s with
  | nil => simp [C01.get] at h
  | cons e t ih =>
    obtain ⟨r, o'⟩ := e
    simp only [C01.get] at h
    by_cases hr : r = p
    · simp only [hr, if_true, Option.some.injEq] at h
      subst hr; subst h; simp
    · simp only [hr, if_false] at h
      exact List.mem_cons_of_mem _ (ih h)

theorem attached_mem {s : Store} {n : Name} {m : Manifest} {v : Nat} (hg : get s (.ver n) = some (.man m))
    (hv : verOf n = some v) : (v, m) ∈ attached s := by
  unfold attached
  rw [List.mem_filterMap]
  exact ⟨(.ver n, .man m), get_mem hg, by simp [hv]⟩

theorem verOf_attached (sch : Scheme) (v : Nat) (hv : v < 2 ^ 63) : verOf (manifestName sch v) = some v := by
  simp [verOf, attached_cand sch v hv]

theorem verOf_detached (sch : Scheme) (v : Nat) (h1 : 2 ^ 63 ≤ v) (h2 : v < 2 ^ 64) : verOf (manifestName sch v) = none := by
  have : cand (manifestName sch v) = none := C33.noise_detached sch v h1 h2
  simp [verOf, this]

theorem sameObject_self (q : Path) : sameObject q q = true := by
  cases q with
  | ver n => simp [sameObject]
  | file c id sub => cases c <;> simp [sameObject]

theorem referenced_of_mem {L : List Path} {q : Path} (h : q ∈ L) : referenced L q = true := by
  simp only [referenced, List.any_eq_true]
  exact ⟨q, h, sameObject_self q⟩

theorem cleanupStore_get (p : Policy) (dsv : Nat) (tags : List Nat) (s : Store) (q : Path) :
    get (cleanupStore p dsv tags s) q = if removable p (inWorkingSet p dsv tags) s q = true then none else get s q := by
  unfold cleanupStore
  rw [get_filter_key s (fun q => !removable p (inWorkingSet p dsv tags) s q) q]
  cases removable p (inWorkingSet p dsv tags) s q <;> simp

theorem K_cleanup {cfg : Cfg} {u b : Nat} {W : List Path} {s : Store} (h : K cfg u b W s)
    (p : Policy) (dsv : Nat) (tags : List Nat) : K cfg u b W (cleanupStore p dsv tags s) := by
  have hg := get_filter_key s (fun q => !removable p (inWorkingSet p dsv tags) s q)
  show K cfg u b W (s.filter (fun e => (fun q => !removable p (inWorkingSet p dsv tags) s q) e.1))
  exact K_filter h (fun q => !removable p (inWorkingSet p dsv tags) s q) hg

theorem cleanup_sub {p : Policy} {dsv : Nat} {tags : List Nat} {s : Store} {q : Path}
    (h : present (cleanupStore p dsv tags s) q = true) : present s q = true := by
  obtain ⟨o, ho⟩ := (present_iff _ _).1 h
  rw [cleanupStore_get] at ho
  split at ho
  · cases ho
  · exact (present_iff _ _).2 ⟨o, ho⟩

/-- a listed version of the working set: its manifest and every file it names survive the cleanup unchanged -/
theorem cleanup_keeps {cfg : Cfg} {u b : Nat} {W : List Path} {s : Store} (h : K cfg u b W s)
    (p : Policy) (dsv : Nat) (tags : List Nat) (v : Nat) (hv : v < 2 ^ 63)
    (hws : inWorkingSet p dsv tags v = true) :
    Same s (cleanupStore p dsv tags s) v ∧
      present (cleanupStore p dsv tags s) (finalPath cfg.sch v) = present s (finalPath cfg.sch v) := by
  have h' := K_cleanup h p dsv tags
  have hslot : get (cleanupStore p dsv tags s) (finalPath cfg.sch v) = get s (finalPath cfg.sch v) := by
    rw [cleanupStore_get]
    simp [finalPath, removable, verOf_attached cfg.sch v hv, hws]
  refine ⟨⟨by rw [manifestAt_eq h v (by omega), manifestAt_eq h' v (by omega), hslot], ?_⟩, by simp only [present, hslot]⟩
  intro m hm q hq
  rw [manifestAt_eq h v (by omega)] at hm
  have hg : get s (.ver (manifestName cfg.sch v)) = some (.man m) := by
    unfold finalPath at hm
    cases hx : get s (.ver (manifestName cfg.sch v)) with
    | none => rw [hx] at hm; cases hm
    | some o =>
      rw [hx] at hm
      cases o with
      | man m' => simp only [manOf, Option.some.injEq] at hm; rw [hm]
      | cols _ => cases hm
      | dels _ => cases hm
      | blob => cases hm
  have hin : (v, m) ∈ attached s := attached_mem hg (verOf_attached cfg.sch v hv)
  have hk : q ∈ keptRefs (inWorkingSet p dsv tags) s := by
    unfold keptRefs
    rw [List.mem_flatMap]
    exact ⟨(v, m), hin, by simp [hws, hq]⟩
  obtain ⟨c, id, sub, rfl⟩ := refs_file m q hq
  rw [cleanupStore_get]
  simp [removable, referenced_of_mem hk]

/-- a listed version that survives a cleanup was in its working set -/
theorem cleanup_survivor {cfg : Cfg} {p : Policy} {dsv : Nat} {tags : List Nat} {s : Store} {v : Nat} (hv : v < 2 ^ 63)
    (hp : present (cleanupStore p dsv tags s) (finalPath cfg.sch v) = true) : inWorkingSet p dsv tags v = true := by
  obtain ⟨o, ho⟩ := (present_iff _ _).1 hp
  rw [cleanupStore_get] at ho
  split at ho
  · cases ho
  · rename_i hr
    cases hw : inWorkingSet p dsv tags v with
    | true => rfl
    | false =>
      exfalso; apply hr
      simp [finalPath, removable, verOf_attached cfg.sch v hv, hw]

/-- detached manifests are never removed (their names carry no version) -/
theorem cleanup_detached_slot (cfg : Cfg) (p : Policy) (dsv : Nat) (tags : List Nat) (s : Store) (v : Nat)
    (h1 : 2 ^ 63 ≤ v) (h2 : v < 2 ^ 64) :
    get (cleanupStore p dsv tags s) (finalPath cfg.sch v) = get s (finalPath cfg.sch v) := by
  rw [cleanupStore_get]
  simp [finalPath, removable, verOf_detached cfg.sch v h1 h2]

/-- the latest version survives a cleanup through a handle on an existing version -/
theorem cleanup_latest {cfg : Cfg} {u b : Nat} {W : List Path} {s : Store} (h : K cfg u b W s)
    (p : Policy) (dsv : Nat) (tags : List Nat) (h0 : dsv ≠ 0) (hle : dsv ≤ latestN s) :
    latestN (cleanupStore p dsv tags s) = latestN s := by
  rcases (latestN_spec h).2 with z | ⟨a, b⟩
  · omega
  · have hws : inWorkingSet p dsv tags (latestN s) = true := by simp [inWorkingSet, hle]
    refine latestN_unique (K_cleanup h p dsv tags) a ?_ ?_
    · rw [(cleanup_keeps h p dsv tags _ a hws).2]; exact b
    · intro w hw hp
      exact (latestN_spec h).1 w hw (cleanup_sub hp)

/-! ### the observations of C06 along arbitrary histories (cleanup included) -/

structure Hist (cfg : Cfg) (s s' : Store) : Prop where
  /-- a listed version that is still listed reads the same -/
  att : ∀ v, v < 2 ^ 63 → present s (finalPath cfg.sch v) = true → present s' (finalPath cfg.sch v) = true → Same s s' v
  /-- a detached manifest is never removed or replaced -/
  det : ∀ v, 2 ^ 63 ≤ v → v < 2 ^ 64 → present s (finalPath cfg.sch v) = true →
    manifestAt s' v = manifestAt s v ∧ present s' (finalPath cfg.sch v) = true
  back : ∀ w, w < 2 ^ 63 → present s' (finalPath cfg.sch w) = true →
    present s (finalPath cfg.sch w) = true ∨ latestN s < w
  mono : latestN s ≤ latestN s'

theorem Hist.refl (cfg : Cfg) (s : Store) : Hist cfg s s :=
  ⟨fun v _ _ _ => Same.refl s v, fun _ _ _ hp => ⟨rfl, hp⟩, fun _ _ hp => Or.inl hp, Nat.le_refl _⟩

theorem Hist.of_ext {cfg : Cfg} {u b u' b' : Nat} {W W' : List Path} {s s' : Store} (h : K cfg u b W s)
    (h' : K cfg u' b' W' s') (e : Ext cfg s s') : Hist cfg s s' :=
  ⟨fun v hv hp _ => (e.same v (by omega) hp).1, fun v _ h2 hp => ⟨(e.same v h2 hp).1.1, (e.same v h2 hp).2⟩,
    e.back, e.mono h h'⟩

theorem Hist.trans {cfg : Cfg} {u b u' b' : Nat} {W W' : List Path} {a m c : Store} (ha : K cfg u b W a)
    (_hm : K cfg u' b' W' m) (h1 : Hist cfg a m) (h2 : Hist cfg m c) : Hist cfg a c := by
  refine ⟨fun v hv hpa hpc => ?_, fun v l1 l2 hp => ?_, fun w hw hp => ?_, Nat.le_trans h1.mono h2.mono⟩
  · have hpm : present m (finalPath cfg.sch v) = true := by
      rcases h2.back v hv hpc with hpm | hl
      · exact hpm
      · have := (latestN_spec ha).1 v hv hpa
        have := h1.mono
        omega
    exact (h1.att v hv hpa hpm).trans (h2.att v hv hpm hpc)
  · obtain ⟨e1, p1⟩ := h1.det v l1 l2 hp
    obtain ⟨e2, p2⟩ := h2.det v l1 l2 p1
    exact ⟨e2.trans e1, p2⟩
  · rcases h2.back w hw hp with hp' | hl
    · exact h1.back w hw hp'
    · right
      have := h1.mono
      omega

/-- one cleanup run through a handle on an existing version -/
theorem cleanup_hist {cfg : Cfg} {u b : Nat} {W : List Path} {s : Store} (h : K cfg u b W s)
    (p : Policy) (dsv : Nat) (tags : List Nat) (h0 : dsv ≠ 0) (hle : dsv ≤ latestN s) :
    Hist cfg s (cleanupStore p dsv tags s) := by
  have h' := K_cleanup h p dsv tags
  refine ⟨fun v hv _ hp' => (cleanup_keeps h p dsv tags v hv (cleanup_survivor hv hp')).1, fun v l1 l2 hp => ?_,
    fun w _ hp => Or.inl (cleanup_sub hp), Nat.le_of_eq (cleanup_latest h p dsv tags h0 hle).symm⟩
  have hslot := cleanup_detached_slot cfg p dsv tags s v l1 l2
  exact ⟨by rw [manifestAt_eq h v l2, manifestAt_eq h' v l2, hslot], by simpa only [present, hslot] using hp⟩

/-! ### steps and histories -/

theorem step_store_cleanup (cfg : Cfg) (x : TT) (pol : Policy) (dsv : Nat) :
    (step cfg x (.cleanup pol dsv)).st = x.st ∨
      (dsv ≠ 0 ∧ dsv ≤ latestN x.st.store ∧
        (step cfg x (.cleanup pol dsv)).st = ⟨cleanupStore pol dsv (tagged x) x.st.store, x.st.uid⟩) := by
  by_cases hc : dsv = 0 ∨ latestN x.st.store < dsv
  · left; simp [step, cleanup, hc]
  · by_cases ht : (pol.errTagged && !(taggedOld pol dsv (tagged x) x.st.store).isEmpty) = true
    · left; simp [step, cleanup, hc, ht]
    · right
      refine ⟨fun e => hc (Or.inl e), by omega, ?_⟩
      simp [step, cleanup, hc, ht]

theorem step_hist (cfg : Cfg) (x : TT) (a : Step) (h : Inv cfg x) :
    Inv cfg (step cfg x a) ∧ Hist cfg x.st.store (step cfg x a).st.store := by
  cases a with
  | prog p =>
    obtain ⟨k, e⟩ := stepOp_ext cfg x.st p h
    exact ⟨k, Hist.of_ext h k e⟩
  | cleanup pol dsv =>
    rcases step_store_cleanup cfg x pol dsv with e | ⟨h0, hle, e⟩
    · unfold Inv; rw [e]; exact ⟨h, Hist.refl cfg _⟩
    · unfold Inv; rw [e]
      exact ⟨K_cleanup h pol dsv (tagged x), cleanup_hist h pol dsv (tagged x) h0 hle⟩
  | tag t v =>
    simp only [step]
    split
    · exact ⟨h, Hist.refl cfg _⟩
    · exact ⟨h, Hist.refl cfg _⟩
  | untag t => exact ⟨h, Hist.refl cfg _⟩
  | foreign => exact ⟨h, Hist.refl cfg _⟩

theorem run_hist (cfg : Cfg) (steps : List Step) : ∀ (x : TT), Inv cfg x →
    Inv cfg (run cfg x steps) ∧ Hist cfg x.st.store (run cfg x steps).st.store := by
  induction steps with
  | nil => intro x h; exact ⟨h, Hist.refl cfg _⟩
  | cons a rest ih =>
    intro x h
    obtain ⟨k1, h1⟩ := step_hist cfg x a h
    obtain ⟨k2, h2⟩ := ih _ k1
    exact ⟨k2, Hist.trans h k1 h1 h2⟩

/-- a step that is not a cleanup removes nothing -/
theorem step_ext (cfg : Cfg) (x : TT) (a : Step) (h : Inv cfg x) (hc : a.isCleanup = false) :
    Ext cfg x.st.store (step cfg x a).st.store := by
  cases a with
  | prog p => exact (stepOp_ext cfg x.st p h).2
  | cleanup pol dsv => cases hc
  | tag t v =>
    simp only [step]
    split <;> exact Ext.refl cfg _
  | untag t => exact Ext.refl cfg _
  | foreign => exact Ext.refl cfg _

theorem run_ext (cfg : Cfg) (steps : List Step) : ∀ (x : TT), Inv cfg x → (∀ a ∈ steps, a.isCleanup = false) →
    Ext cfg x.st.store (run cfg x steps).st.store := by
  induction steps with
  | nil => intro x _ _; exact Ext.refl cfg _
  | cons a rest ih =>
    intro x h hc
    have k1 := (step_hist cfg x a h).1
    exact Ext.trans h k1 (step_ext cfg x a h (hc a (by simp))) (ih _ k1 (fun b hb => hc b (by simp [hb])))

theorem run_append (cfg : Cfg) (a b : List Step) : ∀ x, run cfg x (a ++ b) = run cfg (run cfg x a) b := by
  induction a with
  | nil => intro x; rfl
  | cons s t ih => intro x; simp only [List.cons_append, run]; exact ih _

end LanceModel.C06
