import LanceModel.C06.Model
import LanceModel.C01.Props
/-
C06 — the invariant `K` of a table that is written AND cleaned.

C01's invariant `J` contains "the attached versions are exactly 1..N" and "every manifest under `_versions/` names only
files that exist"; both die with the first cleanup (old versions go; files of detached and staged manifests go).  What
time travel needs is weaker and survives: names are fresh (`fresh`, `wbound`), every manifest names only files whose
identifiers were handed out already (`rb`), and `_versions/` holds attached manifests of the table's scheme plus names
without a version (`wf`).
-/
namespace LanceModel.C06
open LanceModel.C01
open LanceModel.C33 (Name Scheme manifestName isDetached dec cand)
open LanceModel.C33.Latest (IsAttached Noise WF IsLatest)

structure K (cfg : Cfg) (uid0 bound : Nat) (W : List Path) (s : Store) : Prop where
  /-- every file of the store was written by an earlier operation or by this one -/
  fresh : ∀ c id sub, present s (.file c id sub) = true → id < uid0 ∨ Path.file c id sub ∈ W
  wbound : ∀ p ∈ W, ∃ c id sub, p = Path.file c id sub ∧ id < uid0 + bound
  /-- every manifest object under `_versions/` (published, detached or staged) names only files whose identifier has been
      handed out: no later write can create a file it names -/
  rb : ∀ n m, get s (.ver n) = some (.man m) → ∀ p ∈ m.refs, ∃ c id sub, p = Path.file c id sub ∧ (id < uid0 ∨ p ∈ W)
  wf : ∀ n, present s (.ver n) = true → IsAttached cfg.sch n ∨ Noise n

/-- the invariant between operations -/
def Inv (cfg : Cfg) (x : TT) : Prop := K cfg x.st.uid 0 [] x.st.store

theorem wf_names {cfg : Cfg} {uid0 bound : Nat} {W : List Path} {s : Store} (h : K cfg uid0 bound W s) :
    WF cfg.sch (names s) := fun n hn => h.wf n ((mem_names s n).1 hn)

theorem other_scheme_absent {cfg : Cfg} {uid0 bound : Nat} {W : List Path} {s : Store} (h : K cfg uid0 bound W s)
    (sch : Scheme) (hne : sch ≠ cfg.sch) (v : Nat) (hv : v < 2 ^ 63) : present s (.ver (manifestName sch v)) = false := by
  cases hp : present s (.ver (manifestName sch v)) with
  | false => rfl
  | true =>
    rcases h.wf _ hp with ⟨w, hw, e⟩ | hn
    · exact absurd (attached_scheme sch cfg.sch v w hv hw e) hne
    · rw [Noise, attached_cand sch v hv] at hn; cases hn

/-- `default_resolve_version` + load on a well-formed table: the manifest stored at the slot of the table's scheme -/
theorem manifestAt_eq {cfg : Cfg} {uid0 bound : Nat} {W : List Path} {s : Store} (h : K cfg uid0 bound W s)
    (v : Nat) (hv : v < 2 ^ 64) : manifestAt s v = manOf (get s (finalPath cfg.sch v)) := by
  have key : get s (resolveVersion s v) = get s (finalPath cfg.sch v) := by
    unfold resolveVersion finalPath
    by_cases hd : isDetached v = true
    · have h63 := (C33.Names.isDetached_iff v hv).1 hd
      simp only [hd, if_true]
      rw [C33.Names.name_detached .V2 v h63 hv, C33.Names.name_detached cfg.sch v h63 hv]
    · have hd' : isDetached v = false := by cases hx : isDetached v <;> simp_all
      have h63 : v < 2 ^ 63 := by
        by_cases hh : v < 2 ^ 63
        · exact hh
        · have := C33.Names.isDetached_true v (by omega) hv; rw [hd'] at this; cases this
      simp only [hd', Bool.false_eq_true, if_false]
      cases hs : cfg.sch with
      | V2 =>
        by_cases hp : present s (.ver (manifestName .V2 v)) = true
        · simp [hp]
        · have hp' : present s (.ver (manifestName .V2 v)) = false := by
            cases hx : present s (.ver (manifestName .V2 v)) <;> simp_all
          simp only [hp', Bool.false_eq_true, if_false]
          have h1 : present s (.ver (manifestName .V1 v)) = false :=
            other_scheme_absent h .V1 (by rw [hs]; intro e; cases e) v h63
          have g1 : get s (.ver (manifestName .V1 v)) = none := by
            simp only [present] at h1; cases hg : get s (.ver (manifestName .V1 v)) <;> simp_all
          have g2 : get s (.ver (manifestName .V2 v)) = none := by
            simp only [present] at hp'; cases hg : get s (.ver (manifestName .V2 v)) <;> simp_all
          rw [g1, g2]
      | V1 =>
        have h2 : present s (.ver (manifestName .V2 v)) = false :=
          other_scheme_absent h .V2 (by rw [hs]; intro e; cases e) v h63
        simp [h2]
  unfold manifestAt
  rw [key]
  cases get s (finalPath cfg.sch v) with
  | none => rfl
  | some o => cases o <;> rfl

/-- the published versions are the occupied slots -/
theorem mem_versions {cfg : Cfg} {uid0 bound : Nat} {W : List Path} {s : Store} (h : K cfg uid0 bound W s) (v : Nat) :
    v ∈ versions s ↔ v < 2 ^ 63 ∧ present s (finalPath cfg.sch v) = true := by
  simp only [versions, C33.versions, List.mem_map]
  constructor
  · rintro ⟨c, hc, rfl⟩
    obtain ⟨w, hw, rfl, hin⟩ := C33.Latest.valid_wf (wf_names h) hc
    exact ⟨hw, (mem_names s _).1 hin⟩
  · rintro ⟨hv, hp⟩
    exact ⟨_, C33.Latest.attached_mem_valid hv ((mem_names s _).2 hp), rfl⟩

/-- whatever `manifestAt` answers is an object under `_versions/` -/
theorem manifestAt_ver {s : Store} {v : Nat} {m : Manifest} (h : manifestAt s v = some m) :
    ∃ n, get s (.ver n) = some (.man m) := by
  unfold manifestAt at h
  have : ∃ n, resolveVersion s v = .ver n := by
    unfold resolveVersion
    split
    · exact ⟨_, rfl⟩
    · split <;> exact ⟨_, rfl⟩
  obtain ⟨n, hn⟩ := this
  rw [hn] at h
  refine ⟨n, ?_⟩
  cases hg : get s (.ver n) with
  | none => rw [hg] at h; cases h
  | some o =>
    rw [hg] at h
    cases o with
    | man m' => simp only [Option.some.injEq] at h; rw [h]
    | cols _ => cases h
    | dels _ => cases h
    | blob => cases h

/-! ### what `latest` answers -/

/-- every occupied slot is at most `latestN`; `latestN` is 0 or an occupied slot -/
theorem latestN_spec {cfg : Cfg} {uid0 bound : Nat} {W : List Path} {s : Store} (h : K cfg uid0 bound W s) :
    (∀ w, w < 2 ^ 63 → present s (finalPath cfg.sch w) = true → w ≤ latestN s) ∧
      (latestN s = 0 ∨ (latestN s < 2 ^ 63 ∧ present s (finalPath cfg.sch (latestN s)) = true)) := by
  have hl : IsLatest cfg.sch (names s) (latest s) :=
    C33.latest_is_max cfg.sch (names s) false (wf_names h) (by intro hh; cases hh)
  rcases hl with ⟨v, hv, hin, hmax, hr⟩ | ⟨hnone, hr⟩
  · have hN : latestN s = v := by simp [latestN, hr]
    rw [hN]
    refine ⟨fun w hw hp => hmax w hw ((mem_names s _).2 hp), Or.inr ⟨hv, (mem_names s _).1 hin⟩⟩
  · have hN : latestN s = 0 := by simp [latestN, hr]
    rw [hN]
    refine ⟨fun w hw hp => absurd ((mem_names s _).2 hp) (hnone w hw), Or.inl rfl⟩

theorem latestN_unique {cfg : Cfg} {uid0 bound : Nat} {W : List Path} {s : Store} (h : K cfg uid0 bound W s)
    {N : Nat} (hN : N < 2 ^ 63) (hp : present s (finalPath cfg.sch N) = true)
    (hmax : ∀ w, w < 2 ^ 63 → present s (finalPath cfg.sch w) = true → w ≤ N) : latestN s = N := by
  obtain ⟨a, b⟩ := latestN_spec h
  have h1 := a N hN hp
  rcases b with b | ⟨b1, b2⟩
  · omega
  · have := hmax _ b1 b2; omega

theorem listed_le_latest {cfg : Cfg} {uid0 bound : Nat} {W : List Path} {s : Store} (h : K cfg uid0 bound W s)
    {v : Nat} (hv : v ∈ versions s) : v ≤ latestN s := by
  obtain ⟨a, b⟩ := (mem_versions h v).1 hv
  exact (latestN_spec h).1 v a b

/-! ### preservation of `K` by the storage calls -/

theorem K_put_file {cfg : Cfg} {uid0 bound : Nat} {W : List Path} {s : Store} (h : K cfg uid0 bound W s)
    {p : Path} (o : Obj) (hf : freshFile uid0 bound W p = true) : K cfg uid0 bound (W ++ [p]) (put s p o) := by
  obtain ⟨c, id, sub, rfl, h1, h2, h3⟩ := freshFile_spec hf
  have hver : ∀ n, get (put s (.file c id sub) o) (.ver n) = get s (.ver n) := by
    intro n; rw [get_put]; simp
  have hpver : ∀ n, present (put s (.file c id sub) o) (.ver n) = present s (.ver n) := by
    intro n; simp [present, hver]
  refine ⟨?_, ?_, ?_, ?_⟩
  · intro c' id' sub' hp
    rw [present_put] at hp
    simp only [Bool.or_eq_true, decide_eq_true_eq] at hp
    rcases hp with e | hp
    · right; rw [← e]; simp
    · rcases h.fresh c' id' sub' hp with hl | hw
      · exact Or.inl hl
      · right; simp [hw]
  · intro q hq
    simp only [List.mem_append, List.mem_singleton] at hq
    rcases hq with hq | rfl
    · exact h.wbound q hq
    · exact ⟨c, id, sub, rfl, h2⟩
  · intro n m hg q hq
    rw [hver] at hg
    obtain ⟨c', id', sub', e, hb⟩ := h.rb n m hg q hq
    refine ⟨c', id', sub', e, ?_⟩
    rcases hb with hb | hb
    · exact Or.inl hb
    · exact Or.inr (by simp [hb])
  · intro n hp; rw [hpver] at hp; exact h.wf n hp

/-- the manifest a guarded commit / staging call writes names only files whose identifiers were handed out -/
theorem refsOk_bounded {cfg : Cfg} {uid0 bound : Nat} {W : List Path} {s : Store} (h : K cfg uid0 bound W s)
    {base : Nat} {m : Manifest} (hr : refsOk s W base m = true) :
    ∀ p ∈ m.refs, ∃ c id sub, p = Path.file c id sub ∧ (id < uid0 ∨ p ∈ W) := by
  simp only [refsOk, Bool.and_eq_true, decide_eq_true_eq, List.all_eq_true, Bool.or_eq_true, List.contains_eq_mem] at hr
  intro p hp
  obtain ⟨c, id, sub, rfl⟩ := refs_file m p hp
  refine ⟨c, id, sub, rfl, ?_⟩
  rcases hr.2 _ hp with hw | hb
  · exact Or.inr (by simpa using hw)
  · cases hm : manifestAt s base with
    | none => rw [hm] at hb; cases hb
    | some mb =>
      rw [hm] at hb
      have hin : Path.file c id sub ∈ mb.refs := by simpa using hb
      obtain ⟨n, hn⟩ := manifestAt_ver hm
      obtain ⟨c', id', sub', e, hb'⟩ := h.rb n mb hn _ hin
      cases e
      exact hb'

/-- writing a manifest object under a `_versions/` name that is attached for the table's scheme or carries no version -/
theorem K_put_ver {cfg : Cfg} {uid0 bound : Nat} {W : List Path} {s : Store} (h : K cfg uid0 bound W s)
    (n : Name) (m : Manifest) (hname : IsAttached cfg.sch n ∨ Noise n)
    (hrefs : ∀ p ∈ m.refs, ∃ c id sub, p = Path.file c id sub ∧ (id < uid0 ∨ p ∈ W)) :
    K cfg uid0 bound W (put s (.ver n) (.man m)) := by
  have hfile : ∀ c id sub, present (put s (.ver n) (.man m)) (.file c id sub) = present s (.file c id sub) := by
    intro c id sub; rw [present_put]; simp
  refine ⟨?_, h.wbound, ?_, ?_⟩
  · intro c id sub hp; rw [hfile] at hp; exact h.fresh c id sub hp
  · intro n' m' hg q hq
    rw [get_put] at hg
    by_cases e : Path.ver n = Path.ver n'
    · simp only [e, if_true, Option.some.injEq, Obj.man.injEq] at hg; subst hg
      exact hrefs q hq
    · simp only [e, if_false] at hg
      exact h.rb n' m' hg q hq
  · intro n' hp
    rw [present_put] at hp
    simp only [Bool.or_eq_true, decide_eq_true_eq] at hp
    rcases hp with e | hp
    · cases e; exact hname
    · exact h.wf n' hp

/-- removing objects never breaks `K` -/
theorem K_filter {cfg : Cfg} {uid0 bound : Nat} {W : List Path} {s : Store} (h : K cfg uid0 bound W s)
    (keep : Path → Bool) (hg : ∀ q, get (s.filter (fun e => keep e.1)) q = if keep q then get s q else none) :
    K cfg uid0 bound W (s.filter (fun e => keep e.1)) := by
  have hsub : ∀ q o, get (s.filter (fun e => keep e.1)) q = some o → get s q = some o := by
    intro q o hq
    rw [hg] at hq
    split at hq
    · exact hq
    · cases hq
  have hpres : ∀ q, present (s.filter (fun e => keep e.1)) q = true → present s q = true := by
    intro q hq
    obtain ⟨o, ho⟩ := (present_iff _ _).1 hq
    exact (present_iff _ _).2 ⟨o, hsub q o ho⟩
  exact ⟨fun c id sub hp => h.fresh c id sub (hpres _ hp), h.wbound,
    fun n m hgm q hq => h.rb n m (hsub _ _ hgm) q hq, fun n hp => h.wf n (hpres _ hp)⟩

theorem get_filter_key (s : Store) (keep : Path → Bool) (q : Path) :
    get (s.filter (fun e => keep e.1)) q = if keep q then get s q else none := by
  induction s with
  | nil => simp [C01.get]
  | cons e t ih =>
    obtain ⟨r, o⟩ := e
    by_cases hk : keep r = true
    · have : ((r, o) :: t).filter (fun e => keep e.1) = (r, o) :: t.filter (fun e => keep e.1) := by simp [hk]
      rw [this]
      simp only [C01.get]
      by_cases hr : r = q
      · subst hr; simp [hk]
      · simp only [hr, if_false]; exact ih
    · have hk' : keep r = false := by cases hx : keep r <;> simp_all
      have : ((r, o) :: t).filter (fun e => keep e.1) = t.filter (fun e => keep e.1) := by simp [hk']
      rw [this, ih]
      simp only [C01.get]
      by_cases hr : r = q
      · subst hr; simp [hk']
      · simp [hr]

theorem erase_eq_filter (s : Store) (p : Path) : erase s p = s.filter (fun e => (fun q => decide (q ≠ p)) e.1) := rfl

theorem K_erase {cfg : Cfg} {uid0 bound : Nat} {W : List Path} {s : Store} (h : K cfg uid0 bound W s) (p : Path) :
    K cfg uid0 bound W (erase s p) := by
  have hg := get_filter_key s (fun q => decide (q ≠ p))
  show K cfg uid0 bound W (s.filter (fun e => (fun q => decide (q ≠ p)) e.1))
  exact K_filter h (fun q => decide (q ≠ p)) hg

theorem targetOk_cases {s : Store} {v : Nat} (ht : targetOk s v = true) :
    (isDetached v = true ∧ v < 2 ^ 64) ∨ (isDetached v = false ∧ v < 2 ^ 63 ∧ v = latestN s + 1) := by
  unfold targetOk at ht
  by_cases hd : isDetached v = true
  · simp only [hd, if_true, decide_eq_true_eq] at ht
    exact Or.inl ⟨hd, ht⟩
  · have hd' : isDetached v = false := by cases hx : isDetached v <;> simp_all
    simp only [hd', Bool.false_eq_true, if_false, Bool.and_eq_true, decide_eq_true_eq] at ht
    exact Or.inr ⟨hd', ht.2, ht.1⟩

theorem target_name (sch : Scheme) {s : Store} {v : Nat} (ht : targetOk s v = true) :
    IsAttached sch (manifestName sch v) ∨ Noise (manifestName sch v) := by
  rcases targetOk_cases ht with ⟨hd, h64⟩ | ⟨_, h63, _⟩
  · exact Or.inr (detached_noise sch v hd h64)
  · exact Or.inl ⟨v, h63, rfl⟩

theorem target_lt {s : Store} {v : Nat} (ht : targetOk s v = true) : v < 2 ^ 64 := by
  rcases targetOk_cases ht with ⟨_, h64⟩ | ⟨_, h63, _⟩
  · exact h64
  · omega

/-- every guarded call that succeeds preserves the invariant -/
theorem K_exec {cfg : Cfg} {uid0 bound : Nat} {W : List Path} {s s' : Store} (h : K cfg uid0 bound W s)
    {c : Call} (hg : guard cfg uid0 bound W s c = true) (he : exec cfg s c = some s') :
    K cfg uid0 bound (W ++ c.target) s' := by
  cases c with
  | put p o =>
    simp only [exec, Option.some.injEq] at he; subst he
    exact K_put_file h o hg
  | copy src dst =>
    simp only [exec] at he
    cases hs : get s src with
    | none => rw [hs] at he; cases he
    | some o =>
      rw [hs] at he; simp only [Option.some.injEq] at he; subst he
      exact K_put_file h o hg
  | stage base v u m =>
    simp only [exec, Option.some.injEq] at he; subst he
    simp only [C01.guard, Bool.and_eq_true] at hg
    simp only [Call.target, List.append_nil]
    exact K_put_ver h _ m (Or.inr (stage_noise cfg.sch v u (target_lt hg.1))) (refsOk_bounded h hg.2)
  | pubCreate base v m =>
    simp only [C01.guard, Bool.and_eq_true, decide_eq_true_eq] at hg
    simp only [exec] at he
    split at he
    · cases he
    · simp only [Option.some.injEq] at he; subst he
      simp only [Call.target, List.append_nil]
      exact K_put_ver h _ m (target_name cfg.sch hg.1.1) (refsOk_bounded h hg.2)
  | pubLocked base v m =>
    simp only [C01.guard, Bool.and_eq_true, decide_eq_true_eq] at hg
    simp only [exec] at he
    split at he
    · cases he
    · simp only [Option.some.injEq] at he; subst he
      simp only [Call.target, List.append_nil]
      exact K_put_ver h _ m (target_name cfg.sch hg.1.1) (refsOk_bounded h hg.2)
  | pubRename base v u m =>
    simp only [C01.guard, Bool.and_eq_true, decide_eq_true_eq] at hg
    simp only [exec, hg.2] at he
    split at he
    · cases he
    · simp only [Option.some.injEq] at he; subst he
      simp only [Call.target, List.append_nil]
      have hb := h.rb _ m hg.2
      exact K_put_ver (K_erase h _) _ m (target_name cfg.sch hg.1.1) hb

theorem inv_empty (cfg : Cfg) : Inv cfg TT.empty := by
  refine ⟨?_, ?_, ?_, ?_⟩ <;> simp [TT.empty, St.empty, present, C01.get]

end LanceModel.C06
