import LanceModel.C01.Ops
/-
C06 model: time travel is immutable.

The table is C01's object store (`path → object`, `LanceModel.C01.Model`): manifests under `_versions/`, data / deletion /
index / transaction files named by fresh identifiers.  A HISTORY is a list of steps:

  prog p        any write operation = C01 program of storage calls under any fault (append, delete, update, merge_insert,
                overwrite, compaction, index creation / removal, schema evolution, config changes, restore, detached
                commits, failed and crashed writes): `C01.stepOp`
  cleanup pol   `cleanup_old_versions` (rust/lance/src/dataset/cleanup.rs `CleanupTask::run`) through a handle at version `dsv`
  tag / untag   `Tags::create` / `Tags::delete` (rust/lance/src/dataset/refs.rs) — tag files live outside the table's
                `_versions/`, `data/`, … directories
  foreign       an operation on another branch / shallow clone (`create_branch`, writes on the branch, `delete_branch`):
                its objects live under `tree/<branch>/`, not in this lineage's store (C09 `write_isolated`)

`checkout s v` is what `Dataset::checkout_version(v)` shows: schema, ordered rows, per-fragment deletions, config, index
list — `none` when the manifest of `v` or a file it names is missing.

Import-free apart from the (import-free) C01 / C33 models, so the driver links natively.
-/
namespace LanceModel.C06
open LanceModel.C01
open LanceModel.C33 (Name Scheme manifestName isDetached dec cand)

/-! ### what a checkout shows -/

structure Snap where
  /-- schema: live field ids in column order -/
  fields : List Nat
  /-- the ordered scan -/
  rows : List Row
  /-- per fragment: its id and the deleted row offsets -/
  dels : List (Nat × List Nat)
  cfg : Option Nat
  indices : List Index
  deriving DecidableEq, Repr

def snapOf (m : Manifest) (objs : List (Path × Option Obj)) : Snap :=
  { fields := m.fields
    rows := m.frags.flatMap (fragRows objs m.fields)
    dels := m.frags.map (fun f => (f.id, fragDeleted objs f))
    cfg := m.cfg
    indices := m.indices }

/-- `Dataset::checkout_version(v)` (dataset.rs `checkout_by_ref` → `CommitHandler::resolve_version_location` → manifest
    load) followed by the scan / `load_indices` / `config()` -/
def checkout (s : Store) (v : Nat) : Option Snap :=
  match manifestAt s v with
  | none => none
  | some m => if (derefs s m).all (fun e => e.2.isSome) then some (snapOf m (derefs s m)) else none

/-! ### cleanup (cleanup.rs) -/

/-- cleanup.rs `CleanupPolicy` for one run: `old v` = `should_clean(manifest of v)` (the version bound and the timestamp
    bound — a manifest's timestamp is a function of its version), `unv` = `delete_unverified`,
    `errTagged` = `error_if_tagged_old_versions` -/
structure Policy where
  old : Nat → Bool
  unv : Bool
  errTagged : Bool

/-- `process_manifest_file`: `is_latest || !should_clean || is_tagged` with `is_latest = dataset.version <= manifest.version` -/
def inWorkingSet (p : Policy) (dsv : Nat) (tags : List Nat) (v : Nat) : Bool :=
  decide (dsv ≤ v) || !p.old v || tags.contains v

/-- the version an entry of `_versions/` is listed under by `list_manifest_locations` (names without a version — detached
    manifests, staging files — are not listed) -/
def verOf (n : Name) : Option Nat := (cand n).map (·.version)

/-- the manifests cleanup inspects: (version, manifest) of every listed entry -/
def attached (s : Store) : List (Nat × Manifest) :=
  s.filterMap (fun e =>
    match e.1, e.2 with
    | .ver n, .man m => (verOf n).map (fun v => (v, m))
    | _, _ => none)

/-- `referenced_files`: everything named by a manifest of the working set -/
def keptRefs (ws : Nat → Bool) (s : Store) : List Path :=
  (attached s).flatMap (fun e => if ws e.1 then e.2.refs else [])

/-- `verified_files` beyond the referenced ones: everything named by an old manifest -/
def oldRefs (ws : Nat → Bool) (s : Store) : List Path :=
  (attached s).flatMap (fun e => if ws e.1 then [] else e.2.refs)

def minNat : List Nat → Option Nat
  | [] => none
  | a :: t =>
    match minNat t with
    | some b => some (if a ≤ b then a else b)
    | none => some a

/-- `earliest_retained_manifest_time`: identifiers are handed out in time order, a manifest is written right after its
    transaction file, so the commit time of a manifest is its `txn` identifier -/
def earliest (ws : Nat → Bool) (s : Store) : Option Nat :=
  minNat (((attached s).filter (fun e => ws e.1)).map (fun e => e.2.txn))

/-- index files are referenced by directory (`_indices/<uuid>/…`), everything else by path -/
def sameObject : Path → Path → Bool
  | .file .idx a _, .file .idx b _ => a == b
  | p, q => decide (p = q)

def referenced (L : List Path) (q : Path) : Bool := L.any (fun r => sameObject r q)

/-- `read_dir_all(base, unmodified_since = earliest retained manifest time)` -/
def candidate (e : Option Nat) (id : Nat) : Bool :=
  match e with
  | some t => decide (id ≤ t)
  | none => true

/-- the objects one cleanup run deletes: `old_manifests` and `path_if_not_referenced` (`maybe_in_progress` is
    `!delete_unverified` for files younger than 7 days: every file of the model) -/
def removable (p : Policy) (ws : Nat → Bool) (s : Store) (q : Path) : Bool :=
  match q with
  | .ver n =>
    match verOf n with
    | some v => !ws v
    | none => false
  | .file _ id _ =>
    !referenced (keptRefs ws s) q && candidate (earliest ws s) id && (p.unv || referenced (oldRefs ws s) q)

def cleanupStore (p : Policy) (dsv : Nat) (tags : List Nat) (s : Store) : Store :=
  s.filter (fun e => !removable p (inWorkingSet p dsv tags) s e.1)

/-- `tagged_old_versions` -/
def taggedOld (p : Policy) (dsv : Nat) (tags : List Nat) (s : Store) : List Nat :=
  ((attached s).map (·.1)).filter (fun v => tags.contains v && !decide (dsv ≤ v) && p.old v)

inductive CleanOut where
  /-- `Ok(RemovalStats)`: the store afterwards, `old_versions` -/
  | ok (s : Store) (removed : Nat)
  /-- `Error::Cleanup` (tagged old versions); nothing deleted -/
  | errTagged
  /-- the handle is not on a version of this table (never for a handle lance returned) -/
  | invalid

/-- `CleanupTask::run` through a handle at version `dsv` with the tagged versions `tags` -/
def cleanup (p : Policy) (dsv : Nat) (tags : List Nat) (s : Store) : CleanOut :=
  if dsv = 0 ∨ latestN s < dsv then .invalid
  else if p.errTagged && !(taggedOld p dsv tags s).isEmpty then .errTagged
  else
    .ok (cleanupStore p dsv tags s)
      (((attached s).filter (fun e => !inWorkingSet p dsv tags e.1)).length)

/-! ### histories -/

/-- table state: C01's store and identifier counter, plus the tag files (`_refs/tags/<name>.json` ↦ version) -/
structure TT where
  st : St
  tags : List (String × Nat)

def TT.empty : TT := ⟨St.empty, []⟩

def TT.store (x : TT) : Store := x.st.store

def tagged (x : TT) : List Nat := x.tags.map (·.2)

inductive Step where
  | prog (p : Prog)
  | cleanup (pol : Policy) (dsv : Nat)
  | tag (t : String) (v : Nat)
  | untag (t : String)
  | foreign

def hasTag (x : TT) (t : String) : Bool := x.tags.any (fun e => e.1 == t)

def step (cfg : Cfg) (x : TT) : Step → TT
  | .prog p => { x with st := (stepOp cfg x.st p).1 }
  | .cleanup pol dsv =>
    match cleanup pol dsv (tagged x) x.st.store with
    | .ok s' _ => { x with st := ⟨s', x.st.uid⟩ }
    | _ => x
  | .tag t v =>
    -- `Tags::create`: RefConflict when the tag exists, VersionNotFound when the manifest of `v` does not
    if hasTag x t || !(versions x.st.store).contains v then x else { x with tags := (t, v) :: x.tags }
  | .untag t => { x with tags := x.tags.filter (fun e => e.1 != t) }
  | .foreign => x

def run (cfg : Cfg) : TT → List Step → TT
  | x, [] => x
  | x, a :: rest => run cfg (step cfg x a) rest

def Step.isCleanup : Step → Bool
  | .cleanup .. => true
  | _ => false

/-! ### deletion-file names (rust/lance-table/src/io/deletion.rs `deletion_file_path`)

`_deletions/<fragment id>-<read version>-<id>.<arrow|bin>` with `id = rand::rng().random::<u64>()`.  C01's `Path.file .del id 0`
stands for the whole name; the functions below spell it out.  A rebase that merges a concurrent delete
(conflict_resolver.rs `finish_delete_update`) calls `write_deletion_file` again: same fragment, the read version of the
transaction, a NEW random id — a new name (`delName_inj`). -/

def delName (frag rv id : Nat) (bitmap : Bool) : Name :=
  dec frag ++ '-' :: (dec rv ++ '-' :: (dec id ++ (if bitmap then ".bin".toList else ".arrow".toList)))

/-! ### operations of the correspondence run that C01's alphabet lacks -/

/-- `drop_index` (index.rs): `Operation::CreateIndex { new_indices: [], removed_indices }`, commit only -/
def dropIndexCalls (cfg : Cfg) (st : St) : Except Err Plan :=
  let n := latestN st.store
  match manifestAt st.store n with
  | none => .error .notFound
  | some m =>
    if m.indices.isEmpty then .error .notFound
    else .ok { calls := commitTxn cfg n (n + 1) st.uid (st.uid + 1) { m with indices := [] }, ids := 10 }

end LanceModel.C06
