import LanceModel.Util
import LanceModel.C06.Driver
def main : IO Unit := LanceModel.Util.runDriver LanceModel.C06.Driver.step LanceModel.C06.Driver.init
