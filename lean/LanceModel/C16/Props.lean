import LanceModel.C16.IndexLemmas
import LanceModel.C16.SortLemmas
import LanceModel.C16.ProjLemmas
/-
C16 — "For any filter, projection, limit/offset and ordering, a scan returns exactly the rows a reference SQL evaluation of
the same query over the model table returns (three-valued logic, literal coercion as the column type dictates).  The result
set is the same for every batch size, readahead, materialisation style, statistics/index use and pre-filter setting, and
count_rows with the same filter equals the number of rows returned."

Reference: `scan q = project (limitOffset (orderBy (filter eval3 rows)))` (Model.lean).  Execution: `FilteredReadExec`
modelled function by function (`filteredRead`), `Scanner::create_plan`'s limit stage (`scanImpl`), `safe_coerce_scalar`.
Only property theorems and their non-vacuity examples live here; the lemmas are in Range/Stream/Plan/Read/SortLemmas.
-/
namespace LanceModel.C16
open LanceModel.Query

/-! ### the table used by the examples: two fragments, one deleted row, NULLs -/

def exFrags : List Frag :=
  [{ id := 0, rows := [[some 1, some 5], [none, some 2], [some 3, none]], del := [1] },
   { id := 1, rows := [[some 3, some 7], [some 0, some 0]], del := [] }]

theorem exFrags_wf : ∀ f ∈ exFrags, f.wf := by
  intro f hf
  simp only [exFrags, List.mem_cons, List.not_mem_nil, or_false] at hf
  rcases hf with rfl | rfl <;> simp [Frag.wf, sortedIn]

theorem exFrags_nodup : (exFrags.map (·.id)).Nodup := by decide

/-! ## 1. batches, fragments, knobs -/

/-- BATCH INDEPENDENCE (fragment): reading the requested ranges of a fragment in batches of ANY size ≥ 1, filtering every
    batch and concatenating = filtering the requested rows once.  In particular two batch sizes give the same rows. -/
theorem batch_independence_fragment (bs bs' : Nat) (h : 1 ≤ bs) (h' : 1 ≤ bs') (keep : Row → Bool) (f : Frag)
    (ranges : List Rg) :
    (readFragment bs keep f ranges).flatten = (expand ranges).filter (fun o => keep (f.rowAt o))
    ∧ (readFragment bs keep f ranges).flatten = (readFragment bs' keep f ranges).flatten := by
  rw [readFragment_flatten bs h, readFragment_flatten bs' h']
  exact ⟨rfl, rfl⟩

example : (readFragment 2 (fun r => isTrue (.cmp .gt 0 (.lit 0)) r) exFrags[0] [(0, 1), (2, 3)]).flatten = [0, 2] := by
  decide

/-- BATCH INDEPENDENCE (table): for every table (any fragment layout, any deletion vectors), every predicate and every
    batch size ≥ 1, evaluating fragment by fragment and batch by batch and concatenating returns exactly the live rows on
    which the predicate is TRUE, in table order — evaluating on the whole table. -/
theorem batch_independence (frags : List Frag) (hwf : ∀ f ∈ frags, f.wf) (hnd : (frags.map (·.id)).Nodup)
    (bs : Nat) (hbs : 1 ≤ bs) (filt : Option Expr) :
    (filteredRead frags bs none none { full := filt, index := none }).flatten
      = ((liveWith cell frags).filter fun x => keepOpt filt x.2.2).map addrOf :=
  filteredRead_before frags hwf hnd bs hbs none filt

example : (filteredRead exFrags 2 none none { full := some (.cmp .ge 0 (.lit 3)), index := none }).flatten
    = [(0, 2), (1, 0)] := by decide

/-- every output batch is non-empty and holds at most `batch_size` rows -/
theorem batch_size_respected (bs : Nat) (keep : Row → Bool) (f : Frag) (ranges : List Rg) :
    ∀ b ∈ readFragment bs keep f ranges, b.length ≤ bs := by
  intro b hb
  unfold readFragment at hb
  obtain ⟨c, hc, rfl⟩ := List.mem_map.mp hb
  exact Nat.le_trans (List.length_filter_le _ _) (chunkF_le bs _ _ c hc)

/-! ## 2. limit / offset push-down -/

/-- LIMIT PUSH-DOWN (no filter): the per-fragment range arithmetic of `plan_scan` / `trim_ranges` / `calculate_fetch`
    over the valid ranges of `DvToValidRanges` returns exactly `take l (drop o rows)` of the live rows, for all fragment
    layouts, deletion vectors, batch sizes, `o` and `l` (the range `o .. o + l` is what `get_scan_range` pushes down). -/
theorem limit_pushdown (frags : List Frag) (hwf : ∀ f ∈ frags, f.wf) (hnd : (frags.map (·.id)).Nodup)
    (bs : Nat) (hbs : 1 ≤ bs) (o l : Nat) :
    (filteredRead frags bs (some (o, o + l)) none { full := none, index := none }).flatten
      = ((liveAddrs frags).drop o).take l := by
  rw [filteredRead_before frags hwf hnd bs hbs]
  simp only [readSpec, beforeWindow, keepOpt, window, Nat.sub_zero, Nat.max_zero]
  have : o + l - o = l := by omega
  rw [this, List.filter_eq_self.mpr (by intros; rfl), liveAddrs_eq, List.map_take, List.map_drop]
  congr 2
  simp only [liveWith, List.map_flatMap, List.map_map]
  rfl

example : (filteredRead exFrags 3 (some (1, 3)) none { full := none, index := none }).flatten = [(0, 2), (1, 0)] := by
  decide

/-- LIMIT AFTER THE FILTER (no index result): before-filter range, filter, soft limit per fragment and the hard range
    together return `take (e - s) (drop s (filter (window rows)))` — for all layouts, deletions, batch sizes, ranges. -/
theorem limit_after_filter (frags : List Frag) (hwf : ∀ f ∈ frags, f.wf) (hnd : (frags.map (·.id)).Nodup)
    (bs : Nat) (hbs : 1 ≤ bs) (before : Option Rg) (a : Rg) (filt : Option Expr) :
    (filteredRead frags bs before (some a) { full := filt, index := none }).flatten
      = ((readSpec frags before filt).drop a.1).take (a.2 - a.1) :=
  filteredRead_after frags hwf hnd bs hbs before a filt

example : (filteredRead exFrags 1 none (some (1, 2)) { full := some (.notNull 0), index := none }).flatten = [(0, 2)] := by
  decide

/-- the soft limit cannot be observed: whatever prefix of a fragment's batches the read-ahead lets through beyond the
    first `e` rows, the first `e` rows of the stream are the same -/
theorem soft_limit_irrelevant {α : Type} (e : Nat) (ps : List (List α × List α))
    (h : ∀ p ∈ ps, truncOk e p.1 p.2) :
    ((ps.map (·.1)).flatten).take e = ((ps.map (·.2)).flatten).take e :=
  take_flatten_trunc e ps h

/-- `apply_hard_range(s..e)` keeps exactly the rows at stream positions `s .. e`, whatever the batch boundaries -/
theorem hard_range_exact {α : Type} (s e : Nat) (bs : List (List α)) :
    (hardRange s e bs 0).flatten = (bs.flatten.drop s).take (e - s) := by
  rw [hardRange_flatten]
  simp [window]

/-- the arithmetic of the indexed push-down (`apply_skip_take_to_ranges`): the matched ranges are cut to the window
    `skip .. skip + take` and the counters carried to the next fragment are what is left of it -/
theorem skip_take_exact (rs : List Rg) (s t : Nat) :
    expand (applySkipTake rs s t).1 = ((expand rs).drop s).take t
    ∧ (applySkipTake rs s t).2.2 = t - (total rs - s)
    ∧ (t ≠ 0 → (applySkipTake rs s t).2.1 = s - total rs) :=
  applySkipTake_spec rs s t

example : expand (applySkipTake [(0, 2), (5, 9)] 1 3).1 = [1, 5, 6] := by decide

/-- the valid ranges computed from a sorted deletion vector denote exactly the rows that are not deleted -/
theorem valid_ranges_exact (f : Frag) (h : f.wf) : expand (fullFragRange f.physical f.del) = f.liveOffsets :=
  expand_full f h

/-- FULL STATEMENT for the index-accelerated read: with an exact index answer for `atom` and the rest of the filter as
    refine filter, an after-filter range returns that window of the rows matching `atom AND refine` -/
def indexed_limit_full : Prop :=
  ∀ (frags : List Frag) (bs : Nat) (a : Rg) (atom refine : Expr),
    (∀ f ∈ frags, f.wf) → (frags.map (·.id)).Nodup → 1 ≤ bs →
    (filteredRead frags bs none (some a)
        { full := some (.and atom refine), index := some { atom := atom, refine := some refine } }).flatten
      = ((readSpec frags none (some (.and atom refine))).drop a.1).take (a.2 - a.1)

/-- the sound part (`_partial`): when the exact index answers the whole filter — no refine filter remains — the skip/take
    push-down across fragments (or, when the matches run out before the window is full, soft limit + hard range) returns
    exactly rows `a.start .. a.end` of the matching rows, for all layouts, deletion vectors, batch sizes and ranges -/
theorem indexed_limit_partial (frags : List Frag) (hwf : ∀ f ∈ frags, f.wf) (hnd : (frags.map (·.id)).Nodup)
    (bs : Nat) (hbs : 1 ≤ bs) (a : Rg) (atom : Expr) :
    (filteredRead frags bs none (some a) { full := some atom, index := some { atom := atom, refine := none } }).flatten
      = ((readSpec frags none (some atom)).drop a.1).take (a.2 - a.1) :=
  filteredRead_index_norefine frags hwf hnd bs hbs a atom

example : (filteredRead exFrags 2 none (some (1, 3))
    { full := some (.cmp .ge 0 (.lit 1)), index := some { atom := .cmp .ge 0 (.lit 1), refine := none } }).flatten
    = [(0, 2), (1, 0)] := by decide

/-- the code pushes the window into the index-matched ranges and applies the refine filter afterwards: rows the refine
    filter drops are counted against the limit.  Witness: `c0 >= 0 AND c1 > 4 LIMIT 1` finds nothing although two rows match. -/
theorem indexed_limit_counterexample : ¬ indexed_limit_full := by
  intro h
  have := h [{ id := 0, rows := [[some 1, some 0], [some 2, some 5], [some 3, some 6]], del := [] }] 2 (0, 1)
    (.cmp .ge 0 (.lit 0)) (.cmp .gt 1 (.lit 4)) (by intro f hf; simp at hf; subst hf; simp [Frag.wf, sortedIn])
    (by decide) (by decide)
  revert this
  decide

/-! ## 3. the scanner against the reference query -/

/-- FULL STATEMENT: for every table and query the scanner returns the reference answer -/
def scan_eq_reference_full : Prop := ∀ (legacy : Bool) (t : List Frag) (q : Query), scanImpl legacy t q = scan t q

/-- the region in which `create_plan` drops the limit: `LIMIT 0` without offset on a filtered or ordered scan -/
def limitZeroDropped (legacy : Bool) (q : Query) : Bool :=
  q.limit == some 0 && q.offset.isNone && !(!legacy && q.filt.isNone && q.ord.isNone)

theorem scan_eq_reference_partial (legacy : Bool) (t : List Frag) (q : Query) (h : limitZeroDropped legacy q = false) :
    scanImpl legacy t q = scan t q := by
  unfold scanImpl scan limitStage
  by_cases hp : (!legacy && q.filt.isNone && q.ord.isNone) = true
  · rw [if_pos hp]
  · rw [if_neg hp]
    by_cases hl : (decide (q.limit.getD 0 > 0) || q.offset.isSome) = true
    · rw [if_pos hl]
    · rw [if_neg hl]
      -- neither a positive limit nor an offset: limit is none (or `some 0`, excluded by `h`)
      simp only [Bool.or_eq_true, decide_eq_true_eq, not_or, Bool.not_eq_true] at hl
      obtain ⟨hl1, hl2⟩ := hl
      cases hq : q.limit with
      | none =>
        cases ho : q.offset with
        | none => simp [limitOffset]
        | some o => simp [ho] at hl2
      | some l =>
        have hl0 : l = 0 := by simp [hq] at hl1; exact hl1
        subst hl0
        cases ho : q.offset with
        | none =>
          simp only [limitZeroDropped, hq, ho, beq_self_eq_true, Option.isNone_none, Bool.and_true, Bool.true_and,
            Bool.not_eq_false'] at h
          exact absurd h hp
        | some o => simp [ho] at hl2

theorem scan_eq_reference_counterexample : ¬ scan_eq_reference_full := by
  intro h
  have := h false exFrags { proj := none, limit := some 0, offset := none, ord := none, filt := some (.notNull 0) }
  revert this
  decide

example : limitZeroDropped false { proj := some [1], limit := some 2, offset := some 1, ord := none, filt := some (.notNull 0) }
    = false := by decide

/-- COUNT: `count_rows(filter)` = the number of rows the scan with that filter returns (any projection, any ordering) -/
theorem count_eq_len (t : List Frag) (filt : Option Expr) (proj : Option (List Nat)) (ord : Option Order) :
    countRows t filt = (scan t { proj := proj, limit := none, offset := none, ord := ord, filt := filt }).length := by
  simp only [countRows, scan, limitOffset, Option.getD_none, List.drop_zero, List.length_map]
  exact ((orderBy_perm ord _).length_eq).symm

example : countRows exFrags (some (.cmp .ge 0 (.lit 3))) = 2 := by decide

/-- PROJECTION: projecting commutes with limit / offset and with the filter — the scan of a projection is the projection of
    the scan (the filter and the ordering see the full row, also columns that are projected away) -/
theorem projection_commutes (t : List Frag) (q : Query) :
    scan t q = (scan t { q with proj := none }).map (project q.proj) := by
  simp only [scan, List.map_map]
  congr 1

/-- the filter may be evaluated on the narrow batch that holds only the columns read (projection ∪ filter columns, as
    `read_fragment` does): re-indexed to those columns it gives the same three-valued answer as on the full row -/
theorem filter_on_read_columns (r : Row) (cols : List Nat) (e : Expr) (h : colsIn cols e = true) :
    eval3 (remap cols e) (project (some cols) r) = eval3 e r :=
  eval3_narrow r cols e h

example : eval3 (remap [2, 0] (.cmp .lt 0 (.col 2))) (project (some [2, 0]) [some 1, some 9, some 5]) = some true := by
  decide

/-- WHERE keeps exactly the rows on which the predicate is TRUE — not FALSE, not NULL (three-valued logic): a row is in
    the un-windowed answer iff it is the projection of a live row with `eval3 = some true` -/
theorem scan_mem (t : List Frag) (filt : Expr) (ord : Option Order) (r : Row) :
    r ∈ scan t { proj := none, limit := none, offset := none, ord := ord, filt := some filt }
      ↔ r ∈ liveRows t ∧ eval3 filt r = some true := by
  simp only [scan, limitOffset, Option.getD_none, List.drop_zero]
  have hid : (project none : Row → Row) = id := by funext x; rfl
  rw [hid, List.map_id, (orderBy_perm ord _).mem_iff, List.mem_filter]
  simp [keepOpt, Query.isTrue]

/-- ORDER BY: the result is sorted by the key (NULLs first / last, ascending / descending) and is a permutation of the
    filtered rows -/
theorem order_by_sorted (o : Order) (rows : List Row) :
    (orderBy (some o) rows).Pairwise (fun a b => o.le a b = true) ∧ (orderBy (some o) rows).Perm rows :=
  ⟨sortBy_pairwise o.le o.le_total o.le_trans rows, sortBy_perm o.le rows⟩

example : orderBy (some { col := 0, asc := false, nullsFirst := true }) [[some 1], [none], [some 3]]
    = [[none], [some 3], [some 1]] := by decide

/-! ## 4. literal coercion -/

/-- `safe_coerce_scalar` between integer types is value preserving and succeeds exactly when the value fits the target -/
theorem coerce_exact (from_ to : Ty) (v : Int) :
    (∀ w, coerce from_ to v = some w → w = v ∧ to.holds v = true)
    ∧ (coerce from_ to v = none ↔ to.holds v = false) := by
  unfold coerce
  by_cases h : to.holds v = true
  · simp [h]
  · simp [h]

example : coerce .i64 .i8 127 = some 127 ∧ coerce .i64 .i8 128 = none ∧ coerce .i64 .u8 (-1) = none
    ∧ coerce .i64 .utf8 1 = none := by decide

/-- when every literal fits the column type, resolution succeeds and the typed scan is the integer three-valued scan -/
theorem typed_scan_exact (ty : Ty) (cells : List Cell) (e : Expr) (h : resolveOk ty e = true) :
    typedScan ty cells e = some (cells.filter fun c => eval3 e [c] == some true) := by
  simp [typedScan, h, Query.isTrue]

/-- `resolve_expr` does not look below NOT: a literal outside the column type is an error at the top level and under
    AND / OR, but is accepted under NOT -/
theorem resolve_skips_not (ty : Ty) (e : Expr) : resolveOk ty (.not e) = true := rfl

example : typedScan .i8 [some 1, none] (.cmp .lt 0 (.lit 300)) = none
    ∧ typedScan .i8 [some 1, none] (.not (.cmp .ge 0 (.lit 300))) = some [some 1] := by decide

end LanceModel.C16
