import LanceModel.C16.StreamLemmas
/-
`plan_scan` without an index: what the fragment loop plans to read — the before-filter range arithmetic across fragments
(running logical offset, per-fragment `trim_ranges`, early break) denotes exactly the window of the live rows.
-/
namespace LanceModel.C16

/-- a fragment is well formed when its deletion vector is sorted, duplicate free and inside the fragment -/
def Frag.wf (f : Frag) : Prop := sortedIn 0 f.rows.length f.del

/-- what a list of planned reads denotes, for a description `c f o` of the cell at offset `o` of fragment `f` -/
def den {β : Type} (c : Frag → Nat → β) (L : List (Frag × List Rg)) : List β := L.flatMap fun p => (expand p.2).map (c p.1)

/-- the live cells of a table in table order -/
def liveWith {β : Type} (c : Frag → Nat → β) (t : List Frag) : List β := t.flatMap fun f => f.liveOffsets.map (c f)

theorem liveAddrs_eq (t : List Frag) : liveAddrs t = liveWith (fun f o => (f.id, o)) t := rfl

theorem liveRows_eq (t : List Frag) : liveRows t = liveWith (fun f o => f.rowAt o) t := rfl

theorem den_cons {β : Type} (c : Frag → Nat → β) (p : Frag × List Rg) (L : List (Frag × List Rg)) :
    den c (p :: L) = (expand p.2).map (c p.1) ++ den c L := by
  simp [den]

theorem liveWith_cons {β : Type} (c : Frag → Nat → β) (f : Frag) (t : List Frag) :
    liveWith c (f :: t) = f.liveOffsets.map (c f) ++ liveWith c t := by
  simp [liveWith]

/-! ### number of live rows -/

theorem length_filter_not_del (n : Nat) (ds : List Nat) (pos : Nat) (hp : pos ≤ n) (hs : sortedIn pos n ds) :
    ((List.range' pos (n - pos)).filter (fun o => !ds.contains o)).length = n - pos - ds.length := by
  induction ds generalizing pos with
  | nil =>
    rw [List.filter_eq_self.mpr (by intros; rfl)]
    simp
  | cons d ds ih =>
    obtain ⟨h1, h2, h3⟩ := hs
    have hsplit : List.range' pos (n - pos) = List.range' pos (d - pos) ++ (d :: List.range' (d + 1) (n - (d + 1))) := by
      have e : n - pos = (d - pos) + ((n - (d + 1)) + 1) := by omega
      rw [e, ← List.range'_append, List.range'_succ]
      simp only [Nat.one_mul]
      have : pos + (d - pos) = d := by omega
      rw [this]
    rw [hsplit, List.filter_append, List.filter_cons]
    have hd : (!(d :: ds).contains d) = false := by simp
    rw [hd]
    simp only [Bool.false_eq_true, if_false, List.length_append]
    have hfirst : (List.range' pos (d - pos)).filter (fun o => !(d :: ds).contains o) = List.range' pos (d - pos) := by
      apply filter_range'_none
      intro x hx1 hx2 hm
      rcases List.mem_cons.mp hm with rfl | hm
      · omega
      · exact sortedIn_not_mem h3 (by omega) hm
    have hrest : (List.range' (d + 1) (n - (d + 1))).filter (fun o => !(d :: ds).contains o)
        = (List.range' (d + 1) (n - (d + 1))).filter (fun o => !ds.contains o) := by
      apply List.filter_congr
      intro x hx
      have hx' := List.mem_range'_1.mp hx
      have : (x == d) = false := by simp; omega
      simp only [List.contains_cons, this, Bool.false_or]
    rw [hfirst, hrest, ih (d + 1) (by omega) h3]
    have hl := sortedIn_length h3
    simp only [List.length_range', List.length_cons]
    omega
where
  sortedIn_length {lo n : Nat} {ds : List Nat} (h : sortedIn lo n ds) : ds.length ≤ n - lo := by
    induction ds generalizing lo with
    | nil => simp
    | cons d ds ih =>
      have := ih h.2.2
      have := h.1; have := h.2.1
      simp only [List.length_cons]; omega

theorem expand_full (f : Frag) (h : f.wf) : expand (fullFragRange f.physical f.del) = f.liveOffsets := by
  rw [Frag.physical, fullFragRange_expand _ _ h]
  rfl

theorem length_liveOffsets (f : Frag) (h : f.wf) : f.liveOffsets.length = f.logical := by
  have := length_filter_not_del f.rows.length f.del 0 (Nat.zero_le _) h
  simp only [Nat.sub_zero] at this
  rw [Frag.liveOffsets, List.range_eq_range', Frag.logical]
  exact this

/-- `trim_ranges` of a fragment at logical position `off .. off + logical` against the bounds `b`: the part of the
    fragment's live offsets that falls inside the bounds -/
theorem expand_trimRanges (f : Frag) (h : f.wf) (off : Nat) (b : Rg) :
    expand (trimRanges (fullFragRange f.physical f.del) (off, off + f.logical) b)
      = window (b.1 - off) (b.2 - max b.1 off) f.liveOffsets := by
  have hlen := length_liveOffsets f h
  unfold trimRanges
  by_cases hc : (calculateFetch (off, off + f.logical) b).1 = 0
      ∧ (calculateFetch (off, off + f.logical) b).2 = (off, off + f.logical).2 - (off, off + f.logical).1
  · rw [if_pos hc, expand_full f h]
    simp only [calculateFetch] at hc
    obtain ⟨h1, h2⟩ := hc
    simp only [window, h1, List.drop_zero]
    rw [List.take_of_length_le (by omega)]
  · rw [if_neg hc, trimLoop_expand, expand_full f h]
    simp only [calculateFetch, window]
    have hl : (f.liveOffsets.drop (b.1 - off)).length = f.logical - (b.1 - off) := by simp [hlen]
    have e : min b.2 (off + f.logical) - max off b.1 = min (b.2 - max b.1 off) (f.liveOffsets.drop (b.1 - off)).length := by
      rw [hl]; omega
    rw [e, take_min_length]

/-! ### the fragment loop without an index -/

/-- what `plan_scan` plans to read when there is no index result: per fragment, the valid ranges trimmed to the
    before-filter range; fragments after the end of the range are not visited, fragments without a row in it are skipped -/
def beforeEntries (before : Option Rg) : List Frag → Nat → List (Frag × List Rg)
  | [], _ => []
  | f :: fs, off =>
    match before with
    | none => (f, fullFragRange f.physical f.del) :: beforeEntries before fs off
    | some b =>
      if off ≥ b.2 then []
      else if (trimRanges (fullFragRange f.physical f.del) (off, off + f.logical) b).isEmpty then
        beforeEntries before fs (off + f.logical)
      else (f, trimRanges (fullFragRange f.physical f.del) (off, off + f.logical) b)
            :: beforeEntries before fs (off + f.logical)

def idEntries (L : List (Frag × List Rg)) : List (Nat × List Rg) := L.map fun p => (p.1.id, p.2)

/-- the loop of `plan_scan` with no index and a non-zero `to_take`: never pushed down, plans `beforeEntries` -/
theorem planLoop_noindex (before : Option Rg) (fs : List Frag) (st : PlanSt) (ht : st.take ≠ 0) :
    (planLoop before none fs st).1.full = st.full ++ idEntries (beforeEntries before fs st.off)
    ∧ (planLoop before none fs st).2 = false := by
  induction fs generalizing st with
  | nil => simp [planLoop, beforeEntries, idEntries]
  | cons f fs ih =>
    cases before with
    | none =>
      have := ih { st with full := st.full ++ [(f.id, fullFragRange f.physical f.del)] } ht
      simp only [planLoop, applyIndex, beforeEntries, ht, ↓reduceIte, idEntries, List.map_cons] at this ⊢
      rw [this.1, this.2]
      simp
    | some b =>
      by_cases h1 : st.off ≥ b.2
      · simp [planLoop, beforeEntries, h1, idEntries]
      · by_cases h2 : (trimRanges (fullFragRange f.physical f.del) (st.off, st.off + f.logical) b).isEmpty
        · have := ih { st with off := st.off + f.logical } ht
          simp only [planLoop, applyIndex, beforeEntries, h1, h2, ↓reduceIte] at this ⊢
          exact this
        · have := ih { st with off := st.off + f.logical,
                               full := st.full ++ [(f.id, trimRanges (fullFragRange f.physical f.del) (st.off, st.off + f.logical) b)] } ht
          simp only [planLoop, applyIndex, beforeEntries, h1, h2, ht, ↓reduceIte, idEntries, List.map_cons,
            Bool.false_eq_true] at this ⊢
          rw [this.1, this.2]
          simp

/-- with `to_take = 0` from the start (an empty after-filter range) nothing at all is planned -/
theorem planLoop_noindex_zero (before : Option Rg) (fs : List Frag) (st : PlanSt) (ht : st.take = 0)
    (hf : st.full = []) (hp : st.pushed = []) :
    (planLoop before none fs st).1.full = [] := by
  induction fs generalizing st with
  | nil => simpa [planLoop] using hf
  | cons f fs ih =>
    cases before with
    | none => simp [planLoop, applyIndex, ht, hp]
    | some b =>
      by_cases h1 : st.off ≥ b.2
      · simpa [planLoop, h1] using hf
      · by_cases h2 : (trimRanges (fullFragRange f.physical f.del) (st.off, st.off + f.logical) b).isEmpty
        · have := ih { st with off := st.off + f.logical } ht hf hp
          simp only [planLoop, applyIndex, h1, h2, ↓reduceIte] at this ⊢
          exact this
        · simp only [planLoop, applyIndex, h1, h2, ht, ↓reduceIte, Bool.false_eq_true]
          exact hp

/-- the window of the live rows that lies inside the before-filter range, seen from logical offset `off` -/
def beforeWindow {α : Type} (before : Option Rg) (off : Nat) (l : List α) : List α :=
  match before with
  | none => l
  | some b => window (b.1 - off) (b.2 - max b.1 off) l

/-- LIMIT PUSH-DOWN, range arithmetic: for every fragment layout and every deletion vector, the per-fragment ranges planned
    for a before-filter range `b` denote exactly the rows `b.start .. b.end` of the live rows of the table -/
theorem den_beforeEntries {β : Type} (c : Frag → Nat → β) (before : Option Rg) (fs : List Frag) (off : Nat)
    (hwf : ∀ f ∈ fs, f.wf) :
    den c (beforeEntries before fs off) = beforeWindow before off (liveWith c fs) := by
  induction fs generalizing off with
  | nil => cases before <;> simp [beforeEntries, den, liveWith, beforeWindow, window]
  | cons f fs ih =>
    have hf : f.wf := hwf f (List.mem_cons_self ..)
    have hfs : ∀ g ∈ fs, g.wf := fun g hg => hwf g (List.mem_cons_of_mem _ hg)
    cases before with
    | none =>
      simp only [beforeEntries, den_cons, liveWith_cons, beforeWindow]
      rw [expand_full f hf]
      congr 1
      exact ih off hfs
    | some b =>
      simp only [beforeEntries, beforeWindow, liveWith_cons]
      have hlen : (f.liveOffsets.map (c f)).length = f.logical := by
        simp [length_liveOffsets f hf]
      by_cases h1 : off ≥ b.2
      · rw [if_pos h1]
        have : b.2 - max b.1 off = 0 := by omega
        simp [den, window, this]
      · rw [if_neg h1, window_append, hlen]
        have hthis : (expand (trimRanges (fullFragRange f.physical f.del) (off, off + f.logical) b)).map (c f)
            = window (b.1 - off) (b.2 - max b.1 off) (f.liveOffsets.map (c f)) := by
          rw [expand_trimRanges f hf]
          simp [window, List.map_take, List.map_drop]
        have hrest : den c (beforeEntries (some b) fs (off + f.logical))
            = window (b.1 - off - f.logical) (b.2 - max b.1 off - (f.logical - (b.1 - off))) (liveWith c fs) := by
          rw [ih (off + f.logical) hfs]
          simp only [beforeWindow]
          congr 1 <;> omega
        by_cases h2 : (trimRanges (fullFragRange f.physical f.del) (off, off + f.logical) b).isEmpty
        · rw [if_pos h2, hrest, ← hthis]
          have : trimRanges (fullFragRange f.physical f.del) (off, off + f.logical) b = [] := List.isEmpty_iff.mp h2
          simp [this]
        · rw [if_neg h2, den_cons, hrest, ← hthis]

/-! ### from the planned map back to the fragments -/

theorem lookup_idEntries_none (L : List (Frag × List Rg)) (i : Nat) (h : ∀ p ∈ L, p.1.id ≠ i) :
    (idEntries L).lookup i = none := by
  induction L with
  | nil => rfl
  | cons p L ih =>
    have hp : (i == p.1.id) = false := by
      have := h p (List.mem_cons_self ..)
      simp; omega
    simp only [idEntries, List.map_cons, List.lookup_cons, hp]
    exact ih (fun q hq => h q (List.mem_cons_of_mem _ hq))

/-- the ids of the planned entries are a subsequence of the fragments' ids -/
theorem beforeEntries_sublist (before : Option Rg) (fs : List Frag) (off : Nat) :
    ((beforeEntries before fs off).map (·.1)).Sublist fs := by
  induction fs generalizing off with
  | nil => simp [beforeEntries]
  | cons f fs ih =>
    cases before with
    | none => simp only [beforeEntries, List.map_cons]; exact (ih off).cons_cons f
    | some b =>
      simp only [beforeEntries]
      by_cases h1 : off ≥ b.2
      · simp [h1]
      · rw [if_neg h1]
        by_cases h2 : (trimRanges (fullFragRange f.physical f.del) (off, off + f.logical) b).isEmpty
        · rw [if_pos h2]; exact (ih _).cons f
        · rw [if_neg h2, List.map_cons]; exact (ih _).cons_cons f

theorem pick_cons_ne (i : Nat) (rs : List Rg) (M : List (Nat × List Rg)) (g : Frag) (h : g.id ≠ i) :
    pick ((i, rs) :: M) g = pick M g := by
  have : (g.id == i) = false := by simp; omega
  simp [pick, List.lookup_cons, this]

theorem filterMap_congr' {α β : Type} (F G : α → Option β) (l : List α) (h : ∀ x ∈ l, F x = G x) :
    l.filterMap F = l.filterMap G := by
  induction l with
  | nil => rfl
  | cons x l ih =>
    rw [List.filterMap_cons, List.filterMap_cons, h x (List.mem_cons_self ..),
      ih (fun y hy => h y (List.mem_cons_of_mem _ hy))]

/-- looking the planned ranges up fragment by fragment (ids are unique) gives back the planned entries, minus the empty ones -/
theorem den_lookup {β : Type} (c : Frag → Nat → β) (fs : List Frag) (L : List (Frag × List Rg))
    (hsub : (L.map (·.1)).Sublist fs) (hnd : (fs.map (·.id)).Nodup) :
    den c (fs.filterMap (pick (idEntries L))) = den c L := by
  induction fs generalizing L with
  | nil =>
    have : L = [] := by
      cases L with
      | nil => rfl
      | cons p L => simp at hsub
    simp [this, den]
  | cons f fs ih =>
    have hnd' : (fs.map (·.id)).Nodup := (List.nodup_cons.mp hnd).2
    have hfid : ∀ g ∈ fs, g.id ≠ f.id := by
      intro g hg heq
      exact (List.nodup_cons.mp hnd).1 (List.mem_map.mpr ⟨g, hg, heq⟩)
    cases L with
    | nil =>
      have h0 : pick (idEntries []) f = none := rfl
      rw [List.filterMap_cons, h0]
      exact ih [] (by simp) hnd'
    | cons p L' =>
      simp only [List.map_cons] at hsub
      by_cases hpf : p.1 = f
      · have hsub' : (L'.map (·.1)).Sublist fs := by
          rw [hpf] at hsub
          exact List.Sublist.of_cons_cons hsub
        obtain ⟨pf, rs⟩ := p
        simp only at hpf
        subst hpf
        have htail : fs.filterMap (pick (idEntries ((pf, rs) :: L'))) = fs.filterMap (pick (idEntries L')) :=
          filterMap_congr' _ _ fs (fun g hg => pick_cons_ne pf.id rs (idEntries L') g (hfid g hg))
        have hl : pick (idEntries ((pf, rs) :: L')) pf = if rs.isEmpty then none else some (pf, rs) := by
          simp [pick, idEntries, List.lookup_cons]
        rw [List.filterMap_cons, hl, htail]
        by_cases he : rs.isEmpty
        · simp only [he, if_true]
          rw [ih L' hsub' hnd', den_cons]
          have : rs = [] := List.isEmpty_iff.mp he
          simp [this]
        · simp only [he, Bool.false_eq_true, if_false]
          rw [den_cons, ih L' hsub' hnd', den_cons]
      · have hsub' : ((p :: L').map (·.1)).Sublist fs := by
          simp only [List.map_cons]
          cases hsub with
          | cons _ h => exact h
          | cons_cons _ h => exact absurd rfl hpf
        have hnone : pick (idEntries (p :: L')) f = none := by
          have : (idEntries (p :: L')).lookup f.id = none := by
            apply lookup_idEntries_none
            intro q hq heq
            have hqfs : q.1 ∈ fs := hsub'.subset (List.mem_map_of_mem hq)
            exact hfid q.1 hqfs heq
          simp [pick, this]
        rw [List.filterMap_cons, hnone]
        exact ih (p :: L') hsub' hnd'

end LanceModel.C16
