import LanceModel.C16.PlanLemmas
/-
`FilteredReadExec` end to end (no index result): planning, reading in batches, per-batch filtering, soft limit and hard
range together return exactly `after-window (filter (before-window (live rows)))`, for every fragment layout, deletion
vector, batch size and range.
-/
namespace LanceModel.C16
open LanceModel.Query

/-- a live cell with its address and content -/
def cell (f : Frag) (o : Nat) : Nat × Nat × Row := (f.id, o, f.rowAt o)

def addrOf (x : Nat × Nat × Row) : Nat × Nat := (x.1, x.2.1)

theorem flatten_map_map {α β : Type} (g : α → β) (L : List (List α)) :
    (L.map fun b => b.map g).flatten = L.flatten.map g := by
  induction L with
  | nil => rfl
  | cons b L ih => rw [List.map_cons, List.flatten_cons, List.flatten_cons, List.map_append, ih]

theorem flatten_fragBatches (bs : Nat) (hbs : 1 ≤ bs) (keep : Row → Bool) (fr : Frag × List Rg) :
    (fragBatches bs keep fr).flatten
      = (((expand fr.2).map (cell fr.1)).filter fun x => keep x.2.2).map addrOf := by
  unfold fragBatches
  rw [flatten_map_map, readFragment_flatten bs hbs, List.filter_map, List.map_map]
  rfl

theorem flatten_flatten_map {α β : Type} (g : α → List (List β)) (L : List α) :
    (L.map g).flatten.flatten = (L.map fun x => (g x).flatten).flatten := by
  induction L with
  | nil => rfl
  | cons x L ih => simp [ih]

/-- the concatenation of all batches of all planned fragment reads = the denoted cells, filtered -/
theorem flatten_planned (bs : Nat) (hbs : 1 ≤ bs) (keep : Row → Bool) (P : List (Frag × List Rg)) :
    (P.map fun fr => (fragBatches bs keep fr).flatten).flatten
      = ((den cell P).filter fun x => keep x.2.2).map addrOf := by
  induction P with
  | nil => rfl
  | cons fr P ih =>
    rw [List.map_cons, List.flatten_cons, ih, den_cons, List.filter_append, List.map_append,
      flatten_fragBatches bs hbs]

theorem filterMap_pick_nil (fs : List Frag) : fs.filterMap (pick []) = [] := by
  induction fs with
  | nil => rfl
  | cons f fs ih => rw [List.filterMap_cons]; exact ih

/-- planning without an index and with a non-empty after range (or none): never pushed down, reads the before-window -/
theorem planScan_noindex {β : Type} (c : Frag → Nat → β) (frags : List Frag) (before after : Option Rg)
    (hnd : (frags.map (·.id)).Nodup) (ht : (planInit after).take ≠ 0) :
    den c (planScan frags before after none).1 = den c (beforeEntries before frags 0)
    ∧ (planScan frags before after none).2 = false := by
  have h := planLoop_noindex before frags (planInit after) ht
  unfold planScan
  refine ⟨?_, h.2⟩
  simp only
  rw [h.1]
  have : (planInit after).full = [] := rfl
  rw [this, List.nil_append]
  have hoff : (planInit after).off = 0 := rfl
  rw [hoff]
  exact den_lookup c frags _ (beforeEntries_sublist before frags 0) hnd

theorem planScan_noindex_zero (frags : List Frag) (before after : Option Rg) (ht : (planInit after).take = 0) :
    (planScan frags before after none).1 = [] := by
  unfold planScan
  simp only
  rw [planLoop_noindex_zero before frags (planInit after) ht rfl rfl]
  exact filterMap_pick_nil frags

/-- the rows a read without index result must return when there is no after-filter range -/
def readSpec (frags : List Frag) (before : Option Rg) (filt : Option Expr) : List (Nat × Nat) :=
  ((beforeWindow before 0 (liveWith cell frags)).filter fun x => keepOpt filt x.2.2).map addrOf

theorem filteredRead_before (frags : List Frag) (hwf : ∀ f ∈ frags, f.wf) (hnd : (frags.map (·.id)).Nodup)
    (bs : Nat) (hbs : 1 ≤ bs) (before : Option Rg) (filt : Option Expr) :
    (filteredRead frags bs before none { full := filt, index := none }).flatten = readSpec frags before filt := by
  have hp := planScan_noindex cell frags before none hnd (by decide)
  unfold filteredRead
  have hm : readMask { full := filt, index := none } = none := rfl
  have hk : readKeep { full := filt, index := none } = keepOpt filt := rfl
  rw [hm, hk, hp.2]
  simp only [Bool.false_eq_true, if_false]
  unfold nonEmptyBatches
  rw [flatten_filter_nonempty, flatten_flatten_map, flatten_planned bs hbs, hp.1, den_beforeEntries cell before frags 0 hwf]
  rfl

theorem filteredRead_after (frags : List Frag) (hwf : ∀ f ∈ frags, f.wf) (hnd : (frags.map (·.id)).Nodup)
    (bs : Nat) (hbs : 1 ≤ bs) (before : Option Rg) (a : Rg) (filt : Option Expr) :
    (filteredRead frags bs before (some a) { full := filt, index := none }).flatten
      = window a.1 (a.2 - a.1) (readSpec frags before filt) := by
  have hm : readMask { full := filt, index := none } = none := rfl
  have hk : readKeep { full := filt, index := none } = keepOpt filt := rfl
  by_cases ht : a.2 - a.1 = 0
  · have hz := planScan_noindex_zero frags before (some a) ht
    unfold filteredRead
    rw [hm, hk, hz]
    have : window a.1 (a.2 - a.1) (readSpec frags before filt) = [] := by simp [window, ht]
    rw [this]
    split <;> simp [nonEmptyBatches, hardRange]
  · have hp := planScan_noindex cell frags before (some a) hnd ht
    unfold filteredRead
    rw [hm, hk, hp.2]
    simp only [Bool.false_eq_true, if_false]
    unfold nonEmptyBatches
    rw [hardRange_flatten, flatten_filter_nonempty, flatten_flatten_map]
    have e1 : a.1 - 0 = a.1 := by omega
    have e2 : a.2 - max a.1 0 = a.2 - a.1 := by omega
    rw [e1, e2, window_eq_drop_take, window_eq_drop_take]
    congr 1
    -- the first `end` rows do not depend on what the soft limit cut off
    have htr := take_flatten_trunc a.2
      ((planScan frags before (some a) none).1.map fun fr =>
        ((softLimit a.2 (fragBatches bs (keepOpt filt) fr) 0).flatten, (fragBatches bs (keepOpt filt) fr).flatten))
      (by
        intro p hp'
        obtain ⟨fr, _, rfl⟩ := List.mem_map.mp hp'
        have := softLimit_trunc a.2 (fragBatches bs (keepOpt filt) fr) 0
        simpa using this)
    simp only [List.map_map] at htr
    have hL : ((fun (x : List (Nat × Nat) × List (Nat × Nat)) => x.1) ∘ fun fr =>
        ((softLimit a.2 (fragBatches bs (keepOpt filt) fr) 0).flatten, (fragBatches bs (keepOpt filt) fr).flatten))
        = fun fr => (softLimit a.2 (fragBatches bs (keepOpt filt) fr) 0).flatten := rfl
    have hR : ((fun (x : List (Nat × Nat) × List (Nat × Nat)) => x.2) ∘ fun fr =>
        ((softLimit a.2 (fragBatches bs (keepOpt filt) fr) 0).flatten, (fragBatches bs (keepOpt filt) fr).flatten))
        = fun fr => (fragBatches bs (keepOpt filt) fr).flatten := rfl
    rw [hL, hR] at htr
    rw [htr, flatten_planned bs hbs, hp.1, den_beforeEntries cell before frags 0 hwf]
    rfl

end LanceModel.C16
