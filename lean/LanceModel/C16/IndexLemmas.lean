import LanceModel.C16.ReadLemmas
/-
`plan_scan` with an EXACT index result and an after-filter range: the skip/take push-down across fragments
(`apply_index_to_fragment` + `apply_skip_take_to_ranges`, the `to_take == 0` break) — correct when no refine filter remains.
-/
namespace LanceModel.C16
open LanceModel.Query

theorem expand_units (l : List Nat) : expand (l.map fun o => (o, o + 1)) = l := by
  induction l with
  | nil => rfl
  | cons x l ih =>
    rw [List.map_cons, expand_cons, ih]
    have : x + 1 - x = 1 := by omega
    simp [this]

theorem expand_maskRanges (rs : List Rg) (m : Nat → Bool) : expand (maskRanges rs m) = (expand rs).filter m :=
  expand_units _

/-- the index-matched ranges of a fragment -/
def matched (m : Frag → Nat → Bool) (f : Frag) : List Rg := maskRanges (fullFragRange f.physical f.del) (m f)

/-- `fragments_to_read` when nothing is pushed down: every fragment with its matched ranges -/
def allMatched (m : Frag → Nat → Bool) (fs : List Frag) : List (Frag × List Rg) := fs.map fun f => (f, matched m f)

/-- `scan_push_down_fragments_to_read` and whether the loop broke (`to_take == 0`) -/
def pushedEntries (m : Frag → Nat → Bool) : List Frag → Nat → Nat → List (Frag × List Rg) × Bool
  | [], _, _ => ([], false)
  | f :: fs, skip, take =>
    if (applySkipTake (matched m f) skip take).2.2 = 0 then ([(f, (applySkipTake (matched m f) skip take).1)], true)
    else ((f, (applySkipTake (matched m f) skip take).1)
            :: (pushedEntries m fs (applySkipTake (matched m f) skip take).2.1 (applySkipTake (matched m f) skip take).2.2).1,
          (pushedEntries m fs (applySkipTake (matched m f) skip take).2.1 (applySkipTake (matched m f) skip take).2.2).2)

/-- the loop of `plan_scan` with an exact index result and no before-filter range -/
theorem planLoop_index (m : Frag → Nat → Bool) (fs : List Frag) (st : PlanSt) :
    ((pushedEntries m fs st.skip st.take).2 = true →
      (planLoop none (some m) fs st).2 = true
      ∧ (planLoop none (some m) fs st).1.full = st.pushed ++ idEntries (pushedEntries m fs st.skip st.take).1)
    ∧ ((pushedEntries m fs st.skip st.take).2 = false →
      (planLoop none (some m) fs st).2 = false
      ∧ (planLoop none (some m) fs st).1.full = st.full ++ idEntries (allMatched m fs)) := by
  induction fs generalizing st with
  | nil => simp [planLoop, pushedEntries, idEntries, allMatched]
  | cons f fs ih =>
    by_cases h0 : (applySkipTake (matched m f) st.skip st.take).2.2 = 0
    · have hm : (applySkipTake (maskRanges (fullFragRange f.physical f.del) (m f)) st.skip st.take).2.2 = 0 := h0
      simp only [planLoop, applyIndex, pushedEntries, h0, hm, ↓reduceIte, idEntries, List.map_cons, List.map_nil]
      simp [matched]
    · have hm : ¬ (applySkipTake (maskRanges (fullFragRange f.physical f.del) (m f)) st.skip st.take).2.2 = 0 := h0
      have := ih { st with
        full := st.full ++ [(f.id, maskRanges (fullFragRange f.physical f.del) (m f))]
        pushed := st.pushed ++ [(f.id, (applySkipTake (maskRanges (fullFragRange f.physical f.del) (m f)) st.skip st.take).1)]
        skip := (applySkipTake (maskRanges (fullFragRange f.physical f.del) (m f)) st.skip st.take).2.1
        take := (applySkipTake (maskRanges (fullFragRange f.physical f.del) (m f)) st.skip st.take).2.2 }
      simp only [planLoop, applyIndex, pushedEntries, h0, hm, ↓reduceIte, idEntries, List.map_cons, allMatched] at this ⊢
      simp only [matched] at this ⊢
      constructor
      · intro hb
        have h1 := this.1 hb
        refine ⟨h1.1, ?_⟩
        rw [h1.2]; simp
      · intro hb
        have h1 := this.2 hb
        refine ⟨h1.1, ?_⟩
        rw [h1.2]; simp

theorem den_allMatched_cons {β : Type} (c : Frag → Nat → β) (m : Frag → Nat → Bool) (f : Frag) (fs : List Frag) :
    den c (allMatched m (f :: fs)) = (expand (matched m f)).map (c f) ++ den c (allMatched m fs) := by
  simp [allMatched, den]

/-- when the loop breaks, the pushed-down ranges denote exactly the window `skip .. skip + take` of all matched rows -/
theorem den_pushedEntries {β : Type} (c : Frag → Nat → β) (m : Frag → Nat → Bool) (fs : List Frag) (skip take : Nat)
    (hb : (pushedEntries m fs skip take).2 = true) :
    den c (pushedEntries m fs skip take).1 = window skip take (den c (allMatched m fs)) := by
  induction fs generalizing skip take with
  | nil => simp [pushedEntries] at hb
  | cons f fs ih =>
    have hs := applySkipTake_spec (matched m f) skip take
    rw [den_allMatched_cons, window_append]
    have hlen : ((expand (matched m f)).map (c f)).length = total (matched m f) := by simp [length_expand]
    have hw : window skip take ((expand (matched m f)).map (c f))
        = (expand (applySkipTake (matched m f) skip take).1).map (c f) := by
      rw [hs.1]; simp [window, List.map_take, List.map_drop]
    by_cases h0 : (applySkipTake (matched m f) skip take).2.2 = 0
    · simp only [pushedEntries, h0, ↓reduceIte]
      rw [den_cons, hw, hlen]
      have : take - (total (matched m f) - skip) = 0 := by rw [← hs.2.1]; exact h0
      simp [den, window, this]
    · simp only [pushedEntries, h0, ↓reduceIte] at hb ⊢
      rw [den_cons, hw, hlen, ih _ _ hb]
      have ht : take ≠ 0 := by
        intro h; apply h0; rw [hs.2.1]; omega
      rw [hs.2.1, hs.2.2 ht]

theorem pushedEntries_sublist (m : Frag → Nat → Bool) (fs : List Frag) (skip take : Nat) :
    ((pushedEntries m fs skip take).1.map (·.1)).Sublist fs := by
  induction fs generalizing skip take with
  | nil => simp [pushedEntries]
  | cons f fs ih =>
    by_cases h0 : (applySkipTake (matched m f) skip take).2.2 = 0
    · simp only [pushedEntries, h0, ↓reduceIte, List.map_cons, List.map_nil]
      exact (List.nil_sublist fs).cons_cons f
    · simp only [pushedEntries, h0, ↓reduceIte, List.map_cons]
      exact (ih _ _).cons_cons f

theorem allMatched_sublist (m : Frag → Nat → Bool) (fs : List Frag) : ((allMatched m fs).map (·.1)).Sublist fs := by
  have h : (allMatched m fs).map (·.1) = fs := by
    induction fs with
    | nil => rfl
    | cons f fs ih => simp only [allMatched, List.map_cons] at ih ⊢; rw [ih]
  rw [h]
  exact List.Sublist.refl _

/-- all matched rows of the table = the live cells on which the index mask holds -/
theorem den_allMatched {β : Type} (c : Frag → Nat → β) (m : Frag → Nat → Bool) (fs : List Frag) (hwf : ∀ f ∈ fs, f.wf) :
    den c (allMatched m fs) = fs.flatMap fun f => (f.liveOffsets.filter (m f)).map (c f) := by
  induction fs with
  | nil => rfl
  | cons f fs ih =>
    rw [den_allMatched_cons, ih (fun g hg => hwf g (List.mem_cons_of_mem _ hg)), List.flatMap_cons]
    congr 1
    rw [matched, expand_maskRanges, expand_full f (hwf f (List.mem_cons_self ..))]

/-- soft limit + hard range over any plan: the window `a` of the filtered cells the plan denotes -/
theorem after_of_plan (P : List (Frag × List Rg)) (bs : Nat) (hbs : 1 ≤ bs) (keep : Row → Bool) (a : Rg) :
    (hardRange a.1 a.2 (nonEmptyBatches ((P.map fun fr => softLimit a.2 (fragBatches bs keep fr) 0).flatten)) 0).flatten
      = window a.1 (a.2 - a.1) (((den cell P).filter fun x => keep x.2.2).map addrOf) := by
  unfold nonEmptyBatches
  rw [hardRange_flatten, flatten_filter_nonempty, flatten_flatten_map]
  have e1 : a.1 - 0 = a.1 := by omega
  have e2 : a.2 - max a.1 0 = a.2 - a.1 := by omega
  rw [e1, e2, window_eq_drop_take, window_eq_drop_take]
  congr 1
  have htr := take_flatten_trunc a.2
    (P.map fun fr => ((softLimit a.2 (fragBatches bs keep fr) 0).flatten, (fragBatches bs keep fr).flatten))
    (by
      intro p hp'
      obtain ⟨fr, _, rfl⟩ := List.mem_map.mp hp'
      have := softLimit_trunc a.2 (fragBatches bs keep fr) 0
      simpa using this)
  simp only [List.map_map] at htr
  have hL : ((fun (x : List (Nat × Nat) × List (Nat × Nat)) => x.1) ∘ fun fr =>
      ((softLimit a.2 (fragBatches bs keep fr) 0).flatten, (fragBatches bs keep fr).flatten))
      = fun fr => (softLimit a.2 (fragBatches bs keep fr) 0).flatten := rfl
  have hR : ((fun (x : List (Nat × Nat) × List (Nat × Nat)) => x.2) ∘ fun fr =>
      ((softLimit a.2 (fragBatches bs keep fr) 0).flatten, (fragBatches bs keep fr).flatten))
      = fun fr => (fragBatches bs keep fr).flatten := rfl
  rw [hL, hR] at htr
  rw [htr, flatten_planned bs hbs]

/-- the exact index mask of a filter atom -/
def atomMask (atom : Expr) : Frag → Nat → Bool := fun f o => isTrue atom (f.rowAt o)

theorem readSpec_index (frags : List Frag) (hwf : ∀ f ∈ frags, f.wf) (atom : Expr) :
    ((den cell (allMatched (atomMask atom) frags)).filter fun x => keepOpt none x.2.2).map addrOf
      = readSpec frags none (some atom) := by
  rw [den_allMatched cell _ frags hwf, List.filter_eq_self.mpr (by intros; rfl)]
  simp only [readSpec, beforeWindow, liveWith, List.filter_flatMap, List.filter_map]
  rfl

/-- INDEXED LIMIT PUSH-DOWN, the sound part: when the exact index answers the WHOLE filter (no refine filter), the
    skip/take push-down across fragments — or, when the matches run out first, soft limit and hard range — return exactly
    the rows `a.start .. a.end` of the matching rows, for every fragment layout, deletion vector, batch size and range -/
theorem filteredRead_index_norefine (frags : List Frag) (hwf : ∀ f ∈ frags, f.wf) (hnd : (frags.map (·.id)).Nodup)
    (bs : Nat) (hbs : 1 ≤ bs) (a : Rg) (atom : Expr) :
    (filteredRead frags bs none (some a) { full := some atom, index := some { atom := atom, refine := none } }).flatten
      = window a.1 (a.2 - a.1) (readSpec frags none (some atom)) := by
  have hm : readMask { full := some atom, index := some { atom := atom, refine := none } } = some (atomMask atom) := rfl
  have hk : readKeep { full := some atom, index := some { atom := atom, refine := none } } = keepOpt none := rfl
  have hl := planLoop_index (atomMask atom) frags (planInit (some a))
  have hskip : (planInit (some a)).skip = a.1 := rfl
  have htake : (planInit (some a)).take = a.2 - a.1 := rfl
  have hfull : (planInit (some a)).full = [] := rfl
  have hpushed : (planInit (some a)).pushed = [] := rfl
  rw [hskip, htake, hfull, hpushed] at hl
  unfold filteredRead
  rw [hm, hk]
  cases hb : (pushedEntries (atomMask atom) frags a.1 (a.2 - a.1)).2 with
  | true =>
    obtain ⟨h2, h1⟩ := hl.1 hb
    have hplan2 : (planScan frags none (some a) (some (atomMask atom))).2 = true := h2
    have hplan1 : (planScan frags none (some a) (some (atomMask atom))).1
        = frags.filterMap (pick (idEntries (pushedEntries (atomMask atom) frags a.1 (a.2 - a.1)).1)) := by
      unfold planScan; simp only; rw [h1, List.nil_append]
    rw [hplan2, hplan1]
    simp only [if_true]
    unfold nonEmptyBatches
    rw [flatten_filter_nonempty, flatten_flatten_map, flatten_planned bs hbs,
      den_lookup cell frags _ (pushedEntries_sublist _ frags _ _) hnd, den_pushedEntries cell _ frags _ _ hb,
      ← readSpec_index frags hwf atom]
    have hkeep : (fun (x : Nat × Nat × Row) => keepOpt none x.2.2) = fun _ => true := rfl
    rw [hkeep, List.filter_eq_self.mpr (by intros; rfl), List.filter_eq_self.mpr (by intros; rfl)]
    simp only [window, List.map_take, List.map_drop]
  | false =>
    obtain ⟨h2, h1⟩ := hl.2 hb
    have hplan2 : (planScan frags none (some a) (some (atomMask atom))).2 = false := h2
    have hplan1 : (planScan frags none (some a) (some (atomMask atom))).1
        = frags.filterMap (pick (idEntries (allMatched (atomMask atom) frags))) := by
      unfold planScan; simp only; rw [h1, List.nil_append]
    rw [hplan2, hplan1]
    simp only [Bool.false_eq_true, if_false]
    rw [after_of_plan _ bs hbs, den_lookup cell frags _ (allMatched_sublist _ frags) hnd, readSpec_index frags hwf atom]

end LanceModel.C16
