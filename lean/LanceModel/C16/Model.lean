import LanceModel.Query.Eval
/-
C16 model — scanner results equal a reference query and do not depend on execution knobs.

Two layers:

* the REFERENCE query (`scan`): `project (limitOffset (orderBy (filter eval3 rows)))` over the live rows of the table —
  what SQL says the answer is; `countRows`;
* the EXECUTION of `FilteredReadExec` (rust/lance/src/io/exec/filtered_read.rs), function by function: per-fragment valid
  ranges from the deletion vector (`DvToValidRanges`, `full_frag_range`), the before-filter range arithmetic
  (`calculate_fetch`, `trim_ranges`), the after-filter range arithmetic with an exact index result
  (`trim_ranges_by_offset`, `apply_skip_take_to_ranges`, `apply_index_to_fragment`), the fragment loop of `plan_scan`,
  reading in batches of `batch_size` with the per-batch filter (`read_fragment`, `wrap_with_filter`), the per-fragment soft
  limit (`apply_soft_limit`) and the global hard range (`apply_hard_range`);
* literal coercion `safe_coerce_scalar` (rust/lance-datafusion/src/expr.rs) on the integer types, and `resolve_expr`
  (rust/lance-datafusion/src/logical_expr.rs), which decides where a literal that does not fit is an error.

Import-free apart from the query kit (core only), so the driver links natively.
-/
namespace LanceModel.C16
open LanceModel.Query

abbrev Row := Query.Row

/-- a half-open range of row offsets `start..end` -/
abbrev Rg := Nat × Nat

def Rg.len (r : Rg) : Nat := r.2 - r.1

/-- the offsets a list of ranges denotes, in order -/
def expand (rs : List Rg) : List Nat := rs.flatMap fun r => List.range' r.1 (r.2 - r.1)

def total (rs : List Rg) : Nat := (rs.map fun r => r.2 - r.1).sum

/-- a data fragment: id, physical rows, deleted offsets (sorted, as `DeletionVector::to_sorted_iter` yields them) -/
structure Frag where
  id : Nat
  rows : List Row
  del : List Nat
  deriving Repr

def Frag.physical (f : Frag) : Nat := f.rows.length

/-- `FileFragment::count_rows(None)`: physical rows minus the number of deletions -/
def Frag.logical (f : Frag) : Nat := f.rows.length - f.del.length

/-! ### valid ranges of a fragment -/

/-- `DvToValidRanges::next`, the `for` loop over the sorted deleted offsets and the tail after it.  `pos` is
    `self.position`.  The entry test `position >= num_rows` of `next()` is the `if` after an emitted range. -/
def dvLoop (n : Nat) : List Nat → Nat → List Rg
  | [], pos => if pos = n then [] else [(pos, n)]
  | d :: ds, pos =>
    if d = pos then dvLoop n ds (pos + 1)
    else (pos, d) :: (if d + 1 ≥ n then [] else dvLoop n ds (d + 1))

/-- `DvToValidRanges::new(deleted, num_rows).collect()` -/
def dvRanges (n : Nat) (del : List Nat) : List Rg := if 0 ≥ n then [] else dvLoop n del 0

/-- `FilteredReadStream::full_frag_range`: no deletion vector → the whole fragment -/
def fullFragRange (n : Nat) (del : List Nat) : List Rg :=
  match del with
  | [] => [(0, n)]
  | _ => dvRanges n del

/-! ### before-filter range -/

/-- `calculate_fetch(position, bounds)` → `(to_skip, to_take)` (saturating subtractions) -/
def calculateFetch (pos bounds : Rg) : Nat × Nat :=
  (bounds.1 - pos.1, min bounds.2 pos.2 - max pos.1 bounds.1)

/-- the loop of `trim_ranges` -/
def trimLoop : List Rg → Nat → Nat → List Rg
  | [], _, _ => []
  | r :: rs, skip, take =>
    if skip ≥ r.2 - r.1 then trimLoop rs (skip - (r.2 - r.1)) take
    else
      (if min (r.2 - r.1 - skip) take > 0 then [(r.1 + skip, r.1 + skip + min (r.2 - r.1 - skip) take)] else [])
        ++ (if take - min (r.2 - r.1 - skip) take = 0 then [] else trimLoop rs 0 (take - min (r.2 - r.1 - skip) take))

/-- `trim_ranges(physical_ranges, logical_position, bounds)` -/
def trimRanges (ranges : List Rg) (pos bounds : Rg) : List Rg :=
  if (calculateFetch pos bounds).1 = 0 ∧ (calculateFetch pos bounds).2 = pos.2 - pos.1 then ranges
  else trimLoop ranges (calculateFetch pos bounds).1 (calculateFetch pos bounds).2

/-! ### after-filter range with an exact index result -/

/-- `trim_ranges_by_offset(physical_ranges, to_skip, to_take)` -/
def trimByOffset : List Rg → Nat → Nat → List Rg
  | [], _, _ => []
  | r :: rs, skip, take =>
    if take = 0 then []
    else if r.2 - r.1 ≤ skip then trimByOffset rs (skip - (r.2 - r.1)) take
    else if skip = 0 ∧ take ≥ r.2 - r.1 then r :: trimByOffset rs 0 (take - (r.2 - r.1))
    else (r.1 + skip, r.1 + skip + min (r.2 - r.1 - skip) take)
          :: trimByOffset rs 0 (take - min (r.2 - r.1 - skip) take)

/-- `apply_skip_take_to_ranges(to_read, to_skip, to_take)` → `(to_read', to_skip', to_take')` -/
def applySkipTake (rs : List Rg) (skip take : Nat) : List Rg × Nat × Nat :=
  if take = 0 then ([], 0, take)
  else if skip ≥ total rs then ([], skip - total rs, take)
  else (trimByOffset rs skip take, 0, take - total (trimByOffset rs skip take))

/-- `mask_to_offset_ranges` followed by `intersect_ranges(to_read, valid)`, by their specification: the to-read offsets the
    exact index mask allows, as unit ranges (only the denoted offsets are observable).  `m off` = the mask allows offset. -/
def maskRanges (toRead : List Rg) (m : Nat → Bool) : List Rg :=
  ((expand toRead).filter m).map fun o => (o, o + 1)

/-! ### `plan_scan` -/

/-- `u64::MAX`: `to_take` when there is no after-filter range -/
def u64Max : Nat := 18446744073709551615

/-- the mutable state of the fragment loop of `plan_scan` -/
structure PlanSt where
  off : Nat
  skip : Nat
  take : Nat
  /-- `fragments_to_read` (insertion order) -/
  full : List (Nat × List Rg)
  /-- `scan_push_down_fragments_to_read` -/
  pushed : List (Nat × List Rg)

/-- `apply_index_to_fragment`: `mask = none` — no index (or fragment not covered); `some m` — exact index result -/
def applyIndex (mask : Option (Frag → Nat → Bool)) (f : Frag) (toRead : List Rg) (st : PlanSt) : PlanSt :=
  match mask with
  | none => { st with full := st.full ++ [(f.id, toRead)] }
  | some m =>
    { st with
      full := st.full ++ [(f.id, maskRanges toRead (m f))]
      pushed := st.pushed ++ [(f.id, (applySkipTake (maskRanges toRead (m f)) st.skip st.take).1)]
      skip := (applySkipTake (maskRanges toRead (m f)) st.skip st.take).2.1
      take := (applySkipTake (maskRanges toRead (m f)) st.skip st.take).2.2 }

/-- the fragment loop of `plan_scan`; the result's flag is `scan_planned_with_limit_pushed_down` -/
def planLoop (before : Option Rg) (mask : Option (Frag → Nat → Bool)) : List Frag → PlanSt → PlanSt × Bool
  | [], st => (st, false)
  | f :: fs, st =>
    match before with
    | none =>
      if (applyIndex mask f (fullFragRange f.physical f.del) st).take = 0 then
        ({ applyIndex mask f (fullFragRange f.physical f.del) st with
            full := (applyIndex mask f (fullFragRange f.physical f.del) st).pushed }, true)
      else planLoop before mask fs (applyIndex mask f (fullFragRange f.physical f.del) st)
    | some b =>
      if st.off ≥ b.2 then (st, false)
      else if (trimRanges (fullFragRange f.physical f.del) (st.off, st.off + f.logical) b).isEmpty then
        planLoop before mask fs { st with off := st.off + f.logical }
      else if (applyIndex mask f (trimRanges (fullFragRange f.physical f.del) (st.off, st.off + f.logical) b)
                { st with off := st.off + f.logical }).take = 0 then
        ({ applyIndex mask f (trimRanges (fullFragRange f.physical f.del) (st.off, st.off + f.logical) b)
              { st with off := st.off + f.logical } with
            full := (applyIndex mask f (trimRanges (fullFragRange f.physical f.del) (st.off, st.off + f.logical) b)
              { st with off := st.off + f.logical }).pushed }, true)
      else planLoop before mask fs
        (applyIndex mask f (trimRanges (fullFragRange f.physical f.del) (st.off, st.off + f.logical) b)
          { st with off := st.off + f.logical })

def planInit (after : Option Rg) : PlanSt :=
  { off := 0
    skip := match after with | some a => a.1 | none => 0
    take := match after with | some a => a.2 - a.1 | none => u64Max
    full := [], pushed := [] }

/-- `plan_scan`'s second loop, per fragment: the planned ranges of the fragment, unless there are none -/
def pick (M : List (Nat × List Rg)) (g : Frag) : Option (Frag × List Rg) :=
  match M.lookup g.id with
  | some rs => if rs.isEmpty then none else some (g, rs)
  | none => none

/-- `plan_scan`: the ranges to read per fragment (fragments in dataset order, empty ones dropped) and the pushed-down flag -/
def planScan (frags : List Frag) (before after : Option Rg) (mask : Option (Frag → Nat → Bool)) :
    List (Frag × List Rg) × Bool :=
  (frags.filterMap (pick (planLoop before mask frags (planInit after)).1.full),
   (planLoop before mask frags (planInit after)).2)

/-! ### reading a fragment in batches -/

/-- split into chunks of `n` (the last may be shorter); `fuel` = length of the list is enough -/
def chunkF {α : Type} (n : Nat) : Nat → List α → List (List α)
  | 0, _ => []
  | fuel + 1, l => if l.isEmpty then [] else l.take n :: chunkF n fuel (l.drop n)

def chunk {α : Type} (n : Nat) (l : List α) : List (List α) := chunkF n l.length l

/-- row at an offset of a fragment -/
def Frag.rowAt (f : Frag) (o : Nat) : Row := (f.rows[o]?).getD []

/-- `read_fragment` + `wrap_with_filter`: the batches (of offsets) one fragment read yields: the requested offsets in
    chunks of `batch_size`, each filtered by `keep` -/
def readFragment (bs : Nat) (keep : Row → Bool) (f : Frag) (ranges : List Rg) : List (List Nat) :=
  (chunk bs (expand ranges)).map fun b => b.filter fun o => keep (f.rowAt o)

/-- `apply_soft_limit(stream, limit)` with every batch finished before the next one is polled: batches are taken while
    the rows seen so far are fewer than `limit` -/
def softLimit {α : Type} (limit : Nat) : List (List α) → Nat → List (List α)
  | [], _ => []
  | b :: bs, seen => if seen < limit then b :: softLimit limit bs (seen + b.length) else []

/-- `apply_hard_range(stream, start..end)`; `seen` = `rows_seen` -/
def hardRange {α : Type} (s e : Nat) : List (List α) → Nat → List (List α)
  | [], _ => []
  | b :: bs, seen =>
    if seen > e then []
    else if b.isEmpty then hardRange s e bs seen
    else if seen + b.length ≤ s ∨ seen ≥ e then hardRange s e bs (seen + b.length)
    else if min (e - seen) b.length - (s - seen) = 0 then hardRange s e bs (seen + b.length)
    else (b.drop (s - seen)).take (min (e - seen) b.length - (s - seen)) :: hardRange s e bs (seen + b.length)

/-- an exact index answer for `atom` with the rest of the filter (`refine`) still to be applied -/
structure IndexUse where
  atom : Expr
  refine : Option Expr

def keepOpt (e : Option Expr) (r : Row) : Bool :=
  match e with
  | none => true
  | some e => isTrue e r

/-- the filter plan of a read: the full filter and, when a scalar index answers part of it exactly, that part -/
structure ReadPlan where
  full : Option Expr
  index : Option IndexUse

/-- the exact index mask of a read plan: the offsets on which the indexed part of the filter is TRUE -/
def readMask (p : ReadPlan) : Option (Frag → Nat → Bool) :=
  p.index.map fun ix => fun f o => isTrue ix.atom (f.rowAt o)

/-- the filter applied to the batches: the refine filter where an exact index result covers the fragment, else the full one -/
def readKeep (p : ReadPlan) : Row → Bool :=
  match p.index with
  | some ix => keepOpt ix.refine
  | none => keepOpt p.full

/-- the batches of one planned fragment read, as (fragment id, offset) pairs -/
def fragBatches (bs : Nat) (keep : Row → Bool) (fr : Frag × List Rg) : List (List (Nat × Nat)) :=
  (readFragment bs keep fr.1 fr.2).map fun b => b.map fun o => (fr.1.id, o)

def nonEmptyBatches {α : Type} (L : List (List α)) : List (List α) := L.filter fun b => !b.isEmpty

/-- `FilteredReadStream::try_new` + `get_stream`: the output batches, as (fragment id, offset) pairs.  When the limit was
    pushed into the planned ranges no soft limit / hard range is applied (`scan_range_after_filter = None`). -/
def filteredRead (frags : List Frag) (bs : Nat) (before after : Option Rg) (p : ReadPlan) : List (List (Nat × Nat)) :=
  if (planScan frags before after (readMask p)).2 then
    nonEmptyBatches (((planScan frags before after (readMask p)).1.map (fragBatches bs (readKeep p))).flatten)
  else
    match after with
    | none => nonEmptyBatches (((planScan frags before after (readMask p)).1.map (fragBatches bs (readKeep p))).flatten)
    | some a =>
      hardRange a.1 a.2
        (nonEmptyBatches (((planScan frags before after (readMask p)).1.map fun fr =>
          softLimit a.2 (fragBatches bs (readKeep p) fr) 0).flatten)) 0

/-! ### the reference query -/

def Frag.liveOffsets (f : Frag) : List Nat := (List.range f.rows.length).filter fun o => !f.del.contains o

/-- the live rows of a fragment with their offsets -/
def Frag.live (f : Frag) : List Row := f.liveOffsets.map f.rowAt

def liveRows (t : List Frag) : List Row := t.flatMap Frag.live

/-- live (fragment id, offset) pairs in table order -/
def liveAddrs (t : List Frag) : List (Nat × Nat) := t.flatMap fun f => f.liveOffsets.map fun o => (f.id, o)

def insertBy {α : Type} (le : α → α → Bool) (x : α) : List α → List α
  | [] => [x]
  | y :: t => if le x y then x :: y :: t else y :: insertBy le x t

/-- stable insertion sort -/
def sortBy {α : Type} (le : α → α → Bool) (l : List α) : List α := l.foldr (insertBy le) []

/-- position of a sort key: NULLs first or last, values ascending or descending -/
def keyRank (asc nullsFirst : Bool) : Cell → Nat × Int
  | none => (if nullsFirst then 0 else 2, 0)
  | some v => (1, if asc then v else -v)

def rankLe (a b : Nat × Int) : Bool := decide (a.1 < b.1) || (a.1 == b.1 && decide (a.2 ≤ b.2))

structure Order where
  col : Nat
  asc : Bool
  nullsFirst : Bool

def Order.le (o : Order) (a b : Row) : Bool :=
  rankLe (keyRank o.asc o.nullsFirst (cellAt a o.col)) (keyRank o.asc o.nullsFirst (cellAt b o.col))

def orderBy (o : Option Order) (rows : List Row) : List Row :=
  match o with
  | none => rows
  | some o => sortBy o.le rows

def limitOffset {α : Type} (l o : Option Nat) (rows : List α) : List α :=
  match l with
  | none => rows.drop (o.getD 0)
  | some l => (rows.drop (o.getD 0)).take l

def project (p : Option (List Nat)) (r : Row) : Row :=
  match p with
  | none => r
  | some cols => cols.map (cellAt r)

structure Query where
  proj : Option (List Nat)
  limit : Option Nat
  offset : Option Nat
  ord : Option Order
  filt : Option Expr

/-- the reference answer: `project (limitOffset (orderBy (filter rows)))` -/
def scan (t : List Frag) (q : Query) : List Row :=
  (limitOffset q.limit q.offset (orderBy q.ord ((liveRows t).filter (keepOpt q.filt)))).map (project q.proj)

/-- `Scanner::create_plan`, stage 4 (and `get_scan_range`): with neither filter nor ordering the window is pushed into the
    read as a before-filter range; otherwise a limit node is added — but only `if limit.unwrap_or(0) > 0 || offset.is_some()`,
    so `LIMIT 0` without an offset adds none -/
def limitStage {α : Type} (pushed : Bool) (l o : Option Nat) (rows : List α) : List α :=
  if pushed then limitOffset l o rows
  else if decide (l.getD 0 > 0) || o.isSome then limitOffset l o rows
  else rows

/-- what `Scanner::try_into_batch` returns: the reference pipeline with `limitStage` for the window.  The window is pushed
    into the read only on 2.x storage (`filtered_read`: `limit_pushed_down = scan_range.is_some()`; the legacy path always
    answers `limit_pushed_down: false`). -/
def scanImpl (legacy : Bool) (t : List Frag) (q : Query) : List Row :=
  (limitStage (!legacy && q.filt.isNone && q.ord.isNone) q.limit q.offset
    (orderBy q.ord ((liveRows t).filter (keepOpt q.filt)))).map (project q.proj)

/-- `count_rows(filter)` -/
def countRows (t : List Frag) (f : Option Expr) : Nat := ((liveRows t).filter (keepOpt f)).length

/-! ### table operations -/

/-- `Dataset::write(Create)` with `max_rows_per_file = f`: consecutive fragments of `f` rows, ids from 0 -/
def mkFrags (f : Nat) (rows : List Row) : List Frag :=
  (chunk f rows).zipIdx.map fun (c, i) => { id := i, rows := c, del := [] }

/-- `Dataset::delete(pred)`: the matching live rows join the deletion vector; a fragment left without rows is dropped -/
def deleteWhere (t : List Frag) (e : Expr) : List Frag :=
  (t.map fun f =>
    { f with del := (List.range f.rows.length).filter fun o => f.del.contains o || isTrue e (f.rowAt o) }).filter
    fun f => decide (f.del.length < f.rows.length)

/-! ### literal coercion -/

inductive Ty where
  | i8 | i16 | i32 | i64 | u8 | u16 | u32 | u64 | utf8 | bool
  deriving DecidableEq, Repr

/-- value range of an integer type, `none` for the others -/
def Ty.range : Ty → Option (Int × Int)
  | .i8 => some (-128, 127)
  | .i16 => some (-32768, 32767)
  | .i32 => some (-2147483648, 2147483647)
  | .i64 => some (-9223372036854775808, 9223372036854775807)
  | .u8 => some (0, 255)
  | .u16 => some (0, 65535)
  | .u32 => some (0, 4294967295)
  | .u64 => some (0, 18446744073709551615)
  | .utf8 => none
  | .bool => none

def Ty.holds (t : Ty) (v : Int) : Bool :=
  match t.range with
  | some (lo, hi) => decide (lo ≤ v) && decide (v ≤ hi)
  | none => false

/-- `safe_coerce_scalar(<from>(v), <to>)` for an integer source: the same value in the target type when it fits
    (`From` / `try_from`), `None` otherwise and for Utf8 / Boolean targets -/
def coerce (_from to : Ty) (v : Int) : Option Int := if to.holds v then some v else none

/-- `resolve_expr` over a one-column schema of type `ty` (column 0): literals compared with the column are coerced with
    `safe_coerce_scalar(Int64(v), ty)`; a failure is an invalid-input error.  AND / OR recurse, every other node — NOT in
    particular — is passed through untouched (DataFusion's own coercion then widens the column instead). -/
def resolveOk (ty : Ty) : Expr → Bool
  | .and a b | .or a b => resolveOk ty a && resolveOk ty b
  | .cmp _ _ (.lit v) => (coerce .i64 ty v).isSome
  | .between _ lo hi => (coerce .i64 ty lo).isSome && (coerce .i64 ty hi).isSome
  | .inList _ vs => vs.all fun v => match v with | some v => (coerce .i64 ty v).isSome | none => true
  | _ => true

/-- a typed one-column scan: error when a literal cannot be resolved, the matching cells otherwise -/
def typedScan (ty : Ty) (cells : List Cell) (e : Expr) : Option (List Cell) :=
  if resolveOk ty e then some (cells.filter fun c => isTrue e [c]) else none

end LanceModel.C16
