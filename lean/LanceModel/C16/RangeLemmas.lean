import LanceModel.C16.Model
/-
Range arithmetic of `FilteredReadExec`: what `trim_ranges`, `trim_ranges_by_offset`, `apply_skip_take_to_ranges` and
`DvToValidRanges` denote, stated on the offsets the ranges expand to.
-/
namespace LanceModel.C16

theorem take_range' (a n k : Nat) : List.take k (List.range' a n) = List.range' a (min k n) := by
  induction n generalizing a k with
  | zero => simp
  | succ n ih =>
    cases k with
    | zero => simp
    | succ k =>
      have : min (k + 1) (n + 1) = min k n + 1 := by omega
      rw [this, List.range'_succ, List.range'_succ, List.take_succ_cons, ih]

@[simp] theorem expand_nil : expand [] = [] := rfl

theorem expand_cons (r : Rg) (rs : List Rg) : expand (r :: rs) = List.range' r.1 (r.2 - r.1) ++ expand rs := by
  simp [expand]

theorem expand_append (a b : List Rg) : expand (a ++ b) = expand a ++ expand b := by
  simp [expand]

theorem expand_single (a b : Nat) : expand [(a, b)] = List.range' a (b - a) := by
  simp [expand]

theorem length_expand (rs : List Rg) : (expand rs).length = total rs := by
  induction rs with
  | nil => simp [total]
  | cons r rs ih => simp [expand_cons, total, List.length_append] at *; omega

/-- window of a list: skip `s`, then at most `t` -/
def window {α : Type} (s t : Nat) (l : List α) : List α := (l.drop s).take t

theorem window_append {α : Type} (s t : Nat) (a b : List α) :
    window s t (a ++ b) = window s t a ++ window (s - a.length) (t - (a.length - s)) b := by
  simp only [window, List.drop_append, List.take_append, List.length_drop]

/-- `trim_ranges`' loop keeps exactly the offsets `to_skip .. to_skip + to_take` of the offsets the ranges denote -/
theorem trimLoop_expand (rs : List Rg) (s t : Nat) : expand (trimLoop rs s t) = window s t (expand rs) := by
  induction rs generalizing s t with
  | nil => simp [trimLoop, window]
  | cons r rs ih =>
    rw [trimLoop, expand_cons, window_append]
    by_cases h : s ≥ r.2 - r.1
    · rw [if_pos h, ih]
      have h1 : window s t (List.range' r.1 (r.2 - r.1)) = [] := by
        simp [window, List.drop_of_length_le, h]
      simp only [h1, List.nil_append, List.length_range']
      congr 1
      omega
    · rw [if_neg h, expand_append]
      have h1 : window s t (List.range' r.1 (r.2 - r.1)) = List.range' (r.1 + s) (min (r.2 - r.1 - s) t) := by
        simp only [window, List.drop_range', take_range']
        congr 1 <;> omega
      rw [h1]
      congr 1
      · by_cases hz : min (r.2 - r.1 - s) t > 0
        · rw [if_pos hz, expand_single]; congr 1; omega
        · rw [if_neg hz]
          have : min (r.2 - r.1 - s) t = 0 := by omega
          simp [this]
      · simp only [List.length_range']
        by_cases hz : t - min (r.2 - r.1 - s) t = 0
        · rw [if_pos hz]
          have : t - (r.2 - r.1 - s) = 0 := by omega
          simp [window, this]
        · rw [if_neg hz, ih]
          have e1 : s - (r.2 - r.1) = 0 := by omega
          have e2 : t - min (r.2 - r.1 - s) t = t - (r.2 - r.1 - s) := by omega
          rw [e1, e2]

/-- `trim_ranges_by_offset` keeps exactly the offsets `to_skip .. to_skip + to_take` -/
theorem trimByOffset_expand (rs : List Rg) (s t : Nat) : expand (trimByOffset rs s t) = window s t (expand rs) := by
  induction rs generalizing s t with
  | nil => simp [trimByOffset, window]
  | cons r rs ih =>
    rw [trimByOffset]
    by_cases h0 : t = 0
    · simp [h0, window]
    · rw [if_neg h0, expand_cons, window_append]
      by_cases h1 : r.2 - r.1 ≤ s
      · rw [if_pos h1, ih]
        have hw : window s t (List.range' r.1 (r.2 - r.1)) = [] := by
          simp [window, List.drop_of_length_le, h1]
        simp only [hw, List.nil_append, List.length_range']
        congr 1
        omega
      · rw [if_neg h1]
        have hw : window s t (List.range' r.1 (r.2 - r.1)) = List.range' (r.1 + s) (min (r.2 - r.1 - s) t) := by
          simp only [window, List.drop_range', take_range']
          congr 1 <;> omega
        rw [hw]
        simp only [List.length_range']
        by_cases h2 : s = 0 ∧ t ≥ r.2 - r.1
        · rw [if_pos h2, expand_cons, ih]
          obtain ⟨hs, ht⟩ := h2
          subst hs
          simp only [Nat.add_zero, Nat.sub_zero, Nat.zero_sub]
          rw [Nat.min_eq_left ht]
        · rw [if_neg h2, expand_cons, ih]
          have e1 : s - (r.2 - r.1) = 0 := by omega
          have e2 : t - min (r.2 - r.1 - s) t = t - (r.2 - r.1 - s) := by omega
          have e3 : r.1 + s + min (r.2 - r.1 - s) t - (r.1 + s) = min (r.2 - r.1 - s) t := by omega
          simp only [e1, e2, e3]

theorem total_trimByOffset (rs : List Rg) (s t : Nat) :
    total (trimByOffset rs s t) = min t (total rs - s) := by
  rw [← length_expand, trimByOffset_expand, ← length_expand]
  simp [window]

/-- what `apply_skip_take_to_ranges` returns: the window of the matched offsets, and the counters that remain -/
theorem applySkipTake_spec (rs : List Rg) (s t : Nat) :
    expand (applySkipTake rs s t).1 = window s t (expand rs)
    ∧ (applySkipTake rs s t).2.2 = t - (total rs - s)
    ∧ (t ≠ 0 → (applySkipTake rs s t).2.1 = s - total rs) := by
  unfold applySkipTake
  by_cases h0 : t = 0
  · simp [h0, window]
  · rw [if_neg h0]
    by_cases h1 : s ≥ total rs
    · rw [if_pos h1]
      refine ⟨?_, ?_, ?_⟩
      · simp [window, List.drop_of_length_le, length_expand, h1]
      · simp; omega
      · intro _; rfl
    · rw [if_neg h1]
      refine ⟨trimByOffset_expand rs s t, ?_, ?_⟩
      · simp only [total_trimByOffset]; omega
      · intro _; simp; omega

/-! ### deletion vector → valid ranges -/

/-- sorted strictly increasing, every element in `[lo, n)` -/
def sortedIn (lo n : Nat) : List Nat → Prop
  | [] => True
  | d :: ds => lo ≤ d ∧ d < n ∧ sortedIn (d + 1) n ds

theorem sortedIn_mono {lo lo' n : Nat} {ds : List Nat} (h : sortedIn lo n ds) (hle : lo' ≤ lo) : sortedIn lo' n ds := by
  cases ds with
  | nil => trivial
  | cons d ds => exact ⟨Nat.le_trans hle h.1, h.2.1, h.2.2⟩

theorem sortedIn_not_mem {lo n : Nat} {ds : List Nat} (h : sortedIn lo n ds) {x : Nat} (hx : x < lo) : ¬ x ∈ ds := by
  induction ds generalizing lo with
  | nil => simp
  | cons d ds ih =>
    intro hm
    rcases List.mem_cons.mp hm with rfl | hm
    · exact absurd h.1 (by omega)
    · exact ih h.2.2 (by have := h.1; omega) hm

theorem filter_range'_none (a m : Nat) (ds : List Nat) (h : ∀ x, a ≤ x → x < a + m → ¬ x ∈ ds) :
    (List.range' a m).filter (fun o => !ds.contains o) = List.range' a m := by
  apply List.filter_eq_self.mpr
  intro x hx
  have := List.mem_range'_1.mp hx
  simp [h x this.1 this.2]

/-- `DvToValidRanges`: for a sorted deletion vector inside the fragment, the valid ranges denote exactly the offsets that
    are not deleted -/
theorem dvLoop_expand (n : Nat) (ds : List Nat) (pos : Nat) (hp : pos ≤ n) (hs : sortedIn pos n ds) :
    expand (dvLoop n ds pos) = (List.range' pos (n - pos)).filter (fun o => !ds.contains o) := by
  induction ds generalizing pos with
  | nil =>
    rw [dvLoop]
    by_cases h : pos = n
    · simp [h]
    · rw [if_neg h, expand_single]
      exact (List.filter_eq_self.mpr (by intros; rfl)).symm
  | cons d ds ih =>
    obtain ⟨h1, h2, h3⟩ := hs
    rw [dvLoop]
    by_cases h : d = pos
    · subst h
      rw [if_pos rfl, ih (d + 1) (by omega) h3]
      have : n - d = (n - (d + 1)) + 1 := by omega
      rw [this, List.range'_succ, List.filter_cons]
      simp only [List.contains_cons, beq_self_eq_true, Bool.true_or, Bool.not_true, Bool.false_eq_true, if_false]
      apply List.filter_congr
      intro x hx
      have hx' := List.mem_range'_1.mp hx
      have : (x == d) = false := by simp; omega
      simp [this]
    · rw [if_neg h, expand_cons]
      -- split range' pos (n-pos) = range' pos (d-pos) ++ [d] ++ range' (d+1) (n-d-1)
      have hsplit : List.range' pos (n - pos) = List.range' pos (d - pos) ++ (d :: List.range' (d + 1) (n - (d + 1))) := by
        have e : n - pos = (d - pos) + ((n - (d + 1)) + 1) := by omega
        rw [e, ← List.range'_append, List.range'_succ]
        simp only [Nat.one_mul]
        have : pos + (d - pos) = d := by omega
        rw [this]
      rw [hsplit, List.filter_append, List.filter_cons]
      have hd : (!(d :: ds).contains d) = false := by simp
      rw [hd]
      simp only [Bool.false_eq_true, if_false]
      have hfirst : (List.range' pos (d - pos)).filter (fun o => !(d :: ds).contains o) = List.range' pos (d - pos) := by
        apply filter_range'_none
        intro x hx1 hx2
        have hxd : x < d := by omega
        intro hm
        rcases List.mem_cons.mp hm with rfl | hm
        · omega
        · exact sortedIn_not_mem h3 (by omega) hm
      rw [hfirst]
      congr 1
      have hrest : (List.range' (d + 1) (n - (d + 1))).filter (fun o => !(d :: ds).contains o)
          = (List.range' (d + 1) (n - (d + 1))).filter (fun o => !ds.contains o) := by
        apply List.filter_congr
        intro x hx
        have hx' := List.mem_range'_1.mp hx
        have : (x == d) = false := by simp; omega
        simp only [List.contains_cons, this, Bool.false_or]
      rw [hrest]
      by_cases hn : d + 1 ≥ n
      · rw [if_pos hn]
        have : n - (d + 1) = 0 := by omega
        simp [this]
      · rw [if_neg hn]
        exact ih (d + 1) (by omega) h3

theorem fullFragRange_expand (n : Nat) (ds : List Nat) (hs : sortedIn 0 n ds) :
    expand (fullFragRange n ds) = (List.range n).filter (fun o => !ds.contains o) := by
  cases ds with
  | nil =>
    simp only [fullFragRange, expand_single, List.range_eq_range', Nat.sub_zero]
    exact (List.filter_eq_self.mpr (by intros; rfl)).symm
  | cons d ds =>
    have hn : ¬ 0 ≥ n := by have := hs.2.1; omega
    simp only [fullFragRange, dvRanges, if_neg hn]
    rw [dvLoop_expand n (d :: ds) 0 (by omega) hs, List.range_eq_range']
    simp

end LanceModel.C16
