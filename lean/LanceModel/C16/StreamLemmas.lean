import LanceModel.C16.RangeLemmas
/-
Batches: chunking by `batch_size`, the per-batch filter, the per-fragment soft limit and the global hard range of
`FilteredReadExec` — all stated on the concatenation of the batches.
-/
namespace LanceModel.C16

/-- chunking loses nothing: the concatenation of the chunks is the list (any chunk size ≥ 1) -/
theorem chunkF_flatten {α : Type} (n : Nat) (hn : 1 ≤ n) (fuel : Nat) (l : List α) (h : l.length ≤ fuel) :
    (chunkF n fuel l).flatten = l := by
  induction fuel generalizing l with
  | zero =>
    have : l = [] := List.eq_nil_of_length_eq_zero (by omega)
    simp [chunkF, this]
  | succ fuel ih =>
    rw [chunkF]
    by_cases he : l.isEmpty
    · simp only [he, if_true, List.flatten_nil]
      exact (List.isEmpty_iff.mp he).symm
    · simp only [he, Bool.false_eq_true, if_false, List.flatten_cons]
      have hl : l.length ≠ 0 := by
        intro h0; exact he (List.isEmpty_iff.mpr (List.eq_nil_of_length_eq_zero h0))
      rw [ih (l.drop n) (by simp; omega), List.take_append_drop]

theorem chunk_flatten {α : Type} (n : Nat) (hn : 1 ≤ n) (l : List α) : (chunk n l).flatten = l :=
  chunkF_flatten n hn l.length l (Nat.le_refl _)

/-- every chunk has at most `n` elements -/
theorem chunkF_le {α : Type} (n fuel : Nat) (l : List α) : ∀ b ∈ chunkF n fuel l, b.length ≤ n := by
  induction fuel generalizing l with
  | zero => simp [chunkF]
  | succ fuel ih =>
    rw [chunkF]
    by_cases he : l.isEmpty
    · simp [he]
    · simp only [he, Bool.false_eq_true, if_false, List.mem_cons]
      intro b hb
      rcases hb with rfl | hb
      · simp; omega
      · exact ih _ b hb

/-- reading a fragment batch by batch and filtering every batch = filtering the requested offsets once -/
theorem readFragment_flatten (bs : Nat) (hbs : 1 ≤ bs) (keep : Row → Bool) (f : Frag) (ranges : List Rg) :
    (readFragment bs keep f ranges).flatten = (expand ranges).filter fun o => keep (f.rowAt o) := by
  unfold readFragment
  rw [← List.filter_flatten, chunk_flatten bs hbs]

theorem flatten_filter_nonempty {α : Type} (L : List (List α)) :
    (L.filter fun b => !b.isEmpty).flatten = L.flatten := by
  induction L with
  | nil => rfl
  | cons b L ih =>
    rw [List.filter_cons]
    cases b with
    | nil => simpa using ih
    | cons x xs => simp [ih]

/-! ### hard range -/

theorem take_min_length {α : Type} (t : Nat) (l : List α) : l.take (min t l.length) = l.take t := by
  by_cases h : t ≤ l.length
  · rw [Nat.min_eq_left h]
  · rw [Nat.min_eq_right (by omega), List.take_of_length_le (Nat.le_refl _), List.take_of_length_le (by omega)]

/-- `apply_hard_range(start..end)` lets through exactly the rows at stream positions `start .. end` -/
theorem hardRange_flatten {α : Type} (s e : Nat) (bs : List (List α)) (seen : Nat) :
    (hardRange s e bs seen).flatten = window (s - seen) (e - max s seen) bs.flatten := by
  induction bs generalizing seen with
  | nil => simp [hardRange, window]
  | cons b bs ih =>
    rw [hardRange, List.flatten_cons, window_append]
    by_cases h1 : seen > e
    · rw [if_pos h1]
      have : e - max s seen = 0 := by omega
      simp [window, this]
    · rw [if_neg h1]
      by_cases h2 : b.isEmpty
      · rw [if_pos h2, ih]
        have hb : b = [] := List.isEmpty_iff.mp h2
        subst hb
        simp [window]
      · rw [if_neg h2]
        by_cases h3 : seen + b.length ≤ s ∨ seen ≥ e
        · rw [if_pos h3, ih]
          rcases h3 with h3 | h3
          · have hw : window (s - seen) (e - max s seen) b = [] := by
              simp only [window]
              rw [List.drop_of_length_le (by omega)]
              simp
            rw [hw, List.nil_append]
            congr 1 <;> omega
          · have z1 : e - max s seen = 0 := by omega
            have z2 : e - max s (seen + b.length) = 0 := by omega
            simp [window, z1, z2]
        · rw [if_neg h3]
          obtain ⟨h3a, h3b⟩ := not_or.mp h3
          have hb : 0 < b.length := by
            cases b with
            | nil => simp at h2
            | cons x xs => simp
          by_cases h4 : min (e - seen) b.length - (s - seen) = 0
          · rw [if_pos h4, ih]
            have z1 : e - max s seen = 0 := by omega
            have z2 : e - max s (seen + b.length) = 0 := by omega
            simp [window, z1, z2]
          · rw [if_neg h4, List.flatten_cons, ih]
            congr 1
            · simp only [window]
              have hlen : (b.drop (s - seen)).length = b.length - (s - seen) := by simp
              have e1 : min (e - seen) b.length - (s - seen) = min (e - max s seen) (b.drop (s - seen)).length := by
                rw [hlen]; omega
              rw [e1, take_min_length]
            · congr 1 <;> omega

/-- with `start ≤ end`: drop `start`, of the first `end` rows -/
theorem window_eq_drop_take {α : Type} (s e : Nat) (l : List α) : window s (e - s) l = (l.take e).drop s := by
  simp only [window, List.drop_take]

/-! ### soft limit -/

/-- `l'` is an admissible truncation of `l` for a row budget `e`: all of it, or a prefix holding at least `e` rows -/
def truncOk {α : Type} (e : Nat) (l' l : List α) : Prop := l' = l ∨ (l' <+: l ∧ e ≤ l'.length)

theorem truncOk_mono {α : Type} {e e' : Nat} {l' l : List α} (h : truncOk e l' l) (hle : e' ≤ e) : truncOk e' l' l := by
  rcases h with h | ⟨hp, hl⟩
  · exact Or.inl h
  · exact Or.inr ⟨hp, Nat.le_trans hle hl⟩

/-- truncating every fragment's output to a prefix that already holds `e` rows does not change the first `e` rows of the
    concatenated stream — whatever the read-ahead lets through beyond the soft limit is invisible -/
theorem take_flatten_trunc {α : Type} (e : Nat) (ps : List (List α × List α))
    (h : ∀ p ∈ ps, truncOk e p.1 p.2) :
    ((ps.map (·.1)).flatten).take e = ((ps.map (·.2)).flatten).take e := by
  induction ps generalizing e with
  | nil => rfl
  | cons p ps ih =>
    simp only [List.map_cons, List.flatten_cons]
    rcases h p (List.mem_cons_self ..) with hyx | ⟨⟨t, ht⟩, hl⟩
    · rw [hyx, List.take_append, List.take_append]
      congr 1
      exact ih (e - p.2.length) (fun q hq => truncOk_mono (h q (List.mem_cons_of_mem _ hq)) (Nat.sub_le _ _))
    · rw [List.take_append_of_le_length hl, ← ht, List.append_assoc, List.take_append_of_le_length hl]

/-- the soft limit yields an admissible truncation of a fragment's batches -/
theorem softLimit_trunc {α : Type} (limit : Nat) (bs : List (List α)) (seen : Nat) :
    truncOk (limit - seen) (softLimit limit bs seen).flatten bs.flatten := by
  induction bs generalizing seen with
  | nil => exact Or.inl rfl
  | cons b bs ih =>
    rw [softLimit]
    by_cases h : seen < limit
    · rw [if_pos h, List.flatten_cons, List.flatten_cons]
      rcases ih (seen + b.length) with h1 | ⟨⟨t, ht⟩, hl⟩
      · exact Or.inl (by rw [h1])
      · refine Or.inr ⟨⟨t, by rw [List.append_assoc, ht]⟩, ?_⟩
        simp only [List.length_append]; omega
    · rw [if_neg h]
      refine Or.inr ⟨List.nil_prefix, ?_⟩
      simp; omega

end LanceModel.C16
