import LanceModel.C16.Model
/-
Reading only the columns a query needs: `read_fragment` widens the projection by the filter's columns
(`Planner::column_names_in_expr` + `union_columns`), evaluates the filter on that narrower batch by column name and drops
the extra columns afterwards (`project_by_schema`).  Evaluating on the narrow row gives the same three-valued answer.
-/
namespace LanceModel.C16
open LanceModel.Query

/-- position of column `c` in the list of columns read (its length when absent) -/
def posIn (c : Nat) : List Nat → Nat
  | [] => 0
  | d :: ds => if c = d then 0 else posIn c ds + 1

/-- the expression with every column replaced by its position among the columns read -/
def remap (cols : List Nat) : Expr → Expr
  | .tt => .tt
  | .ff => .ff
  | .cmp op c (.col d) => .cmp op (posIn c cols) (.col (posIn d cols))
  | .cmp op c (.lit v) => .cmp op (posIn c cols) (.lit v)
  | .isNull c => .isNull (posIn c cols)
  | .notNull c => .notNull (posIn c cols)
  | .inList c vs => .inList (posIn c cols) vs
  | .between c lo hi => .between (posIn c cols) lo hi
  | .not e => .not (remap cols e)
  | .and a b => .and (remap cols a) (remap cols b)
  | .or a b => .or (remap cols a) (remap cols b)

/-- every column the expression mentions is among `cols` -/
def colsIn (cols : List Nat) : Expr → Bool
  | .tt | .ff => true
  | .cmp _ c (.col d) => cols.contains c && cols.contains d
  | .cmp _ c (.lit _) => cols.contains c
  | .isNull c | .notNull c | .inList c _ | .between c _ _ => cols.contains c
  | .not e => colsIn cols e
  | .and a b | .or a b => colsIn cols a && colsIn cols b

theorem cellAt_narrow (r : Row) (cols : List Nat) (c : Nat) (h : cols.contains c = true) :
    cellAt (cols.map (cellAt r)) (posIn c cols) = cellAt r c := by
  induction cols with
  | nil => simp at h
  | cons d ds ih =>
    by_cases hcd : c = d
    · subst hcd
      simp [posIn, cellAt]
    · have hc : ds.contains c = true := by
        simp only [List.contains_cons, Bool.or_eq_true, beq_iff_eq] at h
        rcases h with h | h
        · exact absurd h hcd
        · exact h
      have := ih hc
      simp only [posIn, if_neg hcd, List.map_cons]
      simpa [cellAt] using this

/-- evaluating the re-indexed filter on the narrow row = evaluating the filter on the full row -/
theorem eval3_narrow (r : Row) (cols : List Nat) (e : Expr) (h : colsIn cols e = true) :
    eval3 (remap cols e) (cols.map (cellAt r)) = eval3 e r := by
  induction e with
  | tt => rfl
  | ff => rfl
  | cmp op c rhs =>
    cases rhs with
    | col d =>
      simp only [colsIn, Bool.and_eq_true] at h
      simp only [remap, eval3, Operand.value, cellAt_narrow r cols c h.1, cellAt_narrow r cols d h.2]
    | lit v =>
      simp only [colsIn] at h
      simp only [remap, eval3, Operand.value, cellAt_narrow r cols c h]
  | isNull c => simp only [colsIn] at h; simp only [remap, eval3, cellAt_narrow r cols c h]
  | notNull c => simp only [colsIn] at h; simp only [remap, eval3, cellAt_narrow r cols c h]
  | inList c vs => simp only [colsIn] at h; simp only [remap, eval3, cellAt_narrow r cols c h]
  | between c lo hi => simp only [colsIn] at h; simp only [remap, eval3, cellAt_narrow r cols c h]
  | not e ih => simp only [colsIn] at h; simp only [remap, eval3, ih h]
  | and a b iha ihb =>
    simp only [colsIn, Bool.and_eq_true] at h
    simp only [remap, eval3, iha h.1, ihb h.2]
  | or a b iha ihb =>
    simp only [colsIn, Bool.and_eq_true] at h
    simp only [remap, eval3, iha h.1, ihb h.2]

end LanceModel.C16
