import LanceModel.Util
import LanceModel.Table.Basic
import LanceModel.Query.Eval
import LanceModel.C16.Model
/-
C16 driver.  Op lines (grammar: top of harness/src/bin/c16.rs):

  table v=<legacy|2.0|2.1|d> f=<nat> k=<K> x=<-|u> <rows> | delete <expr> | index c<i>
  scan p=<*|i,j,..> l=<int|none> o=<int|none> ord=<none|c<i>,<a|d>,<f|l>> s=<seed> <nofilter|expr>
  fread bs=<nat> b=<s,e|none> a=<s,e|none> ix=<0|1> <nofilter|expr>
  coerce <from> <to> <int> | tscan <ty> <cells> <expr>
-/
namespace LanceModel.C16.Driver
open LanceModel.Util LanceModel.Query LanceModel.C16
open LanceModel.Table (parseRows showRows showBatches showFrags Spec)

structure Tab where
  frags : List Frag
  ints : Nat
  width : Nat
  legacy : Bool
  idx : Option Nat

abbrev St := Option Tab

def tokVal (key tok : String) : Option String :=
  if tok.startsWith (key ++ "=") then some (String.ofList (tok.toList.drop (key.length + 1))) else none

/-- `parse_i128` of the harness: optional `-`, 1..20 digits -/
def parseInt (s : String) : Option Int :=
  match s.toList with
  | '-' :: cs => if cs.length > 20 then none else (parseNatChars cs).map fun n => -(n : Int)
  | cs => if cs.length > 20 then none else (parseNatChars cs).map fun n => (n : Int)

def parseNatIn (s : String) (lo hi : Nat) : Option Nat :=
  match parseInt s with
  | some v => if (lo : Int) ≤ v ∧ v ≤ (hi : Int) then some v.toNat else none
  | none => none

def parseOptI (s : String) : Option (Option Int) :=
  if s = "none" then some none
  else match parseInt s with
    | some v => if v.natAbs > 1000000000 then none else some (some v)
    | none => none

def parseRange (s : String) : Option (Option Rg) :=
  if s = "none" then some none
  else match s.splitOn "," with
    | [a, b] =>
      match parseInt a, parseInt b with
      | some a, some b => if a < 0 ∨ b < a ∨ b > 1000000000 then none else some (some (a.toNat, b.toNat))
      | _, _ => none
    | _ => none

def parseFilter (toks : List String) : Option (Option Expr) :=
  if toks = ["nofilter"] then some none else (parseExprAll toks).map some

def distinctNats : List Nat → Bool
  | [] => true
  | a :: rest => !rest.contains a && distinctNats rest

def parseTy : String → Option Ty
  | "i8" => some .i8 | "i16" => some .i16 | "i32" => some .i32 | "i64" => some .i64
  | "u8" => some .u8 | "u16" => some .u16 | "u32" => some .u32 | "u64" => some .u64
  | "utf8" => some .utf8 | "bool" => some .bool
  | _ => none

def tyIsInt (t : Ty) : Bool := t.range.isSome

/-- largest column mentioned is below `w` -/
def filtBelow (w : Nat) : Option Expr → Bool
  | none => true
  | some e => e.colsBelow w

def fragLine (fs : List Frag) : String :=
  showFrags (fs.map fun f => (f.id, f.rows.length, f.del.length))

/-- lexicographic order of rows as Rust's `Vec<Option<i64>>::cmp` (NULL below every value) -/
def cellLt : Cell → Cell → Bool
  | none, some _ => true
  | some a, some b => decide (a < b)
  | _, _ => false

def rowLe : Row → Row → Bool
  | [], _ => true
  | _ :: _, [] => false
  | a :: as, b :: bs => if cellLt a b then true else if cellLt b a then false else rowLe as bs

def showKeys (ks : List Cell) : String := showRows (ks.map fun k => [k])

def showAddrBatches (bs : List (List (Nat × Nat))) : String :=
  showBatches (bs.map fun b => b.map fun a => [some (a.1 : Int), some (a.2 : Int)])

/-- the shapes the harness sends through the scalar index: `atom` / `and atom rest` -/
def idxAtom (c : Nat) : Expr → Bool
  | .cmp op a (.lit _) => a == c && op != .ne
  | .between a lo hi => a == c && decide (lo ≤ hi)
  | .isNull a => a == c
  | _ => false

def indexUse (c : Nat) : Expr → Option IndexUse
  | .and a b => if idxAtom c a && !b.mentions c then some { atom := a, refine := some b } else none
  | e => if idxAtom c e then some { atom := e, refine := none } else none

def doScan (t : Tab) (proj : Option (List Nat)) (l o : Option Int) (ord : Option Order) (filt : Option Expr) : String :=
  let colsOk := (match proj with | some p => p.all (· < t.width) | none => true)
    && (match ord with | some od => decide (od.col < t.ints) | none => true)
    && filtBelow t.ints filt
  if !colsOk then "err parse"
  else if (match l with | some v => decide (v < 0) | none => false) || (match o with | some v => decide (v < 0) | none => false) then
    "err invalid_input"
  else
    let ln := l.map Int.toNat
    let on := o.map Int.toNat
    let cnt := countRows t.frags filt
    match ord with
    | none =>
      let rows := scanImpl t.legacy t.frags { proj := proj, limit := ln, offset := on, ord := none, filt := filt }
      s!"ok n={rows.length} cnt={cnt} rows={showRows rows}"
    | some od =>
      -- GlobalLimitExec(skip 0, fetch 0) above a SortExec becomes a TopK with k = 0, which asserts k > 0
      if ln == some 0 && on == some 0 then "panic" else
      -- canonical print: inside a run of equal keys the rows are sorted by their projected form
      let le : Row → Row → Bool := fun a b =>
        let ra := keyRank od.asc od.nullsFirst (cellAt a od.col)
        let rb := keyRank od.asc od.nullsFirst (cellAt b od.col)
        if ra == rb then rowLe (project proj a) (project proj b) else rankLe ra rb
      let sorted := sortBy le ((liveRows t.frags).filter (keepOpt filt))
      let n := sorted.length
      let s := min (on.getD 0) n
      -- `LIMIT 0` without an offset adds no limit node (Scanner::create_plan stage 4)
      let e := match ln with | some l => if l = 0 && on.isNone then n else min (s + l) n | none => n
      let key := fun (i : Nat) => (sorted[i]?).map fun r => cellAt r od.col
      let tieCut := (decide (0 < s) && decide (s < n) && key (s - 1) == key s)
        || (decide (0 < e) && decide (e < n) && key (e - 1) == key e)
      let window := (sorted.drop s).take (e - s)
      let keys := window.map fun r => cellAt r od.col
      let rowsTxt := if tieCut then "?" else showRows (window.map (project proj))
      s!"ok n={window.length} cnt={cnt} keys={showKeys keys} rows={rowsTxt}"

def doFread (t : Tab) (bs : Nat) (before after : Option Rg) (ix : Bool) (filt : Option Expr) : String :=
  if t.legacy then "skip"
  else if !filtBelow t.ints filt then "err parse"
  else if after.isSome && filt.isNone then "err invalid_input"
  else
    let index : Option IndexUse :=
      match ix, t.idx, filt with
      | true, some c, some e => indexUse c e
      | _, _, _ => none
    "ok " ++ showAddrBatches (filteredRead t.frags bs before after { full := filt, index := index })

def storedRow (legacy : Bool) (ints : Nat) (r : Row) : Row :=
  if legacy then (r.take ints).map (fun c => match c with | none => some 0 | some v => some v) ++ r.drop ints else r

def step (s : St) (line : String) : St × String :=
  match splitTokens line with
  | ["table", v, f, k, x, rows] =>
    match s with
    | some _ => (s, "err parse")
    | none =>
      match tokVal "v" v, (tokVal "f" f).bind (parseNatIn · 1 1000000), tokVal "k" k, tokVal "x" x, parseRows rows with
      | some v, some f, some k, some x, some rows =>
        match Spec.parse k x with
        | some spec =>
          if !(v = "legacy" || v = "2.0" || v = "2.1" || v = "d") then (s, "err parse")
          else if spec.ints = 0 || spec.ints > 8 || !(spec.extras = [] || spec.extras = ['u']) then (s, "err parse")
          else if !spec.rowsOk rows then (s, "err parse")
          else
            let legacy := v = "legacy"
            let frags := mkFrags f (rows.map (storedRow legacy spec.ints))
            (some { frags := frags, ints := spec.ints, width := spec.width, legacy := legacy, idx := none },
             "ok frags=" ++ fragLine frags)
        | none => (s, "err parse")
      | _, _, _, _, _ => (s, "err parse")
  | "delete" :: toks =>
    match s, parseExprAll toks with
    | some t, some e =>
      if !e.colsBelow t.ints then (s, "err parse")
      else
        let frags := deleteWhere t.frags e
        (some { t with frags := frags }, "ok frags=" ++ fragLine frags)
    | _, _ => (s, "err parse")
  | ["index", c] =>
    match s, parseCol c with
    | some t, some c =>
      if c < t.ints && t.idx.isNone then (some { t with idx := some c }, "ok") else (s, "err parse")
    | _, _ => (s, "err parse")
  | "scan" :: p :: l :: o :: ord :: sd :: toks =>
    match s with
    | none => (s, "err parse")
    | some t =>
      let proj : Option (Option (List Nat)) :=
        match tokVal "p" p with
        | some "*" => some none
        | some ps =>
          match parseNatList ps with
          | some v => if v.isEmpty || !distinctNats v then none else some (some v)
          | none => none
        | none => none
      let ordP : Option (Option Order) :=
        match tokVal "ord" ord with
        | some "none" => some none
        | some os =>
          match os.splitOn "," with
          | [c, a, f] =>
            match parseCol c, (if a = "a" then some true else if a = "d" then some false else none),
                  (if f = "f" then some true else if f = "l" then some false else none) with
            | some c, some a, some f => some (some { col := c, asc := a, nullsFirst := f })
            | _, _, _ => none
          | _ => none
        | none => none
      match proj, (tokVal "l" l).bind parseOptI, (tokVal "o" o).bind parseOptI, ordP,
            (tokVal "s" sd).bind (parseNatIn · 0 4294967295), parseFilter toks with
      | some proj, some l, some o, some ordv, some _, some filt => (s, doScan t proj l o ordv filt)
      | _, _, _, _, _, _ => (s, "err parse")
  | "fread" :: bs :: b :: a :: ix :: toks =>
    match s with
    | none => (s, "err parse")
    | some t =>
      match (tokVal "bs" bs).bind (parseNatIn · 1 100000), (tokVal "b" b).bind parseRange, (tokVal "a" a).bind parseRange,
            (match tokVal "ix" ix with | some "0" => some false | some "1" => some true | _ => none), parseFilter toks with
      | some bs, some b, some a, some ix, some filt => (s, doFread t bs b a ix filt)
      | _, _, _, _, _ => (s, "err parse")
  | ["coerce", from_, to, v] =>
    match parseTy from_, parseTy to, parseInt v with
    | some from_, some to, some v =>
      if !tyIsInt from_ || !from_.holds v then (s, "err parse")
      else
        match coerce from_ to v with
        | some w => (s, s!"some {w}")
        | none => (s, "none")
    | _, _, _ => (s, "err parse")
  | "tscan" :: ty :: cells :: toks =>
    match parseTy ty, parseRows cells, parseExprAll toks with
    | some ty, some rows, some e =>
      if !tyIsInt ty || rows.any (·.length != 1) then (s, "err parse")
      else
        let cs : List Cell := rows.map fun r => (r.head?).getD none
        if cs.any (fun c => match c with | some v => !ty.holds v | none => false) then (s, "err parse")
        else if !e.colsBelow 1 then (s, "err parse")
        else
          match typedScan ty cs e with
          | some out => (s, "ok rows=" ++ showKeys out)
          | none => (s, "err invalid_input")
    | _, _, _ => (s, "err parse")
  | _ => (s, "err parse")

end LanceModel.C16.Driver
