import LanceModel.C16.Model
/-
`order_by`: the stable insertion sort of the reference query is a permutation and is sorted for the key order
(NULLs first / last, ascending / descending).
-/
namespace LanceModel.C16
open LanceModel.Query

theorem insertBy_perm {α : Type} (le : α → α → Bool) (x : α) (l : List α) : (insertBy le x l).Perm (x :: l) := by
  induction l with
  | nil => exact List.Perm.refl _
  | cons y t ih =>
    rw [insertBy]
    by_cases h : le x y
    · rw [if_pos h]
    · rw [if_neg h]
      exact (List.Perm.cons y ih).trans (List.Perm.swap x y t)

theorem sortBy_perm {α : Type} (le : α → α → Bool) (l : List α) : (sortBy le l).Perm l := by
  induction l with
  | nil => exact List.Perm.refl _
  | cons x t ih =>
    show (insertBy le x (sortBy le t)).Perm (x :: t)
    exact (insertBy_perm le x _).trans (List.Perm.cons x ih)

theorem sortBy_length {α : Type} (le : α → α → Bool) (l : List α) : (sortBy le l).length = l.length :=
  (sortBy_perm le l).length_eq

theorem insertBy_pairwise {α : Type} (le : α → α → Bool)
    (htot : ∀ a b, le a b = true ∨ le b a = true) (htr : ∀ a b c, le a b = true → le b c = true → le a c = true)
    (x : α) (l : List α) (h : l.Pairwise (fun a b => le a b = true)) :
    (insertBy le x l).Pairwise (fun a b => le a b = true) := by
  induction l with
  | nil => simp [insertBy]
  | cons y t ih =>
    rw [insertBy]
    have hy := List.pairwise_cons.mp h
    by_cases hxy : le x y
    · rw [if_pos hxy]
      refine List.pairwise_cons.mpr ⟨?_, h⟩
      intro z hz
      rcases List.mem_cons.mp hz with rfl | hz
      · exact hxy
      · exact htr _ _ _ hxy (hy.1 z hz)
    · rw [if_neg hxy]
      refine List.pairwise_cons.mpr ⟨?_, ih hy.2⟩
      intro z hz
      have hz' := (insertBy_perm le x t).mem_iff.mp hz
      rcases List.mem_cons.mp hz' with rfl | hz'
      · rcases htot z y with h1 | h1
        · exact absurd h1 hxy
        · exact h1
      · exact hy.1 z hz'

theorem sortBy_pairwise {α : Type} (le : α → α → Bool)
    (htot : ∀ a b, le a b = true ∨ le b a = true) (htr : ∀ a b c, le a b = true → le b c = true → le a c = true)
    (l : List α) : (sortBy le l).Pairwise (fun a b => le a b = true) := by
  induction l with
  | nil => exact List.Pairwise.nil
  | cons x t ih => exact insertBy_pairwise le htot htr x _ ih

theorem rankLe_total (a b : Nat × Int) : rankLe a b = true ∨ rankLe b a = true := by
  simp only [rankLe, Bool.or_eq_true, Bool.and_eq_true, decide_eq_true_eq, beq_iff_eq]
  omega

theorem rankLe_trans (a b c : Nat × Int) (h1 : rankLe a b = true) (h2 : rankLe b c = true) : rankLe a c = true := by
  simp only [rankLe, Bool.or_eq_true, Bool.and_eq_true, decide_eq_true_eq, beq_iff_eq] at *
  omega

theorem Order.le_total (o : Order) (a b : Row) : o.le a b = true ∨ o.le b a = true := rankLe_total _ _

theorem Order.le_trans (o : Order) (a b c : Row) (h1 : o.le a b = true) (h2 : o.le b c = true) : o.le a c = true :=
  rankLe_trans _ _ _ h1 h2

theorem orderBy_perm (o : Option Order) (rows : List Row) : (orderBy o rows).Perm rows := by
  cases o with
  | none => exact List.Perm.refl _
  | some o => exact sortBy_perm _ _

end LanceModel.C16
