import LanceModel.C16.Driver
def main : IO Unit := LanceModel.Util.runDriver LanceModel.C16.Driver.step none
