import LanceModel.C33.DecLemmas
/-
Facts about `manifestName` / `parseVersion` / `detectScheme`: shapes of the three kinds of names, round trips,
detection, order of V2 names, names that discovery ignores.
-/
namespace LanceModel.C33.Names
open LanceModel.C33 LanceModel.C33.Dec

theorem detachedMask_eq : detachedMask = 2 ^ 63 := by decide
theorem u64Max_eq : u64Max = 2 ^ 64 - 1 := by decide

theorem and_mask_eq_zero_iff (v : Nat) : v &&& 2 ^ 63 = 0 ↔ v.testBit 63 = false := by
  constructor
  · intro h
    have h2 : (v &&& 2 ^ 63).testBit 63 = false := by rw [h]; exact Nat.zero_testBit 63
    rw [Nat.testBit_and, Nat.testBit_two_pow_self, Bool.and_true] at h2
    exact h2
  · intro h
    apply Nat.eq_of_testBit_eq
    intro i
    simp only [Nat.testBit_and, Nat.testBit_two_pow, Nat.zero_testBit]
    by_cases hi : 63 = i
    · subst hi; simp [h]
    · simp [hi]

/-- `is_detached_version` on a u64 = the most significant bit is set -/
theorem isDetached_iff (v : Nat) (hv : v < 2 ^ 64) : isDetached v = true ↔ 2 ^ 63 ≤ v := by
  unfold isDetached
  rw [detachedMask_eq]
  simp only [bne_iff_ne, ne_eq, and_mask_eq_zero_iff, Bool.not_eq_false]
  constructor
  · exact Nat.ge_two_pow_of_testBit
  · intro h
    exact Nat.testBit_of_two_pow_le_and_two_pow_add_one_gt h hv

theorem isDetached_false (v : Nat) (hv : v < 2 ^ 63) : isDetached v = false := by
  have := isDetached_iff v (by omega)
  cases h : isDetached v
  · rfl
  · have := this.1 h; omega

theorem isDetached_true (v : Nat) (h1 : 2 ^ 63 ≤ v) (h2 : v < 2 ^ 64) : isDetached v = true :=
  (isDetached_iff v h2).2 h1

/-! ### shapes -/

theorem name_v1 (v : Nat) (hv : v < 2 ^ 63) : manifestName .V1 v = dec v ++ manifestExt := by
  simp [manifestName, isDetached_false v hv]

theorem name_v2 (v : Nat) (hv : v < 2 ^ 63) : manifestName .V2 v = pad20 (u64Max - v) ++ manifestExt := by
  simp [manifestName, isDetached_false v hv]

theorem name_detached (s : Scheme) (v : Nat) (h1 : 2 ^ 63 ≤ v) (h2 : v < 2 ^ 64) :
    manifestName s v = 'd' :: (dec v ++ manifestExt) := by
  simp [manifestName, isDetached_true v h1 h2]

theorem manifestExt_eq : manifestExt = '.' :: manifestWord := by decide

theorem inv_lt (v : Nat) : u64Max - v < 10 ^ 20 := by unfold u64Max; omega

/-! ### round trips -/

theorem no_dot_dec (n : Nat) : ∀ c ∈ dec n, c ≠ '.' := by
  intro c hc
  obtain ⟨d, hd, rfl⟩ := mem_dec hc
  exact digitChar_ne_dot d hd

theorem no_dot_pad20 (n : Nat) (h : n < 10 ^ 20) : ∀ c ∈ pad20 n, c ≠ '.' := by
  intro c hc
  obtain ⟨d, hd, rfl⟩ := mem_pad20 h hc
  exact digitChar_ne_dot d hd

theorem parse_v1 (v : Nat) (hv : v < 2 ^ 63) : parseVersion .V1 (manifestName .V1 v) = some v := by
  rw [name_v1 v hv, manifestExt_eq]
  simp only [parseVersion, splitDot_append _ _ (no_dot_dec v), Option.bind_some,
    parseU64_dec v (by unfold u64Max; omega)]

theorem parse_v2 (v : Nat) (hv : v < 2 ^ 63) : parseVersion .V2 (manifestName .V2 v) = some v := by
  rw [name_v2 v hv, manifestExt_eq]
  simp only [parseVersion, splitDot_append _ _ (no_dot_pad20 _ (inv_lt v)), Option.bind_some,
    parseU64_pad20 (u64Max - v) (by omega)]
  congr 1
  unfold u64Max; omega

/-- a name starting with `d` has no version under either scheme -/
theorem parse_d (s : Scheme) (t : Name) : parseVersion s ('d' :: t) = none := by
  have : (splitDot ('d' :: t)).bind parseU64 = none := by
    simp only [splitDot, show ('d' = '.') = False by decide, if_false]
    cases splitDot t with
    | none => rfl
    | some p => simp [parseU64_d]
  simp [parseVersion, this]

theorem parse_detached (s s' : Scheme) (v : Nat) (h1 : 2 ^ 63 ≤ v) (h2 : v < 2 ^ 64) :
    parseVersion s' (manifestName s v) = none := by
  rw [name_detached s v h1 h2]; exact parse_d _ _

/-! ### detection -/

theorem head_digit_not_d {l : Name} (hne : l ≠ []) (hd : ∀ c ∈ l, ∃ d, d < 10 ∧ c = digitChar d) (t : Name) :
    startsWithD (l ++ t) = false := by
  match l, hne with
  | c :: r, _ =>
    obtain ⟨d, hd', rfl⟩ := hd c (by simp)
    have := digitChar_ne_d d hd'
    simp only [List.cons_append, startsWithD]
    split
    · rename_i heq; injection heq with h _; exact absurd h this
    · rfl

theorem suffix_word (a : Name) : manifestWord.isSuffixOf (a ++ manifestExt) = true := by
  rw [List.isSuffixOf_iff_suffix, manifestExt_eq]
  exact ⟨a ++ ['.'], by simp⟩

theorem numDigits_attached (v : Nat) (hv : v < 2 ^ 63) : numDigits v ≤ 19 :=
  numDigits_le v 19 (by omega) (by omega)

theorem detect_v1 (v : Nat) (hv : v < 2 ^ 63) : detectScheme (manifestName .V1 v) = some .V1 := by
  rw [name_v1 v hv]
  have h1 := head_digit_not_d (dec_ne_nil v) (fun c hc => mem_dec hc) manifestExt
  have h2 := numDigits_attached v hv
  have hlen : ¬ ((dec v).length + manifestExt.length = 29) := by
    simp only [dec_length, show manifestExt.length = 9 by decide]; omega
  simp [detectScheme, h1, suffix_word, hlen]

theorem pad20_ne_nil (n : Nat) (h : n < 10 ^ 20) : pad20 n ≠ [] := by
  intro e
  have := pad20_length n h
  rw [e] at this; simp at this

theorem detect_v2 (v : Nat) (hv : v < 2 ^ 63) : detectScheme (manifestName .V2 v) = some .V2 := by
  rw [name_v2 v hv]
  have h1 := head_digit_not_d (pad20_ne_nil _ (inv_lt v)) (fun c hc => mem_pad20 (inv_lt v) hc) manifestExt
  have hlen : (pad20 (u64Max - v) ++ manifestExt).length = 29 := by
    simp only [List.length_append, pad20_length _ (inv_lt v), show manifestExt.length = 9 by decide]
  simp [detectScheme, h1, suffix_word, hlen]

theorem detect_d (t : Name) : detectScheme ('d' :: t) = some .V2 := by
  simp [detectScheme, startsWithD]

theorem detect_detached (s : Scheme) (v : Nat) (h1 : 2 ^ 63 ≤ v) (h2 : v < 2 ^ 64) :
    detectScheme (manifestName s v) = some .V2 := by
  rw [name_detached s v h1 h2]; exact detect_d _

theorem detect_attached (s : Scheme) (v : Nat) (hv : v < 2 ^ 63) : detectScheme (manifestName s v) = some s := by
  cases s
  · exact detect_v1 v hv
  · exact detect_v2 v hv

theorem parse_attached (s : Scheme) (v : Nat) (hv : v < 2 ^ 63) : parseVersion s (manifestName s v) = some v := by
  cases s
  · exact parse_v1 v hv
  · exact parse_v2 v hv

theorem cand_attached (s : Scheme) (v : Nat) (hv : v < 2 ^ 63) :
    cand (manifestName s v) = some ⟨s, v, manifestName s v⟩ := by
  simp [cand, detect_attached s v hv, parse_attached s v hv]

theorem name_inj (s : Scheme) (v w : Nat) (hv : v < 2 ^ 63) (hw : w < 2 ^ 63)
    (h : manifestName s v = manifestName s w) : v = w := by
  have h1 := parse_attached s v hv
  rw [h, parse_attached s w hw] at h1
  exact (Option.some.inj h1).symm

/-- staging detection (`detect_scheme_staging`) of an attached name, whatever is appended to it -/
theorem staging_v2 (v : Nat) (hv : v < 2 ^ 63) (suffix : Name) :
    detectSchemeStaging (manifestName .V2 v ++ suffix) = .V2 := by
  rw [name_v2 v hv, manifestExt_eq]
  have hl := pad20_length _ (inv_lt v)
  have : (pad20 (u64Max - v) ++ '.' :: (manifestWord ++ suffix))[20]? = some '.' := by
    rw [List.getElem?_append_right (by omega)]
    simp [hl]
  simp [detectSchemeStaging, this]

theorem staging_v1 (v : Nat) (hv : v < 2 ^ 63) (suffix : Name) (hs : ∀ c ∈ suffix, c ≠ '.') :
    detectSchemeStaging (manifestName .V1 v ++ suffix) = .V1 := by
  rw [name_v1 v hv, manifestExt_eq]
  have hl := dec_length v
  have hk := numDigits_attached v hv
  -- the only '.' sits at index `numDigits v` ≤ 19
  have : ¬ (dec v ++ '.' :: (manifestWord ++ suffix))[20]? = some '.' := by
    rw [List.getElem?_append_right (by omega)]
    intro h
    have h20 : 20 - (dec v).length ≠ 0 := by omega
    obtain ⟨j, hj⟩ : ∃ j, 20 - (dec v).length = j + 1 := ⟨20 - (dec v).length - 1, by omega⟩
    rw [hj] at h
    simp only [List.getElem?_cons_succ] at h
    have hm := List.mem_of_getElem? h
    rcases List.mem_append.1 hm with hm | hm
    · revert hm; decide
    · exact hs _ hm rfl
  simp [detectSchemeStaging, this]

end LanceModel.C33.Names
