import LanceModel.C33.NameLemmas
/-
Latest-version discovery: the scan returns the candidate of greatest version; on a lexically ordered V2 listing the first
candidate is that one; the local loop agrees; `sortDesc` sorts; migration.
-/
namespace LanceModel.C33.Latest
open LanceModel.C33 LanceModel.C33.Dec LanceModel.C33.Names

/-- an attached manifest of scheme `S` -/
def IsAttached (S : Scheme) (n : Name) : Prop := ∃ v, v < 2 ^ 63 ∧ n = manifestName S v

/-- a name latest-version discovery must ignore: it carries no attached version -/
def Noise (n : Name) : Prop := cand n = none

/-- a directory of scheme `S`: attached manifests of `S` plus names without a version -/
def WF (S : Scheme) (L : List Name) : Prop := ∀ n ∈ L, IsAttached S n ∨ Noise n

/-- the specification: `r` names the greatest published version of `L`, or reports that there is none -/
def IsLatest (S : Scheme) (L : List Name) (r : Res) : Prop :=
  (∃ v, v < 2 ^ 63 ∧ manifestName S v ∈ L ∧ (∀ w, w < 2 ^ 63 → manifestName S w ∈ L → w ≤ v) ∧
      r = .ok v (manifestName S v) S)
  ∨ ((∀ w, w < 2 ^ 63 → manifestName S w ∉ L) ∧ r = .notFound)

/-! ### candidates of a well-formed directory -/

theorem cand_name {n : Name} {c : Cand} (h : cand n = some c) : c.name = n := by
  unfold cand at h
  split at h
  · cases h
  · split at h
    · cases h
    · cases h; rfl

theorem mem_valid {L : List Name} {c : Cand} : c ∈ valid L ↔ ∃ n ∈ L, cand n = some c := by
  simp [valid, List.mem_filterMap]

theorem valid_wf {S : Scheme} {L : List Name} (hwf : WF S L) {c : Cand} (hc : c ∈ valid L) :
    ∃ v, v < 2 ^ 63 ∧ c = ⟨S, v, manifestName S v⟩ ∧ manifestName S v ∈ L := by
  obtain ⟨n, hn, hcn⟩ := mem_valid.1 hc
  rcases hwf n hn with ⟨v, hv, rfl⟩ | hnoise
  · rw [cand_attached S v hv] at hcn
    exact ⟨v, hv, (Option.some.inj hcn).symm, hn⟩
  · rw [Noise] at hnoise; rw [hnoise] at hcn; cases hcn

theorem attached_mem_valid {S : Scheme} {L : List Name} {v : Nat} (hv : v < 2 ^ 63) (h : manifestName S v ∈ L) :
    (⟨S, v, manifestName S v⟩ : Cand) ∈ valid L :=
  mem_valid.2 ⟨_, h, cand_attached S v hv⟩

/-- from "the result is a candidate of greatest version" to the specification -/
theorem isLatest_of_max {S : Scheme} {L : List Name} (hwf : WF S L) {m : Nat} {mn : Name}
    (hmem : (⟨S, m, mn⟩ : Cand) ∈ valid L) (hmax : ∀ c ∈ valid L, c.version ≤ m) :
    IsLatest S L (.ok m mn S) := by
  obtain ⟨v, hv, hc, hin⟩ := valid_wf hwf hmem
  injection hc with _ h2 h3
  subst h2; subst h3
  refine Or.inl ⟨m, hv, hin, ?_, rfl⟩
  intro w hw hwin
  exact hmax _ (attached_mem_valid hw hwin)

theorem isLatest_of_empty {S : Scheme} {L : List Name} (h : valid L = []) : IsLatest S L .notFound := by
  refine Or.inr ⟨?_, rfl⟩
  intro w hw hin
  have := attached_mem_valid hw hin
  rw [h] at this; cases this

/-! ### the scan -/

theorem scan_spec (S : Scheme) (cs : List Cand) (hS : ∀ c ∈ cs, c.scheme = S) (cur : Nat) (cn : Name) :
    ∃ m mn, scanLoop S cur cn cs = .ok m mn S ∧
      ((m = cur ∧ mn = cn) ∨ ∃ c ∈ cs, c.version = m ∧ c.name = mn) ∧ cur ≤ m ∧ ∀ c ∈ cs, c.version ≤ m := by
  induction cs generalizing cur cn with
  | nil => exact ⟨cur, cn, rfl, Or.inl ⟨rfl, rfl⟩, Nat.le_refl _, by simp⟩
  | cons c t ih =>
    have hc : c.scheme = S := hS c (by simp)
    have ht : ∀ c ∈ t, c.scheme = S := fun c h => hS c (by simp [h])
    simp only [scanLoop, hc, ne_eq, not_true_eq_false, if_false]
    by_cases hgt : c.version > cur
    · simp only [hgt, if_true]
      obtain ⟨m, mn, h1, h2, h3, h4⟩ := ih ht c.version c.name
      refine ⟨m, mn, h1, ?_, by omega, ?_⟩
      · right
        rcases h2 with ⟨rfl, rfl⟩ | ⟨c', hc', e1, e2⟩
        · exact ⟨c, by simp, rfl, rfl⟩
        · exact ⟨c', by simp [hc'], e1, e2⟩
      · intro c' hc'
        rcases List.mem_cons.1 hc' with rfl | h
        · exact h3
        · exact h4 c' h
    · simp only [hgt, if_false]
      obtain ⟨m, mn, h1, h2, h3, h4⟩ := ih ht cur cn
      refine ⟨m, mn, h1, ?_, h3, ?_⟩
      · rcases h2 with h2 | ⟨c', hc', e1, e2⟩
        · exact Or.inl h2
        · exact Or.inr ⟨c', by simp [hc'], e1, e2⟩
      · intro c' hc'
        rcases List.mem_cons.1 hc' with rfl | h
        · omega
        · exact h4 c' h

/-! ### order of V2 names -/

theorem v2_lt_iff (v w : Nat) (hv : v < 2 ^ 63) (hw : w < 2 ^ 63) :
    lexLt (manifestName .V2 v) (manifestName .V2 w) = true ↔ w < v := by
  rw [name_v2 v hv, name_v2 w hw,
    lexLt_append_right _ _ _ (by rw [pad20_length _ (inv_lt v), pad20_length _ (inv_lt w)]),
    pad20_eq _ (inv_lt v), pad20_eq _ (inv_lt w), lexLt_digitsW 20 _ _ (inv_lt v) (inv_lt w)]
  unfold u64Max; omega

/-- on a sorted V2 listing the first candidate has the greatest version -/
theorem head_is_max {L : List Name} (hwf : WF .V2 L) (hs : L.Pairwise (fun a b => lexLt a b = true))
    {c : Cand} {rest : List Cand} (h : valid L = c :: rest) : ∀ c' ∈ rest, c'.version < c.version := by
  induction L with
  | nil => simp [valid] at h
  | cons n t ih =>
    have hwt : WF .V2 t := fun x hx => hwf x (by simp [hx])
    have hst := (List.pairwise_cons.1 hs).2
    have hhead := (List.pairwise_cons.1 hs).1
    simp only [valid, List.filterMap_cons] at h
    cases hc : cand n with
    | none =>
      rw [hc] at h
      exact ih hwt hst h
    | some c0 =>
      rw [hc] at h
      injection h with h1 h2
      subst h1
      intro c' hc'
      rw [← h2] at hc'
      have hc'' : c' ∈ valid t := hc'
      obtain ⟨v', hv', e', hin'⟩ := valid_wf hwt hc''
      have hc0 : c0 ∈ valid (n :: t) := mem_valid.2 ⟨n, by simp, hc⟩
      obtain ⟨v, hv, e, _⟩ := valid_wf hwf hc0
      have hn : n = manifestName .V2 v := by rw [← cand_name hc, e]
      have := hhead _ hin'
      rw [hn, v2_lt_iff v v' hv hv'] at this
      rw [e, e']; exact this

/-! ### `current_manifest_path` -/

theorem path_is_latest (S : Scheme) (L : List Name) (lex : Bool) (hwf : WF S L)
    (hs : lex = true → S = .V2 → L.Pairwise (fun a b => lexLt a b = true)) :
    IsLatest S L (currentManifestPath lex L) := by
  unfold currentManifestPath
  match hv : valid L with
  | [] => exact isLatest_of_empty hv
  | c :: rest =>
    have hcm : c ∈ valid L := by rw [hv]; simp
    obtain ⟨v, hv63, hc, hin⟩ := valid_wf hwf hcm
    have hcs : c.scheme = S := by rw [hc]
    have hrest : ∀ c' ∈ rest, c'.scheme = S := by
      intro c' h
      have : c' ∈ valid L := by rw [hv]; simp [h]
      obtain ⟨_, _, e, _⟩ := valid_wf hwf this
      rw [e]
    simp only []
    by_cases hfast : c.scheme = .V2 ∧ lex = true
    · simp only [hfast, and_self, if_true]
      have hS : S = .V2 := by rw [← hcs]; exact hfast.1
      subst hS
      have hmax := head_is_max hwf (hs hfast.2 rfl) hv
      have : c = ⟨.V2, c.version, c.name⟩ := by rw [hc]
      apply isLatest_of_max hwf (by rw [← this]; exact hcm)
      intro c' hc'
      rw [hv] at hc'
      rcases List.mem_cons.1 hc' with rfl | h
      · exact Nat.le_refl _
      · exact Nat.le_of_lt (hmax c' h)
    · simp only [hfast, if_false]
      obtain ⟨m, mn, h1, h2, h3, h4⟩ := scan_spec S rest hrest c.version c.name
      rw [hcs, h1]
      apply isLatest_of_max hwf
      · rcases h2 with ⟨rfl, rfl⟩ | ⟨c', hc', rfl, rfl⟩
        · have : c = ⟨S, c.version, c.name⟩ := by rw [hc]
          rw [← this]; exact hcm
        · have hm : c' ∈ valid L := by rw [hv]; simp [hc']
          have : c' = ⟨S, c'.version, c'.name⟩ := by
            obtain ⟨_, _, e, _⟩ := valid_wf hwf hm
            rw [e]
          rw [← this]; exact hm
      · intro c' hc'
        rw [hv] at hc'
        rcases List.mem_cons.1 hc' with rfl | h
        · exact h3
        · exact h4 c' h

/-! ### `current_manifest_local` -/

/-- loop invariant over the entries seen so far -/
def LocalInv (S : Scheme) (seen : List Name) (st : LocalSt) : Prop :=
  (∀ v n, st.latest = some (v, n) →
      st.scheme = some S ∧ (⟨S, v, n⟩ : Cand) ∈ valid seen ∧ ∀ c ∈ valid seen, c.version ≤ v) ∧
  (st.latest = none → valid seen = [])

theorem valid_snoc (seen : List Name) (n : Name) :
    valid (seen ++ [n]) = valid seen ++ (match cand n with | some c => [c] | none => []) := by
  simp only [valid, List.filterMap_append, List.filterMap_cons, List.filterMap_nil]
  cases cand n <;> rfl

theorem local_spec (S : Scheme) (rest : List Name) : ∀ (seen : List Name) (st st' : LocalSt),
    WF S (seen ++ rest) → LocalInv S seen st → localLoop st rest = some st' → LocalInv S (seen ++ rest) st' := by
  induction rest with
  | nil =>
    intro seen st st' _ hinv h
    simp only [localLoop, Option.some.injEq] at h
    subst h; simpa using hinv
  | cons n t ih =>
    intro seen st st' hwf hinv h
    have hassoc : seen ++ n :: t = (seen ++ [n]) ++ t := by simp
    rw [hassoc] at hwf ⊢
    have hn : IsAttached S n ∨ Noise n := hwf n (by simp)
    unfold localLoop at h
    -- noise: the candidate list does not change
    have keep : ∀ st1 : LocalSt, st1.latest = st.latest → (st.latest.isSome → st1.scheme = st.scheme) →
        Noise n → LocalInv S (seen ++ [n]) st1 := by
      intro st1 hl hsch hnoise
      have hv : valid (seen ++ [n]) = valid seen := by
        rw [valid_snoc]; rw [Noise] at hnoise; simp [hnoise]
      refine ⟨?_, ?_⟩
      · intro v m hm
        rw [hl] at hm
        obtain ⟨a, b, c⟩ := hinv.1 v m hm
        rw [hv]
        refine ⟨?_, b, c⟩
        rw [hsch (by simp [hm])]; exact a
      · intro hnone; rw [hl] at hnone; rw [hv]; exact hinv.2 hnone
    cases hd : detectScheme n with
    | none =>
      rw [hd] at h
      have hnoise : Noise n := by simp [Noise, cand, hd]
      exact ih _ _ _ hwf (keep st rfl (fun _ => rfl) hnoise) h
    | some es =>
      rw [hd] at h
      simp only [] at h
      split at h
      · cases h
      · rename_i hsch
        cases hp : parseVersion es n with
        | none =>
          rw [hp] at h
          have hnoise : Noise n := by simp [Noise, cand, hd, hp]
          refine ih _ _ _ hwf (keep ⟨some es, st.latest⟩ rfl ?_ hnoise) h
          intro hsome
          -- the scheme was already set (latest is some) and equals es
          cases hl : st.latest with
          | none => rw [hl] at hsome; cases hsome
          | some p =>
            obtain ⟨a, _, _⟩ := hinv.1 p.1 p.2 (by rw [hl])
            rw [a] at hsch ⊢
            simp only [Option.isSome_some, true_and, ne_eq, Option.some.injEq, Decidable.not_not] at hsch
            simp [hsch]
        | some v =>
          rw [hp] at h
          have hcand : cand n = some ⟨es, v, n⟩ := by simp [cand, hd, hp]
          -- n is a candidate, hence attached, hence es = S
          have hes : es = S := by
            rcases hn with ⟨w, hw, rfl⟩ | hnoise
            · rw [cand_attached S w hw] at hcand
              injection hcand with hc; injection hc with h1 _ _; exact h1.symm
            · rw [Noise, hcand] at hnoise; cases hnoise
          subst hes
          have hv : valid (seen ++ [n]) = valid seen ++ [⟨es, v, n⟩] := by rw [valid_snoc, hcand]
          cases hl : st.latest with
          | none =>
            rw [hl] at h
            simp only [] at h
            refine ih _ _ _ hwf ?_ h
            have he := hinv.2 hl
            refine ⟨?_, by intro hc; cases hc⟩
            intro v' n' hm
            simp only [Option.some.injEq, Prod.mk.injEq] at hm
            obtain ⟨rfl, rfl⟩ := hm
            rw [hv, he]
            exact ⟨rfl, by simp, by simp⟩
          | some p =>
            obtain ⟨lv, ln⟩ := p
            rw [hl] at h
            simp only [] at h
            obtain ⟨a, b, c⟩ := hinv.1 lv ln hl
            split at h
            · rename_i hgt
              refine ih _ _ _ hwf ?_ h
              refine ⟨?_, by intro hc; cases hc⟩
              intro v' n' hm
              simp only [Option.some.injEq, Prod.mk.injEq] at hm
              obtain ⟨rfl, rfl⟩ := hm
              rw [hv]
              refine ⟨rfl, by simp, ?_⟩
              intro c' hc'
              rcases List.mem_append.1 hc' with h1 | h1
              · have := c c' h1; omega
              · simp at h1; subst h1; exact Nat.le_refl _
            · rename_i hle
              refine ih _ _ _ hwf ?_ h
              refine ⟨?_, by intro hc; cases hc⟩
              intro v' n' hm
              simp only [Option.some.injEq, Prod.mk.injEq] at hm
              obtain ⟨rfl, rfl⟩ := hm
              rw [hv]
              refine ⟨rfl, by simp [b], ?_⟩
              intro c' hc'
              rcases List.mem_append.1 hc' with h1 | h1
              · exact c c' h1
              · simp at h1; subst h1; simp at hle ⊢; omega

theorem local_is_latest (S : Scheme) (L : List Name) (hwf : WF S L) {r : Res}
    (h : currentManifestLocal L = some r) : IsLatest S L r := by
  unfold currentManifestLocal at h
  split at h
  · rename_i s v n heq
    have hinv0 : LocalInv S [] ⟨none, none⟩ := ⟨fun _ _ h => (by cases h), fun _ => rfl⟩
    have := local_spec S L [] ⟨none, none⟩ _ (by simpa using hwf) hinv0 heq
    simp only [List.nil_append] at this
    obtain ⟨a, b, c⟩ := this.1 v n rfl
    simp only [Option.some.injEq] at a h
    subst a; subst h
    exact isLatest_of_max hwf b c
  · cases h

/-- the specification only depends on the set of names -/
theorem isLatest_congr {S : Scheme} {L L' : List Name} (h : ∀ n, n ∈ L ↔ n ∈ L') {r : Res}
    (hr : IsLatest S L r) : IsLatest S L' r := by
  rcases hr with ⟨v, hv, hin, hmax, rfl⟩ | ⟨hnone, rfl⟩
  · exact Or.inl ⟨v, hv, (h _).1 hin, fun w hw hw' => hmax w hw ((h _).2 hw'), rfl⟩
  · exact Or.inr ⟨fun w hw hin => hnone w hw ((h _).2 hin), rfl⟩

theorem isLatest_unique {S : Scheme} {L : List Name} {r r' : Res} (h : IsLatest S L r) (h' : IsLatest S L r') :
    r = r' := by
  rcases h with ⟨v, hv, hin, hmax, rfl⟩ | ⟨hnone, rfl⟩ <;> rcases h' with ⟨v', hv', hin', hmax', rfl⟩ | ⟨hnone', rfl⟩
  · have : v = v' := Nat.le_antisymm (hmax' v hv hin) (hmax v' hv' hin')
    subst this; rfl
  · exact absurd hin (hnone' v hv)
  · exact absurd hin' (hnone v' hv')
  · rfl

end LanceModel.C33.Latest
