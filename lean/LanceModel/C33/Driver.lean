import LanceModel.Util
import LanceModel.C33.Model
/-
C33 driver: one output line per op line (see harness/src/bin/c33.rs for the protocol).
-/
namespace LanceModel.C33.Driver
open LanceModel.Util LanceModel.C33

def showScheme : Scheme → String
  | .V1 => "V1"
  | .V2 => "V2"

def showOptScheme : Option Scheme → String
  | none => "none"
  | some s => showScheme s

def nameInfo (n : Name) : String :=
  "det=" ++ showOptScheme (detectScheme n) ++ " p1=" ++ showOptNat (parseVersion .V1 n) ++
  " p2=" ++ showOptNat (parseVersion .V2 n) ++ " st=" ++ showScheme (detectSchemeStaging n)

def parseNames (toks : List String) : List Name :=
  match toks with
  | ["-"] => []
  | _ => toks.map (·.toList)

def showRes : Res → String
  | .ok v n s => "ok v=" ++ toString v ++ " name=" ++ String.ofList n ++ " scheme=" ++ showScheme s
  | .notFound => "not_found"
  | .errInternal => "err_internal"

def showCand (c : Cand) : String :=
  toString c.version ++ ":" ++ String.ofList c.name ++ ":" ++ showScheme c.scheme

def showList (l : List String) : String :=
  if l.isEmpty then "ok -" else "ok " ++ " ".intercalate l

def insertName (x : Name) : List Name → List Name
  | [] => [x]
  | y :: t => if x = y then y :: t else if lexLt x y then x :: y :: t else y :: insertName x t

/-- sorted by byte order, duplicates removed (a directory is a set of names) -/
def sortNames (l : List Name) : List Name := l.foldr insertName []

def parseScheme : String → Option Scheme
  | "V1" => some .V1
  | "V2" => some .V2
  | _ => none

def run (toks : List String) : String :=
  match toks with
  | ["path", s, v] =>
    match parseScheme s, v.toNat? with
    | some s, some v =>
      if v ≤ u64Max then
        let n := manifestName s v
        String.ofList n ++ " " ++ nameInfo n
      else "bad"
    | _, _ => "bad"
  | ["name", n] => nameInfo (if n = "_EMPTY_" then [] else n.toList)
  | ["cmp", v, w] =>
    match v.toNat?, w.toNat? with
    | some v, some w =>
      if v ≤ u64Max ∧ w ≤ u64Max then
        let a := manifestName .V2 v
        let b := manifestName .V2 w
        if lexLt a b then "lt" else if lexLt b a then "gt" else "eq"
      else "bad"
    | _, _ => "bad"
  | "latest" :: lex :: n :: rest =>
    let names := parseNames (n :: rest)
    showRes (resolveLatest false (lex = "1") names names)
  | "latest_local" :: n :: rest =>
    let names := parseNames (n :: rest)
    showRes (resolveLatest true false names names)
  | "list" :: lex :: sorted :: n :: rest =>
    showList ((listLocations (lex = "1") (sorted = "1") (parseNames (n :: rest))).map showCand)
  | "migrate" :: n :: rest =>
    match migrate (parseNames (n :: rest)) with
    | none => "panic"
    | some out => showList ((sortNames out).map String.ofList)
  | _ => "bad"

def step (s : Unit) (line : String) : Unit × String := (s, run (splitTokens line))

end LanceModel.C33.Driver
