import LanceModel.C33.Driver
def main : IO Unit := LanceModel.Util.runDriver LanceModel.C33.Driver.step ()
