import LanceModel.C33.Model
/-
Decimal formatting / parsing lemmas: round trip, lengths, lexicographic order of fixed-width digit strings.
All bounds are of the form `n < 10 ^ w` with `10 ^ w` treated as an atom, so `omega` suffices.
-/
namespace LanceModel.C33.Dec
open LanceModel.C33

/-! ### digit characters -/

theorem digitVal_digitChar : ∀ d, d < 10 → digitVal (digitChar d) = some d := by decide
theorem digitChar_toNat : ∀ d, d < 10 → (digitChar d).toNat = 48 + d := by decide
theorem digitChar_ne_dot : ∀ d, d < 10 → digitChar d ≠ '.' := by decide
theorem digitChar_ne_plus : ∀ d, d < 10 → digitChar d ≠ '+' := by decide
theorem digitChar_ne_d : ∀ d, d < 10 → digitChar d ≠ 'd' := by decide
theorem digitChar_zero : digitChar 0 = '0' := by decide

/-! ### `digitsW` -/

theorem digitsW_length (w n : Nat) : (digitsW w n).length = w := by
  induction w generalizing n with
  | zero => rfl
  | succ w ih => simp [digitsW, ih]

theorem digitsW_lt_ten (w n : Nat) : ∀ d ∈ digitsW w n, d < 10 := by
  induction w generalizing n with
  | zero => intro d h; simp [digitsW] at h
  | succ w ih =>
    intro d h
    simp only [digitsW, List.mem_append, List.mem_singleton] at h
    rcases h with h | h
    · exact ih _ d h
    · omega

theorem digitsW_zero (w : Nat) : digitsW w 0 = List.replicate w 0 := by
  induction w with
  | zero => rfl
  | succ w ih =>
    simp only [digitsW, Nat.zero_div, ih, Nat.zero_mod]
    exact (List.replicate_succ' ..).symm

/-- more width than needed = leading zeros -/
theorem digitsW_add (k j n : Nat) (h : n < 10 ^ k) :
    digitsW (k + j) n = List.replicate j 0 ++ digitsW k n := by
  induction k generalizing n with
  | zero =>
    have : n = 0 := by simpa using h
    subst this
    simp [digitsW, digitsW_zero]
  | succ k ih =>
    have h' : n / 10 < 10 ^ k := by
      rw [Nat.pow_succ] at h; omega
    have e : k + 1 + j = (k + j) + 1 := by omega
    rw [e]
    simp only [digitsW, ih _ h', List.append_assoc]

/-- value of a big-endian digit list -/
def value (l : List Nat) : Nat := l.foldl (fun a d => 10 * a + d) 0

theorem value_snoc (l : List Nat) (d : Nat) : value (l ++ [d]) = 10 * value l + d := by
  simp [value, List.foldl_append]

theorem value_digitsW (w n : Nat) (h : n < 10 ^ w) : value (digitsW w n) = n := by
  induction w generalizing n with
  | zero =>
    have : n = 0 := by simpa using h
    subst this; rfl
  | succ w ih =>
    have h' : n / 10 < 10 ^ w := by
      rw [Nat.pow_succ] at h; omega
    simp only [digitsW, value_snoc, ih _ h']
    omega

theorem digitsW_inj (w n m : Nat) (hn : n < 10 ^ w) (hm : m < 10 ^ w)
    (h : digitsW w n = digitsW w m) : n = m := by
  have := congrArg value h
  rwa [value_digitsW w n hn, value_digitsW w m hm] at this

/-! ### `numDigits` -/

theorem numDigitsAux_pos (f n : Nat) : 1 ≤ numDigitsAux f n := by
  cases f with
  | zero => simp [numDigitsAux]
  | succ f => simp only [numDigitsAux]; split <;> omega

theorem lt_pow_numDigitsAux (f n : Nat) (h : n ≤ f) : n < 10 ^ numDigitsAux f n := by
  induction f generalizing n with
  | zero =>
    have : n = 0 := by omega
    subst this; simp [numDigitsAux]
  | succ f ih =>
    simp only [numDigitsAux]
    split
    · simpa using ‹n < 10›
    · have := ih (n / 10) (by omega)
      rw [Nat.add_comm, Nat.pow_succ]
      omega

theorem lt_pow_numDigits (n : Nat) : n < 10 ^ numDigits n :=
  lt_pow_numDigitsAux n n (Nat.le_refl _)

theorem numDigits_pos (n : Nat) : 1 ≤ numDigits n := numDigitsAux_pos n n

theorem numDigitsAux_le (f n k : Nat) (hk : 1 ≤ k) (h : n < 10 ^ k) : numDigitsAux f n ≤ k := by
  induction f generalizing n k with
  | zero => simpa [numDigitsAux] using hk
  | succ f ih =>
    simp only [numDigitsAux]
    split
    · exact hk
    · rename_i h10
      obtain ⟨k', rfl⟩ : ∃ k', k = k' + 1 := ⟨k - 1, by omega⟩
      have hk' : 1 ≤ k' := by
        rcases Nat.eq_zero_or_pos k' with h0 | h0
        · subst h0; simp at h; omega
        · exact h0
      have : n / 10 < 10 ^ k' := by rw [Nat.pow_succ] at h; omega
      have := ih (n / 10) k' hk' this
      omega

theorem numDigits_le (n k : Nat) (hk : 1 ≤ k) (h : n < 10 ^ k) : numDigits n ≤ k :=
  numDigitsAux_le n n k hk h

/-! ### `dec` / `pad20` -/

theorem dec_length (n : Nat) : (dec n).length = numDigits n := by
  simp [dec, digitsW_length]

/-- every char of `dec n` is a digit char -/
theorem mem_map_digitChar {l : List Nat} (hl : ∀ d ∈ l, d < 10) {c : Char} (h : c ∈ l.map digitChar) :
    ∃ d, d < 10 ∧ c = digitChar d := by
  obtain ⟨d, hd, rfl⟩ := List.mem_map.1 h
  exact ⟨d, hl d hd, rfl⟩

theorem mem_dec {n : Nat} {c : Char} (h : c ∈ dec n) : ∃ d, d < 10 ∧ c = digitChar d :=
  mem_map_digitChar (digitsW_lt_ten _ _) h

theorem dec_ne_nil (n : Nat) : dec n ≠ [] := by
  intro h
  have := congrArg List.length h
  rw [dec_length] at this
  have := numDigits_pos n
  simp at *; omega

/-- `pad20` is the 20-digit string whenever the number has at most 20 digits -/
theorem pad20_eq (n : Nat) (h : n < 10 ^ 20) : pad20 n = (digitsW 20 n).map digitChar := by
  have hk : numDigits n ≤ 20 := numDigits_le n 20 (by omega) h
  have e : 20 = numDigits n + (20 - numDigits n) := by omega
  have := digitsW_add (numDigits n) (20 - numDigits n) n (lt_pow_numDigits n)
  rw [← e] at this
  rw [this, pad20, dec, List.map_append, List.map_replicate, digitChar_zero]

theorem pad20_length (n : Nat) (h : n < 10 ^ 20) : (pad20 n).length = 20 := by
  rw [pad20_eq n h]; simp [digitsW_length]

theorem mem_pad20 {n : Nat} (h : n < 10 ^ 20) {c : Char} (hc : c ∈ pad20 n) : ∃ d, d < 10 ∧ c = digitChar d := by
  rw [pad20_eq n h] at hc
  exact mem_map_digitChar (digitsW_lt_ten _ _) hc

/-! ### parsing digit strings -/

theorem parseDigitsAux_snoc (acc : Nat) (l : List Char) (c : Char) :
    parseDigitsAux acc (l ++ [c]) =
      (parseDigitsAux acc l).bind (fun a => (digitVal c).bind (fun d => some (10 * a + d))) := by
  induction l generalizing acc with
  | nil =>
    simp only [List.nil_append, parseDigitsAux]
    cases digitVal c <;> simp
  | cons x t ih =>
    simp only [List.cons_append, parseDigitsAux]
    cases digitVal x with
    | none => simp
    | some d => simp [ih]

theorem parseDigits_digitsW (w n : Nat) (h : n < 10 ^ w) :
    parseDigitsAux 0 ((digitsW w n).map digitChar) = some n := by
  induction w generalizing n with
  | zero =>
    have : n = 0 := by simpa using h
    subst this; rfl
  | succ w ih =>
    have h' : n / 10 < 10 ^ w := by
      rw [Nat.pow_succ] at h; omega
    simp only [digitsW, List.map_append, List.map_cons, List.map_nil, parseDigitsAux_snoc, ih _ h',
      Option.bind_some, digitVal_digitChar (n % 10) (by omega)]
    congr 1; omega

/-- a non-empty digit string that does not start with `+` parses to its value (if it fits) -/
theorem parseU64_digits (w n : Nat) (hw : 1 ≤ w) (h : n < 10 ^ w) (hn : n ≤ u64Max) :
    parseU64 ((digitsW w n).map digitChar) = some n := by
  have hp := parseDigits_digitsW w n h
  have hlen : ((digitsW w n).map digitChar).length = w := by simp [digitsW_length]
  match hl : (digitsW w n).map digitChar with
  | [] => rw [hl] at hlen; simp at hlen; omega
  | c :: t =>
    have hc : c ∈ (digitsW w n).map digitChar := by rw [hl]; simp
    obtain ⟨d, hd, rfl⟩ := mem_map_digitChar (digitsW_lt_ten _ _) hc
    have hne : digitChar d ≠ '+' := digitChar_ne_plus d hd
    have hs : stripPlus (digitChar d :: t) = digitChar d :: t := by
      unfold stripPlus
      split
      · rename_i heq; injection heq with h1 _; exact absurd h1 hne
      · rfl
    rw [hl] at hp
    simp only [parseU64, hs, parseBody, hp, hn, if_true]

theorem parseU64_dec (n : Nat) (hn : n ≤ u64Max) : parseU64 (dec n) = some n :=
  parseU64_digits _ n (numDigits_pos n) (lt_pow_numDigits n) hn

theorem parseU64_pad20 (n : Nat) (hn : n ≤ u64Max) : parseU64 (pad20 n) = some n := by
  have h : n < 10 ^ 20 := by unfold u64Max at hn; omega
  rw [pad20_eq n h]
  exact parseU64_digits 20 n (by omega) h hn

/-- a string starting with `d` is not a number -/
theorem parseU64_d (t : List Char) : parseU64 ('d' :: t) = none := by
  have : stripPlus ('d' :: t) = 'd' :: t := by
    unfold stripPlus
    split
    · rename_i heq; injection heq with h1 _; exact absurd h1 (by decide)
    · rfl
  simp only [parseU64, this, parseBody, parseDigitsAux]
  have : digitVal 'd' = none := by decide
  simp [this]

/-! ### `splitDot` -/

theorem splitDot_append (a b : List Char) (ha : ∀ c ∈ a, c ≠ '.') :
    splitDot (a ++ '.' :: b) = some a := by
  induction a with
  | nil => simp [splitDot]
  | cons x t ih =>
    have hx : x ≠ '.' := ha x (by simp)
    have := ih (fun c hc => ha c (by simp [hc]))
    simp [splitDot, hx, this]

/-! ### lexicographic order -/

theorem lexLt_snoc (a b : List Char) (x y : Char) (hlen : a.length = b.length) :
    lexLt (a ++ [x]) (b ++ [y]) = true ↔ (lexLt a b = true ∨ (a = b ∧ x.toNat < y.toNat)) := by
  induction a generalizing b with
  | nil =>
    cases b with
    | nil =>
      simp only [List.nil_append, lexLt]
      by_cases h : x.toNat < y.toNat <;> simp [h]
    | cons _ _ => simp at hlen
  | cons p as ih =>
    cases b with
    | nil => simp at hlen
    | cons q bs =>
      have hl : as.length = bs.length := by simpa using hlen
      simp only [List.cons_append, lexLt]
      by_cases h1 : p.toNat < q.toNat
      · simp [h1]
      · by_cases h2 : q.toNat < p.toNat
        · have : p ≠ q := by intro e; subst e; omega
          simp [h1, h2, this]
        · have hpq : p = q := Char.toNat_inj.1 (by omega)
          subst hpq
          simp only [h1, if_false, ih bs hl, List.cons.injEq, true_and]

theorem lexLt_append_right (a b s : List Char) (hlen : a.length = b.length) :
    lexLt (a ++ s) (b ++ s) = lexLt a b := by
  induction a generalizing b with
  | nil =>
    cases b with
    | nil =>
      simp only [List.nil_append]
      have irr : ∀ l : List Char, lexLt l l = false := by
        intro l; induction l with
        | nil => rfl
        | cons c t ih => simp [lexLt, ih]
      rw [irr]; rfl
    | cons _ _ => simp at hlen
  | cons p as ih =>
    cases b with
    | nil => simp at hlen
    | cons q bs =>
      have hl : as.length = bs.length := by simpa using hlen
      simp only [List.cons_append, lexLt, ih bs hl]

theorem map_some_inj : ∀ (l l' : List Nat), l.map some = l'.map some → l = l'
  | [], [], _ => rfl
  | [], _ :: _, h => by simp at h
  | _ :: _, [], h => by simp at h
  | a :: t, b :: t', h => by
    simp only [List.map_cons, List.cons.injEq, Option.some.injEq] at h
    rw [h.1, map_some_inj t t' h.2]

/-- fixed-width digit strings compare like the numbers -/
theorem lexLt_digitsW (w n m : Nat) (hn : n < 10 ^ w) (hm : m < 10 ^ w) :
    lexLt ((digitsW w n).map digitChar) ((digitsW w m).map digitChar) = true ↔ n < m := by
  induction w generalizing n m with
  | zero =>
    have : n = 0 := by simpa using hn
    have : m = 0 := by simpa using hm
    subst_vars; simp [digitsW, lexLt]
  | succ w ih =>
    have hn' : n / 10 < 10 ^ w := by rw [Nat.pow_succ] at hn; omega
    have hm' : m / 10 < 10 ^ w := by rw [Nat.pow_succ] at hm; omega
    simp only [digitsW, List.map_append, List.map_cons, List.map_nil]
    rw [lexLt_snoc _ _ _ _ (by simp [digitsW_length]), ih _ _ hn' hm',
      digitChar_toNat _ (show n % 10 < 10 by omega), digitChar_toNat _ (show m % 10 < 10 by omega)]
    constructor
    · rintro (h | ⟨h, h2⟩)
      · omega
      · have hinj : (digitsW w (n / 10)) = (digitsW w (m / 10)) := by
          have := congrArg (List.map digitVal) h
          simp only [List.map_map] at this
          have e : ∀ l : List Nat, (∀ d ∈ l, d < 10) → l.map (digitVal ∘ digitChar) = l.map some := by
            intro l hl
            apply List.map_congr_left
            intro d hd
            exact digitVal_digitChar d (hl d hd)
          rw [e _ (digitsW_lt_ten _ _), e _ (digitsW_lt_ten _ _)] at this
          exact map_some_inj _ _ this
        have := digitsW_inj w _ _ hn' hm' hinj
        omega
    · intro h
      by_cases h1 : n / 10 < m / 10
      · exact Or.inl h1
      · right
        have : n / 10 = m / 10 := by omega
        rw [this]
        exact ⟨rfl, by omega⟩

end LanceModel.C33.Dec
