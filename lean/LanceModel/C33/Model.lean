/-
C33 model: manifest naming and latest-version discovery.
Counterpart of rust/lance-table/src/io/commit.rs (`ManifestNamingScheme`, `current_manifest_path`,
`current_manifest_local`, `list_manifests`/`list_manifest_locations`, `migrate_scheme_to_v2`) and of
`is_detached_version` in rust/lance-table/src/format/manifest.rs, at /repo HEAD (which includes the two C33 `fix:` commits).

File names are `List Char` (ASCII; `filename.len()` in Rust is a byte length, equal to the number of chars for ASCII).
A directory listing is the list of file names of `_versions/` in the order in which the store yields them.
Import-free (core only) so that the driver links natively.
-/
namespace LanceModel.C33

abbrev Name := List Char

/-- `u64::MAX` -/
def u64Max : Nat := 18446744073709551615
/-- format/manifest.rs: `DETACHED_VERSION_MASK = 0x8000_0000_0000_0000` -/
def detachedMask : Nat := 9223372036854775808

/-- format/manifest.rs: `is_detached_version`: `version & DETACHED_VERSION_MASK != 0` -/
def isDetached (v : Nat) : Bool := (v &&& detachedMask) != 0

inductive Scheme where
  | V1
  | V2
  deriving DecidableEq, Repr

/-! ### decimal formatting (`format!("{version}")`, `format!("{v:020}")`) -/

/-- the ASCII digit of `d < 10` -/
def digitChar (d : Nat) : Char := Char.ofNat (48 + d)

/-- exactly `w` decimal digits of `n`, most significant first (the digits of `n % 10^w`) -/
def digitsW : Nat → Nat → List Nat
  | 0, _ => []
  | w + 1, n => digitsW w (n / 10) ++ [n % 10]

def numDigitsAux : Nat → Nat → Nat
  | 0, _ => 1
  | f + 1, n => if n < 10 then 1 else 1 + numDigitsAux f (n / 10)

/-- number of decimal digits of `n` (1 for 0); the fuel `n` always suffices (`Dec.lt_pow_numDigits`) -/
def numDigits (n : Nat) : Nat := numDigitsAux n n

/-- Rust `format!("{n}")` for an unsigned integer -/
def dec (n : Nat) : Name := (digitsW (numDigits n) n).map digitChar

/-- Rust `format!("{n:020}")` for an unsigned integer: left-padded with `0` to width 20 (never truncated) -/
def pad20 (n : Nat) : Name := List.replicate (20 - numDigits n) '0' ++ dec n

/-! ### decimal parsing (`str::parse::<u64>`) -/

/-- `char::to_digit(10)` -/
def digitVal (c : Char) : Option Nat :=
  if 48 ≤ c.toNat ∧ c.toNat ≤ 57 then some (c.toNat - 48) else none

/-- the digit loop of `u64::from_str`, without the overflow check -/
def parseDigitsAux : Nat → List Char → Option Nat
  | acc, [] => some acc
  | acc, c :: t =>
    match digitVal c with
    | none => none
    | some d => parseDigitsAux (10 * acc + d) t

/-- `<u64 as FromStr>::from_str`, the leading `+` is skipped -/
def stripPlus : List Char → List Char
  | '+' :: t => t
  | s => s

/-- `<u64 as FromStr>::from_str` after the sign: at least one ASCII digit, every char a decimal digit, value at most
    `u64::MAX`.  Rust checks overflow at every step; the accumulated value never decreases, so an intermediate overflow
    happens iff the final (unbounded) value exceeds `u64::MAX`. -/
def parseBody : List Char → Option Nat
  | [] => none
  | c :: t =>
    match parseDigitsAux 0 (c :: t) with
    | none => none
    | some v => if v ≤ u64Max then some v else none

/-- `<u64 as FromStr>::from_str` -/
def parseU64 (s : List Char) : Option Nat := parseBody (stripPlus s)

/-- `filename.split_once('.')`, first component: the text before the first `.`, `none` when there is no `.` -/
def splitDot : List Char → Option (List Char)
  | [] => none
  | c :: t => if c = '.' then some [] else (splitDot t).map (c :: ·)

/-! ### `ManifestNamingScheme` -/

def manifestExt : Name := ".manifest".toList      -- "." ++ MANIFEST_EXTENSION
def manifestWord : Name := "manifest".toList      -- MANIFEST_EXTENSION

/-- commit.rs: `ManifestNamingScheme::manifest_path` (file name component; the directory is always `base/_versions`) -/
def manifestName (s : Scheme) (v : Nat) : Name :=
  if isDetached v then 'd' :: (dec v ++ manifestExt)
  else match s with
    | .V1 => dec v ++ manifestExt
    | .V2 => pad20 (u64Max - v) ++ manifestExt

/-- commit.rs: `ManifestNamingScheme::parse_version` -/
def parseVersion (s : Scheme) (n : Name) : Option Nat :=
  match (splitDot n).bind parseU64 with
  | none => none
  | some x => match s with
    | .V1 => some x
    | .V2 => some (u64Max - x)

def startsWithD : Name → Bool
  | 'd' :: _ => true
  | _ => false

/-- commit.rs: `ManifestNamingScheme::detect_scheme` -/
def detectScheme (n : Name) : Option Scheme :=
  if startsWithD n then some .V2
  else if manifestWord.isSuffixOf n then
    (if n.length = 29 then some .V2 else some .V1)
  else none

/-- commit.rs: `ManifestNamingScheme::detect_scheme_staging` -/
def detectSchemeStaging (n : Name) : Scheme :=
  if n[20]? = some '.' then .V2 else .V1

/-- byte order of two ASCII names (`str::cmp`, the order of a lexically ordered listing) -/
def lexLt : Name → Name → Bool
  | [], [] => false
  | [], _ :: _ => true
  | _ :: _, [] => false
  | a :: as, b :: bs => if a.toNat < b.toNat then true else if b.toNat < a.toNat then false else lexLt as bs

/-! ### latest-version discovery -/

/-- a candidate: naming scheme, version, file name -/
structure Cand where
  scheme : Scheme
  version : Nat
  name : Name
  deriving DecidableEq, Repr

/-- commit.rs `current_manifest_path`, the `try_filter_map` (after fix 52eb141): a listed name is a candidate iff
    `detect_scheme` is `Some(scheme)` and `scheme.parse_version` is `Some`.  The same filter is `ManifestLocation::try_from`
    + `.ok()` in `list_manifests`. -/
def cand (n : Name) : Option Cand :=
  match detectScheme n with
  | none => none
  | some s =>
    match parseVersion s n with
    | none => none
    | some v => some ⟨s, v, n⟩

def valid (listing : List Name) : List Cand := listing.filterMap cand

inductive Res where
  | ok (version : Nat) (name : Name) (scheme : Scheme)
  | notFound
  | errInternal
  deriving DecidableEq, Repr

/-- commit.rs `current_manifest_path`, second match arm: the `while let` scan keeping the strictly greatest version; a
    candidate of another scheme than the first is `Error::Internal` (after fix a8abe0b) -/
def scanLoop (first : Scheme) : Nat → Name → List Cand → Res
  | cur, curName, [] => .ok cur curName first
  | cur, curName, c :: t =>
    if c.scheme ≠ first then .errInternal
    else if c.version > cur then scanLoop first c.version c.name t
    else scanLoop first cur curName t

/-- commit.rs `current_manifest_path` (list part).  In the arm `(V2, lexically ordered)` the first candidate is returned; the
    sanity loop over the next 999 candidates only logs warnings and has no effect on the result. -/
def currentManifestPath (lexOrdered : Bool) (listing : List Name) : Res :=
  match valid listing with
  | [] => .notFound
  | c :: rest =>
    if c.scheme = .V2 ∧ lexOrdered = true then .ok c.version c.name .V2
    else scanLoop c.scheme c.version c.name rest

/-- state of the loop of `current_manifest_local`: the scheme of the first detected entry, the latest entry so far -/
structure LocalSt where
  scheme : Option Scheme
  latest : Option (Nat × Name)

/-- commit.rs `current_manifest_local`, the `for entry in entries` loop; `none` = `Err(InvalidData)` (two schemes) -/
def localLoop : LocalSt → List Name → Option LocalSt
  | st, [] => some st
  | st, n :: t =>
    match detectScheme n with
    | none => localLoop st t
    | some es =>
      if st.scheme.isSome ∧ st.scheme ≠ some es then none
      else
        match parseVersion es n with
        | none => localLoop ⟨some es, st.latest⟩ t
        | some v =>
          match st.latest with
          | some (lv, ln) =>
            if v > lv then localLoop ⟨some es, some (v, n)⟩ t else localLoop ⟨some es, some (lv, ln)⟩ t
          | none => localLoop ⟨some es, some (v, n)⟩ t

/-- commit.rs `current_manifest_local`: `some r` = `Ok(Some(location))`; `none` = `Ok(None)` or `Err(_)`, both of which make
    `current_manifest_path` fall through to the listing -/
def currentManifestLocal (dirOrder : List Name) : Option Res :=
  match localLoop ⟨none, none⟩ dirOrder with
  | some ⟨some s, some (v, n)⟩ => some (.ok v n s)
  | _ => none

/-- commit.rs `CommitHandler::resolve_latest_location` = `current_manifest_path`: on a local store first
    `current_manifest_local` (entries in `read_dir` order), otherwise / on failure the listing (in `list` order). -/
def resolveLatest (isLocal lexOrdered : Bool) (dirOrder listOrder : List Name) : Res :=
  if isLocal then
    match currentManifestLocal dirOrder with
    | some r => r
    | none => currentManifestPath lexOrdered listOrder
  else currentManifestPath lexOrdered listOrder

/-! ### `list_manifest_locations` -/

/-- insert keeping descending versions; `x` goes before the first element whose version is not greater (stable when used
    with `foldr`) -/
def insertDesc (x : Cand) : List Cand → List Cand
  | [] => [x]
  | y :: t => if y.version > x.version then y :: insertDesc x t else x :: y :: t

/-- `locations.sort_by_key(|m| Reverse(m.version))` (stable) -/
def sortDesc (l : List Cand) : List Cand := l.foldr insertDesc []

/-- commit.rs `CommitHandler::list_manifest_locations` -/
def listLocations (lexOrdered sortedDescending : Bool) (listing : List Name) : List Cand :=
  if !sortedDescending then valid listing
  else if lexOrdered then
    match valid listing with
    | [] => []
    | c :: rest => if c.scheme = .V2 then c :: rest else sortDesc (c :: rest)
  else sortDesc (valid listing)

/-! ### `migrate_scheme_to_v2` -/

def isV1Name (n : Name) : Bool := detectScheme n = some .V1

/-- targets of the renames; `none` = the `.unwrap()` of `V1.parse_version` panics -/
def migrateTargets : List Name → Option (List Name)
  | [] => some []
  | n :: t =>
    match parseVersion .V1 n, migrateTargets t with
    | some v, some r => some (manifestName .V2 v :: r)
    | _, _ => none

/-- commit.rs `migrate_scheme_to_v2` on the set of file names: every name detected as V1 is renamed to the V2 name of its
    version.  A rename target is never detected as V1 (it is 29 bytes long or starts with `d`), so the renames do not
    interfere and their (concurrent) order does not matter; `rename` overwrites.  `none` = panic. -/
def migrate (dir : List Name) : Option (List Name) :=
  match migrateTargets (dir.filter isV1Name) with
  | none => none
  | some ts => some (dir.filter (fun n => !isV1Name n) ++ ts)

/-- the attached versions present in a directory (as `list_manifests` sees them) -/
def versions (dir : List Name) : List Nat := (valid dir).map (·.version)

end LanceModel.C33
