import LanceModel.C33.LatestLemmas
/-
`list_manifest_locations` (sorting) and `migrate_scheme_to_v2`.
-/
namespace LanceModel.C33.Listing
open LanceModel.C33 LanceModel.C33.Dec LanceModel.C33.Names LanceModel.C33.Latest

/-- descending by version -/
def Desc (a b : Cand) : Prop := b.version ≤ a.version

theorem mem_insertDesc (x c : Cand) (l : List Cand) : c ∈ insertDesc x l ↔ c = x ∨ c ∈ l := by
  induction l with
  | nil => simp [insertDesc]
  | cons y t ih =>
    simp only [insertDesc]
    split
    · simp only [List.mem_cons, ih]
      constructor
      · rintro (h | h | h)
        · exact Or.inr (Or.inl h)
        · exact Or.inl h
        · exact Or.inr (Or.inr h)
      · rintro (h | h | h)
        · exact Or.inr (Or.inl h)
        · exact Or.inl h
        · exact Or.inr (Or.inr h)
    · simp [List.mem_cons]

theorem mem_sortDesc (c : Cand) (l : List Cand) : c ∈ sortDesc l ↔ c ∈ l := by
  induction l with
  | nil => simp [sortDesc]
  | cons y t ih =>
    have : sortDesc (y :: t) = insertDesc y (sortDesc t) := rfl
    rw [this, mem_insertDesc, ih]; simp [List.mem_cons]

theorem sorted_insertDesc (x : Cand) (l : List Cand) (h : l.Pairwise Desc) : (insertDesc x l).Pairwise Desc := by
  induction l with
  | nil => simp [insertDesc]
  | cons y t ih =>
    obtain ⟨hy, ht⟩ := List.pairwise_cons.1 h
    simp only [insertDesc]
    split
    · rename_i hgt
      refine List.pairwise_cons.2 ⟨?_, ih ht⟩
      intro c hc
      rcases (mem_insertDesc x c t).1 hc with rfl | hc
      · unfold Desc; omega
      · exact hy c hc
    · rename_i hle
      refine List.pairwise_cons.2 ⟨?_, h⟩
      intro c hc
      rcases List.mem_cons.1 hc with rfl | hc
      · unfold Desc; omega
      · have := hy c hc
        unfold Desc at *; omega

theorem sorted_sortDesc (l : List Cand) : (sortDesc l).Pairwise Desc := by
  induction l with
  | nil => simp [sortDesc]
  | cons y t ih => exact sorted_insertDesc y _ ih

/-- on a sorted V2 listing the candidates come in strictly descending version order -/
theorem valid_pairwise {L : List Name} (hwf : WF .V2 L) (hs : L.Pairwise (fun a b => lexLt a b = true)) :
    (valid L).Pairwise (fun a b => b.version < a.version) := by
  induction L with
  | nil => simp [valid]
  | cons n t ih =>
    have hwt : WF .V2 t := fun x hx => hwf x (by simp [hx])
    have hst := (List.pairwise_cons.1 hs).2
    cases hc : cand n with
    | none =>
      have : valid (n :: t) = valid t := by simp [valid, hc]
      rw [this]; exact ih hwt hst
    | some c0 =>
      have hv : valid (n :: t) = c0 :: valid t := by simp [valid, hc]
      rw [hv]
      exact List.pairwise_cons.2 ⟨head_is_max hwf hs hv, ih hwt hst⟩

theorem list_mem (lex sorted : Bool) (L : List Name) (c : Cand) : c ∈ listLocations lex sorted L ↔ c ∈ valid L := by
  unfold listLocations
  cases sorted
  · simp
  · cases lex
    · simp [mem_sortDesc]
    · simp only [Bool.not_true, Bool.false_eq_true, if_false, if_true]
      match hv : valid L with
      | [] => simp
      | c0 :: rest =>
        simp only []
        split
        · rfl
        · exact mem_sortDesc _ _

theorem list_sorted (S : Scheme) (lex : Bool) (L : List Name) (hwf : WF S L)
    (hs : lex = true → S = .V2 → L.Pairwise (fun a b => lexLt a b = true)) :
    (listLocations lex true L).Pairwise Desc := by
  unfold listLocations
  cases lex
  · simpa using sorted_sortDesc _
  · simp only [Bool.not_true, Bool.false_eq_true, if_false, if_true]
    match hv : valid L with
    | [] => simp
    | c0 :: rest =>
      simp only []
      split
      · rename_i h2
        have hc0 : c0 ∈ valid L := by rw [hv]; simp
        obtain ⟨_, _, e, _⟩ := valid_wf hwf hc0
        have hS : S = .V2 := by rw [e] at h2; exact h2
        subst hS
        have := valid_pairwise hwf (hs rfl rfl)
        rw [hv] at this
        exact this.imp (fun h => Nat.le_of_lt h)
      · exact sorted_sortDesc _

/-! ### migration -/

theorem isV1Name_iff (n : Name) : isV1Name n = true ↔ detectScheme n = some .V1 := by
  simp [isV1Name]

theorem migrateTargets_spec (l : List Name) (h : ∀ n ∈ l, ∃ v, parseVersion .V1 n = some v) :
    ∃ ts, migrateTargets l = some ts ∧
      ∀ t, t ∈ ts ↔ ∃ n ∈ l, ∃ v, parseVersion .V1 n = some v ∧ t = manifestName .V2 v := by
  induction l with
  | nil => exact ⟨[], rfl, by simp⟩
  | cons n r ih =>
    obtain ⟨ts, hts, hmem⟩ := ih (fun x hx => h x (by simp [hx]))
    obtain ⟨v, hv⟩ := h n (by simp)
    refine ⟨manifestName .V2 v :: ts, by simp [migrateTargets, hv, hts], ?_⟩
    intro t
    simp only [List.mem_cons, hmem]
    constructor
    · rintro (rfl | ⟨x, hx, w, hw, rfl⟩)
      · exact ⟨n, Or.inl rfl, v, hv, rfl⟩
      · exact ⟨x, Or.inr hx, w, hw, rfl⟩
    · rintro ⟨x, rfl | hx, w, hw, rfl⟩
      · rw [hv] at hw; cases hw; exact Or.inl rfl
      · exact Or.inr ⟨x, hx, w, hw, rfl⟩

theorem mem_versions (d : List Name) (v : Nat) : v ∈ versions d ↔ ∃ n ∈ d, ∃ s, cand n = some ⟨s, v, n⟩ := by
  simp only [versions, List.mem_map, mem_valid]
  constructor
  · rintro ⟨c, ⟨n, hn, hc⟩, rfl⟩
    have := cand_name hc
    exact ⟨n, hn, c.scheme, by rw [hc]; cases c; simp_all⟩
  · rintro ⟨n, hn, s, hc⟩
    exact ⟨_, ⟨n, hn, hc⟩, rfl⟩

theorem cand_v1 {n : Name} {s : Scheme} {v : Nat} (hd : detectScheme n = some .V1) (hc : cand n = some ⟨s, v, n⟩) :
    s = .V1 ∧ parseVersion .V1 n = some v := by
  unfold cand at hc
  rw [hd] at hc
  simp only [] at hc
  split at hc
  · cases hc
  · rename_i w hw
    injection hc with hc; injection hc with h1 h2 _
    subst h1; subst h2
    exact ⟨rfl, hw⟩

theorem cand_of_v1 {n : Name} {v : Nat} (hd : detectScheme n = some .V1) (hp : parseVersion .V1 n = some v) :
    cand n = some ⟨.V1, v, n⟩ := by
  simp [cand, hd, hp]

/-- the precondition of migration: every V1-detected name is an attached V1 manifest name (has a version below 2^63) -/
def MigrateOk (dir : List Name) : Prop :=
  ∀ n ∈ dir, detectScheme n = some .V1 → ∃ v, v < 2 ^ 63 ∧ parseVersion .V1 n = some v

theorem migrate_spec (dir : List Name) (h : MigrateOk dir) :
    ∃ out, migrate dir = some out ∧
      (∀ v, v ∈ versions out ↔ v ∈ versions dir) ∧
      (∀ n ∈ out, detectScheme n ≠ some .V1) ∧
      (∀ n ∈ dir, detectScheme n ≠ some .V1 → n ∈ out) := by
  have hf : ∀ n ∈ dir.filter isV1Name, ∃ v, parseVersion .V1 n = some v := by
    intro n hn
    obtain ⟨hn1, hn2⟩ := List.mem_filter.1 hn
    obtain ⟨v, _, hv⟩ := h n hn1 ((isV1Name_iff n).1 hn2)
    exact ⟨v, hv⟩
  obtain ⟨ts, hts, hmem⟩ := migrateTargets_spec _ hf
  refine ⟨dir.filter (fun n => !isV1Name n) ++ ts, by simp [migrate, hts], ?_, ?_, ?_⟩
  · intro v
    rw [mem_versions, mem_versions]
    constructor
    · rintro ⟨n, hn, s, hc⟩
      rcases List.mem_append.1 hn with hn | hn
      · exact ⟨n, (List.mem_filter.1 hn).1, s, hc⟩
      · obtain ⟨n0, hn0, w, hw, rfl⟩ := (hmem n).1 hn
        obtain ⟨hn01, hn02⟩ := List.mem_filter.1 hn0
        have hd := (isV1Name_iff n0).1 hn02
        obtain ⟨w', hw63, hw'⟩ := h n0 hn01 hd
        rw [hw] at hw'; cases hw'
        rw [cand_attached .V2 w hw63] at hc
        injection hc with hc; injection hc with _ h2 _
        subst h2
        exact ⟨n0, hn01, .V1, cand_of_v1 hd hw⟩
    · rintro ⟨n, hn, s, hc⟩
      by_cases hd : detectScheme n = some .V1
      · obtain ⟨rfl, hp⟩ := cand_v1 hd hc
        obtain ⟨w, hw63, hw⟩ := h n hn hd
        rw [hp] at hw; cases hw
        refine ⟨manifestName .V2 v, ?_, .V2, cand_attached .V2 v hw63⟩
        apply List.mem_append_right
        exact (hmem _).2 ⟨n, List.mem_filter.2 ⟨hn, (isV1Name_iff n).2 hd⟩, v, hp, rfl⟩
      · refine ⟨n, ?_, s, hc⟩
        apply List.mem_append_left
        apply List.mem_filter.2
        refine ⟨hn, ?_⟩
        have : isV1Name n = false := by
          cases hb : isV1Name n
          · rfl
          · exact absurd ((isV1Name_iff n).1 hb) hd
        simp [this]
  · intro n hn
    rcases List.mem_append.1 hn with hn | hn
    · have := (List.mem_filter.1 hn).2
      intro hd
      have hb := (isV1Name_iff n).2 hd
      simp [hb] at this
    · obtain ⟨n0, hn0, w, hw, rfl⟩ := (hmem n).1 hn
      obtain ⟨hn01, hn02⟩ := List.mem_filter.1 hn0
      obtain ⟨w', hw63, hw'⟩ := h n0 hn01 ((isV1Name_iff n0).1 hn02)
      rw [hw] at hw'; cases hw'
      rw [detect_v2 w hw63]; intro hc; cases hc
  · intro n hn hd
    apply List.mem_append_left
    apply List.mem_filter.2
    refine ⟨hn, ?_⟩
    have : isV1Name n = false := by
      cases hb : isV1Name n
      · rfl
      · exact absurd ((isV1Name_iff n).1 hb) hd
    simp [this]

end LanceModel.C33.Listing
