import LanceModel.C33.ListLemmas
/-
C33 — Manifest naming and latest-version discovery are exact.

  "For every version number, the manifest path under each naming scheme parses back to that version (detached versions
   included and never mistaken for attached ones), V2 names sort in reverse version order, and resolving the latest version
   returns the highest published version for any listing order and in the presence of staging/temporary files. Migrating
   names to V2 preserves the set of versions."

The model (Model.lean) mirrors /repo HEAD, which contains the two C33 repairs of `current_manifest_path` (52eb141: names
without a parsable version are skipped instead of unwrapped; a8abe0b: V2 directories are accepted by the full scan).  On
that code the property holds at full strength; the pre-repair failures are kept as witnesses in corpus/C33/defects.case.

Vocabulary: a version `v` is attached iff `v < 2^63`, detached iff `2^63 ≤ v < 2^64` (`is_detached_version`).
`WF S L`: every name of the listing `L` is an attached manifest name of scheme `S` or carries no version at all (`Noise`:
detached manifests, staging files, temporary files, foreign files — see `noise_*`).
-/
namespace LanceModel.C33
open LanceModel.C33.Dec LanceModel.C33.Names LanceModel.C33.Latest LanceModel.C33.Listing

/-! ## 1. names parse back to their version -/

/-- V1: `parse_version(manifest_path(v)) = v` for every attached version -/
theorem parse_path_v1 (v : Nat) (hv : v < 2 ^ 63) : parseVersion .V1 (manifestName .V1 v) = some v := parse_v1 v hv

/-- V2: `parse_version(manifest_path(v)) = v` for every attached version -/
theorem parse_path_v2 (v : Nat) (hv : v < 2 ^ 63) : parseVersion .V2 (manifestName .V2 v) = some v := parse_v2 v hv

/-- the scheme of an attached name is detected from the name alone; a detached name is detected as V2 -/
theorem detect_path (s : Scheme) (v : Nat) (hv : v < 2 ^ 64) :
    detectScheme (manifestName s v) = some (if v < 2 ^ 63 then s else .V2) := by
  by_cases h : v < 2 ^ 63
  · simp only [h, if_true]; exact detect_attached s v h
  · simp only [h, if_false]; exact detect_detached s v (by omega) hv

/-- detached versions are never mistaken for attached ones: under no scheme does a detached name parse to a version, it is
    never a candidate for the latest version, and it differs from every attached name -/
theorem detached_never_attached (s s' : Scheme) (v : Nat) (h1 : 2 ^ 63 ≤ v) (h2 : v < 2 ^ 64) :
    parseVersion s' (manifestName s v) = none ∧ cand (manifestName s v) = none ∧
      ∀ w, w < 2 ^ 63 → manifestName s' w ≠ manifestName s v := by
  have hp := parse_detached s s' v h1 h2
  refine ⟨hp, ?_, ?_⟩
  · simp [cand, detect_detached s v h1 h2, parse_detached s .V2 v h1 h2]
  · intro w hw e
    have := parse_attached s' w hw
    rw [e, hp] at this; cases this

/-- detached names are recognisable: the name of a detached version is `d<version>.manifest` for both schemes -/
theorem detached_name (s : Scheme) (v : Nat) (h1 : 2 ^ 63 ≤ v) (h2 : v < 2 ^ 64) :
    manifestName s v = 'd' :: (dec v ++ ".manifest".toList) := name_detached s v h1 h2

/-- distinct versions have distinct names -/
theorem path_injective (s : Scheme) (v w : Nat) (hv : v < 2 ^ 63) (hw : w < 2 ^ 63)
    (h : manifestName s v = manifestName s w) : v = w := name_inj s v w hv hw h

/-- the scheme of a staged file (`<manifest name>-<uuid>`) is recovered by `detect_scheme_staging` -/
theorem staging_scheme (s : Scheme) (v : Nat) (hv : v < 2 ^ 63) (suffix : Name) (hs : ∀ c ∈ suffix, c ≠ '.') :
    detectSchemeStaging (manifestName s v ++ suffix) = s := by
  cases s
  · exact staging_v1 v hv suffix hs
  · exact staging_v2 v hv suffix

/-! ## 2. V2 names sort in reverse version order -/

/-- byte order of V2 names = reverse numeric order of versions -/
theorem v2_reverse_order (v w : Nat) (hv : v < 2 ^ 63) (hw : w < 2 ^ 63) :
    lexLt (manifestName .V2 v) (manifestName .V2 w) = true ↔ w < v := v2_lt_iff v w hv hw

/-- detached names list after every attached V2 name (so they never come first in a lexically ordered listing) -/
theorem detached_sorts_last (s : Scheme) (v w : Nat) (hv : v < 2 ^ 63) (h1 : 2 ^ 63 ≤ w) (h2 : w < 2 ^ 64) :
    lexLt (manifestName .V2 v) (manifestName s w) = true := by
  rw [name_v2 v hv, name_detached s w h1 h2]
  match hp : pad20 (u64Max - v) with
  | [] => exact absurd hp (pad20_ne_nil _ (inv_lt v))
  | c :: r =>
    have hc : c ∈ pad20 (u64Max - v) := by rw [hp]; simp
    obtain ⟨d, hd, rfl⟩ := mem_pad20 (inv_lt v) hc
    have h48 := digitChar_toNat d hd
    have : (digitChar d).toNat < 100 := by omega
    simp only [List.cons_append, lexLt, show 'd'.toNat = 100 by decide, this, if_true]

/-! ## 3. what discovery ignores: detached manifests, staging files, temporary files -/

theorem noise_detached (s : Scheme) (v : Nat) (h1 : 2 ^ 63 ≤ v) (h2 : v < 2 ^ 64) : Noise (manifestName s v) :=
  (detached_never_attached s s v h1 h2).2.1

/-- anything starting with `d` (detached manifests and their staging files) -/
theorem noise_d (t : Name) : Noise ('d' :: t) := by
  simp [Noise, cand, detect_d, parse_d]

/-- anything not starting with `d` whose last char is not `t` (a uuid suffix ends in a hex digit) is not even detected -/
theorem noise_last (n : Name) (c : Char) (hd : startsWithD n = false) (hl : n.getLast? = some c) (hc : c ≠ 't') :
    Noise n := by
  have : manifestWord.isSuffixOf n = false := by
    cases hb : manifestWord.isSuffixOf n
    · rfl
    · rw [List.isSuffixOf_iff_suffix] at hb
      obtain ⟨a, rfl⟩ := hb
      have : (a ++ manifestWord).getLast? = some 't' := by
        rw [show manifestWord = ['m', 'a', 'n', 'i', 'f', 'e', 's', 't'] by decide]
        simp [List.getLast?_append]
      rw [this] at hl
      exact absurd (Option.some.inj hl).symm hc
  simp [Noise, cand, detectScheme, hd, this]

theorem attached_not_d (s : Scheme) (v : Nat) (hv : v < 2 ^ 63) (t : Name) :
    startsWithD (manifestName s v ++ t) = false := by
  cases s
  · rw [name_v1 v hv, List.append_assoc]
    exact head_digit_not_d (dec_ne_nil v) (fun c hc => mem_dec hc) _
  · rw [name_v2 v hv, List.append_assoc]
    exact head_digit_not_d (pad20_ne_nil _ (inv_lt v)) (fun c hc => mem_pad20 (inv_lt v) hc) _

/-- staging files `<manifest name>-<uuid>` of attached and detached commits (the uuid ends in a hex digit, not in `t`) -/
theorem noise_staging (s : Scheme) (v : Nat) (hv : v < 2 ^ 64) (u : Name) (c : Char)
    (hl : u.getLast? = some c) (hc : c ≠ 't') : Noise (manifestName s v ++ '-' :: u) := by
  by_cases h : v < 2 ^ 63
  · have hlast : (manifestName s v ++ '-' :: u).getLast? = some c := by
      simp [List.getLast?_append, List.getLast?_cons, hl]
    exact noise_last _ c (attached_not_d s v h _) hlast hc
  · rw [name_detached s v (by omega) hv]; exact noise_d _

/-- temporary files `.tmp_<name>_<uuid>` -/
theorem noise_tmp (t : Name) (c : Char) (hl : t.getLast? = some c) (hc : c ≠ 't') : Noise ('.' :: t) := by
  have hlast : ('.' :: t).getLast? = some c := by simp [List.getLast?_cons, hl]
  exact noise_last _ c rfl hlast hc

/-! ## 4. resolving the latest version returns the highest published version -/

/-- `current_manifest_path` on a listing: for every listing order of a directory of scheme `S` that contains, besides attached
    manifests, any names without a version (detached manifests, staging and temporary files), the result is the greatest
    published version — or NotFound when nothing is published.  A store that declares its listing lexically ordered must
    list in byte order (only used for V2 directories, where the first candidate is returned). -/
theorem latest_is_max (S : Scheme) (L : List Name) (lex : Bool) (hwf : WF S L)
    (hs : lex = true → S = .V2 → L.Pairwise (fun a b => lexLt a b = true)) :
    IsLatest S L (currentManifestPath lex L) := path_is_latest S L lex hwf hs

/-- the same through `resolve_latest_location` on a local store: `current_manifest_local` over the entries in `read_dir`
    order, falling back to the listing (in `list` order); both orders are arbitrary orders of the same directory -/
theorem latest_local_is_max (S : Scheme) (dirOrder listOrder : List Name) (hwf : WF S dirOrder)
    (hsame : ∀ n, n ∈ dirOrder ↔ n ∈ listOrder) :
    IsLatest S dirOrder (resolveLatest true false dirOrder listOrder) := by
  unfold resolveLatest
  simp only [if_true]
  split
  · rename_i r hr
    exact local_is_latest S dirOrder hwf hr
  · have hwf' : WF S listOrder := fun n hn => hwf n ((hsame n).2 hn)
    have := path_is_latest S listOrder false hwf' (by intro h; cases h)
    exact isLatest_congr (fun n => (hsame n).symm) this

/-- the answer does not depend on the listing order: any two listings of the same directory (as sets of names) resolve to
    the same location, on unordered stores and — for the orders such a store may produce — on ordered ones -/
theorem latest_order_independent (S : Scheme) (L L' : List Name) (lex lex' : Bool) (hwf : WF S L)
    (hsame : ∀ n, n ∈ L ↔ n ∈ L')
    (hs : lex = true → S = .V2 → L.Pairwise (fun a b => lexLt a b = true))
    (hs' : lex' = true → S = .V2 → L'.Pairwise (fun a b => lexLt a b = true)) :
    currentManifestPath lex L = currentManifestPath lex' L' := by
  have hwf' : WF S L' := fun n hn => hwf n ((hsame n).2 hn)
  have h1 := path_is_latest S L lex hwf hs
  have h2 := isLatest_congr (fun n => (hsame n).symm) (path_is_latest S L' lex' hwf' hs')
  exact isLatest_unique h1 h2

/-! ## 5. `list_manifest_locations` -/

/-- the listed locations are exactly the published versions … -/
theorem list_complete (S : Scheme) (lex sorted : Bool) (L : List Name) (hwf : WF S L) (v : Nat) (hv : v < 2 ^ 63) :
    (⟨S, v, manifestName S v⟩ : Cand) ∈ listLocations lex sorted L ↔ manifestName S v ∈ L := by
  rw [list_mem]
  constructor
  · intro h
    obtain ⟨w, _, e, hin⟩ := valid_wf hwf h
    injection e with _ e2 _
    rw [e2]; exact hin
  · exact attached_mem_valid hv

/-- … and nothing else … -/
theorem list_sound (S : Scheme) (lex sorted : Bool) (L : List Name) (hwf : WF S L) (c : Cand)
    (h : c ∈ listLocations lex sorted L) : ∃ v, v < 2 ^ 63 ∧ c = ⟨S, v, manifestName S v⟩ ∧ manifestName S v ∈ L := by
  rw [list_mem] at h
  exact valid_wf hwf h

/-- … in descending version order when `sorted_descending` is requested -/
theorem list_sorted_desc (S : Scheme) (lex : Bool) (L : List Name) (hwf : WF S L)
    (hs : lex = true → S = .V2 → L.Pairwise (fun a b => lexLt a b = true)) :
    (listLocations lex true L).Pairwise (fun a b => b.version ≤ a.version) := list_sorted S lex L hwf hs

/-! ## 6. migration to V2 preserves the set of versions -/

/-- `migrate_scheme_to_v2`: on a directory whose V1-detected names are attached V1 manifests (arbitrary other names allowed:
    V2 manifests, detached manifests, staging/temporary/foreign files) the migration does not panic, the set of versions is
    unchanged, no V1 name is left, and every other file is untouched -/
theorem migrate_preserves (dir : List Name) (h : MigrateOk dir) :
    ∃ out, migrate dir = some out ∧
      (∀ v, v ∈ versions out ↔ v ∈ versions dir) ∧
      (∀ n ∈ out, detectScheme n ≠ some .V1) ∧
      (∀ n ∈ dir, detectScheme n ≠ some .V1 → n ∈ out) := migrate_spec dir h

/-- attached V1 manifest names satisfy the precondition of `migrate_preserves` -/
theorem migrateOk_of_wf (dir : List Name)
    (h : ∀ n ∈ dir, (∃ s v, v < 2 ^ 63 ∧ n = manifestName s v) ∨ detectScheme n ≠ some .V1) : MigrateOk dir := by
  intro n hn hd
  rcases h n hn with ⟨s, v, hv, rfl⟩ | h
  · rw [detect_attached s v hv] at hd
    injection hd with hd; subst hd
    exact ⟨v, hv, parse_v1 v hv⟩
  · exact absurd hd h

/-! ## the property, assembled -/

/-- C33 at full strength (on the repaired code) -/
def C33_full : Prop :=
  (∀ s v, v < 2 ^ 63 → parseVersion s (manifestName s v) = some v ∧ detectScheme (manifestName s v) = some s) ∧
  (∀ s s' v, 2 ^ 63 ≤ v → v < 2 ^ 64 → parseVersion s' (manifestName s v) = none ∧ cand (manifestName s v) = none) ∧
  (∀ v w, v < 2 ^ 63 → w < 2 ^ 63 → (lexLt (manifestName .V2 v) (manifestName .V2 w) = true ↔ w < v)) ∧
  (∀ S L lex, WF S L → (lex = true → S = .V2 → L.Pairwise (fun a b => lexLt a b = true)) →
      IsLatest S L (currentManifestPath lex L)) ∧
  (∀ S L L', WF S L → (∀ n, n ∈ L ↔ n ∈ L') → IsLatest S L (resolveLatest true false L L')) ∧
  (∀ dir, MigrateOk dir → ∃ out, migrate dir = some out ∧ ∀ v, v ∈ versions out ↔ v ∈ versions dir)

theorem C33_holds : C33_full := by
  refine ⟨fun s v hv => ⟨parse_attached s v hv, detect_attached s v hv⟩, ?_, v2_reverse_order, latest_is_max,
    fun S L L' hwf hs => latest_local_is_max S L L' hwf hs, ?_⟩
  · intro s s' v h1 h2
    exact ⟨(detached_never_attached s s' v h1 h2).1, (detached_never_attached s s' v h1 h2).2.1⟩
  · intro dir h
    obtain ⟨out, h1, h2, _⟩ := migrate_preserves dir h
    exact ⟨out, h1, h2⟩

/-! ## non-vacuity: concrete inputs satisfying the hypotheses, and concrete evaluations of the model -/

example : manifestName .V1 42 = "42.manifest".toList := by decide
example : manifestName .V2 42 = "18446744073709551573.manifest".toList := by decide
example : manifestName .V2 0 = "18446744073709551615.manifest".toList := by decide
example : manifestName .V1 9223372036854775813 = "d9223372036854775813.manifest".toList := by decide
example : parseVersion .V2 "18446744073709551573.manifest".toList = some 42 := by decide
example : parseVersion .V1 "d9223372036854775813.manifest".toList = none := by decide
example : lexLt (manifestName .V2 10) (manifestName .V2 9) = true := by decide
example : detectSchemeStaging "42.manifest-cee4fbbb-eb19-4ea3-8ca7-54f5ec33dedc".toList = .V1 := by decide

/-- a V2 directory with a detached manifest, a staging file of a detached commit and a temporary file -/
def exampleDir : List Name :=
  ['.' :: "tmp_7.manifest_9c100374-3298-4537-afc6-f5ee7913666d".toList,
   manifestName .V2 6, manifestName .V2 5, manifestName .V2 9223372036854775813,
   manifestName .V2 9223372036854775813 ++ '-' :: "cee4fbbb-eb19-4ea3-8ca7-54f5ec33dedc".toList]

example : WF .V2 exampleDir := by
  intro n hn
  simp only [exampleDir, List.mem_cons, List.not_mem_nil, or_false] at hn
  rcases hn with rfl | rfl | rfl | rfl | rfl
  · exact Or.inr (noise_tmp _ 'd' (by decide) (by decide))
  · exact Or.inl ⟨6, by omega, rfl⟩
  · exact Or.inl ⟨5, by omega, rfl⟩
  · exact Or.inr (noise_detached _ _ (by omega) (by omega))
  · exact Or.inr (noise_staging _ _ (by omega) _ 'c' (by decide) (by decide))

example : exampleDir.Pairwise (fun a b => lexLt a b = true) := by decide
example : currentManifestPath true exampleDir = .ok 6 (manifestName .V2 6) .V2 := by decide
example : currentManifestPath false exampleDir.reverse = .ok 6 (manifestName .V2 6) .V2 := by decide
example : resolveLatest true false exampleDir.reverse exampleDir = .ok 6 (manifestName .V2 6) .V2 := by decide
/-- the two pre-repair failures (corpus/C33/defects.case) evaluate correctly on the model of the repaired code -/
example : currentManifestPath false ["18446744073709551610.manifest".toList, "18446744073709551609.manifest".toList]
    = .ok 6 "18446744073709551609.manifest".toList .V2 := by decide
example : currentManifestPath true ["18446744073709551609.manifest".toList, "d9223372036854775813.manifest".toList]
    = .ok 6 "18446744073709551609.manifest".toList .V2 := by decide
example : currentManifestPath true ["d9223372036854775813.manifest".toList] = .notFound := by decide
/-- mixed schemes are an error, not a wrong answer -/
example : currentManifestPath false ["5.manifest".toList, "18446744073709551609.manifest".toList] = .errInternal := by decide

example : MigrateOk [manifestName .V1 5, manifestName .V2 6, manifestName .V1 9223372036854775813, "irrelevant".toList] := by
  apply migrateOk_of_wf
  intro n hn
  simp only [List.mem_cons, List.not_mem_nil, or_false] at hn
  rcases hn with rfl | rfl | rfl | rfl
  · exact Or.inl ⟨.V1, 5, by omega, rfl⟩
  · exact Or.inl ⟨.V2, 6, by omega, rfl⟩
  · right; decide
  · right; decide
example : migrate [manifestName .V1 5, manifestName .V2 6, "irrelevant".toList]
    = some [manifestName .V2 6, "irrelevant".toList, manifestName .V2 5] := by decide
example : (listLocations false true [manifestName .V1 5, manifestName .V1 10, manifestName .V1 9]).map (·.version) = [10, 9, 5] := by
  decide

end LanceModel.C33
