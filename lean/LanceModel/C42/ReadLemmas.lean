import LanceModel.C42.WorldLemmas
/-
C42 — the reader as a function of the objects BELOW its root: two (world, root) pairs that agree on every relative path
read the same, provided the manifest names no base id.  By induction over the path-resolution functions.
-/
namespace LanceModel.C42
open LanceModel.C01 (Cls Path Obj Manifest View view)
open LanceModel.C33 (manifestName isDetached)

/-- the table at `r1` in `w1` and the table at `r2` in `w2` hold the same object at every relative path -/
def Agree (w1 : World) (r1 : Root) (w2 : World) (r2 : Root) : Prop :=
  ∀ x : List Seg, getW w1 (r1 ++ x) = getW w2 (r2 ++ x)

theorem Agree.symm {w1 w2 : World} {r1 r2 : Root} (h : Agree w1 r1 w2 r2) : Agree w2 r2 w1 r1 := fun x => (h x).symm

theorem Agree.trans {w1 w2 w3 : World} {r1 r2 r3 : Root} (h : Agree w1 r1 w2 r2) (h' : Agree w2 r2 w3 r3) :
    Agree w1 r1 w3 r3 := fun x => (h x).trans (h' x)

theorem agree_copy (r r' : Root) (w : World) : Agree (copy r r' w) r' w r := fun x => getW_copy r r' w x

/-- manifest location resolution yields the same RELATIVE path on both sides -/
theorem resolveVersionW_agree {w1 w2 : World} {r1 r2 : Root} (h : Agree w1 r1 w2 r2) (v : Nat) :
    ∃ x, resolveVersionW w1 r1 v = r1 ++ x ∧ resolveVersionW w2 r2 v = r2 ++ x := by
  unfold resolveVersionW
  by_cases hd : isDetached v = true
  · simp only [hd, if_true]; exact ⟨_, rfl, rfl⟩
  · simp only [hd]
    have hp : presentW w1 (r1 ++ relSegs (.ver (manifestName .V2 v))) =
        presentW w2 (r2 ++ relSegs (.ver (manifestName .V2 v))) := by
      unfold presentW; rw [h]
    rw [hp]
    by_cases hq : presentW w2 (r2 ++ relSegs (.ver (manifestName .V2 v))) = true
    · simp only [hq, if_true]; exact ⟨_, rfl, rfl⟩
    · simp only [hq]; exact ⟨_, rfl, rfl⟩

theorem manifestAtW_agree {w1 w2 : World} {r1 r2 : Root} (h : Agree w1 r1 w2 r2) (v : Nat) :
    manifestAtW w1 r1 v = manifestAtW w2 r2 v := by
  obtain ⟨x, h1, h2⟩ := resolveVersionW_agree h v
  unfold manifestAtW
  rw [h1, h2, h x]

/-- without a base id every class directory is `root/<DIR>` -/
theorem resolve_noBase (r : Root) (b : Bases) (p : Path) (h : baseIdOf b p = none) :
    resolve r b p = some (r ++ relSegs p) := by
  cases p with
  | ver n => simp [resolve, relSegs]
  | file c id sub =>
    simp only [resolve, h, classDir, relSegs]
    simp

theorem fetch_agree {w1 w2 : World} {r1 r2 : Root} (h : Agree w1 r1 w2 r2) (b : Bases) (p : Path)
    (hb : baseIdOf b p = none) : fetch w1 (resolve r1 b p) = fetch w2 (resolve r2 b p) := by
  rw [resolve_noBase r1 b p hb, resolve_noBase r2 b p hb]
  simp only [fetch]
  rw [h]

theorem derefsW_agree {w1 w2 : World} {r1 r2 : Root} (h : Agree w1 r1 w2 r2) (m : Manifest) (b : Bases)
    (hnb : usesNoBase m b = true) : derefsW w1 r1 m b = derefsW w2 r2 m b := by
  unfold derefsW
  apply List.map_congr_left
  intro p hp
  have hb : baseIdOf b p = none := by
    have := (List.all_eq_true.1 hnb) p hp
    simpa using this
  rw [fetch_agree h b p hb]

/-- **the reader is a function of the objects below its root.** -/
theorem readW_agree {w1 w2 : World} {r1 r2 : Root} (h : Agree w1 r1 w2 r2) (v : Nat)
    (hnb : ∀ m b, manifestAtW w1 r1 v = some (m, b) → usesNoBase m b = true) :
    readW w1 r1 v = readW w2 r2 v := by
  unfold readW
  rw [← manifestAtW_agree h v]
  cases hm : manifestAtW w1 r1 v with
  | none => rfl
  | some mb =>
    obtain ⟨m, b⟩ := mb
    simp only
    rw [derefsW_agree h m b (hnb m b hm)]

theorem tagGet_agree {w1 w2 : World} {r1 r2 : Root} (h : Agree w1 r1 w2 r2) (t : C33.Name) :
    tagGet w1 r1 t = tagGet w2 r2 t := by
  unfold tagGet; rw [h]

/-- every path the reader of a base-free version touches lies below the root it was opened at -/
theorem touched_under (w : World) (r : Root) (v : Nat)
    (hnb : ∀ m b, manifestAtW w r v = some (m, b) → usesNoBase m b = true) :
    ∀ oa ∈ touched w r v, ∃ a, oa = some a ∧ under r a = true := by
  intro oa hoa
  unfold touched at hoa
  cases hm : manifestAtW w r v with
  | none => rw [hm] at hoa; cases hoa
  | some mb =>
    obtain ⟨m, b⟩ := mb
    rw [hm] at hoa
    simp only [List.mem_map] at hoa
    obtain ⟨p, hp, rfl⟩ := hoa
    have hb : baseIdOf b p = none := by
      have := (List.all_eq_true.1 (hnb m b hm)) p hp
      simpa using this
    exact ⟨_, resolve_noBase r b p hb, under_append _ _⟩

theorem resolveVersionW_under (w : World) (r : Root) (v : Nat) : under r (resolveVersionW w r v) = true := by
  obtain ⟨x, h1, _⟩ := resolveVersionW_agree (w1 := w) (w2 := w) (r1 := r) (r2 := r) (fun _ => rfl) v
  rw [h1]; exact under_append _ _

/-! ### worlds that agree below one root -/

/-- lookups below `r'` in `removeDir r (w ++ copy r r' w)`: the original is gone, the copy is all there is -/
theorem agree_after_removal (r r' : Root) (w : World) (h1 : under r r' = false) (h2 : under r' r = false)
    (hfresh : ∀ e ∈ w, under r' e.1 = false) :
    Agree (removeDir r (w ++ copy r r' w)) r' (copy r r' w) r' := by
  intro x
  have hk : (fun a => !under r a) (r' ++ x) = true := by
    simp [disjoint_roots r r' h1 h2 x]
  unfold removeDir
  rw [getW_filter_keep (w ++ copy r r' w) (fun a => !under r a) (r' ++ x) hk, getW_append]
  have hn : getW w (r' ++ x) = none := by
    apply getW_none_of_not_mem
    intro e he heq
    have := hfresh e he
    rw [heq, under_append] at this; cases this
  rw [hn]

end LanceModel.C42
