import LanceModel.C01.Model
/-
C42 model: a copied table root is a complete, identical table.

C01 models ONE table as a store `path below the root → object`.  Here the object store is GLOBAL: a key is an absolute
path (a list of segments), a table is whatever lives below a ROOT (a prefix), and the reader of a table is a function of
(world, root): every path it touches is computed by the path-resolution functions below from the root it was opened at
and from what the manifest stores.  What the manifest stores is RELATIVE (a data file name below `data/`, the
(fragment, read version, id) triple of a deletion file below `_deletions/`, an index uuid below `_indices/`, a
transaction file name below `_transactions/`, a tag file below `_refs/tags/`) — unless a file carries a `base_id`: then
the manifest's `base_paths` table gives an ABSOLUTE location (shallow clones, branches, multi-base tables).

  rust/lance/src/dataset.rs            Dataset::{data_dir, indices_dir, data_file_dir, dataset_dir_for_deletion,
                                       indice_files_dir}, checkout / load_manifest through
  rust/lance-table/src/io/commit.rs    default_resolve_version / current_manifest_path (C33, C01)
  rust/lance/src/dataset/fragment.rs   FileFragment::open_reader: `data_file_dir(file)?.child(file.path)`
  rust/lance-table/src/io/deletion.rs  deletion_file_path(base, fragment id, deletion file)
  rust/lance/src/index/scalar.rs       `indice_files_dir(index)?.child(uuid)`
  rust/lance/src/dataset/refs.rs       tag_path / base_tags_path, Tags::{create, delete, get, list}
  rust/lance-table/src/format/manifest.rs   BasePath, Manifest::shallow_clone
  rust/lance/src/io/commit.rs          do_commit_new_dataset, `Operation::Clone` arm

A copy is `cp -r`: every object below `root` re-keyed below `root'`, bytes untouched.

Objects, manifests, the scan (`view`) and the operations of a table are C01's (imported read-only); manifests with
base paths are a new kind of object.  Import-free apart from the (import-free) C01 / C33 models.
-/
namespace LanceModel.C42
open LanceModel.C01 (Cls Path Obj Manifest Frag DataFile Index View view)
open LanceModel.C33 (Name Scheme manifestName isDetached)

/-- one segment of an object-store path.  File names that are uuids (or derived from fresh numbers) in the real code
    are kept as the numbers C01 uses: `file id sub` is the name of the `sub`-th file of object `id`, `uid id` the
    directory `_indices/<uuid>`, `part k` a file inside it. -/
inductive Seg where
  | lit (s : List Char)
  | file (id sub : Nat)
  | uid (id : Nat)
  | part (k : Nat)
  deriving DecidableEq, Repr

/-- an absolute object-store path -/
abbrev Abs := List Seg
/-- a table root: the location the dataset is opened at -/
abbrev Root := List Seg

def versionsDir : Seg := .lit "_versions".toList
def dataDir : Seg := .lit "data".toList
def deletionsDir : Seg := .lit "_deletions".toList
def indicesDir : Seg := .lit "_indices".toList
def transactionsDir : Seg := .lit "_transactions".toList
def refsDir : Seg := .lit "_refs".toList
def tagsDir : Seg := .lit "tags".toList

/-- lance-table/src/format.rs `DATA_DIR`, io/deletion.rs `DELETION_DIRS`, `INDICES_DIR`, `TRANSACTIONS_DIR` -/
def clsDir : Cls → Seg
  | .data => dataDir
  | .del => deletionsDir
  | .idx => indicesDir
  | .txn => transactionsDir

/-- what is appended to the directory of the class: `child(data_file.path)`, `child("{frag}-{read_version}-{id}.arrow")`,
    `child(uuid).child(file)`, `child(transaction_file)` -/
def clsTail : Cls → Nat → Nat → List Seg
  | .idx, id, sub => [.uid id, .part sub]
  | _, id, sub => [.file id sub]

/-- the location of a C01 path below a dataset root -/
def relSegs : Path → List Seg
  | .file c id sub => clsDir c :: clsTail c id sub
  | .ver n => [versionsDir, .lit n]

/-- refs.rs `tag_path`: `_refs/tags/<name>.json` -/
def tagRel (t : Name) : List Seg := [refsDir, tagsDir, .lit (t ++ ".json".toList)]

/-! ### base paths -/

/-- format/manifest.rs `BasePath` (id is the key of the table): the absolute location and `is_dataset_root` -/
structure BasePath where
  path : Abs
  isRoot : Bool
  deriving DecidableEq, Repr

/-- the part of a manifest C01 does not have: `Manifest::base_paths` and the `base_id` of every data file
    (`DataFile::base_id`), deletion file (`DeletionFile::base_id`) and index (`IndexMetadata::base_id`), keyed by the
    C01 identifier of the file -/
structure Bases where
  table : List (Nat × BasePath)
  dataBase : List (Nat × Nat)
  delBase : List (Nat × Nat)
  idxBase : List (Nat × Nat)
  deriving DecidableEq, Repr

def noBases : Bases := ⟨[], [], [], []⟩

def lookup {β : Type} : List (Nat × β) → Nat → Option β
  | [], _ => none
  | (k, v) :: t, q => if k = q then some v else lookup t q

/-- the `base_id` a referenced file carries (transaction files and manifests never have one) -/
def baseIdOf (b : Bases) : Path → Option Nat
  | .file .data id _ => lookup b.dataBase id
  | .file .del id _ => lookup b.delBase id
  | .file .idx id _ => lookup b.idxBase id
  | .file .txn _ _ => none
  | .ver _ => none

/-- objects of the global store -/
inductive WObj where
  /-- anything C01 knows: data / deletion / index / transaction files, manifests WITHOUT base paths -/
  | obj (o : Obj)
  /-- a manifest with a base-path table -/
  | xman (m : Manifest) (b : Bases)
  /-- `_refs/tags/<name>.json`: `TagContents { branch: None, version, manifest_size }` -/
  | tag (v : Nat)
  deriving DecidableEq, Repr

abbrev World := List (Abs × WObj)

def getW : World → Abs → Option WObj
  | [], _ => none
  | (q, o) :: t, p => if q = p then some o else getW t p

def presentW (w : World) (p : Abs) : Bool := (getW w p).isSome

/-! ### the reader's path resolution: functions of (root the table was opened at, manifest) -/

/-- `Dataset::data_file_dir` / `dataset_dir_for_deletion` + `deletion_file_path` / `indice_files_dir` / the
    transactions directory: the directory of a class, for a file with the given `base_id`.
    * no base id: `self.base.child(DIR)`;
    * base id: the entry of `manifest.base_paths` (missing: `invalid_input`); a dataset-root base gets the standard
      subdirectory, a non-root base IS the directory (refused for deletion files: `Error::Internal`). -/
def classDir (root : Root) (b : Bases) (c : Cls) : Option Nat → Option Abs
  | none => some (root ++ [clsDir c])
  | some bid =>
    match lookup b.table bid with
    | none => none
    | some bp =>
      if bp.isRoot then some (bp.path ++ [clsDir c])
      else if c = .del then none
      else some bp.path

/-- absolute location of a file the manifest names; `none` = the reader reports an error -/
def resolve (root : Root) (b : Bases) : Path → Option Abs
  | .file c id sub =>
    match classDir root b c (baseIdOf b (.file c id sub)) with
    | some d => some (d ++ clsTail c id sub)
    | none => none
  | .ver n => some (root ++ [versionsDir, .lit n])

/-- commit.rs `default_resolve_version` at `root` (C01.resolveVersion): detached → the `d` name; otherwise the V2 name if
    it exists, else the V1 name -/
def resolveVersionW (w : World) (root : Root) (v : Nat) : Abs :=
  if isDetached v then root ++ relSegs (.ver (manifestName .V2 v))
  else if presentW w (root ++ relSegs (.ver (manifestName .V2 v))) then root ++ relSegs (.ver (manifestName .V2 v))
  else root ++ relSegs (.ver (manifestName .V1 v))

def manOf : WObj → Option (Manifest × Bases)
  | .obj (.man m) => some (m, noBases)
  | .xman m b => some (m, b)
  | _ => none

/-- `checkout_version(v)` on the table opened at `root` -/
def manifestAtW (w : World) (root : Root) (v : Nat) : Option (Manifest × Bases) :=
  match getW w (resolveVersionW w root v) with
  | some o => manOf o
  | none => none

/-- what a file object decodes to -/
def fileObj : WObj → Option Obj
  | .obj o => some o
  | .xman m _ => some (.man m)
  | .tag _ => none

def fetch (w : World) : Option Abs → Option Obj
  | some a => (getW w a).bind fileObj
  | none => none

/-- dereference every file the manifest names (C01.derefs), through the path-resolution functions -/
def derefsW (w : World) (root : Root) (m : Manifest) (b : Bases) : List (Path × Option Obj) :=
  m.refs.map (fun p => (p, fetch w (resolve root b p)))

/-- `read world root v`: open the table at `root`, check out `v`, read every file the manifest names: rows (schema
    width, deletions applied), number of indices, config; `none` when the manifest or a file cannot be read -/
def readW (w : World) (root : Root) (v : Nat) : Option View :=
  match manifestAtW w root v with
  | none => none
  | some (m, b) => if (derefsW w root m b).all (fun e => e.2.isSome) then some (view m (derefsW w root m b)) else none

/-- the paths the reader of (root, v) touches besides the manifest -/
def touched (w : World) (root : Root) (v : Nat) : List (Option Abs) :=
  match manifestAtW w root v with
  | none => []
  | some (m, b) => m.refs.map (resolve root b)

/-! ### listings below a root -/

/-- `a` relative to `root` -/
def stripRoot (root : Root) (a : Abs) : Option (List Seg) :=
  if root.isPrefixOf a then some (a.drop root.length) else none

def verNameOf : List Seg → Option Name
  | [d, .lit n] => if d = versionsDir then some n else none
  | _ => none

/-- listing of `<root>/_versions/` (file names, store order) -/
def namesAt (w : World) (root : Root) : List Name :=
  w.filterMap (fun e => (stripRoot root e.1).bind verNameOf)

/-- `Dataset::versions()` of the table at `root` -/
def versionsW (w : World) (root : Root) : List Nat := C33.versions (namesAt w root)

/-- `resolve_latest_location` -/
def latestW (w : World) (root : Root) : C33.Res := C33.currentManifestPath false (namesAt w root)

def tagNameOf : List Seg → Option Name
  | [a, b, .lit n] =>
    if a = refsDir ∧ b = tagsDir ∧ ".json".toList.isSuffixOf n then some (n.take (n.length - 5)) else none
  | _ => none

/-- `Tags::list`: every `_refs/tags/*.json` with its contents -/
def tagsAt (w : World) (root : Root) : List (Name × Nat) :=
  w.filterMap (fun e =>
    match (stripRoot root e.1).bind tagNameOf, e.2 with
    | some n, .tag v => some (n, v)
    | _, _ => none)

/-- `Tags::get` -/
def tagGet (w : World) (root : Root) (t : Name) : Option Nat :=
  match getW w (root ++ tagRel t) with
  | some (.tag v) => some v
  | _ => none

/-- `checkout_version(tag)` + read -/
def readTag (w : World) (root : Root) (t : Name) : Option View :=
  match tagGet w root t with
  | some v => readW w root v
  | none => none

/-! ### copying a root, removing a root -/

def under (root : Root) (a : Abs) : Bool := root.isPrefixOf a

/-- `cp -r root root'` seen alone: every object below `root`, re-keyed below `root'`; nothing else (so this is also the
    world in which the original has been removed) -/
def copy (root root' : Root) (w : World) : World :=
  (w.filter (fun e => under root e.1)).map (fun e => (root' ++ e.1.drop root.length, e.2))

/-- `rm -r root` -/
def removeDir (root : Root) (w : World) : World := w.filter (fun e => !under root e.1)

/-! ### predicates on manifests -/

/-- no file the manifest names carries a base id: every path is resolved relative to the root the table is opened at -/
def usesNoBase (m : Manifest) (b : Bases) : Bool := m.refs.all (fun p => (baseIdOf b p).isNone)

/-- the weaker reading of "no base path other than the root": every base id that is used names a dataset-root base whose
    absolute path IS `root` -/
def basesAreRoot (root : Root) (m : Manifest) (b : Bases) : Bool :=
  m.refs.all (fun p =>
    match baseIdOf b p with
    | none => true
    | some bid =>
      match lookup b.table bid with
      | some bp => bp.isRoot && decide (bp.path = root)
      | none => false)

/-! ### placing a C01 table at a root -/

/-- the objects of a C01 store at their absolute locations below `root` -/
def place (root : Root) (s : C01.Store) : World := s.map (fun e => (root ++ relSegs e.1, WObj.obj e.2))

def placeTags (root : Root) (tags : List (Name × Nat)) : World :=
  tags.map (fun e => (root ++ tagRel e.1, WObj.tag e.2))

/-- a table without base paths: the C01 state plus its tags (first-match association list) -/
structure Tbl where
  st : C01.St
  tags : List (Name × Nat)

def Tbl.empty : Tbl := ⟨C01.St.empty, []⟩

def flatten (root : Root) (t : Tbl) : World := place root t.st.store ++ placeTags root t.tags

/-! ### tag operations (refs.rs `Tags::create`, `Tags::delete`) -/

inductive TagErr where
  | conflict | notFound
  deriving DecidableEq, Repr

def tagLookup : List (Name × Nat) → Name → Option Nat
  | [], _ => none
  | (k, v) :: t, q => if k = q then some v else tagLookup t q

/-- `Tags::create(tag, version)`: RefConflict if the tag file exists, VersionNotFound unless the manifest file of the
    version exists -/
def tagCreate (t : Tbl) (n : Name) (v : Nat) : Except TagErr Tbl :=
  if (tagLookup t.tags n).isSome then .error .conflict
  else if !C01.present t.st.store (C01.resolveVersion t.st.store v) then .error .notFound
  else .ok { t with tags := t.tags ++ [(n, v)] }

/-- `Tags::delete` -/
def tagDelete (t : Tbl) (n : Name) : Except TagErr Tbl :=
  if (tagLookup t.tags n).isNone then .error .notFound
  else .ok { t with tags := t.tags.filter (fun e => e.1 ≠ n) }

/-- histories of base-free tables: C01 programs (the 13 table operations, any fault) and tag operations -/
inductive HOp where
  | prog (p : C01.Prog)
  | tag (n : Name) (v : Nat)
  | untag (n : Name)

def stepH (cfg : C01.Cfg) (t : Tbl) : HOp → Tbl
  | .prog p => { t with st := (C01.stepOp cfg t.st p).1 }
  | .tag n v =>
    match tagCreate t n v with
    | .ok t' => t'
    | .error _ => t
  | .untag n =>
    match tagDelete t n with
    | .ok t' => t'
    | .error _ => t

def runH (cfg : C01.Cfg) : Tbl → List HOp → Tbl
  | t, [] => t
  | t, o :: rest => runH cfg (stepH cfg t o) rest

/-! ### shallow clone (io/commit.rs `do_commit_new_dataset`, `Operation::Clone` arm; `Manifest::shallow_clone`) -/

def maxKey : List (Nat × BasePath) → Option Nat
  | [] => none
  | (k, _) :: t =>
    match maxKey t with
    | none => some k
    | some j => some (if k ≤ j then j else k)

/-- `source_manifest.base_paths.keys().max().map(|id| *id + 1).unwrap_or(0)` -/
def newBaseId (table : List (Nat × BasePath)) : Nat :=
  match maxKey table with
  | some k => k + 1
  | none => 0

/-- give `bid` to every listed id that has no base id yet -/
def fillBase (old : List (Nat × Nat)) (ids : List Nat) (bid : Nat) : List (Nat × Nat) :=
  old ++ (ids.filter (fun i => (lookup old i).isNone)).map (fun i => (i, bid))

/-- `Manifest::shallow_clone` + the index loop of `do_commit_new_dataset`: data files and deletion files WITHOUT a base
    id get the new one; EVERY index gets it (`index.base_id = Some(new_base_id)` overwrites); the base table gains
    `(new id ↦ ref_path, is_dataset_root = true)` -/
def cloneBases (src : Root) (m : Manifest) (b : Bases) : Bases :=
  let nid := newBaseId b.table
  { table := b.table ++ [(nid, ⟨src, true⟩)],
    dataBase := fillBase b.dataBase (m.frags.flatMap (fun f => f.files.map (·.id))) nid,
    delBase := fillBase b.delBase (m.frags.filterMap (·.del)) nid,
    idxBase := m.indices.map (fun i => (i.id, nid)) }

/-- `Dataset::shallow_clone(dst, v)` of the table at `src`: the transaction file, then the cloned manifest (same
    version number, `sch` = naming scheme of the new dataset) at `dst`.  `tx` = fresh id of the transaction file.
    `none` = the source version does not exist. -/
def shallowClone (w : World) (src : Root) (v : Nat) (dst : Root) (sch : Scheme) (tx : Nat) : Option World :=
  match manifestAtW w src v with
  | none => none
  | some (m, b) =>
    some (w ++ [(dst ++ relSegs (.file .txn tx 0), .obj .blob),
                (dst ++ relSegs (.ver (manifestName sch v)), .xman { m with txn := tx } (cloneBases src m b))])

end LanceModel.C42
