import LanceModel.C42.Model
/-
C42 — lemmas about the global store: lookups below a root after `copy` / `removeDir` / `++`, listings after `copy`.
-/
namespace LanceModel.C42

theorem under_iff (r : Root) (a : Abs) : under r a = true ↔ ∃ x, a = r ++ x := by
  unfold under
  rw [List.isPrefixOf_iff_prefix]
  constructor
  · rintro ⟨t, rfl⟩; exact ⟨t, rfl⟩
  · rintro ⟨t, rfl⟩; exact ⟨t, rfl⟩

theorem under_append (r : Root) (x : List Seg) : under r (r ++ x) = true := (under_iff r _).2 ⟨x, rfl⟩

theorem stripRoot_append (r : Root) (x : List Seg) : stripRoot r (r ++ x) = some x := by
  have h : r.isPrefixOf (r ++ x) = true := under_append r x
  simp [stripRoot, h]

theorem stripRoot_not_under (r : Root) (a : Abs) (h : under r a = false) : stripRoot r a = none := by
  unfold under at h
  simp [stripRoot, h]

theorem getW_cons (a : Abs) (o : WObj) (t : World) (p : Abs) :
    getW ((a, o) :: t) p = if a = p then some o else getW t p := rfl

theorem getW_append (w1 w2 : World) (p : Abs) :
    getW (w1 ++ w2) p = match getW w1 p with
      | some o => some o
      | none => getW w2 p := by
  induction w1 with
  | nil => rfl
  | cons e t ih =>
    obtain ⟨a, o⟩ := e
    simp only [List.cons_append, getW_cons]
    by_cases h : a = p
    · simp [h]
    · simp only [h, if_false]; exact ih

theorem copy_cons_under (r r' : Root) (y : List Seg) (o : WObj) (t : World) :
    copy r r' ((r ++ y, o) :: t) = (r' ++ y, o) :: copy r r' t := by
  simp [copy, under_append]

theorem copy_cons_not_under (r r' : Root) (a : Abs) (o : WObj) (t : World) (h : under r a = false) :
    copy r r' ((a, o) :: t) = copy r r' t := by
  simp [copy, h]

/-- what the copy holds at `root' ++ x` is what the original held at `root ++ x` -/
theorem getW_copy (r r' : Root) (w : World) (x : List Seg) :
    getW (copy r r' w) (r' ++ x) = getW w (r ++ x) := by
  induction w with
  | nil => rfl
  | cons e t ih =>
    obtain ⟨a, o⟩ := e
    cases hu : under r a with
    | true =>
      obtain ⟨y, rfl⟩ := (under_iff r a).1 hu
      rw [copy_cons_under, getW_cons, getW_cons]
      by_cases hy : y = x
      · subst hy; simp
      · have h1 : ¬ (r' ++ y = r' ++ x) := fun h => hy (List.append_cancel_left h)
        have h2 : ¬ (r ++ y = r ++ x) := fun h => hy (List.append_cancel_left h)
        simp only [h1, h2, if_false]; exact ih
    | false =>
      rw [copy_cons_not_under _ _ _ _ _ hu, getW_cons]
      have h2 : ¬ (a = r ++ x) := by
        intro h; subst h; rw [under_append] at hu; cases hu
      simp only [h2, if_false]; exact ih

/-- the copy holds nothing outside `root'` -/
theorem getW_copy_outside (r r' : Root) (w : World) (a : Abs) (h : under r' a = false) :
    getW (copy r r' w) a = none := by
  induction w with
  | nil => rfl
  | cons e t ih =>
    obtain ⟨q, o⟩ := e
    cases hu : under r q with
    | true =>
      obtain ⟨y, rfl⟩ := (under_iff r q).1 hu
      rw [copy_cons_under, getW_cons]
      have h2 : ¬ (r' ++ y = a) := by
        intro e; subst e; rw [under_append] at h; cases h
      simp only [h2, if_false]; exact ih
    | false => rw [copy_cons_not_under _ _ _ _ _ hu]; exact ih

theorem mem_copy_under (r r' : Root) (w : World) (e : Abs × WObj) (h : e ∈ copy r r' w) : under r' e.1 = true := by
  unfold copy at h
  obtain ⟨e0, _, rfl⟩ := List.mem_map.1 h
  exact under_append _ _

/-- the listing of `_versions/` is copied verbatim (same names, same order) -/
theorem namesAt_copy (r r' : Root) (w : World) : namesAt (copy r r' w) r' = namesAt w r := by
  induction w with
  | nil => rfl
  | cons e t ih =>
    obtain ⟨a, o⟩ := e
    cases hu : under r a with
    | true =>
      obtain ⟨y, rfl⟩ := (under_iff r a).1 hu
      rw [copy_cons_under]
      unfold namesAt at ih ⊢
      simp only [List.filterMap_cons, stripRoot_append]
      rw [ih]
    | false =>
      rw [copy_cons_not_under _ _ _ _ _ hu]
      unfold namesAt at ih ⊢
      simp only [List.filterMap_cons, stripRoot_not_under r a hu, Option.bind_none]
      exact ih

/-- the tag files are copied verbatim -/
theorem tagsAt_copy (r r' : Root) (w : World) : tagsAt (copy r r' w) r' = tagsAt w r := by
  induction w with
  | nil => rfl
  | cons e t ih =>
    obtain ⟨a, o⟩ := e
    cases hu : under r a with
    | true =>
      obtain ⟨y, rfl⟩ := (under_iff r a).1 hu
      rw [copy_cons_under]
      unfold tagsAt at ih ⊢
      simp only [List.filterMap_cons, stripRoot_append]
      rw [ih]
    | false =>
      rw [copy_cons_not_under _ _ _ _ _ hu]
      unfold tagsAt at ih ⊢
      simp only [List.filterMap_cons, stripRoot_not_under r a hu, Option.bind_none]
      exact ih

theorem getW_filter_keep (w : World) (f : Abs → Bool) (p : Abs) (h : f p = true) :
    getW (w.filter (fun e => f e.1)) p = getW w p := by
  induction w with
  | nil => rfl
  | cons e t ih =>
    obtain ⟨a, o⟩ := e
    simp only [List.filter_cons]
    cases hf : f a with
    | true =>
      simp only [if_true, getW_cons]
      by_cases hap : a = p
      · simp [hap]
      · simp only [hap, if_false]; exact ih
    | false =>
      have hap : ¬ (a = p) := by intro e; subst e; rw [h] at hf; cases hf
      simp only [Bool.false_eq_true, if_false, getW_cons, hap]; exact ih

theorem getW_none_of_not_mem (w : World) (p : Abs) (h : ∀ e ∈ w, e.1 ≠ p) : getW w p = none := by
  induction w with
  | nil => rfl
  | cons e t ih =>
    obtain ⟨a, o⟩ := e
    have ha : ¬ (a = p) := h (a, o) (by simp)
    rw [getW_cons]; simp only [ha, if_false]
    exact ih (fun e he => h e (by simp [he]))

/-- two roots neither of which lies below the other share no path -/
theorem disjoint_roots (r r' : Root) (h1 : under r r' = false) (h2 : under r' r = false) (x : List Seg) :
    under r (r' ++ x) = false := by
  cases h : under r (r' ++ x) with
  | false => rfl
  | true =>
    exfalso
    have hp1 : r <+: r' ++ x := by unfold under at h; exact List.isPrefixOf_iff_prefix.1 h
    have hp2 : r' <+: r' ++ x := List.prefix_append _ _
    rcases List.prefix_or_prefix_of_prefix hp1 hp2 with h3 | h3
    · have : under r r' = true := by unfold under; exact List.isPrefixOf_iff_prefix.2 h3
      rw [this] at h1; cases h1
    · have : under r' r = true := by unfold under; exact List.isPrefixOf_iff_prefix.2 h3
      rw [this] at h2; cases h2

end LanceModel.C42
