import LanceModel.C42.Driver
def main : IO Unit := LanceModel.Util.runDriver LanceModel.C42.Driver.step LanceModel.C42.Driver.init
