import LanceModel.C42.ReadLemmas
/-
C42 — the bridge to C01: a C01 table placed at a root (`place` / `flatten`) is read by the rooted reader exactly as C01's
`read` reads the relative store; the same table placed at two roots agrees on every relative path.
-/
namespace LanceModel.C42
open LanceModel.C01 (Cls Path Obj Manifest View view)
open LanceModel.C33 (Name manifestName isDetached)

theorem clsDir_ne_versions (c : Cls) : clsDir c ≠ versionsDir := by
  cases c <;> decide

theorem clsDir_inj (c d : Cls) (h : clsDir c = clsDir d) : c = d := by
  cases c <;> cases d <;> first | rfl | (exfalso; revert h; decide)

/-- distinct relative C01 paths live at distinct locations -/
theorem relSegs_inj (p q : Path) (h : relSegs p = relSegs q) : p = q := by
  cases p with
  | ver n =>
    cases q with
    | ver n' => simp only [relSegs, List.cons.injEq, Seg.lit.injEq, and_true, true_and] at h; rw [h]
    | file c id sub =>
      simp only [relSegs, List.cons.injEq] at h
      exact absurd h.1.symm (clsDir_ne_versions c)
  | file c id sub =>
    cases q with
    | ver n' =>
      simp only [relSegs, List.cons.injEq] at h
      exact absurd h.1 (clsDir_ne_versions c)
    | file c' id' sub' =>
      simp only [relSegs, List.cons.injEq] at h
      have hc := clsDir_inj c c' h.1
      subst hc
      have h2 := h.2
      cases c <;> simp [clsTail] at h2 <;> obtain ⟨rfl, rfl⟩ := h2 <;> rfl

theorem tagRel_ne_relSegs (t : Name) (p : Path) : tagRel t ≠ relSegs p := by
  cases p with
  | ver n => simp [tagRel, relSegs]
  | file c id sub => cases c <;> simp [tagRel, relSegs, clsTail, clsDir, refsDir, dataDir, deletionsDir, indicesDir,
      transactionsDir] <;> decide

theorem getW_place (r : Root) (s : C01.Store) (p : Path) :
    getW (place r s) (r ++ relSegs p) = (C01.get s p).map WObj.obj := by
  induction s with
  | nil => rfl
  | cons e t ih =>
    obtain ⟨q, o⟩ := e
    show getW ((r ++ relSegs q, WObj.obj o) :: place r t) (r ++ relSegs p) = _
    rw [getW_cons]
    simp only [C01.get]
    by_cases hq : q = p
    · subst hq; simp
    · have h1 : ¬ (r ++ relSegs q = r ++ relSegs p) := fun h => hq (relSegs_inj _ _ (List.append_cancel_left h))
      simp only [h1, hq, if_false]; exact ih

theorem getW_placeTags_relSegs (r : Root) (tags : List (Name × Nat)) (p : Path) :
    getW (placeTags r tags) (r ++ relSegs p) = none := by
  apply getW_none_of_not_mem
  intro e he heq
  unfold placeTags at he
  obtain ⟨e0, _, rfl⟩ := List.mem_map.1 he
  exact tagRel_ne_relSegs e0.1 p (List.append_cancel_left heq)

theorem getW_flatten (r : Root) (t : Tbl) (p : Path) :
    getW (flatten r t) (r ++ relSegs p) = (C01.get t.st.store p).map WObj.obj := by
  unfold flatten
  rw [getW_append, getW_place, getW_placeTags_relSegs]
  cases C01.get t.st.store p <;> rfl

/-- the same list of (relative path, object) pairs placed at two roots agrees on every relative path -/
theorem agree_rel (l : List (List Seg × WObj)) (r r' : Root) :
    Agree (l.map (fun e => (r ++ e.1, e.2))) r (l.map (fun e => (r' ++ e.1, e.2))) r' := by
  intro x
  induction l with
  | nil => rfl
  | cons e t ih =>
    obtain ⟨q, o⟩ := e
    simp only [List.map_cons, getW_cons]
    by_cases hq : q = x
    · subst hq; simp
    · have h1 : ¬ (r ++ q = r ++ x) := fun h => hq (List.append_cancel_left h)
      have h2 : ¬ (r' ++ q = r' ++ x) := fun h => hq (List.append_cancel_left h)
      simp only [h1, h2, if_false]; exact ih

/-- relative form of a flattened table -/
def relObjs (t : Tbl) : List (List Seg × WObj) :=
  t.st.store.map (fun e => (relSegs e.1, WObj.obj e.2)) ++ t.tags.map (fun e => (tagRel e.1, WObj.tag e.2))

theorem flatten_eq (r : Root) (t : Tbl) : flatten r t = (relObjs t).map (fun e => (r ++ e.1, e.2)) := by
  simp [flatten, place, placeTags, relObjs, List.map_append, List.map_map, Function.comp_def]

/-- a table written at `r` and the same table written at `r'` agree on every relative path -/
theorem agree_flatten (r r' : Root) (t : Tbl) : Agree (flatten r t) r (flatten r' t) r' := by
  rw [flatten_eq, flatten_eq]; exact agree_rel _ r r'

/-- the copy of a placed table IS the table placed at the new root (as a function of relative paths) -/
theorem agree_copy_flatten (r r' : Root) (t : Tbl) : Agree (copy r r' (flatten r t)) r' (flatten r' t) r' :=
  (agree_copy r r' (flatten r t)).trans (agree_flatten r r' t)

/-! ### the rooted reader on a placed table is C01's reader -/

theorem presentW_flatten (r : Root) (t : Tbl) (p : Path) :
    presentW (flatten r t) (r ++ relSegs p) = C01.present t.st.store p := by
  unfold presentW C01.present
  rw [getW_flatten]
  cases C01.get t.st.store p <;> rfl

theorem resolveVersionW_flatten (r : Root) (t : Tbl) (v : Nat) :
    resolveVersionW (flatten r t) r v = r ++ relSegs (C01.resolveVersion t.st.store v) := by
  unfold resolveVersionW C01.resolveVersion
  rw [presentW_flatten]
  by_cases hd : isDetached v = true
  · simp [hd]
  · simp only [hd]
    by_cases hp : C01.present t.st.store (.ver (manifestName .V2 v)) = true
    · simp [hp]
    · simp [hp]

theorem manifestAtW_flatten (r : Root) (t : Tbl) (v : Nat) :
    manifestAtW (flatten r t) r v = (C01.manifestAt t.st.store v).map (fun m => (m, noBases)) := by
  unfold manifestAtW C01.manifestAt
  rw [resolveVersionW_flatten, getW_flatten]
  cases C01.get t.st.store (C01.resolveVersion t.st.store v) with
  | none => rfl
  | some o => cases o <;> rfl

theorem baseIdOf_noBases (p : Path) : baseIdOf noBases p = none := by
  cases p with
  | ver n => rfl
  | file c id sub => cases c <;> rfl

theorem usesNoBase_noBases (m : Manifest) : usesNoBase m noBases = true := by
  unfold usesNoBase
  simp [baseIdOf_noBases]

theorem derefsW_flatten (r : Root) (t : Tbl) (m : Manifest) :
    derefsW (flatten r t) r m noBases = C01.derefs t.st.store m := by
  unfold derefsW C01.derefs
  apply List.map_congr_left
  intro p _
  rw [resolve_noBase r noBases p (baseIdOf_noBases p)]
  simp only [fetch]
  rw [getW_flatten]
  cases C01.get t.st.store p <;> rfl

/-- **bridge.**  Reading version `v` of a base-free table through the path-resolution functions at the root it was
    written at is C01's `read`. -/
theorem readW_flatten (r : Root) (t : Tbl) (v : Nat) : readW (flatten r t) r v = C01.read t.st.store v := by
  unfold readW C01.read
  rw [manifestAtW_flatten]
  cases C01.manifestAt t.st.store v with
  | none => rfl
  | some m =>
    simp only [Option.map_some]
    rw [derefsW_flatten]

/-- every manifest of a placed (base-free) table names no base id -/
theorem flatten_usesNoBase (r : Root) (t : Tbl) (v : Nat) (m : Manifest) (b : Bases)
    (h : manifestAtW (flatten r t) r v = some (m, b)) : usesNoBase m b = true := by
  rw [manifestAtW_flatten] at h
  cases hm : C01.manifestAt t.st.store v with
  | none => rw [hm] at h; cases h
  | some m' =>
    rw [hm] at h
    simp only [Option.map_some, Option.some.injEq, Prod.mk.injEq] at h
    obtain ⟨_, rfl⟩ := h
    exact usesNoBase_noBases m

/-! ### listings of a placed table -/

theorem verNameOf_relSegs (p : Path) : verNameOf (relSegs p) = C01.verName p := by
  cases p with
  | ver n => simp [relSegs, verNameOf, C01.verName]
  | file c id sub => cases c <;> simp [relSegs, clsTail, verNameOf, C01.verName]

theorem namesAt_place (r : Root) (s : C01.Store) : namesAt (place r s) r = C01.names s := by
  induction s with
  | nil => rfl
  | cons e t ih =>
    obtain ⟨q, o⟩ := e
    unfold namesAt place C01.names at ih ⊢
    simp only [List.map_cons, List.filterMap_cons, stripRoot_append, Option.bind_some, verNameOf_relSegs]
    rw [ih]

theorem namesAt_placeTags (r : Root) (tags : List (Name × Nat)) : namesAt (placeTags r tags) r = [] := by
  unfold namesAt placeTags
  rw [List.filterMap_map]
  apply List.filterMap_eq_nil_iff.2
  intro e _
  simp [stripRoot_append, tagRel, verNameOf]

theorem namesAt_flatten (r : Root) (t : Tbl) : namesAt (flatten r t) r = C01.names t.st.store := by
  unfold flatten
  have : namesAt (place r t.st.store ++ placeTags r t.tags) r =
      namesAt (place r t.st.store) r ++ namesAt (placeTags r t.tags) r := by
    unfold namesAt; rw [List.filterMap_append]
  rw [this, namesAt_place, namesAt_placeTags, List.append_nil]

theorem versionsW_flatten (r : Root) (t : Tbl) : versionsW (flatten r t) r = C01.versions t.st.store := by
  unfold versionsW C01.versions; rw [namesAt_flatten]

theorem latestW_flatten (r : Root) (t : Tbl) : latestW (flatten r t) r = C01.latest t.st.store := by
  unfold latestW C01.latest; rw [namesAt_flatten]

end LanceModel.C42

namespace LanceModel.C42
open LanceModel.C01 (Path)
open LanceModel.C33 (Name)

/-! ### tags of a placed table -/

theorem tagNameOf_tagRel (n : Name) : tagNameOf (tagRel n) = some n := by
  have hs : ".json".toList.isSuffixOf (n ++ ".json".toList) = true := by
    rw [List.isSuffixOf_iff_suffix]; exact List.suffix_append _ _
  have hl : (n ++ ".json".toList).length - 5 = n.length := by
    simp
  simp only [tagNameOf, tagRel, true_and, hs, hl, List.take_left', if_true]

theorem tagNameOf_relSegs (p : Path) : tagNameOf (relSegs p) = none := by
  cases p with
  | ver n => simp [relSegs, tagNameOf]
  | file c id sub => cases c <;> simp [relSegs, clsTail, tagNameOf]

theorem tagsAt_append (w1 w2 : World) (r : Root) : tagsAt (w1 ++ w2) r = tagsAt w1 r ++ tagsAt w2 r := by
  unfold tagsAt; rw [List.filterMap_append]

theorem tagsAt_place (r : Root) (s : C01.Store) : tagsAt (place r s) r = [] := by
  unfold tagsAt place
  rw [List.filterMap_map]
  apply List.filterMap_eq_nil_iff.2
  intro e _
  simp [stripRoot_append, tagNameOf_relSegs]

theorem tagsAt_placeTags (r : Root) (tags : List (Name × Nat)) : tagsAt (placeTags r tags) r = tags := by
  induction tags with
  | nil => rfl
  | cons e t ih =>
    unfold tagsAt placeTags at ih ⊢
    simp only [List.map_cons, List.filterMap_cons, stripRoot_append, Option.bind_some, tagNameOf_tagRel]
    rw [ih]

/-- `Tags::list` of a placed table is its tag list -/
theorem tagsAt_flatten (r : Root) (t : Tbl) : tagsAt (flatten r t) r = t.tags := by
  unfold flatten
  rw [tagsAt_append, tagsAt_place, tagsAt_placeTags, List.nil_append]

theorem tagRel_inj (a b : Name) (h : tagRel a = tagRel b) : a = b := by
  simp only [tagRel, List.cons.injEq, Seg.lit.injEq, and_true, true_and] at h
  exact List.append_cancel_right h

theorem getW_place_tagRel (r : Root) (s : C01.Store) (n : Name) : getW (place r s) (r ++ tagRel n) = none := by
  apply getW_none_of_not_mem
  intro e he heq
  unfold place at he
  obtain ⟨e0, _, rfl⟩ := List.mem_map.1 he
  exact tagRel_ne_relSegs n e0.1 (List.append_cancel_left heq).symm

theorem getW_placeTags (r : Root) (tags : List (Name × Nat)) (n : Name) :
    getW (placeTags r tags) (r ++ tagRel n) = (tagLookup tags n).map WObj.tag := by
  induction tags with
  | nil => rfl
  | cons e t ih =>
    obtain ⟨k, v⟩ := e
    show getW ((r ++ tagRel k, WObj.tag v) :: placeTags r t) (r ++ tagRel n) = _
    rw [getW_cons]
    simp only [tagLookup]
    by_cases hk : k = n
    · subst hk; simp
    · have h1 : ¬ (r ++ tagRel k = r ++ tagRel n) := fun h => hk (tagRel_inj _ _ (List.append_cancel_left h))
      simp only [h1, hk, if_false]; exact ih

/-- `Tags::get` on a placed table -/
theorem tagGet_flatten (r : Root) (t : Tbl) (n : Name) : tagGet (flatten r t) r n = tagLookup t.tags n := by
  unfold tagGet flatten
  rw [getW_append, getW_place_tagRel, getW_placeTags]
  cases tagLookup t.tags n <;> rfl

end LanceModel.C42
