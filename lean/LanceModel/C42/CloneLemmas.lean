import LanceModel.C42.ReadLemmas
/-
C42 — `Manifest::shallow_clone` (`cloneBases`): every data file, deletion file and index of a cloned base-free version
carries the new base id, and the new base id names the source root.
-/
namespace LanceModel.C42
open LanceModel.C01 (Cls Path Obj Manifest Frag DataFile Index)

theorem lookup_append_none {β : Type} (l r : List (Nat × β)) (k : Nat) (h : lookup l k = none) :
    lookup (l ++ r) k = lookup r k := by
  induction l with
  | nil => rfl
  | cons e t ih =>
    obtain ⟨a, v⟩ := e
    simp only [lookup] at h
    by_cases ha : a = k
    · simp [ha] at h
    · simp only [ha, if_false] at h
      simp only [List.cons_append, lookup, ha, if_false]
      exact ih h

theorem lookup_none_of_fresh {β : Type} (l : List (Nat × β)) (k : Nat) (h : ∀ e ∈ l, e.1 ≠ k) : lookup l k = none := by
  induction l with
  | nil => rfl
  | cons e t ih =>
    obtain ⟨a, v⟩ := e
    have ha : ¬ (a = k) := h (a, v) (by simp)
    simp only [lookup, ha, if_false]
    exact ih (fun e he => h e (by simp [he]))

theorem maxKey_bound (l : List (Nat × BasePath)) : ∀ e ∈ l, ∃ j, maxKey l = some j ∧ e.1 ≤ j := by
  induction l with
  | nil => intro e he; cases he
  | cons x t ih =>
    obtain ⟨k, v⟩ := x
    intro e he
    simp only [maxKey]
    cases hm : maxKey t with
    | none =>
      rcases List.mem_cons.1 he with rfl | ht
      · exact ⟨k, rfl, Nat.le_refl _⟩
      · obtain ⟨j, hj, _⟩ := ih e ht
        rw [hm] at hj; cases hj
    | some j =>
      rcases List.mem_cons.1 he with rfl | ht
      · refine ⟨_, rfl, ?_⟩
        show k ≤ if k ≤ j then j else k
        split <;> omega
      · obtain ⟨j', hj', hle⟩ := ih e ht
        rw [hm] at hj'
        have : j' = j := (Option.some.inj hj').symm
        subst this
        refine ⟨_, rfl, ?_⟩
        show e.1 ≤ if k ≤ j' then j' else k
        split <;> omega

/-- the id `do_commit_new_dataset` picks (`max + 1`, or 0) is not a key of the source's base table -/
theorem newBaseId_fresh (table : List (Nat × BasePath)) : ∀ e ∈ table, e.1 ≠ newBaseId table := by
  intro e he
  obtain ⟨j, hj, hle⟩ := maxKey_bound table e he
  unfold newBaseId
  rw [hj]
  show e.1 ≠ j + 1
  omega

theorem lookup_map_const (ids : List Nat) (bid i : Nat) (h : i ∈ ids) :
    lookup (ids.map (fun x => (x, bid))) i = some bid := by
  induction ids with
  | nil => cases h
  | cons a t ih =>
    simp only [List.map_cons, lookup]
    by_cases ha : a = i
    · simp [ha]
    · simp only [ha, if_false]
      rcases List.mem_cons.1 h with rfl | ht
      · exact absurd rfl ha
      · exact ih ht

/-- `fillBase`: an id without a base id gets the new one -/
theorem lookup_fillBase (old : List (Nat × Nat)) (ids : List Nat) (bid i : Nat) (hold : lookup old i = none)
    (hi : i ∈ ids) : lookup (fillBase old ids bid) i = some bid := by
  unfold fillBase
  rw [lookup_append_none old _ i hold]
  apply lookup_map_const
  exact List.mem_filter.2 ⟨hi, by simp [hold]⟩

theorem cloneBases_table (src : Root) (m : Manifest) (b : Bases) :
    ∃ nid, lookup (cloneBases src m b).table nid = some ⟨src, true⟩ ∧
      (cloneBases src m b).dataBase = fillBase b.dataBase (m.frags.flatMap (fun f => f.files.map (·.id))) nid ∧
      (cloneBases src m b).delBase = fillBase b.delBase (m.frags.filterMap (·.del)) nid ∧
      (cloneBases src m b).idxBase = m.indices.map (fun i => (i.id, nid)) := by
  refine ⟨newBaseId b.table, ?_, rfl, rfl, rfl⟩
  show lookup (b.table ++ [(newBaseId b.table, ⟨src, true⟩)]) (newBaseId b.table) = _
  rw [lookup_append_none _ _ _ (lookup_none_of_fresh b.table _ (newBaseId_fresh b.table))]
  simp [lookup]

theorem mem_refs_data (m : Manifest) (id sub : Nat) (h : Path.file .data id sub ∈ m.refs) :
    id ∈ m.frags.flatMap (fun f => f.files.map (·.id)) := by
  unfold Manifest.refs at h
  simp only [List.mem_append, List.mem_flatMap, List.mem_singleton] at h
  rcases h with (⟨f, hf, hp⟩ | ⟨i, _, hp⟩) | hp
  · unfold Frag.refs at hp
    simp only [List.mem_append, List.mem_map] at hp
    rcases hp with ⟨d, hd, he⟩ | hp
    · simp only [Path.file.injEq, true_and] at he
      exact List.mem_flatMap.2 ⟨f, hf, List.mem_map.2 ⟨d, hd, he.1⟩⟩
    · cases hdel : f.del with
      | none => rw [hdel] at hp; cases hp
      | some d => rw [hdel] at hp; simp at hp
  · unfold Index.refs at hp
    simp at hp
  · cases hp

theorem mem_refs_del (m : Manifest) (id sub : Nat) (h : Path.file .del id sub ∈ m.refs) :
    id ∈ m.frags.filterMap (·.del) := by
  unfold Manifest.refs at h
  simp only [List.mem_append, List.mem_flatMap, List.mem_singleton] at h
  rcases h with (⟨f, hf, hp⟩ | ⟨i, _, hp⟩) | hp
  · unfold Frag.refs at hp
    simp only [List.mem_append, List.mem_map] at hp
    rcases hp with ⟨d, _, he⟩ | hp
    · cases he
    · cases hdel : f.del with
      | none => rw [hdel] at hp; cases hp
      | some d =>
        rw [hdel] at hp
        simp only [List.mem_singleton, Path.file.injEq, true_and] at hp
        exact List.mem_filterMap.2 ⟨f, hf, by rw [hdel, hp.1]⟩
  · unfold Index.refs at hp
    simp at hp
  · cases hp

theorem mem_refs_idx (m : Manifest) (id sub : Nat) (h : Path.file .idx id sub ∈ m.refs) :
    id ∈ m.indices.map (·.id) := by
  unfold Manifest.refs at h
  simp only [List.mem_append, List.mem_flatMap, List.mem_singleton] at h
  rcases h with (⟨f, _, hp⟩ | ⟨i, hi, hp⟩) | hp
  · unfold Frag.refs at hp
    simp only [List.mem_append, List.mem_map] at hp
    rcases hp with ⟨d, _, he⟩ | hp
    · cases he
    · cases hdel : f.del with
      | none => rw [hdel] at hp; cases hp
      | some d => rw [hdel] at hp; simp at hp
  · unfold Index.refs at hp
    simp only [List.mem_map, List.mem_range, Path.file.injEq, true_and] at hp
    obtain ⟨k, _, he, _⟩ := hp
    exact List.mem_map.2 ⟨i, hi, he⟩
  · cases hp

theorem lookup_idxBase (idx : List Index) (nid id : Nat) (h : id ∈ idx.map (·.id)) :
    lookup (idx.map (fun i => (i.id, nid))) id = some nid := by
  induction idx with
  | nil => cases h
  | cons a t ih =>
    simp only [List.map_cons, lookup]
    by_cases ha : a.id = id
    · simp [ha]
    · simp only [ha, if_false]
      simp only [List.map_cons, List.mem_cons] at h
      rcases h with h | h
      · exact absurd h.symm ha
      · exact ih h

end LanceModel.C42
