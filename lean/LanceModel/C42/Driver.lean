import LanceModel.Util
import LanceModel.Table.Basic
import LanceModel.C01.Driver
import LanceModel.C42.Model
/-
C42 driver.  One output line per op line (same grammar as harness/src/bin/c42.rs):

  cfg v2=<0|1> s=<0|1>
  <table op of C01>                 on the current root (the C01 model of the operation; local file system = ConditionalPut)
  tag <name> <v> | untag <name>
  copy                              flatten the table at its root, `copy root root'`, observe the copy THROUGH THE ROOTED READER
  clone <v> | copyclone | rmsource  shallow clone scenario (base paths)

A table op prints what C01's relative reader sees (`C01.read`), `copy` prints what the rooted reader (`readW`) sees in
the world that holds only the re-keyed objects; `readW_flatten` / `copy_reads_equal` prove that the two agree.
-/
namespace LanceModel.C42.Driver
open LanceModel.Util LanceModel.C42
open LanceModel.C01 (OCfg Handler Manifest View)
open LanceModel.C01.Driver (parseOp parseNatTok showView insertStr showList countCls errStr)
open LanceModel.C33 (Scheme Name)

structure DSt where
  oc : Option OCfg
  t : Tbl
  root : Nat
  nextRoot : Nat
  /-- after `clone`: the world holding source and clone, the clone's root -/
  clone : Option (World × Root)
  ccopy : Option (World × Root)

def init : DSt := ⟨none, Tbl.empty, 0, 1, none, none⟩

def rootOf (k : Nat) : Root := [.lit ('r' :: (toString k).toList)]

def parseCfg (toks : List String) : Option OCfg :=
  match toks with
  | ["cfg", v2, s] =>
    let sch := match v2 with
      | "v2=0" => some Scheme.V1
      | "v2=1" => some Scheme.V2
      | _ => none
    let st := match s with
      | "s=0" => some false
      | "s=1" => some true
      | _ => none
    match sch, st with
    | some sch, some st => some ⟨⟨sch, Handler.cond⟩, st⟩
    | _, _ => none
  | _ => none

def validTag (s : String) : Bool :=
  let cs := s.toList
  !cs.isEmpty && cs.length ≤ 12 && cs.all (fun c => c.isAlphanum) &&
    (match cs with
     | c :: _ => c.isAlpha
     | [] => false)

/-! ### observation through the rooted reader -/

def clsLetterRel : List Seg → Char
  | d :: rest =>
    if d = versionsDir then
      (match rest with
       | [.lit n] => if ".manifest".toList.isSuffixOf n then 'm' else 's'
       | _ => 'o')
    else if d = dataDir then 'd'
    else if d = deletionsDir then 'x'
    else if d = indicesDir then 'i'
    else if d = transactionsDir then 't'
    else if d = refsDir then 'r'
    else 'o'
  | [] => 'o'

def relsAt (w : World) (r : Root) : List (List Seg × WObj) :=
  w.filterMap (fun e => (stripRoot r e.1).map (fun x => (x, e.2)))

def countClsW (w : World) (r : Root) (c : Char) : Nat := ((relsAt w r).filter (fun e => clsLetterRel e.1 == c)).length

def startsD : List Char → Bool
  | 'd' :: _ => true
  | _ => false

def basedCount (m : Manifest) (b : Bases) : Nat :=
  ((m.frags.flatMap (fun f => f.files.map (·.id))).filter (fun i => (lookup b.dataBase i).isSome)).length +
    ((m.frags.filterMap (·.del)).filter (fun i => (lookup b.delBase i).isSome)).length +
    (m.indices.filter (fun i => (lookup b.idxBase i.id).isSome)).length

def showViewAt (w : World) (r : Root) (v : Nat) : String :=
  match readW w r v with
  | some vw => toString v ++ ":" ++ showView vw
  | none => toString v ++ ":UNREADABLE"

def latestStr (w : World) (r : Root) : String :=
  match latestW w r with
  | .ok v _ _ => toString v
  | .notFound => "none"
  | .errInternal => "error"

def latestNat (w : World) (r : Root) : Option Nat :=
  match latestW w r with
  | .ok v _ _ => some v
  | _ => none

def showObsW (w : World) (r : Root) : String :=
  let vs := sortNat (versionsW w r)
  let views := vs.map (showViewAt w r)
  let det := (relsAt w r).filterMap (fun e =>
    match e.1 with
    | [d, .lit n] =>
      if d = versionsDir && startsD n && ".manifest".toList.isSuffixOf n then
        (match manOf e.2 with
         | some (m, b) =>
           some (if (derefsW w r m b).all (fun x => x.2.isSome) then showView (C01.view m (derefsW w r m b)) else "UNREADABLE")
         | none => none)
      else none
    | _ => none)
  -- a detached manifest is named after a random number
  let names := (namesAt w r).map (fun n =>
    if startsD n && ".manifest".toList.isSuffixOf n then "dN.manifest" else String.ofList n)
  let tags := (tagsAt w r).map (fun e => String.ofList e.1 ++ ":" ++ toString e.2)
  let bases := match (latestNat w r).bind (manifestAtW w r) with
    | some (m, b) => toString b.table.length ++ "/" ++ toString (basedCount m b)
    | none => "0/0"
  let leak := ((relsAt w r).filter (fun e =>
    match e.2 with
    | .xman _ b => !b.table.isEmpty
    | _ => false)).length
  "L=" ++ latestStr w r ++ " V=" ++ showNatList vs ++ " | " ++ showList views ++ " | D=" ++ showList (det.foldr insertStr []) ++
    " | files=" ++ ",".intercalate ("dxitms".toList.map (fun c => String.singleton c ++ toString (countClsW w r c))) ++
    " | vers=" ++ (if names.isEmpty then "-" else ",".intercalate (names.foldr insertStr [])) ++
    " | tags=" ++ (if tags.isEmpty then "-" else ",".intercalate (tags.foldr insertStr [])) ++
    " | bases=" ++ bases ++ " | leak=" ++ toString leak

/-! ### the short observation after a table op, through C01's relative reader -/

def showShort (s : C01.Store) : String :=
  let vs := sortNat (C01.versions s)
  let last := match vs.getLast? with
    | some v =>
      (match C01.read s v with
       | some vw => toString v ++ ":" ++ showView vw
       | none => toString v ++ ":UNREADABLE")
    | none => "-"
  let l := match C01.latest s with
    | .ok v _ _ => toString v
    | .notFound => "none"
    | .errInternal => "error"
  "L=" ++ l ++ " V=" ++ showNatList vs ++ " | " ++ last ++
    " | files=" ++ ",".intercalate ("dxitms".toList.map (fun c => String.singleton c ++ toString (countCls s c)))

def tagErrStr : TagErr → String
  | .conflict => "conflict_incompatible"
  | .notFound => "not_found"

inductive Line where
  | table (op : C01.Op)
  | tag (n : String) (v : Nat)
  | untag (n : String)
  | copy
  | clone (v : Nat)
  | copyclone
  | rmsource

def parseLine (toks : List String) : Option Line :=
  match toks with
  | ["tag", n, v] => if validTag n then (parseNatTok v).map (Line.tag n) else none
  | ["untag", n] => if validTag n then some (.untag n) else none
  | ["copy"] => some .copy
  | ["clone", v] => (parseNatTok v).map Line.clone
  | ["copyclone"] => some .copyclone
  | ["rmsource"] => some .rmsource
  | _ => (parseOp toks).map Line.table

def exists_ (t : Tbl) : Bool := (C01.latestN t.st.store) != 0

def step (d : DSt) (line : String) : DSt × String :=
  let toks := splitTokens line
  match toks with
  | "cfg" :: _ =>
    match parseCfg toks with
    | some oc => (⟨some oc, Tbl.empty, 0, 1, none, none⟩, "cfg ok")
    | none => (d, "err parse")
  | _ =>
    match parseLine toks with
    | none => (d, "err parse")
    | some ln =>
      match d.oc with
      | none => (d, "err no_cfg")
      | some oc =>
        let cloned := d.clone.isSome
        let isCloneOp := match ln with
          | .copyclone => true
          | .rmsource => true
          | _ => false
        if isCloneOp && !cloned then (d, "err no_clone")
        else if !isCloneOp && cloned then (d, "err cloned")
        else
        let r := rootOf d.root
        match ln with
        | .table op =>
          match C01.build oc d.t.st op with
          | .error e => (d, "err " ++ errStr e ++ " | " ++ showShort d.t.st.store)
          | .ok plan =>
            let res := C01.stepOp oc.cfg d.t.st ⟨plan.calls, plan.ids, none⟩
            let st' := res.1
            let shown := match res.2 with
              | .done =>
                (match plan.after with
                 | some e => "err " ++ errStr e
                 | none => if plan.detached then "ok D" else "ok " ++ toString (C01.latestN st'.store))
              | .crashed => "crashed"
              | .failed => "err other"
              | .conflict => "err conflict"
              | .invalid => "invalid"
            ({ d with t := { d.t with st := st' } }, shown ++ " | " ++ showShort st'.store)
        | .tag n v =>
          if !exists_ d.t then (d, "err not_found")
          else match tagCreate d.t n.toList v with
            | .ok t' => ({ d with t := t' }, "ok")
            | .error e => (d, "err " ++ tagErrStr e)
        | .untag n =>
          if !exists_ d.t then (d, "err not_found")
          else match tagDelete d.t n.toList with
            | .ok t' => ({ d with t := t' }, "ok")
            | .error e => (d, "err " ++ tagErrStr e)
        | .copy =>
          let w := flatten r d.t
          if w.isEmpty then (d, "err not_found")
          else
            let r' := rootOf d.nextRoot
            -- the world after `cp -r r r'` and `rm -r r`: only the re-keyed objects
            let w' := copy r r' w
            ({ d with root := d.nextRoot, nextRoot := d.nextRoot + 1 },
             "copied n=" ++ toString w'.length ++ " | " ++ showObsW w' r')
        | .clone v =>
          if !exists_ d.t then (d, "err not_found")
          else
            let w := flatten r d.t
            let c := rootOf d.nextRoot
            match shallowClone w r v c .V1 d.t.st.uid with
            | none => ({ d with nextRoot := d.nextRoot + 1 }, "err not_found")
            | some w1 => ({ d with nextRoot := d.nextRoot + 1, clone := some (w1, c) }, "cloned | " ++ showObsW w1 c)
        | .copyclone =>
          match d.clone, d.ccopy with
          | some (w1, c), none =>
            let c' := rootOf d.nextRoot
            let cp := copy c c' w1
            let w2 := w1 ++ cp
            ({ d with nextRoot := d.nextRoot + 1, ccopy := some (w2, c') },
             "copied n=" ++ toString cp.length ++ " | " ++ showObsW w2 c')
          | _, _ => (d, "err cloned")
        | .rmsource =>
          match d.ccopy with
          | some (w2, c') =>
            let w3 := removeDir r w2
            ({ d with ccopy := some (w3, c') }, "removed | " ++ showObsW w3 c')
          | none => (d, "err no_clone")

end LanceModel.C42.Driver
