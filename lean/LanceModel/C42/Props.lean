import LanceModel.C42.BridgeLemmas
import LanceModel.C42.CloneLemmas
import LanceModel.C01.Props
/-
C42 — A copied table root is a complete, identical table.

  "Copying every object under a table's root to another location (without touching any file) yields a table that opens
   there and reads, at every version, exactly what the original read, including indices, deletions and tags, even after
   the original is removed.  This is claimed for tables whose versions use no base path other than the root (branches
   and shallow clones deliberately keep referring to their source location)."

`readW world root v` is the reader of C42/Model.lean: every path it touches is computed by the path-resolution functions
(`resolveVersionW`, `classDir`, `resolve`, `tagRel`) from the root the table is opened at and from what the manifest
stores.  `copy root root' w` is the world that holds the re-keyed objects and NOTHING else, so every statement about it
is already a statement about the copy after the original has been removed; `copy_independent_of_original` and
`copy_survives_removal` say the same for worlds that still hold (or held) other things.

The hypothesis "no base path other than the root" is `usesNoBase`: no file the manifest names carries a base id.  It is
decidable, it holds for every version of every history of the thirteen table operations of C01 and of tag operations
(`history_uses_no_base`: base ids enter only through `shallow_clone` / branches / `add_bases`, which are separate
operations of the model), and it cannot be dropped or weakened to "every base path that is used IS the root"
(`shallow_clone_counterexample`, `explicit_root_base_counterexample`): a base path is an ABSOLUTE location.
-/
namespace LanceModel.C42
open LanceModel.C01 (Cls Path Obj Manifest View view)
open LanceModel.C33 (Name Scheme manifestName)

/-! ## (1) the copy reads what the original read -/

/-- **copy_reads_equal.**  For every world, every pair of roots and every version whose manifest names no base id:
    the copy, opened at the new root, reads exactly what the original read (schema width, rows with deletions applied,
    index list, config — `none` on both sides if the original could not be read).  The copy contains nothing but the
    re-keyed objects: the original is not there. -/
theorem copy_reads_equal (w : World) (root root' : Root) (v : Nat)
    (hnb : ∀ m b, manifestAtW w root v = some (m, b) → usesNoBase m b = true) :
    readW (copy root root' w) root' v = readW w root v := by
  apply readW_agree (agree_copy root root' w) v
  intro m b h
  rw [manifestAtW_agree (agree_copy root root' w) v] at h
  exact hnb m b h

/-- the statement of the property for one (world, root): every version, every tag -/
def CopyIdentical (w : World) (root root' : Root) : Prop :=
  (∀ v, readW (copy root root' w) root' v = readW w root v) ∧
    namesAt (copy root root' w) root' = namesAt w root ∧
    tagsAt (copy root root' w) root' = tagsAt w root ∧
    (∀ t, readTag (copy root root' w) root' t = readTag w root t)

/-- the property as claimed: for tables none of whose versions names a base id -/
def C42_full : Prop :=
  ∀ (w : World) (root root' : Root),
    (∀ v m b, manifestAtW w root v = some (m, b) → usesNoBase m b = true) → CopyIdentical w root root'

/-- the property WITHOUT its hypothesis (what the counterexamples refute) -/
def C42_unconditional : Prop := ∀ (w : World) (root root' : Root), CopyIdentical w root root'

/-- the property under the weaker reading "every base path that is used is the root itself" -/
def C42_root_bases : Prop :=
  ∀ (w : World) (root root' : Root),
    (∀ v m b, manifestAtW w root v = some (m, b) → basesAreRoot root m b = true) → CopyIdentical w root root'

/-! ## (2) same version list, same latest, same tags -/

/-- **copy_versions_equal.**  The listing of `_versions/` is the same list of names, so `versions()` and
    latest-resolution answer the same (for any table, base paths or not). -/
theorem copy_versions_equal (w : World) (root root' : Root) :
    namesAt (copy root root' w) root' = namesAt w root ∧
      versionsW (copy root root' w) root' = versionsW w root ∧
      latestW (copy root root' w) root' = latestW w root := by
  have h := namesAt_copy root root' w
  refine ⟨h, ?_, ?_⟩
  · unfold versionsW; rw [h]
  · unfold latestW; rw [h]

/-- **copy_tags_equal.**  `Tags::list` and `Tags::get` answer the same, and checking out BY TAG reads the same. -/
theorem copy_tags_equal (w : World) (root root' : Root) :
    tagsAt (copy root root' w) root' = tagsAt w root ∧
      (∀ t, tagGet (copy root root' w) root' t = tagGet w root t) ∧
      ((∀ v m b, manifestAtW w root v = some (m, b) → usesNoBase m b = true) →
        ∀ t, readTag (copy root root' w) root' t = readTag w root t) := by
  refine ⟨tagsAt_copy root root' w, fun t => tagGet_agree (agree_copy root root' w) t, fun hnb t => ?_⟩
  unfold readTag
  rw [tagGet_agree (agree_copy root root' w) t]
  cases tagGet w root t with
  | none => rfl
  | some v => exact copy_reads_equal w root root' v (hnb v)

/-- **C42 holds as claimed.** -/
theorem copied_root_is_identical : C42_full := by
  intro w root root' hnb
  exact ⟨fun v => copy_reads_equal w root root' v (hnb v), (copy_versions_equal w root root').1,
    (copy_tags_equal w root root').1, (copy_tags_equal w root root').2.2 hnb⟩

/-! ## (3) independent of what happens to the original -/

/-- **reader_stays_below_root.**  The reader of a base-free version touches the manifest and the files it names, all of
    them BELOW the root it was opened at. -/
theorem reader_stays_below_root (w : World) (root : Root) (v : Nat)
    (hnb : ∀ m b, manifestAtW w root v = some (m, b) → usesNoBase m b = true) :
    under root (resolveVersionW w root v) = true ∧
      ∀ oa ∈ touched w root v, ∃ a, oa = some a ∧ under root a = true :=
  ⟨resolveVersionW_under w root v, touched_under w root v hnb⟩

/-- **copy_independent_of_original.**  Let `w2` be ANY world in which the objects below `root'` are those of the copy —
    whatever else it contains, whatever became of the original root.  Reading the copy there gives what the original
    read when it was copied. -/
theorem copy_independent_of_original (w w2 : World) (root root' : Root) (v : Nat)
    (hnb : ∀ m b, manifestAtW w root v = some (m, b) → usesNoBase m b = true)
    (hsame : ∀ x, getW w2 (root' ++ x) = getW (copy root root' w) (root' ++ x)) :
    readW w2 root' v = readW w root v := by
  have hA : Agree w2 root' w root := Agree.trans hsame (agree_copy root root' w)
  apply readW_agree hA v
  intro m b h
  rw [manifestAtW_agree hA v] at h
  exact hnb m b h

theorem namesAt_append (w1 w2 : World) (r : Root) : namesAt (w1 ++ w2) r = namesAt w1 r ++ namesAt w2 r := by
  unfold namesAt; rw [List.filterMap_append]

theorem namesAt_nil_of_fresh (w : World) (r : Root) (h : ∀ e ∈ w, under r e.1 = false) : namesAt w r = [] := by
  unfold namesAt
  apply List.filterMap_eq_nil_iff.2
  intro e he
  rw [stripRoot_not_under r e.1 (h e he)]; rfl

theorem namesAt_filter_keep (w : World) (r : Root) (f : Abs → Bool) (h : ∀ e ∈ w, under r e.1 = true → f e.1 = true) :
    namesAt (w.filter (fun e => f e.1)) r = namesAt w r := by
  induction w with
  | nil => rfl
  | cons e t ih =>
    have iht := ih (fun e he => h e (by simp [he]))
    unfold namesAt at iht ⊢
    simp only [List.filter_cons]
    cases hf : f e.1 with
    | true => simp only [if_true, List.filterMap_cons]; rw [iht]
    | false =>
      have hu : under r e.1 = false := by
        cases hu : under r e.1 with
        | false => rfl
        | true => rw [h e (by simp) hu] at hf; cases hf
      simp only [Bool.false_eq_true, if_false, List.filterMap_cons, stripRoot_not_under r e.1 hu, Option.bind_none]
      exact iht

/-- **copy_survives_removal.**  `cp -r root root'` into a fresh place next to the original, then `rm -r root`: the
    copy reads every base-free version as the original did and lists the same versions. -/
theorem copy_survives_removal (w : World) (root root' : Root) (v : Nat)
    (h1 : under root root' = false) (h2 : under root' root = false)
    (hfresh : ∀ e ∈ w, under root' e.1 = false)
    (hnb : ∀ m b, manifestAtW w root v = some (m, b) → usesNoBase m b = true) :
    readW (removeDir root (w ++ copy root root' w)) root' v = readW w root v ∧
      namesAt (removeDir root (w ++ copy root root' w)) root' = namesAt w root := by
  refine ⟨copy_independent_of_original w _ root root' v hnb (agree_after_removal root root' w h1 h2 hfresh), ?_⟩
  unfold removeDir
  rw [namesAt_filter_keep (w ++ copy root root' w) root' (fun a => !under root a)]
  · rw [namesAt_append, namesAt_nil_of_fresh w root' hfresh, List.nil_append, namesAt_copy]
  · intro e _ hu
    obtain ⟨x, hx⟩ := (under_iff root' e.1).1 hu
    rw [hx, disjoint_roots root root' h1 h2 x]; rfl

/-! ## (4) histories: the hypothesis is an invariant; the copy OPENS and reads every published version -/

def progsOf : List HOp → List C01.Prog
  | [] => []
  | .prog p :: t => p :: progsOf t
  | _ :: t => progsOf t

theorem runH_st (cfg : C01.Cfg) (ops : List HOp) (t : Tbl) :
    (runH cfg t ops).st = C01.runHist cfg t.st (progsOf ops) := by
  induction ops generalizing t with
  | nil => rfl
  | cons o rest ih =>
    cases o with
    | prog p => simp only [runH, progsOf, C01.runHist]; rw [ih]; rfl
    | tag n v =>
      simp only [runH, progsOf]; rw [ih]
      simp only [stepH, tagCreate]
      split <;> first | rfl | (rename_i h; revert h; split <;> (try split) <;> intro h <;> cases h <;> rfl)
    | untag n =>
      simp only [runH, progsOf]; rw [ih]
      simp only [stepH, tagDelete]
      split <;> first | rfl | (rename_i h; revert h; split <;> intro h <;> cases h <;> rfl)

/-- **history_uses_no_base.**  After ANY history of the table operations of C01 (create, append, overwrite, delete,
    update, merge_insert, compaction, create_index, add/drop column, update_config, restore, detached append — as
    arbitrary programs of storage calls under arbitrary faults) and of tag operations, every manifest that can be
    resolved names no base id: the hypothesis of `copy_reads_equal` is an invariant of histories without
    shallow_clone / create_branch / add_bases. -/
theorem history_uses_no_base (cfg : C01.Cfg) (ops : List HOp) (root : Root) (v : Nat) (m : Manifest) (b : Bases)
    (h : manifestAtW (flatten root (runH cfg Tbl.empty ops)) root v = some (m, b)) : usesNoBase m b = true :=
  flatten_usesNoBase root _ v m b h

/-- **copy_of_history_reads_equal.**  The copy of a table with any such history reads, at every version number, what
    C01's reader reads of the original (relative) store — and so does the original at its own root. -/
theorem copy_of_history_reads_equal (cfg : C01.Cfg) (ops : List HOp) (root root' : Root) (v : Nat) :
    readW (copy root root' (flatten root (runH cfg Tbl.empty ops))) root' v =
        C01.read (runH cfg Tbl.empty ops).st.store v ∧
      readW (flatten root (runH cfg Tbl.empty ops)) root v = C01.read (runH cfg Tbl.empty ops).st.store v := by
  refine ⟨?_, readW_flatten root _ v⟩
  rw [copy_reads_equal _ root root' v (fun m b h => flatten_usesNoBase root _ v m b h)]
  exact readW_flatten root _ v

/-- **copied_history_opens.**  … and it OPENS there: the same version list and latest version as the original, and every
    version whose manifest can be resolved (attached or detached) is read as a whole — every file it names exists below
    the new root (C01 `published_closed`, transported through the path-resolution functions). -/
theorem copied_history_opens (cfg : C01.Cfg) (ops : List HOp) (root root' : Root) :
    versionsW (copy root root' (flatten root (runH cfg Tbl.empty ops))) root' =
        C01.versions (runH cfg Tbl.empty ops).st.store ∧
      latestW (copy root root' (flatten root (runH cfg Tbl.empty ops))) root' =
        C01.latest (runH cfg Tbl.empty ops).st.store ∧
      ∀ v m, v < 2 ^ 64 → C01.manifestAt (runH cfg Tbl.empty ops).st.store v = some m →
        readW (copy root root' (flatten root (runH cfg Tbl.empty ops))) root' v =
          some (view m (C01.derefs (runH cfg Tbl.empty ops).st.store m)) := by
  refine ⟨?_, ?_, ?_⟩
  · rw [(copy_versions_equal _ root root').2.1, versionsW_flatten]
  · rw [(copy_versions_equal _ root root').2.2, latestW_flatten]
  · intro v m hv hm
    rw [(copy_of_history_reads_equal cfg ops root root' v).1]
    have hst := runH_st cfg ops Tbl.empty
    rw [hst] at hm ⊢
    exact (C01.published_closed cfg (progsOf ops) v hv m hm).2

/-- **copied_history_tags.**  … with the same tags: `Tags::list` of the copy is the tag list of the history, `Tags::get`
    answers what was tagged, and checking out BY TAG reads, through the copy, what C01's reader reads of that version. -/
theorem copied_history_tags (cfg : C01.Cfg) (ops : List HOp) (root root' : Root) :
    tagsAt (copy root root' (flatten root (runH cfg Tbl.empty ops))) root' = (runH cfg Tbl.empty ops).tags ∧
      ∀ t, tagGet (copy root root' (flatten root (runH cfg Tbl.empty ops))) root' t =
          tagLookup (runH cfg Tbl.empty ops).tags t ∧
        readTag (copy root root' (flatten root (runH cfg Tbl.empty ops))) root' t =
          (tagLookup (runH cfg Tbl.empty ops).tags t).bind (C01.read (runH cfg Tbl.empty ops).st.store) := by
  refine ⟨?_, fun t => ?_⟩
  · rw [(copy_tags_equal _ root root').1, tagsAt_flatten]
  · have hg : tagGet (copy root root' (flatten root (runH cfg Tbl.empty ops))) root' t =
        tagLookup (runH cfg Tbl.empty ops).tags t := by
      rw [(copy_tags_equal _ root root').2.1 t, tagGet_flatten]
    refine ⟨hg, ?_⟩
    unfold readTag
    rw [hg]
    cases tagLookup (runH cfg Tbl.empty ops).tags t with
    | none => rfl
    | some v => exact (copy_of_history_reads_equal cfg ops root root' v).1

/-- the copy of a table IS that table written at the new root, as far as any lookup below the new root can tell: the
    history may simply go on there -/
theorem copy_is_the_table_elsewhere (root root' : Root) (t : Tbl) :
    Agree (copy root root' (flatten root t)) root' (flatten root' t) root' := agree_copy_flatten root root' t

/-! ## (5) why the hypothesis is there -/

/-- **base_path_does_not_follow_copy.**  A file that carries a base id is looked for at the ABSOLUTE location its base
    path names, whatever root the table is opened at: the same path before and after a copy (`resolve` does not depend on
    `root` for such a file).  This is the general reason behind the two counterexamples below. -/
theorem base_path_does_not_follow_copy (root root' : Root) (b : Bases) (p : Path) (bid : Nat)
    (h : baseIdOf b p = some bid) : resolve root b p = resolve root' b p := by
  cases p with
  | ver n => simp [baseIdOf] at h
  | file c id sub => simp only [resolve, h, classDir]

/-- … namely below the base path: `<base>/<DIR>/<file>` for a dataset-root base -/
theorem based_file_location (root : Root) (b : Bases) (p : Path) (bid : Nat) (bp : BasePath)
    (h : baseIdOf b p = some bid) (ht : lookup b.table bid = some bp) (hr : bp.isRoot = true) :
    resolve root b p = some (bp.path ++ relSegs p) := by
  cases p with
  | ver n => simp [baseIdOf] at h
  | file c id sub => simp [resolve, h, classDir, ht, hr, relSegs]

/-- **clone_points_into_source.**  `Manifest::shallow_clone` of a base-free version of the table at `src`: whatever root
    the cloned manifest is opened at — the clone's own directory or ANY copy of it — every data file, deletion file and
    index file it names is resolved to `src/<DIR>/<file>`, the source root's own file.  (Only the transaction file and the
    manifest itself are the clone's.)  So a copy of a shallow clone depends on the source exactly like the clone does. -/
theorem clone_points_into_source (src anyRoot : Root) (m : Manifest) (b : Bases) (hnb : usesNoBase m b = true)
    (c : Cls) (id sub : Nat) (hc : c ≠ .txn) (hp : Path.file c id sub ∈ m.refs) :
    resolve anyRoot (cloneBases src m b) (.file c id sub) = some (src ++ relSegs (.file c id sub)) := by
  obtain ⟨nid, ht, hd, hx, hi⟩ := cloneBases_table src m b
  have hnone : baseIdOf b (.file c id sub) = none := by
    have := (List.all_eq_true.1 hnb) _ hp
    simpa using this
  apply based_file_location anyRoot (cloneBases src m b) (.file c id sub) nid ⟨src, true⟩ _ ht rfl
  cases c with
  | txn => exact absurd rfl hc
  | data =>
    show lookup (cloneBases src m b).dataBase id = some nid
    rw [hd]; exact lookup_fillBase _ _ _ _ hnone (mem_refs_data m id sub hp)
  | del =>
    show lookup (cloneBases src m b).delBase id = some nid
    rw [hx]; exact lookup_fillBase _ _ _ _ hnone (mem_refs_del m id sub hp)
  | idx =>
    show lookup (cloneBases src m b).idxBase id = some nid
    rw [hi]; exact lookup_idxBase _ _ _ (mem_refs_idx m id sub hp)

def rootA : Root := [.lit "A".toList]
def rootC : Root := [.lit "C".toList]
def rootC' : Root := [.lit "C2".toList]
def rootA' : Root := [.lit "A2".toList]

/-- one version, one fragment of two rows in `data/<0>`, transaction file `<1>` -/
def exManifest : Manifest :=
  { version := 1, fields := [0], nextField := 1, frags := [⟨0, [⟨0, [0]⟩], none, 2⟩], nextFrag := 1, indices := [],
    cfg := none, txn := 1 }

def exStore : C01.Store :=
  [(.file .data 0 0, .cols [(0, [some 1, some 2])]), (.file .txn 1 0, .blob), (.ver (manifestName .V1 1), .man exManifest)]

def exTbl : Tbl := ⟨⟨exStore, 2⟩, [("t1".toList, 1)]⟩

/-- the table at `A` -/
def exWorld : World := flatten rootA exTbl

/-- … and a shallow clone of its version 1 at `C` -/
def exCloned : World := (shallowClone exWorld rootA 1 rootC .V1 5).getD []

/-- **shallow_clone_counterexample.**  A shallow clone stores the ABSOLUTE location of its source as a base path.  The
    clone at `C` reads version 1 of `A`; its copy at `C2` reads the same only while `A` is still there — the file it
    touches is `A/data/<0>`, the ORIGINAL root's — and reads nothing once the copy is all there is.  So the property
    does not hold without its hypothesis. -/
theorem shallow_clone_counterexample :
    (readW exCloned rootC 1).map (·.rows) = some [[some 1], [some 2]] ∧
      (readW (exCloned ++ copy rootC rootC' exCloned) rootC' 1).map (·.rows) = some [[some 1], [some 2]] ∧
      some (rootA ++ relSegs (.file .data 0 0)) ∈ touched (exCloned ++ copy rootC rootC' exCloned) rootC' 1 ∧
      readW (removeDir rootA (exCloned ++ copy rootC rootC' exCloned)) rootC' 1 = none ∧
      readW (copy rootC rootC' exCloned) rootC' 1 = none ∧
      ¬ C42_unconditional := by
  refine ⟨by decide, by decide, by decide, by decide, by decide, ?_⟩
  intro h
  have := (h exCloned rootC rootC').1 1
  revert this
  decide

/-- a table at `A` whose only data file carries a base id that names `A` itself, absolutely -/
def exSelfBased : World :=
  [(rootA ++ relSegs (.file .data 0 0), .obj (.cols [(0, [some 1, some 2])])),
   (rootA ++ relSegs (.file .txn 1 0), .obj .blob),
   (rootA ++ relSegs (.ver (manifestName .V1 1)), .xman exManifest ⟨[(0, ⟨rootA, true⟩)], [(0, 0)], [], []⟩)]

/-- **explicit_root_base_counterexample.**  "No base path other than the root" has to be read as "no base id at all": a
    manifest that registers its OWN root as base path 0 and writes its files there (multi-base layout, `add_bases`)
    satisfies `basesAreRoot`, reads fine in place, and its copy reads nothing once the original is gone — the base path
    still names the old location. -/
theorem explicit_root_base_counterexample :
    (∀ v m b, manifestAtW exSelfBased rootA v = some (m, b) → basesAreRoot rootA m b = true) ∧
      (readW exSelfBased rootA 1).map (·.rows) = some [[some 1], [some 2]] ∧
      readW (copy rootA rootA' exSelfBased) rootA' 1 = none ∧
      ¬ C42_root_bases := by
  have hb : ∀ v m b, manifestAtW exSelfBased rootA v = some (m, b) → basesAreRoot rootA m b = true := by
    intro v m b h
    unfold manifestAtW at h
    cases hg : getW exSelfBased (resolveVersionW exSelfBased rootA v) with
    | none => rw [hg] at h; cases h
    | some o =>
      rw [hg] at h
      -- the only manifest object of the world
      have hmem : o = .obj (.cols [(0, [some 1, some 2])]) ∨ o = .obj .blob ∨
          o = .xman exManifest ⟨[(0, ⟨rootA, true⟩)], [(0, 0)], [], []⟩ := by
        generalize resolveVersionW exSelfBased rootA v = p at hg
        simp only [exSelfBased, getW] at hg
        split at hg
        · left; exact (Option.some.inj hg).symm
        · split at hg
          · right; left; exact (Option.some.inj hg).symm
          · split at hg
            · right; right; exact (Option.some.inj hg).symm
            · cases hg
      rcases hmem with rfl | rfl | rfl
      · cases h
      · cases h
      · simp only [manOf, Option.some.injEq, Prod.mk.injEq] at h
        obtain ⟨rfl, rfl⟩ := h
        decide
  refine ⟨hb, by decide, by decide, ?_⟩
  intro h
  have := (h exSelfBased rootA rootA' hb).1 1
  revert this
  decide

/-! ## non-vacuity -/

-- the example table is read at its root, its copy reads the same with the original gone, tags included
example : (readW exWorld rootA 1).map (·.rows) = some [[some 1], [some 2]] := by decide
example : ∀ m b, manifestAtW exWorld rootA 1 = some (m, b) → usesNoBase m b = true :=
  fun m b h => flatten_usesNoBase rootA exTbl 1 m b h
example : (readW (copy rootA rootA' exWorld) rootA' 1).map (·.rows) = some [[some 1], [some 2]] := by decide
example : versionsW (copy rootA rootA' exWorld) rootA' = [1] := by decide
example : tagsAt (copy rootA rootA' exWorld) rootA' = [("t1".toList, 1)] := by decide
example : (readTag (copy rootA rootA' exWorld) rootA' "t1".toList).map (·.rows) = some [[some 1], [some 2]] := by decide
-- the copy holds nothing of the original root, and the hypotheses of `copy_survives_removal` are satisfiable
example : getW (copy rootA rootA' exWorld) (rootA ++ relSegs (.file .data 0 0)) = none := by decide
example : under rootA rootA' = false ∧ under rootA' rootA = false ∧ ∀ e ∈ exWorld, under rootA' e.1 = false := by decide
-- the cloned manifest does carry base ids (the counterexample is not about a malformed world)
example : (manifestAtW exCloned rootC 1).map (fun mb => usesNoBase mb.1 mb.2) = some false := by decide
-- a history: the C01 example program, then a tag; the invariant and the reading theorems apply to it
example : (runH C01.exCfg Tbl.empty [.prog ⟨C01.exCreate, 9, none⟩, .tag "t".toList 1]).tags = [("t".toList, 1)] := by
  decide
example : (readW (copy rootA rootA' (flatten rootA (runH C01.exCfg Tbl.empty [.prog ⟨C01.exCreate, 9, none⟩]))) rootA' 1).map
    (·.rows) = some [[some 1], [some 2]] := by decide

end LanceModel.C42
