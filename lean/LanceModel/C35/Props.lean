import LanceModel.C35.KernelLemmas
import LanceModel.C35.ArgminLemmas
/-!
# C35 — distance kernels agree with the scalar definitions

"L2, cosine, dot and hamming distances from every code path (SIMD, float16, batch and Arrow-batch helpers) equal the
straightforward scalar definition within floating-point tolerance for every vector length and value range, and
nearest-centroid assignment picks a centroid at minimal distance."

What is proved here is the ALGORITHMIC half of that sentence, over the exact ring `Int`: for every `LANES`, every
length (all tails), every element type's kernel, the lane-chunked / SIMD-split / batch code paths compute the plain
`foldl` sum of the scalar definition, the batch helpers hand exactly the consecutive `dimension`-sized slices to the
single-vector kernel, and `argmin` / nearest-centroid return the first index of a minimal value.  Floating-point
rounding is NOT modelled and no rounding-error bound is proved; the tie to the Rust code is the correspondence run
(`./check C35`) on inputs where every partial sum is exact.
-/
namespace LanceModel.C35

/-! ## 1. lane-chunked kernels = plain fold -/

/-- `kernel_eq_scalar`: for EVERY lane count, every term function and every length (all remainders) the lane-chunked
    accumulation + horizontal reduction + scalar tail equals the plain left fold `Σ f a_i b_i`. -/
theorem kernel_eq_scalar (f : Int → Int → Int) (L : Nat) (a b : List Int) (h : a.length = b.length) :
    laneKernel f L a b = (List.zipWith f a b).foldl (· + ·) 0 :=
  laneKernel_eq f L a b h

example : laneKernel sqDiff 4 [1, 2, 3, 4, 5, 6, 7, 8, 9] [0, 0, 0, 0, 0, 0, 0, 0, 1] = 268 := by decide

/-- the same under the weaker hypothesis the code actually needs: both slices have the same NUMBER of full chunks -/
theorem kernel_eq_scalar_same_chunk_count (f : Int → Int → Int) (L : Nat) (a b : List Int)
    (h : a.length / L = b.length / L) :
    laneKernel f L a b = (List.zipWith f a b).foldl (· + ·) 0 :=
  laneKernel_eq_of_div f L a b h

example : laneKernel mul 2 [1, 2, 3] [4, 5] = 14 := by decide

/-- Outside that hypothesis (lengths differing by a chunk or more — outside the callers' contract "same dimension") the
    kernel is NOT the zip-sum: it pairs the two *remainders*, which then sit at different offsets. -/
theorem kernel_unequal_lengths_differ :
    ¬ ∀ (f : Int → Int → Int) (L : Nat) (a b : List Int), laneKernel f L a b = (List.zipWith f a b).foldl (· + ·) 0 := by
  intro h
  have := h sqDiff 2 [0, 0, 0, 0, 1] [0, 0, 1]
  revert this
  decide

/-- `chunks_exact` + `remainder` lose nothing: the chunks followed by the remainder are the slice -/
theorem chunks_exact_partition (n : Nat) (l : List Int) :
    (chunks n l).flatten ++ rem n l = l ∧ (∀ c ∈ chunks n l, c.length = n) ∧
    (chunks n l).length = l.length / n ∧ (rem n l).length = l.length % n :=
  ⟨flatten_chunks_append_rem n l, length_of_mem_chunks n l, length_chunks n l, length_rem n l⟩

/-- L2 of every element type (f32/f16/bf16: 16 lanes, f64: 8 lanes, u8: zip-sum) = Σ (a_i − b_i)² -/
theorem l2_eq_scalar (t : Ty) (a b : List Int) (h : a.length = b.length) :
    l2 t a b = (List.zipWith (fun x y => (x - y) * (x - y)) a b).foldl (· + ·) 0 := by
  cases t <;> first | exact laneKernel_eq sqDiff _ a b h | rfl

example : l2 .f32 (List.replicate 37 3) (List.replicate 37 1) = 148 := by decide

/-- dot of every element type (f32: 16 lanes, f64: 8, f16/bf16: 32, u8: zip-sum) = Σ a_i b_i; `dot_distance` = 1 − that -/
theorem dot_eq_scalar (t : Ty) (a b : List Int) (h : a.length = b.length) :
    dot t a b = (List.zipWith (fun x y => x * y) a b).foldl (· + ·) 0 ∧
    dotDistance t a b = 1 - (List.zipWith (fun x y => x * y) a b).foldl (· + ·) 0 := by
  have key : dot t a b = scalarDef mul a b := by
    cases t
    case u8 => rfl
    all_goals (show laneKernel mul _ b a = _; rw [laneKernel_eq mul _ b a h.symm, scalarDef_mul_comm])
  exact ⟨key, by unfold dotDistance; rw [key]; rfl⟩

example : dot .f16 (List.replicate 35 2) (List.replicate 35 3) = 210 := by decide

/-- squared L2 norm of every element type (lane counts 16/8/32/32/16) = Σ v_i² -/
theorem norm_eq_scalar (t : Ty) (v : List Int) :
    normSq t v = (v.map (fun x => x * x)).foldl (· + ·) 0 := by
  have key : normSq t v = scalarDef sqFst v v := by
    cases t <;> exact laneKernel_eq sqFst _ v v rfl
  rw [key]; unfold scalarDef isum; rw [List.zipWith_self]; rfl

example : normSq .bf16 (List.replicate 33 2) = 132 := by decide

/-! ## 2. cosine: the three exact ingredients -/

/-- the scalar definition of the three quantities cosine distance is made of -/
def cosRef (x y : List Int) : CosParts :=
  ⟨scalarDef mul x y, scalarDef mul x x, scalarDef mul y y⟩

theorem cosDotF32_eq (x y : List Int) (h : x.length = y.length) : cosDotF32 x y = scalarDef mul x y := by
  unfold cosDotF32
  apply simdF32_eq mul _ x y h
  intro a b hab
  show laneKernel mul 16 b a = _
  rw [laneKernel_eq mul 16 b a hab.symm, scalarDef_mul_comm]

theorem zipWith_snd (g : Int → Int) (a b : List Int) (h : a.length = b.length) :
    List.zipWith (fun _ y => g y) a b = b.map g := by
  induction a generalizing b with
  | nil => cases b with
    | nil => rfl
    | cons _ _ => simp at h
  | cons a0 a ih => cases b with
    | nil => simp at h
    | cons b0 b =>
      simp only [List.length_cons, Nat.add_right_cancel_iff] at h
      rw [List.zipWith_cons_cons, List.map_cons, ih b h]

theorem cosNormF32_eq (x y : List Int) (h : x.length = y.length) : cosNormF32 x y = scalarDef mul y y := by
  unfold cosNormF32
  rw [simdF32_eq (fun _ b => b * b) (fun _ b => normSq .f32 b) x y h (by
    intro a b hab
    show laneKernel sqFst 16 b b = _
    rw [laneKernel_eq sqFst 16 b b rfl]
    unfold scalarDef
    rw [List.zipWith_self, zipWith_snd (fun y => y * y) a b hab]
    rfl)]
  unfold scalarDef
  rw [zipWith_snd (fun y => y * y) x y h, List.zipWith_self]
  rfl

/-- `cosine_eq_scalar`: every code path of cosine (f32 16-lane + 8-lane + tail kernel; `cosine_scalar` through `dot` for
    f64/f16/bf16/u8; `cosine_with_norms`) computes the scalar `Σ x_i y_i`, `Σ x_i²`, `Σ y_i²`. -/
theorem cosine_eq_scalar (t : Ty) (x y : List Int) (h : x.length = y.length) :
    cosine t x y = some (cosRef x y) ∧ cosineWithNormsDot t x y = some (scalarDef mul x y) := by
  have hn : normSq t x = scalarDef mul x x := by
    have : normSq t x = scalarDef sqFst x x := by cases t <;> exact laneKernel_eq sqFst _ x x rfl
    rw [this]; unfold scalarDef; rw [List.zipWith_self, List.zipWith_self]; rfl
  have hd : ∀ a b : List Int, a.length = b.length → dot t a b = scalarDef mul a b := by
    intro a b hab
    have := (dot_eq_scalar t a b hab).1
    rw [this]; rfl
  unfold cosine cosineFast cosineWithNormsDot cosRef
  rw [if_neg (by simpa using h), if_neg (by simpa using h), hn]
  cases t
  case f32 => simp [cosDotF32_eq x y h, cosNormF32_eq x y h]
  all_goals simp [hd x y h, hd y y rfl]

example : cosine .f32 (List.replicate 27 1) (List.replicate 27 2) = some ⟨54, 27, 108⟩ := by decide

/-- zero-norm policy: the code has no special case; the result is NaN (`0/0`) exactly when one of the vectors is the
    zero vector, and then the numerator is `0` as well -/
theorem cosine_zero_norm (t : Ty) (x y : List Int) (h : x.length = y.length) (p : CosParts)
    (hp : cosine t x y = some p) :
    (p.isNaN = true ↔ ((∀ a ∈ x, a = 0) ∨ (∀ b ∈ y, b = 0))) ∧ (p.isNaN = true → p.xy = 0) := by
  rw [(cosine_eq_scalar t x y h).1] at hp
  have hp' : p = cosRef x y := (Option.some.inj hp).symm
  subst hp'
  have zero_of : ∀ v : List Int, (∀ a ∈ v, a = 0) → scalarDef mul v v = 0 :=
    fun v hv => scalarDef_mul_zero_left v v hv
  have iff1 : (cosRef x y).isNaN = true ↔ ((∀ a ∈ x, a = 0) ∨ (∀ b ∈ y, b = 0)) := by
    unfold CosParts.isNaN cosRef
    simp only [Bool.or_eq_true, beq_iff_eq]
    constructor
    · rintro (h0 | h0)
      · exact Or.inl (all_zero_of_sumsq_zero x h0)
      · exact Or.inr (all_zero_of_sumsq_zero y h0)
    · rintro (h0 | h0)
      · exact Or.inl (zero_of x h0)
      · exact Or.inr (zero_of y h0)
  refine ⟨iff1, ?_⟩
  intro hn
  rcases iff1.mp hn with h0 | h0
  · exact scalarDef_mul_zero_left x y h0
  · show scalarDef mul x y = 0
    rw [scalarDef_mul_comm]; exact scalarDef_mul_zero_left y x h0

example : (cosine .f64 [0, 0, 0] [1, 2, 3]).map CosParts.isNaN = some true := by decide

/-! ## 3. hamming -/

/-- `hamming_eq_popcount`: the 64-byte-chunked kernel = Σ popcount(a_i xor b_i) (plain fold), and the popcount of an xor
    is the number of bit positions in which the two bytes differ. -/
theorem hamming_eq_popcount (a b : List Int) (h : a.length = b.length) :
    hamming a b = (List.zipWith xorPop a b).foldl (· + ·) 0 ∧ hamming a b = hammingScalar a b ∧
    ∀ m n : Nat, popcount8 (m ^^^ n) = ((List.range 8).filter (fun i => m.testBit i != n.testBit i)).length := by
  have key : hamming a b = scalarDef xorPop a b := hammingAutovec_eq_of_div 64 a b (by rw [h])
  refine ⟨key, key, ?_⟩
  intro m n
  rw [popcount8_eq]
  congr 2
  funext i
  rw [Nat.testBit_xor]

example : hamming [0b11011010, 0b10101010, 0b10101010] [0b11011010, 0b10101010, 0b10101001] = 2 := by decide
example : hamming (List.replicate 70 255) (List.replicate 70 0) = 560 := by decide

/-! ## 4. batch and Arrow-batch helpers -/

/-- `batch_eq_map`: a batch helper returns one value per FULL `dimension`-sized slice of `to`, the `j`-th value being the
    single-vector kernel applied to the slice `[j·dim, (j+1)·dim)`; a trailing partial slice is dropped; `dimension = 0`
    does not return (`chunks_exact(0)` panics). -/
theorem batch_eq_map {β : Type} (dim : Nat) (k : List Int → β) (to : List Int) :
    (dim = 0 → batchMap dim k to = none) ∧
    (0 < dim → ∃ r, batchMap dim k to = some r ∧ r.length = to.length / dim ∧
      ∀ j : Nat, r[j]? = if (j + 1) * dim ≤ to.length then some (k ((to.drop (j * dim)).take dim)) else none) := by
  constructor
  · intro h; simp [batchMap, h]
  · intro h
    refine ⟨(chunks dim to).map k, by simp [batchMap, Nat.ne_of_gt h], by simp [length_chunks], ?_⟩
    intro j
    rw [List.getElem?_map, getElem?_chunks dim h to j]
    split <;> rfl

example : l2Batch .f32 2 [1, 1] [0, 0, 1, 1, 3, 3, 9] = some [2, 0, 8] := by decide

/-- the L2 / dot / hamming batch helpers against the scalar definition: with `from.len() = dimension`, the `j`-th output is
    the scalar distance between `from` and the `j`-th row of `to` -/
theorem batch_eq_scalar (t : Ty) (dim : Nat) (hd : 0 < dim) (frm to : List Int) (hf : frm.length = dim) (j : Nat)
    (hj : (j + 1) * dim ≤ to.length) :
    (∃ r, l2Batch t dim frm to = some r ∧ r[j]? = some (scalarDef sqDiff frm ((to.drop (j * dim)).take dim))) ∧
    (∃ r, dotDistanceBatch t dim frm to = some r ∧ r[j]? = some (1 - scalarDef mul frm ((to.drop (j * dim)).take dim))) ∧
    (∃ r, hammingBatch dim frm to = some r ∧ r[j]? = some (scalarDef xorPop frm ((to.drop (j * dim)).take dim))) := by
  have hlen : frm.length = ((to.drop (j * dim)).take dim).length := by
    rw [List.length_take, List.length_drop, hf]
    have : (j + 1) * dim = j * dim + dim := by rw [Nat.add_mul]; omega
    omega
  refine ⟨?_, ?_, ?_⟩
  · obtain ⟨r, h1, _, h3⟩ := (batch_eq_map dim (l2 t frm) to).2 hd
    refine ⟨r, h1, ?_⟩
    rw [h3 j, if_pos hj, l2_eq_scalar t _ _ hlen]; rfl
  · obtain ⟨r, h1, _, h3⟩ := (batch_eq_map dim (dotDistance t frm) to).2 hd
    refine ⟨r, h1, ?_⟩
    rw [h3 j, if_pos hj, (dot_eq_scalar t _ _ hlen).2]; rfl
  · obtain ⟨r, h1, _, h3⟩ := (batch_eq_map dim (hamming frm) to).2 hd
    refine ⟨r, h1, ?_⟩
    rw [h3 j, if_pos hj, (hamming_eq_popcount _ _ hlen).1]; rfl

/-- the cosine batch helper (incl. the f32 `dimension ∈ {8, 16}` single-register path) row by row -/
theorem cosine_batch_eq_scalar (t : Ty) (dim : Nat) (hd : 0 < dim) (x to : List Int) (hx : x.length = dim) (j : Nat)
    (hj : (j + 1) * dim ≤ to.length) :
    ∃ r, cosineBatch t dim x to = some r ∧ r[j]? = some (cosRef x ((to.drop (j * dim)).take dim)) := by
  have hn : normSq t x = scalarDef mul x x := by
    have := (cosine_eq_scalar t x x rfl).1
    unfold cosine cosineFast at this
    rw [if_neg (by simp)] at this
    cases t <;> (simp only [Option.some.injEq] at this; exact congrArg CosParts.xx this)
  have hrow : ∀ c ∈ chunks dim to, c.length = dim := length_of_mem_chunks dim to
  have hfast : ∀ c ∈ chunks dim to, cosineFast t x (normSq t x) c = some (cosRef x c) := by
    intro c hc
    have := (cosine_eq_scalar t x c (by rw [hx, hrow c hc])).1
    exact this
  unfold cosineBatch
  rw [if_neg (by omega)]
  dsimp only
  have hget : (chunks dim to)[j]? = some ((to.drop (j * dim)).take dim) := by
    rw [getElem?_chunks dim hd to j, if_pos hj]
  split
  · rename_i h816
    refine ⟨_, rfl, ?_⟩
    rw [List.getElem?_map, hget, Option.map_some]
    have hc : ((to.drop (j * dim)).take dim).length = dim := hrow _ (List.mem_of_getElem? hget)
    unfold cosineOnce cosRef
    rw [hn, List.take_of_length_le (Nat.le_of_eq hx), List.take_of_length_le (Nat.le_of_eq hc)]
  · have hall : (chunks dim to).mapM (cosineFast t x (normSq t x)) = some ((chunks dim to).map (cosRef x)) := by
      generalize chunks dim to = cs at hfast
      induction cs with
      | nil => rfl
      | cons c cs ih =>
        rw [List.mapM_cons, hfast c (List.mem_cons_self), ih (fun d hd => hfast d (List.mem_cons_of_mem _ hd))]
        rfl
    refine ⟨_, hall, ?_⟩
    rw [List.getElem?_map, hget]; rfl

example : cosineBatch .f32 8 (List.replicate 8 1) (List.replicate 16 2) = some [⟨16, 8, 32⟩, ⟨16, 8, 32⟩] := by decide

/-- Arrow-batch helpers: the null buffer of `to` is attached unchanged — row `j` is null iff it is null in `to`, and a valid
    row carries the batch kernel's value -/
theorem arrow_batch_nulls {β : Type} (valid : List Bool) (vals : List β) (hv : valid ≠ [] → valid.length = vals.length) (j : Nat)
    (v : β) (hj : vals[j]? = some v) :
    (withNulls valid vals)[j]? = some (if valid = [] ∨ valid[j]? = some true then some v else none) := by
  unfold withNulls
  by_cases he : valid = []
  · subst he; simp [hj]
  · have hlen := hv he
    have hjl : j < vals.length := by
      rcases Nat.lt_or_ge j vals.length with h | h
      · exact h
      · rw [List.getElem?_eq_none h] at hj; cases hj
    have hb : valid[j]? = some valid[j] := List.getElem?_eq_getElem (by omega)
    rw [if_neg (by simpa using he), List.getElem?_zipWith, hb, hj]
    cases hvj : valid[j] <;> simp [he]

/-! ## 5. argmin and nearest-centroid assignment -/

/-- `argmin_minimal`: `argmin_value_opt` (and with it `argmin`, `argmin_value`, `argmin_opt`, `argmin_value_float`) returns
    the FIRST index holding a least comparable value (no value compares below it; nothing before it equals it), that value
    is strictly below the start value `top`; it returns `None` exactly when no item compares below `top` — in particular
    on empty input, on all-NaN / all-`None` input. -/
theorem argmin_minimal (top : V) (xs : List (Option V)) :
    match argminValueOpt top xs with
    | some (i, v) =>
        xs[i]? = some (some v) ∧ V.lt v top = true ∧
        (∀ (j : Nat) (w : V), xs[j]? = some (some w) → V.lt w v = false) ∧
        (∀ (j : Nat) (w : V), j < i → xs[j]? = some (some w) → w ≠ v)
    | none => ∀ (j : Nat) (w : V), xs[j]? = some (some w) → V.lt w top = false := by
  unfold argminValueOpt
  dsimp only
  rcases argminGo_spec xs 0 none top with ⟨_, h2, h3⟩ | ⟨j, h1, h2, h3, h4, h5⟩
  · rw [h2]; exact h3
  · rw [h1, Nat.zero_add]; exact ⟨h2, h3, h4, h5⟩

example : argminValueOpt (.fin 100) [some (.fin 5), none, some .nan, some (.fin 2), some (.fin 2)] = some (3, .fin 2) := by
  decide

theorem argmin_empty (top : V) : argminValueOpt top [] = none ∧ argmin top [] = none := ⟨rfl, rfl⟩

/-- the property one expects from the doc comments ("`None` if the iterator is empty or all are NaN/Inf"): a non-empty
    NaN-free input of a numeric type has an argmin -/
def argmin_full : Prop :=
  ∀ (nt : NumTy) (xs : List V), xs ≠ [] → (∀ x ∈ xs, ∃ z, x = V.fin z) → (argmin nt.top xs).isSome = true

/-- … which the code does not satisfy: the loop starts from `T::max_value()` with a strict `<`, so an input made only of
    `T::MAX` (`u8` 255, `f32::MAX`, …) has no argmin -/
theorem argmin_counterexample : ¬ argmin_full := by
  intro h
  have := h .u8 [.fin 255] (by simp) (by intro x hx; exact ⟨255, by simpa using hx⟩)
  revert this
  decide

/-- what does hold: as soon as one item is below `T::max_value()` there is an argmin (with the guarantees of
    `argmin_minimal`); for the float entry point `argmin_value_float` (`top = +∞`) this is "some item is neither NaN nor +∞",
    which is the documented behaviour -/
theorem argmin_partial (top : V) (xs : List V) (h : ∃ x ∈ xs, V.lt x top = true) :
    ∃ i v, argminValue top xs = some (i, v) ∧ xs[i]? = some v ∧
      (∀ w ∈ xs, V.lt w v = false) ∧ (∀ (j : Nat) (w : V), j < i → xs[j]? = some w → w ≠ v) := by
  have hspec := argmin_minimal top (xs.map some)
  unfold argminValue
  cases hr : argminValueOpt top (xs.map some) with
  | none =>
    rw [hr] at hspec
    obtain ⟨x, hx, hlt⟩ := h
    obtain ⟨j, hj⟩ := List.getElem?_of_mem hx
    have := hspec j x (by rw [List.getElem?_map, hj]; rfl)
    rw [this] at hlt; cases hlt
  | some p =>
    obtain ⟨i, v⟩ := p
    rw [hr] at hspec
    obtain ⟨h1, _, h3, h4⟩ := hspec
    refine ⟨i, v, rfl, ?_, ?_, ?_⟩
    · rw [List.getElem?_map] at h1
      cases hx : xs[i]? with
      | none => rw [hx] at h1; cases h1
      | some w => rw [hx] at h1; simp only [Option.map_some, Option.some.injEq] at h1; rw [h1]
    · intro w hw
      obtain ⟨j, hj⟩ := List.getElem?_of_mem hw
      exact h3 j w (by rw [List.getElem?_map, hj]; rfl)
    · intro j w hji hj
      exact h4 j w hji (by rw [List.getElem?_map, hj]; rfl)

example : ∃ x ∈ [V.fin 7, V.pinf, V.fin 3], V.lt x .pinf = true := ⟨.fin 7, by simp, rfl⟩

/-- the documented contract of the float entry point: `argmin_value_float` returns `None` exactly when the input is empty or
    every item is NaN or +∞ -/
theorem argmin_float_none_iff (xs : List V) :
    argminValueFloat xs = none ↔ ∀ x ∈ xs, x = V.nan ∨ x = V.pinf := by
  have hspec := argmin_minimal .pinf (xs.map some)
  unfold argminValueFloat argminValue
  constructor
  · intro hn
    rw [hn] at hspec
    intro x hx
    obtain ⟨j, hj⟩ := List.getElem?_of_mem hx
    have := hspec j x (by rw [List.getElem?_map, hj]; rfl)
    cases x <;> simp_all [V.lt]
  · intro hall
    cases hr : argminValueOpt .pinf (xs.map some) with
    | none => rfl
    | some p =>
      obtain ⟨i, v⟩ := p
      rw [hr] at hspec
      obtain ⟨h1, h2, _, _⟩ := hspec
      rw [List.getElem?_map] at h1
      cases hx : xs[i]? with
      | none => rw [hx] at h1; cases h1
      | some w =>
        rw [hx] at h1
        simp only [Option.map_some, Option.some.injEq] at h1
        subst h1
        rcases hall w (List.mem_of_getElem? hx) with h | h <;> rw [h] at h2 <;> cases h2

example : argminValueFloat [.nan, .pinf, .pinf] = none := by decide

/-- `argmax_opt` / `argmax`: the mirror statement — first index of a greatest comparable value, strictly above
    `T::min_value()`; `None` when nothing compares above it -/
theorem argmax_maximal (bot : V) (xs : List (Option V)) :
    match argmaxOpt bot xs with
    | some i => ∃ v, xs[i]? = some (some v) ∧ V.lt bot v = true ∧
        (∀ (j : Nat) (w : V), xs[j]? = some (some w) → V.lt v w = false) ∧
        (∀ (j : Nat) (w : V), j < i → xs[j]? = some (some w) → w ≠ v)
    | none => ∀ (j : Nat) (w : V), xs[j]? = some (some w) → V.lt bot w = false := by
  unfold argmaxOpt
  rcases argmaxGo_spec xs 0 none bot with ⟨_, h2, h3⟩ | ⟨j, h1, h2, h3, h4, h5⟩
  · rw [h2]; exact h3
  · rw [h1, Nat.zero_add]; exact ⟨_, h2, h3, h4, h5⟩

example : argmaxOpt (.fin 0) [some (.fin 1), none, some .nan, some (.fin 7), some (.fin 7)] = some 3 := by decide

/-- scalar reference distances -/
def refDist : Metric → List Int → List Int → Int
  | .l2, v, c => scalarDef sqDiff v c
  | .dot, v, c => 1 - scalarDef mul v c

theorem metricDist_eq (t : Ty) (m : Metric) (v c : List Int) (h : v.length = c.length) :
    metricDist t m v c = refDist m v c := by
  cases m
  · exact l2_eq_scalar t v c h
  · exact (dot_eq_scalar t v c h).2

/-- `nearest_minimal`: nearest-centroid assignment (`compute_partition`, `compute_partitions*` per vector) over centroids
    of the vector's dimension returns the FIRST centroid whose SCALAR distance to the vector is minimal, together with
    that distance; it returns `None` only when there is no centroid. -/
theorem nearest_minimal (t : Ty) (m : Metric) (dim : Nat) (hd : 0 < dim) (centroids v : List Int) (hv : v.length = dim) :
    match nearest t m dim centroids v with
    | some (i, d) =>
        ∃ c, (chunks dim centroids)[i]? = some c ∧ d = V.fin (refDist m v c) ∧
          (∀ (j : Nat) (c' : List Int), (chunks dim centroids)[j]? = some c' → refDist m v c ≤ refDist m v c') ∧
          (∀ (j : Nat) (c' : List Int), j < i → (chunks dim centroids)[j]? = some c' → refDist m v c < refDist m v c')
    | none => centroids.length < dim := by
  have hrow : ∀ (j : Nat) (c : List Int), (chunks dim centroids)[j]? = some c → metricDist t m v c = refDist m v c := by
    intro j c hc
    exact metricDist_eq t m v c (by rw [hv, length_of_mem_chunks dim centroids c (List.mem_of_getElem? hc)])
  have hget : ∀ j : Nat, ((((chunks dim centroids).map (metricDist t m v)).map V.fin).map some)[j]?
      = ((chunks dim centroids)[j]?).map (fun c => some (V.fin (metricDist t m v c))) := by
    intro j
    simp only [List.getElem?_map, Option.map_map]
    rfl
  have hspec := argmin_minimal .pinf ((((chunks dim centroids).map (metricDist t m v)).map V.fin).map some)
  unfold nearest argminValueFloat argminValue
  cases hr : argminValueOpt .pinf ((((chunks dim centroids).map (metricDist t m v)).map V.fin).map some) with
  | none =>
    rw [hr] at hspec
    dsimp only
    rcases Nat.lt_or_ge centroids.length dim with h | h
    · exact h
    · exfalso
      have h0 : (chunks dim centroids)[0]? = some ((centroids.drop (0 * dim)).take dim) := by
        rw [getElem?_chunks dim hd centroids 0, if_pos (by omega)]
      have := hspec 0 (V.fin (metricDist t m v ((centroids.drop (0 * dim)).take dim))) (by rw [hget 0, h0]; rfl)
      revert this; simp [V.lt]
  | some p =>
    obtain ⟨i, d⟩ := p
    rw [hr] at hspec
    dsimp only at hspec ⊢
    obtain ⟨h1, _, h3, h4⟩ := hspec
    rw [hget i] at h1
    cases hc : (chunks dim centroids)[i]? with
    | none => rw [hc] at h1; cases h1
    | some c =>
      rw [hc] at h1
      simp only [Option.map_some, Option.some.injEq] at h1
      have hd' : d = V.fin (refDist m v c) := by rw [← h1, hrow i c hc]
      have hmin : ∀ (j : Nat) (c' : List Int), (chunks dim centroids)[j]? = some c' → refDist m v c ≤ refDist m v c' := by
        intro j c' hc'
        have := h3 j (V.fin (metricDist t m v c')) (by rw [hget j, hc']; rfl)
        rw [hd', hrow j c' hc', V.fin_lt_fin] at this
        simpa using this
      refine ⟨c, rfl, hd', hmin, ?_⟩
      intro j c' hji hc'
      have hne := h4 j (V.fin (metricDist t m v c')) hji (by rw [hget j, hc']; rfl)
      rw [hd', hrow j c' hc'] at hne
      have hle := hmin j c' hc'
      have : refDist m v c' ≠ refDist m v c := fun he => hne (by rw [he])
      omega

example : nearest .f32 .l2 2 [5, 5, 1, 1, 1, 3, 0, 0] [1, 2] = some (1, .fin 1) := by decide

/-- the hamming (k-modes) assignment, which goes through `argmin_value` (`top = f32::MAX`): same guarantee -/
theorem nearest_hamming_minimal (dim : Nat) (_hd : 0 < dim) (centroids v : List Int) (hv : v.length = dim) :
    match nearestHamming dim centroids v with
    | some (i, d) =>
        ∃ c, (chunks dim centroids)[i]? = some c ∧ d = V.fin (scalarDef xorPop v c) ∧
          (∀ (j : Nat) (c' : List Int), (chunks dim centroids)[j]? = some c' → scalarDef xorPop v c ≤ scalarDef xorPop v c') ∧
          (∀ (j : Nat) (c' : List Int), j < i → (chunks dim centroids)[j]? = some c' → scalarDef xorPop v c < scalarDef xorPop v c')
    | none => centroids.length < dim ∨ ∀ c ∈ chunks dim centroids, f32Max ≤ scalarDef xorPop v c := by
  have hrow : ∀ (j : Nat) (c : List Int), (chunks dim centroids)[j]? = some c → hamming v c = scalarDef xorPop v c := by
    intro j c hc
    exact (hamming_eq_popcount v c (by rw [hv, length_of_mem_chunks dim centroids c (List.mem_of_getElem? hc)])).1
  have hget : ∀ j : Nat, ((((chunks dim centroids).map (hamming v)).map V.fin).map some)[j]?
      = ((chunks dim centroids)[j]?).map (fun c => some (V.fin (hamming v c))) := by
    intro j
    simp only [List.getElem?_map, Option.map_map]
    rfl
  have hspec := argmin_minimal (NumTy.top .f32) ((((chunks dim centroids).map (hamming v)).map V.fin).map some)
  unfold nearestHamming argminValue
  cases hr : argminValueOpt (NumTy.top .f32) ((((chunks dim centroids).map (hamming v)).map V.fin).map some) with
  | none =>
    rw [hr] at hspec
    dsimp only at hspec ⊢
    right
    intro c hc
    obtain ⟨j, hj⟩ := List.getElem?_of_mem hc
    have := hspec j (V.fin (hamming v c)) (by rw [hget j, hj]; rfl)
    rw [hrow j c hj] at this
    simp only [NumTy.top, V.fin_lt_fin, decide_eq_false_iff_not] at this
    omega
  | some p =>
    obtain ⟨i, d⟩ := p
    rw [hr] at hspec
    dsimp only at hspec ⊢
    obtain ⟨h1, _, h3, h4⟩ := hspec
    rw [hget i] at h1
    cases hc : (chunks dim centroids)[i]? with
    | none => rw [hc] at h1; cases h1
    | some c =>
      rw [hc] at h1
      simp only [Option.map_some, Option.some.injEq] at h1
      have hd' : d = V.fin (scalarDef xorPop v c) := by rw [← h1, hrow i c hc]
      have hmin : ∀ (j : Nat) (c' : List Int), (chunks dim centroids)[j]? = some c' →
          scalarDef xorPop v c ≤ scalarDef xorPop v c' := by
        intro j c' hc'
        have := h3 j (V.fin (hamming v c')) (by rw [hget j, hc']; rfl)
        rw [hd', hrow j c' hc', V.fin_lt_fin] at this
        simpa using this
      refine ⟨c, rfl, hd', hmin, ?_⟩
      intro j c' hji hc'
      have hne := h4 j (V.fin (hamming v c')) hji (by rw [hget j, hc']; rfl)
      rw [hd', hrow j c' hc'] at hne
      have hle := hmin j c' hc'
      have : scalarDef xorPop v c' ≠ scalarDef xorPop v c := fun he => hne (by rw [he])
      omega

/-- `compute_partitions*`: one `nearest` per consecutive `dimension`-sized vector -/
theorem compute_partitions_rows (t : Ty) (m : Metric) (dim : Nat) (hd : 0 < dim) (centroids vectors : List Int)
    (hv : vectors.length % dim = 0) (hc : centroids.length % dim = 0) :
    ∃ r, computePartitions t m dim centroids vectors = some r ∧ r.length = vectors.length / dim ∧
      ∀ j : Nat, (j + 1) * dim ≤ vectors.length →
        r[j]? = some (nearest t m dim centroids ((vectors.drop (j * dim)).take dim)) := by
  unfold computePartitions
  rw [if_neg (by omega)]
  refine ⟨_, rfl, by simp [length_chunks], ?_⟩
  intro j hj
  rw [List.getElem?_map, getElem?_chunks dim hd vectors j, if_pos hj]; rfl

example : computePartitions .f64 .dot 2 [1, 0, 0, 1] [3, 1, 1, 3] = some [some (0, .fin (-2)), some (1, .fin (-2))] := by
  decide

end LanceModel.C35
