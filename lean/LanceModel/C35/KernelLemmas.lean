import LanceModel.C35.ChunkLemmas
/-
C35 helper lemmas: lane kernel = scalar definition; the f32 cosine SIMD split; popcount; sums of squares.
-/
namespace LanceModel.C35

/-- the lane-chunked kernel equals the plain zip-sum whenever both slices have the same NUMBER of full chunks
    (in particular for equal lengths) — for every `LANES`, every length, every tail -/
theorem laneKernel_eq_of_div (f : Int → Int → Int) (L : Nat) (a b : List Int)
    (h : a.length / L = b.length / L) : laneKernel f L a b = scalarDef f a b := by
  unfold laneKernel tailSum scalarDef
  rw [isum_laneAcc, isum_zipWith_chunks_of_div f L a b h]
  omega

theorem laneKernel_eq (f : Int → Int → Int) (L : Nat) (a b : List Int)
    (h : a.length = b.length) : laneKernel f L a b = scalarDef f a b :=
  laneKernel_eq_of_div f L a b (by rw [h])

theorem hammingAutovec_eq_of_div (L : Nat) (a b : List Int) (h : a.length / L = b.length / L) :
    hammingAutovec L a b = scalarDef xorPop a b := by
  unfold hammingAutovec tailSum scalarDef
  rw [isum_zipWith_chunks_of_div xorPop L a b h]
  omega

theorem scalarDef_mul_comm (a b : List Int) : scalarDef mul a b = scalarDef mul b a := by
  unfold scalarDef
  rw [List.zipWith_comm]
  congr 2
  funext x y
  exact Int.mul_comm y x

theorem scalarDef_append (f : Int → Int → Int) (a a' b b' : List Int) (h : a.length = b.length) :
    scalarDef f (a ++ a') (b ++ b') = scalarDef f a b + scalarDef f a' b' := by
  unfold scalarDef
  rw [List.zipWith_append h, isum_append]

/-- the three-way split of the f32 cosine kernels is a split of the zip-sum -/
theorem scalarDef_split3 (f : Int → Int → Int) (x y : List Int) (u al : Nat) (hu : u ≤ al) :
    scalarDef f x y
      = scalarDef f (x.take u) (y.take u)
        + scalarDef f ((x.drop u).take (al - u)) ((y.drop u).take (al - u))
        + scalarDef f (x.drop al) (y.drop al) := by
  unfold scalarDef
  rw [isum_zipWith_split f u x y, isum_zipWith_split f (al - u) (x.drop u) (y.drop u), List.drop_drop, List.drop_drop]
  have : u + (al - u) = al := by omega
  rw [this]
  omega

theorem simdF32_eq (f : Int → Int → Int) (tailK : List Int → List Int → Int) (x y : List Int)
    (h : x.length = y.length)
    (htail : ∀ a b : List Int, a.length = b.length → tailK a b = scalarDef f a b) :
    simdF32 f tailK x y = scalarDef f x y := by
  unfold simdF32
  dsimp only
  have hu : x.length / 16 * 16 ≤ x.length / 8 * 8 := by omega
  rw [scalarDef_split3 f x y (x.length / 16 * 16) (x.length / 8 * 8) hu,
    htail _ _ (by simp only [List.length_drop]; omega),
    ← laneKernel_eq f 16 (x.take (x.length / 16 * 16)) (y.take (x.length / 16 * 16))
      (by simp only [List.length_take]; omega),
    ← laneKernel_eq f 8 ((x.drop (x.length / 16 * 16)).take (x.length / 8 * 8 - x.length / 16 * 16))
      ((y.drop (x.length / 16 * 16)).take (x.length / 8 * 8 - x.length / 16 * 16))
      (by simp only [List.length_take, List.length_drop]; omega)]
  -- the two lane loops have no remainder: their slices are whole numbers of 16 / 8 lanes
  have t16 : tailSum f 16 (x.take (x.length / 16 * 16)) (y.take (x.length / 16 * 16)) = 0 := by
    unfold tailSum
    have : rem 16 (x.take (x.length / 16 * 16)) = [] := by
      apply List.eq_nil_of_length_eq_zero
      rw [length_rem, List.length_take]
      omega
    rw [this]; rfl
  have t8 : tailSum f 8 ((x.drop (x.length / 16 * 16)).take (x.length / 8 * 8 - x.length / 16 * 16))
      ((y.drop (x.length / 16 * 16)).take (x.length / 8 * 8 - x.length / 16 * 16)) = 0 := by
    unfold tailSum
    have : rem 8 ((x.drop (x.length / 16 * 16)).take (x.length / 8 * 8 - x.length / 16 * 16)) = [] := by
      apply List.eq_nil_of_length_eq_zero
      rw [length_rem, List.length_take, List.length_drop]
      omega
    rw [this]; rfl
  unfold laneKernel
  rw [t16, t8]
  omega

/-! ### sums of squares -/

theorem mul_self_nonneg' (a : Int) : 0 ≤ a * a := by
  rcases Int.le_total 0 a with h | h
  · exact Int.mul_nonneg h h
  · exact Int.mul_nonneg_of_nonpos_of_nonpos h h

theorem isum_nonneg (l : List Int) (h : ∀ x ∈ l, 0 ≤ x) : 0 ≤ isum l := by
  induction l with
  | nil => simp [isum_nil]
  | cons x t ih =>
    rw [isum_cons]
    have := h x (List.mem_cons_self)
    have := ih (fun y hy => h y (List.mem_cons_of_mem _ hy))
    omega

/-- a sum of squares is zero only for the zero vector -/
theorem all_zero_of_sumsq_zero (v : List Int) (h : scalarDef mul v v = 0) : ∀ x ∈ v, x = 0 := by
  induction v with
  | nil => intro x hx; cases hx
  | cons a t ih =>
    unfold scalarDef at h ih
    rw [List.zipWith_cons_cons, isum_cons] at h
    have hsq : 0 ≤ mul a a := by unfold mul; exact mul_self_nonneg' _
    have hrest : 0 ≤ isum (List.zipWith mul t t) := by
      apply isum_nonneg
      intro x hx
      rw [List.zipWith_self, List.mem_map] at hx
      obtain ⟨y, _, rfl⟩ := hx
      unfold mul; exact mul_self_nonneg' _
    have h1 : mul a a = 0 := by omega
    have h2 : isum (List.zipWith mul t t) = 0 := by omega
    have ha : a = 0 := by
      unfold mul at h1
      rcases Int.mul_eq_zero.mp h1 with h | h <;> exact h
    intro x hx
    rcases List.mem_cons.mp hx with rfl | hx
    · exact ha
    · exact ih h2 x hx

theorem scalarDef_mul_zero_left (x y : List Int) (h : ∀ a ∈ x, a = 0) : scalarDef mul x y = 0 := by
  induction x generalizing y with
  | nil => simp [scalarDef, isum_nil]
  | cons a t ih =>
    cases y with
    | nil => simp [scalarDef, isum_nil]
    | cons b s =>
      unfold scalarDef at ih ⊢
      rw [List.zipWith_cons_cons, isum_cons, ih s (fun c hc => h c (List.mem_cons_of_mem _ hc)),
        h a (List.mem_cons_self)]
      simp [mul]

/-! ### popcount -/

theorem foldl_count (p : Nat → Bool) (l : List Nat) (acc : Nat) :
    l.foldl (fun acc i => acc + (if p i then 1 else 0)) acc = acc + (l.filter p).length := by
  induction l generalizing acc with
  | nil => simp
  | cons x t ih =>
    rw [List.foldl_cons, ih, List.filter_cons]
    cases p x <;> simp <;> omega

/-- `count_ones` of a byte counts the set bits among positions 0..7 -/
theorem popcount8_eq (n : Nat) :
    popcount8 n = ((List.range 8).filter (fun i => n.testBit i)).length := by
  unfold popcount8
  rw [foldl_count]; simp

end LanceModel.C35
