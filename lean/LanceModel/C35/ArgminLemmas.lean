import LanceModel.C35.Model
/-
C35 helper lemmas: the order on `V` and the argmin / argmax loops.
-/
namespace LanceModel.C35

theorem V.lt_irrefl (a : V) : V.lt a a = false := by
  cases a <;> simp [V.lt]

theorem V.lt_trans {a b c : V} (h1 : V.lt a b = true) (h2 : V.lt b c = true) : V.lt a c = true := by
  cases a <;> cases b <;> cases c <;> simp_all [V.lt] <;> omega

theorem V.lt_asymm {a b : V} (h : V.lt a b = true) : V.lt b a = false := by
  cases a <;> cases b <;> simp_all [V.lt] <;> omega

theorem V.ne_nan_of_lt_left {a b : V} (h : V.lt a b = true) : a ≠ .nan := by
  cases a <;> simp_all [V.lt]

theorem V.ne_nan_of_lt_right {a b : V} (h : V.lt a b = true) : b ≠ .nan := by
  cases a <;> cases b <;> simp_all [V.lt]

/-- on non-NaN values `lt` is a strict total order -/
theorem V.lt_trichotomy {a b : V} (ha : a ≠ .nan) (hb : b ≠ .nan) :
    V.lt a b = true ∨ a = b ∨ V.lt b a = true := by
  cases a <;> cases b <;> simp_all [V.lt] <;> omega

/-- `¬ (v < m)` and `r < m` give `¬ (v < r)` -/
theorem V.not_lt_of_not_lt_of_lt {v r m : V} (h1 : V.lt v m = false) (h2 : V.lt r m = true) :
    V.lt v r = false := by
  cases hv : V.lt v r with
  | false => rfl
  | true => rw [V.lt_trans hv h2] at h1; cases h1

theorem V.fin_lt_fin (a b : Int) : V.lt (.fin a) (.fin b) = decide (a < b) := rfl

/-- Specification of the `argmin` loop.  Either nothing was smaller than the start value `m` (the state is unchanged), or
    the result is the FIRST position holding the least comparable value, and that value is `< m`. -/
theorem argminGo_spec (xs : List (Option V)) (idx : Nat) (best : Option Nat) (m : V) :
    ((argminGo xs idx best m).2 = m ∧ (argminGo xs idx best m).1 = best ∧
        ∀ (j : Nat) (w : V), xs[j]? = some (some w) → V.lt w m = false)
    ∨ (∃ j, (argminGo xs idx best m).1 = some (idx + j) ∧ xs[j]? = some (some (argminGo xs idx best m).2) ∧
        V.lt (argminGo xs idx best m).2 m = true ∧
        (∀ (j' : Nat) (w : V), xs[j']? = some (some w) → V.lt w (argminGo xs idx best m).2 = false) ∧
        (∀ (j' : Nat) (w : V), j' < j → xs[j']? = some (some w) → w ≠ (argminGo xs idx best m).2)) := by
  induction xs generalizing idx best m with
  | nil => left; simp [argminGo]
  | cons x t ih =>
    cases x with
    | none =>
      simp only [argminGo]
      rcases ih (idx + 1) best m with ⟨h1, h2, h3⟩ | ⟨j, h1, h2, h3, h4, h5⟩
      · left
        refine ⟨h1, h2, ?_⟩
        intro j w hj
        cases j with
        | zero => simp at hj
        | succ j => exact h3 j w (by simpa using hj)
      · right
        refine ⟨j + 1, by rw [h1]; congr 1; omega, by simpa using h2, h3, ?_, ?_⟩
        · intro j' w hj
          cases j' with
          | zero => simp at hj
          | succ j' => exact h4 j' w (by simpa using hj)
        · intro j' w hlt hj
          cases j' with
          | zero => simp at hj
          | succ j' => exact h5 j' w (by omega) (by simpa using hj)
    | some v =>
      simp only [argminGo]
      by_cases hv : V.lt v m = true
      · rw [if_pos hv]
        rcases ih (idx + 1) (some idx) v with ⟨h1, h2, h3⟩ | ⟨j, h1, h2, h3, h4, h5⟩
        · right
          refine ⟨0, by rw [h2]; rfl, by rw [h1]; rfl, by rw [h1]; exact hv, ?_, ?_⟩
          · intro j' w hj
            rw [h1]
            cases j' with
            | zero =>
              have : w = v := by simpa using hj.symm
              rw [this]; exact V.lt_irrefl v
            | succ j' => exact h3 j' w (by simpa using hj)
          · intro j' w hlt; omega
        · right
          refine ⟨j + 1, by rw [h1]; congr 1; omega, by simpa using h2, V.lt_trans h3 hv, ?_, ?_⟩
          · intro j' w hj
            cases j' with
            | zero =>
              have : w = v := by simpa using hj.symm
              rw [this]; exact V.lt_asymm h3
            | succ j' => exact h4 j' w (by simpa using hj)
          · intro j' w hlt hj
            cases j' with
            | zero =>
              have : w = v := by simpa using hj.symm
              rw [this]
              intro heq
              rw [← heq, V.lt_irrefl] at h3; cases h3
            | succ j' => exact h5 j' w (by omega) (by simpa using hj)
      · have hv' : V.lt v m = false := by simpa using hv
        rw [if_neg hv]
        rcases ih (idx + 1) best m with ⟨h1, h2, h3⟩ | ⟨j, h1, h2, h3, h4, h5⟩
        · left
          refine ⟨h1, h2, ?_⟩
          intro j w hj
          cases j with
          | zero =>
            have : w = v := by simpa using hj.symm
            rw [this]; exact hv'
          | succ j => exact h3 j w (by simpa using hj)
        · right
          refine ⟨j + 1, by rw [h1]; congr 1; omega, by simpa using h2, h3, ?_, ?_⟩
          · intro j' w hj
            cases j' with
            | zero =>
              have : w = v := by simpa using hj.symm
              rw [this]; exact V.not_lt_of_not_lt_of_lt hv' h3
            | succ j' => exact h4 j' w (by simpa using hj)
          · intro j' w hlt hj
            cases j' with
            | zero =>
              have : w = v := by simpa using hj.symm
              rw [this]
              intro heq
              rw [heq, h3] at hv'; cases hv'
            | succ j' => exact h5 j' w (by omega) (by simpa using hj)

/-- the mirror statement for the `argmax` loop -/
theorem argmaxGo_spec (xs : List (Option V)) (idx : Nat) (best : Option Nat) (m : V) :
    ((argmaxGo xs idx best m).2 = m ∧ (argmaxGo xs idx best m).1 = best ∧
        ∀ (j : Nat) (w : V), xs[j]? = some (some w) → V.lt m w = false)
    ∨ (∃ j, (argmaxGo xs idx best m).1 = some (idx + j) ∧ xs[j]? = some (some (argmaxGo xs idx best m).2) ∧
        V.lt m (argmaxGo xs idx best m).2 = true ∧
        (∀ (j' : Nat) (w : V), xs[j']? = some (some w) → V.lt (argmaxGo xs idx best m).2 w = false) ∧
        (∀ (j' : Nat) (w : V), j' < j → xs[j']? = some (some w) → w ≠ (argmaxGo xs idx best m).2)) := by
  induction xs generalizing idx best m with
  | nil => left; simp [argmaxGo]
  | cons x t ih =>
    cases x with
    | none =>
      simp only [argmaxGo]
      rcases ih (idx + 1) best m with ⟨h1, h2, h3⟩ | ⟨j, h1, h2, h3, h4, h5⟩
      · left
        refine ⟨h1, h2, ?_⟩
        intro j w hj
        cases j with
        | zero => simp at hj
        | succ j => exact h3 j w (by simpa using hj)
      · right
        refine ⟨j + 1, by rw [h1]; congr 1; omega, by simpa using h2, h3, ?_, ?_⟩
        · intro j' w hj
          cases j' with
          | zero => simp at hj
          | succ j' => exact h4 j' w (by simpa using hj)
        · intro j' w hlt hj
          cases j' with
          | zero => simp at hj
          | succ j' => exact h5 j' w (by omega) (by simpa using hj)
    | some v =>
      simp only [argmaxGo]
      by_cases hv : V.lt m v = true
      · rw [if_pos hv]
        rcases ih (idx + 1) (some idx) v with ⟨h1, h2, h3⟩ | ⟨j, h1, h2, h3, h4, h5⟩
        · right
          refine ⟨0, by rw [h2]; rfl, by rw [h1]; rfl, by rw [h1]; exact hv, ?_, ?_⟩
          · intro j' w hj
            rw [h1]
            cases j' with
            | zero =>
              have : w = v := by simpa using hj.symm
              rw [this]; exact V.lt_irrefl v
            | succ j' => exact h3 j' w (by simpa using hj)
          · intro j' w hlt; omega
        · right
          refine ⟨j + 1, by rw [h1]; congr 1; omega, by simpa using h2, V.lt_trans hv h3, ?_, ?_⟩
          · intro j' w hj
            cases j' with
            | zero =>
              have : w = v := by simpa using hj.symm
              rw [this]; exact V.lt_asymm h3
            | succ j' => exact h4 j' w (by simpa using hj)
          · intro j' w hlt hj
            cases j' with
            | zero =>
              have : w = v := by simpa using hj.symm
              rw [this]
              intro heq
              rw [← heq, V.lt_irrefl] at h3; cases h3
            | succ j' => exact h5 j' w (by omega) (by simpa using hj)
      · have hv' : V.lt m v = false := by simpa using hv
        rw [if_neg hv]
        rcases ih (idx + 1) best m with ⟨h1, h2, h3⟩ | ⟨j, h1, h2, h3, h4, h5⟩
        · left
          refine ⟨h1, h2, ?_⟩
          intro j w hj
          cases j with
          | zero =>
            have : w = v := by simpa using hj.symm
            rw [this]; exact hv'
          | succ j => exact h3 j w (by simpa using hj)
        · right
          refine ⟨j + 1, by rw [h1]; congr 1; omega, by simpa using h2, h3, ?_, ?_⟩
          · intro j' w hj
            cases j' with
            | zero =>
              have : w = v := by simpa using hj.symm
              rw [this]
              cases hvr : V.lt (argmaxGo t (idx + 1) best m).2 v with
              | false => rfl
              | true => rw [V.lt_trans h3 hvr] at hv'; cases hv'
            | succ j' => exact h4 j' w (by simpa using hj)
          · intro j' w hlt hj
            cases j' with
            | zero =>
              have : w = v := by simpa using hj.symm
              rw [this]
              intro heq
              rw [heq, h3] at hv'; cases hv'
            | succ j' => exact h5 j' w (by omega) (by simpa using hj)

end LanceModel.C35
