import LanceModel.C35.Model
/-
C35 helper lemmas: chunks_exact / remainder, fold sums, lane accumulators.
-/
namespace LanceModel.C35

/-! ### chunks / rem equations -/

theorem chunksAux_fuel {α : Type} (n : Nat) (f f' : Nat) (l : List α) (h : l.length ≤ f) (h' : l.length ≤ f') :
    chunksAux n f l = chunksAux n f' l := by
  induction f generalizing f' l with
  | zero =>
    cases f' with
    | zero => rfl
    | succ f' => simp only [chunksAux]; rw [if_neg (by omega)]
  | succ f ih =>
    cases f' with
    | zero => simp only [chunksAux]; rw [if_neg (by omega)]
    | succ f' =>
      simp only [chunksAux]
      by_cases hc : 0 < n ∧ n ≤ l.length
      · rw [if_pos hc, if_pos hc, ih f' (l.drop n) (by simp only [List.length_drop]; omega)
          (by simp only [List.length_drop]; omega)]
      · rw [if_neg hc, if_neg hc]

theorem chunks_step {α : Type} {n : Nat} {l : List α} (hn : 0 < n) (h : n ≤ l.length) :
    chunks n l = l.take n :: chunks n (l.drop n) := by
  unfold chunks
  obtain ⟨k, hk⟩ : ∃ k, l.length = k + 1 := ⟨l.length - 1, by omega⟩
  rw [hk]
  simp only [chunksAux]
  rw [if_pos ⟨hn, h⟩, chunksAux_fuel n k (l.drop n).length (l.drop n) (by simp only [List.length_drop]; omega)
    (Nat.le_refl _)]

theorem chunks_short {α : Type} {n : Nat} {l : List α} (h : ¬ (0 < n ∧ n ≤ l.length)) :
    chunks n l = [] := by
  unfold chunks
  cases hl : l.length with
  | zero => rfl
  | succ k => simp only [chunksAux]; rw [if_neg (by omega)]

theorem rem_step {α : Type} {n : Nat} {l : List α} (_hn : 0 < n) (h : n ≤ l.length) :
    rem n l = rem n (l.drop n) := by
  unfold rem
  rw [List.drop_drop, List.length_drop, ← Nat.mod_eq_sub_mod h]
  congr 1
  have := Nat.mod_le l.length n
  have h2 : l.length % n ≤ l.length - n := by rw [Nat.mod_eq_sub_mod h]; exact Nat.mod_le _ _
  omega

theorem rem_short {α : Type} {n : Nat} {l : List α} (h : ¬ (0 < n ∧ n ≤ l.length)) :
    rem n l = l := by
  unfold rem
  by_cases hn : n = 0
  · subst hn; simp
  · rw [Nat.mod_eq_of_lt (by omega)]; simp

/-- every chunk has exactly `n` elements -/
theorem length_of_mem_chunks {α : Type} (n : Nat) (l : List α) : ∀ c ∈ chunks n l, c.length = n := by
  induction hk : l.length using Nat.strongRecOn generalizing l with
  | _ k ih =>
    subst hk
    intro c hc
    by_cases h : 0 < n ∧ n ≤ l.length
    · rw [chunks_step h.1 h.2] at hc
      cases hc with
      | head => simp [List.length_take]; omega
      | tail _ hc =>
        exact ih (l.drop n).length (by simp [List.length_drop]; omega) (l.drop n) rfl c hc
    · rw [chunks_short h] at hc; cases hc

/-- number of full chunks -/
theorem length_chunks {α : Type} (n : Nat) (l : List α) : (chunks n l).length = l.length / n := by
  induction hk : l.length using Nat.strongRecOn generalizing l with
  | _ k ih =>
    subst hk
    by_cases h : 0 < n ∧ n ≤ l.length
    · rw [chunks_step h.1 h.2, List.length_cons,
        ih (l.drop n).length (by simp [List.length_drop]; omega) (l.drop n) rfl, List.length_drop]
      rw [Nat.div_eq l.length n]; simp [h]
    · rw [chunks_short h, Nat.div_eq l.length n]; simp [h]

/-- the chunks followed by the remainder are the whole slice -/
theorem flatten_chunks_append_rem {α : Type} (n : Nat) (l : List α) :
    (chunks n l).flatten ++ rem n l = l := by
  induction hk : l.length using Nat.strongRecOn generalizing l with
  | _ k ih =>
    subst hk
    by_cases h : 0 < n ∧ n ≤ l.length
    · rw [chunks_step h.1 h.2, rem_step h.1 h.2, List.flatten_cons, List.append_assoc,
        ih (l.drop n).length (by simp [List.length_drop]; omega) (l.drop n) rfl, List.take_append_drop]
    · rw [chunks_short h, rem_short h]; rfl

/-- the remainder is the last `len % n` elements -/
theorem rem_eq_drop {α : Type} (n : Nat) (l : List α) : rem n l = l.drop (l.length / n * n) := by
  induction hk : l.length using Nat.strongRecOn generalizing l with
  | _ k ih =>
    subst hk
    by_cases h : 0 < n ∧ n ≤ l.length
    · rw [rem_step h.1 h.2, ih (l.drop n).length (by simp [List.length_drop]; omega) (l.drop n) rfl,
        List.drop_drop, List.length_drop]
      congr 1
      have : l.length / n = (l.length - n) / n + 1 := by rw [Nat.div_eq l.length n]; simp [h]
      rw [this, Nat.add_mul]; omega
    · rw [rem_short h]
      have : l.length / n = 0 := by rw [Nat.div_eq l.length n]; simp [h]
      simp [this]

theorem length_rem {α : Type} (n : Nat) (l : List α) : (rem n l).length = l.length % n := by
  rw [rem_eq_drop, List.length_drop]
  have := Nat.div_add_mod l.length n
  rw [Nat.mul_comm] at this
  omega

/-- the `j`-th chunk is the slice `[j*n, (j+1)*n)`; there is one iff it fits -/
theorem getElem?_chunks {α : Type} (n : Nat) (hn : 0 < n) (l : List α) (j : Nat) :
    (chunks n l)[j]? = if (j + 1) * n ≤ l.length then some ((l.drop (j * n)).take n) else none := by
  induction j generalizing l with
  | zero =>
    by_cases h : n ≤ l.length
    · rw [chunks_step hn h]; simp [h]
    · rw [chunks_short (by omega)]; simp [h]
  | succ j ih =>
    by_cases h : n ≤ l.length
    · rw [chunks_step hn h, List.getElem?_cons_succ, ih (l.drop n), List.length_drop, List.drop_drop]
      have e1 : n + j * n = (j + 1) * n := by rw [Nat.add_mul]; omega
      have e2 : (j + 1 + 1) * n = (j + 1) * n + n := by rw [Nat.add_mul (j + 1) 1 n]; omega
      rw [e1, e2]
      by_cases h2 : (j + 1) * n ≤ l.length - n
      · rw [if_pos h2, if_pos (by omega)]
      · rw [if_neg h2, if_neg (by omega)]
    · rw [chunks_short (by omega)]
      have : ¬ (j + 1 + 1) * n ≤ l.length := by
        have : n ≤ (j + 1 + 1) * n := Nat.le_mul_of_pos_left n (by omega)
        omega
      simp [this]

/-! ### fold sums -/

theorem foldl_add (l : List Int) (z : Int) : l.foldl (· + ·) z = z + l.foldl (· + ·) 0 := by
  induction l generalizing z with
  | nil => simp
  | cons x t ih => simp only [List.foldl_cons]; rw [ih (z + x), ih (0 + x)]; omega

theorem isum_nil : isum [] = 0 := rfl

theorem isum_cons (x : Int) (l : List Int) : isum (x :: l) = x + isum l := by
  unfold isum; rw [List.foldl_cons, foldl_add]; omega

theorem isum_append (a b : List Int) : isum (a ++ b) = isum a + isum b := by
  induction a with
  | nil => simp [isum_nil]
  | cons x t ih => rw [List.cons_append, isum_cons, isum_cons, ih]; omega

theorem isum_replicate_zero (n : Nat) : isum (List.replicate n 0) = 0 := by
  induction n with
  | zero => rfl
  | succ n ih => rw [List.replicate_succ, isum_cons, ih]; rfl

theorem length_addLanes (s t : List Int) : (addLanes s t).length = min s.length t.length := by
  simp [addLanes]

theorem isum_addLanes (s t : List Int) (h : s.length = t.length) :
    isum (addLanes s t) = isum s + isum t := by
  induction s generalizing t with
  | nil => cases t with
    | nil => rfl
    | cons _ _ => simp at h
  | cons x s ih => cases t with
    | nil => simp at h
    | cons y t =>
      simp only [List.length_cons, Nat.add_right_cancel_iff] at h
      have := ih t h
      simp only [addLanes, List.zipWith_cons_cons] at this ⊢
      rw [isum_cons, isum_cons, isum_cons, this]; omega

/-- the lane accumulators, reduced horizontally, hold the sum of all terms seen by the main loop -/
theorem isum_foldl_lanes (f : Int → Int → Int) (L : Nat) (cs : List (List Int × List Int)) (acc : List Int)
    (hacc : acc.length = L) (hcs : ∀ p ∈ cs, p.1.length = L ∧ p.2.length = L) :
    isum (cs.foldl (fun acc p => addLanes acc (List.zipWith f p.1 p.2)) acc)
      = isum acc + isum (cs.map (fun p => isum (List.zipWith f p.1 p.2))) := by
  induction cs generalizing acc with
  | nil => simp [isum_nil]
  | cons p cs ih =>
    have hp := hcs p (List.mem_cons_self)
    have hlen : acc.length = (List.zipWith f p.1 p.2).length := by simp [List.length_zipWith, hp.1, hp.2, hacc]
    rw [List.foldl_cons, ih _ (by rw [length_addLanes, ← hlen, hacc]; simp)
      (fun q hq => hcs q (List.mem_cons_of_mem _ hq)), isum_addLanes _ _ hlen, List.map_cons, isum_cons]
    omega

theorem mem_zip_chunks {L : Nat} {a b : List Int} {p : List Int × List Int}
    (hp : p ∈ List.zip (chunks L a) (chunks L b)) : p.1.length = L ∧ p.2.length = L := by
  have := List.of_mem_zip hp
  exact ⟨length_of_mem_chunks L a _ this.1, length_of_mem_chunks L b _ this.2⟩

/-- horizontal reduction of `laneAcc` = Σ over zipped chunks of the chunk's zip-sum -/
theorem isum_laneAcc (f : Int → Int → Int) (L : Nat) (a b : List Int) :
    isum (laneAcc f L a b)
      = isum ((List.zip (chunks L a) (chunks L b)).map (fun p => isum (List.zipWith f p.1 p.2))) := by
  unfold laneAcc
  rw [isum_foldl_lanes f L _ _ (by simp) (fun p hp => mem_zip_chunks hp), isum_replicate_zero]
  omega

/-- splitting a zip-sum at `n` -/
theorem isum_zipWith_split (f : Int → Int → Int) (n : Nat) (a b : List Int) :
    isum (List.zipWith f a b)
      = isum (List.zipWith f (a.take n) (b.take n)) + isum (List.zipWith f (a.drop n) (b.drop n)) := by
  rw [← isum_append, ← List.take_zipWith, ← List.drop_zipWith, List.take_append_drop]

/-- chunk-wise decomposition of a zip-sum (equal lengths): full chunks pairwise, then the remainders -/
theorem isum_zipWith_chunks (f : Int → Int → Int) (L : Nat) (a b : List Int) (hab : a.length = b.length) :
    isum (List.zipWith f a b)
      = isum ((List.zip (chunks L a) (chunks L b)).map (fun p => isum (List.zipWith f p.1 p.2)))
        + isum (List.zipWith f (rem L a) (rem L b)) := by
  induction hk : a.length using Nat.strongRecOn generalizing a b with
  | _ k ih =>
    subst hk
    by_cases h : 0 < L ∧ L ≤ a.length
    · have hb : L ≤ b.length := by omega
      rw [chunks_step h.1 h.2, chunks_step h.1 hb, rem_step h.1 h.2, rem_step h.1 hb,
        List.zip_cons_cons, List.map_cons, isum_cons, isum_zipWith_split f L a b,
        ih (a.drop L).length (by simp [List.length_drop]; omega) (a.drop L) (b.drop L)
          (by simp [List.length_drop]; omega) rfl]
      dsimp only
      omega
    · have hb : ¬ (0 < L ∧ L ≤ b.length) := by omega
      rw [chunks_short h, chunks_short hb, rem_short h, rem_short hb]
      simp [isum_nil]

/-- same decomposition when only the NUMBER of full chunks agrees (`a.len / L = b.len / L`) -/
theorem isum_zipWith_chunks_of_div (f : Int → Int → Int) (L : Nat) (a b : List Int)
    (hab : a.length / L = b.length / L) :
    isum (List.zipWith f a b)
      = isum ((List.zip (chunks L a) (chunks L b)).map (fun p => isum (List.zipWith f p.1 p.2)))
        + isum (List.zipWith f (rem L a) (rem L b)) := by
  induction hk : a.length using Nat.strongRecOn generalizing a b with
  | _ k ih =>
    subst hk
    by_cases h : 0 < L ∧ L ≤ a.length
    · have ha1 : a.length / L = (a.length - L) / L + 1 := by rw [Nat.div_eq a.length L]; simp [h]
      have hb : L ≤ b.length := by
        by_cases hb : L ≤ b.length
        · exact hb
        · have : b.length / L = 0 := by rw [Nat.div_eq b.length L]; simp [hb]
          rw [ha1, this] at hab
          exact absurd hab (Nat.succ_ne_zero _)
      have hb1 : b.length / L = (b.length - L) / L + 1 := by rw [Nat.div_eq b.length L]; simp [h.1, hb]
      rw [chunks_step h.1 h.2, chunks_step h.1 hb, rem_step h.1 h.2, rem_step h.1 hb,
        List.zip_cons_cons, List.map_cons, isum_cons, isum_zipWith_split f L a b,
        ih (a.drop L).length (by simp [List.length_drop]; omega) (a.drop L) (b.drop L)
          (by simp only [List.length_drop]; rw [ha1, hb1] at hab; omega) rfl]
      dsimp only
      omega
    · have ha0 : a.length / L = 0 := by rw [Nat.div_eq a.length L]; simp [h]
      have hb : ¬ (0 < L ∧ L ≤ b.length) := by
        intro hb
        have : b.length / L = (b.length - L) / L + 1 := by rw [Nat.div_eq b.length L]; simp [hb]
        rw [ha0, this] at hab
        exact absurd hab.symm (Nat.succ_ne_zero _)
      rw [chunks_short h, chunks_short hb, rem_short h, rem_short hb]
      simp [isum_nil]

end LanceModel.C35
