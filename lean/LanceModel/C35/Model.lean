/-
C35 — distance kernels: the ALGORITHMS of rust/lance-linalg/src/distance/{l2,dot,cosine,hamming,norm_l2}.rs,
rust/lance-linalg/src/kernels.rs (argmin / argmax family) and the nearest-centroid assignment of
rust/lance-index/src/vector/kmeans.rs, over an exact ring (`Int`).

No floating-point number exists in this file.  A vector is a `List Int`; the model reproduces the *shape* of each
kernel (which elements are combined, in how many accumulators, what is done with the remainder, what is dropped by
`chunks_exact`, which slice a batch helper hands to the single-vector kernel, which index `argmin` returns and when it
returns `None`).  Rounding is outside the model: the correspondence run uses inputs on which every partial sum of the
real code is exactly representable, so the real result, converted to an integer, must equal the model's `Int`.

Import-free (core only) so that the driver links natively.
-/
namespace LanceModel.C35

/-! ## `slice::chunks_exact` -/

/-- loop of `ChunksExact::next` with explicit fuel (structural recursion, so that closed terms evaluate by `decide`). -/
def chunksAux {α : Type} (n : Nat) : Nat → List α → List (List α)
  | 0, _ => []
  | fuel + 1, l => if 0 < n ∧ n ≤ l.length then l.take n :: chunksAux n fuel (l.drop n) else []

/-- `slice.chunks_exact(n)` — the full chunks, in order; fuel `len` always suffices (`ChunkLemmas.chunks_step`).
    (`n = 0` panics in Rust; every caller below passes a positive constant `LANES`, and the batch helpers check
    `dimension` first — see `batchMap`.) -/
def chunks {α : Type} (n : Nat) (l : List α) : List (List α) := chunksAux n l.length l

/-- `slice.chunks_exact(n).remainder()` — core::slice `ChunksExact::new`: `rem = len % n; split_at(len - rem).1`. -/
def rem {α : Type} (n : Nat) (l : List α) : List α := l.drop (l.length - l.length % n)

/-! ## sums -/

/-- `iter.sum()` / the `+=` loop: a plain left fold starting from zero. -/
def isum (l : List Int) : Int := l.foldl (· + ·) 0

/-- `for i in 0..LANES { sums[i] += terms[i] }` — lane-wise accumulation. -/
def addLanes (sums terms : List Int) : List Int := List.zipWith (· + ·) sums terms

/-- The straightforward scalar definition `Σ f a_i b_i` over the common prefix (`iter().zip()`), e.g.
    l2.rs test `l2_distance_reference`, hamming.rs `hamming_scalar`, dot.rs `impl Dot for u8`,
    l2.rs `l2_distance_uint_scalar`. -/
def scalarDef (f : Int → Int → Int) (a b : List Int) : Int := isum (List.zipWith f a b)

/-- The `LANES` accumulators after the main loop
    `for (x, y) in x_chunks.zip(y_chunks) { for i in 0..LANES { sums[i] += f(x[i], y[i]) } }`
    of l2.rs `l2_scalar`, dot.rs `dot_scalar`, norm_l2.rs `norm_l2_impl`. -/
def laneAcc (f : Int → Int → Int) (L : Nat) (a b : List Int) : List Int :=
  (List.zip (chunks L a) (chunks L b)).foldl
    (fun acc p => addLanes acc (List.zipWith f p.1 p.2)) (List.replicate L 0)

/-- The scalar tail: `x_chunks.remainder().iter().zip(y_chunks.remainder()).map(f).sum()`
    (zero when the remainder is empty — the same value). -/
def tailSum (f : Int → Int → Int) (L : Nat) (a b : List Int) : Int :=
  isum (List.zipWith f (rem L a) (rem L b))

/-- l2.rs `l2_scalar::<T, Output, LANES>` / dot.rs `dot_scalar::<T, Output, LANES>`:
    `tail + sums.iter().copied().sum()` (horizontal reduction of the lane accumulators). -/
def laneKernel (f : Int → Int → Int) (L : Nat) (a b : List Int) : Int :=
  tailSum f L a b + isum (laneAcc f L a b)

def sqDiff (x y : Int) : Int := (x - y) * (x - y)
def mul (x y : Int) : Int := x * y
/-- `v.as_().powi(2)` of `norm_l2_impl`, written as a binary term over `(v, v)` so that the unary loop is the binary one. -/
def sqFst (x _y : Int) : Int := x * x

/-! ## element types and their kernels -/

inductive Ty | f32 | f64 | f16 | bf16 | u8
  deriving DecidableEq, Repr

/-- l2.rs `impl L2 for {bf16: l2_scalar<_,f32,16>, f16: fallback l2_scalar<_,f32,16>, f32: l2_scalar<_,_,16>,
    f64: l2_scalar<_,_,8>, u8: l2_distance_uint_scalar}` (the `fp16kernels` C kernels are a cargo feature that is off). -/
def l2 : Ty → List Int → List Int → Int
  | .f32, a, b => laneKernel sqDiff 16 a b
  | .f64, a, b => laneKernel sqDiff 8 a b
  | .f16, a, b => laneKernel sqDiff 16 a b
  | .bf16, a, b => laneKernel sqDiff 16 a b
  | .u8, a, b => scalarDef sqDiff a b

/-- dot.rs `impl Dot for …`: `dot_scalar(from, to)` chunks `to` as `x` and `from` as `y`; bf16/f16: 32 lanes, f32: 16,
    f64: 8, u8: plain zip-sum. -/
def dot : Ty → List Int → List Int → Int
  | .f32, a, b => laneKernel mul 16 b a
  | .f64, a, b => laneKernel mul 8 b a
  | .f16, a, b => laneKernel mul 32 b a
  | .bf16, a, b => laneKernel mul 32 b a
  | .u8, a, b => scalarDef mul a b

/-- dot.rs `dot_distance`: `1.0 - dot`. -/
def dotDistance (t : Ty) (a b : List Int) : Int := 1 - dot t a b

/-- norm_l2.rs `norm_l2_impl::<T, Output, LANES>` *before* the final `sqrt`: u8 16 lanes, f16/bf16 32, f32 16, f64 8. -/
def normSq : Ty → List Int → Int
  | .f32, v => laneKernel sqFst 16 v v
  | .f64, v => laneKernel sqFst 8 v v
  | .f16, v => laneKernel sqFst 32 v v
  | .bf16, v => laneKernel sqFst 32 v v
  | .u8, v => laneKernel sqFst 16 v v

/-! ## hamming -/

/-- `u8::count_ones` -/
def popcount8 (n : Nat) : Nat :=
  (List.range 8).foldl (fun acc i => acc + (if n.testBit i then 1 else 0)) 0

/-- `(a ^ b).count_ones()` as a term function over `Int`-coded bytes -/
def xorPop (x y : Int) : Int := (popcount8 (x.toNat ^^^ y.toNat) : Nat)

/-- hamming.rs `hamming_autovec::<L>`: remainder zip-sum + Σ over zipped `L`-byte chunks of the chunk's zip-sum
    (no lane accumulators here; `hamming` = `hamming_autovec::<64>`). -/
def hammingAutovec (L : Nat) (a b : List Int) : Int :=
  tailSum xorPop L a b +
    isum ((List.zip (chunks L a) (chunks L b)).map (fun p => isum (List.zipWith xorPop p.1 p.2)))

def hamming (a b : List Int) : Int := hammingAutovec 64 a b

/-- hamming.rs `hamming_scalar` -/
def hammingScalar (a b : List Int) : Int := scalarDef xorPop a b

/-! ## cosine: the exact ingredients (dot, norm² of x, norm² of y); the final `1 - xy / (|x| |y|)` is float-only -/

structure CosParts where
  xy : Int
  xx : Int
  yy : Int
  deriving DecidableEq, Repr

/-- The value is NaN exactly when a norm is zero: then `xy = 0` too (see `Props.cosine_zero_norm`) and the code computes
    `1.0 - 0.0 / 0.0`.  There is no special case in cosine.rs. -/
def CosParts.isNaN (p : CosParts) : Bool := p.xx == 0 || p.yy == 0

/-- cosine.rs `impl Cosine for f32 :: cosine_fast` / `cosine_with_norms`, one accumulated quantity:
    16-lane loop over `0..dim/16*16`, 8-lane loop over `dim/16*16..dim/8*8`, then the tail through `dot` / `norm_l2`.
    The real code reads `other` through raw pointers for `x.len()` elements, so `x.len() = other.len()` is its
    precondition; the model is only used under it (`cosineFast` returns `none` otherwise). -/
def simdF32 (f : Int → Int → Int) (tailK : List Int → List Int → Int) (x y : List Int) : Int :=
  let dim := x.length
  let u := dim / 16 * 16
  let al := dim / 8 * 8
  isum (laneAcc f 16 (x.take u) (y.take u))
    + isum (laneAcc f 8 ((x.drop u).take (al - u)) ((y.drop u).take (al - u)))
    + tailK (x.drop al) (y.drop al)

/-- `xy` of the f32 cosine kernels: tail = `dot(&x[aligned_len..], &other[aligned_len..])` -/
def cosDotF32 (x y : List Int) : Int := simdF32 mul (fun a b => dot .f32 a b) x y

/-- `y_norm` of f32 `cosine_fast`: lanes over `y*y`, tail = `norm_l2(&other[aligned_len..]).powi(2)` -/
def cosNormF32 (x y : List Int) : Int := simdF32 (fun _ b => b * b) (fun _ b => normSq .f32 b) x y

/-- cosine.rs `Cosine::cosine_fast(x, x_norm, y)` where `xx` stands for `x_norm²`:
    f32 → SIMD kernel above; every other type → `cosine_scalar`: `y_sq = dot(y, y); xy = dot(x, y)`. -/
def cosineFast (t : Ty) (x : List Int) (xx : Int) (y : List Int) : Option CosParts :=
  if x.length ≠ y.length then none else
  match t with
  | .f32 => some ⟨cosDotF32 x y, xx, cosNormF32 x y⟩
  | t => some ⟨dot t x y, xx, dot t y y⟩

/-- cosine.rs `Cosine::cosine(x, other)`: `x_norm = norm_l2(x)` then `cosine_fast`. -/
def cosine (t : Ty) (x y : List Int) : Option CosParts := cosineFast t x (normSq t x) y

/-- cosine.rs `Cosine::cosine_with_norms(x, x_norm, y_norm, y)`: only `xy` is computed (f32: SIMD kernel; others:
    `cosine_scalar_fast` → `dot(x, y)`). -/
def cosineWithNormsDot (t : Ty) (x y : List Int) : Option Int :=
  if x.length ≠ y.length then none else
  match t with
  | .f32 => some (cosDotF32 x y)
  | t => some (dot t x y)

/-- cosine.rs `f32::cosine_once::<S, N>`: one SIMD register of `N` elements of each side. -/
def cosineOnce (N : Nat) (x : List Int) (xx : Int) (y : List Int) : CosParts :=
  ⟨scalarDef mul (x.take N) (y.take N), xx, scalarDef mul (y.take N) (y.take N)⟩

/-! ## batch helpers -/

/-- `to.chunks_exact(dimension).map(|v| k(v))` — l2.rs `L2::l2_batch`, dot.rs `dot_distance_batch`,
    cosine.rs `Cosine::cosine_batch`, hamming.rs `hamming_distance_batch`, norm_l2.rs `norm_squared_fsl`.
    `chunks_exact(0)` panics: `none`. A trailing partial chunk is dropped. -/
def batchMap {β : Type} (dim : Nat) (k : List Int → β) (to : List Int) : Option (List β) :=
  if dim = 0 then none else some ((chunks dim to).map k)

def l2Batch (t : Ty) (dim : Nat) (frm to : List Int) : Option (List Int) := batchMap dim (l2 t frm) to
def dotDistanceBatch (t : Ty) (dim : Nat) (frm to : List Int) : Option (List Int) := batchMap dim (dotDistance t frm) to
def hammingBatch (dim : Nat) (frm to : List Int) : Option (List Int) := batchMap dim (hamming frm) to

/-- norm_l2.rs `norm_squared_fsl`: per row `v.iter().map(|v| v * v).sum()` — a plain fold, no lanes. -/
def normSquaredFsl (dim : Nat) (values : List Int) : Option (List Int) :=
  batchMap dim (fun v => scalarDef sqFst v v) values

/-- cosine.rs `cosine_batch`: `x_norm = norm_l2(x)` once; f32 with `dimension` 8 / 16 uses `cosine_once`, every other
    case `cosine_fast` per chunk.  Precondition `x.len() = dimension` (raw loads): `none` otherwise. -/
def cosineBatch (t : Ty) (dim : Nat) (x to : List Int) : Option (List CosParts) :=
  if dim = 0 ∨ x.length ≠ dim then none else
  let xx := normSq t x
  if t = .f32 ∧ (dim = 8 ∨ dim = 16) then some ((chunks dim to).map (cosineOnce dim x xx))
  else (chunks dim to).mapM (cosineFast t x xx)

/-- the `*_arrow_batch` helpers: the value buffer goes through the batch kernel, `to.nulls().cloned()` is attached:
    a null row shows `none` whatever was computed for it.  `valid = []` stands for "no null buffer". -/
def withNulls {β : Type} (valid : List Bool) (vals : List β) : List (Option β) :=
  if valid.isEmpty then vals.map some
  else List.zipWith (fun b v => if b then some v else none) valid vals

/-! ## argmin / argmax (kernels.rs) -/

/-- a float or integer value as seen by `PartialOrd`: NaN is incomparable -/
inductive V | nan | ninf | fin (z : Int) | pinf
  deriving DecidableEq, Repr

/-- `a.partial_cmp(b) == Some(Less)` / `a < b` -/
def V.lt : V → V → Bool
  | .ninf, .fin _ => true
  | .ninf, .pinf => true
  | .fin a, .fin b => decide (a < b)
  | .fin _, .pinf => true
  | _, _ => false

/-- loop of kernels.rs `argmin_value_opt` (`top = T::max_value()`) and of `argmin_value_float` (`top = +∞`):
    `if value < min_value { min_value = value; min_idx = Some(idx) }`; `None` items and NaN are skipped. -/
def argminGo : List (Option V) → Nat → Option Nat → V → Option Nat × V
  | [], _, best, m => (best, m)
  | none :: t, idx, best, m => argminGo t (idx + 1) best m
  | some v :: t, idx, best, m =>
    if V.lt v m then argminGo t (idx + 1) (some idx) v else argminGo t (idx + 1) best m

/-- kernels.rs `argmin_value_opt`: `min_idx.map(|idx| (idx, min_value))` -/
def argminValueOpt (top : V) (xs : List (Option V)) : Option (Nat × V) :=
  let r := argminGo xs 0 none top
  r.1.map (fun i => (i, r.2))

/-- kernels.rs `argmin_value` = `argmin_value_opt(iter.map(Some))`; `argmin` drops the value -/
def argminValue (top : V) (xs : List V) : Option (Nat × V) := argminValueOpt top (xs.map some)
def argmin (top : V) (xs : List V) : Option Nat := (argminValue top xs).map (·.1)

/-- kernels.rs `argmin_value_float`: the same loop started at `T::infinity()` -/
def argminValueFloat (xs : List V) : Option (Nat × V) := argminValue .pinf xs

/-- loop of kernels.rs `argmax` / `argmax_opt` (`bot = T::min_value()`), `Some(Greater)` -/
def argmaxGo : List (Option V) → Nat → Option Nat → V → Option Nat × V
  | [], _, best, m => (best, m)
  | none :: t, idx, best, m => argmaxGo t (idx + 1) best m
  | some v :: t, idx, best, m =>
    if V.lt m v then argmaxGo t (idx + 1) (some idx) v else argmaxGo t (idx + 1) best m

def argmaxOpt (bot : V) (xs : List (Option V)) : Option Nat := (argmaxGo xs 0 none bot).1

/-- `f32::MAX` = (2²⁴ − 1)·2¹⁰⁴ -/
def f32Max : Int := 340282346638528859811704183484516925440

/-- `T::max_value()` / `T::min_value()` for the element types the harness instantiates -/
inductive NumTy | f32 | i32 | u8
  deriving DecidableEq, Repr
def NumTy.top : NumTy → V
  | .f32 => .fin f32Max
  | .i32 => .fin 2147483647
  | .u8 => .fin 255
def NumTy.bot : NumTy → V
  | .f32 => .fin (-f32Max)
  | .i32 => .fin (-2147483648)
  | .u8 => .fin 0

/-! ## nearest-centroid assignment (kmeans.rs) -/

inductive Metric | l2 | dot
  deriving DecidableEq, Repr

def metricDist (t : Ty) : Metric → List Int → List Int → Int
  | .l2 => l2 t
  | .dot => dotDistance t

/-- kmeans.rs `compute_partition` and the per-vector closure of `KMeansAlgoFloat::compute_membership_and_dist` with
    `cluster_sizes = None`: `argmin_value_float(l2_distance_batch(vec, centroids, dimension))` (resp. `dot_distance_batch`). -/
def nearest (t : Ty) (m : Metric) (dim : Nat) (centroids v : List Int) : Option (Nat × V) :=
  argminValueFloat (((chunks dim centroids).map (metricDist t m v)).map V.fin)

/-- kmeans.rs `KModeAlgo::compute_membership_and_dist` per vector: `argmin_value(hamming(vec, c) + 0.0)` (f32, so
    `top = f32::MAX`). -/
def nearestHamming (dim : Nat) (centroids v : List Int) : Option (Nat × V) :=
  argminValue (NumTy.top .f32) (((chunks dim centroids).map (hamming v)).map V.fin)

/-- kmeans.rs `compute_partitions_with_dists`: `data.par_chunks(dimension)` over the vectors (their length is a multiple
    of `dimension` — they come from a FixedSizeList; `l2_distance_batch` `assume_eq!`s it). -/
def computePartitions (t : Ty) (m : Metric) (dim : Nat) (centroids vectors : List Int) : Option (List (Option (Nat × V))) :=
  if dim = 0 ∨ vectors.length % dim ≠ 0 ∨ centroids.length % dim ≠ 0 then none
  else some ((chunks dim vectors).map (nearest t m dim centroids))

def computePartitionsHamming (dim : Nat) (centroids vectors : List Int) : Option (List (Option (Nat × V))) :=
  if dim = 0 ∨ vectors.length % dim ≠ 0 ∨ centroids.length % dim ≠ 0 then none
  else some ((chunks dim vectors).map (nearestHamming dim centroids))

end LanceModel.C35
