import LanceModel.Util
import LanceModel.C35.Model
/-
C35 driver: every op line is self-contained (no state).  One output line per input line.

Vectors are comma separated signed integers (`-` = empty).  Types: f32 f64 f16 bf16 u8 (and i8 for the Arrow helpers, which
convert to f32 first).  Values outside the exactly-representable range of the type make the line `bad-op` on both sides.
-/
namespace LanceModel.C35.Driver
open LanceModel.Util LanceModel.C35

abbrev St := Unit

def bad : String := "bad-op"
def pre : String := "precondition"

def parseIntList (s : String) : Option (List Int) :=
  if s = "-" then some [] else (s.splitOn ",").mapM (·.toInt?)

/-- (kernel type, is-arrow-only) -/
def parseTy : String → Option (Ty × Bool)
  | "f32" => some (.f32, false)
  | "f64" => some (.f64, false)
  | "f16" => some (.f16, false)
  | "bf16" => some (.bf16, false)
  | "u8" => some (.u8, false)
  | "i8" => some (.f32, true)
  | _ => none

/-- values every float type (bf16 included) holds exactly; bytes for u8; i8 range for the i8 → f32 conversion -/
def inRange (ty : String) (x : Int) : Bool :=
  match ty with
  | "u8" => 0 ≤ x && x ≤ 255
  | "i8" => -128 ≤ x && x ≤ 127
  | _ => -256 ≤ x && x ≤ 256

def parseVec (ty : String) (s : String) : Option (List Int) :=
  match parseIntList s with
  | some l => if l.all (inRange ty) then some l else none
  | none => none

/-- exactness guard shared with the harness: every partial sum of the real kernels stays an exactly representable integer
    (f32 / `as f32`: below 2²⁴) when `n · (2M)² ≤ 2²⁴` for the float types (differences reach `2M`) and `n · M² ≤ 2²⁴` for
    bytes, `n` the longest vector on the line and `M` the largest magnitude. Otherwise the line answers `range`. -/
def rangeOk (op ty : String) (vs : List (List Int)) : Bool :=
  let n := vs.foldl (fun acc v => max acc v.length) 0
  let m := vs.foldl (fun acc v => v.foldl (fun a x => max a x.natAbs) acc) 0
  -- `norm` prints N recovered from fl(sqrt N): the correctly rounded f32 square root is injective on integers only up to 2²²
  if ty = "u8" then n * m * m ≤ (if op = "norm" then 4194304 else 16777216) else n * 4 * m * m ≤ 16777216

def showIntList (l : List Int) : String := "[" ++ ",".intercalate (l.map toString) ++ "]"

def showOptIntList (l : List (Option Int)) : String :=
  "[" ++ ",".intercalate (l.map (fun o => match o with | some v => toString v | none => "null")) ++ "]"

def showCos (p : CosParts) : String :=
  if p.isNaN then "nan" else s!"{p.xy}:{p.xx}:{p.yy}"

def showV : V → String
  | .nan => "nan"
  | .ninf => "-inf"
  | .pinf => "inf"
  | .fin z => if z = f32Max then "max" else if z = -f32Max then "-max" else toString z

def parseV (s : String) : Option V :=
  match s with
  | "nan" => some .nan
  | "inf" => some .pinf
  | "-inf" => some .ninf
  | "max" => some (.fin f32Max)
  | "-max" => some (.fin (-f32Max))
  | s => s.toInt?.map .fin

def parseNumTy : String → Option NumTy
  | "f32" => some .f32
  | "i32" => some .i32
  | "u8" => some .u8
  | _ => none

/-- values of the numeric type: floats take the special tokens and integers of magnitude ≤ 2²⁴; integer types their range -/
def vInRange (nt : NumTy) (v : V) : Bool :=
  match nt, v with
  | .f32, .fin z => (-16777216 ≤ z && z ≤ 16777216) || z = f32Max || z = -f32Max
  | .f32, _ => true
  | .i32, .fin z => -2147483648 ≤ z && z ≤ 2147483647
  | .u8, .fin z => 0 ≤ z && z ≤ 255
  | _, _ => false

def parseOptV (s : String) : Option (Option V) :=
  if s = "none" then some none else (parseV s).map some

def parseOptVList (nt : NumTy) (s : String) : Option (List (Option V)) :=
  if s = "-" then some [] else
  match (s.splitOn ",").mapM parseOptV with
  | some l => if l.all (fun o => match o with | some v => vInRange nt v | none => true) then some l else none
  | none => none

def allSome {α : Type} (l : List (Option α)) : Option (List α) := l.mapM id

def showIdxVal : Option (Nat × V) → String
  | none => "none"
  | some (i, v) => s!"{i} {showV v}"

def showOptNatS : Option Nat → String
  | none => "none"
  | some i => toString i

def parseValid (s : String) (n : Nat) : Option (List Bool) :=
  if s = "-" then some [] else
  let cs := s.toList
  if cs.length = n ∧ cs.all (fun c => c = '0' ∨ c = '1') then some (cs.map (· = '1')) else none

def parseMetric : String → Option Metric
  | "l2" => some .l2
  | "dot" => some .dot
  | _ => none

def showPart (l : List (Option (Nat × V))) : String :=
  "[" ++ ",".intercalate (l.map (fun o => match o with
    | some (i, v) => s!"{i}:{showV v}"
    | none => "none")) ++ "]"

/-- where the element type and the vectors sit on a line of each guarded op (hamming and argmin lines are not guarded) -/
def vecSlots (toks : List String) : Option (Nat × List Nat) :=
  match toks with
  | op :: rest =>
    match op with
    | "l2" | "dot" | "dotd" | "cos" | "cosf" | "cosn" => some (1, [2, 3])
    | "norm" => some (1, [2])
    | "l2b" | "l2db" | "dotb" | "cosb" => some (1, [3, 4])
    | "nsq" => some (1, [3])
    | "arrow" => if rest.head? = some "ham" then none else some (2, [4, 5])
    | "part" => some (1, [4, 5])
    | "part1" => some (1, [3, 4])
    | _ => none
  | [] => none

def outOfRange (toks : List String) : Bool :=
  match vecSlots toks with
  | some (tpos, vpos) =>
    match toks[tpos]? with
    | some ty => !rangeOk (toks.headD "") ty (vpos.filterMap (fun i => (toks[i]?).bind parseIntList))
    | none => false
  | none => false

def step (s : St) (line : String) : St × String :=
  (s, if outOfRange (splitTokens line) then "range" else
  match splitTokens line with
  | ["l2", ty, a, b] =>
    match parseTy ty, parseVec ty a, parseVec ty b with
    | some (t, false), some a, some b => toString (l2 t a b)
    | _, _, _ => bad
  | ["dot", ty, a, b] =>
    match parseTy ty, parseVec ty a, parseVec ty b with
    | some (t, false), some a, some b => toString (dot t a b)
    | _, _, _ => bad
  | ["dotd", ty, a, b] =>
    match parseTy ty, parseVec ty a, parseVec ty b with
    | some (t, false), some a, some b => toString (dotDistance t a b)
    | _, _, _ => bad
  | ["norm", ty, a] =>
    match parseTy ty, parseVec ty a with
    | some (t, false), some a => toString (normSq t a)
    | _, _ => bad
  | ["cos", ty, a, b] =>
    match parseTy ty, parseVec ty a, parseVec ty b with
    | some (t, false), some a, some b =>
      match cosine t a b with
      | some p => showCos p
      | none => pre
    | _, _, _ => bad
  | ["cosf", ty, a, b] =>
    -- cosine_fast(a, 1.0, b)
    match parseTy ty, parseVec ty a, parseVec ty b with
    | some (t, false), some a, some b =>
      match cosineFast t a 1 b with
      | some p => showCos p
      | none => pre
    | _, _, _ => bad
  | ["cosn", ty, a, b] =>
    -- cosine_with_norms(a, 1.0, 1.0, b) = 1 - xy
    match parseTy ty, parseVec ty a, parseVec ty b with
    | some (t, false), some a, some b =>
      match cosineWithNormsDot t a b with
      | some xy => toString (1 - xy)
      | none => pre
    | _, _, _ => bad
  | ["ham", a, b] =>
    match parseVec "u8" a, parseVec "u8" b with
    | some a, some b => toString (hamming a b)
    | _, _ => bad
  | ["hams", a, b] =>
    match parseVec "u8" a, parseVec "u8" b with
    | some a, some b => toString (hammingScalar a b)
    | _, _ => bad
  | ["l2b", ty, dim, frm, to] =>
    -- trait method L2::l2_batch: no precondition besides dim > 0
    match parseTy ty, dim.toNat?, parseVec ty frm, parseVec ty to with
    | some (t, false), some dim, some frm, some to =>
      match l2Batch t dim frm to with
      | some r => showIntList r
      | none => "panic"
    | _, _, _, _ => bad
  | ["l2db", ty, dim, frm, to] =>
    -- l2_distance_batch: assume_eq!(from.len(), dimension); assume_eq!(to.len() % dimension, 0)
    match parseTy ty, dim.toNat?, parseVec ty frm, parseVec ty to with
    | some (t, false), some dim, some frm, some to =>
      if dim = 0 ∨ frm.length ≠ dim ∨ to.length % dim ≠ 0 then pre else
      match l2Batch t dim frm to with
      | some r => showIntList r
      | none => pre
    | _, _, _, _ => bad
  | ["dotb", ty, dim, frm, to] =>
    match parseTy ty, dim.toNat?, parseVec ty frm, parseVec ty to with
    | some (t, false), some dim, some frm, some to =>
      if dim = 0 ∨ frm.length ≠ dim ∨ to.length % dim ≠ 0 then pre else
      match dotDistanceBatch t dim frm to with
      | some r => showIntList r
      | none => pre
    | _, _, _, _ => bad
  | ["hamb", dim, frm, to] =>
    match dim.toNat?, parseVec "u8" frm, parseVec "u8" to with
    | some dim, some frm, some to =>
      if dim = 0 ∨ frm.length ≠ dim ∨ to.length % dim ≠ 0 then pre else
      match hammingBatch dim frm to with
      | some r => showIntList r
      | none => pre
    | _, _, _ => bad
  | ["cosb", ty, dim, frm, to] =>
    match parseTy ty, dim.toNat?, parseVec ty frm, parseVec ty to with
    | some (t, false), some dim, some frm, some to =>
      if dim = 0 ∨ frm.length ≠ dim ∨ to.length % dim ≠ 0 then pre else
      match cosineBatch t dim frm to with
      | some r => "[" ++ ",".intercalate (r.map showCos) ++ "]"
      | none => pre
    | _, _, _, _ => bad
  | ["nsq", ty, dim, vals] =>
    match parseTy ty, dim.toNat?, parseVec ty vals with
    | some (_, false), some dim, some vals =>
      if ty = "bf16" ∨ ty = "u8" then bad else
      if dim = 0 ∨ vals.length % dim ≠ 0 then pre else
      match normSquaredFsl dim vals with
      | some r =>
        -- the Float16 arm sums in f16: integers are exact only up to 2048
        if ty = "f16" ∧ r.any (fun v => v > 2048) then "f16-range" else showIntList r
      | none => pre
    | _, _, _ => bad
  | ["arrow", kind, ty, dim, frm, to, valid] =>
    -- {l2,dot,cos,ham}_distance_arrow_batch(from, FixedSizeList(to, dim) with validity bits)
    match parseTy ty, dim.toNat?, parseVec ty frm, parseVec ty to with
    | some (t, _), some dim, some frm, some to =>
      if ty = "bf16" ∨ (kind = "ham") ≠ (ty = "u8") then bad else
      if dim = 0 ∨ frm.length ≠ dim ∨ to.length % dim ≠ 0 then pre else
      match parseValid valid (to.length / dim) with
      | none => bad
      | some vb =>
        match kind with
        | "l2" => match l2Batch t dim frm to with
          | some r => showOptIntList (withNulls vb r)
          | none => pre
        | "dot" => match dotDistanceBatch t dim frm to with
          | some r => showOptIntList (withNulls vb r)
          | none => pre
        | "ham" => match hammingBatch dim frm to with
          | some r => showOptIntList (withNulls vb r)
          | none => pre
        | "cos" => match cosineBatch t dim frm to with
          | some r => "[" ++ ",".intercalate ((withNulls vb r).map (fun o => match o with
              | some p => showCos p
              | none => "null")) ++ "]"
          | none => pre
        | _ => bad
    | _, _, _, _ => bad
  | ["argminopt", nt, vals] =>
    match parseNumTy nt with
    | some nt => match parseOptVList nt vals with
      | some xs => showIdxVal (argminValueOpt nt.top xs)
      | none => bad
    | none => bad
  | ["argmin", nt, vals] =>
    match parseNumTy nt with
    | some nt => match (parseOptVList nt vals).bind allSome with
      | some xs => showIdxVal (argminValue nt.top xs) ++ " / " ++ showOptNatS (argmin nt.top xs)
      | none => bad
    | none => bad
  | ["argminf", vals] =>
    match (parseOptVList .f32 vals).bind allSome with
    | some xs => showIdxVal (argminValueFloat xs)
    | none => bad
  | ["argmaxopt", nt, vals] =>
    match parseNumTy nt with
    | some nt => match parseOptVList nt vals with
      | some xs => showOptNatS (argmaxOpt nt.bot xs)
      | none => bad
    | none => bad
  | ["part", ty, metric, dim, cents, vecs] =>
    match parseTy ty, parseMetric metric, dim.toNat?, parseVec ty cents, parseVec ty vecs with
    | some (t, false), some m, some dim, some cents, some vecs =>
      if ty = "bf16" ∨ ty = "u8" then bad else
      match computePartitions t m dim cents vecs with
      | some r => showPart r
      | none => pre
    | _, _, _, _, _ => bad
  | ["part1", ty, metric, cents, v] =>
    -- compute_partition(centroids, vector, metric): dimension = vector.len()
    match parseTy ty, parseMetric metric, parseVec ty cents, parseVec ty v with
    | some (t, false), some m, some cents, some v =>
      if ty = "bf16" ∨ ty = "u8" then bad else
      if v.length = 0 ∨ cents.length % v.length ≠ 0 then pre else
      showOptNatS ((nearest t m v.length cents v).map (·.1))
    | _, _, _, _ => bad
  | ["parth", dim, cents, vecs] =>
    match dim.toNat?, parseVec "u8" cents, parseVec "u8" vecs with
    | some dim, some cents, some vecs =>
      match computePartitionsHamming dim cents vecs with
      | some r => showPart r
      | none => pre
    | _, _, _ => bad
  | "tol" :: _ => "tested"
  | _ => bad)

end LanceModel.C35.Driver
