import LanceModel.C35.Driver
def main : IO Unit := LanceModel.Util.runDriver LanceModel.C35.Driver.step ()
