import LanceModel.C22.Model
import LanceModel.C22.SortLemmas
/-
The search orders are total preorders; with unique row ids the (distance, id) order is antisymmetric on a result list.
-/
namespace LanceModel.C22

theorem Key.den_pos (k : Key) : 0 < k.den := by unfold Key.den; omega

theorem cross_trans {a b c da db dc : Int} (hda : 0 < da) (hdb : 0 < db) (hdc : 0 < dc)
    (h1 : a * db ≤ b * da) (h2 : b * dc ≤ c * db) : a * dc ≤ c * da := by
  have e1 : a * db * dc ≤ b * da * dc := Int.mul_le_mul_of_nonneg_right h1 (Int.le_of_lt hdc)
  have e2 : b * dc * da ≤ c * db * da := Int.mul_le_mul_of_nonneg_right h2 (Int.le_of_lt hda)
  have e3 : a * dc * db ≤ c * da * db := by
    rw [Int.mul_right_comm a dc db, Int.mul_right_comm c da db]
    rw [Int.mul_right_comm b da dc] at e1
    exact Int.le_trans e1 e2
  exact Int.le_of_mul_le_mul_right e3 hdb

theorem keyLe_totalPre : TotalPre Key.le where
  total a b := by
    unfold Key.le
    cases ha : a.nan <;> cases hb : b.nan <;> simp
    exact Int.le_total _ _
  trans a b c := by
    unfold Key.le
    cases ha : a.nan <;> cases hb : b.nan <;> cases hc : c.nan <;> simp
    intro h1 h2
    exact cross_trans a.den_pos b.den_pos c.den_pos h1 h2

theorem keyLeT_totalPre : TotalPre Key.leT where
  total a b := by
    unfold Key.leT
    cases ha : a.nan <;> cases hb : b.nan <;> simp
    exact Int.le_total _ _
  trans a b c := by
    unfold Key.leT
    cases ha : a.nan <;> cases hb : b.nan <;> cases hc : c.nan <;> simp
    intro h1 h2
    exact cross_trans a.den_pos b.den_pos c.den_pos h1 h2

theorem hitLeD_totalPre : TotalPre Hit.leD where
  total a b := keyLe_totalPre.total a.key b.key
  trans a b c := keyLe_totalPre.trans a.key b.key c.key

theorem hitLeTD_totalPre : TotalPre Hit.leTD where
  total a b := keyLeT_totalPre.total a.key b.key
  trans a b c := keyLeT_totalPre.trans a.key b.key c.key

theorem hitLe_iff (a b : Hit) :
    Hit.le a b = true ↔ Key.le a.key b.key = true ∧ (Key.le b.key a.key = true → a.id ≤ b.id) := by
  unfold Hit.le
  cases h1 : Key.le a.key b.key <;> cases h2 : Key.le b.key a.key <;> simp

theorem hitLe_totalPre : TotalPre Hit.le where
  total a b := by
    rw [hitLe_iff, hitLe_iff]
    cases h1 : Key.le a.key b.key <;> cases h2 : Key.le b.key a.key <;> simp
    · have := keyLe_totalPre.total a.key b.key; simp [h1, h2] at this
    · omega
  trans a b c := by
    rw [hitLe_iff, hitLe_iff, hitLe_iff]
    intro ⟨hab, hab'⟩ ⟨hbc, hbc'⟩
    refine ⟨keyLe_totalPre.trans _ _ _ hab hbc, fun hca => ?_⟩
    have hcb := keyLe_totalPre.trans _ _ _ hca hab
    have hba := keyLe_totalPre.trans _ _ _ hbc hca
    have := hab' hba
    have := hbc' hcb
    omega

/-- the full order refines the distance-only order -/
theorem hitLe_leD (a b : Hit) (h : Hit.le a b = true) : Hit.leD a b = true := ((hitLe_iff a b).mp h).1

/-- rows with pairwise different ids give hits on which (distance, id) is antisymmetric -/
theorem hit_antisymm (l : List Hit) (hid : ∀ a b, a ∈ l → b ∈ l → a.id = b.id → a = b) : AntisymmOn Hit.le l := by
  intro a b ha hb hab hba
  have h1 := (hitLe_iff a b).mp hab
  have h2 := (hitLe_iff b a).mp hba
  exact hid a b ha hb (Nat.le_antisymm (h1.2 h2.1) (h2.2 h1.1))

/-- on keys that are numbers the code's order and the intended order coincide -/
theorem keyLe_eq_leT {a b : Key} (ha : a.nan = false) (hb : b.nan = false) : Key.le a b = Key.leT a b := by
  simp [Key.le, Key.leT, ha, hb]

end LanceModel.C22
