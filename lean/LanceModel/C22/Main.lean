import LanceModel.C22.Driver
def main : IO Unit := LanceModel.Util.runDriver LanceModel.C22.Driver.step none
