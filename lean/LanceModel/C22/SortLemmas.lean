import LanceModel.C22.Sort
/-
Lemmas about `ins` / `isort` / `topk` for a total preorder given as a Bool comparator.
-/
namespace LanceModel.C22

variable {α : Type}

/-- the comparator is a total preorder -/
structure TotalPre (le : α → α → Bool) : Prop where
  total : ∀ a b, le a b = true ∨ le b a = true
  trans : ∀ a b c, le a b = true → le b c = true → le a c = true

theorem TotalPre.refl {le : α → α → Bool} (h : TotalPre le) (a : α) : le a a = true := by
  cases h.total a a <;> assumption

abbrev Sorted (le : α → α → Bool) (l : List α) : Prop := l.Pairwise (fun a b => le a b = true)

theorem ins_perm (le : α → α → Bool) (x : α) (l : List α) : (ins le x l).Perm (x :: l) := by
  induction l with
  | nil => exact List.Perm.refl _
  | cons y t ih =>
    simp only [ins]
    split
    · exact List.Perm.refl _
    · exact (List.Perm.cons y ih).trans (List.Perm.swap x y t)

theorem mem_ins {le : α → α → Bool} {x a : α} {l : List α} : a ∈ ins le x l ↔ a = x ∨ a ∈ l := by
  rw [(ins_perm le x l).mem_iff]; simp

theorem ins_sorted {le : α → α → Bool} (h : TotalPre le) (x : α) {l : List α} (hl : Sorted le l) :
    Sorted le (ins le x l) := by
  induction l with
  | nil => simp [ins]
  | cons y t ih =>
    simp only [ins]
    have hy := List.pairwise_cons.mp hl
    split
    · rename_i hxy
      refine List.pairwise_cons.mpr ⟨?_, hl⟩
      intro a ha
      rcases List.mem_cons.mp ha with rfl | ha
      · exact hxy
      · exact h.trans _ _ _ hxy (hy.1 a ha)
    · rename_i hxy
      have hyx : le y x = true := by
        cases h.total x y with
        | inl h1 => exact absurd h1 hxy
        | inr h2 => exact h2
      refine List.pairwise_cons.mpr ⟨?_, ih hy.2⟩
      intro a ha
      rcases mem_ins.mp ha with rfl | ha
      · exact hyx
      · exact hy.1 a ha

theorem isort_perm (le : α → α → Bool) (l : List α) : (isort le l).Perm l := by
  induction l with
  | nil => exact List.Perm.refl _
  | cons x t ih =>
    show (ins le x (isort le t)).Perm (x :: t)
    exact (ins_perm le x _).trans (List.Perm.cons x ih)

theorem isort_sorted {le : α → α → Bool} (h : TotalPre le) (l : List α) : Sorted le (isort le l) := by
  induction l with
  | nil => exact List.Pairwise.nil
  | cons x t ih => exact ins_sorted h x ih

theorem mem_isort {le : α → α → Bool} {a : α} {l : List α} : a ∈ isort le l ↔ a ∈ l :=
  (isort_perm le l).mem_iff

theorem isort_length (le : α → α → Bool) (l : List α) : (isort le l).length = l.length :=
  (isort_perm le l).length_eq

/-- sorting a sorted list changes nothing -/
theorem isort_of_sorted {le : α → α → Bool} {l : List α} (hl : Sorted le l) : isort le l = l := by
  induction l with
  | nil => rfl
  | cons x t ih =>
    have hx := List.pairwise_cons.mp hl
    show ins le x (isort le t) = x :: t
    rw [ih hx.2]
    cases t with
    | nil => rfl
    | cons y t' => simp [ins, hx.1 y (List.mem_cons_self)]

/-- the position of an inserted element only depends on the prefix: cutting before or after inserting is the same -/
theorem take_ins (le : α → α → Bool) (x : α) (l : List α) (k : Nat) :
    (ins le x l).take k = (ins le x (l.take k)).take k := by
  induction l generalizing k with
  | nil => simp
  | cons y t ih =>
    cases k with
    | zero => simp
    | succ k =>
      simp only [List.take_succ_cons, ins]
      split
      · cases k with
        | zero => simp
        | succ k => simp [List.take_take]
      · simp only [List.take_succ_cons]
        rw [ih k]

/-- the bounded accumulator computes exactly the first `k` rows of the full sort -/
theorem topkLoop_eq_topk (le : α → α → Bool) (k : Nat) (l : List α) : topkLoop le k l = topk le k l := by
  induction l with
  | nil => simp [topkLoop, topk, isort]
  | cons x t ih =>
    show insK le k x (topkLoop le k t) = (ins le x (isort le t)).take k
    rw [ih, insK, topk, ← take_ins]

/-- folding insertions over a seed: only the first `k` rows of the seed matter for the first `k` rows of the result -/
theorem take_foldr_ins (le : α → α → Bool) (k : Nat) (s b : List α) :
    (b.foldr (ins le) s).take k = (b.foldr (ins le) (s.take k)).take k := by
  induction b with
  | nil => simp [List.take_take]
  | cons x t ih =>
    simp only [List.foldr_cons]
    rw [take_ins, ih, ← take_ins]

theorem isort_append (le : α → α → Bool) (a b : List α) : isort le (a ++ b) = a.foldr (ins le) (isort le b) := by
  simp [isort, List.foldr_append]

/-- antisymmetry of the comparator on the rows of one list (holds for the search orders because row ids are unique) -/
def AntisymmOn (le : α → α → Bool) (l : List α) : Prop :=
  ∀ a b, a ∈ l → b ∈ l → le a b = true → le b a = true → a = b

theorem AntisymmOn.mono {le : α → α → Bool} {l l' : List α} (h : AntisymmOn le l) (hs : ∀ a, a ∈ l' → a ∈ l) :
    AntisymmOn le l' := fun a b ha hb => h a b (hs a ha) (hs b hb)

/-- with a deterministic tie-break the sorted order depends on the multiset of rows only -/
theorem isort_perm_eq {le : α → α → Bool} (h : TotalPre le) {l l' : List α} (ha : AntisymmOn le l) (hp : l.Perm l') :
    isort le l = isort le l' := by
  apply List.Perm.eq_of_pairwise (le := fun a b => le a b = true)
  · intro a b ha' hb' hab hba
    exact ha a b (mem_isort.mp ha') (hp.mem_iff.mpr (mem_isort.mp hb')) hab hba
  · exact isort_sorted h l
  · exact isort_sorted h l'
  · exact (isort_perm le l).trans (hp.trans (isort_perm le l').symm)

theorem topk_perm_eq {le : α → α → Bool} (h : TotalPre le) {l l' : List α} (ha : AntisymmOn le l) (hp : l.Perm l')
    (k : Nat) : topk le k l = topk le k l' := by
  simp only [topk, isort_perm_eq h ha hp]

theorem topk_sorted {le : α → α → Bool} (h : TotalPre le) (k : Nat) (l : List α) : Sorted le (topk le k l) :=
  (isort_sorted h l).sublist (List.take_sublist k _)

theorem mem_topk {le : α → α → Bool} {k : Nat} {l : List α} {a : α} (h : a ∈ topk le k l) : a ∈ l :=
  mem_isort.mp (List.mem_of_mem_take h)

theorem topk_length (le : α → α → Bool) (k : Nat) (l : List α) : (topk le k l).length = min k l.length := by
  simp [topk, isort_length]

/-- the rows cut off by `topk` -/
def rest (le : α → α → Bool) (k : Nat) (l : List α) : List α := (isort le l).drop k

theorem topk_rest_perm (le : α → α → Bool) (k : Nat) (l : List α) : (topk le k l ++ rest le k l).Perm l := by
  simp only [topk, rest, List.take_append_drop]; exact isort_perm le l

/-- every kept row is at most every cut row -/
theorem topk_le_rest {le : α → α → Bool} (h : TotalPre le) (k : Nat) (l : List α) :
    ∀ a ∈ topk le k l, ∀ b ∈ rest le k l, le a b = true := by
  have hs := isort_sorted h l
  rw [← List.take_append_drop k (isort le l)] at hs
  exact (List.pairwise_append.mp hs).2.2

theorem topk_of_sorted_short {le : α → α → Bool} {l : List α} (hl : Sorted le l) {k : Nat} (hk : l.length ≤ k) :
    topk le k l = l := by
  simp [topk, isort_of_sorted hl, List.take_of_length_le hk]

theorem topk_idem {le : α → α → Bool} (h : TotalPre le) (k : Nat) (l : List α) : topk le k (topk le k l) = topk le k l := by
  apply topk_of_sorted_short (topk_sorted h k l)
  rw [topk_length]; exact Nat.min_le_left _ _

/-- `topk k (a ++ b) = topk k (a ++ topk k b)`: a part may be cut to its own top-k before the merge -/
theorem topk_append_right {le : α → α → Bool} (h : TotalPre le) (k : Nat) (a b : List α) :
    topk le k (a ++ b) = topk le k (a ++ topk le k b) := by
  have hs : isort le (List.take k (isort le b)) = List.take k (isort le b) := isort_of_sorted (topk_sorted h k b)
  simp only [topk, isort_append]
  rw [take_foldr_ins le k (isort le b) a, hs]

theorem topk_append_left {le : α → α → Bool} (h : TotalPre le) (k : Nat) (a b : List α) (ha : AntisymmOn le (a ++ b)) :
    topk le k (a ++ b) = topk le k (topk le k a ++ b) := by
  have hanti : AntisymmOn le (b ++ topk le k a) := ha.mono (by
    intro x hx
    rcases List.mem_append.mp hx with hx | hx
    · exact List.mem_append.mpr (Or.inr hx)
    · exact List.mem_append.mpr (Or.inl (mem_topk hx)))
  rw [topk_perm_eq h ha List.perm_append_comm, topk_append_right h, topk_perm_eq h hanti List.perm_append_comm]

/-- **top-k merge**: the top-k of the concatenation is the top-k of the concatenated per-part top-k's -/
theorem topk_flatten {le : α → α → Bool} (h : TotalPre le) (k : Nat) (parts : List (List α))
    (ha : AntisymmOn le parts.flatten) :
    topk le k parts.flatten = topk le k (parts.map (topk le k)).flatten := by
  induction parts with
  | nil => rfl
  | cons p ps ih =>
    simp only [List.flatten_cons, List.map_cons]
    have ha' : AntisymmOn le ps.flatten := ha.mono (by
      intro x hx; simp only [List.flatten_cons]; exact List.mem_append.mpr (Or.inr hx))
    rw [topk_append_left h k p _ ha, topk_append_right h k (topk le k p) ps.flatten, ih ha',
      ← topk_append_right h k (topk le k p)]

end LanceModel.C22
