import LanceModel.C35.Model
import LanceModel.C22.Sort
/-
C22 — vector search: the query PLANS of `Scanner::vector_search` (rust/lance/src/dataset/scanner.rs), the flat KNN node
(`flat_knn` = `KNNVectorDistanceExec` + `SortExec(dist, rowid).fetch(k)`, rust/lance/src/io/exec/knn.rs), the IVF fan-out
(`ANNIvfSubIndexExec` → `IVFIndex::search_in_partition` → `FlatIndex::search`, rust/lance-index/src/vector/flat/index.rs),
the prefilter (`DatasetPreFilter`: deleted rows ∪ rows failing the filter are masked BEFORE the per-partition top-k),
the refine step and the union with un-indexed fragments (`knn_combined`), over exact integer arithmetic.

No floating-point number exists in this file.  Vectors are `List Int`; a distance is an exact `Key` (an integer for L2² and
`1 - dot`, a reduced fraction for cosine, or NaN).  The distance kernels themselves are C35's (`scalarDef`, proved equal to
the lane kernels there).  Import-free apart from the C35 model (core only), so the driver links natively.

What is NOT here: k-means training and the assignment of rows to partitions (the assignment is an arbitrary function —
`Props.full_probe_exact` holds for every assignment), PQ / SQ / HNSW sub-indices (not exact, out of scope), float rounding.
-/
namespace LanceModel.C22

inductive Metric | l2 | dot | cos
  deriving DecidableEq, Repr

/-- element type of the vector column -/
inductive Ty | f32 | f64 | f16
  deriving DecidableEq, Repr

/-- an exact distance value: `num / (dm1 + 1)`, or NaN (`1.0 - 0.0/0.0`: cosine against a zero vector, cosine.rs has no
    special case).  L2 / dot: `dm1 = 0`. -/
structure Key where
  nan : Bool
  num : Int
  dm1 : Nat
  deriving DecidableEq, Repr

def Key.den (k : Key) : Int := (k.dm1 : Int) + 1

/-- The order the CODE sorts distances by.  `SortExec` compares f32 in IEEE total order; `1.0 - 0.0/0.0` evaluates to the
    x86-64 default NaN whose sign bit is set, which total order puts BEFORE every number (observed: zero vectors come back
    first from a flat cosine search).  Numbers compare by cross-multiplication (denominators are positive). -/
def Key.le (a b : Key) : Bool :=
  if a.nan then true else if b.nan then false else decide (a.num * b.den ≤ b.num * a.den)

/-- The order the PROPERTY means: an undefined distance never beats a defined one (NaN last). -/
def Key.leT (a b : Key) : Bool :=
  if b.nan then true else if a.nan then false else decide (a.num * b.den ≤ b.num * a.den)

def intKey (n : Int) : Key := ⟨false, n, 0⟩

/-- cosine distance `1 - xy / (|x| |y|)` ordered exactly: for a fixed query it is a decreasing function of
    `sgn(xy)·xy² / yy`, so the key is `-sgn(xy)·xy² / yy`, reduced.  NaN when a norm is zero. -/
def cosKey (xy xx yy : Int) : Key :=
  if xx = 0 ∨ yy ≤ 0 then ⟨true, 0, 0⟩
  else
    let num : Int := -(Int.sign xy * xy * xy)
    let g : Nat := Nat.gcd num.natAbs yy.toNat
    ⟨false, num / (g : Int), yy.toNat / g - 1⟩

/-- `DistanceType::arrow_batch_func` on one row: `l2_distance_arrow_batch` / `dot_distance_arrow_batch` (`1 - dot`) /
    `cosine_distance_arrow_batch`, as the scalar definitions (C35 `l2_eq_scalar`, `dot_eq_scalar`, `cosine_eq_scalar`
    prove the lane kernels equal to these for every element type). -/
def dist (m : Metric) (q v : List Int) : Key :=
  match m with
  | .l2 => intKey (C35.scalarDef C35.sqDiff q v)
  | .dot => intKey (1 - C35.scalarDef C35.mul q v)
  | .cos => cosKey (C35.scalarDef C35.mul q v) (C35.scalarDef C35.mul q q) (C35.scalarDef C35.mul v v)

/-- a live row of the table (deleted rows are not in the model table: every plan below masks them before any top-k —
    flat: `filtered_read(make_deletions_null)` nulls their `_rowid`, `compute_distance` nulls the distance, `SortExec` puts
    nulls last and `flat_knn` drops them; index: `DatasetPreFilter` block list) -/
structure Row where
  id : Nat
  c : Int
  vec : List Int
  /-- the row sits in a fragment covered by the vector index (`Dataset::unindexed_fragments` = the others) -/
  cov : Bool
  deriving DecidableEq, Repr

/-- one result row: `_distance`, the row's identity, and its filter column (used by the post-filter) -/
structure Hit where
  key : Key
  id : Nat
  c : Int
  deriving DecidableEq, Repr

def hitOf (m : Metric) (q : List Int) (r : Row) : Hit := ⟨dist m q r.vec, r.id, r.c⟩

/-- `FlatIndex::search`: the bounded heap compares distances only (`res.peek().unwrap().dist > dist`) -/
def Hit.leD (a b : Hit) : Bool := Key.le a.key b.key

/-- `SortExec [_distance ASC, _rowid ASC]` (`flat_knn`, `ann`): distance, ties by row id (row ids grow with `id`) -/
def Hit.le (a b : Hit) : Bool := Key.le a.key b.key && (!(Key.le b.key a.key) || decide (a.id ≤ b.id))

/-- the same with the order the property means (NaN last) -/
def Hit.leTD (a b : Hit) : Bool := Key.leT a.key b.key

inductive Filt | none | eq (x : Int) | lt (x : Int) | ge (x : Int)
  deriving DecidableEq, Repr

def Filt.pass : Filt → Int → Bool
  | .none, _ => true
  | .eq x, c => c == x
  | .lt x, c => decide (c < x)
  | .ge x, c => decide (x ≤ c)

/-- `Scanner::flat_knn`: distance column, sort by (distance, row id), fetch k -/
def flatKnn (k : Nat) (hs : List Hit) : List Hit := topk Hit.le k hs

/-- flat search over `rows` with the filter applied first (`vector_search`, no-index branch: `filtered_read` + refine
    filter feed `flat_knn`) -/
def flatSearch (m : Metric) (q : List Int) (k : Nat) (f : Filt) (rows : List Row) : List Hit :=
  flatKnn k ((rows.filter (fun r => f.pass r.c)).map (hitOf m q))

/-- split rows into `n + 1` partitions by an arbitrary assignment: partition `j > 0` holds the rows assigned `j`, partition
    0 everything else.  (k-means + `compute_partitions` in the real code; any function here.) -/
def splitBy (assign : Row → Nat) : Nat → List Row → List (List Row)
  | 0, rows => [rows]
  | n + 1, rows => rows.filter (fun r => assign r == n + 1) :: splitBy assign n (rows.filter (fun r => !(assign r == n + 1)))

/-- `FlatIndex::search` on one partition: a max-heap of capacity `kk`; a row replaces the worst kept row only when it is
    STRICTLY closer, so among equal distances the rows seen first stay.  = the bounded loop with the distance-only order.
    (Which of several equally distant worst rows `BinaryHeap::pop` evicts is unspecified; every theorem about the index
    path is stated for an arbitrary selection — `Props.IsTopK`.) -/
def partSearch (kk : Nat) (hs : List Hit) : List Hit := topkLoop Hit.leD kk hs

/-- `ANNIvfSubIndexExec` over every partition (nprobes ≥ num_partitions) followed by `ann`'s
    `SortExec(dist, rowid).fetch(k · refine_factor)`.  `parts` = the rows of each partition that pass the prefilter. -/
def annSearch (m : Metric) (q : List Int) (kk : Nat) (parts : List (List Row)) : List Hit :=
  topk Hit.le kk (parts.map (fun p => partSearch kk (p.map (hitOf m q)))).flatten

structure Index where
  metric : Metric
  /-- number of partitions minus one -/
  np1 : Nat
  deriving Repr

/-- rows a vector index holds: the covered fragments; a cosine index additionally loses zero vectors (observed: they
    normalise to NaN and never come back from the index) -/
def inIndex (ix : Index) (r : Row) : Bool :=
  r.cov && (match ix.metric with
    | .cos => !(C35.scalarDef C35.mul r.vec r.vec == 0)
    | _ => true)

/-- The indexed plan of `Scanner::vector_search` with every partition probed:
    `ann` (fetch k·rf) → optional refine (`flat_knn` again, fetch k; distances of a flat index are already exact) →
    unless `fast_search`: `knn_combined` = flat search of the un-indexed rows (with the prefilter applied by hand), union,
    `flat_knn` again. -/
def indexedSearch (ix : Index) (assign : Row → Nat) (q : List Int) (k : Nat) (rf : Option Nat) (fast : Bool) (f : Filt)
    (rows : List Row) : List Hit :=
  let kk := k * rf.getD 1
  let allowed := rows.filter (fun r => f.pass r.c)
  let ann := annSearch ix.metric q kk (splitBy assign ix.np1 (allowed.filter (inIndex ix)))
  let refined := if rf.isSome then flatKnn k ann else ann
  if fast then refined
  else
    let un := allowed.filter (fun r => !r.cov)
    if un.isEmpty then refined else flatKnn k (flatKnn k (un.map (hitOf ix.metric q)) ++ refined)

structure Query where
  m : Metric
  k : Nat
  q : List Int
  f : Filt
  pre : Bool
  ui : Bool
  np : Option Nat
  rf : Option Nat
  fast : Bool
  deriving Repr

structure Tab where
  ty : Ty
  dim : Nat
  rows : List Row
  index : Option Index
  nextId : Nat
  deriving Repr

inductive Res
  | err (e : String)
  /-- the query does not claim exactness (index used, fewer probes than partitions) -/
  | approx
  /-- metric actually used, result -/
  | exact (m : Metric) (hits : List Hit)
  /-- post-filter: metric, the unfiltered top-k (for the cut), the filtered result -/
  | post (m : Metric) (unfiltered : List Hit) (hits : List Hit)
  deriving DecidableEq, Repr

/-- `Scanner::fast_search` sets `use_index = true` again, whatever `use_index(false)` said before -/
def usedIndex (t : Tab) (qr : Query) : Option Index := if qr.ui || qr.fast then t.index else none

/-- the search proper, filter `f` applied as a PREfilter -/
def runSearch (t : Tab) (assign : Row → Nat) (qr : Query) (f : Filt) : List Hit :=
  match usedIndex t qr with
  | none => flatSearch qr.m qr.q qr.k f t.rows
  | some ix => indexedSearch ix assign qr.q qr.k qr.rf qr.fast f t.rows

/-- `Scanner::nearest` + `create_plan` + execution.
    Errors in the order the code raises them: `k == 0`, query dimension (both in `nearest`), refine factor 0 (planning, only
    when an index is used).  Two recorded defects of the index path are mirrored: an IVF_FLAT index over a Float16 column
    cannot be read back (every indexed query fails: `ivf_flat_f16_unreadable`), and over a Float64 column every indexed query
    panics (`ivf_flat_f64_panic`). -/
def query (t : Tab) (assign : Row → Nat) (qr : Query) : Res :=
  if qr.k = 0 then .err "invalid"
  else if qr.q.length ≠ t.dim then .err "invalid"
  else
    match usedIndex t qr with
    | none =>
      if qr.pre || qr.f == .none then .exact qr.m (runSearch t assign qr qr.f)
      else
        let un := runSearch t assign qr .none
        .post qr.m un (un.filter (fun h => qr.f.pass h.c))
    | some ix =>
      if qr.rf == some 0 then .err "invalid"
      else if t.ty == .f64 then .err "panic"
      else if t.ty == .f16 then .err "other"
      else if qr.np.getD 1 < ix.np1 + 1 then .approx
      else if qr.pre || qr.f == .none then .exact ix.metric (runSearch t assign qr qr.f)
      else
        -- `prefilter(false)`: "the filter will be applied to the nearest results … you may get back fewer results"
        let un := runSearch t assign qr .none
        .post ix.metric un (un.filter (fun h => qr.f.pass h.c))

/-! ## table history -/

/-- Every commit drops a vector index none of whose fragments still exists
    (`Transaction::retain_relevant_indices`: "keep the index unless it's an empty vector index"); a fragment disappears
    when its last row is deleted, so: no covered live row ⇒ no index any more. -/
def dropEmptyIndex (t : Tab) : Tab :=
  if t.rows.any (·.cov) then t else { t with index := none }

/-- `Dataset::write(Append)`: new rows get the next ids, in un-indexed fragments -/
def append (t : Tab) (rows : List (Int × List Int)) : Tab :=
  dropEmptyIndex { t with
    rows := t.rows ++ (List.zip (List.range rows.length) rows).map (fun p => ⟨t.nextId + p.1, p.2.1, p.2.2, false⟩),
    nextId := t.nextId + rows.length }

inductive DelPred | c (f : Filt) | idlt (x : Nat) | idge (x : Nat)

def DelPred.hit : DelPred → Row → Bool
  | .c f, r => f.pass r.c
  | .idlt x, r => decide (r.id < x)
  | .idge x, r => decide (x ≤ r.id)

/-- `Dataset::delete(predicate)` -/
def delete (t : Tab) (p : DelPred) : Tab := dropEmptyIndex { t with rows := t.rows.filter (fun r => !p.hit r) }

/-- `create_index(["vec"], Vector, ivf_flat(p, m), replace = true)`: covers every fragment.
    Fails (table unchanged) when there are fewer vectors than partitions ("KMeans: can not train p centroids with n vectors";
    an empty table: "Creating empty vector indices … not yet implemented"). -/
def createIndex (t : Tab) (m : Metric) (np1 : Nat) : Except String Tab :=
  if t.rows.length < np1 + 1 then .error "other"
  else .ok { t with index := some ⟨m, np1⟩, rows := t.rows.map (fun r => { r with cov := true }) }

/-- `optimize_indices` (append / merge / retrain): afterwards the index covers every fragment (as one more delta or merged —
    a delta is just more partitions, see `Props.full_probe_exact`).  Without an index nothing happens. -/
def optimize (t : Tab) : Tab :=
  match t.index with
  | none => t
  | some _ => { t with rows := t.rows.map (fun r => { r with cov := true }) }

/-- `compact_files`: rows keep their contents and their index coverage (the planner never mixes covered and uncovered
    fragments, the index is remapped); the model table is unchanged.  Remapping an IVF_FLAT index over a Float16 column
    fails like every other read of it (recorded defect `ivf_flat_f16_unreadable`). -/
def compact (t : Tab) : Except String Tab :=
  if t.ty == .f16 && t.index.isSome then .error "other" else .ok (dropEmptyIndex t)

end LanceModel.C22
