import LanceModel.C22.Model
import LanceModel.C22.SortLemmas
import LanceModel.C22.SpecLemmas
import LanceModel.C22.KeyLemmas
/-
C22 — "Vector search returns the true nearest neighbours when it claims exactness."

  A flat (unindexed) nearest-neighbour query, and an IVF query that probes every partition of a flat or refined index,
  returns k rows whose distances are the k smallest true distances under the chosen metric, with each reported distance
  equal to the recomputed distance and results sorted ascending.  In every mode deleted rows and rows failing a pre-filter
  are never returned; in these exact modes a pre-filtered query returns min(k, matching rows) results, and rows appended
  after indexing are searched unless fast search was requested.

"k rows whose distances are the k smallest, sorted ascending" is `IsTopK le k allowed result` (SpecLemmas): sorted, exactly
`min k |allowed|` rows, a sub-multiset of the allowed rows, and no allowed row left out is closer than a returned one —
whatever way ties are broken.  The model table holds live rows only (deleted rows are masked before any top-k in every plan).
-/
namespace LanceModel.C22

/-! ## top-k merge -/

/-- **topk_merge (lists, deterministic tie-break).**  With the (distance, row id) order of `SortExec` and pairwise different
    row ids, the top-k of the concatenated parts IS the top-k of the concatenated per-part top-k's — for every list of
    parts and every k. -/
theorem topk_merge (k : Nat) (parts : List (List Hit))
    (hid : ∀ a b, a ∈ parts.flatten → b ∈ parts.flatten → a.id = b.id → a = b) :
    topk Hit.le k parts.flatten = topk Hit.le k (parts.map (topk Hit.le k)).flatten :=
  topk_flatten hitLe_totalPre k parts (hit_antisymm _ hid)

example : topk Hit.le 2 [[⟨intKey 5, 0, 0⟩, ⟨intKey 1, 1, 0⟩, ⟨intKey 1, 2, 0⟩], [⟨intKey 1, 3, 0⟩, ⟨intKey 0, 4, 0⟩]].flatten
    = [⟨intKey 0, 4, 0⟩, ⟨intKey 1, 1, 0⟩] := by decide

/-- **topk_merge (distances, arbitrary tie-break).**  If every part is replaced by ANY of its top-kk selections (kk ≥ k;
    `BinaryHeap` evicts an unspecified one of several equally distant rows) and `R` is ANY top-k selection of their
    concatenation, then `R` is a top-k selection of the concatenated parts: same length, sorted, and nothing closer was lost. -/
theorem topk_merge_any_ties {k kk : Nat} (hk : k ≤ kk) (ps : List (List Hit × List Hit))
    (hps : ∀ p ∈ ps, IsTopK Hit.leD kk p.1 p.2) (R : List Hit)
    (hR : IsTopK Hit.leD k (ps.map (·.2)).flatten R) : IsTopK Hit.leD k (ps.map (·.1)).flatten R := by
  have := IsTopK.merge_parts hitLeD_totalPre hk ps hps [] R (by simpa using hR)
  simpa using this

/-- the bounded accumulator of `FlatIndex::search` / DataFusion's TopK never needs more than k rows -/
theorem bounded_heap_exact (kk : Nat) (hs : List Hit) : partSearch kk hs = topk Hit.leD kk hs :=
  topkLoop_eq_topk Hit.leD kk hs

/-! ## flat search -/

/-- **flat_exact.**  The result of a flat search is a top-k selection of the allowed rows under the distance order: sorted
    ascending, the k smallest distances; and each returned (distance, id) is the recomputed distance of a live row that
    passes the filter. -/
theorem flat_exact (m : Metric) (q : List Int) (k : Nat) (f : Filt) (rows : List Row) :
    IsTopK Hit.leD k ((rows.filter (fun r => f.pass r.c)).map (hitOf m q)) (flatSearch m q k f rows) ∧
    ∀ h ∈ flatSearch m q k f rows, ∃ r ∈ rows, f.pass r.c = true ∧ h.id = r.id ∧ h.key = dist m q r.vec := by
  refine ⟨(topk_isTopK hitLe_totalPre k _).weaken hitLe_leD, ?_⟩
  intro h hh
  have := mem_topk hh
  obtain ⟨r, hr, rfl⟩ := List.mem_map.mp this
  have := List.mem_filter.mp hr
  exact ⟨r, this.1, this.2, rfl, rfl⟩

example : flatSearch .l2 [0, 0] 2 (.eq 1) [⟨0, 1, [3, 4], false⟩, ⟨1, 0, [0, 0], false⟩, ⟨2, 1, [1, 0], false⟩, ⟨3, 1, [0, 1], false⟩]
    = [⟨intKey 1, 2, 1⟩, ⟨intKey 1, 3, 1⟩] := by decide

/-- **prefilter_sound.**  With the filter applied before the top-k no row that fails it (and no deleted row — those are not
    in the table) is returned, and the result has exactly min(k, matching rows) rows. -/
theorem prefilter_sound (m : Metric) (q : List Int) (k : Nat) (f : Filt) (rows : List Row) :
    (∀ h ∈ flatSearch m q k f rows, ∃ r ∈ rows, f.pass r.c = true ∧ h.id = r.id) ∧
    (flatSearch m q k f rows).length = min k (rows.filter (fun r => f.pass r.c)).length := by
  refine ⟨fun h hh => ?_, ?_⟩
  · obtain ⟨r, hr, hp, hid, _⟩ := (flat_exact m q k f rows).2 h hh
    exact ⟨r, hr, hp, hid⟩
  · have := (flat_exact m q k f rows).1.len
    simpa using this

/-- **post-filter** (`prefilter(false)`: "the filter will be applied to the nearest results … you may get back fewer results
    than you ask for"): sound, at most k rows, but NOT min(k, matching) — that is the documented behaviour, not a defect. -/
theorem postfilter_sound (f : Filt) (un : List Hit) :
    (∀ h ∈ un.filter (fun h => f.pass h.c), f.pass h.c = true ∧ h ∈ un) ∧ (un.filter (fun h => f.pass h.c)).length ≤ un.length :=
  ⟨fun _ hh => ⟨(List.mem_filter.mp hh).2, (List.mem_filter.mp hh).1⟩, List.length_filter_le _ _⟩

/-- a post-filtered query that returns 0 rows although 1 row matches and k = 1 -/
example : query ⟨.f32, 1, [⟨0, 0, [0], false⟩, ⟨1, 1, [5], false⟩], none, 2⟩ (fun _ => 0) ⟨.l2, 1, [0], .eq 1, false, true, none, none, false⟩
    = .post .l2 [⟨intKey 0, 0, 0⟩] [] := by decide

/-! ## IVF with every partition probed -/

theorem split_perm (assign : Row → Nat) (n : Nat) (rows : List Row) : (splitBy assign n rows).flatten.Perm rows := by
  induction n generalizing rows with
  | zero => simp [splitBy]
  | succ n ih =>
    simp only [splitBy, List.flatten_cons]
    exact (List.Perm.append_left _ (ih _)).trans (List.filter_append_perm _ rows)

/-- the index path for an arbitrary division of the indexed rows into parts (partitions of one index, or of several deltas) -/
theorem full_probe_exact_parts (m : Metric) (q : List Int) (kk : Nat) (parts : List (List Row)) (rows : List Row)
    (hp : parts.flatten.Perm rows) : IsTopK Hit.leD kk (rows.map (hitOf m q)) (annSearch m q kk parts) := by
  let ps : List (List Hit × List Hit) := parts.map (fun p => (p.map (hitOf m q), partSearch kk (p.map (hitOf m q))))
  have hps : ∀ p ∈ ps, IsTopK Hit.leD kk p.1 p.2 := by
    intro p hp'
    obtain ⟨r, _, rfl⟩ := List.mem_map.mp hp'
    simp only [bounded_heap_exact]
    exact topk_isTopK hitLeD_totalPre kk _
  have h2 : (ps.map (·.2)).flatten = (parts.map (fun p => partSearch kk (p.map (hitOf m q)))).flatten := by
    simp [ps, List.map_map, Function.comp_def]
  have h1 : (ps.map (·.1)).flatten = parts.flatten.map (hitOf m q) := by
    simp [ps, List.map_map, Function.comp_def, List.map_flatten]
  have hR : IsTopK Hit.leD kk (ps.map (·.2)).flatten (annSearch m q kk parts) := by
    rw [h2]; exact (topk_isTopK hitLe_totalPre kk _).weaken hitLe_leD
  have := topk_merge_any_ties (Nat.le_refl kk) ps hps _ hR
  rw [h1] at this
  exact this.perm (hp.map _)

/-- **full_probe_exact.**  IVF-flat probing all partitions is exact, for ANY assignment of rows to partitions (the
    assignment is an arbitrary function) and any number of partitions: the result is a top-kk selection of the indexed rows,
    exactly as a flat search of them would be. -/
theorem full_probe_exact (m : Metric) (q : List Int) (kk : Nat) (assign : Row → Nat) (n : Nat) (rows : List Row) :
    IsTopK Hit.leD kk (rows.map (hitOf m q)) (annSearch m q kk (splitBy assign n rows)) :=
  full_probe_exact_parts m q kk _ rows (split_perm assign n rows)

example : annSearch .l2 [0] 2 (splitBy (fun r => r.id % 2) 1 [⟨0, 0, [3], true⟩, ⟨1, 0, [1], true⟩, ⟨2, 0, [2], true⟩, ⟨3, 0, [1], true⟩])
    = [⟨intKey 1, 1, 0⟩, ⟨intKey 1, 3, 0⟩] := by decide

/-- **refine.**  Fetching k·rf candidates and re-ranking to k changes nothing for an exact index (rf ≥ 1). -/
theorem refine_exact (k rf : Nat) (hrf : 0 < rf) (hs : List Hit) : flatKnn k (topk Hit.le (k * rf) hs) = flatKnn k hs := by
  unfold flatKnn
  have hs' : isort Hit.le (topk Hit.le (k * rf) hs) = topk Hit.le (k * rf) hs := isort_of_sorted (topk_sorted hitLe_totalPre _ _)
  have hk : k ≤ k * rf := Nat.le_mul_of_pos_right k hrf
  simp only [topk, hs'] at *
  rw [List.take_take, Nat.min_eq_left hk]

/-- **unindexed_union** (with refine and fast search).  The indexed plan returns a top-k selection of
    (the allowed rows the index holds) ∪ (unless fast search: the allowed rows of un-indexed fragments). -/
theorem unindexed_union (ix : Index) (assign : Row → Nat) (q : List Int) (k : Nat) (rf : Option Nat) (fast : Bool)
    (f : Filt) (rows : List Row) (hrf : rf ≠ some 0) :
    IsTopK Hit.leD k
      ((((rows.filter (fun r => f.pass r.c)).filter (inIndex ix)) ++
        (if fast then [] else (rows.filter (fun r => f.pass r.c)).filter (fun r => !r.cov))).map (hitOf ix.metric q))
      (indexedSearch ix assign q k rf fast f rows) := by
  have hkk : k ≤ k * rf.getD 1 := by
    cases rf with
    | none => simp
    | some r =>
      simp only [Option.getD_some]
      exact Nat.le_mul_of_pos_right k (Nat.pos_of_ne_zero (fun h => hrf (by rw [h])))
  generalize hal : rows.filter (fun r => f.pass r.c) = allowed
  have hann := full_probe_exact ix.metric q (k * rf.getD 1) assign ix.np1 (allowed.filter (inIndex ix))
  generalize hI : (allowed.filter (inIndex ix)).map (hitOf ix.metric q) = I at *
  have href : IsTopK Hit.leD k I
      (if rf.isSome then flatKnn k (annSearch ix.metric q (k * rf.getD 1) (splitBy assign ix.np1 (allowed.filter (inIndex ix))))
       else annSearch ix.metric q (k * rf.getD 1) (splitBy assign ix.np1 (allowed.filter (inIndex ix)))) := by
    cases rf with
    | none => simpa using hann
    | some r =>
      simp only [Option.isSome_some, if_true]
      exact IsTopK.narrow hitLeD_totalPre hkk hann ((topk_isTopK hitLe_totalPre k _).weaken hitLe_leD)
  simp only [indexedSearch, hal]
  generalize (if rf.isSome then flatKnn k (annSearch ix.metric q (k * rf.getD 1) (splitBy assign ix.np1 (allowed.filter (inIndex ix))))
       else annSearch ix.metric q (k * rf.getD 1) (splitBy assign ix.np1 (allowed.filter (inIndex ix)))) = refined at *
  cases fast with
  | true => simpa [hI] using href
  | false =>
    simp only [Bool.false_eq_true, if_false, List.map_append, hI]
    split
    · rename_i hemp
      have : allowed.filter (fun r => !r.cov) = [] := List.isEmpty_iff.mp hemp
      simpa [this] using href
    · generalize (allowed.filter (fun r => !r.cov)).map (hitOf ix.metric q) = U
      have hU : IsTopK Hit.leD k U (flatKnn k U) := (topk_isTopK hitLe_totalPre k _).weaken hitLe_leD
      have hX : IsTopK Hit.leD k (flatKnn k U ++ refined) (flatKnn k (flatKnn k U ++ refined)) :=
        (topk_isTopK hitLe_totalPre k _).weaken hitLe_leD
      have h1 := IsTopK.merge_right hitLeD_totalPre (Nat.le_refl k) href hX
      have h2 := IsTopK.merge_right hitLeD_totalPre (Nat.le_refl k) hU (h1.perm List.perm_append_comm)
      exact h2

/-- when the index holds every covered row (any metric but cosine, or no zero vectors) and fast search is off, the indexed
    plan searches ALL allowed rows: rows appended after indexing are not lost -/
theorem appended_rows_searched (ix : Index) (assign : Row → Nat) (q : List Int) (k : Nat) (rf : Option Nat)
    (f : Filt) (rows : List Row) (hrf : rf ≠ some 0) (hix : ∀ r ∈ rows, inIndex ix r = r.cov) :
    IsTopK Hit.leD k ((rows.filter (fun r => f.pass r.c)).map (hitOf ix.metric q))
      (indexedSearch ix assign q k rf false f rows) := by
  have h := unindexed_union ix assign q k rf false f rows hrf
  refine h.perm (List.Perm.map _ ?_)
  simp only [Bool.false_eq_true, if_false]
  have hfe : (rows.filter (fun r => f.pass r.c)).filter (inIndex ix) = (rows.filter (fun r => f.pass r.c)).filter (fun r : Row => r.cov) := by
    apply List.filter_congr
    intro r hr
    exact hix r (List.mem_filter.mp hr).1
  rw [hfe]
  exact List.filter_append_perm (fun r : Row => r.cov) _

example : indexedSearch ⟨.l2, 1⟩ (fun r => r.id) [0] 2 (some 2) false .none [⟨0, 0, [3], true⟩, ⟨1, 0, [1], true⟩, ⟨2, 0, [2], false⟩, ⟨3, 0, [0], false⟩]
    = [⟨intKey 0, 3, 0⟩, ⟨intKey 1, 1, 0⟩] := by decide

/-- fast search leaves the appended row out -/
example : indexedSearch ⟨.l2, 1⟩ (fun r => r.id) [0] 2 none true .none [⟨0, 0, [3], true⟩, ⟨1, 0, [1], true⟩, ⟨2, 0, [2], false⟩, ⟨3, 0, [0], false⟩]
    = [⟨intKey 1, 1, 0⟩, ⟨intKey 9, 0, 0⟩] := by decide

/-! ## the property at full strength, and where the code departs from it -/

/-- the property for flat search with the order it MEANS: an undefined distance (cosine against a zero vector) never beats
    a defined one -/
def C22_full : Prop :=
  ∀ (m : Metric) (q : List Int) (k : Nat) (f : Filt) (rows : List Row),
    IsTopK Hit.leTD k ((rows.filter (fun r => f.pass r.c)).map (hitOf m q)) (flatSearch m q k f rows)

/-- **counterexample**: a cosine search for (1,1), k = 1, over {(0,0), (1,1)} returns the zero vector (NaN sorts first in the
    code's order) although the row (1,1) is at distance 0 -/
theorem C22_counterexample : ¬ C22_full := by
  intro h
  have h1 := h .cos [1, 1] 1 .none [⟨0, 0, [0, 0], false⟩, ⟨1, 0, [1, 1], false⟩]
  have hres : flatSearch .cos [1, 1] 1 .none [⟨0, 0, [0, 0], false⟩, ⟨1, 0, [1, 1], false⟩] = [⟨⟨true, 0, 0⟩, 0, 0⟩] := by decide
  rw [hres] at h1
  obtain ⟨rest, hp, hd⟩ := h1.cut
  have hm : hitOf .cos [1, 1] ⟨1, 0, [1, 1], false⟩ ∈ [⟨⟨true, 0, 0⟩, 0, 0⟩] ++ rest := by
    exact hp.mem_iff.mpr (List.mem_map.mpr ⟨⟨1, 0, [1, 1], false⟩, by decide, rfl⟩)
  have hne : hitOf .cos [1, 1] ⟨1, 0, [1, 1], false⟩ ≠ ⟨⟨true, 0, 0⟩, 0, 0⟩ := by decide
  have hr : hitOf .cos [1, 1] ⟨1, 0, [1, 1], false⟩ ∈ rest := by
    rcases List.mem_append.mp hm with hm | hm
    · exact absurd (List.mem_singleton.mp hm) hne
    · exact hm
  have := hd _ (List.mem_singleton.mpr rfl) _ hr
  revert this
  decide

/-- **partial**: whenever no allowed row has an undefined distance (always for L2 and dot; for cosine: non-zero query and no
    zero vector among the allowed rows) the flat search meets the property as meant -/
theorem C22_partial (m : Metric) (q : List Int) (k : Nat) (f : Filt) (rows : List Row)
    (hn : ∀ r ∈ rows, f.pass r.c = true → (dist m q r.vec).nan = false) :
    IsTopK Hit.leTD k ((rows.filter (fun r => f.pass r.c)).map (hitOf m q)) (flatSearch m q k f rows) := by
  refine (flat_exact m q k f rows).1.congr ?_
  intro a b ha hb
  obtain ⟨ra, hra, rfl⟩ := List.mem_map.mp ha
  obtain ⟨rb, hrb, rfl⟩ := List.mem_map.mp hb
  have ha' := List.mem_filter.mp hra
  have hb' := List.mem_filter.mp hrb
  exact keyLe_eq_leT (hn ra ha'.1 ha'.2) (hn rb hb'.1 hb'.2)

/-- L2 and dot distances are always defined -/
theorem l2_dot_defined (q v : List Int) : (dist .l2 q v).nan = false ∧ (dist .dot q v).nan = false := ⟨rfl, rfl⟩

example : (dist .cos [1, 1] [2, 2]).nan = false ∧ (dist .cos [1, 1] [0, 0]).nan = true := by decide

end LanceModel.C22
