import LanceModel.C22.SortLemmas
/-
`IsTopK le k l R`: "R is k rows of l whose keys are the k smallest, in ascending order" — for ANY way of breaking ties.
The merge lemmas here are what makes per-partition / per-delta / per-fragment top-k followed by a global top-k exact.
-/
namespace LanceModel.C22

variable {α : Type}

/-- `R` is a top-`k` selection of `l` under the total preorder `le`: sorted ascending, `min k |l|` rows, and together with
    some remainder `rest` a permutation of `l`, where no remaining row is smaller than a selected one. -/
structure IsTopK (le : α → α → Bool) (k : Nat) (l R : List α) : Prop where
  sorted : Sorted le R
  len : R.length = min k l.length
  cut : ∃ rest, (R ++ rest).Perm l ∧ ∀ a ∈ R, ∀ b ∈ rest, le a b = true

theorem topk_isTopK {le : α → α → Bool} (h : TotalPre le) (k : Nat) (l : List α) : IsTopK le k l (topk le k l) :=
  ⟨topk_sorted h k l, topk_length le k l, rest le k l, topk_rest_perm le k l, topk_le_rest h k l⟩

theorem IsTopK.mem {le : α → α → Bool} {k : Nat} {l R : List α} (h : IsTopK le k l R) {a : α} (ha : a ∈ R) : a ∈ l := by
  obtain ⟨rest, hp, _⟩ := h.cut
  exact hp.mem_iff.mp (List.mem_append.mpr (Or.inl ha))

theorem IsTopK.perm {le : α → α → Bool} {k : Nat} {l l' R : List α} (hp : l.Perm l') (h : IsTopK le k l R) :
    IsTopK le k l' R := by
  obtain ⟨rest, hr, hd⟩ := h.cut
  exact ⟨h.sorted, by rw [h.len, hp.length_eq], rest, hr.trans hp, hd⟩

/-- a coarser order accepts the same selection (e.g. (distance, row id) ⇒ distance only) -/
theorem IsTopK.weaken {le le' : α → α → Bool} (hw : ∀ a b, le a b = true → le' a b = true) {k : Nat} {l R : List α}
    (h : IsTopK le k l R) : IsTopK le' k l R := by
  obtain ⟨rest, hr, hd⟩ := h.cut
  exact ⟨h.sorted.imp (fun {a b} => hw a b), h.len, rest, hr, fun a ha b hb => hw a b (hd a ha b hb)⟩

/-- two orders that agree on the rows of `l` accept the same selections -/
theorem IsTopK.congr {le le' : α → α → Bool} {k : Nat} {l R : List α}
    (hc : ∀ a b, a ∈ l → b ∈ l → le a b = le' a b) (h : IsTopK le k l R) : IsTopK le' k l R := by
  obtain ⟨rest, hr, hd⟩ := h.cut
  have memR : ∀ a, a ∈ R → a ∈ l := fun a ha => hr.mem_iff.mp (List.mem_append.mpr (Or.inl ha))
  have memr : ∀ a, a ∈ rest → a ∈ l := fun a ha => hr.mem_iff.mp (List.mem_append.mpr (Or.inr ha))
  refine ⟨?_, h.len, rest, hr, fun a ha b hb => by rw [← hc a b (memR a ha) (memr b hb)]; exact hd a ha b hb⟩
  have hs := h.sorted
  unfold Sorted at *
  rw [List.pairwise_iff_forall_sublist] at *
  intro a b hab
  have hsub := hab.subset
  have ha : a ∈ R := hsub (by simp)
  have hb : b ∈ R := hsub (by simp)
  rw [← hc a b (memR a ha) (memR b hb)]; exact hs hab

/-- **merge, one part**: in a union, a part `b` may be replaced by any of its top-`kk` selections (`kk ≥ k`) before the
    global top-`k` is taken.  Counting argument: a row cut from `b` that beat a selected row `r` would force all `kk ≥ k`
    rows kept from `b` strictly below `r`, hence into the final selection, which has room for at most `k - 1` rows beside `r`. -/
theorem IsTopK.merge_right {le : α → α → Bool} (h : TotalPre le) {k kk : Nat} (hk : k ≤ kk) {a b P R : List α}
    (hP : IsTopK le kk b P) (hR : IsTopK le k (a ++ P) R) : IsTopK le k (a ++ b) R := by
  obtain ⟨rp, hpp, hpd⟩ := hP.cut
  obtain ⟨rr, hrp, hrd⟩ := hR.cut
  have hlenb : P.length + rp.length = b.length := by
    have := hpp.length_eq; simp only [List.length_append] at this; exact this
  have hlenR := hR.len
  have hlenP := hP.len
  simp only [List.length_append] at hlenR
  refine ⟨hR.sorted, ?_, rr ++ rp, ?_, ?_⟩
  · simp only [List.length_append]; omega
  · have h1 : (R ++ (rr ++ rp)).Perm ((a ++ P) ++ rp) := by
      rw [← List.append_assoc]; exact List.Perm.append_right rp hrp
    have h2 : ((a ++ P) ++ rp).Perm (a ++ b) := by
      rw [List.append_assoc]; exact List.Perm.append_left a hpp
    exact h1.trans h2
  · intro r hr x hx
    rcases List.mem_append.mp hx with hx | hx
    · exact hrd r hr x hx
    · -- x was cut from b
      cases hrx : le r x with
      | true => rfl
      | false =>
        exfalso
        let pred : α → Bool := fun y => !(le r y)
        have hPall : ∀ p, p ∈ P → pred p = true := by
          intro p hp
          cases hrp' : le r p with
          | false => simp [pred, hrp']
          | true =>
            have := h.trans r p x hrp' (hpd p hp x hx)
            rw [hrx] at this; exact absurd this (by simp)
        have hrrnone : ∀ y, y ∈ rr → ¬ pred y = true := by
          intro y hy; simp [pred, hrd r hr y hy]
        have hfP : P.filter pred = P := List.filter_eq_self.mpr hPall
        have hfrr : rr.filter pred = [] := List.filter_eq_nil_iff.mpr hrrnone
        have hperm := (List.Perm.filter pred hrp).length_eq
        simp only [List.filter_append, List.length_append, hfP, hfrr, List.length_nil, Nat.add_zero] at hperm
        have hlt : (R.filter pred).length < R.length :=
          List.length_filter_lt_length_iff_exists.mpr ⟨r, hr, by simp [pred, h.refl r]⟩
        have hrpne : 0 < rp.length := List.length_pos_of_mem hx
        omega

/-- take the top-`kk` first (`kk ≥ k`), then the top-`k` of that: a top-`k` of the whole (refine; `SortExec.fetch(k·rf)`
    followed by `flat_knn`) -/
theorem IsTopK.narrow {le : α → α → Bool} (h : TotalPre le) {k kk : Nat} (hk : k ≤ kk) {l A R : List α}
    (hA : IsTopK le kk l A) (hR : IsTopK le k A R) : IsTopK le k l R := by
  have := IsTopK.merge_right (a := []) h hk hA (by simpa using hR)
  simpa using this

/-- **merge, all parts**: every part replaced by any of its own top-`kk` selections -/
theorem IsTopK.merge_parts {le : α → α → Bool} (h : TotalPre le) {k kk : Nat} (hk : k ≤ kk)
    (ps : List (List α × List α)) (hps : ∀ p ∈ ps, IsTopK le kk p.1 p.2) (pre R : List α)
    (hR : IsTopK le k (pre ++ (ps.map (·.2)).flatten) R) : IsTopK le k (pre ++ (ps.map (·.1)).flatten) R := by
  induction ps generalizing pre with
  | nil => simpa using hR
  | cons p ps ih =>
    simp only [List.map_cons, List.flatten_cons] at hR ⊢
    have h1 : IsTopK le k ((pre ++ (ps.map (·.2)).flatten) ++ p.2) R := by
      refine hR.perm ?_
      rw [List.append_assoc]
      exact List.Perm.append_left pre List.perm_append_comm
    have h2 := IsTopK.merge_right h hk (hps p (List.mem_cons_self)) h1
    have h3 : IsTopK le k ((pre ++ p.1) ++ (ps.map (·.2)).flatten) R := by
      refine h2.perm ?_
      rw [List.append_assoc, List.append_assoc]
      exact List.Perm.append_left pre List.perm_append_comm
    have h4 := ih (fun q hq => hps q (List.mem_cons_of_mem _ hq)) (pre ++ p.1) h3
    rw [List.append_assoc] at h4
    exact h4

end LanceModel.C22
