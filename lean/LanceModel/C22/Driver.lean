import LanceModel.Util
import LanceModel.C22.Model
/-
C22 driver: one table per case; one output line per op line (see harness/src/bin/c22.rs for the op language).
-/
namespace LanceModel.C22.Driver
open LanceModel.Util LanceModel.C22

abbrev St := Option Tab

def kv (tok key : String) : Option String :=
  if tok.startsWith (key ++ "=") then some (tok.drop (key.length + 1)).toString else none

def parseInts (s : String) : Option (List Int) :=
  if s = "-" then some [] else (s.splitOn ",").mapM (·.toInt?)

def parseMetric : String → Option Metric
  | "l2" => some .l2 | "dot" => some .dot | "cos" => some .cos | _ => none

def showMetric : Metric → String
  | .l2 => "l2" | .dot => "dot" | .cos => "cos"

def parseFilt (s : String) : Option Filt :=
  if s = "none" then some .none else
  match s.splitOn ":" with
  | [a, b] =>
    match b.toInt? with
    | some x =>
      match a with
      | "eq" => some (.eq x) | "lt" => some (.lt x) | "ge" => some (.ge x) | _ => none
    | none => none
  | _ => none

def parseOptNat (dflt : String) (s : String) : Option (Option Nat) :=
  if s = dflt then some none else s.toNat?.map some

def parseBit : String → Option Bool
  | "1" => some true | "0" => some false | _ => none

def showKey (k : Key) : String :=
  if k.nan then "nan" else if k.dm1 = 0 then toString k.num else toString k.num ++ "/" ++ toString (k.dm1 + 1)

/-- consecutive hits with the same shown distance -/
def groups : List Hit → List (String × List Nat)
  | [] => []
  | h :: t =>
    match groups t with
    | (k, ids) :: rest => if k = showKey h.key then (k, h.id :: ids) :: rest else (showKey h.key, [h.id]) :: (k, ids) :: rest
    | [] => [(showKey h.key, [h.id])]

def showIds (ids : List Nat) : String := ".".intercalate ((sortNat ids).map toString)

def showGroup (g : String × List Nat) : String := g.1 ++ ":" ++ showIds g.2

def showExact : List (String × List Nat) → List String
  | [] => []
  | [g] => [g.1 ++ "#" ++ toString g.2.length]
  | g :: rest => showGroup g :: showExact rest

def status (t : Tab) : String :=
  "ok live=" ++ toString t.rows.length ++ " cov=" ++ toString (t.rows.filter (·.cov)).length ++ " idx=" ++
    (match t.index with | some ix => showMetric ix.metric | none => "none")

/-- the partition assignment used when running the model: any function gives the same answer (`Props.full_probe_exact`) -/
def assign (t : Tab) (r : Row) : Nat :=
  match t.index with
  | some ix => r.id % (ix.np1 + 1)
  | none => 0

def showRes (k : Nat) : Res → String
  | .err e => "err " ++ e
  | .approx => "approx"
  | .exact m hits => " ".intercalate (("ok m=" ++ showMetric m) :: ("n=" ++ toString hits.length) :: showExact (groups hits))
  | .post m un hits =>
    let cut : Option String := if un.length = k then un.getLast?.map (fun h => showKey h.key) else none
    let gs := (groups hits).filter (fun g => some g.1 ≠ cut)
    " ".intercalate (("ok m=" ++ showMetric m) :: ("b=" ++ cut.getD "none") :: gs.map showGroup)

def parseRow (dim : Nat) (s : String) : Option (Int × List Int) :=
  match s.splitOn ":" with
  | [c, v] =>
    match c.toInt?, parseInts v with
    | some c, some v => if v.length = dim ∧ v.all (fun x => x.natAbs ≤ 64) then some (c, v) else none
    | _, _ => none
  | _ => none

def parseQuery (t : List String) : Option Query :=
  match t with
  | [_, m, k, q, f, pre, ui, np, rf, fast] =>
    match (kv m "m").bind parseMetric, (kv k "k").bind (·.toNat?), (kv q "q").bind parseInts, (kv f "f").bind parseFilt,
        (kv pre "pre").bind parseBit, (kv ui "ui").bind parseBit, (kv np "np").bind (parseOptNat "def"),
        (kv rf "rf").bind (parseOptNat "none"), (kv fast "fast").bind parseBit with
    | some m, some k, some q, some f, some pre, some ui, some np, some rf, some fast => some ⟨m, k, q, f, pre, ui, np, rf, fast⟩
    | _, _, _, _, _, _, _, _, _ => none
  | _ => none

def step (s : St) (line : String) : St × String :=
  let toks := splitTokens line
  let bad : St × String := (s, "err parse")
  match toks with
  | ["create", ty, dim] =>
    let ty? : Option Ty := match kv ty "ty" with
      | some "f32" => some .f32 | some "f64" => some .f64 | some "f16" => some .f16 | _ => none
    match ty?, (kv dim "dim").bind (·.toNat?) with
    | some ty, some d =>
      if d = 0 ∨ d > 64 then bad else (some ⟨ty, d, [], none, 0⟩, "ok live=0 cov=0 idx=none")
    | _, _ => bad
  | ["append", f, rows] =>
    match s with
    | none => (s, "err notable")
    | some t =>
      match (kv f "f").bind (·.toNat?), (rows.splitOn ";").mapM (parseRow t.dim) with
      | some f, some rs => if f = 0 then bad else
        let t' := append t rs
        (some t', status t')
      | _, _ => bad
  | ["delete", op, x] =>
    match s with
    | none => (s, "err notable")
    | some t =>
      match x.toInt? with
      | none => bad
      | some x =>
        let p? : Option DelPred := match op with
          | "eq" => some (.c (.eq x)) | "lt" => some (.c (.lt x)) | "ge" => some (.c (.ge x))
          | "idlt" => some (.idlt x.toNat) | "idge" => some (.idge x.toNat) | _ => none
        match p? with
        | none => bad
        | some p => let t' := delete t p; (some t', status t')
  | ["index", m, p] =>
    match s with
    | none => (s, "err notable")
    | some t =>
      match (kv m "m").bind parseMetric, (kv p "p").bind (·.toNat?) with
      | some m, some p =>
        if p = 0 ∨ p > 64 then bad else
        match createIndex t m (p - 1) with
        | .ok t' => (some t', status t')
        | .error e => (s, "err " ++ e)
      | _, _ => bad
  | ["optimize", mode] =>
    match s with
    | none => (s, "err notable")
    | some t =>
      if mode ∈ ["append", "merge", "all", "retrain"] then let t' := optimize t; (some t', status t') else bad
  | ["compact", tg] =>
    match s with
    | none => (s, "err notable")
    | some t =>
      match (kv tg "t").bind (·.toNat?) with
      | some n => if n = 0 then bad else
        match compact t with
        | .ok t' => (some t', status t')
        | .error e => (s, "err " ++ e)
      | none => bad
  | "query" :: _ =>
    match s with
    | none => (s, "err notable")
    | some t =>
      match parseQuery toks with
      | none => bad
      | some q => (s, showRes q.k (query t (assign t) q))
  | _ => bad

end LanceModel.C22.Driver
