/-
C22 — generic top-k machinery: stable insertion sort over a Bool comparator, `topk k = take k ∘ sort`, and the bounded
"keep the k best seen so far" loop that the per-partition search and DataFusion's TopK use.  Import-free (core only).
Used by `Model.lean`; the lemmas are in `SortLemmas.lean`.
-/
namespace LanceModel.C22

variable {α : Type}

/-- insert `x` before the first element that is not smaller (stable when folded from the right) -/
def ins (le : α → α → Bool) (x : α) : List α → List α
  | [] => [x]
  | y :: t => if le x y then x :: y :: t else y :: ins le x t

/-- stable insertion sort (`SortExec` over the whole input; structural, so closed terms evaluate by `decide`) -/
def isort (le : α → α → Bool) (l : List α) : List α := l.foldr (ins le) []

/-- `SortExec::with_fetch(Some(k))`: the first `k` rows of the sorted input -/
def topk (le : α → α → Bool) (k : Nat) (l : List α) : List α := (isort le l).take k

/-- one step of a bounded top-k accumulator: insert, then cut back to `k` -/
def insK (le : α → α → Bool) (k : Nat) (x : α) (acc : List α) : List α := (ins le x acc).take k

/-- the bounded accumulator run over the input (never holds more than `k` rows) -/
def topkLoop (le : α → α → Bool) (k : Nat) (l : List α) : List α := l.foldr (insK le k) []

end LanceModel.C22
