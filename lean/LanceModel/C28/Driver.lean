import LanceModel.Util
import LanceModel.C28.Model
import LanceModel.C28.FsstModel
/-
C28 driver.  One output line per op line (stateless).

  pack   T w fill outlen xs     unchecked_pack(w, xs, out) with out = [fill; outlen]      -> `ok <out>` | `panic`
  unpack T w fill outlen ws     unchecked_unpack(w, ws, out) with out = [fill; outlen]    -> `ok <out>` | `panic`
  fin|finmin O hexbuf offsets   fsst::compress of an array (O = 32|64 offset bits)        -> `copy st=<h> out=<h> offs=<list>` | `fsst`
  dec    O hexsymtab hexcodes offsets   fsst::decompress                                  -> `ok <hex> <offsets> term=<t> termfree=<bool>` | `err:<kind>`
-/
namespace LanceModel.C28.Driver
open LanceModel.Util LanceModel.C28 LanceModel.C28.Fsst

def hexVal (c : Char) : Option Nat :=
  if '0' ≤ c ∧ c ≤ '9' then some (c.toNat - '0'.toNat)
  else if 'a' ≤ c ∧ c ≤ 'f' then some (c.toNat - 'a'.toNat + 10)
  else none

def parseHexGo : List Char → List Nat → Option (List Nat)
  | [], acc => some acc.reverse
  | [_], _ => none
  | a :: b :: r, acc =>
    match hexVal a, hexVal b with
    | some x, some y => parseHexGo r ((16 * x + y) :: acc)
    | _, _ => none

def parseHex (s : String) : Option (List Nat) :=
  if s = "-" then some [] else parseHexGo s.toList []

def hexDigit (n : Nat) : Char := if n < 10 then Char.ofNat (48 + n) else Char.ofNat (87 + n)

def showHex (l : List Nat) : String :=
  if l.isEmpty then "-" else String.ofList (l.foldr (fun b acc => hexDigit (b / 16) :: hexDigit (b % 16) :: acc) [])

/-- FNV-1a, 64 bit -/
def fnv (l : List Nat) : Nat :=
  (l.foldl (fun (h : UInt64) b => (h ^^^ UInt64.ofNat b) * 1099511628211) 14695981039346656037).toNat

def showErr : Err → String
  | .panic => "err:panic"
  | .invalidData => "err:invalid_data"
  | .invalidInput => "err:invalid_input"
  | .unsupported => "err:unsupported"

def bad : String := "bad-op"

def validT (T : Nat) : Bool := T = 8 || T = 16 || T = 32 || T = 64

def showOptArr : Option (Array Nat) → String
  | none => "panic"
  | some a => "ok " ++ showNatList a.toList

/-- `fsst::compress` as far as it is a function of the input: copy mode below the threshold (header, values and
offsets are determined), otherwise only the mode (the symbol table is trained on an OS-seeded random sample) -/
def fin (buf offs : String) : String :=
  match parseHex buf, parseNatList offs with
  | some buf, some offs =>
    if buf.length < LEAST_INPUT_SIZE then
      "copy st=" ++ toString (fnv copyHeader.toList) ++ " out=" ++ toString (fnv buf) ++ " offs=" ++ showNatList offs
    else "fsst"
  | _, _ => bad

def step (s : Unit) (line : String) : Unit × String :=
  match splitTokens line with
  | ["pack", T, w, fill, outlen, xs] =>
    match T.toNat?, w.toNat?, fill.toNat?, outlen.toNat?, parseNatList xs with
    | some T, some w, some fill, some outlen, some xs =>
      if validT T ∧ xs.all (· < 2 ^ T) ∧ fill < 2 ^ T then
        (s, showOptArr (pack T w xs.toArray (Array.replicate outlen fill)))
      else (s, bad)
    | _, _, _, _, _ => (s, bad)
  | ["unpack", T, w, fill, outlen, ws] =>
    match T.toNat?, w.toNat?, fill.toNat?, outlen.toNat?, parseNatList ws with
    | some T, some w, some fill, some outlen, some ws =>
      if validT T ∧ ws.all (· < 2 ^ T) ∧ fill < 2 ^ T then
        (s, showOptArr (unpack T w ws.toArray (Array.replicate outlen fill)))
      else (s, bad)
    | _, _, _, _, _ => (s, bad)
  | ["fin", _o, buf, offs] => (s, fin buf offs)
  | ["finmin", _o, buf, offs] => (s, fin buf offs)
  | ["dec", _o, st, codes, offs] =>
    match parseHex st, parseHex codes, parseNatList offs with
    | some st, some codes, some offs =>
      match decompressApi st.toArray codes offs with
      | .ok (out, oo) =>
        match parseTable st.toArray with
        | .ok t => (s, "ok " ++ showHex out ++ " " ++ showNatList oo ++ " term=" ++ toString t.term ++
            " termfree=" ++ showBool t.termFree)
        | .error e => (s, showErr e)
      | .error e => (s, showErr e)
    | _, _, _ => (s, bad)
  | _ => (s, bad)

end LanceModel.C28.Driver
