import LanceModel.C28.FsstModel
/-!
Lemmas about the FSST decoder model: the 4-byte block decoder of `decompress_bulk` agrees with the
one-code-at-a-time reference decoder on every code stream that does not end inside an escape.
-/
namespace LanceModel.C28.Fsst

theorem decSeq_ne {t : Tbl} {c : Nat} {tl : List Nat} (h : c ≠ ESC) :
    decSeq t (c :: tl) = t.sym c ++ decSeq t tl := by
  cases tl with
  | nil => rw [decSeq, decSeq]; simp
  | cons b r => rw [decSeq, if_neg h]

theorem decSeq_esc {t : Tbl} {b : Nat} {tl : List Nat} : decSeq t (ESC :: b :: tl) = b :: decSeq t tl := by
  rw [decSeq, if_pos rfl]

theorem clean_ne {c : Nat} {tl : List Nat} (h : c ≠ ESC) : clean (c :: tl) = clean tl := by
  cases tl with
  | nil => rw [clean, clean]; simp [h]
  | cons b r => rw [clean, if_neg h]

theorem clean_esc {b : Nat} {tl : List Nat} : clean (ESC :: b :: tl) = clean tl := by
  rw [clean, if_pos rfl]

theorem clean_esc_last : clean [ESC] = false := by
  rw [clean]; simp

theorem decTail_eq (t : Tbl) (after : List Nat) (cs : List Nat) (hlen : cs.length < 4)
    (hc : clean cs = true) : decTail t after cs = some (decSeq t cs) := by
  match cs, hlen with
  | [], _ => unfold decTail; dsimp only; rw [decSeq]
  | [a], _ => unfold decTail; dsimp only; rw [decSeq]
  | [a, b], _ =>
    unfold decTail; dsimp only
    by_cases ha : a = ESC
    · subst ha; rw [if_neg (by simp), decSeq_esc, decSeq]
    · rw [if_pos ha]
      rw [clean_ne ha] at hc
      by_cases hb : b = ESC
      · subst hb; rw [clean_esc_last] at hc; cases hc
      · rw [if_pos hb, decSeq_ne ha, decSeq]
  | [a, b, c], _ =>
    unfold decTail; dsimp only
    by_cases ha : a = ESC
    · subst ha; rw [if_neg (by simp), decSeq_esc, decSeq]
    · rw [if_pos ha, decSeq_ne ha]
      by_cases hb : b = ESC
      · subst hb; rw [if_neg (by simp), decSeq_esc, decSeq]
      · rw [if_pos hb, decSeq_ne hb, decSeq, List.append_assoc]

/-- the block decoder is the reference decoder on clean streams (for every lookahead `after`) -/
theorem decBlocks_eq (t : Tbl) (after : List Nat) : ∀ cs, clean cs = true →
    decBlocks t after cs = some (decSeq t cs) := by
  intro cs
  induction h : cs.length using Nat.strongRecOn generalizing cs with
  | _ n ih =>
    intro hc
    match cs, h with
    | c0 :: c1 :: c2 :: c3 :: rest, h =>
      simp only [List.length_cons] at h
      rw [decBlocks.eq_def]; dsimp only
      by_cases h0 : c0 = ESC
      · subst h0
        rw [if_pos rfl, decSeq_esc]
        rw [clean_esc] at hc
        rw [ih _ (by simp only [List.length_cons]; omega) (c2 :: c3 :: rest) rfl hc]; rfl
      · rw [if_neg h0, decSeq_ne h0]
        rw [clean_ne h0] at hc
        by_cases h1 : c1 = ESC
        · subst h1
          rw [if_pos rfl, decSeq_esc]
          rw [clean_esc] at hc
          rw [ih _ (by simp only [List.length_cons]; omega) (c3 :: rest) rfl hc]; rfl
        · rw [if_neg h1, decSeq_ne h1]
          rw [clean_ne h1] at hc
          by_cases h2 : c2 = ESC
          · subst h2
            rw [if_pos rfl, decSeq_esc]
            rw [clean_esc] at hc
            rw [ih _ (by omega) rest rfl hc]; simp
          · rw [if_neg h2, decSeq_ne h2]
            rw [clean_ne h2] at hc
            by_cases h3 : c3 = ESC
            · subst h3
              rw [if_pos rfl]
              match rest, h, hc with
              | [], _, hc => rw [clean_esc_last] at hc; cases hc
              | l :: rest', h, hc =>
                simp only [List.length_cons] at h
                rw [clean_esc] at hc
                rw [decSeq_esc]
                simp only
                rw [ih _ (by omega) rest' rfl hc]; simp
            · rw [if_neg h3, decSeq_ne h3]
              rw [clean_ne h3] at hc
              rw [ih _ (by omega) rest rfl hc]; simp
    | [], _ => rw [decBlocks.eq_def]; dsimp only; exact decTail_eq t after [] (by simp) hc
    | [a], _ => rw [decBlocks.eq_def]; dsimp only; exact decTail_eq t after [a] (by simp) hc
    | [a, b], _ => rw [decBlocks.eq_def]; dsimp only; exact decTail_eq t after [a, b] (by simp) hc
    | [a, b, c], _ => rw [decBlocks.eq_def]; dsimp only; exact decTail_eq t after [a, b, c] (by simp) hc

theorem decSeq_encode (t : Tbl) : ∀ toks : List Tok, (∀ tk ∈ toks, TokOk tk) →
    decSeq t (encodeTokens toks) = expand t toks := by
  intro toks
  induction toks with
  | nil => intro _; rw [encodeTokens, expand, decSeq]
  | cons tk r ih =>
    intro h
    have hr := ih (fun x hx => h x (List.mem_cons_of_mem _ hx))
    cases tk with
    | sym c =>
      have hc : c ≠ ESC := h (.sym c) (List.mem_cons_self ..)
      rw [encodeTokens, expand, decSeq_ne hc, hr]
    | esc b => rw [encodeTokens, expand, decSeq_esc, hr]

theorem clean_encode : ∀ toks : List Tok, (∀ tk ∈ toks, TokOk tk) → clean (encodeTokens toks) = true := by
  intro toks
  induction toks with
  | nil => intro _; rw [encodeTokens, clean]
  | cons tk r ih =>
    intro h
    have hr := ih (fun x hx => h x (List.mem_cons_of_mem _ hx))
    cases tk with
    | sym c =>
      have hc : c ≠ ESC := h (.sym c) (List.mem_cons_self ..)
      rw [encodeTokens, clean_ne hc, hr]
    | esc b => rw [encodeTokens, clean_esc, hr]

/-- every token of the abstract greedy encoder is well formed and expands to the input, provided the matcher is
sound: a picked code is not the escape code and its symbol is a non-empty prefix of the remaining input -/
theorem greedy_sound (pick : List Nat → Option Nat) (t : Tbl)
    (hp : ∀ s c, pick s = some c → c ≠ ESC ∧ t.sym c ≠ [] ∧ t.sym c <+: s) :
    ∀ fuel s, s.length ≤ fuel →
      (∀ tk ∈ greedy pick t fuel s, TokOk tk) ∧ expand t (greedy pick t fuel s) = s := by
  intro fuel
  induction fuel with
  | zero =>
    intro s hs
    have : s = [] := List.eq_nil_of_length_eq_zero (by omega)
    subst this
    simp [greedy, expand]
  | succ fuel ih =>
    intro s hs
    cases s with
    | nil => simp [greedy, expand]
    | cons b rest =>
      rw [greedy]
      cases hpk : pick (b :: rest) with
      | none =>
        simp only
        have := ih rest (by simp only [List.length_cons] at hs; omega)
        refine ⟨?_, ?_⟩
        · intro tk htk
          rcases List.mem_cons.mp htk with rfl | htk
          · trivial
          · exact this.1 tk htk
        · rw [expand, this.2]
      | some c =>
        simp only
        obtain ⟨hc, hne, hpre⟩ := hp _ _ hpk
        have hlen : 0 < (t.sym c).length := List.length_pos_iff.mpr hne
        have := ih ((b :: rest).drop (t.sym c).length) (by
          rw [List.length_drop]; simp only [List.length_cons] at hs ⊢; omega)
        refine ⟨?_, ?_⟩
        · intro tk htk
          rcases List.mem_cons.mp htk with rfl | htk
          · exact hc
          · exact this.1 tk htk
        · rw [expand, this.2]
          obtain ⟨r, hr⟩ := hpre
          rw [← hr, List.drop_left]

/-- a symbol that matches the window `rest ++ term :: junk` but is free of the terminator (or is a single byte)
ends inside `rest`: the sentinel is never consumed -/
theorem prefix_stops_at_sentinel {l rest junk : List Nat} {term : Nat} (_hl : l ≠ []) (hrest : rest ≠ [])
    (hfree : 2 ≤ l.length → term ∉ l) (hpre : l <+: rest ++ term :: junk) : l <+: rest := by
  by_cases hlen : l.length ≤ rest.length
  · exact List.prefix_of_prefix_length_le hpre (List.prefix_append _ _) hlen
  · exfalso
    have hr : 0 < rest.length := List.length_pos_iff.mpr hrest
    have hmem : term ∈ l := by
      obtain ⟨r, hr'⟩ := hpre
      have h1 : (rest ++ term :: junk)[rest.length]? = some term := by simp
      have h2 : (l ++ r)[rest.length]? = l[rest.length]? := List.getElem?_append_left (by omega)
      rw [← hr', h2] at h1
      exact List.mem_of_getElem? h1
    exact hfree (by omega) hmem

/-- the windowed matcher is sound on the string itself when the table keeps the terminator out of multi-byte symbols -/
theorem windowed_sound (pick : List Nat → Option Nat) (t : Tbl) (junk : List Nat)
    (hp : ∀ win c, pick win = some c → c ≠ ESC ∧ t.sym c ≠ [] ∧ t.sym c <+: win)
    (hinv : ∀ c, 2 ≤ (t.sym c).length → t.term ∉ t.sym c) :
    ∀ s c, windowed pick t.term junk s = some c → c ≠ ESC ∧ t.sym c ≠ [] ∧ t.sym c <+: s := by
  intro s c h
  cases s with
  | nil => cases h
  | cons b rest =>
    obtain ⟨h1, h2, h3⟩ := hp _ _ h
    refine ⟨h1, h2, ?_⟩
    have : b :: rest ++ t.term :: junk = (b :: rest) ++ t.term :: junk := rfl
    rw [this] at h3
    exact prefix_stops_at_sentinel h2 (by simp) (hinv c) h3

theorem termFree_sym (t : Tbl) (h : t.termFree = true) (c : Nat) (hc : 2 ≤ (t.sym c).length) :
    t.term ∉ t.sym c := by
  unfold Tbl.sym at *
  by_cases hlt : c < t.syms.size
  · have hm : t.syms[c] ∈ t.syms.toList := Array.mem_toList_iff.mpr (Array.getElem_mem hlt)
    have := (List.all_eq_true.mp h) _ hm
    simp only [Array.getD_eq_getD_getElem?, Array.getElem?_eq_getElem hlt, Option.getD_some] at hc ⊢
    intro hmem
    have hc' : ¬ t.syms[c].length < 2 := by omega
    simp [hc', hmem] at this
  · simp [Array.getD_eq_getD_getElem?, Array.getElem?_eq_none (Nat.le_of_not_lt hlt)] at hc

end LanceModel.C28.Fsst
