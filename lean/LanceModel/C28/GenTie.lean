import LanceModel.C28.Gen
import LanceModel.C28.Model
import LanceModel.C28.FsstModel
/-!
Translation tie: the constants that `tools/xlate_c28.py` reads from the lance sources on every run equal the
constants the models are written with.  An edited `FL_ORDER`, index coefficient, row range, threshold, escape code,
magic or table size breaks this theorem (and with it the build of `Props.lean`).
-/
namespace LanceModel.C28

theorem gen_tie :
    -- bit-packing
    Gen.FL_ORDER = (List.range 8).map flOrder ∧
    Gen.INDEX_COEFFS = [8, 8, 16, 128] ∧
    (∀ row lane, index row lane = flOrder (row / 8) * 16 + row % 8 * 128 + lane) ∧
    Gen.SEQ_ROWS = [8, 16, 32, 64].map (fun T => (T, T)) ∧
    (∀ T, lanes T = Gen.LANES_NUMERATOR / T) ∧
    -- FSST
    Gen.FSST_ESC = Fsst.ESC ∧
    Gen.FSST_LEAST_INPUT_SIZE = Fsst.LEAST_INPUT_SIZE ∧
    Gen.FSST_SYMBOL_TABLE_SIZE = Fsst.SYMTAB_SIZE ∧
    Gen.MAX_SYMBOL_LENGTH = 8 ∧
    Gen.FSST_MAGIC = (Fsst.MAGIC_BYTES.foldr (fun b acc => b + 256 * acc) 0) * 2 ^ 32 := by
  refine ⟨by decide, by decide, fun _ _ => rfl, by decide, fun _ => rfl, by decide, by decide, by decide,
    by decide, by decide⟩

end LanceModel.C28
