import LanceModel.C28.BlockLemmas
import LanceModel.C28.MaskLemmas
import LanceModel.C28.FsstLemmas
import LanceModel.C28.GenTie
/-!
# C28 — property theorems

"The FSST compressor either reports an error or produces output that decompresses to exactly its input
for every byte-string array, and the FastLanes bit-packing kernels unpack exactly what they packed for
every integer width and every bit width."

Bit-packing (`Model.lean` ↔ rust/compression/bitpacking/src/lib.rs): the statement is proved at full
strength for every lane type `T ∈ {8,16,32,64}`, every width `w ≤ T` and every 1024-element block — not by
enumerating blocks: the row loop of a lane is shown to write / read the lane's bit stream for arbitrary
`T > 0`, `0 < w < T` (`BitLemmas.lean`), and the `FL_ORDER` index map is shown to be a bijection between
`(row, lane)` and `[0, 1024)` (`BlockLemmas.lean`).

FSST (`FsstModel.lean` ↔ rust/compression/fsst/src/fsst.rs): the *decoder* and the serialised format are
modelled and proved; the encoder (symbol-table training, hash/short-code matcher) is not modelled.  The
FSST half of the property is therefore stated for an abstract greedy encoder with a sound matcher
(`fsst_greedy_roundtrip`); that the real matcher is sound is covered by the correspondence run only
(the real compressor's output is decoded by this model and must reproduce the input).
-/
namespace LanceModel.C28

/-! ## Bit-packing -/

/-- the transposed layout is a permutation of the block: `index` maps the `T × LANES` (row, lane) grid one-to-one
onto `[0, 1024)` for each of the four lane types -/
theorem index_bijective {T : Nat} (hT : ValidT T) :
    (∀ row lane, row < T → lane < lanes T → index row lane < 1024) ∧
    (∀ row lane row' lane', row < T → lane < lanes T → row' < T → lane' < lanes T →
      index row lane = index row' lane' → row = row' ∧ lane = lane') ∧
    (∀ idx, idx < 1024 → ∃ row lane, row < T ∧ lane < lanes T ∧ index row lane = idx) :=
  ⟨fun _ _ hr hl => index_lt hT hr hl,
   fun _ _ _ _ hr hl hr' hl' h => index_inj hT hr hl hr' hl' h,
   fun _ h => index_surj hT h⟩

example : ValidT 32 ∧ index 9 5 = 64 + 128 + 5 := by decide

/-- when the kernels are defined: `unchecked_pack` / `unchecked_unpack` panic exactly when the width exceeds the
lane type or (for a non-zero width) a slice is shorter than the block / packed size -/
theorem pack_defined_iff (T w : Nat) (xs out : Array Nat) :
    (pack T w xs out).isSome ↔ w ≤ T ∧ (w = 0 ∨ (1024 ≤ xs.size ∧ 1024 * w / T ≤ out.size)) := by
  unfold pack
  by_cases h1 : w > T
  · simp [h1]; omega
  · by_cases h2 : w = 0
    · simp [h2]
    · by_cases h3 : xs.size < 1024 ∨ out.size < 1024 * w / T
      · simp [h1, h2, h3]; omega
      · simp [h1, h2, h3]; omega

theorem unpack_defined_iff (T w : Nat) (packed out : Array Nat) :
    (unpack T w packed out).isSome ↔ w ≤ T ∧ (w = 0 ∨ (1024 * w / T ≤ packed.size ∧ 1024 ≤ out.size)) := by
  unfold unpack
  by_cases h1 : w > T
  · simp [h1]; omega
  · by_cases h2 : w = 0
    · simp [h2]
    · by_cases h3 : packed.size < 1024 * w / T ∨ out.size < 1024
      · simp [h1, h2, h3]; omega
      · simp [h1, h2, h3]; omega

example : (pack 8 9 (Array.replicate 1024 0) (Array.replicate 1152 0)).isSome = false := by
  simp [pack]

/-- the packed layout as index arithmetic: bit `j` of `output[LANES * k + lane]` is bit `(k*T + j) % w` of
`input[index((k*T + j) / w, lane)]`; the output keeps its size; whatever the output buffer held before. -/
theorem pack_bits {T w : Nat} (hT : ValidT T) (hw : 0 < w) (hwT : w ≤ T) (xs out : Array Nat)
    (hxs : 1024 ≤ xs.size) (hval : ∀ i, xs.getD i 0 < 2 ^ T) (hout : 1024 * w / T ≤ out.size) :
    ∃ p, pack T w xs out = some p ∧ p.size = out.size ∧
      ∀ k lane j, k < w → lane < lanes T →
        (p.getD (lanes T * k + lane) 0).testBit j =
          (decide (j < T) && (xs.getD (index ((k * T + j) / w) lane) 0).testBit ((k * T + j) % w)) := by
  refine ⟨scatter (packWrites T w xs) out, ?_, size_scatter _ _, ?_⟩
  · unfold pack
    rw [if_neg (by omega), if_neg (by omega), if_neg (by omega)]
  · intro k lane j hk hl
    rw [lanes_mul hT] at hout
    exact pack_cell hT hw hwT xs out hval hout hk hl j

example : ValidT 16 ∧ 0 < 5 ∧ 5 ≤ 16 ∧ 1024 ≤ (Array.replicate 1024 21).size ∧
    (∀ i, (Array.replicate 1024 21).getD i 0 < 2 ^ 16) ∧ 1024 * 5 / 16 ≤ (Array.replicate 320 0).size := by
  refine ⟨by decide, by decide, by decide, by simp, ?_, by simp⟩
  intro i
  by_cases h : i < 1024 <;> simp [Array.getD_eq_getD_getElem?, h]

/-- a lane of `u8` packed to 3 bits, executed: rows 0..7 with values 0..7 give the stream `0,1,…,7` in 3 bytes -/
example : packLane 8 3 (fun r => r) = [(0, 136), (1, 198), (2, 250)] ∧
    unpackLane 8 3 (fun k => [136, 198, 250].getD k 0) = (List.range' 0 8).map (fun r => (r, r)) := by decide

/-- **round trip, every lane type, every width, every block**: `unchecked_unpack(w, unchecked_pack(w, xs))`
returns every value reduced modulo `2^w` — i.e. the kernels keep exactly the low `w` bits of each value
(the `& mask` in `pack!`; for `w = T` nothing is masked and `x % 2^T = x`). -/
theorem unpack_pack {T w : Nat} (hT : ValidT T) (hwT : w ≤ T) (xs out0 out1 : Array Nat)
    (hxs : xs.size = 1024) (hval : ∀ i, xs.getD i 0 < 2 ^ T)
    (hout0 : out0.size = 1024 * w / T) (hout1 : out1.size = 1024) :
    ∃ p, pack T w xs out0 = some p ∧ unpack T w p out1 = some (xs.map (· % 2 ^ w)) := by
  by_cases hw : w = 0
  · subst hw
    refine ⟨out0, by simp [pack], ?_⟩
    unfold unpack
    rw [if_neg (by omega), if_pos rfl]
    congr 1
    apply Array.ext
    · simp [hout1, hxs]
    · intro i h1 h2
      simp [Nat.mod_one]
  · have hw' : 0 < w := by omega
    obtain ⟨p, hp, hps, hbits⟩ := pack_bits hT hw' hwT xs out0 (by omega) hval (by omega)
    refine ⟨p, hp, ?_⟩
    unfold unpack
    rw [if_neg (by omega), if_neg hw, if_neg (by omega)]
    congr 1
    apply array_ext_getD
    · rw [size_scatter, Array.size_map]; omega
    · intro i hi
      rw [size_scatter, hout1] at hi
      obtain ⟨row, lane, hr, hl, rfl⟩ := index_surj hT hi
      have := unpack_cell hT hw' hwT p out1 (fun lane row => xs.getD (index row lane) 0)
        (fun lane hl k hk j => hbits k lane j hk hl) (by omega) hr hl
      rw [this]
      have hlt : index row lane < xs.size := by omega
      simp [Array.getD_eq_getD_getElem?, hlt]

example : ValidT 64 ∧ 64 ≤ 64 ∧ (Array.replicate 1024 (2 ^ 64 - 1)).size = 1024 ∧
    (Array.replicate (1024 * 64 / 64) 0).size = 1024 * 64 / 64 := by
  refine ⟨by decide, by decide, by simp, by simp⟩

/-- the property for the bit-packing kernels: values that fit in `w` bits come back unchanged -/
def C28_bitpacking_full : Prop :=
  ∀ (T w : Nat) (xs out0 out1 : Array Nat), ValidT T → w ≤ T → xs.size = 1024 →
    (∀ i, xs.getD i 0 < 2 ^ w) → out0.size = 1024 * w / T → out1.size = 1024 →
    ∃ p, pack T w xs out0 = some p ∧ unpack T w p out1 = some xs

theorem C28_bitpacking : C28_bitpacking_full := by
  intro T w xs out0 out1 hT hwT hxs hval hout0 hout1
  have hvalT : ∀ i, xs.getD i 0 < 2 ^ T := fun i =>
    Nat.lt_of_lt_of_le (hval i) (Nat.pow_le_pow_right (by omega) hwT)
  obtain ⟨p, hp, hu⟩ := unpack_pack hT hwT xs out0 out1 hxs hvalT hout0 hout1
  refine ⟨p, hp, ?_⟩
  rw [hu]
  congr 1
  apply Array.ext
  · simp
  · intro i h1 h2
    have := hval i
    have hi : i < xs.size := by simpa using h1
    simp only [Array.getD_eq_getD_getElem?, Array.getElem?_eq_getElem hi, Option.getD_some] at this
    simp [Nat.mod_eq_of_lt this]

/-- "values are masked to `w` bits otherwise": for `0 < w < T` the packed words depend only on the low `w` bits of
every input value (`pack!` reads the input through `src & mask`); for `w = T` nothing is masked -/
theorem pack_low_bits_only {T w : Nat} (hw : 0 < w) (hwT : w < T) (xs xs' out : Array Nat)
    (hs : xs.size = xs'.size) (h : ∀ i, xs.getD i 0 % 2 ^ w = xs'.getD i 0 % 2 ^ w) :
    pack T w xs out = pack T w xs' out := by
  unfold pack
  rw [packWrites_low_bits hw hwT xs xs' h, hs]

example : (∀ i, (Array.replicate 1024 13).getD i 0 % 2 ^ 3 = (Array.replicate 1024 5).getD i 0 % 2 ^ 3) := by
  intro i
  by_cases h : i < 1024 <;> simp [Array.getD_eq_getD_getElem?, h]

/-- `unchecked_unpack` writes only the 1024 cells of the block: a longer output slice keeps its tail -/
theorem unpack_frame {T w : Nat} (hT : ValidT T) (hw : 0 < w) (hwT : w ≤ T) (packed out : Array Nat)
    (hp : 1024 * w / T ≤ packed.size) (hout : 1024 ≤ out.size) :
    ∃ r, unpack T w packed out = some r ∧ r.size = out.size ∧ ∀ i, 1024 ≤ i → r.getD i 0 = out.getD i 0 := by
  refine ⟨scatter (unpackWrites T w packed) out, ?_, size_scatter _ _, ?_⟩
  · unfold unpack
    rw [if_neg (by omega), if_neg (by omega), if_neg (by omega)]
  · intro i hi
    exact unpack_cell_outside hT hw hwT packed out hi

/-! ## FSST -/
open Fsst

/-- the 4-byte block decoder of `decompress_bulk` (escape mask, 2–3 byte tail, final code) computes the
one-code-at-a-time reference decoding on every code stream that does not end inside an escape, whatever follows
the string in the buffer -/
theorem fsst_block_decoder_eq_reference (t : Tbl) (after cs : List Nat) (h : clean cs = true) :
    decBlocks t after cs = some (decSeq t cs) :=
  decBlocks_eq t after cs h

example : clean [3, ESC, 7, 1, 2, ESC, ESC] = true ∧ clean [3, ESC] = false := by
  refine ⟨?_, ?_⟩
  · rw [clean_ne (by decide), clean_esc, clean_ne (by decide), clean_ne (by decide), clean_esc, clean]
  · rw [clean_ne (by decide), clean_esc_last]

/-- `decode tbl (encodeTokens toks) = expand tbl toks` for every symbol table and every token list
(codes and escaped literals) -/
theorem fsst_decode_tokens (t : Tbl) (after : List Nat) (toks : List Tok) (h : ∀ tk ∈ toks, TokOk tk) :
    decBlocks t after (encodeTokens toks) = some (expand t toks) := by
  rw [decBlocks_eq t after _ (clean_encode toks h), decSeq_encode t toks h]

example : ∀ tk ∈ [Tok.sym 0, Tok.esc 255, Tok.sym 254, Tok.esc 0], TokOk tk := by
  intro tk h
  simp only [List.mem_cons, List.not_mem_nil, or_false] at h
  rcases h with rfl | rfl | rfl | rfl <;> simp [TokOk, ESC]

/-- the FSST half of the property for the abstract encoder: any greedy encoder whose matcher only ever picks a
non-escape code whose symbol is a non-empty prefix of the remaining input round-trips through the decoder -/
theorem fsst_greedy_roundtrip (pick : List Nat → Option Nat) (t : Tbl)
    (hp : ∀ s c, pick s = some c → c ≠ ESC ∧ t.sym c ≠ [] ∧ t.sym c <+: s) (after s : List Nat) :
    decBlocks t after (encodeTokens (greedy pick t s.length s)) = some s := by
  obtain ⟨h1, h2⟩ := greedy_sound pick t hp s.length s (Nat.le_refl _)
  rw [fsst_decode_tokens t after _ h1, h2]

/-- a sound matcher exists for every table (never matching is sound: everything is escaped) -/
example (t : Tbl) : ∀ s c, (fun _ : List Nat => (none : Option Nat)) s = some c →
    c ≠ ESC ∧ t.sym c ≠ [] ∧ t.sym c <+: s := by
  intro s c h; cases h

/-- the encoder-side invariant the decoder relies on.  `compress_bulk` runs the matcher on a window that continues
past the string: the rest of the chunk, then the terminator byte as a sentinel, then left-over buffer bytes.  If no
symbol of two or more bytes contains the terminator (`Tbl.termFree`, what `make_table` must guarantee), a matcher that is
sound *for the window* (its symbol is a non-empty prefix of the window — what the hash / short-code comparison checks)
never consumes the sentinel, and the greedy encoder round-trips through the decoder for every string and every junk. -/
theorem fsst_greedy_sentinel_roundtrip (pick : List Nat → Option Nat) (t : Tbl)
    (hp : ∀ win c, pick win = some c → c ≠ ESC ∧ t.sym c ≠ [] ∧ t.sym c <+: win)
    (hinv : t.termFree = true) (junk after s : List Nat) :
    decBlocks t after (encodeTokens (greedy (windowed pick t.term junk) t s.length s)) = some s :=
  fsst_greedy_roundtrip (windowed pick t.term junk) t
    (windowed_sound pick t junk hp (termFree_sym t hinv)) after s

/-- without the invariant the statement fails: with the symbol `[7, 0]` and terminator `0`, the string `[7]` is
encoded as that symbol (the window is `7, 0, …`) and expands to `[7, 0]` — a spurious trailing terminator byte -/
theorem fsst_sentinel_invariant_needed :
    ∃ (pick : List Nat → Option Nat) (t : Tbl),
      (∀ win c, pick win = some c → c ≠ ESC ∧ t.sym c ≠ [] ∧ t.sym c <+: win) ∧ t.termFree = false ∧
      expand t (greedy (windowed pick t.term []) t 1 [7]) = [7, 0] := by
  refine ⟨fun win => if [7, 0] <+: win then some 0 else none,
    { switch := true, syms := #[[7, 0]], term := 0 }, ?_, by decide, by decide⟩
  intro win c h
  by_cases hw : [7, 0] <+: win
  · simp only [hw, if_true, Option.some.injEq] at h
    subst h
    exact ⟨by decide, by decide, hw⟩
  · simp [hw] at h

example : ({ switch := true, syms := #[[1, 2, 3], [0], [9, 9]], term := 0 } : Tbl).termFree = true := by decide

theorem mapM_some {α β : Type} (f : α → Option β) (g : α → β) : ∀ l : List α,
    (∀ a ∈ l, f a = some (g a)) → l.mapM f = some (l.map g) := by
  intro l
  induction l with
  | nil => intro _; rfl
  | cons a r ih =>
    intro h
    rw [List.mapM_cons, h a (List.mem_cons_self ..), ih (fun x hx => h x (List.mem_cons_of_mem _ hx))]
    rfl

/-- `FsstDecoder::decompress` on a whole array: with the switch on, monotone in-range offsets and clean code
streams it succeeds, every string is the reference decoding of its code region and the output offsets are the
running lengths starting at 0; with the switch off values and offsets are returned unchanged. -/
theorem fsst_decompress_exact (t : Tbl) (buf offs : List Nat) :
    (t.switch = false → decompress t buf offs = .ok (buf, offs)) ∧
    (t.switch = true → offs ≠ [] → ∀ rs, regions buf offs = some rs → (∀ r ∈ rs, clean r.1 = true) →
      decompress t buf offs =
        .ok ((rs.map (fun r => decSeq t r.1)).flatten, offsetsOf 0 (rs.map (fun r => decSeq t r.1)))) := by
  refine ⟨?_, ?_⟩
  · intro h; simp [decompress, h]
  · intro h ho rs hrs hc
    unfold decompress
    rw [if_neg (by simp [h]), if_neg ho, hrs]
    simp only
    rw [mapM_some (fun r => decBlocks t r.2 r.1) (fun r => decSeq t r.1) rs
      (fun r hr => decBlocks_eq t r.2 r.1 (hc r hr))]

example : regions [1, 2, 3, 4] [0, 1, 1, 4] = some [([1], [2, 3, 4]), ([], [2, 3, 4]), ([2, 3, 4], [])] := by
  decide

/-- below `FSST_LEAST_INPUT_SIZE` the compressor writes the header of an empty table with the switch off and copies
values and offsets; the decoder accepts that header and returns the copy: "exact" in copy mode -/
theorem fsst_copy_mode_exact (buf offs : List Nat) : decompressApi copyHeader buf offs = .ok (buf, offs) := by
  have : (parseTable copyHeader).toOption.map (fun t => (t.switch, t.syms.size)) = some (false, 0) := by
    decide +kernel
  unfold decompressApi
  cases hpt : parseTable copyHeader with
  | error e => rw [hpt] at this; cases this
  | ok t =>
    rw [hpt] at this
    simp only [Except.toOption, Option.map_some, Option.some.injEq, Prod.mk.injEq] at this
    exact (fsst_decompress_exact t buf offs).1 this.1

end LanceModel.C28
