import LanceModel.C28.BitLemmas
/-!
Block-level lemmas: the transposed index map is a bijection `(row, lane) ↔ [0, 1024)`, indexed stores,
and the assembly of the lane lemmas into statements about `pack` / `unpack` on 1024-element blocks.
-/
namespace LanceModel.C28

/-- the four lane types `u8, u16, u32, u64` -/
def ValidT (T : Nat) : Prop := T = 8 ∨ T = 16 ∨ T = 32 ∨ T = 64

instance (T : Nat) : Decidable (ValidT T) := by unfold ValidT; infer_instance

/-! ## the index map -/

/-- `FL_ORDER` (bit reversal of three bits) is its own inverse -/
theorem flOrder_invol (o : Nat) (h : o < 8) : flOrder (flOrder o) = o := by
  have : o = 0 ∨ o = 1 ∨ o = 2 ∨ o = 3 ∨ o = 4 ∨ o = 5 ∨ o = 6 ∨ o = 7 := by omega
  rcases this with rfl | rfl | rfl | rfl | rfl | rfl | rfl | rfl <;> rfl

theorem lanes_mul {T : Nat} (hT : ValidT T) (w : Nat) : 1024 * w / T = lanes T * w := by
  rcases hT with rfl | rfl | rfl | rfl <;> simp only [lanes] <;> omega

theorem lanes_pos {T : Nat} (hT : ValidT T) : 0 < lanes T := by
  rcases hT with rfl | rfl | rfl | rfl <;> simp [lanes]

/-- the components of a cell index: it stays inside the block, and the `FL_ORDER` entry, `row % 8` and the lane
can be read off it -/
theorem index_parts {T row lane : Nat} (hT : ValidT T) (hr : row < T) (hl : lane < lanes T) :
    index row lane < 1024 ∧ index row lane % 128 / lanes T * (64 / T) = flOrder (row / 8) ∧
      index row lane / 128 = row % 8 ∧ index row lane % lanes T = lane := by
  have ho : row / 8 = 0 ∨ row / 8 = 1 ∨ row / 8 = 2 ∨ row / 8 = 3 ∨ row / 8 = 4 ∨ row / 8 = 5 ∨
      row / 8 = 6 ∨ row / 8 = 7 := by rcases hT with rfl | rfl | rfl | rfl <;> omega
  unfold index
  rcases hT with rfl | rfl | rfl | rfl <;> simp only [lanes] at hl ⊢ <;>
    rcases ho with e | e | e | e | e | e | e | e <;> rw [e] <;> simp only [flOrder] <;> omega

theorem index_lt {T row lane : Nat} (hT : ValidT T) (hr : row < T) (hl : lane < lanes T) :
    index row lane < 1024 := (index_parts hT hr hl).1

/-- the inverse of `index` for the lane type of `T` bits -/
def unindex (T idx : Nat) : Nat × Nat :=
  (8 * flOrder (idx % 128 / lanes T * (64 / T)) + idx / 128, idx % lanes T)

theorem unindex_index {T row lane : Nat} (hT : ValidT T) (hr : row < T) (hl : lane < lanes T) :
    unindex T (index row lane) = (row, lane) := by
  obtain ⟨_, h1, h2, h3⟩ := index_parts hT hr hl
  unfold unindex
  rw [h1, h2, h3, flOrder_invol _ (by rcases hT with rfl | rfl | rfl | rfl <;> omega)]
  congr 1
  omega

theorem index_inj {T row lane row' lane' : Nat} (hT : ValidT T) (hr : row < T) (hl : lane < lanes T)
    (hr' : row' < T) (hl' : lane' < lanes T) (h : index row lane = index row' lane') :
    row = row' ∧ lane = lane' := by
  have := congrArg (unindex T) h
  rw [unindex_index hT hr hl, unindex_index hT hr' hl'] at this
  exact ⟨congrArg Prod.fst this, congrArg Prod.snd this⟩

theorem index_mk (c s lane : Nat) (hs : s < 8) : index (8 * c + s) lane = flOrder c * 16 + s * 128 + lane := by
  unfold index
  have h1 : (8 * c + s) / 8 = c := by omega
  have h2 : (8 * c + s) % 8 = s := by omega
  rw [h1, h2]

theorem index_surj {T idx : Nat} (hT : ValidT T) (h : idx < 1024) :
    ∃ row lane, row < T ∧ lane < lanes T ∧ index row lane = idx := by
  refine ⟨(unindex T idx).1, (unindex T idx).2, ?_⟩
  unfold unindex
  simp only
  rw [index_mk _ _ _ (by omega)]
  rcases hT with rfl | rfl | rfl | rfl <;> simp only [lanes]
  · have : idx % 128 / (1024 / 8) * (64 / 8) = 0 := by omega
    rw [this]; simp only [flOrder]; omega
  · have : idx % 128 / (1024 / 16) * (64 / 16) = 0 ∨ idx % 128 / (1024 / 16) * (64 / 16) = 4 := by omega
    rcases this with e | e <;> rw [e] <;> simp only [flOrder] <;> omega
  · have : idx % 128 / (1024 / 32) * (64 / 32) = 0 ∨ idx % 128 / (1024 / 32) * (64 / 32) = 2 ∨
        idx % 128 / (1024 / 32) * (64 / 32) = 4 ∨ idx % 128 / (1024 / 32) * (64 / 32) = 6 := by omega
    rcases this with e | e | e | e <;> rw [e] <;> simp only [flOrder] <;> omega
  · have : idx % 128 / (1024 / 64) * (64 / 64) = 0 ∨ idx % 128 / (1024 / 64) * (64 / 64) = 1 ∨
        idx % 128 / (1024 / 64) * (64 / 64) = 2 ∨ idx % 128 / (1024 / 64) * (64 / 64) = 3 ∨
        idx % 128 / (1024 / 64) * (64 / 64) = 4 ∨ idx % 128 / (1024 / 64) * (64 / 64) = 5 ∨
        idx % 128 / (1024 / 64) * (64 / 64) = 6 ∨ idx % 128 / (1024 / 64) * (64 / 64) = 7 := by omega
    rcases this with e | e | e | e | e | e | e | e <;> rw [e] <;> simp only [flOrder] <;> omega

/-! ## indexed stores -/

theorem getD_setIfInBounds (a : Array Nat) (i x j : Nat) :
    (a.setIfInBounds i x).getD j 0 = if i = j ∧ i < a.size then x else a.getD j 0 := by
  simp only [Array.getD_eq_getD_getElem?, Array.getElem?_setIfInBounds]
  by_cases h : i = j
  · subst h
    by_cases h2 : i < a.size
    · simp [h2]
    · simp [h2, Array.getElem?_eq_none (Nat.le_of_not_lt h2)]
  · simp [h]

theorem size_scatter (ws : List (Nat × Nat)) : ∀ a : Array Nat, (scatter ws a).size = a.size := by
  induction ws with
  | nil => intro a; rfl
  | cons p t ih => intro a; simp only [scatter, List.foldl_cons] at *; rw [ih]; exact Array.size_setIfInBounds

/-- what a cell holds after a sequence of stores, when all stores to the cell carry the same value -/
theorem scatter_getD (ws : List (Nat × Nat)) : ∀ (a : Array Nat) (i v : Nat),
    (∀ p ∈ ws, p.1 = i → p.2 = v) →
    ((∃ p ∈ ws, p.1 = i) ∧ i < a.size ∨ a.getD i 0 = v) →
    (scatter ws a).getD i 0 = v := by
  induction ws with
  | nil =>
    intro a i v _ h
    rcases h with ⟨⟨p, hp, _⟩, _⟩ | h
    · cases hp
    · exact h
  | cons p t ih =>
    intro a i v hc h
    simp only [scatter, List.foldl_cons]
    apply ih (a.setIfInBounds p.1 p.2) i v (fun q hq => hc q (List.mem_cons_of_mem _ hq))
    by_cases hpi : p.1 = i
    · rcases h with ⟨_, hi⟩ | h
      · right
        rw [getD_setIfInBounds, if_pos ⟨hpi, by omega⟩]
        exact hc p (List.mem_cons_self ..) hpi
      · by_cases hi : i < a.size
        · right
          rw [getD_setIfInBounds, if_pos ⟨hpi, by omega⟩]
          exact hc p (List.mem_cons_self ..) hpi
        · right
          rw [getD_setIfInBounds, if_neg (by omega)]
          exact h
    · rcases h with ⟨⟨q, hq, hqi⟩, hi⟩ | h
      · rcases List.mem_cons.mp hq with rfl | hq
        · exact absurd hqi hpi
        · left; exact ⟨⟨q, hq, hqi⟩, by rw [Array.size_setIfInBounds]; exact hi⟩
      · right
        rw [getD_setIfInBounds, if_neg (fun c => hpi c.1)]
        exact h

theorem scatter_getD_untouched (ws : List (Nat × Nat)) (a : Array Nat) (i : Nat)
    (h : ∀ p ∈ ws, p.1 ≠ i) : (scatter ws a).getD i 0 = a.getD i 0 :=
  scatter_getD ws a i _ (fun p hp e => absurd e (h p hp)) (Or.inr rfl)

theorem array_ext_getD {a b : Array Nat} (hs : a.size = b.size)
    (h : ∀ i, i < a.size → a.getD i 0 = b.getD i 0) : a = b := by
  apply Array.ext hs
  intro i h1 h2
  have := h i h1
  simp only [Array.getD_eq_getD_getElem?, Array.getElem?_eq_getElem h1, Array.getElem?_eq_getElem h2,
    Option.getD_some] at this
  exact this

/-! ## one lane -/

/-- the words a lane writes: exactly the word indices `0 … w-1`, word `k` holds stream bits `[k*T, (k+1)*T)` -/
theorem packLane_spec {T w : Nat} (src : Nat → Nat) (hw : 0 < w) (hwT : w ≤ T)
    (hsrc : ∀ r, src r < 2 ^ T) :
    (∀ p ∈ packLane T w src, ∀ j, p.2.testBit j = (decide (j < T) && srcBit w src (p.1 * T + j))) ∧
    (packLane T w src).map Prod.fst = List.range' 0 w := by
  unfold packLane
  rw [if_neg (by omega)]
  by_cases hT : w = T
  · subst hT
    rw [if_pos rfl]
    refine ⟨?_, ?_⟩
    · intro p hp j
      obtain ⟨row, _, rfl⟩ := List.mem_map.mp hp
      simp only
      by_cases hj : j < w
      · have : srcBit w src (row * w + j) = (src row).testBit j := srcBit_at src rfl hj
        simp [hj, this]
      · have : (src row).testBit j = false :=
          Nat.testBit_lt_two_pow (Nat.lt_of_lt_of_le (hsrc row) (Nat.pow_le_pow_right (by omega) (by omega)))
        simp [hj, this]
    · rw [List.map_map]
      have : (Prod.fst ∘ fun row => (row, src row)) = id := by funext r; rfl
      rw [this, List.map_id]
  · rw [if_neg hT]
    have := packRows_spec src hw (by omega : w < T) T 0 0 0 0 (by simp) (by omega)
      (by intro j; simp)
    refine ⟨this.1, ?_⟩
    rw [this.2]
    have : (0 + T) * w / T - 0 = w := by
      rw [Nat.zero_add, Nat.sub_zero, Nat.mul_div_cancel_left _ (by omega : 0 < T)]
    rw [this]

/-- the values a lane reads back from words that hold its bit stream -/
theorem unpackLane_spec {T w : Nat} (src P : Nat → Nat) (hw : 0 < w) (hwT : w ≤ T)
    (hP : ∀ k, k < w → ∀ j, (P k).testBit j = (decide (j < T) && srcBit w src (k * T + j))) :
    unpackLane T w P = (List.range' 0 T).map (fun r => (r, src r % 2 ^ w)) := by
  unfold unpackLane
  rw [if_neg (by omega)]
  by_cases hT : w = T
  · subst hT
    rw [if_pos rfl]
    apply List.map_congr_left
    intro r hr
    have hr' : r < w := by have := List.mem_range'_1.mp hr; omega
    congr 1
    apply Nat.eq_of_testBit_eq
    intro j
    rw [hP r hr', Nat.testBit_mod_two_pow]
    by_cases hj : j < w
    · have : srcBit w src (r * w + j) = (src r).testBit j := srcBit_at src rfl hj
      simp [hj, this]
    · simp [hj]
  · rw [if_neg hT]
    exact unpackRows_spec src P hw (by omega) hP T 0 0 0 (P 0) (by omega) (by simp) (by omega) (fun _ => rfl)

/-! ## whole blocks -/

theorem lane_cell {L k lane k' lane' : Nat} (hl : lane < L) (hl' : lane' < L)
    (h : L * k' + lane' = L * k + lane) : k' = k ∧ lane' = lane := by
  have h1 := divmod_unique (a := L * k + lane) (q := k) (T := L) (s := lane) (by rw [Nat.mul_comm]) hl
  have h2 := divmod_unique (a := L * k + lane) (q := k') (T := L) (s := lane') (by rw [← h, Nat.mul_comm]) hl'
  omega

/-- the packed word `k` of lane `lane` holds the lane's stream bits `[k*T, (k+1)*T)`:
bit `j` of `output[LANES*k + lane]` is bit `(k*T+j) % w` of `input[index((k*T+j) / w, lane)]` -/
theorem pack_cell {T w : Nat} (hT : ValidT T) (hw : 0 < w) (hwT : w ≤ T) (xs out : Array Nat)
    (hxs : ∀ i, xs.getD i 0 < 2 ^ T) (hout : lanes T * w ≤ out.size)
    {k lane : Nat} (hk : k < w) (hl : lane < lanes T) (j : Nat) :
    ((scatter (packWrites T w xs) out).getD (lanes T * k + lane) 0).testBit j =
      (decide (j < T) && srcBit w (fun row => xs.getD (index row lane) 0) (k * T + j)) := by
  have spec := fun lane => packLane_spec (T := T) (w := w) (fun row => xs.getD (index row lane) 0) hw hwT
    (fun r => hxs _)
  -- the store of this lane to word k
  have hmem : k ∈ (packLane T w (fun row => xs.getD (index row lane) 0)).map Prod.fst := by
    rw [(spec lane).2]; exact List.mem_range'_1.mpr (by omega)
  obtain ⟨p, hp, hpk⟩ := List.mem_map.mp hmem
  have hidx : lanes T * k + lane < out.size := by
    have : lanes T * (k + 1) ≤ lanes T * w := Nat.mul_le_mul_left _ (by omega)
    rw [Nat.mul_succ] at this
    omega
  have hv : (scatter (packWrites T w xs) out).getD (lanes T * k + lane) 0 = p.2 := by
    apply scatter_getD
    · intro p' hp' he
      obtain ⟨lane', hl', hp'⟩ := List.mem_flatMap.mp hp'
      obtain ⟨p'', hp'', rfl⟩ := List.mem_map.mp hp'
      have hl'' : lane' < lanes T := by have := List.mem_range'_1.mp hl'; omega
      obtain ⟨e1, e2⟩ := lane_cell hl hl'' he
      subst e2
      apply Nat.eq_of_testBit_eq
      intro j
      simp only
      rw [(spec lane').1 p'' hp'' j, (spec lane').1 p hp j, e1, hpk]
    · left
      refine ⟨⟨(lanes T * p.1 + lane, p.2), ?_, by simp [hpk]⟩, hidx⟩
      apply List.mem_flatMap.mpr
      exact ⟨lane, List.mem_range'_1.mpr (by omega), List.mem_map.mpr ⟨p, hp, rfl⟩⟩
  rw [hv, (spec lane).1 p hp j, hpk]

/-- every cell of the unpacked block: `output[index(row, lane)]` is row `row` of the lane, masked to `w` bits -/
theorem unpack_cell {T w : Nat} (hT : ValidT T) (hw : 0 < w) (hwT : w ≤ T) (packed out : Array Nat)
    (src : Nat → Nat → Nat)
    (hP : ∀ lane, lane < lanes T → ∀ k, k < w → ∀ j,
      (packed.getD (lanes T * k + lane) 0).testBit j = (decide (j < T) && srcBit w (src lane) (k * T + j)))
    (hout : 1024 ≤ out.size) {row lane : Nat} (hr : row < T) (hl : lane < lanes T) :
    (scatter (unpackWrites T w packed) out).getD (index row lane) 0 = src lane row % 2 ^ w := by
  have spec := fun lane (hl : lane < lanes T) =>
    unpackLane_spec (T := T) (w := w) (src lane) (fun k => packed.getD (lanes T * k + lane) 0) hw hwT (hP lane hl)
  apply scatter_getD
  · intro p' hp' he
    obtain ⟨lane', hl', hp'⟩ := List.mem_flatMap.mp hp'
    obtain ⟨p'', hp'', rfl⟩ := List.mem_map.mp hp'
    have hl'' : lane' < lanes T := by have := List.mem_range'_1.mp hl'; omega
    rw [spec lane' hl''] at hp''
    obtain ⟨r', hr', rfl⟩ := List.mem_map.mp hp''
    have hr'' : r' < T := by have := List.mem_range'_1.mp hr'; omega
    obtain ⟨e1, e2⟩ := index_inj hT hr'' hl'' hr hl he
    subst e1; subst e2; rfl
  · left
    refine ⟨⟨(index row lane, src lane row % 2 ^ w), ?_, rfl⟩, ?_⟩
    · apply List.mem_flatMap.mpr
      refine ⟨lane, List.mem_range'_1.mpr (by omega), List.mem_map.mpr ⟨(row, src lane row % 2 ^ w), ?_, rfl⟩⟩
      rw [spec lane hl]
      exact List.mem_map.mpr ⟨row, List.mem_range'_1.mpr (by omega), rfl⟩
    · have := index_lt hT hr hl; omega

/-- cells outside the block are untouched by `unpack` -/
theorem unpack_cell_outside {T w : Nat} (hT : ValidT T) (hw : 0 < w) (hwT : w ≤ T) (packed out : Array Nat)
    {i : Nat} (hi : 1024 ≤ i) : (scatter (unpackWrites T w packed) out).getD i 0 = out.getD i 0 := by
  apply scatter_getD_untouched
  intro p' hp' he
  obtain ⟨lane', hl', hp'⟩ := List.mem_flatMap.mp hp'
  obtain ⟨p'', hp'', rfl⟩ := List.mem_map.mp hp'
  have hl'' : lane' < lanes T := by have := List.mem_range'_1.mp hl'; omega
  have hrow : p''.1 < T := by
    unfold unpackLane at hp''
    rw [if_neg (by omega)] at hp''
    by_cases hTw : w = T
    · rw [if_pos hTw] at hp''
      obtain ⟨r, hr, rfl⟩ := List.mem_map.mp hp''
      have := List.mem_range'_1.mp hr; simp only; omega
    · rw [if_neg hTw] at hp''
      have key : ∀ n row cur, ∀ q ∈ unpackRows T w (fun k => packed.getD (lanes T * k + lane') 0) n row cur,
          row ≤ q.1 ∧ q.1 < row + n := by
        intro n
        induction n with
        | zero => intro row cur q hq; simp [unpackRows] at hq
        | succ n ih =>
          intro row cur q hq
          rw [unpackRows] at hq
          rcases List.mem_cons.mp hq with rfl | hq
          · simp only; omega
          · have := ih _ _ q hq; omega
      have := key _ _ _ _ hp''; omega
  have := index_lt hT hrow hl''
  simp only at he
  omega

end LanceModel.C28
