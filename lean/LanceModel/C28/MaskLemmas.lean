import LanceModel.C28.Model
/-!
`pack!` reads its input only through `src & mask`: bits at or above the width never reach the output.
-/
namespace LanceModel.C28

theorem packSrc_eq_mod (w : Nat) (src : Nat → Nat) (row : Nat) : packSrc w src row = src row % 2 ^ w := by
  unfold packSrc wmask
  exact Nat.and_two_pow_sub_one_eq_mod _ _

theorem packRows_congr (T w : Nat) (src src' : Nat → Nat) (h : ∀ r, packSrc w src r = packSrc w src' r) :
    ∀ n row tmp, packRows T w src n row tmp = packRows T w src' n row tmp := by
  intro n
  induction n with
  | zero => intro row tmp; rfl
  | succ n ih =>
    intro row tmp
    have ht : packTmp T w src row tmp = packTmp T w src' row tmp := by
      unfold packTmp; rw [h row]
    rw [packRows, packRows, ht, h row, ih, ih]

theorem packWrites_low_bits {T w : Nat} (hw : 0 < w) (hwT : w < T) (xs xs' : Array Nat)
    (h : ∀ i, xs.getD i 0 % 2 ^ w = xs'.getD i 0 % 2 ^ w) : packWrites T w xs = packWrites T w xs' := by
  unfold packWrites
  congr 1
  funext lane
  congr 1
  unfold packLane
  rw [if_neg (by omega), if_neg (by omega), if_neg (by omega), if_neg (by omega)]
  apply packRows_congr
  intro r
  rw [packSrc_eq_mod, packSrc_eq_mod]
  exact h _

end LanceModel.C28
