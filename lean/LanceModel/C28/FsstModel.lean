/-!
# C28 — model of the FSST decoder and of the serialised format (rust/compression/fsst/src/fsst.rs)

Modelled: `FsstDecoder::init` (parsing of the symbol-table buffer), `FsstDecoder::decompress` /
`decompress_bulk` (the 4-byte block loop with the escape mask, the 2–3 byte tail, the final single code),
the copy mode used when the input is shorter than `FSST_LEAST_INPUT_SIZE`, and the header that
`FsstEncoder::export` writes in copy mode.  The symbol-table *training* and the greedy matcher of
`compress_bulk` are not modelled: the compressor's output is data for this model (see `greedy` for the
abstract encoder whose only assumption is that a chosen code's symbol is a prefix of the remaining input).

Bytes are `Nat` (< 256).  Import-free.
-/
namespace LanceModel.C28.Fsst

/-- `FSST_ESC` -/
def ESC : Nat := 255
/-- `FSST_SYMBOL_TABLE_SIZE = 8 + 256 * 8 + 256` -/
def SYMTAB_SIZE : Nat := 8 + 256 * 8 + 256
/-- `FSST_LEAST_INPUT_SIZE = 32 * 1024` -/
def LEAST_INPUT_SIZE : Nat := 32 * 1024
/-- the high 32 bits of `FSST_MAGIC = 0x46535354 << 32`, as the little-endian bytes 4..7 of the header -/
def MAGIC_BYTES : List Nat := [0x54, 0x53, 0x53, 0x46]

/-- the decoder's view of a symbol table: `switch` = `decoder_switch_on`, `syms[c]` = the first `lens[c]` bytes of
`symbols[c]` (little endian).  Codes `≥ syms.size` have `lens = 0` in the Rust decoder (`FsstDecoder::new`). -/
structure Tbl where
  switch : Bool
  syms : Array (List Nat)
  /-- header byte 1: `terminator & 255`, the byte `compress_bulk` writes behind every chunk as a sentinel -/
  term : Nat := 0

/-- bytes written for a code: `symbols[code]` truncated to `lens[code]` -/
def Tbl.sym (t : Tbl) (c : Nat) : List Nat := t.syms.getD c []

/-- the invariant of a finalized table that the encoder's sentinel relies on ("multi-byte symbols cannot contain the
terminator byte", `build_symbol_table::make_table`): every symbol of two or more bytes is free of the terminator -/
def Tbl.termFree (t : Tbl) : Bool := t.syms.toList.all (fun s => s.length < 2 || !s.contains t.term)

inductive Err where
  | panic          -- an index / slice panic in safe code
  | invalidData    -- io::ErrorKind::InvalidData (bad magic)
  | invalidInput   -- io::ErrorKind::InvalidInput (wrong symbol table size)
  | unsupported    -- outside the model (symbol length > 8, offsets not monotone / outside the buffer)
  deriving DecidableEq, Repr

def bytesAt (b : Array Nat) (pos n : Nat) : List Nat := (List.range' pos n).map (fun i => b.getD i 0)

/-- `FsstDecoder::init`: header = u64 little endian, `st_info & FSST_MAGIC == FSST_MAGIC`, exact buffer size,
bit 24 = switch, low byte = number of symbols; then `n` 8-byte symbols, then `n` length bytes.
(The output-buffer size checks of `init` are not modelled: the harness always passes the sizes lance-encoding uses.) -/
def parseTable (b : Array Nat) : Except Err Tbl :=
  if b.size < 8 then .error .panic
  else if ¬ (b.getD 4 0 &&& 0x54 = 0x54 ∧ b.getD 5 0 &&& 0x53 = 0x53 ∧ b.getD 6 0 &&& 0x53 = 0x53 ∧
      b.getD 7 0 &&& 0x46 = 0x46) then .error .invalidData
  else if b.size ≠ SYMTAB_SIZE then .error .invalidInput
  else
    let n := b.getD 0 0
    let lens := bytesAt b (8 + 8 * n) n
    if lens.any (· > 8) then .error .unsupported
    else .ok { switch := b.getD 3 0 % 2 = 1,
               term := b.getD 1 0,
               syms := ((List.range' 0 n).map (fun i => (bytesAt b (8 + 8 * i) 8).take (b.getD (8 + 8 * n + i) 0))).toArray }

/-- `decompress_bulk`, the part after the 4-byte loop ("handle the remaining bytes" + "last code cannot be an
escape code").  `after` = the bytes of the buffer that follow the string (an escape in the last position reads one). -/
def decTail (t : Tbl) (after : List Nat) : List Nat → Option (List Nat)
  | [] => some []
  | [a] => some (t.sym a)
  | [a, b] =>
    if a ≠ ESC then
      if b ≠ ESC then some (t.sym a ++ t.sym b)
      else match after with
        | l :: _ => some (t.sym a ++ [l])
        | [] => none
    else some [b]
  | [a, b, c] =>
    if a ≠ ESC then
      if b ≠ ESC then some (t.sym a ++ t.sym b ++ t.sym c) else some (t.sym a ++ [c])
    else some (b :: t.sym c)
  | _ => none

/-- `decompress_bulk`, the closure `decompress(in_curr, in_end, out_curr)` on one string: while 4 bytes remain,
find the first escape among them (`escape_mask.trailing_zeros() >> 3`), emit the codes before it and the escaped
literal; without an escape emit four symbols.  `none` = index panic (escape in the very last byte of the buffer). -/
def decBlocks (t : Tbl) (after : List Nat) (cs : List Nat) : Option (List Nat) :=
  match cs with
  | c0 :: c1 :: c2 :: c3 :: rest =>
    if c0 = ESC then (decBlocks t after (c2 :: c3 :: rest)).map (fun o => c1 :: o)
    else if c1 = ESC then (decBlocks t after (c3 :: rest)).map (fun o => t.sym c0 ++ c2 :: o)
    else if c2 = ESC then (decBlocks t after rest).map (fun o => t.sym c0 ++ t.sym c1 ++ c3 :: o)
    else if c3 = ESC then
      match rest with
      | l :: rest' => (decBlocks t after rest').map (fun o => t.sym c0 ++ t.sym c1 ++ t.sym c2 ++ l :: o)
      | [] =>
        match after with
        | l :: _ => some (t.sym c0 ++ t.sym c1 ++ t.sym c2 ++ [l])
        | [] => none
    else (decBlocks t after rest).map (fun o => t.sym c0 ++ t.sym c1 ++ t.sym c2 ++ t.sym c3 ++ o)
  | _ => decTail t after cs
termination_by cs.length

/-- the reference decoder: one code at a time, `ESC b` is the literal `b` -/
def decSeq (t : Tbl) (cs : List Nat) : List Nat :=
  match cs with
  | [] => []
  | [c] => t.sym c
  | c :: b :: rest => if c = ESC then b :: decSeq t rest else t.sym c ++ decSeq t (b :: rest)
termination_by cs.length

/-- a code stream in which no escape is the last byte of the string -/
def clean (cs : List Nat) : Bool :=
  match cs with
  | [] => true
  | [c] => c ≠ ESC
  | c :: b :: rest => if c = ESC then clean rest else clean (b :: rest)
termination_by cs.length

/-- the strings of a (values, offsets) pair: `(buf[o_i .. o_{i+1}], buf[o_{i+1} ..])`; `none` if not monotone / out of range -/
def regions (buf : List Nat) : List Nat → Option (List (List Nat × List Nat))
  | a :: b :: rest =>
    if a ≤ b ∧ b ≤ buf.length then
      (regions buf (b :: rest)).map (fun r => ((buf.drop a).take (b - a), buf.drop b) :: r)
    else none
  | _ => some []

/-- running offsets `0, |s₀|, |s₀|+|s₁|, …` -/
def offsetsOf (start : Nat) : List (List Nat) → List Nat
  | [] => [start]
  | s :: rest => start :: offsetsOf (start + s.length) rest

/-- `FsstDecoder::decompress`: copy mode returns values and offsets unchanged; otherwise every string is decoded,
`out_offsets[0] = 0`. -/
def decompress (t : Tbl) (buf : List Nat) (offs : List Nat) : Except Err (List Nat × List Nat) :=
  if ¬ t.switch then .ok (buf, offs)
  else if offs = [] then .error .panic
  else match regions buf offs with
    | none => .error .unsupported
    | some rs =>
      match rs.mapM (fun r => decBlocks t r.2 r.1) with
      | none => .error .panic
      | some strs => .ok (strs.flatten, offsetsOf 0 strs)

/-- `fsst::decompress(symbol_table, in_buf, in_offsets, …)` -/
def decompressApi (symtab : Array Nat) (buf : List Nat) (offs : List Nat) : Except Err (List Nat × List Nat) :=
  match parseTable symtab with
  | .error e => .error e
  | .ok t => decompress t buf offs

/-- what `fsst::compress` produces when `in_buf.len() < FSST_LEAST_INPUT_SIZE`: the header of a fresh
`SymbolTable::new()` (`encoder_switch = 0`, `suffix_lim & 255 = 0`, `terminator & 255 = 0`, `n_symbols = 0`)
in an otherwise untouched (zeroed) symbol-table buffer, and values / offsets copied. -/
def copyHeader : Array Nat := ([0, 0, 0, 0] ++ MAGIC_BYTES ++ List.replicate (SYMTAB_SIZE - 8) 0).toArray

/-! ## tokens and an abstract greedy encoder -/

inductive Tok where
  | sym (c : Nat)   -- a code of the symbol table
  | esc (b : Nat)   -- an escaped literal byte
  deriving Repr

def encodeTokens : List Tok → List Nat
  | [] => []
  | .sym c :: r => c :: encodeTokens r
  | .esc b :: r => ESC :: b :: encodeTokens r

def expand (t : Tbl) : List Tok → List Nat
  | [] => []
  | .sym c :: r => t.sym c ++ expand t r
  | .esc b :: r => b :: expand t r

/-- a symbol token never uses the escape code -/
def TokOk : Tok → Prop
  | .sym c => c ≠ ESC
  | .esc _ => True

/-- the shape of `compress_bulk`'s inner loop: at every position either a code chosen by `pick` (any matcher:
hash table, short codes, byte codes) or an escaped byte.  `fuel` ≥ input length. -/
def greedy (pick : List Nat → Option Nat) (t : Tbl) : Nat → List Nat → List Tok
  | 0, _ => []
  | _, [] => []
  | fuel + 1, b :: rest =>
    match pick (b :: rest) with
    | some c => .sym c :: greedy pick t fuel ((b :: rest).drop (t.sym c).length)
    | none => .esc b :: greedy pick t fuel rest

/-- the matcher as `compress_bulk` runs it: it sees the rest of the chunk followed by the sentinel (the terminator
byte) and whatever the chunk buffer holds behind it (`junk`: zeros or left-overs of the previous chunk), never an
empty rest (`while in_curr < in_end`) -/
def windowed (pick : List Nat → Option Nat) (term : Nat) (junk : List Nat) : List Nat → Option Nat
  | [] => none
  | b :: rest => pick (b :: rest ++ term :: junk)

end LanceModel.C28.Fsst
