import LanceModel.C28.Model
/-!
Lane-level lemmas: the `pack!` row loop writes the lane's bit stream (row `r` occupies stream bits
`[r*w, (r+1)*w)`, word `k` holds stream bits `[k*T, (k+1)*T)`), and the `unpack!` row loop reads it back.
Generic in `T > 0` and `0 < w < T`; all non-linear arithmetic goes through `divmod_unique`.
-/
namespace LanceModel.C28

theorem divmod_unique {a q T s : Nat} (h : a = q * T + s) (hs : s < T) : a / T = q ∧ a % T = s := by
  subst h
  have hT : 0 < T := by omega
  constructor
  · rw [Nat.add_comm, Nat.add_mul_div_right _ _ hT, Nat.div_eq_of_lt hs]; omega
  · rw [Nat.add_comm, Nat.add_mul_mod_self_right, Nat.mod_eq_of_lt hs]

/-- bit `p` of a lane's bit stream: bit `p % w` of row `p / w` -/
def srcBit (w : Nat) (src : Nat → Nat) (p : Nat) : Bool := (src (p / w)).testBit (p % w)

theorem srcBit_at {w : Nat} (src : Nat → Nat) {p row b : Nat} (h : p = row * w + b) (hb : b < w) :
    srcBit w src p = (src row).testBit b := by
  obtain ⟨h1, h2⟩ := divmod_unique h hb
  simp [srcBit, h1, h2]

theorem packSrc_testBit (w : Nat) (src : Nat → Nat) (row i : Nat) :
    (packSrc w src row).testBit i = (decide (i < w) && (src row).testBit i) := by
  simp [packSrc, wmask, Nat.testBit_and, Nat.testBit_two_pow_sub_one, Bool.and_comm]

theorem umask_testBit {T width : Nat} (h : width ≤ T) (b : Nat) :
    (umask T width).testBit b = decide (b < width) := by
  unfold umask
  split
  · next e => subst e; exact Nat.testBit_two_pow_sub_one _ _
  · next ne =>
    have : width % T = width := Nat.mod_eq_of_lt (by omega)
    rw [this]; exact Nat.testBit_two_pow_sub_one _ _

/-- bits of `tmp` after the `|=` of a row -/
theorem packTmp_bits {T w : Nat} (src : Nat → Nat) (hw : 0 < w) (hwT : w < T) {row q s tmp : Nat}
    (h : row * w = q * T + s) (hs : s < T)
    (inv : ∀ j, tmp.testBit j = (decide (j < s) && srcBit w src (q * T + j))) (j : Nat) :
    (packTmp T w src row tmp).testBit j = (decide (j < s + w ∧ j < T) && srcBit w src (q * T + j)) := by
  unfold packTmp
  split
  · next h0 =>
    subst h0
    have hz : q * T + s = 0 := by omega
    have hq : q * T = 0 := by omega
    have hs0 : s = 0 := by omega
    subst hs0
    rw [packSrc_testBit, hq]
    by_cases hj : j < w
    · have : srcBit w src j = (src 0).testBit j := srcBit_at src (by omega) hj
      simp [hj, this, show j < T by omega]
    · simp [hj]
  · next h0 =>
    have hm : (row * w) % T = s := (divmod_unique h hs).2
    rw [Nat.testBit_or, trunc, Nat.testBit_mod_two_pow, Nat.testBit_shiftLeft, packSrc_testBit, hm, inv]
    by_cases h1 : j < s
    · simp [h1, show j < s + w by omega, show j < T by omega, show ¬ j ≥ s by omega]
    · by_cases h2 : j < s + w
      · by_cases h3 : j < T
        · have : srcBit w src (q * T + j) = (src row).testBit (j - s) :=
            srcBit_at src (by omega) (by omega)
          simp [h1, h2, h3, this, show j ≥ s by omega, show j - s < w by omega]
        · simp [h1, h3]
      · simp [h1, h2, show ¬ j - s < w by omega]

theorem packRows_spec {T w : Nat} (src : Nat → Nat) (hw : 0 < w) (hwT : w < T) :
    ∀ n row q s tmp, row * w = q * T + s → s < T →
      (∀ j, tmp.testBit j = (decide (j < s) && srcBit w src (q * T + j))) →
      (∀ p ∈ packRows T w src n row tmp, ∀ j,
          p.2.testBit j = (decide (j < T) && srcBit w src (p.1 * T + j))) ∧
      (packRows T w src n row tmp).map Prod.fst = List.range' q ((row + n) * w / T - q) := by
  intro n
  induction n with
  | zero =>
    intro row q s tmp h hs _
    have := (divmod_unique h hs).1
    simp [packRows, this]
  | succ n ih =>
    intro row q s tmp h hs inv
    have hd := (divmod_unique h hs).1
    have hsucc : (row + 1) * w = row * w + w := by rw [Nat.add_mul, Nat.one_mul]
    have hre : (row + (n + 1)) = (row + 1 + n) := by omega
    by_cases hc : s + w < T
    · -- stays in the same word
      have h' : (row + 1) * w = q * T + (s + w) := by omega
      have hd' := (divmod_unique h' hc).1
      have inv' : ∀ j, (packTmp T w src row tmp).testBit j =
          (decide (j < s + w) && srcBit w src (q * T + j)) := by
        intro j
        rw [packTmp_bits src hw hwT h hs inv j]
        by_cases hj : j < s + w
        · simp [hj, show j < T by omega]
        · simp [hj]
      have := ih (row + 1) q (s + w) _ h' hc inv'
      rw [packRows, if_neg (by rw [hd', hd]; omega), hre]
      exact this
    · -- the row fills word q
      have hq1T : (q + 1) * T = q * T + T := by rw [Nat.add_mul, Nat.one_mul]
      have h' : (row + 1) * w = (q + 1) * T + (s + w - T) := by omega
      have hs' : s + w - T < T := by omega
      have hdm' := divmod_unique h' hs'
      have inv' : ∀ j, (packSrc w src row >>> (w - (s + w - T))).testBit j =
          (decide (j < s + w - T) && srcBit w src ((q + 1) * T + j)) := by
        intro j
        rw [Nat.testBit_shiftRight, packSrc_testBit]
        by_cases hj : j < s + w - T
        · have : srcBit w src ((q + 1) * T + j) = (src row).testBit (w - (s + w - T) + j) :=
            srcBit_at src (by omega) (by omega)
          simp [hj, this, show w - (s + w - T) + j < w by omega]
        · simp [hj, show ¬ w - (s + w - T) + j < w by omega]
      have ihh := ih (row + 1) (q + 1) (s + w - T) _ h' hs' inv'
      have hmono : q + 1 ≤ (row + 1 + n) * w / T := by
        have : (row + 1) * w ≤ (row + 1 + n) * w := Nat.mul_le_mul_right _ (by omega)
        have := Nat.div_le_div_right (c := T) this
        omega
      rw [packRows, if_pos (by rw [hdm'.1, hd]; omega), hdm'.2, hd, hre]
      refine ⟨?_, ?_⟩
      · intro p hp j
        rcases List.mem_cons.mp hp with rfl | hp
        · simp only
          rw [packTmp_bits src hw hwT h hs inv j]
          by_cases hj : j < T
          · simp [hj, show j < s + w by omega]
          · simp [hj]
        · exact ihh.1 p hp j
      · rw [List.map_cons, ihh.2]
        have : (row + 1 + n) * w / T - q = ((row + 1 + n) * w / T - (q + 1)) + 1 := by omega
        rw [this, List.range'_succ]

/-- value read by one row of `unpack!` from words that hold the lane's bit stream -/
theorem unpackVal_eq {T w : Nat} (src P : Nat → Nat) (hw : 0 < w) (hwT : w < T)
    (hP : ∀ k, k < w → ∀ j, (P k).testBit j = (decide (j < T) && srcBit w src (k * T + j)))
    {row q s : Nat} (hrow : row < T) (h : row * w = q * T + s) (hs : s < T) :
    unpackVal T w P row (P q) = src row % 2 ^ w := by
  have hdm := divmod_unique h hs
  have hqw : q < w := by
    have h1 : row * w < T * w := Nat.mul_lt_mul_of_pos_right hrow hw
    have h2 : q * T < w * T := by rw [Nat.mul_comm w T]; omega
    exact Nat.lt_of_mul_lt_mul_right h2
  apply Nat.eq_of_testBit_eq
  intro b
  rw [Nat.testBit_mod_two_pow]
  unfold unpackVal
  by_cases hc : s + w < T
  · have h' : (row + 1) * w = q * T + (s + w) := by rw [Nat.add_mul, Nat.one_mul]; omega
    have hd' := (divmod_unique h' hc).1
    rw [if_neg (by omega), hdm.2, Nat.testBit_and, Nat.testBit_shiftRight, umask_testBit (by omega), hP q hqw]
    by_cases hb : b < w
    · have : srcBit w src (q * T + (s + b)) = (src row).testBit b := srcBit_at src (by omega) hb
      simp [hb, this, show s + b < T by omega]
    · simp [hb]
  · have hsucc : (row + 1) * w = row * w + w := by rw [Nat.add_mul, Nat.one_mul]
    have hq1T : (q + 1) * T = q * T + T := by rw [Nat.add_mul, Nat.one_mul]
    have h' : (row + 1) * w = (q + 1) * T + (s + w - T) := by omega
    have hs' : s + w - T < T := by omega
    have hdm' := divmod_unique h' hs'
    rw [if_pos (by omega), hdm'.1, hdm'.2, hdm.2]
    by_cases hq1 : q + 1 < w
    · rw [if_pos hq1, Nat.testBit_or, Nat.testBit_and, Nat.testBit_shiftRight, umask_testBit (by omega),
        trunc, Nat.testBit_mod_two_pow, Nat.testBit_shiftLeft, Nat.testBit_and, umask_testBit (by omega),
        hP q hqw, hP (q + 1) hq1]
      by_cases hb1 : b < w - (s + w - T)
      · have : srcBit w src (q * T + (s + b)) = (src row).testBit b := srcBit_at src (by omega) (by omega)
        simp [hb1, this, show s + b < T by omega, show b < w by omega,
          show ¬ b ≥ w - (s + w - T) by omega]
      · by_cases hb : b < w
        · have : srcBit w src ((q + 1) * T + (b - (w - (s + w - T)))) = (src row).testBit b :=
            srcBit_at src (by omega) hb
          simp [hb1, hb, this, show b < T by omega, show b ≥ w - (s + w - T) by omega,
            show b - (w - (s + w - T)) < T by omega, show b - (w - (s + w - T)) < s + w - T by omega]
        · simp [hb1, hb, show ¬ b - (w - (s + w - T)) < s + w - T by omega]
    · -- last row of the lane: the stream ends exactly at a word boundary
      have h1 : (row + 1) * w ≤ T * w := Nat.mul_le_mul_right _ (by omega)
      have h2 : w * T ≤ (q + 1) * T := Nat.mul_le_mul_right _ (by omega)
      have h3 : T * w = w * T := Nat.mul_comm _ _
      have hz : s + w - T = 0 := by omega
      rw [if_neg hq1, Nat.testBit_and, Nat.testBit_shiftRight, umask_testBit (by omega), hP q hqw, hz]
      by_cases hb : b < w
      · have : srcBit w src (q * T + (s + b)) = (src row).testBit b := srcBit_at src (by omega) hb
        simp [hb, this, show s + b < T by omega]
      · simp [hb]

theorem unpackRows_spec {T w : Nat} (src P : Nat → Nat) (hw : 0 < w) (hwT : w < T)
    (hP : ∀ k, k < w → ∀ j, (P k).testBit j = (decide (j < T) && srcBit w src (k * T + j))) :
    ∀ n row q s cur, row + n ≤ T → row * w = q * T + s → s < T → (n ≠ 0 → cur = P q) →
      unpackRows T w P n row cur = (List.range' row n).map (fun r => (r, src r % 2 ^ w)) := by
  intro n
  induction n with
  | zero => intros; simp [unpackRows]
  | succ n ih =>
    intro row q s cur hn h hs hcur
    have hcur' : cur = P q := hcur (by omega)
    subst hcur'
    have hdm := divmod_unique h hs
    have hv := unpackVal_eq src P hw hwT hP (show row < T by omega) h hs
    rw [unpackRows, hv, List.range'_succ, List.map_cons]
    congr 1
    by_cases hc : s + w < T
    · have h' : (row + 1) * w = q * T + (s + w) := by rw [Nat.add_mul, Nat.one_mul]; omega
      have hd' := (divmod_unique h' hc).1
      apply ih (row + 1) q (s + w) _ (by omega) h' hc
      intro _
      unfold unpackNext
      rw [if_neg (by omega)]
    · have hsucc : (row + 1) * w = row * w + w := by rw [Nat.add_mul, Nat.one_mul]
      have hq1T : (q + 1) * T = q * T + T := by rw [Nat.add_mul, Nat.one_mul]
      have h' : (row + 1) * w = (q + 1) * T + (s + w - T) := by omega
      have hs' : s + w - T < T := by omega
      have hdm' := divmod_unique h' hs'
      apply ih (row + 1) (q + 1) (s + w - T) _ (by omega) h' hs'
      intro hn0
      have hq1 : q + 1 < w := by
        have h1 : (row + 1) * w < T * w := Nat.mul_lt_mul_of_pos_right (by omega) hw
        have h2 : (q + 1) * T < w * T := by rw [Nat.mul_comm w T]; omega
        exact Nat.lt_of_mul_lt_mul_right h2
      unfold unpackNext
      rw [if_pos (by omega), hdm'.1]

end LanceModel.C28
