/-!
# C28 — model of the FastLanes bit-packing kernels (rust/compression/bitpacking/src/lib.rs)

The Rust code is macro generated: `pack_8_1 … pack_64_64`, `unpack_8_1 … unpack_64_64` are instances
of the macros `pack!` / `unpack!` for a lane type `T ∈ {u8,u16,u32,u64}` and a bit width `W`.
The model takes `T` (the number of bits of the lane type) and `w` as run-time parameters and mirrors
the macro bodies: the `index` function (FL_ORDER transposition), the per-lane row loop with the `tmp`
accumulator, and the three branches `W == 0`, `W == T`, general.

Words of the lane type are modelled as `Nat` (always `< 2^T`; the only place where the machine type
truncates is `<<`, modelled by `trunc`).  Blocks are `Array Nat`.  Import-free (core only).
-/
namespace LanceModel.C28

/-- `FL_ORDER : [usize; 8] = [0, 4, 2, 6, 1, 5, 3, 7]` (lib.rs).  Only entries `row / 8 < T / 8 ≤ 8` are read. -/
def flOrder : Nat → Nat
  | 0 => 0 | 1 => 4 | 2 => 2 | 3 => 6 | 4 => 1 | 5 => 5 | 6 => 3 | 7 => 7 | _ => 0

/-- `FastLanes::LANES = 1024 / T` -/
def lanes (T : Nat) : Nat := 1024 / T

/-- `fn index(row, lane)` inside `pack!` / `unpack!`: `FL_ORDER[row / 8] * 16 + (row % 8) * 128 + lane` -/
def index (row lane : Nat) : Nat := flOrder (row / 8) * 16 + (row % 8) * 128 + lane

/-- `let mask: $T = (1 << $W) - 1` (pack!, general branch, `W < T`) -/
def wmask (w : Nat) : Nat := 2 ^ w - 1

/-- `fn mask(width)` of unpack!: `if width == T { MAX } else { (1 << (width % T)) - 1 }` -/
def umask (T width : Nat) : Nat := if width = T then 2 ^ T - 1 else 2 ^ (width % T) - 1

/-- the lane type keeps the low `T` bits of a left shift -/
def trunc (T x : Nat) : Nat := x % 2 ^ T

/-- pack!: `src & mask` -/
def packSrc (w : Nat) (src : Nat → Nat) (row : Nat) : Nat := src row &&& wmask w

/-- pack!: `if row == 0 { tmp = src } else { tmp |= src << (row * W) % T }` -/
def packTmp (T w : Nat) (src : Nat → Nat) (row tmp : Nat) : Nat :=
  if row = 0 then packSrc w src row else tmp ||| trunc T (packSrc w src row <<< ((row * w) % T))

/-- pack!, general branch (`0 < W < T`): the row loop of one lane.  `n` rows remain, `row` is the current row,
`tmp` the accumulator.  Emits the writes `packed[LANES * curr_word + lane] = tmp` as `(curr_word, tmp)`;
after a write `tmp = src >> (W - remaining_bits)`. -/
def packRows (T w : Nat) (src : Nat → Nat) : Nat → Nat → Nat → List (Nat × Nat)
  | 0, _, _ => []
  | n + 1, row, tmp =>
    if (row + 1) * w / T > row * w / T then
      (row * w / T, packTmp T w src row tmp) ::
        packRows T w src n (row + 1) (packSrc w src row >>> (w - ((row + 1) * w) % T))
    else packRows T w src n (row + 1) (packTmp T w src row tmp)

/-- pack! for one lane: `(word index within the lane, word)` writes in program order.
`W == 0`: nothing; `W == T`: `packed[LANES * row + lane] = input[index(row, lane)]`; else the row loop. -/
def packLane (T w : Nat) (src : Nat → Nat) : List (Nat × Nat) :=
  if w = 0 then []
  else if w = T then (List.range' 0 T).map (fun row => (row, src row))
  else packRows T w src T 0 0

/-- unpack!, general branch: value of one row given the current word `src` and the packed words `P` of the lane -/
def unpackVal (T w : Nat) (P : Nat → Nat) (row src : Nat) : Nat :=
  if (row + 1) * w / T > row * w / T then
    if (row + 1) * w / T < w then
      ((src >>> ((row * w) % T)) &&& umask T (w - ((row + 1) * w) % T)) |||
        trunc T ((P ((row + 1) * w / T) &&& umask T (((row + 1) * w) % T)) <<< (w - ((row + 1) * w) % T))
    else (src >>> ((row * w) % T)) &&& umask T (w - ((row + 1) * w) % T)
  else (src >>> ((row * w) % T)) &&& umask T w

/-- unpack!: the word held in `src` after a row: reloaded when the row crossed into the next word and that word exists -/
def unpackNext (T w : Nat) (P : Nat → Nat) (row src : Nat) : Nat :=
  if (row + 1) * w / T > row * w / T ∧ (row + 1) * w / T < w then P ((row + 1) * w / T) else src

/-- unpack!, general branch: the row loop of one lane, emitting `(row, value)` -/
def unpackRows (T w : Nat) (P : Nat → Nat) : Nat → Nat → Nat → List (Nat × Nat)
  | 0, _, _ => []
  | n + 1, row, src => (row, unpackVal T w P row src) :: unpackRows T w P n (row + 1) (unpackNext T w P row src)

/-- unpack! for one lane; `P k = packed[LANES * k + lane]`.  `W == 0`: zeros; `W == T`: copy; else the row loop
starting with `src = packed[lane]`. -/
def unpackLane (T w : Nat) (P : Nat → Nat) : List (Nat × Nat) :=
  if w = 0 then (List.range' 0 T).map (fun row => (row, 0))
  else if w = T then (List.range' 0 T).map (fun row => (row, P row))
  else unpackRows T w P T 0 (P 0)

/-- a sequence of indexed stores `a[i] = v` in program order -/
def scatter (ws : List (Nat × Nat)) (a : Array Nat) : Array Nat :=
  ws.foldl (fun a p => a.setIfInBounds p.1 p.2) a

/-- all stores of `pack_T_W`: `for lane in 0..LANES { pack!(…) }` -/
def packWrites (T w : Nat) (xs : Array Nat) : List (Nat × Nat) :=
  (List.range' 0 (lanes T)).flatMap (fun lane =>
    (packLane T w (fun row => xs.getD (index row lane) 0)).map (fun p => (lanes T * p.1 + lane, p.2)))

/-- all stores of `unpack_T_W`: `for lane in 0..LANES { unpack!(…, output[idx] = elem) }` -/
def unpackWrites (T w : Nat) (packed : Array Nat) : List (Nat × Nat) :=
  (List.range' 0 (lanes T)).flatMap (fun lane =>
    (unpackLane T w (fun k => packed.getD (lanes T * k + lane) 0)).map (fun p => (index p.1 lane, p.2)))

/-- `BitPacking::unchecked_pack(width, input, output)` for the lane type of `T` bits.
`none` = the call panics: `width > T` hits `unreachable!`, `array_ref![input, 0, 1024]` /
`array_mut_ref![output, 0, 1024 * W / T]` panic on a too short slice (the `debug_assert`s are compiled out).
Longer slices are accepted, the surplus is untouched.  `width == 0` returns before touching the slices. -/
def pack (T w : Nat) (xs out : Array Nat) : Option (Array Nat) :=
  if w > T then none
  else if w = 0 then some out
  else if xs.size < 1024 ∨ out.size < 1024 * w / T then none
  else some (scatter (packWrites T w xs) out)

/-- `BitPacking::unchecked_unpack(width, input, output)`.  `width == 0` is `output.fill(0)` on the whole slice. -/
def unpack (T w : Nat) (packed out : Array Nat) : Option (Array Nat) :=
  if w > T then none
  else if w = 0 then some (Array.replicate out.size 0)
  else if packed.size < 1024 * w / T ∨ out.size < 1024 then none
  else some (scatter (unpackWrites T w packed) out)

end LanceModel.C28
