import LanceModel.C28.Driver
def main : IO Unit := LanceModel.Util.runDriver LanceModel.C28.Driver.step ()
