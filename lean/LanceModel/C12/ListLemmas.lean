import LanceModel.C12.Model
/-
Generic list facts behind the C12 theorems: fresh identities (`attach`), identities determine rows when they are
distinct, deleting the identities a filtered scan captured = filtering, and the permutation that moves rewritten
rows from the end of the table back to their places.
-/
namespace LanceModel.C12
open LanceModel.Query

/-! ### attach -/

@[simp] theorem rowsOf_attach (n : Nat) (rs : List Row) : rowsOf (attach n rs) = rs := by
  induction rs generalizing n with
  | nil => rfl
  | cons r rs ih => simp [attach, rowsOf] at *; exact ih (n + 1)

@[simp] theorem length_attach (n : Nat) (rs : List Row) : (attach n rs).length = rs.length := by
  induction rs generalizing n with
  | nil => rfl
  | cons r rs ih => simp [attach, ih]

theorem mem_ids_attach (n : Nat) (rs : List Row) (i : Nat) : i ∈ ids (attach n rs) ↔ n ≤ i ∧ i < n + rs.length := by
  induction rs generalizing n with
  | nil => simp [attach, ids]
  | cons r rs ih =>
    have := ih (n + 1)
    simp only [ids] at this
    simp only [attach, ids, List.map_cons, List.mem_cons, this, List.length_cons]
    omega

theorem nodup_ids_attach (n : Nat) (rs : List Row) : (ids (attach n rs)).Nodup := by
  induction rs generalizing n with
  | nil => simp [attach, ids]
  | cons r rs ih =>
    have h := ih (n + 1)
    have hm := mem_ids_attach (n + 1) rs n
    simp only [ids] at h hm
    simp only [attach, ids, List.map_cons, List.nodup_cons, h, and_true, hm]
    omega

/-! ### distinct identities -/

theorem eq_of_fst_eq {t : Tbl} (h : (ids t).Nodup) {a b : Nat × Row} (ha : a ∈ t) (hb : b ∈ t) (hab : a.1 = b.1) :
    a = b := by
  induction t with
  | nil => cases ha
  | cons x xs ih =>
    simp only [ids, List.map_cons, List.nodup_cons] at h
    have hx : ∀ c ∈ xs, c.1 ≠ x.1 := by
      intro c hc heq
      exact h.1 (heq ▸ List.mem_map_of_mem (f := fun r : Nat × Row => r.1) hc)
    rcases List.mem_cons.1 ha with rfl | ha' <;> rcases List.mem_cons.1 hb with rfl | hb'
    · rfl
    · exact absurd hab.symm (hx _ hb')
    · exact absurd hab (hx _ ha')
    · exact ih h.2 ha' hb'

theorem nodup_ids_filter {t : Tbl} (h : (ids t).Nodup) (f : Nat × Row → Bool) : (ids (t.filter f)).Nodup := by
  simp only [ids] at *
  exact List.Nodup.sublist (List.Sublist.map _ List.filter_sublist) h

theorem mem_ids_filter {t : Tbl} (f : Nat × Row → Bool) {i : Nat} (h : i ∈ ids (t.filter f)) : i ∈ ids t := by
  simp only [ids, List.mem_map, List.mem_filter] at *
  obtain ⟨a, ⟨ha, _⟩, rfl⟩ := h
  exact ⟨a, ha, rfl⟩

/-- with distinct identities, a row's identity is among those a filtered scan captured iff the row passes the filter -/
theorem mem_selIds {t : Tbl} (h : (ids t).Nodup) (f : Row → Bool) {r : Nat × Row} (hr : r ∈ t) :
    r.1 ∈ selIds f t ↔ f r.2 = true := by
  simp only [selIds, List.mem_map, List.mem_filter]
  constructor
  · rintro ⟨a, ⟨ha, hf⟩, heq⟩
    have := eq_of_fst_eq h ha hr heq
    exact this ▸ hf
  · intro hf
    exact ⟨r, ⟨hr, hf⟩, rfl⟩

/-- deleting the captured identities = filtering by the negated predicate -/
theorem dropIds_selIds {t : Tbl} (h : (ids t).Nodup) (f : Row → Bool) :
    dropIds (selIds f t) t = t.filter fun r => !f r.2 := by
  simp only [dropIds]
  apply List.filter_congr
  intro r hr
  have := mem_selIds h f hr
  by_cases hf : f r.2 = true
  · simp [hf, this.2 hf]
  · have hn : r.1 ∉ selIds f t := fun hc => hf (this.1 hc)
    simp [hf, hn]

theorem rowsOf_filter_snd (t : Tbl) (f : Row → Bool) : rowsOf (t.filter fun r => f r.2) = (rowsOf t).filter f := by
  induction t with
  | nil => rfl
  | cons x xs ih =>
    simp only [rowsOf] at ih
    by_cases hf : f x.2 = true <;> simp [rowsOf, hf, ih]

/-! ### permutations -/

/-- rows that fail `f` in place, followed by the images of the rows that pass it, is a permutation of the table in
    which every passing row is replaced by its image -/
theorem filter_not_append_map_perm {α : Type} (f : α → Bool) (g : α → α) (l : List α) :
    ((l.filter fun x => !f x) ++ (l.filter f).map g).Perm (l.map fun x => if f x then g x else x) := by
  induction l with
  | nil => simp
  | cons x xs ih =>
    by_cases hf : f x = true
    · simp only [List.filter_cons, hf, Bool.not_true, Bool.false_eq_true, ↓reduceIte, List.map_cons]
      exact List.perm_middle.trans (List.Perm.cons _ ih)
    · simp only [Bool.not_eq_true] at hf
      simp only [List.filter_cons, hf, Bool.not_false, ↓reduceIte, List.map_cons, Bool.false_eq_true, List.cons_append]
      exact List.Perm.cons _ ih

end LanceModel.C12
