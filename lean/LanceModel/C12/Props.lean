import LanceModel.Query.Lemmas
import LanceModel.C12.MergeProof
/-
C12 — delete, update and merge_insert follow SQL semantics on the model table.

  properties.jsonl: "delete(p) removes exactly the rows for which p is TRUE (rows where p is NULL stay); update(set, where p)
  rewrites exactly those rows with the given expressions and keeps all others and the row count; merge_insert on key
  columns yields exactly the SQL MERGE result (NULL keys never match) for its when-matched / when-not-matched /
  when-not-matched-by-source settings, independent of whether the key column is indexed, and fails without effect when
  more than one source row would update the same target row. count_rows(filter) and count_deleted_rows agree with the
  resulting table."

The specification (`sqlDelete`, `sqlUpdate`, `sqlMerge`, `specRow`) is in Spec.lean; the model of the code in Model.lean.
Tables are compared as multisets of rows (`List.Perm`).  `C12_full` is the statement for merge_insert at full strength;
the code does not meet it (two deviations, each with a counterexample below); `merge_spec` is the full conclusion
inside the decidable region `clean` that excludes exactly those deviations.
-/
namespace LanceModel.C12
open LanceModel.Query

/-! ### well-formed tables: distinct identities below the allocation mark -/

structure WF (t : Table) : Prop where
  nodup : (ids t.rows).Nodup
  bound : ∀ i ∈ ids t.rows, i < t.next

theorem ids_append (a b : Tbl) : ids (a ++ b) = ids a ++ ids b := by simp [ids]
theorem rowsOf_append (a b : Tbl) : rowsOf (a ++ b) = rowsOf a ++ rowsOf b := by simp [rowsOf]

/-- keeping some rows in place and appending freshly numbered rows keeps a table well formed -/
theorem wf_filter_attach {T : Tbl} {next : Nat} (hn : (ids T).Nodup) (hb : ∀ i ∈ ids T, i < next)
    (f : Nat × Row → Bool) (rs : List Row) :
    (ids (T.filter f ++ attach next rs)).Nodup ∧ ∀ i ∈ ids (T.filter f ++ attach next rs), i < next + rs.length := by
  rw [ids_append]
  constructor
  · rw [List.nodup_append]
    refine ⟨nodup_ids_filter hn f, nodup_ids_attach _ _, ?_⟩
    intro a ha b hb' hab
    have h1 := hb a (mem_ids_filter f ha)
    have h2 := (mem_ids_attach next rs b).1 hb'
    omega
  · intro i hi
    rcases List.mem_append.1 hi with h | h
    · have := hb i (mem_ids_filter f h); omega
    · exact ((mem_ids_attach next rs i).1 h).2

/-! ### delete -/

/-- DELETE: the model (scan `WHERE p` capturing identities, then delete those identities) leaves exactly the rows on which
    `p` is not TRUE — rows on which it is FALSE or NULL stay, with their identity; nothing else appears -/
theorem delete_spec (p : Expr) (t : Tbl) (h : (ids t).Nodup) :
    rowsOf (deleteT p t) = sqlDelete p (rowsOf t)
    ∧ (∀ r ∈ t, eval3 p r.2 ≠ some true → r ∈ deleteT p t)
    ∧ (∀ r ∈ deleteT p t, r ∈ t ∧ eval3 p r.2 ≠ some true) := by
  have hd : deleteT p t = t.filter fun r => !isTrue p r.2 := dropIds_selIds h (isTrue p)
  refine ⟨?_, ?_, ?_⟩
  · rw [hd, sqlDelete]
    exact rowsOf_filter_snd t fun r => !isTrue p r
  · intro r hr hne
    rw [hd, List.mem_filter]
    refine ⟨hr, ?_⟩
    simp only [Query.isTrue, Bool.not_eq_true', beq_eq_false_iff_ne, ne_eq]
    exact hne
  · intro r hr
    rw [hd, List.mem_filter] at hr
    refine ⟨hr.1, ?_⟩
    have := hr.2
    simp only [Query.isTrue, Bool.not_eq_true', beq_eq_false_iff_ne, ne_eq] at this
    exact this

/-- in particular a row on which the predicate is NULL survives both `DELETE WHERE p` and `DELETE WHERE NOT p` -/
theorem delete_null_stays (p : Expr) (t : Tbl) (h : (ids t).Nodup) (r : Nat × Row) (hr : r ∈ t)
    (hnull : eval3 p r.2 = none) : r ∈ deleteT p t ∧ r ∈ deleteT (.not p) t := by
  refine ⟨(delete_spec p t h).2.1 r hr (by simp [hnull]), (delete_spec (.not p) t h).2.1 r hr ?_⟩
  simp [eval3, hnull, not3]

example : rowsOf (deleteT (.cmp .lt 0 (.lit 3)) [(0, [some 1]), (1, [none]), (2, [some 5])]) = [[none], [some 5]] := by
  decide

theorem wf_delete (t : Table) (p : Expr) (h : WF t) : WF { t with rows := deleteT p t.rows } := by
  refine ⟨nodup_ids_filter h.nodup _, ?_⟩
  intro i hi
  exact h.bound i (mem_ids_filter _ hi)

/-! ### count_rows(filter) -/

theorem length_filter_add_not {α : Type} (f : α → Bool) (l : List α) :
    (l.filter f).length + (l.filter fun x => !f x).length = l.length := by
  induction l with
  | nil => rfl
  | cons x xs ih => by_cases hf : f x = true <;> simp [hf] <;> omega

/-- `count_rows(filter)` is the number of rows on which the filter is TRUE, and it is exactly the number of rows a
    DELETE with the same predicate removes (`count_rows` before = `count_rows(filter)` + `count_rows` after): the
    deleted-row accounting agrees with the table -/
theorem count_agrees (p : Expr) (t : Tbl) (h : (ids t).Nodup) :
    countT p t = ((rowsOf t).filter (isTrue p)).length
    ∧ countT p t + (deleteT p t).length = t.length := by
  have hc : countT p t = (t.filter fun r => isTrue p r.2).length := by simp [countT, selIds]
  refine ⟨?_, ?_⟩
  · rw [hc, ← rowsOf_filter_snd]; simp [rowsOf]
  · have hd : deleteT p t = t.filter fun r => !isTrue p r.2 := dropIds_selIds h (isTrue p)
    rw [hc, hd]
    exact length_filter_add_not (fun r : Nat × Row => isTrue p r.2) t

example : countT (.isNull 0) [(0, [some 1]), (1, [none]), (2, [none])] = 2 := by decide

/-! ### update -/

/-- UPDATE: as a multiset the new table is the old one with exactly the rows on which the condition is TRUE rewritten;
    the row count is preserved; `rows_updated` is the number of such rows; every other row is still there, unchanged,
    with its identity -/
theorem update_spec (cond : Option Expr) (as : List (Nat × Rhs)) (next : Nat) (t : Tbl) (h : (ids t).Nodup) :
    (rowsOf (updateT cond as next t).1).Perm (sqlUpdate cond as (rowsOf t))
    ∧ (updateT cond as next t).1.length = t.length
    ∧ (updateT cond as next t).2 = ((rowsOf t).filter (updCond cond)).length
    ∧ (∀ r ∈ t, updCond cond r.2 = false → r ∈ (updateT cond as next t).1) := by
  have hsel : (t.filter fun r => updCond cond r.2).map (·.1) = selIds (updCond cond) t := rfl
  have hdrop : dropIds ((t.filter fun r => updCond cond r.2).map (·.1)) t = t.filter fun r => !updCond cond r.2 := by
    rw [hsel]; exact dropIds_selIds h (updCond cond)
  have hrows : rowsOf (updateT cond as next t).1
      = ((rowsOf t).filter fun r => !updCond cond r) ++ ((rowsOf t).filter (updCond cond)).map (applyAssigns as) := by
    simp only [updateT, hdrop, rowsOf_append, rowsOf_attach]
    rw [rowsOf_filter_snd t fun r => !updCond cond r, ← rowsOf_filter_snd t (updCond cond)]
    simp [rowsOf]
  have hperm : (rowsOf (updateT cond as next t).1).Perm (sqlUpdate cond as (rowsOf t)) := by
    rw [hrows]; exact filter_not_append_map_perm (updCond cond) (applyAssigns as) (rowsOf t)
  refine ⟨hperm, ?_, ?_, ?_⟩
  · have := hperm.length_eq
    simp only [rowsOf, sqlUpdate, List.length_map] at this
    exact this
  · simp only [updateT]
    rw [← rowsOf_filter_snd]; simp [rowsOf]
  · intro r hr hc
    simp only [updateT, hdrop, List.mem_append, List.mem_filter]
    exact Or.inl ⟨hr, by simp [hc]⟩

/-- all right-hand sides read the OLD row: `SET c0 = c1, c1 = c0` swaps -/
example : applyAssigns [(0, .col 1), (1, .col 0)] [some 1, some 2] = [some 2, some 1] := by decide

example : rowsOf (updateT (some (.cmp .gt 0 (.lit 1))) [(1, .colPlus 0 10)] 3 [(0, [some 1, some 0]), (1, [some 2, none]), (2, [none, some 7])]).1
    = [[some 1, some 0], [none, some 7], [some 2, some 12]] := by decide

theorem wf_update (t : Table) (cond : Option Expr) (as : List (Nat × Rhs)) (h : WF t) :
    WF { t with rows := (updateT cond as t.next t.rows).1, next := t.next + (updateT cond as t.next t.rows).2 } := by
  have := wf_filter_attach h.nodup h.bound
    (fun r => !((t.rows.filter fun r => updCond cond r.2).map (·.1)).contains r.1)
    ((t.rows.filter fun r => updCond cond r.2).map fun r => applyAssigns as r.2)
  simp only [List.length_map] at this
  exact ⟨this.1, this.2⟩

/-! ### merge_insert -/

/-- THE PROPERTY for merge_insert at full strength: whatever the three clauses, the key columns, the source rows and the
    code path (v2 plan / Merger, i.e. indexed or not), the model of merge_insert and SQL MERGE both fail or both succeed
    with the same multiset of rows -/
def C12_full : Prop :=
  ∀ (cfg : MergeCfg) (path : Path) (k : Nat) (S : List Row) (T : Tbl), (ids T).Nodup →
    Agree (mergeCore cfg path k S T) (sqlMerge cfg k (rowsOf T) S)

/-- merge_insert = SQL MERGE on the model table (as a multiset of rows), for every combination of when_matched ∈
    {DoNothing, UpdateAll, UpdateIf c, Fail}, when_not_matched ∈ {InsertAll, DoNothing}, when_not_matched_by_source ∈
    {Keep, Delete, DeleteIf c}, every key column list, every source (duplicates, NULLs, partial schema) and both code
    paths — inside the region `clean` that excludes the two recorded deviations -/
theorem merge_spec (cfg : MergeCfg) (path : Path) (k : Nat) (S : List Row) (T : Tbl)
    (hT : (ids T).Nodup) (hc : clean cfg path S T = true) :
    Agree (mergeCore cfg path k S T) (sqlMerge cfg k (rowsOf T) S) :=
  mergeCore_agrees cfg path k S T hT hc

/-- `C12_full` restricted to `clean` (the `_partial` form of the property) -/
theorem C12_partial :
    ∀ (cfg : MergeCfg) (path : Path) (k : Nat) (S : List Row) (T : Tbl), (ids T).Nodup → clean cfg path S T = true →
      Agree (mergeCore cfg path k S T) (sqlMerge cfg k (rowsOf T) S) :=
  fun cfg path k S T hT hc => merge_spec cfg path k S T hT hc

/-- non-vacuity: an upsert with a duplicate-free source, a NULL-keyed target row and an insert is in the clean region -/
example : clean { on := [0], m := .all, insert := true, ns := .keep, useIndex := true, cols := [0, 1] } .v2
    [[some 1, some 11], [some 3, some 33]] [(0, [some 1, some 10]), (1, [none, some 30])] = true := by decide

example : (mergeCore { on := [0], m := .all, insert := true, ns := .keep, useIndex := true, cols := [0, 1] } .v2 2
    [[some 1, some 11], [some 3, some 33]] [(0, [some 1, some 10]), (1, [none, some 30])]).map
      (fun o => (rowsOf o.kept ++ o.written, o.stats))
    = some ([[none, some 30], [some 1, some 11], [some 3, some 33]], { ins := 1, upd := 1, del := 0 }) := by decide

/-- independence of the code path (and so of whether the key is indexed and of `use_index`): inside the clean region of
    both paths the two paths fail together or produce the same multiset -/
theorem merge_path_independent (cfg : MergeCfg) (k : Nat) (S : List Row) (T : Tbl) (hT : (ids T).Nodup)
    (h1 : clean cfg .v2 S T = true) (h2 : clean cfg .merger S T = true) :
    match mergeCore cfg .v2 k S T, mergeCore cfg .merger k S T with
    | some a, some b => (rowsOf a.kept ++ a.written).Perm (rowsOf b.kept ++ b.written)
    | none, none => True
    | _, _ => False := by
  have a := merge_spec cfg .v2 k S T hT h1
  have b := merge_spec cfg .merger k S T hT h2
  unfold Agree at a b
  cases hs : sqlMerge cfg k (rowsOf T) S <;> cases ha : mergeCore cfg .v2 k S T <;>
    cases hb : mergeCore cfg .merger k S T <;> simp only [hs, ha, hb] at a b ⊢
  · exact a.trans b.symm

/-- more than one source row would update the same target row → the job fails (whatever the other clauses and the path),
    and a failed job leaves the table as it was -/
theorem merge_dup_fails_clean (cfg : MergeCfg) (path : Path) (k : Nat) (S : List Row) (T : Tbl) (hT : (ids T).Nodup)
    (t : Nat × Row) (ht : t ∈ T) (hdup : 2 ≤ (updatersOf cfg S t.2).length) :
    mergeCore cfg path k S T = none := by
  have hnd : ¬ (pairIds ((matchedPairs cfg.on S T).filter fun p => updates cfg.m p.1 p.2.2)).Nodup := by
    intro h
    have := (nodup_ups_iff hT).1 h t ht
    omega
  simp only [mergeCore, hnd, not_false_eq_true, ↓reduceIte, ite_self]

theorem merge_fail_unchanged (t : Table) (cfg : MergeCfg) (src : List Row) (e : String)
    (h : mergeT t cfg src = .error e) : applyMerge t cfg src = t := by
  simp [applyMerge, h]

/-- and conversely, when_matched ≠ Fail: the job fails only for that reason -/
theorem merge_fails_iff (cfg : MergeCfg) (path : Path) (k : Nat) (S : List Row) (T : Tbl) (hT : (ids T).Nodup)
    (hm : cfg.m ≠ .fail) :
    mergeCore cfg path k S T = none ↔ ∃ t ∈ T, 2 ≤ (updatersOf cfg S t.2).length := by
  have hiff := nodup_ups_iff (cfg := cfg) (S := S) hT
  by_cases hnd : (pairIds ((matchedPairs cfg.on S T).filter fun p => updates cfg.m p.1 p.2.2)).Nodup
  · simp only [mergeCore, hm, false_and, ↓reduceIte, hnd, not_true_eq_false, reduceCtorEq, false_iff, not_exists, not_and]
    intro t ht
    have := hiff.1 hnd t ht
    omega
  · simp only [mergeCore, hm, false_and, ↓reduceIte, hnd, not_false_eq_true, true_iff]
    rw [hiff] at hnd
    obtain ⟨t, hnd⟩ := Classical.not_forall.1 hnd
    obtain ⟨ht, hl⟩ := Classical.not_imp.1 hnd
    exact ⟨t, ht, by omega⟩

example : mergeCore { on := [0], m := .all, insert := true, ns := .keep, useIndex := true, cols := [0, 1] } .v2 2
    [[some 1, some 11], [some 1, some 12]] [(0, [some 1, some 10])] = none := by decide

/-- the table-level statement: a well-formed table stays well formed, and inside `clean` the table after the call is,
    as a multiset, SQL MERGE's table (or both fail and the table is unchanged) -/
theorem merge_table_spec (t : Table) (cfg : MergeCfg) (src : List Row) (hwf : WF t) (hok : mergeCheck t cfg = none)
    (hc : clean cfg (mergePath t cfg) (src.map (pad cfg.cols t.width)) t.rows = true) :
    WF (applyMerge t cfg src) ∧
    match sqlMerge cfg t.width (rowsOf t.rows) (src.map (pad cfg.cols t.width)) with
    | some rows => (rowsOf (applyMerge t cfg src).rows).Perm rows
    | none => applyMerge t cfg src = t := by
  have hag := merge_spec cfg (mergePath t cfg) t.width (src.map (pad cfg.cols t.width)) t.rows hwf.nodup hc
  unfold Agree at hag
  cases hm : mergeCore cfg (mergePath t cfg) t.width (src.map (pad cfg.cols t.width)) t.rows with
  | none =>
    have happ : applyMerge t cfg src = t := by simp [applyMerge, mergeT, hok, hm]
    rw [happ]
    refine ⟨hwf, ?_⟩
    cases hs : sqlMerge cfg t.width (rowsOf t.rows) (src.map (pad cfg.cols t.width)) with
    | none => rfl
    | some rows => rw [hm, hs] at hag; exact absurd hag id
  | some out =>
    have happ : applyMerge t cfg src
        = { t with rows := out.kept ++ attach t.next out.written, next := t.next + out.written.length } := by
      simp [applyMerge, mergeT, hok, hm]
    have hkept : ∃ f : Nat × Row → Bool, out.kept = t.rows.filter f := by
      simp only [mergeCore] at hm
      split at hm
      · cases hm
      · split at hm
        · cases hm
        · cases hm; exact ⟨_, rfl⟩
    obtain ⟨f, hf⟩ := hkept
    have hw := wf_filter_attach hwf.nodup hwf.bound f out.written
    rw [happ]
    refine ⟨⟨by rw [hf]; exact hw.1, by rw [hf]; exact hw.2⟩, ?_⟩
    cases hs : sqlMerge cfg t.width (rowsOf t.rows) (src.map (pad cfg.cols t.width)) with
    | none => rw [hm, hs] at hag; exact absurd hag id
    | some rows =>
      rw [hm, hs] at hag
      simp only [rowsOf_append, rowsOf_attach]
      exact hag

/-! ### the two deviations (each refutes `C12_full`; witnesses replayed on the implementation: corpus/C12) -/

/-- deviation 1 (`merge_null_key_source_dropped`): a source row whose key is NULL matches nothing, so SQL MERGE inserts
    it; the code drops it -/
theorem C12_counterexample : ¬ C12_full := by
  intro h
  have := h { on := [0], m := .all, insert := true, ns := .keep, useIndex := true, cols := [0, 1] } .v2 2
    [[none, some 9]] [(0, [some 1, some 10])] (by decide)
  have hm : mergeCore { on := [0], m := .all, insert := true, ns := .keep, useIndex := true, cols := [0, 1] } .v2 2
      [[none, some 9]] [(0, [some 1, some 10])]
      = some { kept := [(0, [some 1, some 10])], written := [], stats := { ins := 0, upd := 0, del := 0 } } := by decide
  have hs : sqlMerge { on := [0], m := .all, insert := true, ns := .keep, useIndex := true, cols := [0, 1] } 2
      (rowsOf [(0, [some 1, some 10])]) [[none, some 9]] = some [[some 1, some 10], [none, some 9]] := by decide
  rw [hm, hs] at this
  have := List.Perm.length_eq this
  simp [rowsOf] at this

/-- deviation 2 (`merge_null_key_target_kept`): a target row whose keys are all NULL is matched by no source row, so
    WHEN NOT MATCHED BY SOURCE THEN DELETE removes it; the Merger keeps it -/
theorem merge_null_key_target_counterexample :
    ¬ Agree (mergeCore { on := [0], m := .all, insert := false, ns := .delete, useIndex := true, cols := [0, 1] } .merger 2
        [[some 1, some 11]] [(0, [some 1, some 10]), (1, [none, some 30])])
      (sqlMerge { on := [0], m := .all, insert := false, ns := .delete, useIndex := true, cols := [0, 1] } 2
        (rowsOf [(0, [some 1, some 10]), (1, [none, some 30])]) [[some 1, some 11]]) := by
  have hm : mergeCore { on := [0], m := .all, insert := false, ns := .delete, useIndex := true, cols := [0, 1] } .merger 2
      [[some 1, some 11]] [(0, [some 1, some 10]), (1, [none, some 30])]
      = some { kept := [(1, [none, some 30])], written := [[some 1, some 11]], stats := { ins := 0, upd := 1, del := 0 } } := by
    decide
  have hs : sqlMerge { on := [0], m := .all, insert := false, ns := .delete, useIndex := true, cols := [0, 1] } 2
      (rowsOf [(0, [some 1, some 10]), (1, [none, some 30])]) [[some 1, some 11]] = some [[some 1, some 11]] := by decide
  rw [hm, hs]
  intro h
  have := List.Perm.length_eq h
  simp [rowsOf] at this

/-- `WhenMatched::Fail` fails the job as soon as one source row matches a target row, on both paths (the Merger path
    ignored it before lance fix 049c124), whatever the other clauses -/
theorem merge_fail_fails (cfg : MergeCfg) (path : Path) (k : Nat) (S : List Row) (T : Tbl) (hm : cfg.m = .fail)
    (t : Nat × Row) (ht : t ∈ T) (hmatch : matchedBySource cfg.on S t.2 = true) :
    mergeCore cfg path k S T = none := by
  have : matchedPairs cfg.on S T ≠ [] := by
    intro hnil
    rw [pairs_eq_nil_iff] at hnil
    rw [hnil t ht] at hmatch
    cases hmatch
  simp [mergeCore, hm, this]

example : mergeCore { on := [0], m := .fail, insert := true, ns := .delete, useIndex := true, cols := [0, 1] } .merger 2
    [[some 1, some 11]] [(0, [some 1, some 10])] = none := by decide

/-- the two paths disagree with each other on a partially NULL two-column key (so the result depends on when_matched /
    the index, which select the path): the Merger inserts the source row (1, NULL), the v2 plan drops it -/
theorem merge_path_dependent_counterexample :
    (mergeCore { on := [0, 1], m := .all, insert := true, ns := .keep, useIndex := true, cols := [0, 1] } .v2 2
        [[some 1, none]] []).map (fun o => o.written) = some []
    ∧ (mergeCore { on := [0, 1], m := .all, insert := true, ns := .keep, useIndex := true, cols := [0, 1] } .merger 2
        [[some 1, none]] []).map (fun o => o.written) = some [[some 1, none]] := by
  decide

end LanceModel.C12
