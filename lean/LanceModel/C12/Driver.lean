import LanceModel.Util
import LanceModel.Table.Basic
import LanceModel.Query.Eval
import LanceModel.C12.Model
/-
C12 driver.  Op lines (grammar: top of harness/src/bin/c12.rs):

  create f=<nat> s=<0|1> k=<K> <rows> | append <rows> | index c<i> | delete <expr> | count <expr>
  update <assigns> <expr|-> | merge on=… m=… nm=… ns=… ix=… cols=… <rows> [<expr>] [<expr>]

→ `ok [ins= upd= del=] [upd=] n=<count> rows=<sorted rows>` / `ok n=<k>` / `ok` / `err <kind>` / `err parse` / `err no_table`.
-/
namespace LanceModel.C12.Driver
open LanceModel.Util LanceModel.Query LanceModel.C12
open LanceModel.Table (parseRows showRows)

abbrev St := Option C12.Table

inductive Op where
  | create (f : Nat) (k : Nat) (rows : List Row)
  | append (rows : List Row)
  | index (c : Nat)
  | delete (p : Expr)
  | count (p : Expr)
  | update (as : List (Nat × Rhs)) (cond : Option Expr)
  | merge (cfg : MergeCfg) (rows : List Row)

def tokVal (key tok : String) : Option String :=
  if tok.startsWith (key ++ "=") then some (String.ofList (tok.toList.drop (key.length + 1))) else none

/-- at most 9 digits -/
def parseSmallNat (s : String) : Option Nat :=
  if s.length > 9 then none else parseNatChars s.toList

def parseCols (s : String) : Option (List Nat) := (s.splitOn ",").mapM parseCol

def strictlyIncreasing : List Nat → Bool
  | a :: b :: rest => decide (a < b) && strictlyIncreasing (b :: rest)
  | _ => true

def distinctNats : List Nat → Bool
  | [] => true
  | a :: rest => !rest.contains a && distinctNats rest

def parseRhs (s : String) : Option Rhs :=
  if s = "n" then some (.lit none)
  else if s.startsWith "c" then
    match s.splitOn "+" with
    | [c] => (parseCol c).map Rhs.col
    | [c, k] =>
      match parseCol c, Query.parseLit k with
      | some c, some k => some (.colPlus c k)
      | _, _ => none
    | _ => none
  else (Query.parseLit s).map fun v => .lit (some v)

def parseAssign (s : String) : Option (Nat × Rhs) :=
  match s.splitOn ":=" with
  | [c, r] =>
    match parseCol c, parseRhs r with
    | some c, some r => some (c, r)
    | _, _ => none
  | _ => none

def parseAssigns (s : String) : Option (List (Nat × Rhs)) :=
  match (s.splitOn ",").mapM parseAssign with
  | some as => if distinctNats (as.map (·.1)) then some as else none
  | none => none

def parseBit (s : String) : Option Bool :=
  if s = "0" then some false else if s = "1" then some true else none

def parseOp (line : String) : Option Op :=
  match splitTokens line with
  | ["create", f, s, k, rows] => do
    let f ← (tokVal "f" f) >>= parseSmallNat
    let _ ← (tokVal "s" s) >>= parseBit
    let k ← (tokVal "k" k) >>= parseSmallNat
    if k < 1 ∨ k > 4 ∨ f = 0 ∨ f > 1000 then none
    let rows ← parseRows rows
    if !(rows.all fun r => r.length == k) then none
    some (.create f k rows)
  | ["append", rows] => (parseRows rows).map Op.append
  | ["index", c] => (parseCol c).map Op.index
  | "delete" :: rest => (parseExprAll rest).map Op.delete
  | "count" :: rest => (parseExprAll rest).map Op.count
  | "update" :: as :: rest => do
    let as ← parseAssigns as
    if rest.isEmpty then none
    let cond ← (if rest = ["-"] then some none else (parseExprAll rest).map some)
    some (.update as cond)
  | "merge" :: on :: m :: nm :: ns :: ix :: cols :: rows :: rest => do
    let on ← (tokVal "on" on) >>= parseCols
    let m ← tokVal "m" m
    let nm ← tokVal "nm" nm
    let ns ← tokVal "ns" ns
    let ix ← (tokVal "ix" ix) >>= parseBit
    let cols ← (tokVal "cols" cols) >>= parseCols
    if !(strictlyIncreasing cols) ∨ !(distinctNats on) then none
    let rows ← parseRows rows
    if !(rows.all fun r => r.length == cols.length) then none
    let (m, rest) ← (match m with
      | "nothing" => some (Matched.nothing, rest)
      | "all" => some (Matched.all, rest)
      | "fail" => some (Matched.fail, rest)
      | "if" => (parseExpr rest).map fun (e, rest) => (Matched.iff e, rest)
      | _ => none)
    let insert ← (match nm with
      | "insert" => some true
      | "nothing" => some false
      | _ => none)
    let (ns, rest) ← (match ns with
      | "keep" => some (NotBySrc.keep, rest)
      | "delete" => some (NotBySrc.delete, rest)
      | "if" => (parseExpr rest).map fun (e, rest) => (NotBySrc.iff e, rest)
      | _ => none)
    if !rest.isEmpty then none
    some (.merge { on := on, m := m, insert := insert, ns := ns, useIndex := ix, cols := cols } rows)
  | _ => none

/-! canonical order of the printed scan: lexicographic, NULL first (Rust's `Vec<Option<i64>>` order) -/

def cellLe : Cell → Cell → Bool
  | none, _ => true
  | some _, none => false
  | some a, some b => decide (a ≤ b)

def rowLe : Row → Row → Bool
  | [], _ => true
  | _ :: _, [] => false
  | a :: as, b :: bs => if a == b then rowLe as bs else cellLe a b

def insertRow (r : Row) : List Row → List Row
  | [] => [r]
  | x :: xs => if rowLe r x then r :: x :: xs else x :: insertRow r xs

def sortRows (rs : List Row) : List Row := rs.foldr insertRow []

def showTbl (t : C12.Table) : String :=
  "n=" ++ toString t.rows.length ++ " rows=" ++ showRows (sortRows (rowsOf t.rows))

def rhsCols (k : Nat) : Rhs → Bool
  | .lit _ => true
  | .col j => decide (j < k)
  | .colPlus j _ => decide (j < k)

def step (s : St) (line : String) : St × String :=
  match parseOp line with
  | none => (s, "err parse")
  | some op =>
    match op, s with
    | .create _ k rows, none =>
      let t : C12.Table := { width := k, rows := attach 0 rows, next := rows.length, indexed := [] }
      (some t, "ok " ++ showTbl t)
    | .create _ _ _, some _ => (s, "err already_exists")
    | _, none => (s, "err no_table")
    | .append rows, some t =>
      if !(rows.all fun r => r.length == t.width) then (s, "err parse")
      else
        let t' := { t with rows := t.rows ++ attach t.next rows, next := t.next + rows.length }
        (some t', "ok " ++ showTbl t')
    | .index c, some t =>
      if c < t.width then (some { t with indexed := c :: t.indexed }, "ok") else (s, "err other")
    | .delete p, some t =>
      if !p.colsBelow t.width then (s, "err invalid_input")
      else
        let t' := { t with rows := deleteT p t.rows }
        (some t', "ok " ++ showTbl t')
    | .count p, some t =>
      if !p.colsBelow t.width then (s, "err invalid_input")
      else (s, "ok n=" ++ toString (countT p t.rows))
    | .update as cond, some t =>
      let ok := (match cond with
        | some p => p.colsBelow t.width
        | none => true) && as.all fun a => decide (a.1 < t.width) && rhsCols t.width a.2
      if !ok then (s, "err invalid_input")
      else
        let (rows, n) := updateT cond as t.next t.rows
        let t' := { t with rows := rows, next := t.next + n }
        (some t', "ok upd=" ++ toString n ++ " " ++ showTbl t')
    | .merge cfg rows, some t =>
      match mergeT t cfg rows with
      | .error e => (s, "err " ++ e)
      | .ok (t', st) =>
        (some t', "ok ins=" ++ toString st.ins ++ " upd=" ++ toString st.upd ++ " del=" ++ toString st.del ++ " " ++ showTbl t')

end LanceModel.C12.Driver
