import LanceModel.C12.Model
/-
The SPECIFICATION side of C12: what SQL says DELETE / UPDATE / MERGE do to a table seen as a list (multiset) of rows.
Nothing here looks at row identities, join orders or code paths.
-/
namespace LanceModel.C12
open LanceModel.Query

/-- `DELETE FROM t WHERE p`: the rows on which `p` is TRUE go; rows on which it is FALSE or NULL stay -/
def sqlDelete (p : Expr) (rows : List Row) : List Row := rows.filter fun r => !isTrue p r

/-- `UPDATE t SET … [WHERE p]`: exactly the rows on which `p` is TRUE are rewritten, in place -/
def sqlUpdate (cond : Option Expr) (as : List (Nat × Rhs)) (rows : List Row) : List Row :=
  rows.map fun r => if updCond cond r then applyAssigns as r else r

/-- the source rows that would update target row `t`: they match it on the key and pass the WHEN MATCHED condition -/
def updatersOf (cfg : MergeCfg) (S : List Row) (t : Row) : List Row :=
  (S.filter fun s => keyMatch cfg.on s t).filter fun s => updates cfg.m s t

/-- what SQL MERGE makes of one target row (`none` = the statement fails):
    matched by some source row → DoNothing keeps it, Fail fails, UpdateAll / UpdateIf replace it by THE source row that
    updates it (more than one → cardinality violation → failure, none → kept);
    not matched by any source row → Keep keeps it, Delete removes it, DeleteIf removes it when the condition is TRUE -/
def specRow (cfg : MergeCfg) (k : Nat) (S : List Row) (t : Row) : Option (List Row) :=
  if matchedBySource cfg.on S t then
    match cfg.m with
    | .nothing => some [t]
    | .fail => none
    | _ =>
      match updatersOf cfg S t with
      | [] => some [t]
      | [s] => some [overlay cfg.cols k s t]
      | _ => none
  else
    match cfg.ns with
    | .keep => some [t]
    | .delete => some []
    | .iff c => some (if isTrue c t then [] else [t])

/-- the source rows SQL MERGE inserts: those that match no target row (NULL keys never match, so they are inserted) -/
def sqlInserts (cfg : MergeCfg) (S : List Row) (T : List Row) : List Row :=
  if cfg.insert then S.filter fun s => !(T.any fun t => keyMatch cfg.on s t) else []

/-- SQL MERGE of the (padded) source rows `S` into the table `T` -/
def sqlMerge (cfg : MergeCfg) (k : Nat) (T : List Row) (S : List Row) : Option (List Row) :=
  if T.all fun t => (specRow cfg k S t).isSome then
    some ((T.flatMap fun t => (specRow cfg k S t).getD []) ++ sqlInserts cfg S T)
  else none

/-- the region in which merge_insert is SQL MERGE — the negation of the two recorded deviations:
    every unmatched source row is one the code is willing to insert (no NULL key on the v2 plan, not all keys NULL in the
    Merger); every unmatched target row has a non-NULL key when rows may be deleted -/
def clean (cfg : MergeCfg) (path : Path) (S : List Row) (T : Tbl) : Bool :=
  (!cfg.insert || S.all fun s => matchedInTarget cfg.on T s || insertable path cfg.on s) &&
  (decide (cfg.ns = .keep) || T.all fun t => matchedBySource cfg.on S t.2 || anyKey cfg.on t.2)

end LanceModel.C12
