import LanceModel.C12.SpecLemmas
/-
The refinement proof: inside the `clean` region the join-shaped `mergeCore` fails exactly when SQL MERGE fails and
otherwise produces a permutation of SQL MERGE's table.
-/
namespace LanceModel.C12
open LanceModel.Query

/-- the model's outcome and SQL's outcome agree: both fail, or both succeed with the same multiset of rows -/
def Agree (m : Option MergeOut) (s : Option (List Row)) : Prop :=
  match m, s with
  | some out, some rows => (rowsOf out.kept ++ out.written).Perm rows
  | none, none => True
  | _, _ => False

theorem matchedInTarget_eq (on : List Nat) (T : Tbl) (s : Row) :
    matchedInTarget on T s = (rowsOf T).any fun t => keyMatch on s t := by
  simp [matchedInTarget, rowsOf, List.any_map, Function.comp_def]

/-- membership of a row's identity in the identities of the updating pairs -/
theorem mem_pairIds_ups {cfg : MergeCfg} {S : List Row} {T : Tbl} (hT : (ids T).Nodup) {t : Nat × Row} (ht : t ∈ T) :
    t.1 ∈ pairIds ((matchedPairs cfg.on S T).filter fun p => updates cfg.m p.1 p.2.2) ↔ updatersOf cfg S t.2 ≠ [] := by
  rw [ups_eq, pairIds_flatMap T (fun t => updatersOf cfg S t.2), mem_replicates]
  constructor
  · rintro ⟨t', ht', hn, heq⟩
    have := eq_of_fst_eq hT ht ht' heq
    subst this
    intro h
    simp [h] at hn
  · intro h
    refine ⟨t, ht, ?_, rfl⟩
    intro h0
    exact h (List.eq_nil_of_length_eq_zero h0)

theorem nodup_ups_iff {cfg : MergeCfg} {S : List Row} {T : Tbl} (hT : (ids T).Nodup) :
    (pairIds ((matchedPairs cfg.on S T).filter fun p => updates cfg.m p.1 p.2.2)).Nodup
      ↔ ∀ t ∈ T, (updatersOf cfg S t.2).length ≤ 1 := by
  rw [ups_eq, pairIds_flatMap T (fun t => updatersOf cfg S t.2)]
  exact nodup_replicates hT _

theorem mergeCore_agrees (cfg : MergeCfg) (path : Path) (k : Nat) (S : List Row) (T : Tbl)
    (hT : (ids T).Nodup) (hc : clean cfg path S T = true) :
    Agree (mergeCore cfg path k S T) (sqlMerge cfg k (rowsOf T) S) := by
  simp only [clean, Bool.and_eq_true, Bool.or_eq_true, Bool.not_eq_true', decide_eq_true_eq, List.all_eq_true,
    List.isEmpty_iff] at hc
  obtain ⟨h1, h2⟩ := hc
  have hall : ((rowsOf T).all fun t => (specRow cfg k S t).isSome) = true ↔
      ∀ t ∈ T, (matchedBySource cfg.on S t.2 = true → cfg.m ≠ .fail) ∧
        (cfg.m ≠ .fail → (updatersOf cfg S t.2).length ≤ 1) := by
    simp only [rowsOf, List.all_map, List.all_eq_true, Function.comp_def, specRow_isSome]
  by_cases hfail : cfg.m = .fail ∧ matchedPairs cfg.on S T ≠ []
  · -- `Fail` with a matched row: both fail
    have hm : mergeCore cfg path k S T = none := by simp [mergeCore, hfail]
    have hs : sqlMerge cfg k (rowsOf T) S = none := by
      have hne := hfail.2
      rw [Ne, pairs_eq_nil_iff] at hne
      simp only [sqlMerge, ite_eq_right_iff, reduceCtorEq, imp_false]
      intro hA
      apply hne
      intro t ht
      have := ((hall.1 hA) t ht).1
      cases hb : matchedBySource cfg.on S t.2 with
      | false => rfl
      | true => exact absurd hfail.1 (this hb)
    rw [hm, hs]
    trivial
  · -- no matched row meets `Fail`
    have hnofail : ∀ t ∈ T, matchedBySource cfg.on S t.2 = true → cfg.m ≠ .fail := by
      intro t ht hb hf
      apply hfail
      refine ⟨hf, ?_⟩
      intro hnil
      rw [pairs_eq_nil_iff] at hnil
      rw [hnil t ht] at hb
      cases hb
    have hlen : (∀ t ∈ T, (updatersOf cfg S t.2).length ≤ 1) ↔
        ((rowsOf T).all fun t => (specRow cfg k S t).isSome) = true := by
      rw [hall]
      constructor
      · intro h t ht
        exact ⟨hnofail t ht, fun _ => h t ht⟩
      · intro h t ht
        by_cases hf : cfg.m = .fail
        · cases hb : matchedBySource cfg.on S t.2 with
          | false => simp [updaters_nil_of_unmatched hb]
          | true => exact absurd hf (hnofail t ht hb)
        · exact (h t ht).2 hf
    by_cases hnd : ∀ t ∈ T, (updatersOf cfg S t.2).length ≤ 1
    · -- both succeed
      have hA := hlen.1 hnd
      have hndup := (nodup_ups_iff (cfg := cfg) (S := S) hT).2 hnd
      -- inserted rows
      have hins : (if cfg.insert then S.filter fun s => !matchedInTarget cfg.on T s && insertable path cfg.on s else [])
          = sqlInserts cfg S (rowsOf T) := by
        simp only [sqlInserts]
        split
        · rename_i hi
          apply List.filter_congr
          intro s hs
          rw [← matchedInTarget_eq]
          rcases h1 with h1 | h1
          · rw [hi] at h1; cases h1
          · rcases h1 s hs with h | h <;> simp [h]
        · rfl
      -- kept rows
      have hkeep : dropIds (pairIds ((matchedPairs cfg.on S T).filter fun p => updates cfg.m p.1 p.2.2)
            ++ (T.filter fun t => nsDeletes cfg.ns cfg.on S t.2).map (·.1)) T
          = T.filter fun t => (updatersOf cfg S t.2).isEmpty && !sqlDeletes cfg S t.2 := by
        simp only [dropIds]
        apply List.filter_congr
        intro t ht
        have hu := mem_pairIds_ups (cfg := cfg) (S := S) hT ht
        have hd : t.1 ∈ (T.filter fun t => nsDeletes cfg.ns cfg.on S t.2).map (·.1)
            ↔ nsDeletes cfg.ns cfg.on S t.2 = true := mem_selIds hT (nsDeletes cfg.ns cfg.on S) ht
        have hsd : nsDeletes cfg.ns cfg.on S t.2 = sqlDeletes cfg S t.2 := by
          cases hb : matchedBySource cfg.on S t.2 with
          | true => cases hns : cfg.ns <;> simp [nsDeletes, sqlDeletes, hb, hns]
          | false =>
            rcases h2 with h2 | h2
            · simp [nsDeletes, sqlDeletes, h2]
            · have hk : anyKey cfg.on t.2 = true := by
                rcases h2 t ht with h | h
                · rw [hb] at h; cases h
                · exact h
              cases hns : cfg.ns <;> simp [nsDeletes, sqlDeletes, hb, hns, hk]
        simp only [List.contains_eq_mem, List.mem_append]
        by_cases hU : updatersOf cfg S t.2 = []
        · have hn : ¬ t.1 ∈ pairIds ((matchedPairs cfg.on S T).filter fun p => updates cfg.m p.1 p.2.2) :=
            fun hc => (hu.1 hc) hU
          cases hs : sqlDeletes cfg S t.2 with
          | true =>
            have : t.1 ∈ (T.filter fun t => nsDeletes cfg.ns cfg.on S t.2).map (·.1) := hd.2 (hsd.trans hs)
            simp [hU, this]
          | false =>
            have : ¬ t.1 ∈ (T.filter fun t => nsDeletes cfg.ns cfg.on S t.2).map (·.1) := by
              intro hc
              have := hd.1 hc
              rw [hsd, hs] at this
              cases this
            simp [hU, hn, this]
        · have : t.1 ∈ pairIds ((matchedPairs cfg.on S T).filter fun p => updates cfg.m p.1 p.2.2) := hu.2 hU
          have hne : (updatersOf cfg S t.2).isEmpty = false := by
            cases h : updatersOf cfg S t.2 with
            | nil => exact absurd h hU
            | cons a l => rfl
          simp [this, hne]
      -- written rows
      have hwr : ((matchedPairs cfg.on S T).filter fun p => updates cfg.m p.1 p.2.2).map
            (fun p => overlay cfg.cols k p.1 p.2.2)
          = T.flatMap fun t => (updatersOf cfg S t.2).map fun s => overlay cfg.cols k s t.2 := by
        rw [ups_eq, List.map_flatMap]
        simp only [List.map_map, Function.comp_def]
      -- the spec's rows, grouped by target row
      have hspec : ((rowsOf T).flatMap fun t => (specRow cfg k S t).getD [])
          = T.flatMap fun t =>
              (if (updatersOf cfg S t.2).isEmpty && !sqlDeletes cfg S t.2 then [t.2] else [])
                ++ (updatersOf cfg S t.2).map fun s => overlay cfg.cols k s t.2 := by
        simp only [rowsOf, List.flatMap_map]
        apply flatMap_congr'
        intro t ht
        apply specRow_getD
        simp only [rowsOf, List.all_map, List.all_eq_true, Function.comp_def] at hA
        exact hA t ht
      have hm : mergeCore cfg path k S T = some
          { kept := T.filter fun t => (updatersOf cfg S t.2).isEmpty && !sqlDeletes cfg S t.2,
            written := (T.flatMap fun t => (updatersOf cfg S t.2).map fun s => overlay cfg.cols k s t.2)
              ++ sqlInserts cfg S (rowsOf T),
            stats := { ins := (sqlInserts cfg S (rowsOf T)).length,
                       upd := ((matchedPairs cfg.on S T).filter fun p => updates cfg.m p.1 p.2.2).length,
                       del := (T.filter fun t => nsDeletes cfg.ns cfg.on S t.2).length } } := by
        simp only [mergeCore, hfail, ↓reduceIte, hndup, not_true_eq_false, hkeep, hwr, hins]
      have hs : sqlMerge cfg k (rowsOf T) S = some
          (((rowsOf T).flatMap fun t => (specRow cfg k S t).getD []) ++ sqlInserts cfg S (rowsOf T)) := by
        simp only [sqlMerge, hA, ↓reduceIte]
      rw [hm, hs, hspec]
      simp only [Agree]
      rw [← List.append_assoc]
      exact List.Perm.append_right _ (perm_core T _ _)
    · -- both fail: some target row has two updaters
      have hm : mergeCore cfg path k S T = none := by
        have : ¬ (pairIds ((matchedPairs cfg.on S T).filter fun p => updates cfg.m p.1 p.2.2)).Nodup :=
          fun h => hnd ((nodup_ups_iff hT).1 h)
        simp only [mergeCore, hfail, ↓reduceIte, this, not_false_eq_true]
      have hs : sqlMerge cfg k (rowsOf T) S = none := by
        have : ¬ ((rowsOf T).all fun t => (specRow cfg k S t).isSome) = true := fun h => hnd (hlen.2 h)
        simp only [sqlMerge, this, Bool.false_eq_true, ↓reduceIte]
      rw [hm, hs]
      trivial

end LanceModel.C12
