import LanceModel.C12.ListLemmas
import LanceModel.C12.Spec
/-
Lemmas that tie the join-shaped merge of the model (`mergeCore`: pairs, a duplicate check on the sequence of target
identities, a set of identities to delete, rows to write) to the row-by-row SQL MERGE of `Spec.lean`.
-/
namespace LanceModel.C12
open LanceModel.Query

/-- the updating pairs of the join, grouped by target row -/
theorem ups_eq (cfg : MergeCfg) (S : List Row) (T : Tbl) :
    (matchedPairs cfg.on S T).filter (fun p => updates cfg.m p.1 p.2.2)
      = T.flatMap fun t => (updatersOf cfg S t.2).map fun s => (s, t) := by
  simp only [matchedPairs, List.filter_flatMap, List.filter_map, updatersOf]
  rfl

theorem pairIds_flatMap (T : Tbl) (U : Nat × Row → List Row) :
    pairIds (T.flatMap fun t => (U t).map fun s => (s, t)) = T.flatMap fun t => List.replicate (U t).length t.1 := by
  induction T with
  | nil => rfl
  | cons x xs ih =>
    simp only [pairIds] at ih
    simp only [pairIds, List.flatMap_cons, List.map_append, List.map_map, ih]
    congr 1
    induction U x with
    | nil => rfl
    | cons a as iha => simp [List.replicate_succ, iha]

theorem mem_replicates {T : Tbl} {n : Nat × Row → Nat} {i : Nat} :
    i ∈ (T.flatMap fun t => List.replicate (n t) t.1) ↔ ∃ t ∈ T, n t ≠ 0 ∧ i = t.1 := by
  simp [List.mem_flatMap, List.mem_replicate]

/-- the duplicate check (`processed_row_ids.insert` fails) fires iff some target row has two updaters -/
theorem nodup_replicates {T : Tbl} (h : (ids T).Nodup) (n : Nat × Row → Nat) :
    (T.flatMap fun t => List.replicate (n t) t.1).Nodup ↔ ∀ t ∈ T, n t ≤ 1 := by
  induction T with
  | nil => simp
  | cons x xs ih =>
    simp only [ids, List.map_cons, List.nodup_cons] at h
    have ih' := ih h.2
    simp only [List.flatMap_cons, List.nodup_append, List.nodup_replicate, ih', List.mem_cons, forall_eq_or_imp]
    constructor
    · rintro ⟨h1, h2, _⟩
      exact ⟨h1, h2⟩
    · rintro ⟨h1, h2⟩
      refine ⟨h1, h2, ?_⟩
      intro a ha b hb hab
      rw [List.mem_replicate] at ha
      obtain ⟨t, ht, _, rfl⟩ := mem_replicates.1 hb
      apply h.1
      rw [← ha.2, hab]
      exact List.mem_map_of_mem (f := fun r : Nat × Row => r.1) ht

/-- the rows kept in place followed by the rows written is a permutation of the row-by-row result -/
theorem perm_core (L : Tbl) (keep : Nat × Row → Bool) (W : Nat × Row → List Row) :
    (rowsOf (L.filter keep) ++ L.flatMap W).Perm (L.flatMap fun t => (if keep t then [t.2] else []) ++ W t) := by
  induction L with
  | nil => simp [rowsOf]
  | cons x xs ih =>
    have hswap : ∀ A B : List Row, (A ++ (W x ++ B)).Perm (W x ++ (A ++ B)) := by
      intro A B
      rw [← List.append_assoc, ← List.append_assoc]
      exact List.Perm.append_right B List.perm_append_comm
    by_cases hk : keep x = true
    · simp only [List.filter_cons, hk, ↓reduceIte, rowsOf, List.map_cons, List.flatMap_cons, List.cons_append,
        List.nil_append]
      refine List.Perm.cons _ ?_
      simp only [rowsOf] at ih
      exact (hswap _ _).trans (List.Perm.append_left _ ih)
    · simp only [Bool.not_eq_true] at hk
      simp only [List.filter_cons, hk, Bool.false_eq_true, ↓reduceIte, List.flatMap_cons, List.nil_append]
      exact (hswap _ _).trans (List.Perm.append_left _ ih)

theorem flatMap_congr' {α β : Type} {l : List α} {f g : α → List β} (h : ∀ a ∈ l, f a = g a) :
    l.flatMap f = l.flatMap g := by
  induction l with
  | nil => rfl
  | cons x xs ih =>
    simp only [List.flatMap_cons]
    rw [h x (List.mem_cons_self), ih fun a ha => h a (List.mem_cons_of_mem _ ha)]

end LanceModel.C12
