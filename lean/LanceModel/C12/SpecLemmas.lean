import LanceModel.C12.MergeLemmas
/-
The row-by-row SQL MERGE (`specRow`) in the shape the model produces: a row kept in place or not, plus the rows
written for it.
-/
namespace LanceModel.C12
open LanceModel.Query

theorem updaters_nil_of_unmatched {cfg : MergeCfg} {S : List Row} {t : Row}
    (h : matchedBySource cfg.on S t = false) : updatersOf cfg S t = [] := by
  have : (S.filter fun s => keyMatch cfg.on s t) = [] := by
    rw [List.filter_eq_nil_iff]
    intro s hs hk
    have : matchedBySource cfg.on S t = true := List.any_eq_true.2 ⟨s, hs, hk⟩
    rw [h] at this
    cases this
  simp [updatersOf, this]

theorem updaters_nil_of_nothing {cfg : MergeCfg} {S : List Row} {t : Row} (h : cfg.m = .nothing) :
    updatersOf cfg S t = [] := by
  simp [updatersOf, h, updates]

theorem pairs_eq_nil_iff (on : List Nat) (S : List Row) (T : Tbl) :
    matchedPairs on S T = [] ↔ ∀ t ∈ T, matchedBySource on S t.2 = false := by
  simp only [matchedPairs, List.flatMap_eq_nil_iff, List.map_eq_nil_iff, List.filter_eq_nil_iff, matchedBySource]
  constructor
  · intro h t ht
    cases hb : S.any fun s => keyMatch on s t.2 with
    | false => rfl
    | true =>
      obtain ⟨s, hs, hk⟩ := List.any_eq_true.1 hb
      exact absurd hk (h t ht s hs)
  · intro h t ht s hs hk
    have : (S.any fun s => keyMatch on s t.2) = true := List.any_eq_true.2 ⟨s, hs, hk⟩
    rw [h t ht] at this
    cases this

/-- SQL's verdict on an unmatched target row -/
def sqlDeletes (cfg : MergeCfg) (S : List Row) (t : Row) : Bool :=
  !matchedBySource cfg.on S t &&
    match cfg.ns with
    | .keep => false
    | .delete => true
    | .iff c => isTrue c t

theorem specRow_isSome (cfg : MergeCfg) (k : Nat) (S : List Row) (t : Row) :
    (specRow cfg k S t).isSome = true ↔
      (matchedBySource cfg.on S t = true → cfg.m ≠ .fail) ∧ (cfg.m ≠ .fail → (updatersOf cfg S t).length ≤ 1) := by
  by_cases hm : matchedBySource cfg.on S t = true
  · cases hcm : cfg.m with
    | nothing => simp [specRow, hm, hcm, updaters_nil_of_nothing hcm]
    | fail => simp [specRow, hm, hcm]
    | all =>
      rcases hU : updatersOf cfg S t with _ | ⟨a, _ | ⟨b, l⟩⟩ <;> simp [specRow, hm, hcm, hU]
    | iff c =>
      rcases hU : updatersOf cfg S t with _ | ⟨a, _ | ⟨b, l⟩⟩ <;> simp [specRow, hm, hcm, hU]
  · simp only [Bool.not_eq_true] at hm
    have hU := updaters_nil_of_unmatched hm
    cases hns : cfg.ns <;> simp [specRow, hm, hns, hU]

theorem specRow_getD (cfg : MergeCfg) (k : Nat) (S : List Row) (t : Row) (h : (specRow cfg k S t).isSome = true) :
    (specRow cfg k S t).getD [] =
      (if (updatersOf cfg S t).isEmpty && !sqlDeletes cfg S t then [t] else [])
        ++ (updatersOf cfg S t).map fun s => overlay cfg.cols k s t := by
  by_cases hm : matchedBySource cfg.on S t = true
  · cases hcm : cfg.m with
    | nothing => simp [specRow, hm, hcm, updaters_nil_of_nothing hcm, sqlDeletes]
    | fail => simp [specRow, hm, hcm] at h
    | all =>
      rcases hU : updatersOf cfg S t with _ | ⟨a, _ | ⟨b, l⟩⟩
      · simp [specRow, hm, hcm, hU, sqlDeletes]
      · simp [specRow, hm, hcm, hU, sqlDeletes]
      · simp [specRow, hm, hcm, hU] at h
    | iff c =>
      rcases hU : updatersOf cfg S t with _ | ⟨a, _ | ⟨b, l⟩⟩
      · simp [specRow, hm, hcm, hU, sqlDeletes]
      · simp [specRow, hm, hcm, hU, sqlDeletes]
      · simp [specRow, hm, hcm, hU] at h
  · simp only [Bool.not_eq_true] at hm
    have hU := updaters_nil_of_unmatched hm
    cases hns : cfg.ns with
    | keep => simp [specRow, hm, hns, hU, sqlDeletes]
    | delete => simp [specRow, hm, hns, hU, sqlDeletes]
    | iff c => by_cases hc : isTrue c t = true <;> simp [specRow, hm, hns, hU, sqlDeletes, hc]

end LanceModel.C12
