import LanceModel.C12.Driver
def main : IO Unit := LanceModel.Util.runDriver LanceModel.C12.Driver.step none
