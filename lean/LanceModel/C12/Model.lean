import LanceModel.Query.Eval
/-
C12 model: delete / update / merge_insert on a table of rows with row identities.

The table is `Tbl = List (Nat × Row)`: every live row with the identity (`_rowid` / `_rowaddr`) the real code uses to
refer to it between the scan that finds rows and the step that removes them.  Fragments, deletion vectors and files are
not modelled (C01–C07, C11 do that); the observable of C12 is the multiset of rows, `count_rows` and the statistics.

Counterparts (rust/lance/src/dataset/write/):
  selIds / dropIds      delete.rs DeleteJob::execute_impl: filtered scan with `_rowid` capture, then apply_deletions
  deleteT, countT       DeleteBuilder::execute; Dataset::count_rows(Some(filter))
  applyAssigns, updateT update.rs UpdateJob::{apply_updates, execute_impl}: filtered scan, rewritten rows go to new fragments
                        (fresh identities), old positions are deleted (update_mode RewriteRows)
  mergePath             merge_insert.rs MergeInsertJob::can_use_create_plan / create_joined_stream
  matchedPairs          the hash join of source and target on the key columns (NULL never equals NULL)
  mergeCore             v2: assign_action.rs merge_insert_action + exec/write.rs MergeState::process_row_action;
                        Merger: merge_insert.rs Merger::{extract_selections, execute_batch}
  mergeCheck            MergeInsertBuilder::{try_new, try_build}, check_compatible_schema, the NotSupported guard of
                        execute_uncommitted_impl
-/
namespace LanceModel.C12
open LanceModel.Query

abbrev Tbl := List (Nat × Row)

def ids (t : Tbl) : List Nat := t.map (·.1)
def rowsOf (t : Tbl) : List Row := t.map (·.2)

/-- give fresh identities `n, n+1, …` to newly written rows -/
def attach : Nat → List Row → Tbl
  | _, [] => []
  | n, r :: rs => (n, r) :: attach (n + 1) rs

/-- the identities a filtered scan captures (`make_rowid_capture_stream`) -/
def selIds (f : Row → Bool) (t : Tbl) : List Nat := (t.filter fun r => f r.2).map (·.1)

/-- `apply_deletions`: remove the rows with these identities -/
def dropIds (dead : List Nat) (t : Tbl) : Tbl := t.filter fun r => !dead.contains r.1

/-- delete.rs: scan `WHERE p` capturing row ids, then delete those ids -/
def deleteT (p : Expr) (t : Tbl) : Tbl := dropIds (selIds (isTrue p) t) t

/-- `count_rows(Some(filter))`: the number of rows the filtered scan yields -/
def countT (p : Expr) (t : Tbl) : Nat := (selIds (isTrue p) t).length

/-! ### update -/

inductive Rhs where
  | lit (v : Cell)
  | col (j : Nat)
  | colPlus (j : Nat) (k : Int)
  deriving DecidableEq, Repr

/-- i64 wrap-around (DataFusion's `+` on Int64 is `add_wrapping`) -/
def wrap64 (x : Int) : Int := (x + 9223372036854775808) % 18446744073709551616 - 9223372036854775808

def Rhs.eval (old : Row) : Rhs → Cell
  | .lit v => v
  | .col j => cellAt old j
  | .colPlus j k => (cellAt old j).map fun x => wrap64 (x + k)

/-- `apply_updates`: every right-hand side reads the row as it was before the statement -/
def applyAssigns (as : List (Nat × Rhs)) (old : Row) : Row :=
  as.foldl (fun new a => new.set a.1 (a.2.eval old)) old

def updCond : Option Expr → Row → Bool
  | none, _ => true
  | some p, r => isTrue p r

/-- update.rs: (new table, rows_updated) -/
def updateT (cond : Option Expr) (as : List (Nat × Rhs)) (next : Nat) (t : Tbl) : Tbl × Nat :=
  let sel := t.filter fun r => updCond cond r.2
  (dropIds (sel.map (·.1)) t ++ attach next (sel.map fun r => applyAssigns as r.2), sel.length)

/-! ### merge_insert -/

inductive Matched where
  | nothing
  | all
  | fail
  | iff (c : Expr)
  deriving DecidableEq, Repr

inductive NotBySrc where
  | keep
  | delete
  | iff (c : Expr)
  deriving DecidableEq, Repr

structure MergeCfg where
  on : List Nat
  m : Matched
  insert : Bool
  ns : NotBySrc
  useIndex : Bool
  cols : List Nat
  deriving Repr

inductive Path where
  | v2
  | merger
  deriving DecidableEq, Repr

structure Stats where
  ins : Nat
  upd : Nat
  del : Nat
  deriving DecidableEq, Repr

def posOf (c : Nat) : List Nat → Option Nat
  | [] => none
  | d :: ds => if c = d then some 0 else (posOf c ds).map (· + 1)

/-- a source row (cells in the order of `cols`) as a full-width row, NULL where the source has no column -/
def pad (cols : List Nat) (k : Nat) (s : Row) : Row :=
  (List.range k).map fun i =>
    match posOf i cols with
    | some p => cellAt s p
    | none => none

/-- the join condition: every key column non-NULL on both sides and equal -/
def keyMatch (on : List Nat) (s t : Row) : Bool :=
  on.all fun c =>
    match cellAt s c, cellAt t c with
    | some a, some b => a == b
    | _, _ => false

/-- the row an update writes: source values in the source's columns, the old values elsewhere -/
def overlay (cols : List Nat) (k : Nat) (s t : Row) : Row :=
  (List.range k).map fun i => if cols.contains i then cellAt s i else cellAt t i

def anyKey (on : List Nat) (r : Row) : Bool := on.any fun c => (cellAt r c).isSome
def allKeys (on : List Nat) (r : Row) : Bool := on.all fun c => (cellAt r c).isSome

/-- which unmatched source rows the code is willing to insert: the v2 plan wants every key column non-NULL
    (`source_has_key`), the Merger at least one (`not_all_null`) -/
def insertable (path : Path) (on : List Nat) (s : Row) : Bool :=
  match path with
  | .v2 => allKeys on s
  | .merger => anyKey on s

/-- does a matched (source, target) pair update the target? (`fail` is looked at separately: any matched pair fails the job —
    v2: `Action::Fail`; Merger: the check at the top of the matched branch, lance fix 049c124) -/
def updates (m : Matched) (s t : Row) : Bool :=
  match m with
  | .nothing => false
  | .all => true
  | .fail => true
  | .iff c => isTrue c (s ++ t)

/-- the matched side of the join, target-major (the join's output order is unspecified; nothing below depends on it) -/
def matchedPairs (on : List Nat) (S : List Row) (T : Tbl) : List (Row × (Nat × Row)) :=
  T.flatMap fun t => (S.filter fun s => keyMatch on s t.2).map fun s => (s, t)

def matchedBySource (on : List Nat) (S : List Row) (t : Row) : Bool := S.any fun s => keyMatch on s t
def matchedInTarget (on : List Nat) (T : Tbl) (s : Row) : Bool := T.any fun t => keyMatch on s t.2

/-- target rows `when_not_matched_by_source` removes: unmatched, with at least one non-NULL key (`right_only`), and
    satisfying the DeleteIf condition -/
def nsDeletes (ns : NotBySrc) (on : List Nat) (S : List Row) (t : Row) : Bool :=
  match ns with
  | .keep => false
  | .delete => !matchedBySource on S t && anyKey on t
  | .iff c => !matchedBySource on S t && anyKey on t && isTrue c t

/-- the target identities of a list of (source, target) pairs -/
def pairIds (ps : List (Row × (Nat × Row))) : List Nat := ps.map fun p => p.2.1

structure MergeOut where
  kept : Tbl
  written : List Row
  stats : Stats
  deriving DecidableEq, Repr

/-- one merge over padded source rows `S`; `none` = the job fails (duplicate match, or a match under `Fail`) -/
def mergeCore (cfg : MergeCfg) (path : Path) (k : Nat) (S : List Row) (T : Tbl) : Option MergeOut :=
  let pairs := matchedPairs cfg.on S T
  if cfg.m = .fail ∧ pairs ≠ [] then none
  else
    let ups := pairs.filter fun p => updates cfg.m p.1 p.2.2
    if ¬ (pairIds ups).Nodup then none
    else
      let dels := T.filter fun t => nsDeletes cfg.ns cfg.on S t.2
      let ins := if cfg.insert then S.filter fun s => !matchedInTarget cfg.on T s && insertable path cfg.on s else []
      some { kept := dropIds (pairIds ups ++ dels.map (·.1)) T,
             written := ups.map (fun p => overlay cfg.cols k p.1 p.2.2) ++ ins,
             stats := { ins := ins.length, upd := ups.length, del := dels.length } }

/-! ### the table of a history -/

structure Table where
  width : Nat
  rows : Tbl
  next : Nat
  indexed : List Nat
  deriving Repr

/-- `join_key_as_scalar_index`: a single key column with a scalar index -/
def hasKeyIndex (t : Table) (cfg : MergeCfg) : Bool :=
  match cfg.on with
  | [c] => t.indexed.contains c
  | _ => false

/-- `can_use_create_plan`: the v2 plan needs when_matched ≠ DoNothing, no usable index on the key, a full-schema source
    and when_not_matched_by_source = Keep -/
def mergePath (t : Table) (cfg : MergeCfg) : Path :=
  let full := cfg.cols == List.range t.width
  if cfg.m ≠ .nothing ∧ (!cfg.useIndex || !hasKeyIndex t cfg) ∧ full ∧ cfg.ns = .keep then .v2 else .merger

/-- `create_joined_stream`: the Merger joins through the index (MapIndexExec + TakeExec) instead of a full scan -/
def indexedJoin (t : Table) (cfg : MergeCfg) : Bool :=
  mergePath t cfg == .merger && decide (cfg.ns = .keep) && cfg.useIndex && hasKeyIndex t cfg

def condCols : Matched → NotBySrc → Nat → List Nat → Bool
  | m, ns, k, cols =>
    (match m with
      | .iff c => c.colsBelow (2 * k) && (List.range (2 * k)).all fun i => !c.mentions i || cols.contains (i % k)
      | _ => true) &&
    (match ns with
      | .iff c => c.colsBelow k
      | _ => true)

/-- why a merge is refused before it runs -/
def mergeCheck (t : Table) (cfg : MergeCfg) : Option String :=
  let k := t.width
  if cfg.on.isEmpty then some "invalid_input"
  else if !cfg.insert ∧ cfg.m = .nothing ∧ cfg.ns = .keep then some "invalid_input"
  else if !(cfg.cols.all (· < k)) then some "invalid_input"
  else if !(cfg.on.all cfg.cols.contains) then some (if indexedJoin t cfg then "other" else "invalid_input")
  else if !condCols cfg.m cfg.ns k cfg.cols then some "invalid_input"
  else if cfg.cols.length < k ∧ cfg.ns ≠ .keep then some "other"
  else none

def mergeT (t : Table) (cfg : MergeCfg) (src : List Row) : Except String (Table × Stats) :=
  match mergeCheck t cfg with
  | some e => .error e
  | none =>
    let S := src.map (pad cfg.cols t.width)
    match mergeCore cfg (mergePath t cfg) t.width S t.rows with
    | none => .error "other"
    | some out =>
      .ok ({ t with rows := out.kept ++ attach t.next out.written, next := t.next + out.written.length }, out.stats)

/-- the table after a merge_insert call: a failed job commits nothing -/
def applyMerge (t : Table) (cfg : MergeCfg) (src : List Row) : Table :=
  match mergeT t cfg src with
  | .ok (t', _) => t'
  | .error _ => t

end LanceModel.C12
