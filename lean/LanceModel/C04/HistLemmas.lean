import LanceModel.C04.CommitLemmas
/-
C04 helper lemmas: one commit / one compaction as a step of a history (what becomes of the visible rows, of the rows killed
earlier, of the fragment id high-water mark).
-/
namespace LanceModel.C04

theorem build_maxFrag_ge (t : Table) (o : Txn) : t.maxFrag ≤ (build t o).maxFrag := by
  unfold build
  cases o.kind with
  | delete => exact Nat.le_refl _
  | update => exact newMax_ge t o
  | rewrite => exact newMax_ge t o
  | reserve => exact Nat.le_succ _

theorem live_lt {t : Table} (hw : t.WF) {a : Addr} (h : t.live a) : a.1 < t.maxFrag := by
  obtain ⟨f, hf, _⟩ := h
  exact get_lt hw hf

/-- everything a successful commit does to the visible rows, in one statement -/
theorem commit_effect {db db' : Db} {r : Nat} {T : Txn} {A : List Addr} {aff : Option (List Addr)} {tok : Nat}
    (hinv : db.Inv) (hb : WellBuilt (db.tableAt r) T A) (haff : aff = some A ∨ aff = none)
    (hc : commit db r T aff tok = .ok db') :
    db'.Inv ∧ db'.base = db.base ∧ db'.version = db.version + 1 ∧
    (∀ a ∈ A, db.latest.live a) ∧
    (∀ a, db'.latest.live a ↔
      (db.latest.live a ∧ a ∉ A) ∨ (T.kind = .update ∧ a.1 = db.latest.maxFrag ∧ a.2 < T.newRows.length)) ∧
    (∀ a, db'.latest.live a →
      db'.latest.rowAt a = if a.1 = db.latest.maxFrag then T.newRows[a.2]? else db.latest.rowAt a) ∧
    db.latest.maxFrag ≤ db'.latest.maxFrag := by
  obtain ⟨T', hdb, hreb, hinv'⟩ := commit_sound hinv hb haff hc
  have hw := inv_latest_wf hinv
  have hl : db'.latest = build db.latest T' := by rw [hdb]; exact latest_append db _
  refine ⟨hinv', by rw [hdb], by rw [hdb]; unfold Db.version; simp, rebased_live hb hreb, ?_, ?_, ?_⟩
  · intro a; rw [hl]; exact rebased_effect hw hb hreb a
  · intro a ha; rw [hl] at ha ⊢; exact rebased_rows hw hb hreb a ha
  · rw [hl]; exact build_maxFrag_ge _ _

/-! ### compaction as a step -/

theorem compactNeeded_pos {t : Table} (hw : t.WF) (h : compactNeeded t = true) : 0 < t.maxFrag := by
  unfold compactNeeded at h
  cases hf : t.frags with
  | nil => rw [hf] at h; cases h
  | cons f r =>
    have := (hw.2 f (by rw [hf]; simp)).1
    omega

theorem get_rewrite_all {t t1 : Table} (hfr : t1.frags = t.frags) (nid : Nat) (i : Nat) :
    (build t1 (rewriteTxn t nid)).get i = (newFrag t1 (rewriteTxn t nid)).find? (fun f => f.id == i) := by
  rw [get_build]
  show (if i ∈ (rewriteTxn t nid).removed then none else t1.get i).or _ = _
  by_cases hi : i ∈ (rewriteTxn t nid).removed
  · simp [hi]
  · have : t1.get i = none := by
      cases hg : t1.get i with
      | none => rfl
      | some c =>
        exfalso; apply hi
        obtain ⟨hm, hid⟩ := get_some hg
        show i ∈ t.frags.map (·.id)
        rw [← hfr, ← hid]
        exact List.mem_map_of_mem hm
    simp [hi, this]

theorem compact_latest {db : Db} (hn : compactNeeded db.latest = true) :
    (compact db).latest = build (build db.latest reserveTxn) (rewriteTxn db.latest db.latest.maxFrag) := by
  unfold compact
  rw [if_pos hn]
  unfold Db.latest
  simp only
  rw [lastTable_append]
  rfl

/-- reading the compacted version: one fragment, holding the scan of the version before -/
theorem compact_get {db : Db} (hinv : db.Inv) (hn : compactNeeded db.latest = true) (i : Nat) :
    (compact db).latest.get i =
      if db.latest.scan.isEmpty = false ∧ db.latest.maxFrag = i
      then some ⟨db.latest.maxFrag, 1, db.latest.scan, [], none⟩ else none := by
  have hpos := compactNeeded_pos (inv_latest_wf hinv) hn
  rw [compact_latest hn, get_rewrite_all (by rfl), find_newFrag]
  have hid : newFragId (build db.latest reserveTxn) (rewriteTxn db.latest db.latest.maxFrag) = db.latest.maxFrag := by
    unfold newFragId
    show (if (db.latest.maxFrag == 0) = true then _ else db.latest.maxFrag) = _
    have : (db.latest.maxFrag == 0) = false := by simp; omega
    rw [this]; rfl
  rw [hid]
  rfl

/-- after a compaction only rows of the one new fragment are visible: the old addresses are gone for good -/
theorem compact_fresh {db : Db} (hinv : db.Inv) (hn : compactNeeded db.latest = true) (a : Addr)
    (hl : (compact db).latest.live a) : a.1 = db.latest.maxFrag := by
  obtain ⟨f, hf, _⟩ := hl
  rw [compact_get hinv hn] at hf
  split at hf
  · rename_i hcond; exact hcond.2.symm
  · cases hf

theorem compact_noop {db : Db} (hn : compactNeeded db.latest = false) : compact db = db := by
  unfold compact
  rw [if_neg (by simp [hn])]

theorem compact_maxFrag_ge {db : Db} : db.latest.maxFrag ≤ (compact db).latest.maxFrag := by
  by_cases hn : compactNeeded db.latest = true
  · rw [compact_latest hn]
    exact Nat.le_trans (build_maxFrag_ge _ reserveTxn) (build_maxFrag_ge _ _)
  · rw [compact_noop (by simpa using hn)]
    exact Nat.le_refl _

end LanceModel.C04
