import LanceModel.C04.FinishLemmas
import LanceModel.C04.BuildLemmas
/-
C04 helper lemmas: the history invariant at the level of `Db`, and `commit_transaction` as a whole.
-/
namespace LanceModel.C04

/-- every version of the history is well formed and was built from its predecessor by the recorded transaction -/
def Db.Inv (db : Db) : Prop := Chain db.base db.log

theorem inv_split {db : Db} (h : db.Inv) (r : Nat) :
    Chain (db.tableAt r) (db.log.drop (r - 1)) ∧ lastTable (db.tableAt r) (db.log.drop (r - 1)) = db.latest ∧
      (db.tableAt r).WF := by
  unfold Db.Inv at h
  have hsplit : db.log.take (r - 1) ++ db.log.drop (r - 1) = db.log := List.take_append_drop _ _
  rw [← hsplit, chain_append] at h
  refine ⟨h.2, ?_, chain_wf_last h.1⟩
  unfold Db.tableAt Db.latest
  rw [← lastTable_append, hsplit]

theorem inv_latest_wf {db : Db} (h : db.Inv) : db.latest.WF := chain_wf_last h

theorem tableAt_version (db : Db) : db.tableAt db.version = db.latest := by
  unfold Db.tableAt Db.version Db.latest
  simp

theorem others_version (db : Db) : db.others db.version = [] := by
  unfold Db.others Db.version
  simp

theorem tryNew_affected (t : Table) (T : Txn) (aff : Option (List Addr)) :
    (tryNew t T aff).affected = none ∨ (tryNew t T aff).affected = aff := by
  unfold tryNew; split
  · exact .inl rfl
  · exact .inr rfl

/-- after the conflict checks the rebase state tracks the CURRENT version -/
theorem commit_tracks {db : Db} {r : Nat} {T : Txn} {aff : Option (List Addr)} {rb : Rebase} (hinv : db.Inv)
    (hck : checkAll (tryNew (db.tableAt r) T aff) (db.others r) = .ok rb) :
    Tracks (db.tableAt r) db.latest rb ∧ rb.txn = T ∧ rb.modified = modifiedIds T ∧
      (rb.affected = none ∨ rb.affected = aff) := by
  obtain ⟨hch, hlast, hw0⟩ := inv_split hinv r
  obtain ⟨hi1, hi2, hi3⟩ := tracks_init hw0 T aff
  obtain ⟨h1, h2, h3, h4⟩ := tracks_all hw0 hch hi1 hck
  rw [hlast] at h1
  refine ⟨h1, h2.trans hi2, h3.trans hi3, ?_⟩
  rw [h4]; exact tryNew_affected _ _ _

theorem commit_unfold (db : Db) (r : Nat) (T : Txn) (aff : Option (List Addr)) (tok : Nat) :
    commit db r T aff tok =
      match checkAll (tryNew (db.tableAt r) T aff) (db.others r) with
      | .error e => .error e
      | .ok rb =>
        match finish rb db.latest tok with
        | .error e => .error e
        | .ok T' => .ok { db with log := db.log ++ [(T', build db.latest T')] } := rfl

theorem latest_append (db : Db) (e : Txn × Table) : ({ db with log := db.log ++ [e] } : Db).latest = e.2 := by
  unfold Db.latest
  simp only
  rw [lastTable_append]
  rfl

/-- a successful commit: the recorded transaction is a correct rebase of `T` onto the latest version -/
theorem commit_sound {db db' : Db} {r : Nat} {T : Txn} {A : List Addr} {aff : Option (List Addr)} {tok : Nat}
    (hinv : db.Inv) (hb : WellBuilt (db.tableAt r) T A) (haff : aff = some A ∨ aff = none)
    (hc : commit db r T aff tok = .ok db') :
    ∃ T', db' = { db with log := db.log ++ [(T', build db.latest T')] } ∧ Rebased (db.tableAt r) db.latest T T' A ∧
      db'.Inv := by
  rw [commit_unfold] at hc
  cases hck : checkAll (tryNew (db.tableAt r) T aff) (db.others r) with
  | error e => rw [hck] at hc; cases hc
  | ok rb =>
    rw [hck] at hc
    simp only at hc
    cases hfin : finish rb db.latest tok with
    | error e => rw [hfin] at hc; cases hc
    | ok T' =>
      rw [hfin] at hc
      simp only at hc
      injection hc with hc
      obtain ⟨htr, htxn, hmod, haf⟩ := commit_tracks hinv hck
      have hwl := inv_latest_wf hinv
      have haff' : ∀ a, rb.affected = some a → a = A := by
        intro a ha
        rcases haf with h | h
        · rw [h] at ha; cases ha
        · rw [h] at ha
          rcases haff with h' | h'
          · rw [h'] at ha; injection ha with ha; exact ha.symm
          · rw [h'] at ha; cases ha
      have hreb := finish_spec hwl hb htr htxn hmod haff' hfin
      refine ⟨T', hc.symm, hreb, ?_⟩
      rw [← hc]
      unfold Db.Inv
      simp only
      rw [chain_append]
      refine ⟨hinv, ?_⟩
      have hlog := rebased_logged hb hreb
      exact ⟨hwl, hlog, rfl, build_wf hwl hlog⟩

theorem checkTxn_err {rb : Rebase} {o : Txn} {e : Err} (h : checkTxn rb o = .error e) : e = .retryable := by
  unfold checkTxn at h
  split at h
  · cases h
  · split at h
    · injection h with h; exact h.symm
    · cases h
  · split at h
    · cases h
    · split at h
      · injection h with h; exact h.symm
      · split at h
        · injection h with h; exact h.symm
        · split at h
          · injection h with h; exact h.symm
          · cases h

theorem checkAll_err {rb : Rebase} {os : List Txn} {e : Err} (h : checkAll rb os = .error e) : e = .retryable := by
  induction os generalizing rb with
  | nil => cases h
  | cons o t ih =>
    simp only [checkAll] at h
    cases h1 : checkTxn rb o with
    | error x =>
      rw [h1] at h
      injection h with h
      rw [← h]; exact checkTxn_err h1
    | ok rb1 => rw [h1] at h; exact ih h

/-- the loser of a commit is always told to retry -/
theorem commit_err {db : Db} {r : Nat} {T : Txn} {aff : Option (List Addr)} {tok : Nat} {e : Err} (hinv : db.Inv)
    (hc : commit db r T aff tok = .error e) : e = .retryable := by
  rw [commit_unfold] at hc
  cases hck : checkAll (tryNew (db.tableAt r) T aff) (db.others r) with
  | error x =>
    rw [hck] at hc
    injection hc with hc
    rw [← hc]; exact checkAll_err hck
  | ok rb =>
    rw [hck] at hc
    simp only at hc
    cases hfin : finish rb db.latest tok with
    | ok T' => rw [hfin] at hc; cases hc
    | error x =>
      rw [hfin] at hc
      injection hc with hc
      rw [← hc]
      obtain ⟨htr, _⟩ := commit_tracks hinv hck
      cases x with
      | retryable => rfl
      | internal => exact absurd hfin (finish_no_internal (inv_latest_wf hinv) htr)

/-- a transaction built on the latest version commits without any conflict -/
theorem commit_latest_ok {db : Db} (T : Txn) (aff : Option (List Addr)) (tok : Nat) :
    commit db db.version T aff tok = .ok { db with log := db.log ++ [(T, build db.latest T)] } := by
  rw [commit_unfold, others_version]
  simp only [checkAll]
  have : finish (tryNew (db.tableAt db.version) T aff) db.latest tok = .ok T := by
    unfold finish
    have hno : (tryNew (db.tableAt db.version) T aff).initial.any (·.2) = false := by
      unfold tryNew
      split
      · simp
      · simp [List.any_map]
    rw [hno]
    simp only [Bool.false_eq_true, if_false]
    unfold tryNew
    split <;> rfl
  rw [this]

/-! ### compaction -/

theorem chain_snoc {t : Table} {l : List (Txn × Table)} (h : Chain t l) (o : Txn) (hl : Logged (lastTable t l) o) :
    Chain t (l ++ [(o, build (lastTable t l) o)]) := by
  rw [chain_append]
  exact ⟨h, chain_wf_last h, hl, rfl, build_wf (chain_wf_last h) hl⟩

theorem logged_other {t : Table} {o : Txn} (h1 : o.kind ≠ .delete) (h2 : o.kind ≠ .update)
    (h3 : o.kind = .rewrite → o.newId = 0 ∨ ∀ f ∈ t.frags, f.id < o.newId) : Logged t o := by
  refine ⟨?_, h3⟩
  intro h
  rcases h with h | h
  · exact absurd h h1
  · exact absurd h h2

theorem compact_inv {db : Db} (hinv : db.Inv) : (compact db).Inv := by
  unfold compact
  split
  · -- reserve, then rewrite with the reserved id
    unfold Db.Inv
    simp only
    have h1 : Logged (lastTable db.base db.log) reserveTxn :=
      logged_other (by decide) (by decide) (fun h => by cases h)
    have hc1 := chain_snoc hinv reserveTxn h1
    have hl1 : lastTable db.base (db.log ++ [(reserveTxn, build (lastTable db.base db.log) reserveTxn)])
        = build (lastTable db.base db.log) reserveTxn := by
      rw [lastTable_append]; rfl
    have h2 : Logged (build (lastTable db.base db.log) reserveTxn) (rewriteTxn db.latest db.latest.maxFrag) := by
      refine logged_other (fun h => by cases h) (fun h => by cases h) (fun _ => Or.inr ?_)
      intro f hf
      exact ((inv_latest_wf hinv).2 f hf).1
    have hc2 := chain_snoc hc1 (rewriteTxn db.latest db.latest.maxFrag) (by rw [hl1]; exact h2)
    rw [hl1, List.append_assoc] at hc2
    exact hc2
  · exact hinv

end LanceModel.C04
