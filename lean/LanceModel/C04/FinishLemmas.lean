import LanceModel.C04.EffectLemmas
/-
C04 helper lemmas: `finish_delete_update` delivers what `Rebased` asks for, and never ends in an Internal error / panic.
-/
namespace LanceModel.C04

theorem mem_rewriteIds {rb : Rebase} {i : Nat} : i ∈ rewriteIds rb ↔ ∃ e ∈ rb.initial, e.2 = true ∧ e.1.id = i := by
  unfold rewriteIds
  simp only [List.mem_map, List.mem_filter]
  constructor
  · rintro ⟨e, ⟨h1, h2⟩, h3⟩; exact ⟨e, h1, h2, h3⟩
  · rintro ⟨e, h1, h2, h3⟩; exact ⟨e, ⟨h1, h2⟩, h3⟩

theorem lookupInit_of_mem {init : List (Frag × Bool)} (hn : (init.map (·.1.id)).Nodup) {e : Frag × Bool} (he : e ∈ init) :
    lookupInit init e.1.id = some e := by
  unfold lookupInit
  induction init with
  | nil => simp at he
  | cons g t ih =>
    simp only [List.map_cons, List.nodup_cons, List.mem_map, not_exists, not_and] at hn
    simp only [List.mem_cons] at he
    by_cases hg : g.1.id = e.1.id
    · rw [List.find?_cons_of_pos (by simp [hg])]
      rcases he with h | h
      · rw [h]
      · exact absurd hg.symm (hn.1 e h)
    · rw [List.find?_cons_of_neg (by simp [hg])]
      rcases he with h | h
      · exact absurd (by rw [h]) hg
      · exact ih hn.2 h

theorem flag_of_rewrite {t0 t : Table} {rb : Rebase} (htr : Tracks t0 t rb) {i : Nat} (hi : i ∈ rewriteIds rb) :
    flagOf rb i = true ∧ i ∈ rb.modified ∧ ∃ f, t0.get i = some f ∧ lookupInit rb.initial i = some (f, true) := by
  obtain ⟨e, he, h2, h3⟩ := mem_rewriteIds.mp hi
  have hl := lookupInit_of_mem htr.nodup he
  obtain ⟨h4, h5⟩ := htr.init e he
  rw [h3] at hl h4 h5
  refine ⟨by unfold flagOf; rw [hl]; exact h2, h5, e.1, h4, ?_⟩
  rw [hl]
  cases e with
  | mk a b => simp only at h2; rw [h2]

theorem rewrite_of_flag {rb : Rebase} {i : Nat} (h : flagOf rb i = true) : i ∈ rewriteIds rb := by
  unfold flagOf at h
  cases hl : lookupInit rb.initial i with
  | none => rw [hl] at h; cases h
  | some e =>
    rw [hl] at h
    simp only at h
    have hm : e ∈ rb.initial := List.mem_of_find?_eq_some hl
    have hid : e.1.id = i := by
      have := List.find?_some hl
      simpa using this
    exact mem_rewriteIds.mpr ⟨e, hm, h, hid⟩

/-- every fragment the transaction modifies exists at the read version -/
theorem modified_present {t0 : Table} {T : Txn} {A : List Addr} (hb : WellBuilt t0 T A) {i : Nat}
    (hi : i ∈ modifiedIds T) : ∃ f, t0.get i = some f := by
  rcases mem_modifiedIds.mp hi with ⟨u, hu, hui⟩ | h
  · obtain ⟨f, hf, _⟩ := hb.upd u hu
    exact ⟨f, by rw [← hui]; exact hf⟩
  · obtain ⟨f, hf, _⟩ := hb.rem i h
    exact ⟨f, hf⟩

theorem mem_existingDeletions {cur : Table} {ids : List Nat} {a : Addr} :
    a ∈ existingDeletions cur ids ↔ ∃ f ∈ cur.frags, f.id ∈ ids ∧ f.id = a.1 ∧ a.2 ∈ f.del := by
  unfold existingDeletions
  simp only [List.mem_flatMap, List.mem_filter, List.mem_map, List.contains_iff_mem]
  constructor
  · rintro ⟨f, ⟨h1, h2⟩, o, h3, rfl⟩
    exact ⟨f, h1, h2, rfl, h3⟩
  · rintro ⟨f, h1, h2, h3, h4⟩
    exact ⟨f, ⟨h1, h2⟩, a.2, h4, by rw [h3]⟩

section
variable {t0 cur : Table} {T : Txn} {A : List Addr} {rb : Rebase}

/-- the parts of `Rebased` that do not depend on how `finish` went -/
theorem present_of_tracks (hb : WellBuilt t0 T A) (htr : Tracks t0 cur rb) (hmod : rb.modified = modifiedIds T) :
    ∀ i ∈ modifiedIds T, ∃ f c, t0.get i = some f ∧ cur.get i = some c ∧ c.rows = f.rows ∧ (∀ o ∈ f.del, o ∈ c.del) := by
  intro i hi
  obtain ⟨f, hf⟩ := modified_present hb hi
  obtain ⟨c, hc, hrel⟩ := htr.frag i (by rw [hmod]; exact hi) f hf
  exact ⟨f, c, hf, hc, hrel.2.2.1, hrel.2.2.2.1⟩

/-- a fragment whose needs_rewrite flag is down is exactly as it was at the read version -/
theorem unchanged_of_noflag (htr : Tracks t0 cur rb) (hmod : rb.modified = modifiedIds T) {i : Nat}
    (hi : i ∈ modifiedIds T) (hfl : flagOf rb i = false) {f : Frag} (hf : t0.get i = some f) : cur.get i = some f := by
  obtain ⟨c, hc, hrel⟩ := htr.frag i (by rw [hmod]; exact hi) f hf
  rw [hfl] at hrel
  rw [hc, hrel.2.2.2.2.2.1 rfl]

/-- an address the transaction kills is not deleted at the read version -/
theorem not_del_of_mem (hb : WellBuilt t0 T A) {i o : Nat} (ha : (i, o) ∈ A) {f : Frag} (hf : t0.get i = some f) :
    o < f.rows.length ∧ o ∉ f.del := by
  obtain ⟨f', hf', h1, h2⟩ := hb.live (i, o) ha
  simp only at hf' h1 h2
  rw [hf] at hf'; injection hf' with hf'; subst hf'
  exact ⟨h1, h2⟩

/-- finish without any rewrite: the transaction goes through unchanged, and that is right -/
theorem rebased_noflag (hb : WellBuilt t0 T A) (htr : Tracks t0 cur rb) (hmod : rb.modified = modifiedIds T)
    (hno : ∀ i, flagOf rb i = false) : Rebased t0 cur T T A := by
  refine ⟨rfl, rfl, rfl, rfl, ?_, fun _ h => h, present_of_tracks hb htr hmod, ?_, ?_, ?_⟩
  · intro i hi; exact mem_modifiedIds.mpr (.inr hi)
  · intro i hi c hc o ho ha
    obtain ⟨f, hf⟩ := modified_present hb hi
    have := unchanged_of_noflag htr hmod hi (hno i) hf
    rw [hc] at this; injection this with this; subst this
    exact (not_del_of_mem hb ha hf).2 ho
  · intro i hi c hc o ho
    obtain ⟨f, hf, hall⟩ := hb.rem i hi
    have := unchanged_of_noflag htr hmod (mem_modifiedIds.mpr (.inr hi)) (hno i) hf
    rw [hc] at this; injection this with this; subst this
    exact hall o ho
  · intro u hu _
    obtain ⟨f, hf, hext, hdel, _⟩ := hb.upd u hu
    have hi : u.id ∈ modifiedIds T := mem_modifiedIds.mpr (.inl ⟨u, hu, rfl⟩)
    exact ⟨f, unchanged_of_noflag htr hmod hi (hno u.id) hf, hext, hdel⟩

end

/-- TransactionRebase::finish_delete_update returns a transaction that `build_manifest` can apply to the current version -/
theorem finish_spec {t0 cur : Table} {T T' : Txn} {A : List Addr} {rb : Rebase} {tok : Nat}
    (hwc : cur.WF) (hb : WellBuilt t0 T A) (htr : Tracks t0 cur rb) (htxn : rb.txn = T)
    (hmod : rb.modified = modifiedIds T) (haff : ∀ aff, rb.affected = some aff → aff = A)
    (hfin : finish rb cur tok = .ok T') : Rebased t0 cur T T' A := by
  unfold finish at hfin
  split at hfin
  · rename_i hany
    -- some fragment needs a rewrite
    cases haf : rb.affected with
    | none => rw [haf] at hfin; cases hfin
    | some aff =>
      have hA : aff = A := haff aff haf
      subst hA
      rw [haf] at hfin
      simp only at hfin
      split at hfin
      · cases hfin
      · split at hfin
        · cases hfin
        · rename_i hconf
          split at hfin
          · cases hfin
          · injection hfin with hfin
            subst hfin
            rw [htxn]
            -- no row-level conflict
            have hnc : ∀ i ∈ rewriteIds rb, ∀ c, cur.get i = some c → ∀ o ∈ c.del, (i, o) ∉ aff := by
              intro i hi c hc o ho ha
              apply hconf
              rw [List.any_eq_true]
              refine ⟨(i, o), ?_, by simpa using ha⟩
              obtain ⟨hcm, hci⟩ := get_some hc
              exact mem_existingDeletions.mpr ⟨c, hcm, by rw [hci]; exact hi, hci, ho⟩
            have hs1 : ∀ i ∈ modifiedIds T, ∀ c, cur.get i = some c → ∀ o ∈ c.del, (i, o) ∉ aff := by
              intro i hi c hc o ho ha
              cases hfl : flagOf rb i with
              | true => exact hnc i (rewrite_of_flag hfl) c hc o ho ha
              | false =>
                obtain ⟨f, hf⟩ := modified_present hb hi
                have := unchanged_of_noflag htr hmod hi hfl hf
                rw [hc] at this; injection this with this; subst this
                exact (not_del_of_mem hb ha hf).2 ho
            -- the merged deletion vector of a fragment to rewrite
            have hmerged : ∀ i ∈ rewriteIds rb, ∃ f c, t0.get i = some f ∧ cur.get i = some c ∧
                lookupInit rb.initial i = some (f, true) ∧ c.rows = f.rows ∧ c.WF ∧
                mergedOffsets cur aff i = union c.del (offsetsOf aff i) ∧ (∀ o ∈ f.del, o ∈ c.del) ∧
                c.id = f.id ∧ c.files = f.files := by
              intro i hi
              obtain ⟨_, him, f, hf, hl⟩ := flag_of_rewrite htr hi
              obtain ⟨c, hc, hrel⟩ := htr.frag i him f hf
              refine ⟨f, c, hf, hc, hl, hrel.2.2.1, get_wf hwc hc, ?_, hrel.2.2.2.1, hrel.1, hrel.2.1⟩
              unfold mergedOffsets; rw [hc]
            have hpsub : ∀ i ∈ promoted rb cur aff, i ∈ rewriteIds rb := by
              intro i hi; unfold promoted at hi; exact (List.mem_filter.mp hi).1
            refine ⟨rfl, rfl, rfl, ?_, ?_, ?_, present_of_tracks hb htr hmod, hs1, ?_, ?_⟩
            · -- ids
              simp only [List.map_map]
              apply List.map_congr_left
              intro u _
              simp only [Function.comp]
              split <;> rfl
            · -- remSub
              intro i hi
              simp only [List.mem_append] at hi
              rcases hi with h | h
              · exact mem_modifiedIds.mpr (.inr h)
              · have := (flag_of_rewrite htr (hpsub i h)).2.1
                rw [hmod] at this; exact this
            · intro i hi; simp only [List.mem_append]; exact .inl hi
            · -- s2
              intro i hi c hc o ho
              simp only [List.mem_append] at hi
              rcases hi with h | h
              · obtain ⟨f, hf, hall⟩ := hb.rem i h
                obtain ⟨f', c', hf', hc', hrows, hsub⟩ := present_of_tracks hb htr hmod i (mem_modifiedIds.mpr (.inr h))
                rw [hf] at hf'; injection hf' with hf'; subst hf'
                rw [hc] at hc'; injection hc' with hc'; subst hc'
                rcases hall o (by rw [← hrows]; exact ho) with h1 | h1
                · exact .inl (hsub o h1)
                · exact .inr h1
              · -- promoted: the merged vector has as many elements as the fragment has rows
                obtain ⟨f, c', hf, hc', hl, hrows, hwf, hme, _, _, _⟩ := hmerged i (hpsub i h)
                rw [hc] at hc'; injection hc' with hc'; subst hc'
                unfold promoted at h
                have hlen := (List.mem_filter.mp h).2
                rw [hl] at hlen
                simp only [beq_iff_eq] at hlen
                rw [hme] at hlen
                have hnd : (union c.del (offsetsOf aff i)).Nodup := nodup_union hwf.1
                have hbd : ∀ x ∈ union c.del (offsetsOf aff i), x < f.rows.length := by
                  intro x hx
                  rcases mem_union.mp hx with h1 | h1
                  · rw [← hrows]; exact hwf.2.1 x h1
                  · exact (not_del_of_mem hb (mem_offsetsOf.mp h1) hf).1
                have hall := (nodup_bounded hnd hbd).2 hlen o (by rw [← hrows]; exact ho)
                rcases mem_union.mp hall with h1 | h1
                · exact .inl h1
                · exact .inr (mem_offsetsOf.mp h1)
            · -- s3
              intro u' hu' hnr
              simp only [List.mem_map] at hu'
              obtain ⟨u, hu, rfl⟩ := hu'
              obtain ⟨f, hf, hext, hdel, o0, ho0⟩ := hb.upd u hu
              have hi : u.id ∈ modifiedIds T := mem_modifiedIds.mpr (.inl ⟨u, hu, rfl⟩)
              by_cases hrw : u.id ∈ rewriteIds rb
              · have hnp : u.id ∉ promoted rb cur aff := by
                  intro hp
                  apply hnr
                  simp only [List.mem_append]
                  split
                  · exact .inr hp
                  · exact .inr hp
                have hcond : ((rewriteIds rb).contains u.id && !(promoted rb cur aff).contains u.id) = true := by
                  simp [hrw, hnp]
                simp only [hcond, if_true]
                obtain ⟨f', c, hf', hc, _, hrows, hwf, hme, hsub, hcid, hcfiles⟩ := hmerged u.id hrw
                rw [hf] at hf'; injection hf' with hf'; subst hf'
                refine ⟨c, hc, ⟨?_, ?_, ?_, ?_, ?_, ?_⟩, ?_⟩
                · simp only; rw [hcid, hext.1]
                · simp only; rw [hcfiles, hext.2.1]
                · simp only; rw [hrows, hext.2.2.1]
                · intro o ho; simp only; rw [hme]; exact mem_union.mpr (.inl ho)
                · simp only; rw [hme]
                  exact length_union_gt (mem_offsetsOf.mpr ho0) (fun h => hs1 u.id hi c hc o0 h ho0)
                · refine ⟨?_, ?_, ?_, ?_⟩
                  · simp only; rw [hme]; exact nodup_union hwf.1
                  · intro o ho
                    simp only at ho ⊢
                    rw [hme] at ho
                    rcases mem_union.mp ho with h1 | h1
                    · rw [hext.2.2.1, ← hrows]; exact hwf.2.1 o h1
                    · rw [hext.2.2.1]; exact (not_del_of_mem hb (mem_offsetsOf.mp h1) hf).1
                  · intro h; simp at h
                  · intro d hd; simp only at hd ⊢; injection hd with hd; rw [← hd]
                · intro o
                  show o ∈ mergedOffsets cur aff u.id ↔ o ∈ c.del ∨ (u.id, o) ∈ aff
                  rw [hme, mem_union, mem_offsetsOf]
              · have hcond : ((rewriteIds rb).contains u.id && !(promoted rb cur aff).contains u.id) = false := by
                  simp [hrw]
                simp only [hcond, Bool.false_eq_true, if_false]
                have hfl : flagOf rb u.id = false := by
                  cases h : flagOf rb u.id with
                  | false => rfl
                  | true => exact absurd (rewrite_of_flag h) hrw
                exact ⟨f, unchanged_of_noflag htr hmod hi hfl hf, hext, hdel⟩
  · -- nothing to rewrite
    rename_i hany
    injection hfin with hfin
    rw [htxn] at hfin
    subst hfin
    apply rebased_noflag hb htr hmod
    intro i
    apply flagOf_false
    intro e he
    cases h : e.2 with
    | false => rfl
    | true =>
      exfalso; apply hany
      rw [List.any_eq_true]
      exact ⟨e, he, h⟩

/-- the Internal error and the two panics of finish_delete_update are unreachable -/
theorem finish_no_internal {t0 cur : Table} {rb : Rebase} {tok : Nat} (hwc : cur.WF) (htr : Tracks t0 cur rb) :
    finish rb cur tok ≠ .error .internal := by
  unfold finish
  split
  · rename_i hany
    cases haf : rb.affected with
    | none =>
      exfalso
      rw [List.any_eq_true] at hany
      obtain ⟨e, he, h⟩ := hany
      have := htr.noflag haf e he
      rw [this] at h; cases h
    | some aff =>
      simp only
      have hcur : ∀ i ∈ rewriteIds rb, ∃ c, cur.get i = some c ∧ c.del ≠ [] := by
        intro i hi
        obtain ⟨hfl, him, f, hf, _⟩ := flag_of_rewrite htr hi
        obtain ⟨c, hc, hrel⟩ := htr.frag i him f hf
        refine ⟨c, hc, ?_⟩
        have := hrel.2.2.2.2.2.2 hfl
        intro h; rw [h] at this; simp at this
      split
      · rename_i hexp
        exfalso
        rw [List.any_eq_true] at hexp
        obtain ⟨f, hf, hnone⟩ := hexp
        simp only [List.mem_filter, List.contains_iff_mem] at hf
        obtain ⟨c, hc, hne⟩ := hcur f.id hf.2
        have := get_of_mem hwc hf.1
        rw [hc] at this; injection this with this; subst this
        have hw := (hwc.2 c hf.1).2
        apply hne
        apply hw.2.2.1
        simpa using hnone
      · split
        · intro h; cases h
        · split
          · rename_i hunw
            exfalso
            rw [List.any_eq_true] at hunw
            obtain ⟨i, hi, hemp⟩ := hunw
            obtain ⟨c, hc, hne⟩ := hcur i hi
            unfold mergedOffsets at hemp
            rw [hc] at hemp
            simp only [List.isEmpty_iff] at hemp
            have hlen := length_union_ge (a := c.del) (b := offsetsOf aff i)
            rw [hemp] at hlen
            cases hd : c.del with
            | nil => exact hne hd
            | cons x xs => rw [hd] at hlen; simp at hlen
          · intro h; cases h
  · intro h; cases h

end LanceModel.C04
