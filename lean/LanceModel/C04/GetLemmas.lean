import LanceModel.C04.SetLemmas
/-
C04 helper lemmas: well-formed tables, visible rows, reading a fragment out of `build`.
-/
namespace LanceModel.C04

/-- the deletion vector is a set of offsets of the fragment and the deletion-file metadata describes it -/
def Frag.WF (f : Frag) : Prop :=
  f.del.Nodup ∧ (∀ o ∈ f.del, o < f.rows.length) ∧ (f.dfile = none → f.del = []) ∧
    (∀ d, f.dfile = some d → d.n = f.del.length)

/-- fragment ids are unique and below the high-water mark -/
def Table.WF (t : Table) : Prop :=
  (t.frags.map (·.id)).Nodup ∧ ∀ f ∈ t.frags, f.id < t.maxFrag ∧ f.WF

/-- the row at address `a` is visible -/
def Table.live (t : Table) (a : Addr) : Prop := ∃ f, t.get a.1 = some f ∧ a.2 < f.rows.length ∧ a.2 ∉ f.del

/-- the stored row at address `a` (visible or not) -/
def Table.rowAt (t : Table) (a : Addr) : Option Row :=
  match t.get a.1 with
  | some f => f.rows[a.2]?
  | none => none

theorem get_some {t : Table} {i : Nat} {f : Frag} (h : t.get i = some f) : f ∈ t.frags ∧ f.id = i := by
  unfold Table.get at h
  exact ⟨List.mem_of_find?_eq_some h, by simpa using List.find?_some h⟩

theorem find_of_mem {l : List Frag} (hn : (l.map (·.id)).Nodup) {f : Frag} (hf : f ∈ l) :
    l.find? (fun g => g.id == f.id) = some f := by
  induction l with
  | nil => simp at hf
  | cons g t ih =>
    simp only [List.map_cons, List.nodup_cons, List.mem_map, not_exists, not_and] at hn
    simp only [List.mem_cons] at hf
    by_cases hg : g.id = f.id
    · rw [List.find?_cons_of_pos (by simp [hg])]
      rcases hf with h | h
      · rw [h]
      · exact absurd hg.symm (hn.1 f h)
    · rw [List.find?_cons_of_neg (by simp [hg])]
      rcases hf with h | h
      · exact absurd (by rw [h]) hg
      · exact ih hn.2 h

theorem get_of_mem {t : Table} (hw : t.WF) {f : Frag} (hf : f ∈ t.frags) : t.get f.id = some f :=
  find_of_mem hw.1 hf

theorem get_lt {t : Table} (hw : t.WF) {i : Nat} {f : Frag} (h : t.get i = some f) : i < t.maxFrag := by
  obtain ⟨hm, hi⟩ := get_some h
  have := (hw.2 f hm).1
  omega

theorem get_wf {t : Table} (hw : t.WF) {i : Nat} {f : Frag} (h : t.get i = some f) : f.WF :=
  (hw.2 f (get_some h).1).2

theorem get_none_of_ge {t : Table} (hw : t.WF) {i : Nat} (h : t.maxFrag ≤ i) : t.get i = none := by
  cases hg : t.get i with
  | none => rfl
  | some f => have := get_lt hw hg; omega

/-! ### pickFirst / pickLast -/

theorem pickFirst_id (us : List Frag) (f : Frag) : (pickFirst us f).id = f.id := by
  unfold pickFirst
  split
  · rename_i u hu
    simpa using List.find?_some hu
  · rfl

theorem pickFirst_of_mem {us : List Frag} (hn : (us.map (·.id)).Nodup) {u f : Frag} (hu : u ∈ us) (hid : u.id = f.id) :
    pickFirst us f = u := by
  unfold pickFirst
  rw [← hid, find_of_mem hn hu]

theorem pickFirst_self {us : List Frag} {f : Frag} (h : ∀ u ∈ us, u.id ≠ f.id) : pickFirst us f = f := by
  unfold pickFirst
  have : us.find? (fun u => u.id == f.id) = none := by
    rw [List.find?_eq_none]
    intro u hu
    simpa using h u hu
  rw [this]

theorem pickLast_self {us : List Frag} {f : Frag} (h : ∀ u ∈ us, u.id ≠ f.id) : pickLast us f = f := by
  induction us with
  | nil => rfl
  | cons u t ih =>
    have hu : u.id ≠ f.id := h u (by simp)
    have : pickLast (u :: t) f = pickLast t f := by
      show pickLast t (if u.id == f.id then u else f) = pickLast t f
      simp [hu]
    rw [this]
    exact ih (fun v hv => h v (by simp [hv]))

theorem pickLast_eq_pickFirst {us : List Frag} (hn : (us.map (·.id)).Nodup) (f : Frag) :
    pickLast us f = pickFirst us f := by
  induction us generalizing f with
  | nil => rfl
  | cons u t ih =>
    simp only [List.map_cons, List.nodup_cons, List.mem_map, not_exists, not_and] at hn
    by_cases hu : u.id = f.id
    · have h1 : pickFirst (u :: t) f = u := by
        unfold pickFirst; simp [hu]
      have h2 : pickLast (u :: t) f = pickLast t u := by
        show pickLast t (if u.id == f.id then u else f) = pickLast t u
        simp [hu]
      rw [h1, h2]
      exact pickLast_self (fun v hv e => hn.1 v hv e)
    · have h1 : pickFirst (u :: t) f = pickFirst t f := by
        unfold pickFirst; simp [hu]
      have h2 : pickLast (u :: t) f = pickLast t f := by
        show pickLast t (if u.id == f.id then u else f) = pickLast t f
        simp [hu]
      rw [h1, h2]
      exact ih hn.2 f

/-! ### reading a fragment out of a filtered / mapped fragment list -/

theorem find_filter_map (l : List Frag) (R : List Nat) (g : Frag → Frag) (hg : ∀ f, (g f).id = f.id) (i : Nat) :
    ((l.filter (fun f => !R.contains f.id)).map g).find? (fun f => f.id == i)
      = if i ∈ R then none else (l.find? (fun f => f.id == i)).map g := by
  induction l with
  | nil => simp
  | cons f t ih =>
    by_cases hi : f.id = i
    · by_cases hr : f.id ∈ R
      · have hri : i ∈ R := hi ▸ hr
        rw [List.filter_cons_of_neg (by simp [hr]), ih]
        simp [hri]
      · have hri : ¬ i ∈ R := hi ▸ hr
        rw [List.filter_cons_of_pos (by simp [hr]), List.map_cons,
          List.find?_cons_of_pos (by simp [hg, hi]), List.find?_cons_of_pos (by simp [hi])]
        simp [hri]
    · by_cases hr : f.id ∈ R
      · rw [List.filter_cons_of_neg (by simp [hr]), ih, List.find?_cons_of_neg (by simp [hi])]
      · rw [List.filter_cons_of_pos (by simp [hr]), List.map_cons,
          List.find?_cons_of_neg (by simp [hg, hi]), ih, List.find?_cons_of_neg (by simp [hi])]

theorem find_filter (l : List Frag) (R : List Nat) (i : Nat) :
    (l.filter (fun f => !R.contains f.id)).find? (fun f => f.id == i)
      = if i ∈ R then none else l.find? (fun f => f.id == i) := by
  have := find_filter_map l R id (fun _ => rfl) i
  simpa using this

theorem find_newFrag (t : Table) (T : Txn) (i : Nat) :
    (newFrag t T).find? (fun f => f.id == i)
      = if T.newRows.isEmpty = false ∧ newFragId t T = i then some ⟨newFragId t T, 1, T.newRows, [], none⟩ else none := by
  unfold newFrag
  by_cases h : T.newRows.isEmpty
  · simp [h]
  · simp only [h, Bool.false_eq_true, if_false]
    by_cases hi : newFragId t T = i
    · rw [List.find?_cons_of_pos (by simp [hi])]; simp [hi]
    · rw [List.find?_cons_of_neg (by simp [hi])]; simp [hi]

theorem pickLast_cons (u : Frag) (us : List Frag) (f : Frag) :
    pickLast (u :: us) f = pickLast us (if u.id == f.id then u else f) := rfl

theorem pickLast_id (us : List Frag) (f : Frag) : (pickLast us f).id = f.id := by
  induction us generalizing f with
  | nil => rfl
  | cons u r ih =>
    rw [pickLast_cons, ih]
    by_cases hu : u.id = f.id
    · simp [hu]
    · simp [hu]

/-- reading fragment `i` out of the manifest `build_manifest` produces -/
theorem get_build (t : Table) (T : Txn) (i : Nat) :
    (build t T).get i =
      match T.kind with
      | .delete => if i ∈ T.removed then none else (t.get i).map (pickLast T.updated)
      | .update =>
        (if i ∈ T.removed then none else (t.get i).map (pickFirst T.updated)).or
          ((newFrag t T).find? (fun f => f.id == i))
      | .rewrite => (if i ∈ T.removed then none else t.get i).or ((newFrag t T).find? (fun f => f.id == i))
      | .reserve => t.get i := by
  unfold build Table.get
  cases hk : T.kind with
  | delete =>
    simp only
    exact find_filter_map _ _ _ (pickLast_id _) i
  | update =>
    simp only
    rw [List.find?_append, find_filter_map _ _ _ (pickFirst_id _) i]
  | rewrite =>
    simp only
    rw [List.find?_append, find_filter]
  | reserve => rfl

theorem newFragId_zero {t : Table} {T : Txn} (h : T.newId = 0) : newFragId t T = t.maxFrag := by
  unfold newFragId; simp [h]

end LanceModel.C04
