import LanceModel.Util
import LanceModel.C04.Model
/-
C04 driver: one table, three handles (read versions), the op lines of harness/src/bin/c04.rs.  One output line per input line.
-/
namespace LanceModel.C04.Driver
open LanceModel.Util LanceModel.C04

structure St where
  db : Option Db
  stable : Bool
  handles : List Nat
  tok : Nat

def init : St := ⟨none, false, [1, 1, 1], 1⟩

/-- decimal digits only, 1-9 characters -/
def parseNat (s : String) : Option Nat :=
  if s.isEmpty || s.length ≥ 10 || !s.all Char.isDigit then none else s.toNat?

def parseKeys (s : String) : Option (List Nat) :=
  if s = "-" then some [] else (s.splitOn ",").mapM parseNat

def parseRow (s : String) : Option Row :=
  match s.splitOn "," with
  | [k, v] => match parseNat k, parseNat v with
    | some k, some v => some ⟨k, v⟩
    | _, _ => none
  | _ => none

def parseRows (s : String) : Option (List Row) :=
  if s = "-" then some [] else (s.splitOn ";").mapM parseRow

def parseHandle (s : String) : Option Nat :=
  if s.length = 1 then
    match parseNat s with
    | some h => if h < 3 then some h else none
    | none => none
  else none

def parseFlag (s pre yes no : String) : Option Bool :=
  if s = pre ++ yes then some true else if s = pre ++ no then some false else none

/-- `f=<1-3 digits>` -/
def parseField (ff : String) : Option Nat :=
  match ff.splitOn "=" with
  | ["f", n] => if n.length ≤ 3 then parseNat n else none
  | _ => none

def distinct : List Nat → Bool
  | [] => true
  | x :: t => !t.contains x && distinct t

/-! canonical output -/

def insRow (r : Row) : List Row → List Row
  | [] => [r]
  | y :: t => if r.key < y.key || (r.key == y.key && r.v ≤ y.v) then r :: y :: t else y :: insRow r t

def sortRows (l : List Row) : List Row := l.foldr insRow []

def showRows (l : List Row) : String :=
  if l.isEmpty then "-" else ";".intercalate (l.map (fun r => toString r.key ++ "," ++ toString r.v))

def liveKeys (f : Frag) : List Nat :=
  sortNat (f.liveIdx.filterMap (fun o => (f.rows[o]?).map (·.key)))

def showFrag (f : Frag) : String :=
  toString f.id ++ ":" ++ toString f.rows.length ++ ":" ++ toString f.del.length ++ ":" ++
    (if (liveKeys f).isEmpty then "-" else "+".intercalate ((liveKeys f).map toString))

def showTable (db : Db) : String :=
  "v=" ++ toString db.version ++ " frags=" ++
    (if db.latest.frags.isEmpty then "-" else ",".intercalate (db.latest.frags.map showFrag)) ++
    " scan=" ++ showRows (sortRows db.latest.scan)

/-- `create`: fragments of `f` rows, ids 0, 1, … -/
def chunk (f : Nat) : Nat → List Row → List (List Row)
  | 0, _ => []
  | fuel + 1, rows => if rows.isEmpty then [] else rows.take f :: chunk f fuel (rows.drop f)

def mkBase (f : Nat) (rows : List Row) : Table :=
  ⟨(chunk f rows.length rows).zipIdx.map (fun (rs, i) => ⟨i, 1, rs, [], none⟩), (chunk f rows.length rows).length⟩

def setHandle (hs : List Nat) (h v : Nat) : List Nat := hs.zipIdx.map (fun (x, i) => if i = h then v else x)

def showErr : Err → String
  | .retryable => "conflict_retryable"
  | .internal => "other"

/-- a writer op on handle `h` -/
def doOp (s : St) (db : Db) (h : Nat) (op : OpKind) (withAff retry : Bool) : St × String :=
  match runOp db (s.handles.getD h 1) op withAff retry s.tok with
  | .ok db' => ({ s with db := some db', handles := setHandle s.handles h db'.version, tok := s.tok + 4 }, "ok " ++ showTable db')
  | .error e => ({ s with tok := s.tok + 4 }, "err " ++ showErr e ++ " " ++ showTable db)

def step (s : St) (line : String) : St × String :=
  match splitTokens line with
  | ["create", sf, ff, rows] =>
    match parseFlag sf "s=" "1" "0", (parseField ff), parseRows rows with
    | some stable, some f, some rows =>
      if f = 0 then (s, "err parse")
      else if s.db.isSome then (s, "err no_table")
      else if rows.isEmpty || !distinct (rows.map (·.key)) then (s, "err keys")
      else
        ({ s with db := some ⟨mkBase f rows, []⟩, stable := stable, handles := [1, 1, 1] },
         "ok " ++ showTable ⟨mkBase f rows, []⟩)
    | _, _, _ => (s, "err parse")
  | ["open", h] =>
    match parseHandle h with
    | some h =>
      match s.db with
      | some db => ({ s with handles := setHandle s.handles h db.version }, "ok v=" ++ toString db.version)
      | none => (s, "err no_table")
    | none => (s, "err parse")
  | ["compact"] =>
    match s.db with
    | some db => ({ s with db := some (compact db) }, "ok " ++ showTable (compact db))
    | none => (s, "err no_table")
  | [h, kind, fl, arg] =>
    match parseHandle h with
    | none => (s, "err parse")
    | some h =>
      if kind = "del" || kind = "upd" || kind = "fdel" then
        match (if kind = "fdel" then parseFlag fl "a=" "1" "0" else parseFlag fl "r=" "d" "0"), parseKeys arg with
        | some b, some keys =>
          match s.db with
          | none => (s, "err no_table")
          | some db =>
            if keys.isEmpty || !distinct keys then (s, "err keys")
            else if kind = "del" then doOp s db h (.del keys) true b
            else if kind = "upd" then doOp s db h (.upd keys) true b
            else doOp s db h (.del keys) b false
        | _, _ => (s, "err parse")
      else if kind = "mrg" || kind = "mrgu" || kind = "pmrg" then
        match (if kind = "mrgu" then parseFlag fl "a=" "1" "0" else parseFlag fl "r=" "d" "0"), parseRows arg with
        | some b, some rows =>
          match s.db with
          | none => (s, "err no_table")
          | some db =>
            if rows.isEmpty || !distinct (rows.map (·.key)) then (s, "err keys")
            else if kind = "mrg" then doOp s db h (.mrg rows) true b
            else if kind = "pmrg" then doOp s db h (.pmrg rows) false b
            else doOp s db h (.mrg rows) b false
        | _, _ => (s, "err parse")
      else (s, "err parse")
  | _ => (s, "err parse")

end LanceModel.C04.Driver
