import LanceModel.C04.Model
/-
C04 helper lemmas: offset sets (`insertNew`, `union`, `offsetsOf`), the pigeonhole fact behind "dv.len() == physical_rows".
-/
namespace LanceModel.C04

theorem mem_insertNew {l : List Nat} {x y : Nat} : y ∈ insertNew l x ↔ y ∈ l ∨ y = x := by
  unfold insertNew
  split
  · constructor
    · exact .inl
    · rintro (h | h)
      · exact h
      · subst h; assumption
  · simp

theorem nodup_insertNew {l : List Nat} {x : Nat} (h : l.Nodup) : (insertNew l x).Nodup := by
  unfold insertNew
  split
  · exact h
  · rename_i hx
    rw [List.nodup_append]
    refine ⟨h, by simp, ?_⟩
    intro a ha b hb
    simp at hb
    subst hb
    intro e; subst e; exact hx ha

theorem length_insertNew_ge {l : List Nat} {x : Nat} : l.length ≤ (insertNew l x).length := by
  unfold insertNew
  split <;> simp

theorem mem_union {a b : List Nat} {y : Nat} : y ∈ union a b ↔ y ∈ a ∨ y ∈ b := by
  unfold union
  induction b generalizing a with
  | nil => simp
  | cons x t ih =>
    simp only [List.foldl_cons, List.mem_cons]
    rw [ih, mem_insertNew]
    constructor
    · rintro ((h | h) | h)
      · exact .inl h
      · exact .inr (.inl h)
      · exact .inr (.inr h)
    · rintro (h | h | h)
      · exact .inl (.inl h)
      · exact .inl (.inr h)
      · exact .inr h

theorem nodup_union {a b : List Nat} (h : a.Nodup) : (union a b).Nodup := by
  unfold union
  induction b generalizing a with
  | nil => simpa
  | cons x t ih => simp only [List.foldl_cons]; exact ih (nodup_insertNew h)

theorem length_union_ge {a b : List Nat} : a.length ≤ (union a b).length := by
  unfold union
  induction b generalizing a with
  | nil => simp
  | cons x t ih =>
    simp only [List.foldl_cons]
    exact Nat.le_trans length_insertNew_ge ih

theorem length_union_gt {a b : List Nat} {x : Nat} (hx : x ∈ b) (hn : x ∉ a) : a.length < (union a b).length := by
  unfold union
  induction b generalizing a with
  | nil => simp at hx
  | cons y t ih =>
    simp only [List.foldl_cons]
    by_cases hy : x ∈ insertNew a y
    · -- x entered with y
      have : y = x := by
        rw [mem_insertNew] at hy
        rcases hy with h | h
        · exact absurd h hn
        · exact h.symm
      subst this
      have h1 : a.length < (insertNew a y).length := by
        unfold insertNew; simp [hn]
      exact Nat.lt_of_lt_of_le h1 (length_union_ge (a := insertNew a y) (b := t))
    · have hxt : x ∈ t := by
        simp only [List.mem_cons] at hx
        rcases hx with h | h
        · subst h; exact absurd (mem_insertNew.mpr (.inr rfl)) hy
        · exact h
      exact Nat.lt_of_le_of_lt length_insertNew_ge (ih hxt hy)

theorem union_nil_right {a : List Nat} : union a [] = a := rfl

theorem mem_offsetsOf {A : List Addr} {i o : Nat} : o ∈ offsetsOf A i ↔ (i, o) ∈ A := by
  unfold offsetsOf
  simp only [List.mem_map, List.mem_filter, beq_iff_eq]
  constructor
  · rintro ⟨⟨a, b⟩, ⟨h1, h2⟩, h3⟩
    simp at h2 h3
    subst h2; subst h3; exact h1
  · intro h
    exact ⟨(i, o), ⟨h, rfl⟩, rfl⟩

/-- a duplicate-free list of naturals below `n` has at most `n` elements, and exactly `n` only if it has them all -/
theorem nodup_bounded {n : Nat} : ∀ {l : List Nat}, l.Nodup → (∀ x ∈ l, x < n) →
    l.length ≤ n ∧ (l.length = n → ∀ k, k < n → k ∈ l) := by
  induction n with
  | zero =>
    intro l _ hb
    cases l with
    | nil => simp
    | cons x t => exact absurd (hb x (by simp)) (by omega)
  | succ n ih =>
    intro l hn hb
    -- remove n from l
    have hf : (l.filter (fun x => x != n)).Nodup := hn.sublist List.filter_sublist
    have hfb : ∀ x ∈ l.filter (fun x => x != n), x < n := by
      intro x hx
      simp only [List.mem_filter, bne_iff_ne, ne_eq] at hx
      have := hb x hx.1
      omega
    obtain ⟨h1, h2⟩ := ih hf hfb
    have hlen : l.length ≤ (l.filter (fun x => x != n)).length + 1 := by
      clear h1 h2 hf hfb hb ih
      induction l with
      | nil => simp
      | cons y t iht =>
        rw [List.nodup_cons] at hn
        by_cases hy : y = n
        · subst hy
          have : t.filter (fun x => x != y) = t := by
            rw [List.filter_eq_self]
            intro a ha
            simp only [bne_iff_ne, ne_eq]
            intro e; subst e; exact hn.1 ha
          simp [this]
        · have := iht hn.2
          simp [hy]
          omega
    refine ⟨by omega, ?_⟩
    intro hl k hk
    have hfl : (l.filter (fun x => x != n)).length = n := by omega
    by_cases hkn : k = n
    · subst hkn
      -- n must be in l, otherwise the filter is all of l
      apply Classical.byContradiction
      intro hnot
      have : l.filter (fun x => x != k) = l := by
        rw [List.filter_eq_self]
        intro a ha
        simp only [bne_iff_ne, ne_eq]
        intro e; subst e; exact hnot ha
      rw [this] at hfl
      omega
    · have := h2 hfl k (by omega)
      exact (List.mem_filter.mp this).1

end LanceModel.C04
