import LanceModel.C04.ChainLemmas
/-
C04 helper lemmas: what a transaction built at a read version promises (`WellBuilt`), what the rebase must deliver
(`Rebased`), and the row-level effect of `build_manifest` on a rebased transaction (`effect_of_rebased`).
-/
namespace LanceModel.C04

/-- `T` was built from table `t` and kills exactly the visible rows `A` of `t` -/
structure WellBuilt (t : Table) (T : Txn) (A : List Addr) : Prop where
  kind : T.kind = .delete ∨ T.kind = .update
  newId : T.newId = 0
  nodup : (T.updated.map (·.id)).Nodup
  upd : ∀ u ∈ T.updated, ∃ f, t.get u.id = some f ∧ Extends f u ∧ (∀ o, o ∈ u.del ↔ o ∈ f.del ∨ (u.id, o) ∈ A) ∧
          ∃ o, (u.id, o) ∈ A
  rem : ∀ i ∈ T.removed, ∃ f, t.get i = some f ∧ ∀ o, o < f.rows.length → o ∈ f.del ∨ (i, o) ∈ A
  live : ∀ a ∈ A, t.live a
  cover : ∀ a ∈ A, a.1 ∈ modifiedIds T

/-- what finish_delete_update has to deliver for `build_manifest` on the CURRENT version to be right -/
structure Rebased (t0 cur : Table) (T T' : Txn) (A : List Addr) : Prop where
  kind : T'.kind = T.kind
  newRows : T'.newRows = T.newRows
  newId : T'.newId = T.newId
  ids : T'.updated.map (·.id) = T.updated.map (·.id)
  remSub : ∀ i ∈ T'.removed, i ∈ modifiedIds T
  remSup : ∀ i ∈ T.removed, i ∈ T'.removed
  present : ∀ i ∈ modifiedIds T, ∃ f c, t0.get i = some f ∧ cur.get i = some c ∧ c.rows = f.rows ∧ (∀ o ∈ f.del, o ∈ c.del)
  s1 : ∀ i ∈ modifiedIds T, ∀ c, cur.get i = some c → ∀ o ∈ c.del, (i, o) ∉ A
  s2 : ∀ i ∈ T'.removed, ∀ c, cur.get i = some c → ∀ o, o < c.rows.length → o ∈ c.del ∨ (i, o) ∈ A
  s3 : ∀ u' ∈ T'.updated, u'.id ∉ T'.removed →
        ∃ c, cur.get u'.id = some c ∧ Extends c u' ∧ ∀ o, o ∈ u'.del ↔ o ∈ c.del ∨ (u'.id, o) ∈ A

theorem mem_modifiedIds {T : Txn} {i : Nat} : i ∈ modifiedIds T ↔ (∃ u ∈ T.updated, u.id = i) ∨ i ∈ T.removed := by
  unfold modifiedIds
  simp only [List.mem_append, List.mem_map]

/-- (a) every row the transaction kills is still visible in the current version -/
theorem rebased_live {t0 cur : Table} {T T' : Txn} {A : List Addr} (hb : WellBuilt t0 T A) (hr : Rebased t0 cur T T' A) :
    ∀ a ∈ A, cur.live a := by
  intro a ha
  obtain ⟨f, hf, hlt, hnd⟩ := hb.live a ha
  have hm := hb.cover a ha
  obtain ⟨f', c, hf', hc, hrows, _⟩ := hr.present a.1 hm
  rw [hf] at hf'
  injection hf' with hf'; subst hf'
  refine ⟨c, hc, by rw [hrows]; exact hlt, ?_⟩
  intro hmem
  exact hr.s1 a.1 hm c hc a.2 hmem ha

theorem live_iff {t : Table} {a : Addr} {c : Frag} (h : t.get a.1 = some c) :
    t.live a ↔ a.2 < c.rows.length ∧ a.2 ∉ c.del := by
  unfold Table.live
  constructor
  · rintro ⟨f, hf, h1, h2⟩
    rw [h] at hf; injection hf with hf; subst hf
    exact ⟨h1, h2⟩
  · rintro ⟨h1, h2⟩
    exact ⟨c, h, h1, h2⟩

theorem not_live_of_none {t : Table} {a : Addr} (h : t.get a.1 = none) : ¬ t.live a := by
  rintro ⟨f, hf, _⟩
  rw [h] at hf; cases hf

theorem exists_updated_of_ids {T T' : Txn} (hids : T'.updated.map (·.id) = T.updated.map (·.id)) {i : Nat} :
    (∃ u ∈ T.updated, u.id = i) ↔ (∃ u' ∈ T'.updated, u'.id = i) := by
  have : i ∈ T.updated.map (·.id) ↔ i ∈ T'.updated.map (·.id) := by rw [hids]
  simpa [List.mem_map] using this

/-- reading the new fragment of an Update -/
theorem get_build_new {cur : Table} {T' : Txn} (hw : cur.WF) (hk : T'.kind = .delete ∨ T'.kind = .update)
    (hz : T'.newId = 0) {i : Nat} (hn : cur.get i = none) (hr : i ∉ T'.removed) :
    (build cur T').get i =
      if T'.kind = .update ∧ T'.newRows.isEmpty = false ∧ i = cur.maxFrag
      then some ⟨cur.maxFrag, 1, T'.newRows, [], none⟩ else none := by
  rw [get_build]
  rcases hk with hk | hk
  · simp [hk, hr, hn]
  · simp only [hk, hr, if_false, hn, Option.map_none, Option.none_or, find_newFrag, newFragId_zero hz, true_and]
    by_cases h : T'.newRows.isEmpty = false ∧ cur.maxFrag = i
    · rw [if_pos h, if_pos ⟨h.1, h.2.symm⟩]
    · rw [if_neg h, if_neg (fun h' => h ⟨h'.1, h'.2.symm⟩)]

/-- (b) the visible rows after the commit: the current ones minus the killed ones plus the new fragment -/
theorem rebased_effect {t0 cur : Table} {T T' : Txn} {A : List Addr} (hw : cur.WF) (hb : WellBuilt t0 T A)
    (hr : Rebased t0 cur T T' A) (a : Addr) :
    (build cur T').live a ↔
      (cur.live a ∧ a ∉ A) ∨ (T.kind = .update ∧ a.1 = cur.maxFrag ∧ a.2 < T.newRows.length) := by
  have hk' : T'.kind = .delete ∨ T'.kind = .update := by rw [hr.kind]; exact hb.kind
  have hz' : T'.newId = 0 := by rw [hr.newId]; exact hb.newId
  have hnd' : (T'.updated.map (·.id)).Nodup := by rw [hr.ids]; exact hb.nodup
  by_cases hm : a.1 ∈ modifiedIds T
  · obtain ⟨f, c, hf, hc, hrows, hsub⟩ := hr.present a.1 hm
    have hlt : a.1 < cur.maxFrag := get_lt hw hc
    have hne : ¬ (T.kind = .update ∧ a.1 = cur.maxFrag ∧ a.2 < T.newRows.length) := by
      rintro ⟨_, h, _⟩; omega
    by_cases hrm : a.1 ∈ T'.removed
    · -- the fragment is removed
      have hg : (build cur T').get a.1 = none := by
        rw [get_build]
        rcases hk' with hk | hk
        · simp [hk, hrm]
        · simp only [hk, hrm, if_true, Option.none_or, find_newFrag, newFragId_zero hz']
          rw [if_neg]
          rintro ⟨_, h⟩; omega
      constructor
      · intro h; exact absurd h (not_live_of_none hg)
      · rintro (⟨hl, hna⟩ | h)
        · exfalso
          rw [live_iff hc] at hl
          rcases hr.s2 a.1 hrm c hc a.2 hl.1 with h | h
          · exact hl.2 h
          · exact hna h
        · exact absurd h hne
    · -- the fragment is updated
      have hex : ∃ u ∈ T.updated, u.id = a.1 := by
        rcases mem_modifiedIds.mp hm with h | h
        · exact h
        · exact absurd (hr.remSup a.1 h) hrm
      obtain ⟨u', hu', hui⟩ := (exists_updated_of_ids hr.ids).mp hex
      obtain ⟨c', hc', hext, hdel⟩ := hr.s3 u' hu' (by rw [hui]; exact hrm)
      rw [hui, hc] at hc'
      injection hc' with hc'; subst hc'
      have hg : (build cur T').get a.1 = some u' := get_build_updated hk' hnd' hc hrm hu' hui
      rw [live_iff hg, live_iff hc, hext.2.2.1, hdel a.2, hui]
      constructor
      · rintro ⟨h1, h2⟩
        exact .inl ⟨⟨h1, fun h => h2 (.inl h)⟩, fun h => h2 (.inr h)⟩
      · rintro (⟨⟨h1, h2⟩, h3⟩ | h)
        · exact ⟨h1, fun h => h.elim h2 h3⟩
        · exact absurd h hne
  · -- the transaction does not touch this fragment
    have hna : a ∉ A := fun h => hm (hb.cover a h)
    have hrm : a.1 ∉ T'.removed := fun h => hm (hr.remSub a.1 h)
    have hnu : ∀ u' ∈ T'.updated, u'.id ≠ a.1 := by
      intro u' hu' e
      apply hm
      exact mem_modifiedIds.mpr (.inl ((exists_updated_of_ids hr.ids).mpr ⟨u', hu', e⟩))
    cases hc : cur.get a.1 with
    | some c =>
      have hlt : a.1 < cur.maxFrag := get_lt hw hc
      have hg := get_build_untouched (o := T') hc hrm hnu
      rw [live_iff hg, live_iff hc]
      constructor
      · intro h; exact .inl ⟨h, hna⟩
      · rintro (⟨h, _⟩ | ⟨_, h, _⟩)
        · exact h
        · omega
    | none =>
      have hg := get_build_new hw hk' hz' hc hrm
      constructor
      · intro hl
        right
        by_cases hcond : T'.kind = .update ∧ T'.newRows.isEmpty = false ∧ a.1 = cur.maxFrag
        · rw [if_pos hcond] at hg
          rw [live_iff hg] at hl
          simp only at hl
          exact ⟨by rw [← hr.kind]; exact hcond.1, hcond.2.2, by rw [← hr.newRows]; exact hl.1⟩
        · rw [if_neg hcond] at hg
          exact absurd hl (not_live_of_none hg)
      · rintro (⟨hl, _⟩ | ⟨h1, h2, h3⟩)
        · exact absurd hl (not_live_of_none hc)
        · have hcond : T'.kind = .update ∧ T'.newRows.isEmpty = false ∧ a.1 = cur.maxFrag := by
            refine ⟨by rw [hr.kind]; exact h1, ?_, h2⟩
            rw [hr.newRows]
            cases hnr : T.newRows with
            | nil => rw [hnr] at h3; simp at h3
            | cons x xs => rfl
          rw [if_pos hcond] at hg
          rw [live_iff hg]
          simp only [List.not_mem_nil, not_false_eq_true, and_true]
          rw [hr.newRows]; exact h3

/-- (c) stored rows never change; the new fragment holds the transaction's new rows -/
theorem rebased_rows {t0 cur : Table} {T T' : Txn} {A : List Addr} (hw : cur.WF) (hb : WellBuilt t0 T A)
    (hr : Rebased t0 cur T T' A) (a : Addr) (hl : (build cur T').live a) :
    (build cur T').rowAt a =
      if a.1 = cur.maxFrag then T.newRows[a.2]? else cur.rowAt a := by
  have hk' : T'.kind = .delete ∨ T'.kind = .update := by rw [hr.kind]; exact hb.kind
  have hz' : T'.newId = 0 := by rw [hr.newId]; exact hb.newId
  have hnd' : (T'.updated.map (·.id)).Nodup := by rw [hr.ids]; exact hb.nodup
  cases hc : cur.get a.1 with
  | some c =>
    have hlt : a.1 < cur.maxFrag := get_lt hw hc
    rw [if_neg (by omega)]
    have hrm : a.1 ∉ T'.removed := by
      intro hrm
      have hg : (build cur T').get a.1 = none := by
        rw [get_build]
        rcases hk' with hk | hk
        · simp [hk, hrm]
        · simp only [hk, hrm, if_true, Option.none_or, find_newFrag, newFragId_zero hz']
          rw [if_neg]
          rintro ⟨_, h⟩; omega
      exact not_live_of_none hg hl
    by_cases hex : ∃ u' ∈ T'.updated, u'.id = a.1
    · obtain ⟨u', hu', hui⟩ := hex
      obtain ⟨c', hc', hext, _⟩ := hr.s3 u' hu' (by rw [hui]; exact hrm)
      rw [hui, hc] at hc'
      injection hc' with hc'; subst hc'
      have hg : (build cur T').get a.1 = some u' := get_build_updated hk' hnd' hc hrm hu' hui
      unfold Table.rowAt
      rw [hg, hc]
      simp only [hext.2.2.1]
    · have hnu : ∀ u' ∈ T'.updated, u'.id ≠ a.1 := fun u' hu' e => hex ⟨u', hu', e⟩
      have hg := get_build_untouched (o := T') hc hrm hnu
      unfold Table.rowAt
      rw [hg, hc]
  | none =>
    have hrm : a.1 ∉ T'.removed := by
      intro h
      obtain ⟨_, c, _, hc', _⟩ := hr.present a.1 (hr.remSub a.1 h)
      rw [hc] at hc'; cases hc'
    have hg := get_build_new hw hk' hz' hc hrm
    by_cases hcond : T'.kind = .update ∧ T'.newRows.isEmpty = false ∧ a.1 = cur.maxFrag
    · rw [if_pos hcond] at hg
      rw [if_pos hcond.2.2]
      unfold Table.rowAt
      rw [hg, hr.newRows]
    · rw [if_neg hcond] at hg
      exact absurd hl (not_live_of_none hg)

/-- the rebased transaction is recorded in the history in the form the later conflict checks rely on -/
theorem rebased_logged {t0 cur : Table} {T T' : Txn} {A : List Addr} (hb : WellBuilt t0 T A)
    (hr : Rebased t0 cur T T' A) : Logged cur T' := by
  refine ⟨fun _ => ⟨by rw [hr.ids]; exact hb.nodup, ?_, by rw [hr.newId]; exact hb.newId⟩, ?_⟩
  · intro u' hu' hnr
    obtain ⟨c, hc, hext, _⟩ := hr.s3 u' hu' hnr
    exact ⟨c, hc, .inl hext⟩
  · intro hk
    rw [hr.kind] at hk
    rcases hb.kind with h | h <;> rw [h] at hk <;> cases hk

end LanceModel.C04
